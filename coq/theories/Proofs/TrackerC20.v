(* C20, tracker level: constraints that no pair violates are a no-op; binding constraints are respected. *)
From Coq Require Import List NArith ZArith QArith Bool Lia Permutation.
From Similari Require Import Base.Num Model.Constraints Model.Tracker Proofs.ConstraintsProofs
     Proofs.TrackerBase Proofs.TrackerPredict Proofs.TrackerInv Proofs.TrackerC01.
Import ListNotations.
Open Scope N_scope.

(* the same configuration without a constraints table *)
Definition unconstrained (c : cfg) : cfg :=
  {| max_idle := max_idle c; hist_len := hist_len c; shards := shards c; thr := thr c; table := [] |}.

Lemma flat_map_ext_in {A B} (f g : A -> list B) l : (forall x, In x l -> f x = g x) -> flat_map f l = flat_map g l.
Proof.
  induction l as [|x r IH]; intro H; cbn [flat_map]; [reflexivity|].
  rewrite (H x (or_introl eq_refl)), IH; [reflexivity|]. intros y Hy. apply H. right; exact Hy.
Qed.

Lemma In_indexed_snd {A} (l : list A) i x : In (i, x) (indexed l) -> In x l.
Proof. intro H. apply In_indexed in H. eapply nth_error_In; exact H. Qed.

Section C20T.
  Variable G : N -> list N -> option Z.
  Variable D2R : N -> list N -> Q.
  Variable solve : solver.
  Variable c : cfg.

  Notation c0 := (unconstrained c).

  (* no pair that the call considers (detection x relevant live track) violates the table *)
  Definition nonbinding_call (st : tstate) (scene : N) (dets : list detection) : Prop :=
    forall d t, In d dets -> In t (pc_rel c (prologue c st) scene) ->
      constraint_ok c (absdiff (pc_epoch (prologue c st) scene) (t_last t)) (D2R (d_uid d) (g_dets t)) = true.

  Definition nonbinding_step (st : tstate) (op : top) : Prop :=
    match op with Predict scene dets => nonbinding_call st scene dets | _ => True end.

  Lemma constraint_ok_unconstrained gap dist :
    constraint_ok c gap dist = true -> constraint_ok c0 gap dist = true.
  Proof.
    unfold constraint_ok, validate. cbn [table unconstrained find].
    destruct (SimilariGen.Scalar.validate_dist_pre Qops dist); [reflexivity|discriminate].
  Qed.

  Lemma prologue_unconstrained st : prologue c0 st = prologue c st.
  Proof. reflexivity. Qed.

  Lemma predict_core_unconstrained st scene dets :
    (forall d t, In d dets -> In t (pc_rel c st scene) ->
       constraint_ok c (absdiff (pc_epoch st scene) (t_last t)) (D2R (d_uid d) (g_dets t)) = true) ->
    predict_core G D2R solve c0 st scene dets = predict_core G D2R solve c st scene dets.
  Proof.
    intro H. rewrite !predict_core_unfold.
    change (pc_rel c0 st scene) with (pc_rel c st scene).
    assert (Hp : all_pairs G D2R c0 (pc_epoch st scene) (pc_rel c st scene) dets
                 = all_pairs G D2R c (pc_epoch st scene) (pc_rel c st scene) dets).
    { unfold all_pairs. apply flat_map_ext_in. intros [i d] Hd. unfold pairs_for. apply flat_map_ext_in. intros [j t] Ht.
      cbn [fst snd]. unfold pair_weight. apply In_indexed_snd in Hd, Ht.
      rewrite (H d t Hd Ht). rewrite (constraint_ok_unconstrained _ _ (H d t Hd Ht)). reflexivity. }
    assert (Hw : winners G D2R solve c0 (pc_epoch st scene) (pc_rel c st scene) dets
                 = winners G D2R solve c (pc_epoch st scene) (pc_rel c st scene) dets).
    { unfold winners. rewrite Hp. reflexivity. }
    rewrite Hw. reflexivity.
  Qed.

  Lemma tstep_unconstrained st op :
    nonbinding_step st op -> tstep G D2R solve c0 st op = tstep G D2R solve c st op.
  Proof.
    intro H. destruct op as [scene dets|scene n| |scene| |p| | |scene]; try reflexivity.
    cbn [tstep]. rewrite prologue_unconstrained. rewrite predict_core_unconstrained; [reflexivity|exact H].
  Qed.

  (* whole runs: if at no step of the constrained run a considered pair violates the table, the unconstrained
     run is the same run - outputs and states *)
  Lemma nonbinding_noop_lemma ops :
    (forall ops1 op ops2, ops = ops1 ++ op :: ops2 -> nonbinding_step (snd (trun G D2R solve c ops1)) op) ->
    trun G D2R solve c0 ops = trun G D2R solve c ops.
  Proof.
    induction ops as [|op ops IH] using rev_ind; intro H; [reflexivity|].
    unfold trun in *. rewrite !trun_from_snoc. rewrite IH.
    - rewrite tstep_unconstrained; [reflexivity|]. apply (H ops op []). reflexivity.
    - intros ops1 o ops2 E. apply (H ops1 o (ops2 ++ [op])). rewrite E. rewrite <- app_assoc. reflexivity.
  Qed.

  (* binding constraints: a continued pair passed validate *)
  Lemma binding_respected_lemma :
    solver_sound solve ->
    forall st scene dets recs st',
      reach G D2R solve c st -> tstep G D2R solve c st (Predict scene dets) = (ORecords recs, st') ->
      forall i d r, nth_error dets i = Some d -> nth_error recs i = Some r ->
        next_id st < r_id r
        \/ exists t0, In t0 (live st) /\ t_id t0 = r_id r /\ t_scene t0 = scene
                      /\ absdiff (epoch_of (epochs st) scene + 1) (t_last t0) <= max_idle c
                      /\ validate (table c) (absdiff (epoch_of (epochs st) scene + 1) (t_last t0))
                                  (D2R (d_uid d) (g_dets t0)) = Some true.
  Proof.
    intros Hsound st scene dets recs st' Hr H i d r Hd Hrr.
    pose proof (Forall2_nth _ _ _ _ _ _ (predict_spec G D2R solve c Hsound _ _ _ _ _ Hr H) Hd Hrr) as [t [Ht [Er Hc]]].
    subst r. cbn [rec_of r_id]. destruct Hc as [[t0 [wt [Hin0 [Hrel [Hpw E]]]]]|[Hb E]].
    - right. exists t0. subst t. cbn [absorb t_id].
      split; [apply (live_prologue_incl c); exact Hin0|]. split; [reflexivity|].
      unfold relevant in Hrel. apply andb_prop in Hrel. destruct Hrel as [Hs Hg]. apply N.eqb_eq in Hs. apply N.leb_le in Hg.
      split; [exact Hs|]. split; [exact Hg|].
      unfold pair_weight, constraint_ok in Hpw.
      destruct (validate (table c) (absdiff (epoch_of (epochs st) scene + 1) (t_last t0)) (D2R (d_uid d) (g_dets t0))) as [[|]|];
        try discriminate. reflexivity.
    - left. rewrite next_id_prologue in Hb. apply Hb.
  Qed.

  (* ... and validate = Some true means: not farther than the limit configured for the epoch gap (C20) *)
  Lemma validate_true_limit adds gap dist :
    run_adds [] adds = Some (table c) -> validate (table c) gap dist = Some true ->
    exists lim, applicable (concat adds) gap lim /\ match lim with Some m => (dist <= m)%Q | None => True end.
  Proof.
    intros Ha Hv.
    assert (Hpos : (0 <= dist)%Q).
    { unfold validate in Hv. destruct (SimilariGen.Scalar.validate_dist_pre Qops dist) eqn:E; [|discriminate].
      rewrite dist_pre_spec in E. apply Qle_bool_iff. exact E. }
    destruct (validate_spec_lemma adds (table c) gap dist Ha Hpos) as [lim [Hap Hval]].
    exists lim. split; [exact Hap|]. rewrite Hv in Hval. destruct lim as [m|]; [|exact I].
    inversion Hval as [E]. apply Qle_bool_iff. symmetry. exact E.
  Qed.
End C20T.
