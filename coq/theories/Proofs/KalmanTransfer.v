(* C07 - transfer: the theorems are proved for the real-number instance [Rops] of the model; the SAME Gallina
   definitions instantiated with any arithmetic that has an exact interpretation phi into R (a homomorphism for
   0, 1, +, -, *, / by non-zero, of_Q) compute the phi-preimage of the real run.  In particular the exact-rational
   instance [Qops] (phi = Q2R) that the correspondence executes satisfies the same invariants. *)
From Coq Require Import List Arith Bool ZArith QArith Qreals Reals Lra Lia.
From Similari Require Import Base.Num Model.Kalman Proofs.KalmanBase Proofs.KalmanEntries Proofs.KalmanUpdate
     Proofs.KalmanScalar Proofs.KalmanScalarUpd Proofs.KalmanRun.
Import ListNotations.
Local Open Scope R_scope.

Section Transfer.
  Variable Ops : NumOps.
  Variable phi : T Ops -> R.
  Hypothesis phi_zero : phi (zero Ops) = 0.
  Hypothesis phi_one : phi (one Ops) = 1.
  Hypothesis phi_add : forall a b, phi (add Ops a b) = phi a + phi b.
  Hypothesis phi_sub : forall a b, phi (sub Ops a b) = phi a - phi b.
  Hypothesis phi_mul : forall a b, phi (mul Ops a b) = phi a * phi b.
  Hypothesis phi_div : forall a b, phi b <> 0 -> phi (div Ops a b) = phi a / phi b.
  Hypothesis phi_of_Q : forall q, phi (of_Q Ops q) = Q2R q.

  Definition vphi (v : vec Ops) : Rvec := map phi v.
  Definition mphi (M : mat Ops) : Rmat := map (map phi) M.

  Lemma nth_phi : forall (l : list (T Ops)) i, nth i (map phi l) 0 = phi (nth i l (zero Ops)).
  Proof. intros. rewrite <- phi_zero. apply map_nth. Qed.

  Lemma vget_phi : forall v i, vgetR (vphi v) i = phi (vget v i).
  Proof. intros. unfold vget, vphi. apply nth_phi. Qed.

  Lemma mget_phi : forall M i j, mgetR (mphi M) i j = phi (mget M i j).
  Proof.
    intros. unfold mget, mphi.
    change (@nil (T Rops)) with (map phi (@nil (T Ops))). rewrite map_nth. apply nth_phi.
  Qed.

  Lemma sum_phi : forall n f, phi (sum Ops n f) = Rsum n (fun i => phi (f i)).
  Proof.
    induction n as [|n IH]; intros f; cbn [sum].
    - exact phi_zero.
    - rewrite phi_add, IH. reflexivity.
  Qed.

  Lemma vtab_phi : forall n f g, (forall i, (i < n)%nat -> phi (f i) = g i) -> vphi (vtab Ops n f) = vtab Rops n g.
  Proof.
    intros n f g H. unfold vphi, vtab. rewrite map_map. apply map_ext_in. intros a Ha.
    apply in_seq in Ha. apply H. lia.
  Qed.

  Lemma mtab_phi : forall n m f g, (forall i j, (i < n)%nat -> (j < m)%nat -> phi (f i j) = g i j) ->
      mphi (mtab Ops n m f) = mtab Rops n m g.
  Proof.
    intros n m f g H. unfold mphi, mtab. rewrite map_map. apply map_ext_in. intros a Ha. apply in_seq in Ha.
    rewrite map_map. apply map_ext_in. intros b Hb. apply in_seq in Hb. apply H; lia.
  Qed.

  Lemma mmul_phi : forall n k m A B, mphi (mmul Ops n k m A B) = mmul Rops n k m (mphi A) (mphi B).
  Proof.
    intros. unfold mmul. apply mtab_phi. intros i j _ _. rewrite sum_phi. apply Rsum_ext. intros l _.
    rewrite phi_mul, !mget_phi. reflexivity.
  Qed.
  Lemma mtrans_phi : forall n m A, mphi (mtrans Ops n m A) = mtrans Rops n m (mphi A).
  Proof. intros. unfold mtrans. apply mtab_phi. intros. rewrite mget_phi. reflexivity. Qed.
  Lemma madd_phi : forall n m A B, mphi (madd Ops n m A B) = madd Rops n m (mphi A) (mphi B).
  Proof. intros. unfold madd. apply mtab_phi. intros. rewrite phi_add, !mget_phi. reflexivity. Qed.
  Lemma msub_phi : forall n m A B, mphi (msub Ops n m A B) = msub Rops n m (mphi A) (mphi B).
  Proof. intros. unfold msub. apply mtab_phi. intros. rewrite phi_sub, !mget_phi. reflexivity. Qed.
  Lemma mvmul_phi : forall n m A v, vphi (mvmul Ops n m A v) = mvmul Rops n m (mphi A) (vphi v).
  Proof.
    intros. unfold mvmul. apply vtab_phi. intros i _. rewrite sum_phi. apply Rsum_ext. intros l _.
    rewrite phi_mul, mget_phi, vget_phi. reflexivity.
  Qed.
  Lemma vadd_phi : forall n u v, vphi (vadd Ops n u v) = vadd Rops n (vphi u) (vphi v).
  Proof. intros. unfold vadd. apply vtab_phi. intros. rewrite phi_add, !vget_phi. reflexivity. Qed.
  Lemma vsub_phi : forall n u v, vphi (vsub Ops n u v) = vsub Rops n (vphi u) (vphi v).
  Proof. intros. unfold vsub. apply vtab_phi. intros. rewrite phi_sub, !vget_phi. reflexivity. Qed.
  Lemma mdiag_phi : forall n d, mphi (mdiag Ops n d) = mdiag Rops n (vphi d).
  Proof.
    intros. unfold mdiag. apply mtab_phi. intros i j _ _. destruct (Nat.eqb i j); [apply eq_sym, vget_phi|exact phi_zero].
  Qed.
  Lemma vsq_phi : forall n v, vphi (vsq Ops n v) = vsq Rops n (vphi v).
  Proof. intros. unfold vsq, sq. apply vtab_phi. intros. rewrite phi_mul, !vget_phi. reflexivity. Qed.
  Lemma msym_phi : forall n A, mphi (msym Ops n A) = msym Rops n (mphi A).
  Proof.
    intros. unfold msym. apply mtab_phi. intros. rewrite phi_mul, phi_add, !mget_phi, phi_of_Q. reflexivity.
  Qed.
  Lemma motion_phi : forall n, mphi (motion_matrix Ops n) = motion_matrix Rops n.
  Proof.
    intros. unfold motion_matrix. apply mtab_phi. intros i j _ _.
    destruct (Nat.eqb i j); [exact phi_one|]. destruct (Nat.ltb i n && Nat.eqb j (n + i)); [exact phi_one|exact phi_zero].
  Qed.
  Lemma updmat_phi : forall n, mphi (update_matrix Ops n) = update_matrix Rops n.
  Proof.
    intros. unfold update_matrix. apply mtab_phi. intros i j _ _. destruct (Nat.eqb i j); [exact phi_one|exact phi_zero].
  Qed.

  (* forward substitution: the only place with a division *)
  Lemma fsub_phi : forall L (b : nat -> T Ops) (b' : nat -> R) i,
      (forall k, (k < i)%nat -> phi (b k) = b' k) ->
      (forall k, (k < i)%nat -> mgetR (mphi L) k k <> 0) ->
      map phi (fsub_list Ops L b i) = fsub_list Rops (mphi L) b' i.
  Proof.
    intros L b b'. induction i as [|i IH]; intros Hb Hd; [reflexivity|].
    cbn [fsub_list]. rewrite map_app. rewrite IH by (intros; first [apply Hb; lia | apply Hd; lia]). f_equal.
    cbn [map]. f_equal. rewrite phi_div.
    - rewrite phi_sub, Hb by lia. rewrite sum_phi. rewrite mget_phi.
      assert (Es : Rsum i (fun i0 => phi (mul Ops (mget L i i0) (nth i0 (fsub_list Ops L b i) (zero Ops))))
                   = Rsum i (fun l => mgetR (mphi L) i l * nth l (fsub_list Rops (mphi L) b' i) 0)).
      { apply Rsum_ext. intros l Hl. rewrite phi_mul, mget_phi.
        rewrite <- IH by (intros; first [apply Hb; lia | apply Hd; lia]). rewrite nth_phi. reflexivity. }
      rewrite Es. reflexivity.
    - rewrite <- mget_phi. apply Hd. lia.
  Qed.

  Lemma solve_lower_phi : forall n m L B,
      (forall k, (k < n)%nat -> mgetR (mphi L) k k <> 0) ->
      mphi (solve_lower Ops n m L B) = solve_lower Rops n m (mphi L) (mphi B).
  Proof.
    intros n m L B Hd. unfold solve_lower. apply mtab_phi. intros i j Hi Hj.
    rewrite !nth_map_seq by assumption. rewrite <- nth_phi.
    rewrite (fsub_phi L (fun i0 => mget B i0 j) (fun i0 => mgetR (mphi B) i0 j) n); [reflexivity| |exact Hd].
    intros k _. apply eq_sym, mget_phi.
  Qed.

  (* ---- filters ---- *)
  Variable FO : kfilter Ops.
  Variable FR : kfilter Rops.
  Hypothesis dim_eq : kdim Ops FO = kdim Rops FR.
  Hypothesis init_rel : forall z, vphi (init_std Ops FO z) = init_std Rops FR (vphi z).
  Hypothesis motion_rel : forall m, vphi (motion_std Ops FO m) = motion_std Rops FR (vphi m).
  Hypothesis proj_rel : forall m, vphi (proj_std Ops FO m) = proj_std Rops FR (vphi m).

  Definition sphi (st : kstate Ops) : kstate Rops := {| mean := vphi (mean st); cov := mphi (cov st) |}.

  Lemma initiate_phi : forall z, sphi (g_initiate Ops FO z) = g_initiate Rops FR (vphi z).
  Proof.
    intros z. unfold sphi, g_initiate. cbn [mean cov]. rewrite dim_eq. f_equal.
    - apply vtab_phi. intros i _. destruct (Nat.ltb i (kdim Rops FR)); [apply eq_sym, vget_phi|exact phi_zero].
    - rewrite mdiag_phi, vsq_phi, init_rel. reflexivity.
  Qed.

  Lemma predict_phi : forall st, sphi (g_predict Ops FO st) = g_predict Rops FR (sphi st).
  Proof.
    intros st. unfold sphi, g_predict. cbn [mean cov]. rewrite dim_eq. f_equal.
    - rewrite mvmul_phi, motion_phi. reflexivity.
    - rewrite madd_phi, !mmul_phi, mtrans_phi, motion_phi, mdiag_phi, vsq_phi, motion_rel. reflexivity.
  Qed.

  Lemma project_phi : forall m P,
      (vphi (fst (g_project Ops FO m P)), mphi (snd (g_project Ops FO m P))) = g_project Rops FR (vphi m) (mphi P).
  Proof.
    intros m P. unfold g_project. cbn [fst snd]. rewrite dim_eq. f_equal.
    - rewrite mvmul_phi, updmat_phi. reflexivity.
    - rewrite madd_phi, !mmul_phi, mtrans_phi, updmat_phi, mdiag_phi, vsq_phi, proj_rel. reflexivity.
  Qed.

  Lemma update_phi : forall st z,
      (forall k, (k < kdim Rops FR)%nat -> mgetR (Sm FR (sphi st)) k k <> 0) ->
      sphi (g_update Ops FO st z) = g_update Rops FR (sphi st) (vphi z).
  Proof.
    intros st z Hd. unfold g_update.
    pose proof (project_phi (mean st) (cov st)) as Hp.
    unfold Sm in Hd. cbn [mean cov sphi] in Hd.
    change (mean (sphi st)) with (vphi (mean st)). change (cov (sphi st)) with (mphi (cov st)).
    destruct (g_project Ops FO (mean st) (cov st)) as [pm pc].
    destruct (g_project Rops FR (vphi (mean st)) (mphi (cov st))) as [pm' pc'].
    cbn [fst snd] in Hp, Hd. injection Hp as Hpm Hpc. subst pm' pc'.
    unfold sphi. cbn [mean cov]. rewrite dim_eq.
    assert (Hg : mphi (solve_lower Ops (kdim Rops FR) (2 * kdim Rops FR) pc
                         (mtrans Ops (2 * kdim Rops FR) (kdim Rops FR)
                            (mmul Ops (2 * kdim Rops FR) (2 * kdim Rops FR) (kdim Rops FR) (cov st)
                               (mtrans Ops (kdim Rops FR) (2 * kdim Rops FR) (update_matrix Ops (kdim Rops FR))))))
                 = solve_lower Rops (kdim Rops FR) (2 * kdim Rops FR) (mphi pc)
                     (mtrans Rops (2 * kdim Rops FR) (kdim Rops FR)
                        (mmul Rops (2 * kdim Rops FR) (2 * kdim Rops FR) (kdim Rops FR) (mphi (cov st))
                           (mtrans Rops (kdim Rops FR) (2 * kdim Rops FR) (update_matrix Rops (kdim Rops FR)))))).
    { rewrite solve_lower_phi by exact Hd. rewrite mtrans_phi, mmul_phi, mtrans_phi, updmat_phi. reflexivity. }
    f_equal.
    - rewrite vadd_phi. f_equal. apply vtab_phi. intros j _. rewrite sum_phi. apply Rsum_ext. intros i _.
      rewrite phi_mul, <- vget_phi, vsub_phi, <- mget_phi, Hg. reflexivity.
    - rewrite msym_phi, msub_phi, !mmul_phi, mtrans_phi, Hg. reflexivity.
  Qed.

  Definition op_phi (op : kop Ops) : kop Rops :=
    match op with Predict => Predict | Update z => Update (vphi z) end.

  (* run transfer: along a valid real history, the Ops-run is the phi-preimage of the real run *)
  Theorem run_phi : forall ops st cs,
      sphi st = state_of Rops FR cs -> all_spd FR cs -> sf_ok FR cs (map op_phi ops) ->
      sphi (g_run Ops FO st ops) = g_run Rops FR (state_of Rops FR cs) (map op_phi ops).
  Proof.
    induction ops as [|op r IH]; intros st cs Hst Hspd Hok; [exact Hst|].
    destruct op as [|z]; cbn [map op_phi sf_ok] in *; unfold g_run; cbn [fold_left g_step].
    - rewrite predict_scalar.
      apply (IH (g_predict Ops FO st) (sf_predict Rops FR cs)).
      + rewrite predict_phi, Hst. apply predict_scalar.
      + apply predict_spd. exact Hspd.
      + exact Hok.
    - destruct Hok as [Hr Hok].
      assert (Hnz : forall k, (k < kdim Rops FR)%nat -> svar FR cs k <> 0)
        by (intros k Hk; pose proof (spd_svar FR cs Hspd k Hk); lra).
      rewrite update_scalar by exact Hnz.
      apply (IH (g_update Ops FO st z) (sf_update Rops FR cs (vphi z))).
      + rewrite update_phi.
        * rewrite Hst. apply update_scalar. exact Hnz.
        * intros k Hk. rewrite Hst. rewrite Sm_state_of by assumption. rewrite Nat.eqb_refl. apply Hnz. exact Hk.
      + apply update_spd; assumption.
      + exact Hok.
  Qed.
End Transfer.
