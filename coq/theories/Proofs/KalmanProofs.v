(* C07 - the statements used by Props/C07.v, assembled from
     KalmanBase (sums, lists, the real-number arithmetic Rops), KalmanEntries (entry-wise matrix algebra),
     KalmanUpdate (code update = textbook update for diagonal S), KalmanScalar / KalmanScalarUpd (matrix step =
     scalar step on block-diagonal states), KalmanRun (whole histories), KalmanDistance (Cholesky distance),
     KalmanVec (vector filter), and the cost conversion.
   Side conditions are expressed on the CODE-SHAPED run itself ([g_ok]). *)
From Coq Require Import List Arith Bool ZArith QArith Qreals Reals Lra Lia Psatz Permutation.
From Similari Require Import Base.Num Model.Kalman.
From Similari Require Export Proofs.KalmanBase Proofs.KalmanEntries Proofs.KalmanUpdate Proofs.KalmanScalar
     Proofs.KalmanScalarUpd Proofs.KalmanRun Proofs.KalmanDistance Proofs.KalmanSPD Proofs.KalmanVec.
From SimilariGen Require Import Consts.
From SimilariGen Require ScalarCost.
Import ListNotations.
Local Open Scope R_scope.

Section Main.
  Variable F : kfilter Rops.
  Local Notation n := (kdim Rops F).
  Local Notation N := (2 * kdim Rops F)%nat.

  (* the side condition, on the code-shaped run: whenever an update is made, the measurement-noise standard
     deviations computed from the CURRENT mean are non-zero *)
  Fixpoint g_ok (st : kstate Rops) (ops : list (kop Rops)) : Prop :=
    match ops with
    | [] => True
    | Predict :: r => g_ok (g_predict Rops F st) r
    | Update z :: r => (forall k, (k < n)%nat -> pstd F (mean st) k <> 0) /\ g_ok (g_update Rops F st z) r
    end.

  Lemma g_ok_sf_ok : forall ops cs, all_spd F cs -> g_ok (state_of Rops F cs) ops -> sf_ok F cs ops.
  Proof.
    induction ops as [|op r IH]; intros cs Hspd Hok; [exact I|].
    destruct op as [|z]; cbn [g_ok sf_ok] in *.
    - apply IH; [apply predict_spd; assumption|]. rewrite <- predict_scalar. exact Hok.
    - destruct Hok as [Hr Hok]. split; [exact Hr|].
      apply IH; [apply update_spd; assumption|]. rewrite <- update_scalar; [exact Hok|].
      intros k Hk. pose proof (spd_svar F cs Hspd k Hk). lra.
  Qed.

  Definition valid_history (z : Rvec) (ops : list (kop Rops)) : Prop :=
    init_ok F z /\ g_ok (g_initiate Rops F z) ops.

  Definition reach (z : Rvec) (ops : list (kop Rops)) : kstate Rops := g_run Rops F (g_initiate Rops F z) ops.
  Definition sreach (z : Rvec) (ops : list (kop Rops)) : list (coord Rops) :=
    sf_run Rops F (sf_initiate Rops F z) ops.

  Lemma valid_sf_ok : forall z ops, valid_history z ops -> sf_ok F (sf_initiate Rops F z) ops.
  Proof.
    intros z ops [Hi Hok]. apply g_ok_sf_ok; [apply init_spd; assumption|].
    rewrite <- initiate_scalar. exact Hok.
  Qed.

  (* run_eq_scalar *)
  Theorem run_eq_scalar_lemma : forall z ops, valid_history z ops ->
      reach z ops = state_of Rops F (sreach z ops).
  Proof.
    intros z ops H. unfold reach, sreach.
    apply (run_from_init F z ops (proj1 H) (valid_sf_ok z ops H)).
  Qed.

  Lemma reach_spd : forall z ops, valid_history z ops -> all_spd F (sreach z ops).
  Proof. intros z ops H. apply (run_from_init F z ops (proj1 H) (valid_sf_ok z ops H)). Qed.

  Theorem cov_block_diagonal_lemma : forall z ops, valid_history z ops ->
      forall i j, (i < N)%nat -> (j < N)%nat -> i <> j -> j <> (n + i)%nat -> i <> (n + j)%nat ->
      mgetR (cov (reach z ops)) i j = 0.
  Proof.
    intros z ops H i j Hi Hj H1 H2 H3. rewrite run_eq_scalar_lemma by assumption.
    rewrite state_of_cov by assumption. apply E_block_diagonal; assumption.
  Qed.

  Theorem cov_symmetric_lemma : forall z ops, valid_history z ops ->
      forall i j, (i < N)%nat -> (j < N)%nat -> mgetR (cov (reach z ops)) i j = mgetR (cov (reach z ops)) j i.
  Proof.
    intros z ops H i j Hi Hj. rewrite run_eq_scalar_lemma by assumption.
    rewrite !state_of_cov by assumption. apply E_symmetric.
  Qed.

  Theorem cov_spd_blocks_lemma : forall z ops, valid_history z ops ->
      forall k, (k < n)%nat ->
      let P := cov (reach z ops) in
      0 < mgetR P k k /\ 0 < mgetR P (n + k) (n + k)
      /\ 0 < mgetR P k k * mgetR P (n + k) (n + k) - mgetR P k (n + k) * mgetR P k (n + k).
  Proof.
    intros z ops H k Hk. cbn zeta. rewrite run_eq_scalar_lemma by assumption.
    rewrite !state_of_cov by lia. rewrite E_pp, E_vv, E_pv by assumption.
    apply (reach_spd z ops H k Hk).
  Qed.

  (* the full matrix is positive definite: x^T P x > 0 for every x that is non-zero somewhere below 2n *)
  Theorem cov_positive_definite_lemma : forall z ops, valid_history z ops ->
      forall x : nat -> R, (exists i, (i < N)%nat /\ x i <> 0) -> 0 < quad F (cov (reach z ops)) x.
  Proof.
    intros z ops H x Hx. rewrite run_eq_scalar_lemma by assumption.
    apply quad_positive; [apply reach_spd; assumption|exact Hx].
  Qed.

  (* update_eq_textbook on reachable states, run_eq_textbook for whole histories *)
  Theorem update_eq_textbook_lemma : forall z ops zz Si, valid_history z ops ->
      right_inverse F (Sm F (reach z ops)) Si ->
      g_update Rops F (reach z ops) zz = tb_update Rops F Si (reach z ops) zz.
  Proof.
    intros z ops zz Si H Hinv. revert Hinv. rewrite run_eq_scalar_lemma by assumption. intros Hinv.
    apply update_eq_textbook_diag.
    - apply Sdiag_state_of.
    - apply Psym_state_of.
    - intros i Hi. rewrite Sm_state_of by assumption. rewrite Nat.eqb_refl.
      pose proof (spd_svar F _ (reach_spd z ops H) i Hi). lra.
    - exact Hinv.
  Qed.

  Theorem run_eq_textbook_lemma : forall (minv : Rmat -> Rmat),
      (forall S, (exists Si, right_inverse F S Si) -> right_inverse F S (minv S)) ->
      forall z ops, valid_history z ops ->
      reach z ops = tb_run F minv (g_initiate Rops F z) ops.
  Proof.
    intros minv Hminv z ops H. unfold reach. rewrite initiate_scalar.
    apply run_textbook; [exact Hminv|apply init_spd; exact (proj1 H)|apply valid_sf_ok; exact H].
  Qed.

  (* distance_is_mahalanobis: on every reachable state, for every true (right) inverse Si of the projected
     covariance S, distance() = y^T Si y  with y = measurement - projected mean; and = sum_i y_i^2 / S_ii *)
  Theorem distance_is_mahalanobis_lemma : forall z ops zz Si, valid_history z ops ->
      right_inverse F (Sm F (reach z ops)) Si ->
      let y := fun i => vgetR zz i - vgetR (pmean F (reach z ops)) i in
      g_distance Rops F sqrt (reach z ops) zz = Rsum n (fun i => Rsum n (fun j => y i * mgetR Si i j * y j))
      /\ g_distance Rops F sqrt (reach z ops) zz
         = Rsum n (fun i => y i * y i / mgetR (Sm F (reach z ops)) i i).
  Proof.
    intros z ops zz Si H. cbn zeta. rewrite run_eq_scalar_lemma by assumption. intros Hinv.
    set (cs := sreach z ops) in *.
    assert (Hspd : all_spd F cs) by (apply reach_spd; assumption).
    assert (Hpos : forall i, (i < n)%nat -> 0 < mgetR (Sm F (state_of Rops F cs)) i i).
    { intros i Hi. rewrite Sm_state_of by assumption. rewrite Nat.eqb_refl. apply spd_svar; assumption. }
    assert (Hd : g_distance Rops F sqrt (state_of Rops F cs) zz
                 = Rsum n (fun i => (vgetR zz i - vgetR (pmean F (state_of Rops F cs)) i)
                                    * (vgetR zz i - vgetR (pmean F (state_of Rops F cs)) i)
                                    / mgetR (Sm F (state_of Rops F cs)) i i)).
    { rewrite distance_diag; [|apply Sdiag_state_of|exact Hpos].
      apply Rsum_ext. intros i Hi. unfold pmean. rewrite project_mean_entry by assumption. reflexivity. }
    split; [|exact Hd].
    rewrite Hd. apply Rsum_ext. intros i Hi. symmetry.
    rewrite (Rsum_single n _ i); try assumption.
    - rewrite (inverse_of_diag F _ Si (Sdiag_state_of F cs)) by
          (try assumption; intros i0 Hi0; specialize (Hpos i0 Hi0); lra).
      rewrite Nat.eqb_refl. unfold Rdiv. fixR. ring.
    - intros j Hj Hne.
      rewrite (inverse_of_diag F _ Si (Sdiag_state_of F cs)) by
          (try assumption; intros i0 Hi0; specialize (Hpos i0 Hi0); lra).
      destruct (Nat.eqb_spec i j); [congruence|]. fixR. ring.
  Qed.

  (* stationary_fixed_point: no side condition *)
  Theorem stationary_fixed_point_lemma : forall z ops, all_meas z ops ->
      forall i, (i < N)%nat -> vgetR (mean (reach z ops)) i = if Nat.ltb i n then vgetR z i else 0.
  Proof.
    intros z ops Hall. apply (stationary_run F z ops); [apply at_rest_initiate|exact Hall].
  Qed.
End Main.

(* ---------------------------------------------------------------------------------------------------- *)
(* the side condition for the two concrete filters                                                       *)

Lemma Q2R_pos_nz : forall q, (0 < q)%Q -> Q2R q <> 0.
Proof. intros q H. apply Qlt_Rlt in H. rewrite RMicromega.Q2R_0 in H. lra. Qed.

Section Box.
  Variables wp wv : R.
  Local Notation BF := (box_filter Rops wp wv).

  (* at every update the height entry of the current mean is non-zero *)
  Fixpoint heights_ok (st : kstate Rops) (ops : list (kop Rops)) : Prop :=
    match ops with
    | [] => True
    | Predict :: r => heights_ok (g_predict Rops BF st) r
    | Update z :: r => vgetR (mean st) 4 <> 0 /\ heights_ok (g_update Rops BF st z) r
    end.

  Lemma box_std_nz : forall w k c p i, w <> 0 -> k <> 0 -> c <> 0 -> p <> 0 -> (i < 5)%nat ->
      nth i (box_std Rops w k c p) 0 <> 0.
  Proof.
    intros w k c p i Hw Hk Hc Hp Hi. unfold box_std. simplR.
    assert (k * w * p <> 0) by (repeat apply Rmult_integral_contrapositive_currified; assumption).
    do 5 (destruct i as [|i]; [cbn [nth]; assumption|]). lia.
  Qed.

  Lemma box_valid : forall z ops, wp <> 0 -> wv <> 0 -> vgetR z 4 <> 0 ->
      heights_ok (g_initiate Rops BF z) ops -> valid_history BF z ops.
  Proof.
    intros z ops Hp Hv Hz Hok. split.
    - intros k Hk. cbn [kdim box_filter] in Hk. cbn [init_std box_filter]. unfold vget.
      destruct (Nat.ltb_spec k 5) as [Hlt|Hge].
      + rewrite app_nth1 by (cbn; lia).
        apply box_std_nz; try assumption; apply Q2R_pos_nz; reflexivity.
      + rewrite app_nth2 by (cbn; lia). cbn [length box_std].
        apply box_std_nz; try assumption; try (apply Q2R_pos_nz; reflexivity). lia.
    - revert Hok. generalize (g_initiate Rops BF z). induction ops as [|op r IH]; intros st Hok; [exact I|].
      destruct op as [|zz]; cbn [g_ok heights_ok] in *.
      + apply IH. exact Hok.
      + destruct Hok as [Hh Hok]. split; [|apply IH; exact Hok].
        intros k Hk. unfold pstd. cbn [proj_std box_filter]. unfold vget at 1.
        apply box_std_nz; try assumption; try (apply Q2R_pos_nz; reflexivity).
        simplR. lra.
  Qed.
End Box.

Section Point.
  Variables wp wv : R.
  Local Notation PF := (point_filter Rops wp wv).

  Lemma point_valid : forall z ops, wp <> 0 -> wv <> 0 -> valid_history PF z ops.
  Proof.
    intros z ops Hp Hv.
    assert (K2 : Q2R K_INIT_POS <> 0) by (apply Q2R_pos_nz; reflexivity).
    assert (K10 : Q2R K_INIT_VEL <> 0) by (apply Q2R_pos_nz; reflexivity).
    split.
    - intros k Hk. cbn [kdim point_filter] in Hk. cbn [init_std point_filter]. unfold vget, point_std. simplR.
      assert (Q2R K_INIT_POS * wp <> 0) by (apply Rmult_integral_contrapositive_currified; assumption).
      assert (Q2R K_INIT_VEL * wv <> 0) by (apply Rmult_integral_contrapositive_currified; assumption).
      do 4 (destruct k as [|k]; [cbn [nth app]; assumption|]). lia.
    - generalize (g_initiate Rops PF z). induction ops as [|op r IH]; intros st; [exact I|].
      destruct op as [|zz]; cbn [g_ok].
      + apply IH.
      + split; [|apply IH]. intros k Hk. cbn [kdim point_filter] in Hk.
        unfold pstd. cbn [proj_std point_filter]. unfold vget, point_std. simplR.
        assert (1 * wp <> 0) by lra.
        do 2 (destruct k as [|k]; [cbn [nth]; assumption|]). lia.
  Qed.
End Point.

(* ---------------------------------------------------------------------------------------------------- *)
(* cost conversion (exact rationals): inverted = upper bound - direct, for EVERY distance                *)

Local Open Scope Q_scope.

Lemma cost_with_gate_consistent :
  forall gate d, cost_with_gate Qops gate d true == CHI2_UPPER_BOUND - cost_with_gate Qops gate d false.
Proof.
  intros gate d. unfold cost_with_gate, chi2_upper. cbn [negb ltb Qops of_Q sub zero].
  destruct (Qltb gate d).
  - ring.
  - rewrite Qred_correct. ring.
Qed.

(* both modes gate at the same distance: the direct cost saturates exactly when the inverted cost vanishes *)
Lemma cost_same_gate : forall gate d, 0 <= d -> d < CHI2_UPPER_BOUND ->
  (cost_with_gate Qops gate d false == CHI2_UPPER_BOUND <-> cost_with_gate Qops gate d true == 0).
Proof.
  intros gate d H0 H1. unfold cost_with_gate, chi2_upper. cbn [negb ltb Qops of_Q sub zero].
  destruct (Qltb gate d).
  - split; intros; reflexivity.
  - rewrite Qred_correct. split; intros H.
    + rewrite H in H1. exfalso. apply (Qlt_irrefl _ H1).
    + assert (d == CHI2_UPPER_BOUND) by (rewrite <- (Qplus_0_l d), <- H; ring).
      rewrite H2 in H1. exfalso. apply (Qlt_irrefl _ H1).
Qed.

(* the hand model of the cost conversion IS the function translated from the Rust source (by computation on the
   closed constants; breaks - as it should - when the translated text stops meaning the same) *)
Lemma cost_hand_model_is_translation : forall (d : Q) (inverted : bool),
    Kalman.box_calculate_cost Qops d inverted = ScalarCost.box_calculate_cost Qops d inverted
    /\ Kalman.point_calculate_cost Qops d inverted = ScalarCost.point_calculate_cost Qops d inverted.
Proof. intros d inverted. split; reflexivity. Qed.
