(* C03 - gc_unobservable: the moment at which expired tracks are moved from the live store to the wasted
   store (the auto-waste periodicity and counter) cannot be observed. *)
From Coq Require Import List NArith ZArith QArith Bool Lia Permutation.
From Similari Require Import Base.Num Model.Constraints Model.Tracker
     Proofs.TrackerBase Proofs.TrackerPredict Proofs.TrackerInv Proofs.TrackerC01 Proofs.TrackerC03.
Import ListNotations.
Open Scope N_scope.

(* collect the tracks expired w.r.t. the epoch map e, forget the auto-waste counter and period *)
Definition collect_by (c : cfg) (e : list (N * N)) (st : tstate) : tstate :=
  set_aw (set_wasted (set_live st (filter (fun t => negb (expired c e t)) (live st)))
                     (ins_all (filter (expired c e) (live st)) (wasted st))) 0 0.

Definition norm (c : cfg) (st : tstate) : tstate := collect_by c (epochs st) st.

(* operations whose OUTPUT must not depend on collection timing, and those whose successor state must not *)
Definition gc_output_op (op : top) : bool :=
  match op with ClearWasted | ActiveStats | WastedStats => false | _ => true end.
Definition gc_state_op (op : top) : bool :=
  match op with ClearWasted => false | _ => true end.

(* ------------------------------------------------------------------------------------------------ *)
Lemma ins_all_perm_eq l1 l2 :
  Permutation l1 l2 -> NoDup (map t_id l1) -> forall W, ins_all l1 W = ins_all l2 W.
Proof.
  induction 1 as [|x l l' HP IH|x y l|l l' l'' HP1 IH1 HP2 IH2]; intros Hnd W.
  - reflexivity.
  - cbn [map] in Hnd. inversion Hnd; subst. unfold ins_all in *. cbn [fold_left]. apply IH; assumption.
  - cbn [map] in Hnd. inversion Hnd as [|? ? Hy Hr]; subst. unfold ins_all. cbn [fold_left].
    rewrite ins_comm; [reflexivity|]. intro E. apply Hy. left. exact E.
  - rewrite IH1 by exact Hnd. apply IH2. eapply Permutation_NoDup; [apply Permutation_map; exact HP1|exact Hnd].
Qed.

Lemma filter_two_stage {A} (p q : A -> bool) l :
  (forall x, p x = true -> q x = true) ->
  Permutation (filter p l ++ filter q (filter (fun x => negb (p x)) l)) (filter q l).
Proof.
  intro Hpq. induction l as [|x r IH]; cbn [filter app]; [constructor|].
  destruct (p x) eqn:P; cbn [negb filter app].
  - rewrite (Hpq x P). constructor. exact IH.
  - destruct (q x); [|exact IH]. eapply Permutation_trans; [apply Permutation_sym, Permutation_middle|]. constructor. exact IH.
Qed.

Lemma filter_idem {A} (p : A -> bool) l : filter p (filter p l) = filter p l.
Proof. apply filter_all_true. intros x Hx. apply filter_In in Hx. apply Hx. Qed.

Lemma filter_sub {A} (p q : A -> bool) l :
  (forall x, In x l -> q x = true -> p x = true) -> filter q (filter p l) = filter q l.
Proof.
  intro H. rewrite filter_filter_and. apply filter_ext_in. intros x Hx.
  destruct (q x) eqn:Q; [rewrite (H x Hx Q); reflexivity|apply andb_false_r].
Qed.

Lemma filter_upd_track (p : trk -> bool) id f l :
  (forall t, In t l -> t_id t = id -> p t = true /\ p (f t) = true) ->
  filter p (upd_track id f l) = upd_track id f (filter p l).
Proof.
  unfold upd_track. induction l as [|x r IH]; intro H; cbn [map filter]; [reflexivity|].
  assert (IH' := IH (fun t Ht => H t (or_intror Ht))).
  destruct (t_id x =? id) eqn:E.
  - apply N.eqb_eq in E. destruct (H x (or_introl eq_refl) E) as [H1 H2]. rewrite H1, H2. cbn [map]. rewrite (proj2 (N.eqb_eq _ _) E). f_equal. exact IH'.
  - destruct (p x); cbn [map]; rewrite ?E, IH'; reflexivity.
Qed.

Lemma filter_upd_track_out (p : trk -> bool) id f l :
  (forall t, In t l -> t_id t = id -> p t = false /\ p (f t) = false) ->
  filter p (upd_track id f l) = filter p l.
Proof.
  unfold upd_track. induction l as [|x r IH]; intro H; cbn [map filter]; [reflexivity|].
  assert (IH' := IH (fun t Ht => H t (or_intror Ht))).
  destruct (t_id x =? id) eqn:E.
  - apply N.eqb_eq in E. destruct (H x (or_introl eq_refl) E) as [H1 H2]. rewrite H1, H2. exact IH'.
  - destruct (p x); rewrite IH'; reflexivity.
Qed.

Lemma find_track_filter (p : trk -> bool) id l :
  (forall t, In t l -> t_id t = id -> p t = true) -> find_track id (filter p l) = find_track id l.
Proof.
  unfold find_track. induction l as [|x r IH]; intro H; cbn [filter find]; [reflexivity|].
  assert (IH' := IH (fun t Ht => H t (or_intror Ht))).
  destruct (t_id x =? id) eqn:E.
  - apply N.eqb_eq in E. rewrite (H x (or_introl eq_refl) E). cbn [find]. rewrite (proj2 (N.eqb_eq _ _) E). reflexivity.
  - destruct (p x); cbn [find]; rewrite ?E; exact IH'.
Qed.

(* ------------------------------------------------------------------------------------------------ *)
Section Gc.
  Variable G : N -> list N -> option Z.
  Variable D2R : N -> list N -> Q.
  Variable solve : solver.
  Variable c : cfg.

  Notation predict_core := (predict_core G D2R solve c).
  Notation tstep := (tstep G D2R solve c).
  Notation reach := (reach G D2R solve c).
  Notation norm := (norm c).
  Notation collect_by := (collect_by c).

  Lemma collect_set_epochs e e' st : collect_by e (set_epochs st e') = set_epochs (collect_by e st) e'.
  Proof. reflexivity. Qed.

  Lemma collect_set_aw e st a b : collect_by e (set_aw st a b) = collect_by e st.
  Proof. reflexivity. Qed.

  Lemma norm_set_aw st a b : norm (set_aw st a b) = norm st.
  Proof. reflexivity. Qed.

  Lemma auto_waste_collect st : set_aw (auto_waste c st) 0 0 = norm st.
  Proof. reflexivity. Qed.

  Lemma collect_collect e0 e1 st :
    epochs_le e0 e1 -> NoDup (map t_id (live st)) -> collect_by e1 (collect_by e0 st) = collect_by e1 st.
  Proof.
    intros Hle Hnd. unfold TrackerGc.collect_by, set_aw, set_wasted, set_live.
    cbn [live wasted epochs next_id aw_cnt aw_per g_delivered g_cleared g_submitted].
    f_equal.
    - apply filter_sub. intros t _ H. apply negb_true_iff in H. apply negb_true_iff.
      destruct (expired c e0 t) eqn:E; [|reflexivity]. rewrite (expired_mono _ _ _ _ Hle E) in H. discriminate.
    - rewrite <- ins_all_app. apply ins_all_perm_eq.
      + apply filter_two_stage. intros t. apply expired_mono; exact Hle.
      + eapply Permutation_NoDup.
        * apply Permutation_map. apply Permutation_sym.
          apply (filter_two_stage (expired c e0) (expired c e1)). intros t. apply expired_mono; exact Hle.
        * apply NoDup_map_filter. exact Hnd.
  Qed.

  Lemma norm_idem st : NoDup (map t_id (live st)) -> norm (norm st) = norm st.
  Proof. intro H. unfold TrackerGc.norm at 1. cbn [epochs TrackerGc.norm TrackerGc.collect_by set_aw set_wasted set_live]. apply collect_collect; [apply epochs_le_refl|exact H]. Qed.

  Lemma norm_auto_waste st : NoDup (map t_id (live st)) -> norm (auto_waste c st) = norm st.
  Proof.
    intro H. rewrite <- (norm_set_aw (auto_waste c st) 0 0). rewrite auto_waste_collect. apply norm_idem. exact H.
  Qed.

  Lemma norm_prologue st : NoDup (map t_id (live st)) -> norm (prologue c st) = norm st.
  Proof.
    intro H. rewrite prologue_eq. destruct (aw_cnt st =? 0); rewrite norm_set_aw; [apply norm_auto_waste; exact H|reflexivity].
  Qed.

  Lemma auto_waste_norm st : NoDup (map t_id (live st)) -> auto_waste c (norm st) = norm st.
  Proof.
    intro H. pose proof (norm_idem st H) as E. rewrite <- auto_waste_collect in E.
    (* auto_waste keeps the counter fields, which are 0 0 in norm st *)
    unfold auto_waste in *. unfold Tracker.set_aw in E.
    cbn [live wasted epochs next_id aw_cnt aw_per g_delivered g_cleared g_submitted set_wasted set_live] in *.
    exact E.
  Qed.

  Lemma prologue_norm st : NoDup (map t_id (live st)) -> prologue c (norm st) = norm st.
  Proof.
    intro H. rewrite prologue_eq. change (aw_cnt (norm st)) with 0. cbn [N.eqb]. rewrite auto_waste_norm by exact H. reflexivity.
  Qed.

  (* relevant tracks are not expired w.r.t. the epochs before next_epoch *)
  Lemma relevant_alive e scene t :
    relevant c scene (epoch_of e scene + 1) t = true -> expired c e t = false /\ t_scene t = scene.
  Proof.
    rewrite expired_ltb. unfold relevant. intro H. apply andb_prop in H. destruct H as [H1 H2]. apply N.eqb_eq in H1.
    split; [|exact H1]. apply N.ltb_ge. rewrite H1. apply N.leb_le in H2. unfold absdiff in H2.
    destruct (epoch_of e scene + 1 <=? t_last t) eqn:E; [apply N.leb_le in E; lia|apply N.leb_gt in E; lia].
  Qed.

  Lemma pc_rel_norm st scene : pc_rel c (norm st) scene = pc_rel c st scene.
  Proof.
    unfold pc_rel, pc_epoch. cbn [live epochs TrackerGc.norm TrackerGc.collect_by set_aw set_wasted set_live].
    apply filter_sub. intros t _ H. apply relevant_alive in H. destruct H as [H _]. rewrite H. reflexivity.
  Qed.

  (* the loop, related states *)
  Section LoopRel.
    Variables (scene : N) (e0 : list (N * N)).
    Let epoch := epoch_of e0 scene + 1.
    Let good (t : trk) : Prop := t_scene t = scene /\ expired c e0 t = false.

    Lemma good_absorb d t : good t -> good (absorb c epoch d t).
    Proof.
      intros [H1 H2]. split; [exact H1|]. rewrite expired_ltb. cbn [absorb t_last t_scene]. rewrite H1. apply N.ltb_ge. unfold epoch. lia.
    Qed.

    Lemma good_fresh id d : good (fresh_track c id scene epoch d).
    Proof. split; [reflexivity|]. rewrite expired_ltb. cbn [fresh_track t_last t_scene]. apply N.ltb_ge. unfold epoch. lia. Qed.

    Lemma apply_one_rel a d w :
      (forall t, In t (live a) -> t_id t <= next_id a) ->
      (forall t dest, In t (live a) -> w = Some dest -> t_id t = dest -> good t) ->
      fst (apply_one c scene epoch (collect_by e0 a) (d, w)) = collect_by e0 (fst (apply_one c scene epoch a (d, w)))
      /\ snd (apply_one c scene epoch (collect_by e0 a) (d, w)) = snd (apply_one c scene epoch a (d, w)).
    Proof.
      intros Hb Hg. destruct w as [dest|].
      - assert (Hp : forall t, In t (live a) -> t_id t = dest ->
                       negb (expired c e0 t) = true /\ negb (expired c e0 (absorb c epoch d t)) = true).
        { intros t Ht E. destruct (Hg t dest Ht eq_refl E) as [G1 G2].
          destruct (good_absorb d t (conj G1 G2)) as [_ G3]. rewrite G2, G3. auto. }
        assert (Hq : forall t, In t (live a) -> t_id t = dest ->
                       expired c e0 t = false /\ expired c e0 (absorb c epoch d t) = false).
        { intros t Ht E. destruct (Hp t Ht E) as [P1 P2]. apply negb_true_iff in P1, P2. auto. }
        split.
        + rewrite !apply_one_fst_some. unfold TrackerGc.collect_by.
          cbn [live wasted epochs next_id aw_cnt aw_per g_delivered g_cleared g_submitted set_aw set_wasted set_live set_submitted].
          rewrite (filter_upd_track _ _ _ _ Hp), (filter_upd_track_out _ _ _ _ Hq). reflexivity.
        + unfold Tracker.apply_one. cbn [fst snd].
          cbn [live set_submitted set_live TrackerGc.collect_by set_aw set_wasted].
          rewrite <- (filter_upd_track _ _ _ _ Hp).
          rewrite find_track_filter; [destruct (find_track dest (upd_track dest (absorb c epoch d) (live a))); reflexivity|].
          intros t Ht E. destruct (In_upd_track_cases _ _ _ _ Ht) as [[_ Hne]|[x [Hx [Ex Et]]]]; [contradiction|].
          subst t. apply (Hp x Hx Ex).
      - assert (Hf : negb (expired c e0 (fresh_track c (next_id a + 1) scene epoch d)) = true).
        { destruct (good_fresh (next_id a + 1) d) as [_ H]. rewrite H. reflexivity. }
        split.
        + rewrite !apply_one_fst_none. unfold TrackerGc.collect_by.
          cbn [live wasted epochs next_id aw_cnt aw_per g_delivered g_cleared g_submitted set_aw set_wasted set_live set_submitted set_next_id].
          rewrite !filter_app. cbn [filter]. rewrite Hf. apply negb_true_iff in Hf. rewrite Hf. rewrite app_nil_r. reflexivity.
        + unfold Tracker.apply_one. cbn [fst snd].
          cbn [live next_id set_submitted set_live set_next_id TrackerGc.collect_by set_aw set_wasted].
          rewrite !find_track_app_fresh; try reflexivity.
          * intros t Ht E. specialize (Hb t Ht). lia.
          * intros t Ht E. apply filter_In in Ht. destruct Ht as [Ht _]. specialize (Hb t Ht). lia.
    Qed.

    Lemma apply_all_rel dws : forall a,
      NoDup (map t_id (live a)) ->
      (forall t, In t (live a) -> t_id t <= next_id a) ->
      (forall t dest, In t (live a) -> In (Some dest) (map snd dws) -> t_id t = dest -> good t) ->
      fst (apply_all c scene epoch (collect_by e0 a) dws) = collect_by e0 (fst (apply_all c scene epoch a dws))
      /\ snd (apply_all c scene epoch (collect_by e0 a) dws) = snd (apply_all c scene epoch a dws).
    Proof.
      induction dws as [|[d w] rest IH]; intros a Hnd Hb Hg.
      - split; reflexivity.
      - rewrite !apply_all_cons. cbn [fst snd].
        destruct (apply_one_rel a d w Hb) as [E1 E2].
        { intros t dest Ht Ew E. apply (Hg t dest Ht); [left; cbn [snd]; exact Ew|exact E]. }
        rewrite E1, E2.
        set (a1 := fst (apply_one c scene epoch a (d, w))).
        assert (Hnd1 : NoDup (map t_id (live a1))).
        { unfold a1. rewrite apply_one_fst. destruct w as [dest|]; cbn [live set_live set_next_id].
          - rewrite map_id_upd_track by reflexivity. exact Hnd.
          - rewrite map_app. cbn [map fresh_track t_id].
            apply (Permutation_NoDup (Permutation_cons_append _ _)). constructor; [|exact Hnd].
            intro H. apply in_map_iff in H. destruct H as [x [Hx Hxin]]. specialize (Hb x Hxin). lia. }
        assert (Hb1 : forall x, In x (live a1) -> t_id x <= next_id a1).
        { unfold a1. rewrite apply_one_fst. destruct w as [dest|]; cbn [live next_id set_live set_next_id set_submitted].
          - intros x Hx. destruct (In_upd_track_cases _ _ _ _ Hx) as [[Hx1 _]|[x0 [Hx0 [_ E]]]].
            + apply Hb; exact Hx1.
            + subst x. cbn [absorb t_id]. apply Hb; exact Hx0.
          - intros x Hx. apply in_app_or in Hx. destruct Hx as [Hx|[Hx|[]]].
            + specialize (Hb x Hx). lia.
            + subst x. cbn [fresh_track t_id]. lia. }
        assert (Hg1 : forall t dest, In t (live a1) -> In (Some dest) (map snd rest) -> t_id t = dest -> good t).
        { intros t dest Ht Hd E. unfold a1 in Ht. rewrite apply_one_fst in Ht.
          destruct w as [dw|]; cbn [live set_live set_next_id] in Ht.
          - destruct (In_upd_track_cases _ _ _ _ Ht) as [[Ht1 _]|[x [Hx [Ex Et]]]].
            + apply (Hg t dest Ht1); [right; exact Hd|exact E].
            + subst t. apply good_absorb. apply (Hg x dw Hx); [left; reflexivity|exact Ex].
          - apply in_app_or in Ht. destruct Ht as [Ht|[Ht|[]]].
            + apply (Hg t dest Ht); [right; exact Hd|exact E].
            + subst t. apply good_fresh. }
        destruct (IH a1 Hnd1 Hb1 Hg1) as [F1 F2]. rewrite F1, F2. split; reflexivity.
    Qed.
  End LoopRel.

  (* predict_core on a state and on its normal form *)
  Lemma predict_core_norm st scene dets :
    Inv c st ->
    fst (predict_core (norm st) scene dets) = fst (predict_core st scene dets)
    /\ norm (snd (predict_core (norm st) scene dets)) = norm (snd (predict_core st scene dets)).
  Proof.
    intro HI. pose proof (Inv_NoDup_live _ _ HI) as Hnd.
    rewrite !predict_core_unfold. cbn [fst snd]. rewrite pc_rel_norm.
    change (pc_epoch (norm st) scene) with (pc_epoch st scene).
    change (pc_st1 (norm st) scene) with (collect_by (epochs st) (pc_st1 st scene)).
    set (ws := winners G D2R solve c (pc_epoch st scene) (pc_rel c st scene) dets).
    destruct (apply_all_rel scene (epochs st) (combine dets ws) (pc_st1 st scene)) as [E1 E2].
    - exact Hnd.
    - intros t Ht. apply (Inv_live_id_bound _ _ _ HI Ht).
    - intros t dest Ht Hd E. cbn [live pc_st1 set_epochs] in Ht.
      assert (Hd' : In (Some dest) ws).
      { apply in_map_iff in Hd. destruct Hd as [[d w] [Ew Hin]]. cbn [snd] in Ew. subst w. eapply in_combine_r; exact Hin. }
      apply winners_in_rel in Hd'. destruct Hd' as [t' [Ht' E']]. unfold pc_rel in Ht'. apply filter_In in Ht'.
      destruct Ht' as [Hl Hr]. assert (t' = t) by (apply (NoDup_id_eq (live st)); try assumption; congruence). subst t'.
      apply relevant_alive in Hr. destruct Hr; split; assumption.
    - fold (pc_epoch st scene) in E1, E2. rewrite E1, E2. split; [reflexivity|].
      set (a' := fst (apply_all c scene (pc_epoch st scene) (pc_st1 st scene) (combine dets ws))).
      destruct (apply_all_frame c scene (pc_epoch st scene) (combine dets ws) (pc_st1 st scene)) as [A1 _].
      cbn zeta in A1. fold a' in A1. unfold TrackerGc.norm.
      change (epochs (collect_by (epochs st) a')) with (epochs a').
      apply collect_collect.
      + rewrite A1. cbn [epochs pc_st1 set_epochs]. apply epochs_le_set. unfold pc_epoch. lia.
      + assert (HI1 : Inv c (pc_st1 st scene)) by (apply Inv_pc_st1; exact HI).
        unfold a'. apply apply_all_nodup_bound; [exact Hnd|].
        intros t Ht. apply (Inv_live_id_bound _ _ _ HI1 Ht).
  Qed.

  (* one step from a state and from its normal form *)
  Lemma tstep_norm st op :
    Inv c st ->
    (gc_output_op op = true -> fst (tstep (norm st) op) = fst (tstep st op))
    /\ (gc_state_op op = true -> norm (snd (tstep (norm st) op)) = norm (snd (tstep st op))).
  Proof.
    intro HI. pose proof (Inv_NoDup_live _ _ HI) as Hnd.
    destruct op as [scene dets|scene n| |scene| |p| | |scene]; cbn [gc_output_op gc_state_op Tracker.tstep].
    - (* Predict *)
      rewrite (prologue_norm st Hnd).
      pose proof (Inv_prologue _ _ HI) as HIp. pose proof (Inv_NoDup_live _ _ HIp) as Hndp.
      destruct (predict_core_norm (prologue c st) scene dets HIp) as [P1 P2].
      rewrite (norm_prologue st Hnd) in P1, P2.
      destruct (predict_core (norm st) scene dets) as [r1 s1]. destruct (predict_core (prologue c st) scene dets) as [r2 s2].
      cbn [fst snd] in *. split; intros _; congruence.
    - (* Skip *)
      split; intros _; [reflexivity|]. cbn [snd].
      change (epochs (norm st)) with (epochs st).
      set (e1 := set_epoch (epochs st) scene (epoch_of (epochs st) scene + n)).
      rewrite !norm_auto_waste.
      + unfold TrackerGc.norm at 1 3. cbn [epochs set_epochs]. rewrite !collect_set_epochs. f_equal.
        apply collect_collect; [|exact Hnd]. unfold e1. apply epochs_le_set. lia.
      + exact Hnd.
      + cbn [live set_epochs TrackerGc.norm TrackerGc.collect_by set_aw set_wasted set_live]. apply NoDup_map_filter. exact Hnd.
    - (* Wasted *)
      rewrite (auto_waste_norm st Hnd).
      change (wasted (norm st)) with (wasted (auto_waste c st)).
      change (epochs (norm st)) with (epochs (auto_waste c st)).
      change (g_delivered (norm st)) with (g_delivered (auto_waste c st)).
      split; intros _; [reflexivity|]. cbn [snd]. reflexivity.
    - (* Idle *)
      split; intros _; [|cbn [snd]; apply norm_idem; exact Hnd]. cbn [fst]. f_equal. f_equal.
      change (live (norm st)) with (filter (fun t => negb (expired c (epochs st) t)) (live st)).
      change (epochs (norm st)) with (epochs st).
      rewrite (filter_filter_comm (idle_lookup (epochs st) scene)). rewrite filter_idem. reflexivity.
    - (* ClearWasted *)
      split; intro H; discriminate.
    - (* SetAutoWaste *)
      split; intros _; [reflexivity|]. cbn [snd]. rewrite !norm_set_aw. apply norm_idem. exact Hnd.
    - split; [intro H; discriminate|intros _]. cbn [snd]. apply norm_idem. exact Hnd.
    - split; [intro H; discriminate|intros _]. cbn [snd]. apply norm_idem. exact Hnd.
    - split; intros _; [reflexivity|]. cbn [snd]. apply norm_idem. exact Hnd.
  Qed.

  Lemma gc_unobservable_lemma st1 st2 op :
    reach st1 -> reach st2 -> norm st1 = norm st2 ->
    (gc_output_op op = true -> fst (tstep st1 op) = fst (tstep st2 op))
    /\ (gc_state_op op = true -> norm (snd (tstep st1 op)) = norm (snd (tstep st2 op))).
  Proof.
    intros H1 H2 E.
    destruct (tstep_norm st1 op (reach_Inv _ _ _ _ _ H1)) as [A1 A2].
    destruct (tstep_norm st2 op (reach_Inv _ _ _ _ _ H2)) as [B1 B2].
    rewrite E in A1, A2. split; intro H.
    - rewrite <- (A1 H), <- (B1 H). reflexivity.
    - rewrite <- (A2 H), <- (B2 H). reflexivity.
  Qed.

  (* whole runs: the same operations (none of them clear_wasted) from two reachable states with the same
     normal form give the same observable outputs *)
  Definition obs (o : tout) : option tout := match o with OStats _ => None | _ => Some o end.

  Lemma obs_eq_output op st1 st2 :
    (gc_output_op op = true -> fst (tstep st1 op) = fst (tstep st2 op)) ->
    obs (fst (tstep st1 op)) = obs (fst (tstep st2 op)).
  Proof.
    intro H. destruct op; try (rewrite (H eq_refl); reflexivity); reflexivity.
  Qed.

  Lemma ok_op_norm_eq st1 st2 op : norm st1 = norm st2 -> ok_op st1 op -> ok_op st2 op.
  Proof.
    intros E H. destruct op; try exact I.
    assert (Es : g_submitted st1 = g_submitted st2).
    { change (g_submitted (norm st1) = g_submitted (norm st2)). rewrite E. reflexivity. }
    destruct H as [Ha Hb]. split; [exact Ha|]. intros d Hd. rewrite <- Es. apply Hb; exact Hd.
  Qed.

  Lemma gc_unobservable_run ops : forall st1 st2,
    reach st1 -> reach st2 -> norm st1 = norm st2 ->
    forallb gc_state_op ops = true ->
    NoDup (ops_uids ops) -> (forall x, In x (ops_uids ops) -> ~ In x (g_submitted st1)) ->
    map obs (fst (trun_from G D2R solve c st1 ops)) = map obs (fst (trun_from G D2R solve c st2 ops))
    /\ norm (snd (trun_from G D2R solve c st1 ops)) = norm (snd (trun_from G D2R solve c st2 ops)).
  Proof.
    induction ops as [|op ops IH] using rev_ind; intros st1 st2 H1 H2 E Hall Hnd Hfr.
    - split; [reflexivity|exact E].
    - rewrite forallb_app in Hall. apply andb_prop in Hall. destruct Hall as [Hall Hop]. cbn [forallb] in Hop.
      rewrite andb_true_r in Hop.
      assert (Es : g_submitted st1 = g_submitted st2).
      { change (g_submitted (norm st1) = g_submitted (norm st2)). rewrite E. reflexivity. }
      unfold ops_uids in Hnd, Hfr. rewrite flat_map_app in Hnd, Hfr.
      fold (ops_uids ops) in Hnd, Hfr. fold (ops_uids [op]) in Hnd, Hfr.
      assert (Hfr' : forall x, In x (ops_uids ops) -> ~ In x (g_submitted st1))
        by (intros x Hx; apply Hfr, in_or_app; left; exact Hx).
      destruct (IH st1 st2 H1 H2 E Hall (NoDup_app_l _ _ Hnd) Hfr') as [I1 I2].
      destruct (trun_from_reach G D2R solve c ops st1 H1 (NoDup_app_l _ _ Hnd) Hfr') as [R1 _].
      destruct (trun_from_reach G D2R solve c ops st2 H2 (NoDup_app_l _ _ Hnd)) as [R2 _].
      { rewrite <- Es. exact Hfr'. }
      rewrite !trun_from_snoc. cbn [fst snd]. rewrite !map_app. cbn [map].
      destruct (gc_unobservable_lemma _ _ op R1 R2 I2) as [O1 O2].
      split; [|apply O2; exact Hop]. rewrite I1. f_equal. f_equal. apply obs_eq_output. exact O1.
  Qed.

  (* in particular: the periodicity of the periodic collection cannot be observed *)
  Lemma periodicity_unobservable_lemma p1 p2 ops :
    forallb gc_state_op ops = true -> NoDup (ops_uids ops) ->
    map obs (fst (trun G D2R solve c (SetAutoWaste p1 :: ops))) = map obs (fst (trun G D2R solve c (SetAutoWaste p2 :: ops))).
  Proof.
    intros Hall Hnd. unfold Tracker.trun. rewrite !trun_from_cons. cbn [fst snd Tracker.tstep map]. f_equal.
    apply gc_unobservable_run.
    - apply (reach_step _ _ _ _ init (SetAutoWaste p1)); [apply reach_init|exact I].
    - apply (reach_step _ _ _ _ init (SetAutoWaste p2)); [apply reach_init|exact I].
    - reflexivity.
    - exact Hall.
    - exact Hnd.
    - intros x _ [].
  Qed.
End Gc.
