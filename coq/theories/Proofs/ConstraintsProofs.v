(* Lemmas about Model/Constraints.v (C20). *)
From Coq Require Import List NArith QArith Bool Lia Sorted Permutation.
From Similari Require Import Base.Num Model.Constraints.
From SimilariGen Require Import Scalar.
Import ListNotations.

Local Open Scope N_scope.

Definition gaps (t : table) : list N := map fst t.
Definition lookup (g : N) (t : table) : option entry := find (fun e => fst e =? g) t.

(* --- the translated comparisons, unfolded once ------------------------------------------------ *)
Lemma gap_cmp_spec d delta : validate_gap_cmp Qops d delta = (delta <=? d).
Proof. reflexivity. Qed.
Lemma dist_cmp_spec d m : validate_dist_cmp Qops d m = Qle_bool d m.
Proof. reflexivity. Qed.
Lemma dist_pre_spec d : validate_dist_pre Qops d = Qle_bool 0 d.
Proof. reflexivity. Qed.
Lemma add_pre_spec m : add_constraints_pre Qops m = negb (Qle_bool m 0).
Proof. reflexivity. Qed.

(* --- sortedness ------------------------------------------------------------------------------- *)
Inductive sorted_le : table -> Prop :=
| sle_nil : sorted_le []
| sle_one e : sorted_le [e]
| sle_cons e x l : fst e <= fst x -> sorted_le (x :: l) -> sorted_le (e :: x :: l).

Inductive sorted_lt : table -> Prop :=
| slt_nil : sorted_lt []
| slt_one e : sorted_lt [e]
| slt_cons e x l : fst e < fst x -> sorted_lt (x :: l) -> sorted_lt (e :: x :: l).

Lemma insert_sorted e l : sorted_le l -> sorted_le (insert e l).
Proof.
  induction 1 as [|x|x y l Hxy Hs IH]; cbn [insert].
  - constructor.
  - destruct (N.leb_spec (fst e) (fst x)); repeat constructor; lia.
  - destruct (N.leb_spec (fst e) (fst x)).
    + repeat constructor; try lia; assumption.
    + cbn [insert] in IH. destruct (N.leb_spec (fst e) (fst y)).
      * repeat constructor; try lia; assumption.
      * constructor; [lia | exact IH].
Qed.

Lemma sort_sorted l : sorted_le (sort l).
Proof. induction l as [|x l IH]; cbn; [constructor | apply insert_sorted, IH]. Qed.

(* stability: the first entry with a given gap is preserved *)
Lemma lookup_insert g e l :
  lookup g (insert e l) = if fst e =? g then Some e else lookup g l.
Proof.
  unfold lookup. induction l as [|x l IH]; cbn [insert find].
  - destruct (fst e =? g); reflexivity.
  - destruct (N.leb_spec (fst e) (fst x)) as [Hle|Hgt]; cbn [find].
    + reflexivity.
    + rewrite IH. destruct (N.eqb_spec (fst x) g) as [Hx|Hx]; [|reflexivity].
      destruct (N.eqb_spec (fst e) g); [lia | reflexivity].
Qed.

Lemma lookup_sort g l : lookup g (sort l) = lookup g l.
Proof.
  induction l as [|x l IH]; [reflexivity|].
  cbn [sort fold_right]. fold (sort l). rewrite lookup_insert, IH.
  unfold lookup; cbn [find]. reflexivity.
Qed.

Lemma In_insert x e l : In x (insert e l) <-> x = e \/ In x l.
Proof.
  induction l as [|y l IH]; cbn [insert].
  - cbn; intuition.
  - destruct (fst e <=? fst y); cbn [In] in *; rewrite ?IH; intuition.
Qed.

Lemma In_sort x l : In x (sort l) <-> In x l.
Proof.
  induction l as [|y l IH]; [reflexivity|].
  cbn [sort fold_right]; fold (sort l). rewrite In_insert, IH. cbn; intuition.
Qed.

(* --- dedup ------------------------------------------------------------------------------------ *)
Lemma sorted_le_tail e l : sorted_le (e :: l) -> sorted_le l.
Proof. inversion 1; subst; [constructor | assumption]. Qed.

Lemma sorted_le_head_le e l x : sorted_le (e :: l) -> In x l -> fst e <= fst x.
Proof.
  revert e; induction l as [|y l IH]; intros e Hs Hin; [destruct Hin|].
  inversion Hs; subst. destruct Hin as [->|Hin]; [assumption|].
  specialize (IH y H3 Hin). lia.
Qed.

Lemma dedup_from_lookup k g l :
  sorted_le l -> (forall x, In x l -> k <= fst x) ->
  lookup g (dedup_from k l) = if g =? k then None else lookup g l.
Proof.
  revert k; induction l as [|x l IH]; intros k Hs Hk; cbn [dedup_from].
  - unfold lookup; cbn. destruct (g =? k); reflexivity.
  - assert (Hl : sorted_le l) by (eapply sorted_le_tail; eassumption).
    destruct (N.eqb_spec (fst x) k) as [Hxk|Hxk].
    + rewrite IH; [|assumption|intros y Hy; apply Hk; right; assumption].
      unfold lookup; cbn [find]. destruct (N.eqb_spec g k) as [Hg|Hg]; [reflexivity|].
      destruct (N.eqb_spec (fst x) g); [lia|reflexivity].
    + unfold lookup at 1; cbn [find]. fold (lookup g (dedup_from (fst x) l)).
      rewrite IH; [|assumption|intros y Hy; eapply sorted_le_head_le; eassumption].
      unfold lookup; cbn [find].
      assert (k <= fst x) by (apply Hk; left; reflexivity).
      destruct (N.eqb_spec (fst x) g) as [Hxg|Hxg].
      * destruct (N.eqb_spec g k); [lia|reflexivity].
      * destruct (N.eqb_spec g (fst x)); [lia|].
        destruct (N.eqb_spec g k) as [Hgk|Hgk]; [|reflexivity].
        (* g = k < fst x <= everything in l: not found *)
        clear IH. induction l as [|y l IHl]; [reflexivity|]. cbn [find].
        assert (fst x <= fst y) by (eapply sorted_le_head_le; [eassumption|left; reflexivity]).
        destruct (N.eqb_spec (fst y) g); [lia|].
        apply IHl.
        -- inversion Hs; subst. inversion H5; subst; [constructor|]. constructor; [lia|assumption].
        -- intros z Hz; apply Hk. destruct Hz as [->|Hz]; [left; reflexivity|right; right; assumption].
        -- eapply sorted_le_tail; eassumption.
Qed.

Lemma lookup_dedup g l : sorted_le l -> lookup g (dedup l) = lookup g l.
Proof.
  destruct l as [|x l]; [reflexivity|]. intros Hs. cbn [dedup].
  unfold lookup at 1; cbn [find]. fold (lookup g (dedup_from (fst x) l)).
  rewrite dedup_from_lookup;
    [|eapply sorted_le_tail; eassumption|intros y Hy; eapply sorted_le_head_le; eassumption].
  unfold lookup; cbn [find].
  destruct (N.eqb_spec (fst x) g) as [H1|H1]; [reflexivity|].
  destruct (N.eqb_spec g (fst x)); [lia|reflexivity].
Qed.

Lemma dedup_from_sorted k l :
  sorted_le l -> (forall x, In x l -> k <= fst x) ->
  sorted_lt (dedup_from k l) /\ (forall x, In x (dedup_from k l) -> k < fst x).
Proof.
  revert k; induction l as [|x l IH]; intros k Hs Hk; cbn [dedup_from].
  - split; [constructor | intros ? []].
  - assert (Hl : sorted_le l) by (eapply sorted_le_tail; eassumption).
    destruct (N.eqb_spec (fst x) k) as [Hxk|Hxk].
    + apply IH; [assumption|intros y Hy; apply Hk; right; assumption].
    + assert (k <= fst x) by (apply Hk; left; reflexivity).
      destruct (IH (fst x) Hl) as [Hs' Hgt]; [intros y Hy; eapply sorted_le_head_le; eassumption|].
      split.
      * destruct (dedup_from (fst x) l) as [|y r] eqn:E; [constructor|].
        constructor; [apply Hgt; left; reflexivity|assumption].
      * intros y [<-|Hy]; [lia|]. specialize (Hgt y Hy). lia.
Qed.

Lemma dedup_sorted l : sorted_le l -> sorted_lt (dedup l).
Proof.
  destruct l as [|x l]; [constructor|]. intros Hs. cbn [dedup].
  destruct (dedup_from_sorted (fst x) l) as [Hs' Hgt];
    [eapply sorted_le_tail; eassumption|intros y Hy; eapply sorted_le_head_le; eassumption|].
  destruct (dedup_from (fst x) l) as [|y r] eqn:E; [constructor|].
  constructor; [apply Hgt; left; reflexivity|assumption].
Qed.

(* --- the table invariant ----------------------------------------------------------------------
   [all] is the concatenation, in call order, of everything ever passed to add_constraints. *)
Definition tbl_ok (all t : table) : Prop :=
  sorted_lt t /\ forall g, lookup g t = lookup g all.

Lemma lookup_app g a b :
  lookup g (a ++ b) = match lookup g a with Some e => Some e | None => lookup g b end.
Proof. unfold lookup. induction a as [|x a IH]; cbn [app find]; [reflexivity|]. destruct (fst x =? g); auto. Qed.

Lemma add_constraints_ok all t cs t' :
  tbl_ok all t -> add_constraints t cs = Some t' -> tbl_ok (all ++ cs) t'.
Proof.
  intros [Hs Hl] H. unfold add_constraints in H.
  destruct (limits_positive cs); [|discriminate]. injection H as <-.
  split.
  - apply dedup_sorted, sort_sorted.
  - intros g. rewrite lookup_dedup by apply sort_sorted.
    rewrite lookup_sort, !lookup_app, Hl. reflexivity.
Qed.

Lemma run_adds_ok all t adds t' :
  tbl_ok all t -> run_adds t adds = Some t' -> tbl_ok (all ++ concat adds) t'.
Proof.
  revert all t; induction adds as [|cs adds IH]; intros all t Hok H; cbn [run_adds concat] in *.
  - injection H as <-. rewrite app_nil_r. assumption.
  - destruct (add_constraints t cs) as [t1|] eqn:E; [|discriminate].
    rewrite app_assoc. eapply IH; [|eassumption]. eapply add_constraints_ok; eassumption.
Qed.

Lemma tbl_ok_nil : tbl_ok [] [].
Proof. split; [constructor | reflexivity]. Qed.

(* --- validate on a strictly sorted table ------------------------------------------------------ *)
Lemma sorted_lt_head_lt e l x : sorted_lt (e :: l) -> In x l -> fst e < fst x.
Proof.
  revert e; induction l as [|y l IH]; intros e Hs Hin; [destruct Hin|].
  inversion Hs; subst. destruct Hin as [->|Hin]; [assumption|].
  specialize (IH y H3 Hin). lia.
Qed.

Lemma sorted_lt_tail e l : sorted_lt (e :: l) -> sorted_lt l.
Proof. inversion 1; subst; [constructor | assumption]. Qed.

Lemma find_ge_spec t delta :
  sorted_lt t ->
  match find (fun e => delta <=? fst e) t with
  | None => forall x, In x t -> fst x < delta
  | Some e => In e t /\ delta <= fst e /\ forall x, In x t -> delta <= fst x -> fst e <= fst x
  end.
Proof.
  induction t as [|y t IH]; intros Hs; cbn [find].
  - intros ? [].
  - destruct (N.leb_spec delta (fst y)) as [Hle|Hgt].
    + split; [left; reflexivity|]. split; [assumption|].
      intros x [<-|Hx] _; [lia|]. pose proof (sorted_lt_head_lt _ _ _ Hs Hx). lia.
    + specialize (IH (sorted_lt_tail _ _ Hs)).
      destruct (find (fun e => delta <=? fst e) t) as [e|].
      * destruct IH as (Hin & Hge & Hmin). split; [right; assumption|]. split; [assumption|].
        intros x [<-|Hx] Hd; [lia|]. apply Hmin; assumption.
      * intros x [<-|Hx]; [assumption|]. apply IH; assumption.
Qed.

Lemma lookup_Some_In g t e : lookup g t = Some e -> In e t /\ fst e = g.
Proof.
  unfold lookup; intros H. apply find_some in H. destruct H as [Hin Heq].
  apply N.eqb_eq in Heq. auto.
Qed.

Lemma lookup_None g t : lookup g t = None -> forall x, In x t -> fst x <> g.
Proof.
  unfold lookup; intros H x Hx Hg. eapply find_none in H; [|eassumption].
  apply N.eqb_neq in H. contradiction.
Qed.

Lemma sorted_lt_lookup t e : sorted_lt t -> In e t -> lookup (fst e) t = Some e.
Proof.
  induction t as [|y t IH]; intros Hs Hin; [destruct Hin|].
  unfold lookup; cbn [find]. destruct Hin as [->|Hin].
  - rewrite N.eqb_refl. reflexivity.
  - pose proof (sorted_lt_head_lt _ _ _ Hs Hin).
    destruct (N.eqb_spec (fst y) (fst e)); [lia|].
    apply IH; [eapply sorted_lt_tail; eassumption|assumption].
Qed.

(* The specification of "the applicable limit" in terms of the configuration history [all]. *)
Definition applicable (all : table) (delta : N) (r : option Q) : Prop :=
  match r with
  | None => forall x, In x all -> fst x < delta
  | Some m => exists g, delta <= g
                        /\ (forall x, In x all -> delta <= fst x -> g <= fst x)   (* least configured gap >= delta *)
                        /\ lookup g all = Some (g, m)                            (* first limit configured for it *)
  end.

Lemma applicable_of_table all t delta :
  tbl_ok all t ->
  applicable all delta
    (match find (fun e => delta <=? fst e) t with None => None | Some e => Some (snd e) end).
Proof.
  intros [Hs Hl]. pose proof (find_ge_spec t delta Hs) as H.
  destruct (find (fun e => delta <=? fst e) t) as [e|]; cbn [applicable].
  - destruct H as (Hin & Hge & Hmin). exists (fst e). split; [assumption|]. split.
    + intros x Hx Hd.
      (* x's gap is configured, hence also present in t *)
      destruct (lookup (fst x) all) as [e'|] eqn:E.
      * rewrite <- Hl in E. apply lookup_Some_In in E. destruct E as [Hin' Heq].
        rewrite <- Heq. apply Hmin; [assumption|lia].
      * exfalso. eapply lookup_None; [exact E|exact Hx|reflexivity].
    + rewrite <- Hl. rewrite (sorted_lt_lookup t e Hs Hin). destruct e; reflexivity.
  - intros x Hx. destruct (lookup (fst x) all) as [e'|] eqn:E.
    + rewrite <- Hl in E. apply lookup_Some_In in E. destruct E as [Hin' Heq].
      rewrite <- Heq. apply H; assumption.
    + exfalso. eapply lookup_None; [exact E|exact Hx|reflexivity].
Qed.

Lemma applicable_functional all delta r1 r2 :
  applicable all delta r1 -> applicable all delta r2 -> r1 = r2.
Proof.
  destruct r1 as [m1|], r2 as [m2|]; cbn; intros H1 H2; try reflexivity.
  - destruct H1 as (g1 & Hd1 & Hmin1 & Hl1), H2 as (g2 & Hd2 & Hmin2 & Hl2).
    destruct (lookup_Some_In _ _ _ Hl1) as [Hin1 _], (lookup_Some_In _ _ _ Hl2) as [Hin2 _].
    assert (g1 = g2).
    { specialize (Hmin1 _ Hin2 Hd2). specialize (Hmin2 _ Hin1 Hd1). cbn in *. lia. }
    subst. rewrite Hl1 in Hl2. congruence.
  - destruct H1 as (g1 & Hd1 & _ & Hl1). destruct (lookup_Some_In _ _ _ Hl1) as [Hin1 _].
    specialize (H2 _ Hin1). cbn in H2. lia.
  - destruct H2 as (g1 & Hd1 & _ & Hl1). destruct (lookup_Some_In _ _ _ Hl1) as [Hin1 _].
    specialize (H1 _ Hin1). cbn in H1. lia.
Qed.

(* --- main lemmas ------------------------------------------------------------------------------ *)
Lemma validate_spec_lemma adds t delta dist :
  run_adds [] adds = Some t ->
  (0 <= dist)%Q ->
  exists r, applicable (concat adds) delta r
            /\ validate t delta dist = Some (match r with None => true | Some m => Qle_bool dist m end).
Proof.
  intros Hrun Hd.
  pose proof (run_adds_ok [] [] adds t tbl_ok_nil Hrun) as Hok. cbn [app] in Hok.
  exists (match find (fun e => delta <=? fst e) t with None => None | Some e => Some (snd e) end).
  split; [apply applicable_of_table; assumption|].
  unfold validate. rewrite dist_pre_spec.
  assert (Hp : Qle_bool 0 dist = true) by (apply Qle_bool_iff; assumption). rewrite Hp.
  f_equal.
  assert (Hf : forall l : table, find (fun e => validate_gap_cmp Qops (fst e) delta) l = find (fun e => delta <=? fst e) l).
  { induction l as [|x l IH]; cbn [find]; [reflexivity|]. rewrite gap_cmp_spec, IH. reflexivity. }
  rewrite Hf. destruct (find (fun e => delta <=? fst e) t); reflexivity.
Qed.

Lemma validate_negative_panics t delta dist : (dist < 0)%Q -> validate t delta dist = None.
Proof.
  intros H. unfold validate. rewrite dist_pre_spec.
  destruct (Qle_bool 0 dist) eqn:E; [|reflexivity].
  apply Qle_bool_iff in E. exfalso. apply (Qlt_not_le _ _ H E).
Qed.

Lemma validate_monotone_lemma t delta d d' :
  (0 <= d)%Q -> (d <= d')%Q -> validate t delta d' = Some true -> validate t delta d = Some true.
Proof.
  intros H0 Hle. unfold validate. rewrite !dist_pre_spec.
  assert (Hp : Qle_bool 0 d = true) by (apply Qle_bool_iff; assumption).
  assert (Hp' : Qle_bool 0 d' = true) by (apply Qle_bool_iff; eapply Qle_trans; eassumption).
  rewrite Hp, Hp'.
  destruct (find (fun e => validate_gap_cmp Qops (fst e) delta) t) as [e|]; [|auto].
  rewrite !dist_cmp_spec. intros H. injection H as H. f_equal.
  apply Qle_bool_iff. apply Qle_bool_iff in H. eapply Qle_trans; eassumption.
Qed.

Lemma validate_empty_lemma delta d : (0 <= d)%Q -> validate [] delta d = Some true.
Proof.
  intros H. unfold validate. rewrite dist_pre_spec.
  assert (Hp : Qle_bool 0 d = true) by (apply Qle_bool_iff; assumption). rewrite Hp. reflexivity.
Qed.

Lemma add_nonpositive_panics t cs e :
  In e cs -> (snd e <= 0)%Q -> add_constraints t cs = None.
Proof.
  intros Hin Hle. unfold add_constraints.
  destruct (limits_positive cs) eqn:E; [|reflexivity].
  unfold limits_positive in E. rewrite forallb_forall in E. specialize (E e Hin).
  cbn beta in E. rewrite add_pre_spec in E. apply negb_true_iff in E.
  apply Qle_bool_iff in Hle. destruct (eq_true_false_abs _ Hle E).
Qed.

Lemma add_positive_ok t cs :
  (forall e, In e cs -> (0 < snd e)%Q) -> exists t', add_constraints t cs = Some t'.
Proof.
  intros H. unfold add_constraints.
  assert (E : limits_positive cs = true).
  { unfold limits_positive. apply forallb_forall. intros e He. rewrite add_pre_spec.
    apply negb_true_iff. destruct (Qle_bool (snd e) 0) eqn:E; [|reflexivity].
    apply Qle_bool_iff in E. specialize (H e He). exfalso. apply (Qlt_not_le _ _ H E). }
  rewrite E. eauto.
Qed.
