(* C07 - basic facts about the list-based vectors / matrices of Model/Kalman.v and about bounded sums,
   for the real-number instance [Rops] of the arithmetic (the theorems of C07 are stated over it). *)
From Coq Require Import List Arith Bool ZArith QArith Qreals Reals Lra Lia.
From Similari Require Import Base.Num Model.Kalman.
Import ListNotations.

(* The real-number instance of NumOps.  Not executable; comparisons go through the (classical) decidability
   of the order on R. *)
Definition Rleb (a b : R) : bool := if Rle_dec a b then true else false.
Definition Rltb (a b : R) : bool := if Rlt_dec a b then true else false.
Definition Rops : NumOps := {|
  T := R; zero := 0%R; one := 1%R;
  add := Rplus; sub := Rminus; mul := Rmult; div := Rdiv;
  opp := Ropp; abs := Rabs; max := Rmax; min := Rmin;
  leb := Rleb; ltb := Rltb;
  floor := fun x => IZR (Int_part x);
  of_Q := Q2R
|}.

Ltac simplR := cbn [T zero one add sub mul div of_Q Rops] in *.

(* ------------------------------------------------------------------------------------------------ *)
(* lists                                                                                              *)

Section Lists.
  Variable Ops : NumOps.

  Lemma nth_map_seq : forall (A : Type) (f : nat -> A) (n i : nat) (d : A),
      (i < n)%nat -> nth i (map f (seq 0 n)) d = f i.
  Proof.
    intros A f n i d H.
    rewrite nth_indep with (d' := f 0%nat) by (rewrite map_length, seq_length; exact H).
    rewrite map_nth. rewrite seq_nth by exact H. reflexivity.
  Qed.

  Lemma nth_map_seq_out : forall (A : Type) (f : nat -> A) (n i : nat) (d : A),
      (n <= i)%nat -> nth i (map f (seq 0 n)) d = d.
  Proof.
    intros. apply nth_overflow. rewrite map_length, seq_length. assumption.
  Qed.

  Lemma vget_vtab : forall n f i, (i < n)%nat -> vget (vtab Ops n f) i = f i.
  Proof. intros. unfold vget, vtab. apply nth_map_seq. assumption. Qed.

  Lemma mget_mtab : forall n m f i j, (i < n)%nat -> (j < m)%nat -> mget (mtab Ops n m f) i j = f i j.
  Proof.
    intros. unfold mget, mtab. rewrite nth_map_seq by assumption. apply nth_map_seq. assumption.
  Qed.

  Lemma vtab_ext : forall n f g, (forall i, (i < n)%nat -> f i = g i) -> vtab Ops n f = vtab Ops n g.
  Proof.
    intros. unfold vtab. apply map_ext_in. intros a Ha. apply in_seq in Ha. apply H. lia.
  Qed.

  Lemma mtab_ext : forall n m f g, (forall i j, (i < n)%nat -> (j < m)%nat -> f i j = g i j) ->
                                   mtab Ops n m f = mtab Ops n m g.
  Proof.
    intros. unfold mtab. apply map_ext_in. intros a Ha. apply in_seq in Ha.
    apply map_ext_in. intros b Hb. apply in_seq in Hb. apply H; lia.
  Qed.

  Lemma vtab_length : forall n f, length (vtab Ops n f) = n.
  Proof. intros. unfold vtab. rewrite map_length, seq_length. reflexivity. Qed.

  Lemma mtab_length : forall n m f, length (mtab Ops n m f) = n.
  Proof. intros. unfold mtab. rewrite map_length, seq_length. reflexivity. Qed.
End Lists.

(* ------------------------------------------------------------------------------------------------ *)
(* bounded sums over R                                                                                *)

Local Open Scope R_scope.

Notation Rsum := (sum Rops).

Lemma Rsum_S : forall n f, Rsum (S n) f = Rsum n f + f n.
Proof. reflexivity. Qed.

Lemma Rsum_ext : forall n f g, (forall i, (i < n)%nat -> f i = g i) -> Rsum n f = Rsum n g.
Proof.
  induction n as [|n IH]; intros f g H.
  - reflexivity.
  - rewrite !Rsum_S. rewrite (IH f g) by (intros; apply H; lia). rewrite H by lia. reflexivity.
Qed.

Lemma Rsum_zero : forall n f, (forall i, (i < n)%nat -> f i = 0) -> Rsum n f = 0.
Proof.
  induction n as [|n IH]; intros f H.
  - reflexivity.
  - rewrite Rsum_S, IH by (intros; apply H; lia). rewrite H by lia. simplR. lra.
Qed.

Lemma Rsum_single : forall n f k, (k < n)%nat -> (forall i, (i < n)%nat -> i <> k -> f i = 0) -> Rsum n f = f k.
Proof.
  induction n as [|n IH]; intros f k Hk H.
  - lia.
  - rewrite Rsum_S. destruct (Nat.eq_dec k n) as [->|Hne].
    + rewrite Rsum_zero by (intros; apply H; lia). simplR. lra.
    + rewrite (IH f k) by (try lia; intros; apply H; lia). rewrite (H n) by lia. simplR. lra.
Qed.

Lemma Rsum_two : forall n f k1 k2, (k1 < n)%nat -> (k2 < n)%nat -> k1 <> k2 ->
    (forall i, (i < n)%nat -> i <> k1 -> i <> k2 -> f i = 0) -> Rsum n f = f k1 + f k2.
Proof.
  induction n as [|n IH]; intros f k1 k2 H1 H2 Hne H.
  - lia.
  - rewrite Rsum_S. destruct (Nat.eq_dec k1 n) as [->|Hn1].
    + rewrite (Rsum_single n f k2) by (try lia; intros; apply H; lia). simplR. lra.
    + destruct (Nat.eq_dec k2 n) as [->|Hn2].
      * rewrite (Rsum_single n f k1) by (try lia; intros; apply H; lia). reflexivity.
      * rewrite (IH f k1 k2) by (try lia; intros; apply H; lia). rewrite (H n) by lia. simplR. lra.
Qed.

Lemma Rsum_plus : forall n f g, Rsum n (fun i => f i + g i) = Rsum n f + Rsum n g.
Proof.
  induction n as [|n IH]; intros f g.
  - cbn. lra.
  - rewrite !Rsum_S, IH. simplR. lra.
Qed.

Lemma Rsum_scal : forall n c f, Rsum n (fun i => c * f i) = c * Rsum n f.
Proof.
  induction n as [|n IH]; intros c f.
  - cbn. lra.
  - rewrite !Rsum_S, IH. simplR. lra.
Qed.

Lemma Rsum_nonneg : forall n f, (forall i, (i < n)%nat -> 0 <= f i) -> 0 <= Rsum n f.
Proof.
  induction n as [|n IH]; intros f H.
  - cbn. lra.
  - rewrite Rsum_S. simplR. specialize (IH f). assert (0 <= f n) by (apply H; lia).
    assert (0 <= Rsum n f) by (apply IH; intros; apply H; lia). lra.
Qed.
