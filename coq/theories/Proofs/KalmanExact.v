(* C07 - the exact-rational instance.  The box and the point filter over any exact arithmetic are related to
   their real-number instances (KalmanTransfer), so along every valid history the run over that arithmetic is
   the preimage of the real run; for [Qops] (phi = Q2R) this yields the invariants directly on the rational
   covariance that the correspondence executes. *)
From Coq Require Import List Arith Bool ZArith QArith Qreals Reals Lra Lia.
From Similari Require Import Base.Num Model.Kalman Proofs.KalmanProofs Proofs.KalmanTransfer.
Import ListNotations.
Local Open Scope R_scope.

Section ExactFilters.
  Variable Ops : NumOps.
  Variable phi : T Ops -> R.
  Hypothesis phi_zero : phi (zero Ops) = 0.
  Hypothesis phi_one : phi (one Ops) = 1.
  Hypothesis phi_add : forall a b, phi (add Ops a b) = phi a + phi b.
  Hypothesis phi_sub : forall a b, phi (sub Ops a b) = phi a - phi b.
  Hypothesis phi_mul : forall a b, phi (mul Ops a b) = phi a * phi b.
  Hypothesis phi_div : forall a b, phi b <> 0 -> phi (div Ops a b) = phi a / phi b.
  Hypothesis phi_of_Q : forall q, phi (of_Q Ops q) = Q2R q.

  Lemma box_std_phi : forall w k c p,
      map phi (box_std Ops w k c p) = box_std Rops (phi w) (phi k) (phi c) (phi p).
  Proof. intros. unfold box_std. cbn [map]. rewrite !phi_mul. reflexivity. Qed.

  Lemma point_std_phi : forall w k, map phi (point_std Ops w k) = point_std Rops (phi w) (phi k).
  Proof. intros. unfold point_std. cbn [map]. rewrite !phi_mul. reflexivity. Qed.

  Section BoxT.
    Variables wp wv : T Ops.
    Local Notation FO := (box_filter Ops wp wv).
    Local Notation FR := (box_filter Rops (phi wp) (phi wv)).

    Theorem box_run_transfer : forall z ops,
        valid_history FR (vphi Ops phi z) (map (op_phi Ops phi) ops) ->
        sphi Ops phi (g_run Ops FO (g_initiate Ops FO z) ops)
        = reach FR (vphi Ops phi z) (map (op_phi Ops phi) ops).
    Proof.
      intros z ops Hv. unfold reach. rewrite initiate_scalar.
      apply (run_phi Ops phi phi_zero phi_one phi_add phi_sub phi_mul phi_div phi_of_Q FO FR).
      - reflexivity.
      - intros m. cbn [motion_std box_filter]. unfold vphi at 1. rewrite map_app. rewrite !box_std_phi, !phi_of_Q, phi_one. rewrite <- (vget_phi Ops phi phi_zero). reflexivity.
      - intros m. cbn [proj_std box_filter]. unfold vphi at 1. rewrite box_std_phi, phi_of_Q, phi_one.
        rewrite <- (vget_phi Ops phi phi_zero). reflexivity.
      - rewrite (initiate_phi Ops phi phi_zero phi_mul FO FR); [apply initiate_scalar|reflexivity|].
        intros z0. cbn [init_std box_filter]. unfold vphi at 1. rewrite map_app. rewrite !box_std_phi, !phi_of_Q. rewrite <- (vget_phi Ops phi phi_zero). reflexivity.
      - apply init_spd. exact (proj1 Hv).
      - apply valid_sf_ok. exact Hv.
    Qed.
  End BoxT.

  Section PointT.
    Variables wp wv : T Ops.
    Local Notation FO := (point_filter Ops wp wv).
    Local Notation FR := (point_filter Rops (phi wp) (phi wv)).

    Theorem point_run_transfer : forall z ops,
        valid_history FR (vphi Ops phi z) (map (op_phi Ops phi) ops) ->
        sphi Ops phi (g_run Ops FO (g_initiate Ops FO z) ops)
        = reach FR (vphi Ops phi z) (map (op_phi Ops phi) ops).
    Proof.
      intros z ops Hv. unfold reach. rewrite initiate_scalar.
      apply (run_phi Ops phi phi_zero phi_one phi_add phi_sub phi_mul phi_div phi_of_Q FO FR).
      - reflexivity.
      - intros m. cbn [motion_std point_filter]. unfold vphi at 1. rewrite map_app. rewrite !point_std_phi, phi_one. reflexivity.
      - intros m. cbn [proj_std point_filter]. unfold vphi at 1. rewrite point_std_phi, phi_one. reflexivity.
      - rewrite (initiate_phi Ops phi phi_zero phi_mul FO FR); [apply initiate_scalar|reflexivity|].
        intros z0. cbn [init_std point_filter]. unfold vphi at 1. rewrite map_app. rewrite !point_std_phi, !phi_of_Q. reflexivity.
      - apply init_spd. exact (proj1 Hv).
      - apply valid_sf_ok. exact Hv.
    Qed.
  End PointT.
End ExactFilters.

(* ---- the rational instance ---- *)
Lemma Q2R_zero : Q2R 0 = 0.
Proof. apply RMicromega.Q2R_0. Qed.
Lemma Q2R_one : Q2R 1 = 1.
Proof. apply RMicromega.Q2R_1. Qed.
Lemma Qops_add : forall a b, Q2R (add Qops a b) = Q2R a + Q2R b.
Proof. intros. cbn [add Qops]. rewrite (Qeq_eqR _ _ (Qred_correct _)). apply Q2R_plus. Qed.
Lemma Qops_sub : forall a b, Q2R (sub Qops a b) = Q2R a - Q2R b.
Proof. intros. cbn [sub Qops]. rewrite (Qeq_eqR _ _ (Qred_correct _)). apply Q2R_minus. Qed.
Lemma Qops_mul : forall a b, Q2R (mul Qops a b) = Q2R a * Q2R b.
Proof. intros. cbn [mul Qops]. rewrite (Qeq_eqR _ _ (Qred_correct _)). apply Q2R_mult. Qed.
Lemma Qops_div : forall a b, Q2R b <> 0 -> Q2R (div Qops a b) = Q2R a / Q2R b.
Proof.
  intros a b Hb. cbn [div Qops]. rewrite (Qeq_eqR _ _ (Qred_correct _)). apply Q2R_div.
  intros Hq. apply Hb. rewrite (Qeq_eqR _ _ Hq). apply Q2R_zero.
Qed.
Lemma Qops_of_Q : forall q, Q2R (of_Q Qops q) = Q2R q.
Proof. reflexivity. Qed.

Definition q_ops_R (ops : list (kop Qops)) : list (kop Rops) := map (op_phi Qops Q2R) ops.
Definition q_vec_R (z : list Q) : Rvec := map Q2R z.

Section QBox.
  Variables wp wv : Q.
  Local Notation FQ := (box_filter Qops wp wv).
  Local Notation FR := (box_filter Rops (Q2R wp) (Q2R wv)).

  Definition q_reach_box (z : list Q) (ops : list (kop Qops)) : kstate Qops := g_run Qops FQ (g_initiate Qops FQ z) ops.

  Lemma q_box_transfer : forall z ops, valid_history FR (q_vec_R z) (q_ops_R ops) ->
      sphi Qops Q2R (q_reach_box z ops) = reach FR (q_vec_R z) (q_ops_R ops).
  Proof.
    intros z ops Hv.
    exact (box_run_transfer Qops Q2R Q2R_zero Q2R_one Qops_add Qops_sub Qops_mul Qops_div Qops_of_Q wp wv z ops Hv).
  Qed.

  Lemma q_box_entry : forall z ops, valid_history FR (q_vec_R z) (q_ops_R ops) -> forall i j,
      Q2R (mget (cov (q_reach_box z ops)) i j) = mgetR (cov (reach FR (q_vec_R z) (q_ops_R ops))) i j.
  Proof.
    intros z ops Hv i j. rewrite <- (q_box_transfer z ops Hv). cbn [sphi cov].
    symmetry. apply (mget_phi Qops Q2R Q2R_zero).
  Qed.

  Theorem q_box_block_diagonal : forall z ops, valid_history FR (q_vec_R z) (q_ops_R ops) ->
      forall i j, (i < 10)%nat -> (j < 10)%nat -> i <> j -> j <> (5 + i)%nat -> i <> (5 + j)%nat ->
      (mget (cov (q_reach_box z ops)) i j == 0)%Q.
  Proof.
    intros z ops Hv i j Hi Hj H1 H2 H3. apply eqR_Qeq. rewrite q_box_entry by exact Hv. rewrite Q2R_zero.
    apply (cov_block_diagonal_lemma FR _ _ Hv i j); assumption.
  Qed.

  Theorem q_box_symmetric : forall z ops, valid_history FR (q_vec_R z) (q_ops_R ops) ->
      forall i j, (i < 10)%nat -> (j < 10)%nat ->
      (mget (cov (q_reach_box z ops)) i j == mget (cov (q_reach_box z ops)) j i)%Q.
  Proof.
    intros z ops Hv i j Hi Hj. apply eqR_Qeq. rewrite !q_box_entry by exact Hv.
    apply (cov_symmetric_lemma FR _ _ Hv i j); assumption.
  Qed.

  Theorem q_box_spd : forall z ops, valid_history FR (q_vec_R z) (q_ops_R ops) ->
      forall k, (k < 5)%nat ->
      let P := cov (q_reach_box z ops) in
      (0 < mget P k k /\ 0 < mget P (5 + k) (5 + k)
       /\ 0 < mget P k k * mget P (5 + k) (5 + k) - mget P k (5 + k) * mget P k (5 + k))%Q.
  Proof.
    intros z ops Hv k Hk. cbn zeta.
    destruct (cov_spd_blocks_lemma FR _ _ Hv k Hk) as (Ha & Hc & Hd). cbn zeta in Ha, Hc, Hd.
    change (kdim Rops FR) with 5%nat in Ha, Hc, Hd.
    rewrite <- (q_box_entry z ops Hv k k) in Ha, Hd.
    rewrite <- (q_box_entry z ops Hv (5 + k) (5 + k)) in Hc, Hd.
    rewrite <- (q_box_entry z ops Hv k (5 + k)) in Hd.
    repeat split; apply Rlt_Qlt; rewrite Q2R_zero; try assumption.
    rewrite Q2R_minus, !Q2R_mult. exact Hd.
  Qed.
End QBox.
