(* C04 - scene isolation: lemmas.
   [view c s st] = what scene s can see of the tracker: its epoch and its unexpired live tracks WITHOUT their
   ids (a track's run-independent name is the uid of its first detection, DESIGN.md 2.2). *)
From Coq Require Import List NArith ZArith QArith Bool Lia Permutation.
From Similari Require Import Base.Num Model.Constraints Model.Tracker
     Proofs.TrackerBase Proofs.TrackerPredict Proofs.TrackerInv Proofs.TrackerC01 Proofs.TrackerC03 Proofs.TrackerGc.
Import ListNotations.
Open Scope N_scope.

Definition canon (t : trk) : trk :=
  {| t_id := 0; t_scene := t_scene t; t_last := t_last t; t_len := t_len t; t_custom := t_custom t;
     t_obs := t_obs t; t_pred := t_pred t; g_dets := g_dets t |}.

Definition canon_rec (r : rec) : rec :=
  {| r_id := 0; r_epoch := r_epoch r; r_scene := r_scene r; r_len := r_len r; r_custom := r_custom r;
     r_obs := r_obs r; r_pred := r_pred r; r_name := r_name r |}.

Definition canon_out (o : tout) : tout :=
  match o with
  | ORecords l => ORecords (map canon_rec l)
  | OIdle l => OIdle (map canon_rec l)
  | _ => o
  end.

Definition qv (c : cfg) (s : N) (e : list (N * N)) (t : trk) : bool :=
  (t_scene t =? s) && negb (expired c e t).

Definition view (c : cfg) (s : N) (st : tstate) : N * list trk :=
  (epoch_of (epochs st) s, map canon (filter (qv c s (epochs st)) (live st))).

(* the operations addressed to scene s *)
Definition scene_op (s : N) (op : top) : bool :=
  match op with
  | Predict s' _ | Skip s' _ | Idle s' | CurrentEpoch s' => s' =? s
  | _ => false
  end.

Definition filter_ops (s : N) (ops : list top) : list top := filter (scene_op s) ops.

Lemma canon_rec_of t : canon_rec (rec_of t) = rec_of (canon t).
Proof. reflexivity. Qed.

Lemma qv_ext c s e1 e2 t : epoch_of e1 s = epoch_of e2 s -> qv c s e1 t = qv c s e2 t.
Proof.
  intro H. unfold qv. rewrite !expired_ltb. destruct (t_scene t =? s) eqn:E; cbn [andb]; [|reflexivity].
  apply N.eqb_eq in E. rewrite E, H. reflexivity.
Qed.

Lemma filter_qv_ext c s e1 e2 l : epoch_of e1 s = epoch_of e2 s -> filter (qv c s e1) l = filter (qv c s e2) l.
Proof. intro H. apply filter_ext. intro t. apply qv_ext; exact H. Qed.

Section C04.
  Variable G : N -> list N -> option Z.
  Variable D2R : N -> list N -> Q.
  Variable solve : solver.
  Variable c : cfg.

  Notation predict_core := (predict_core G D2R solve c).
  Notation tstep := (tstep G D2R solve c).
  Notation reach := (reach G D2R solve c).
  Notation trun := (trun G D2R solve c).
  Notation view := (view c).

  (* --- a detection of one scene is never attached to a track of another scene --------------------- *)
  Lemma no_cross_scene_attach_lemma :
    solver_sound solve ->
    forall st scene dets recs st',
      reach st -> tstep st (Predict scene dets) = (ORecords recs, st') ->
      forall r, In r recs ->
        r_scene r = scene
        /\ ((exists t0, In t0 (live st) /\ t_id t0 = r_id r /\ t_scene t0 = scene) \/ next_id st < r_id r)
        /\ (exists t, In t (live st') /\ t_id t = r_id r /\ t_scene t = scene).
  Proof.
    intros Hsound st scene dets recs st' Hr H r Hin.
    destruct (Forall2_In_r _ _ _ _ (predict_spec G D2R solve c Hsound _ _ _ _ _ Hr H) Hin) as [d [_ Hs]].
    pose proof (rec_spec_fields G D2R c _ _ _ _ _ _ (live_ok_prologue G D2R solve c st Hr) Hs)
      as [_ [_ [_ [Hsc [_ [t [Ht [Eid [_ [_ [Ets _]]]]]]]]]]].
    split; [exact Hsc|]. split.
    - destruct (new_ids_fresh_lemma G D2R solve c Hsound _ _ _ _ _ Hr H r Hin) as [A|A]; [left; exact A|right; apply A].
    - exists t. auto.
  Qed.

  (* --- operations that are not addressed to scene s do not change what scene s sees ----------------- *)

  Lemma view_auto_waste s st : view s (auto_waste c st) = view s st.
  Proof.
    unfold TrackerC04.view, auto_waste. cbn [epochs live set_wasted set_live]. f_equal. f_equal.
    apply filter_sub. intros t _ H. unfold qv in H. apply andb_prop in H. apply H.
  Qed.

  Lemma view_prologue s st : view s (prologue c st) = view s st.
  Proof.
    rewrite prologue_eq. destruct (aw_cnt st =? 0).
    - change (view s (set_aw (auto_waste c st) (aw_per (auto_waste c st)) (aw_per (auto_waste c st))))
        with (view s (auto_waste c st)). apply view_auto_waste.
    - reflexivity.
  Qed.

  Lemma view_set_epoch_other s st s' v :
    s' <> s -> view s (set_epochs st (set_epoch (epochs st) s' v)) = view s st.
  Proof.
    intro Hne. unfold TrackerC04.view. cbn [epochs live set_epochs]. rewrite epoch_of_set_other by exact Hne.
    f_equal. f_equal. apply filter_qv_ext. apply epoch_of_set_other. exact Hne.
  Qed.

  (* the loop of a call for another scene *)
  Lemma apply_one_other_scene s scene epoch e a d w :
    scene <> s ->
    (forall t dest, In t (live a) -> w = Some dest -> t_id t = dest -> t_scene t <> s) ->
    filter (qv c s e) (live (fst (apply_one c scene epoch a (d, w)))) = filter (qv c s e) (live a).
  Proof.
    intros Hne Hg. rewrite apply_one_fst. destruct w as [dest|]; cbn [live set_live set_next_id set_submitted].
    - apply filter_upd_track_out. intros t Ht E. specialize (Hg t dest Ht eq_refl E).
      unfold qv. cbn [absorb t_scene]. apply N.eqb_neq in Hg. rewrite Hg. auto.
    - rewrite filter_app. cbn [filter]. unfold qv at 2. cbn [fresh_track t_scene].
      apply N.eqb_neq in Hne. rewrite Hne. cbn [andb]. apply app_nil_r.
  Qed.

  Lemma apply_all_other_scene s scene epoch e dws : forall a,
    scene <> s ->
    (forall t dest, In t (live a) -> In (Some dest) (map snd dws) -> t_id t = dest -> t_scene t <> s) ->
    filter (qv c s e) (live (fst (apply_all c scene epoch a dws))) = filter (qv c s e) (live a).
  Proof.
    induction dws as [|[d w] rest IH]; intros a Hne Hg; [reflexivity|].
    rewrite apply_all_cons. cbn [fst]. rewrite IH; [|exact Hne|].
    - apply apply_one_other_scene; [exact Hne|]. intros t dest Ht Ew E. apply (Hg t dest Ht); [left; cbn [snd]; exact Ew|exact E].
    - intros t dest Ht Hd E. rewrite apply_one_fst in Ht. destruct w as [dw|]; cbn [live set_live set_next_id set_submitted] in Ht.
      + destruct (In_upd_track_cases _ _ _ _ Ht) as [[Ht1 _]|[x [Hx [Ex Et]]]].
        * apply (Hg t dest Ht1); [right; exact Hd|exact E].
        * subst t. cbn [absorb t_scene]. apply (Hg x dw Hx); [left; reflexivity|exact Ex].
      + apply in_app_or in Ht. destruct Ht as [Ht|[Ht|[]]].
        * apply (Hg t dest Ht); [right; exact Hd|exact E].
        * subst t. cbn [fresh_track t_scene]. exact Hne.
  Qed.

  Lemma view_predict_core_other s st scene dets :
    Inv c st -> scene <> s -> view s (snd (predict_core st scene dets)) = view s st.
  Proof.
    intros HI Hne. pose proof (Inv_NoDup_live _ _ HI) as Hnd.
    rewrite predict_core_unfold. cbn [snd].
    set (epoch := pc_epoch st scene). set (ws := winners G D2R solve c epoch (pc_rel c st scene) dets).
    set (a' := fst (apply_all c scene epoch (pc_st1 st scene) (combine dets ws))).
    destruct (apply_all_frame c scene epoch (combine dets ws) (pc_st1 st scene)) as [A1 _]. cbn zeta in A1. fold a' in A1.
    unfold TrackerC04.view. rewrite A1. cbn [epochs pc_st1 set_epochs]. rewrite epoch_of_set_other by exact Hne.
    f_equal. f_equal. rewrite (filter_qv_ext c s _ (epochs st)) by (apply epoch_of_set_other; exact Hne).
    unfold a'. rewrite apply_all_other_scene; [reflexivity|exact Hne|].
    intros t dest Ht Hd E. cbn [live pc_st1 set_epochs] in Ht.
    assert (Hd' : In (Some dest) ws).
    { apply in_map_iff in Hd. destruct Hd as [[d w] [Ew Hin]]. cbn [snd] in Ew. subst w. eapply in_combine_r; exact Hin. }
    apply winners_in_rel in Hd'. destruct Hd' as [t' [Ht' E']]. unfold pc_rel in Ht'. apply filter_In in Ht'.
    destruct Ht' as [Hl Hr]. assert (t' = t) by (apply (NoDup_id_eq (live st)); try assumption; congruence). subst t'.
    unfold relevant in Hr. apply andb_prop in Hr. destruct Hr as [Hs _]. apply N.eqb_eq in Hs. congruence.
  Qed.

  Lemma other_ops_preserve_view_lemma s st op :
    Inv c st -> scene_op s op = false -> view s (snd (tstep st op)) = view s st.
  Proof.
    intros HI Hop. destruct op as [scene dets|scene n| |scene| |p| | |scene]; cbn [scene_op] in Hop; cbn [Tracker.tstep].
    - apply N.eqb_neq in Hop.
      destruct (predict_core (prologue c st) scene dets) as [recs st'] eqn:E. cbn [snd].
      change st' with (snd (recs, st')). rewrite <- E.
      rewrite view_predict_core_other; [apply view_prologue|apply Inv_prologue; exact HI|exact Hop].
    - apply N.eqb_neq in Hop. cbn [snd]. rewrite view_auto_waste. apply view_set_epoch_other. exact Hop.
    - cbn [snd]. apply (view_auto_waste s st).
    - reflexivity.
    - reflexivity.
    - reflexivity.
    - reflexivity.
    - reflexivity.
    - reflexivity.
  Qed.

  (* --- operations addressed to scene s: output and next view are functions of the view --------------- *)

  Lemma map_canon_filter (p : trk -> bool) l :
    (forall t, p (canon t) = p t) -> map canon (filter p l) = filter p (map canon l).
  Proof.
    intro H. induction l as [|x r IH]; cbn [filter map]; [reflexivity|]. rewrite H.
    destruct (p x); cbn [map]; rewrite IH; reflexivity.
  Qed.

  Definition idle_v (e : N) (t : trk) : bool := negb (t_last t =? e).
  Definition alive_v (e : N) (t : trk) : bool := negb (t_last t + max_idle c <? e).

  Lemma idle_from_view s st :
    canon_out (fst (tstep st (Idle s))) = OIdle (map rec_of (filter (idle_v (fst (view s st))) (snd (view s st)))).
  Proof.
    rewrite idle_spec_lemma. cbn [fst snd canon_out TrackerC04.view]. f_equal.
    rewrite map_map. rewrite (map_ext _ (fun t => rec_of (canon t))) by (intro; apply canon_rec_of).
    rewrite <- (map_map canon rec_of). f_equal.
    rewrite <- map_canon_filter by reflexivity. f_equal. rewrite filter_filter_and. apply filter_ext. intro t.
    unfold qv, idle_v. reflexivity.
  Qed.

  Lemma skip_from_view s st n :
    view s (snd (tstep st (Skip s n))) =
    (fst (view s st) + n, filter (alive_v (fst (view s st) + n)) (snd (view s st))).
  Proof.
    cbn [Tracker.tstep snd]. rewrite view_auto_waste. unfold TrackerC04.view. cbn [epochs live set_epochs fst snd].
    rewrite epoch_of_set_same. f_equal.
    rewrite <- map_canon_filter by reflexivity. f_equal. rewrite filter_filter_and. apply filter_ext_in. intros t _.
    unfold qv, alive_v. rewrite !expired_ltb. destruct (t_scene t =? s) eqn:E; cbn [andb]; [|reflexivity].
    apply N.eqb_eq in E. rewrite E, epoch_of_set_same.
    destruct (t_last t + max_idle c <? epoch_of (epochs st) s + n) eqn:E1; cbn [negb]; [symmetry; apply andb_false_r|].
    apply N.ltb_ge in E1. replace (t_last t + max_idle c <? epoch_of (epochs st) s) with false; [reflexivity|].
    symmetry. apply N.ltb_ge. lia.
  Qed.

  (* the assignment problem of a call for scene s is a function of the view: epoch, relevant tracks (without
     ids), column names and the weighted pairs offered to the solver *)
  Lemma pair_weight_canon epoch d t : pair_weight G D2R c epoch d (canon t) = pair_weight G D2R c epoch d t.
  Proof. reflexivity. Qed.

  Lemma indexed_map {A B} (f : A -> B) (l : list A) : indexed (map f l) = map (fun p => (fst p, f (snd p))) (indexed l).
  Proof.
    unfold indexed. rewrite map_length. generalize (seq 0 (length l)) as ks. induction l as [|x r IH]; intros [|k ks]; cbn [combine map]; try reflexivity.
    f_equal. apply IH.
  Qed.

  Lemma all_pairs_canon epoch rel dets :
    all_pairs G D2R c epoch (map canon rel) dets = all_pairs G D2R c epoch rel dets.
  Proof.
    unfold all_pairs. apply flat_map_ext. intros [i d]. unfold pairs_for. rewrite indexed_map.
    rewrite flat_map_concat_map, map_map, <- flat_map_concat_map. apply flat_map_ext. intros [j t]. reflexivity.
  Qed.

  Lemma rel_from_view s st :
    map canon (pc_rel c st s) = filter (relevant c s (fst (view s st) + 1)) (snd (view s st)).
  Proof.
    unfold pc_rel, pc_epoch, TrackerC04.view. cbn [fst snd].
    rewrite <- map_canon_filter by reflexivity. f_equal. rewrite filter_filter_and. apply filter_ext_in. intros t _.
    destruct (relevant c s (epoch_of (epochs st) s + 1) t) eqn:E; [|symmetry; apply andb_false_r].
    destruct (relevant_alive c _ _ _ E) as [H1 H2]. unfold qv. rewrite H1, H2, N.eqb_refl. reflexivity.
  Qed.

  Lemma assignment_problem_from_view s st1 st2 dets :
    view s st1 = view s st2 ->
    pc_epoch st1 s = pc_epoch st2 s
    /\ map canon (pc_rel c st1 s) = map canon (pc_rel c st2 s)
    /\ map last_uid (pc_rel c st1 s) = map last_uid (pc_rel c st2 s)
    /\ all_pairs G D2R c (pc_epoch st1 s) (pc_rel c st1 s) dets = all_pairs G D2R c (pc_epoch st2 s) (pc_rel c st2 s) dets.
  Proof.
    intro HV. assert (He : pc_epoch st1 s = pc_epoch st2 s).
    { unfold pc_epoch. change (epoch_of (epochs st1) s) with (fst (view s st1)). rewrite HV. reflexivity. }
    assert (Hr : map canon (pc_rel c st1 s) = map canon (pc_rel c st2 s)) by (rewrite !rel_from_view, HV; reflexivity).
    split; [exact He|]. split; [exact Hr|]. split.
    - assert (Hl : forall l, map last_uid l = map last_uid (map canon l)) by (intro l; rewrite map_map; reflexivity).
      rewrite (Hl (pc_rel c st1 s)), (Hl (pc_rel c st2 s)), Hr. reflexivity.
    - rewrite <- (all_pairs_canon _ (pc_rel c st1 s)), <- (all_pairs_canon _ (pc_rel c st2 s)), Hr, He. reflexivity.
  Qed.

  (* ---------------------------------------------------------------------------------------------- *)
  (* the predict step as a function of the view: stated as a named proposition (see Props/C04.v) *)
  Definition predict_view_congruence : Prop :=
    forall st1 st2 s dets, Inv c st1 -> Inv c st2 -> view s st1 = view s st2 ->
      map canon_rec (fst (predict_core st1 s dets)) = map canon_rec (fst (predict_core st2 s dets))
      /\ view s (snd (predict_core st1 s dets)) = view s (snd (predict_core st2 s dets)).

  Lemma scene_ops_from_view s st1 st2 op :
    predict_view_congruence ->
    Inv c st1 -> Inv c st2 -> view s st1 = view s st2 -> scene_op s op = true ->
    canon_out (fst (tstep st1 op)) = canon_out (fst (tstep st2 op))
    /\ view s (snd (tstep st1 op)) = view s (snd (tstep st2 op)).
  Proof.
    intros HP H1 H2 HV Hop. destruct op as [scene dets|scene n| |scene| |p| | |scene]; cbn [scene_op] in Hop; try discriminate;
      apply N.eqb_eq in Hop; subst scene.
    - cbn [Tracker.tstep].
      destruct (HP (prologue c st1) (prologue c st2) s dets (Inv_prologue _ _ H1) (Inv_prologue _ _ H2)) as [A B].
      { rewrite !view_prologue. exact HV. }
      destruct (predict_core (prologue c st1) s dets) as [r1 s1]. destruct (predict_core (prologue c st2) s dets) as [r2 s2].
      cbn [fst snd canon_out] in *. split; [f_equal; exact A|exact B].
    - split; [reflexivity|]. rewrite !skip_from_view, HV. reflexivity.
    - split; [|exact HV]. rewrite !idle_from_view, HV. reflexivity.
    - split; [|exact HV]. cbn [Tracker.tstep fst canon_out]. f_equal.
      change (epoch_of (epochs st1) s) with (fst (view s st1)). rewrite HV. reflexivity.
  Qed.

  (* outputs of the scene-s operations of a run *)
  Definition sel_outs (s : N) (ops : list top) (outs : list tout) : list tout :=
    map snd (filter (fun p => scene_op s (fst p)) (combine ops outs)).

  Lemma trun_from_length st ops : length (fst (trun_from G D2R solve c st ops)) = length ops.
  Proof.
    induction ops as [|op ops IH] using rev_ind; [reflexivity|].
    rewrite trun_from_snoc. cbn [fst]. rewrite !app_length, IH. reflexivity.
  Qed.

  Lemma combine_snoc {A B} (l1 : list A) (l2 : list B) a b :
    length l1 = length l2 -> combine (l1 ++ [a]) (l2 ++ [b]) = combine l1 l2 ++ [(a, b)].
  Proof.
    revert l2. induction l1 as [|x r IH]; intros [|y r2] H; cbn in H; try discriminate; [reflexivity|].
    cbn [app combine]. f_equal. apply IH. lia.
  Qed.

  Lemma NoDup_app_intro {A} (a b : list A) : NoDup a -> NoDup b -> (forall x, In x a -> ~ In x b) -> NoDup (a ++ b).
  Proof.
    induction a as [|x r IH]; intros Ha Hb Hd; cbn [app]; [exact Hb|]. inversion Ha; subst. constructor.
    - intro H. apply in_app_or in H. destruct H as [H|H]; [contradiction|]. apply (Hd x); [left; reflexivity|exact H].
    - apply IH; [assumption|exact Hb|]. intros y Hy. apply Hd. right; exact Hy.
  Qed.

  Lemma ops_uids_filter_incl p ops x : In x (ops_uids (filter p ops)) -> In x (ops_uids ops).
  Proof.
    unfold ops_uids. rewrite !in_flat_map. intros [op [Hop Hx]]. apply filter_In in Hop. exists op. split; [apply Hop|exact Hx].
  Qed.

  Lemma ops_uids_cons op ops : ops_uids (op :: ops) = ops_uids [op] ++ ops_uids ops.
  Proof. unfold ops_uids. cbn [flat_map]. rewrite app_nil_r. reflexivity. Qed.

  Lemma NoDup_ops_uids_filter p ops : NoDup (ops_uids ops) -> NoDup (ops_uids (filter p ops)).
  Proof.
    induction ops as [|op ops IH]; intro H; [constructor|].
    rewrite ops_uids_cons in H.
    cbn [filter]. destruct (p op).
    - rewrite ops_uids_cons.
      apply NoDup_app_intro; [apply (NoDup_app_l _ _ H)|apply IH, (NoDup_app_r _ _ H)|].
      intros x Hx Hx'. apply ops_uids_filter_incl in Hx'. exact (NoDup_app_disj _ _ _ H Hx Hx').
    - apply IH, (NoDup_app_r _ _ H).
  Qed.

  Lemma scene_noninterference_under s ops :
    predict_view_congruence -> NoDup (ops_uids ops) ->
    map canon_out (sel_outs s ops (fst (trun ops))) = map canon_out (fst (trun (filter_ops s ops)))
    /\ view s (snd (trun ops)) = view s (snd (trun (filter_ops s ops))).
  Proof.
    intro HP. induction ops as [|op ops IH] using rev_ind; intro Hnd; [split; reflexivity|].
    assert (Hnd0 : NoDup (ops_uids ops)).
    { unfold ops_uids in Hnd. rewrite flat_map_app in Hnd. apply (NoDup_app_l _ _ Hnd). }
    destruct (IH Hnd0) as [I1 I2].
    pose proof (reach_Inv _ _ _ _ _ (trun_reach G D2R solve c ops Hnd0)) as Inv1.
    pose proof (reach_Inv _ _ _ _ _ (trun_reach G D2R solve c (filter_ops s ops) (NoDup_ops_uids_filter _ _ Hnd0))) as Inv2.
    unfold Tracker.trun in *. rewrite trun_from_snoc. cbn [fst snd].
    unfold sel_outs. rewrite combine_snoc by (symmetry; apply trun_from_length).
    unfold filter_ops. rewrite !filter_app. cbn [filter fst]. fold (filter_ops s ops).
    destruct (scene_op s op) eqn:Eop.
    - rewrite trun_from_snoc. cbn [fst snd]. rewrite !map_app. cbn [map snd].
      destruct (scene_ops_from_view s _ _ op HP Inv1 Inv2 I2 Eop) as [A B].
      split; [|exact B]. unfold sel_outs in I1. rewrite I1, A. reflexivity.
    - rewrite !app_nil_r. split; [exact I1|].
      rewrite other_ops_preserve_view_lemma by assumption. exact I2.
  Qed.
End C04.
