(* Lemmas about Model/Voting.v (C17). *)
From Coq Require Import List NArith ZArith QArith Qreduction Bool Arith Lia Permutation Sorted.
From Similari Require Import Base.Num Model.Assign Model.Voting Proofs.AssignProofs Proofs.AssignPerm.
Import ListNotations.

Local Open Scope Q_scope.

(* ---------------------------------------------------------------------------------------------- *)
(* canonical rationals: equal numbers are equal terms *)
Definition canon (q : Q) : Prop := Qred q = q.

Lemma canon_Qred q : canon (Qred q).
Proof.
  unfold canon. apply Qred_complete. apply Qred_correct.
Qed.

Lemma canon_eq a b : canon a -> canon b -> a == b -> a = b.
Proof.
  unfold canon. intros Ha Hb Hab. rewrite <- Ha, <- Hb. apply Qred_complete. exact Hab.
Qed.

Lemma Qltb_true a b : Qltb a b = true <-> a < b.
Proof.
  unfold Qltb. rewrite negb_true_iff. split.
  - intro H. apply Qnot_le_lt. intro Hle. apply Qle_bool_iff in Hle. congruence.
  - intro H. destruct (Qle_bool b a) eqn:E; [|reflexivity].
    apply Qle_bool_iff in E. exfalso. apply (Qlt_not_le _ _ H E).
Qed.

Lemma Qltb_false a b : Qltb a b = false <-> b <= a.
Proof.
  unfold Qltb. rewrite negb_false_iff. apply Qle_bool_iff.
Qed.

(* ---------------------------------------------------------------------------------------------- *)
(* generic list facts *)
Lemma Permutation_filter' {A} (f : A -> bool) l l' :
  Permutation l l' -> Permutation (filter f l) (filter f l').
Proof.
  induction 1 as [|x l l' _ IH|x y l|l l' l'' _ IH1 _ IH2]; cbn [filter].
  - constructor.
  - destruct (f x); [constructor|]; exact IH.
  - destruct (f x), (f y); try reflexivity. apply perm_swap.
  - eapply perm_trans; eassumption.
Qed.

Lemma NoDup_map_filter {A B} (g : A -> B) (p : A -> bool) l :
  NoDup (map g l) -> NoDup (map g (filter p l)).
Proof.
  induction l as [|x l IH]; cbn [map filter]; intro H.
  - constructor.
  - inversion H as [|? ? Hn Hd]; subst. destruct (p x); cbn [map].
    + constructor; [|apply IH, Hd]. intro Hin. apply Hn.
      apply in_map_iff in Hin. destruct Hin as [y [Hy Hin]]. apply filter_In in Hin.
      apply in_map_iff. exists y. tauto.
    + apply IH, Hd.
Qed.

Lemma NoDup_map_eq {A B} (f : A -> B) l x y :
  NoDup (map f l) -> In x l -> In y l -> f x = f y -> x = y.
Proof.
  induction l as [|a l IH]; cbn [map In]; intros Hnd Hx Hy Hf; [contradiction|].
  inversion Hnd as [|? ? Hn Hd]; subst.
  destruct Hx as [Hx|Hx], Hy as [Hy|Hy]; subst.
  - reflexivity.
  - exfalso. apply Hn. rewrite Hf. apply in_map, Hy.
  - exfalso. apply Hn. rewrite <- Hf. apply in_map, Hx.
  - apply IH; assumption.
Qed.

Lemma In_firstn_sub {A} n (l : list A) x : In x (firstn n l) -> In x l.
Proof.
  revert n. induction l as [|y l IH]; intros n H; destruct n; cbn [firstn In] in *; try contradiction.
  destruct H as [H|H]; [left; exact H | right; eapply IH, H].
Qed.

(* ---------------------------------------------------------------------------------------------- *)
(* group_map *)
Section GroupMapFacts.
  Context {K V : Type}.
  Variable keqb : K -> K -> bool.
  Hypothesis keqb_spec : forall a b, keqb a b = true <-> a = b.

  Lemma keqb_refl a : keqb a a = true.
  Proof. apply keqb_spec. reflexivity. Qed.

  Lemma In_nodupf x l : In x (nodupf keqb l) <-> In x l.
  Proof.
    induction l as [|y l IH]; cbn [nodupf In]; [tauto|].
    rewrite filter_In, IH. split.
    - tauto.
    - intros [H|H]; [tauto|].
      destruct (keqb y x) eqn:E.
      + left. apply keqb_spec, E.
      + right. split; [exact H|reflexivity].
  Qed.

  Lemma NoDup_nodupf l : NoDup (nodupf keqb l).
  Proof.
    induction l as [|y l IH]; cbn [nodupf]; constructor.
    - rewrite filter_In. intros [_ H]. rewrite keqb_refl in H. discriminate.
    - apply NoDup_filter, IH.
  Qed.

  Lemma group_map_keys (l : list (K * V)) : map fst (group_map keqb l) = nodupf keqb (map fst l).
  Proof.
    unfold group_map. rewrite map_map. cbn [fst]. apply map_id.
  Qed.

  Lemma group_map_NoDup (l : list (K * V)) : NoDup (map fst (group_map keqb l)).
  Proof. rewrite group_map_keys. apply NoDup_nodupf. Qed.

  Lemma group_map_In (l : list (K * V)) k vs :
    In (k, vs) (group_map keqb l) <-> In k (map fst l) /\ vs = vals keqb k l.
  Proof.
    unfold group_map. rewrite in_map_iff. split.
    - intros [k' [E Hin]]. inversion E; subst. apply (proj1 (In_nodupf _ _)) in Hin. split; [exact Hin | reflexivity].
    - intros [Hin E]. exists k. subst. split; [reflexivity|]. apply (proj2 (In_nodupf _ _)), Hin.
  Qed.

  Lemma assoc_keys {W} (f : K -> W) ks k :
    assoc keqb k (map (fun k' => (k', f k')) ks) = if existsb (keqb k) ks then Some (f k) else None.
  Proof.
    unfold assoc. induction ks as [|a ks IH]; cbn [map find existsb fst]; [reflexivity|].
    destruct (keqb k a) eqn:E; cbn [orb option_map snd].
    - apply keqb_spec in E. subst. reflexivity.
    - exact IH.
  Qed.

  Lemma existsb_perm (k : K) l l' : (forall x, In x l <-> In x l') -> existsb (keqb k) l = existsb (keqb k) l'.
  Proof.
    intro H. apply eq_true_iff_eq. rewrite !existsb_exists. split; intros [x [Hx E]]; exists x; split; try exact E; apply H, Hx.
  Qed.

  Lemma vals_perm k (l l' : list (K * V)) : Permutation l l' -> Permutation (vals keqb k l) (vals keqb k l').
  Proof. intro H. unfold vals. apply Permutation_map, Permutation_filter', H. Qed.

  Lemma vals_In k v (l : list (K * V)) : In v (vals keqb k l) <-> In (k, v) l.
  Proof.
    unfold vals. rewrite in_map_iff. split.
    - intros [[k' v'] [E Hin]]. cbn in E. subst. apply filter_In in Hin. destruct Hin as [Hin Hk].
      cbn in Hk. apply keqb_spec in Hk. subst. exact Hin.
    - intro Hin. exists (k, v). split; [reflexivity|]. apply filter_In. split; [exact Hin|]. apply keqb_refl.
  Qed.

  Lemma vals_nonempty k (l : list (K * V)) : In k (map fst l) <-> vals keqb k l <> [].
  Proof.
    split.
    - intros Hin E. apply in_map_iff in Hin. destruct Hin as [[k' v] [Ek Hin]]. cbn in Ek. subst.
      assert (In v (vals keqb k l)) as H by (apply vals_In, Hin). rewrite E in H. contradiction.
    - intro H. destruct (vals keqb k l) as [|v r] eqn:E; [congruence|].
      assert (In v (vals keqb k l)) as Hv by (rewrite E; left; reflexivity).
      apply vals_In in Hv. apply in_map_iff. exists (k, v). tauto.
  Qed.
End GroupMapFacts.

Lemma pair_eqb_spec a b : pair_eqb a b = true <-> a = b.
Proof.
  unfold pair_eqb. destruct a as [a1 a2], b as [b1 b2]. cbn [fst snd].
  rewrite andb_true_iff, !N.eqb_eq. split; [intros [? ?]; subst; reflexivity | intro E; inversion E; tauto].
Qed.

Lemma Neqb_spec a b : (a =? b)%N = true <-> a = b.
Proof. apply N.eqb_eq. Qed.

(* ---------------------------------------------------------------------------------------------- *)
(* the stable sort by decreasing weight *)
Section SortFacts.
  Context {A : Type}.
  Variable w : A -> Q.

  Definition ge_w (a b : A) : Prop := w b <= w a.

  Lemma insert_desc_perm x l : Permutation (insert_desc w x l) (x :: l).
  Proof.
    induction l as [|y l IH]; cbn [insert_desc]; [reflexivity|].
    destruct (Qltb (w x) (w y)); [|reflexivity].
    eapply perm_trans; [apply perm_skip, IH | apply perm_swap].
  Qed.

  Lemma sort_desc_perm l : Permutation (sort_desc w l) l.
  Proof.
    induction l as [|x l IH]; cbn [sort_desc fold_right]; [constructor|].
    fold (sort_desc w l). eapply perm_trans; [apply insert_desc_perm | apply perm_skip, IH].
  Qed.

  Lemma insert_desc_sorted x l : StronglySorted ge_w l -> StronglySorted ge_w (insert_desc w x l).
  Proof.
    induction l as [|y l IH]; cbn [insert_desc]; intro Hs.
    - repeat constructor.
    - apply StronglySorted_inv in Hs. destruct Hs as [Hs Hy].
      destruct (Qltb (w x) (w y)) eqn:E.
      + constructor; [apply IH, Hs|].
        apply Forall_forall. intros z Hz.
        apply (Permutation_in _ (insert_desc_perm x l)) in Hz. destruct Hz as [Hz|Hz].
        * subst. unfold ge_w. apply Qlt_le_weak, Qltb_true, E.
        * rewrite Forall_forall in Hy. apply Hy, Hz.
      + apply Qltb_false in E. constructor; [constructor; assumption|].
        constructor; [exact E|].
        rewrite Forall_forall in *. intros z Hz. unfold ge_w in *. eapply Qle_trans; [apply Hy, Hz | exact E].
  Qed.

  Lemma sort_desc_sorted l : StronglySorted ge_w (sort_desc w l).
  Proof.
    induction l as [|x l IH]; cbn [sort_desc fold_right]; [constructor|].
    apply insert_desc_sorted, IH.
  Qed.

  (* a list sorted by decreasing weight, whose weights identify its elements, is determined by its elements *)
  Lemma sorted_unique l1 : forall l2,
    Permutation l1 l2 -> StronglySorted ge_w l1 -> StronglySorted ge_w l2 ->
    (forall x y, In x l1 -> In y l1 -> w x == w y -> x = y) -> l1 = l2.
  Proof.
    induction l1 as [|a r1 IH]; intros l2 Hp H1 H2 Hinj.
    - apply Permutation_nil in Hp. subst. reflexivity.
    - destruct l2 as [|b r2]; [apply Permutation_sym, Permutation_nil in Hp; discriminate|].
      apply StronglySorted_inv in H1. destruct H1 as [H1 Ha].
      apply StronglySorted_inv in H2. destruct H2 as [H2 Hb].
      rewrite Forall_forall in Ha, Hb.
      assert (a = b) as Eab.
      { assert (In a (b :: r2)) as Ia by (apply (Permutation_in _ Hp); left; reflexivity).
        assert (In b (a :: r1)) as Ib by (apply (Permutation_in _ (Permutation_sym Hp)); left; reflexivity).
        destruct Ia as [Ia|Ia]; [congruence|]. destruct Ib as [Ib|Ib]; [congruence|].
        apply Hinj; [left; reflexivity | right; exact Ib |].
        apply Qle_antisym; [apply (Hb _ Ia) | apply (Ha _ Ib)]. }
      subst b. f_equal. apply IH; try assumption.
      + eapply Permutation_cons_inv, Hp.
      + intros x y Hx Hy. apply Hinj; right; assumption.
  Qed.

  Lemma sort_desc_unique l l' :
    Permutation l l' -> (forall x y, In x l -> In y l -> w x == w y -> x = y) ->
    sort_desc w l = sort_desc w l'.
  Proof.
    intros Hp Hinj. apply sorted_unique.
    - eapply perm_trans; [apply sort_desc_perm|]. eapply perm_trans; [exact Hp|]. apply Permutation_sym, sort_desc_perm.
    - apply sort_desc_sorted.
    - apply sort_desc_sorted.
    - intros x y Hx Hy. apply Hinj; eapply Permutation_in; try apply sort_desc_perm; assumption.
  Qed.

  Lemma firstn_sorted n l : StronglySorted ge_w l -> StronglySorted ge_w (firstn n l).
  Proof.
    revert n. induction l as [|x l IH]; intros n Hs; destruct n; cbn [firstn]; try constructor.
    - apply IH. apply StronglySorted_inv in Hs. tauto.
    - apply StronglySorted_inv in Hs. destruct Hs as [_ Hx]. rewrite Forall_forall in *.
      intros y Hy. apply Hx. eapply In_firstn_sub. exact Hy.
  Qed.
End SortFacts.

(* ---------------------------------------------------------------------------------------------- *)
(* max_dist: the largest distance seen (or -1) *)
Lemma fd_canon d e : fd d = Some e -> canon e.
Proof.
  unfold fd. destruct (d_feat d); cbn [option_map]; intro H; inversion H. apply canon_Qred.
Qed.

Lemma max_step_canon m d : canon m -> canon (max_step m d).
Proof.
  intro Hm. unfold max_step. destruct (fd d) as [e|] eqn:E; [|exact Hm].
  destruct (Qltb m e); [eapply fd_canon, E | exact Hm].
Qed.

Lemma fold_max_canon s : forall m, canon m -> canon (fold_left max_step s m).
Proof.
  induction s as [|d s IH]; intros m Hm; cbn [fold_left]; [exact Hm|]. apply IH, max_step_canon, Hm.
Qed.

Lemma max_step_ge m d : m <= max_step m d.
Proof.
  unfold max_step. destruct (fd d) as [e|]; [|apply Qle_refl].
  destruct (Qltb m e) eqn:E; [apply Qlt_le_weak, Qltb_true, E | apply Qle_refl].
Qed.

Lemma fold_max_ge s : forall m, m <= fold_left max_step s m.
Proof.
  induction s as [|d s IH]; intro m; cbn [fold_left]; [apply Qle_refl|].
  eapply Qle_trans; [apply max_step_ge | apply IH].
Qed.

Lemma fold_max_ub s : forall m d e, In d s -> fd d = Some e -> e <= fold_left max_step s m.
Proof.
  induction s as [|x s IH]; intros m d e Hin He; [contradiction|].
  cbn [fold_left]. destruct Hin as [Hx|Hin].
  - subst x. eapply Qle_trans; [|apply fold_max_ge].
    unfold max_step. rewrite He. destruct (Qltb m e) eqn:E; [apply Qle_refl | apply Qltb_false, E].
  - eapply IH; eassumption.
Qed.

Lemma fold_max_attained s : forall m,
  fold_left max_step s m = m \/ exists d, In d s /\ fd d = Some (fold_left max_step s m).
Proof.
  induction s as [|x s IH]; intro m; cbn [fold_left]; [left; reflexivity|].
  destruct (IH (max_step m x)) as [E|[d [Hd E]]].
  - rewrite E. unfold max_step. destruct (fd x) as [e|] eqn:Ex; [|left; reflexivity].
    destruct (Qltb m e); [|left; reflexivity].
    right. exists x. split; [left; reflexivity | exact Ex].
  - right. exists d. split; [right; exact Hd | exact E].
Qed.

Lemma max_dist_canon s : canon (max_dist s).
Proof. apply fold_max_canon. reflexivity. Qed.

Lemma max_dist_ub s d e : In d s -> fd d = Some e -> e <= max_dist s.
Proof. apply fold_max_ub. Qed.

Lemma max_dist_attained s : max_dist s = (-1 # 1) \/ exists d, In d s /\ fd d = Some (max_dist s).
Proof. apply fold_max_attained. Qed.

Lemma max_dist_ge s : (-1 # 1) <= max_dist s.
Proof. apply fold_max_ge. Qed.

Lemma max_dist_perm s s' : Permutation s s' -> max_dist s = max_dist s'.
Proof.
  intro Hp.
  assert (forall a b, Permutation a b -> max_dist a <= max_dist b) as Hle.
  { intros a b Hab. destruct (max_dist_attained a) as [E|[d [Hd E]]].
    - rewrite E. apply max_dist_ge.
    - eapply max_dist_ub; [eapply Permutation_in; eassumption | exact E]. }
  apply canon_eq; try apply max_dist_canon.
  apply Qle_antisym; apply Hle; [exact Hp | apply Permutation_sym, Hp].
Qed.

(* ---------------------------------------------------------------------------------------------- *)
(* kept, weight *)
Definition counted (maxd : Q) (q t : N) (d : dist) : option Q :=
  match fd d with
  | Some e => if Qle_bool e maxd && (d_from d =? q)%N && (d_to d =? t)%N then Some e else None
  | None => None
  end.

(* the distances of the stream that count for the pair (q, t), in stream order *)
Definition counted_dists (maxd : Q) (q t : N) (s : list dist) : list Q :=
  flat_map (fun d => match counted maxd q t d with Some e => [e] | None => [] end) s.

Lemma kept_perm maxd s s' : Permutation s s' -> Permutation (kept maxd s) (kept maxd s').
Proof. intro H. unfold kept. apply Permutation_flat_map, H. Qed.

Lemma vals_kept maxd q t s : vals pair_eqb (q, t) (kept maxd s) = counted_dists maxd q t s.
Proof.
  unfold vals, kept, counted_dists, counted. induction s as [|d s IH]; [reflexivity|].
  cbn [flat_map]. rewrite filter_app, map_app, IH. f_equal.
  destruct (fd d) as [e|]; [|reflexivity].
  destruct (Qle_bool e maxd); cbn [andb]; [|reflexivity].
  cbn [filter pair_eqb fst snd map].
  unfold pair_eqb. cbn [fst snd]. rewrite (N.eqb_sym q), (N.eqb_sym t).
  destruct ((d_from d =? q)%N && (d_to d =? t)%N); reflexivity.
Qed.

Lemma counted_dists_perm maxd q t s s' :
  Permutation s s' -> Permutation (counted_dists maxd q t s) (counted_dists maxd q t s').
Proof. intro H. unfold counted_dists. apply Permutation_flat_map, H. Qed.

Definition qsum (md : Q) (c : list Q) : Q := fold_right (fun e acc => (md - e) + acc) 0 c.

Lemma qsum_perm md c c' : Permutation c c' -> qsum md c == qsum md c'.
Proof.
  induction 1 as [|x l l' _ IH|x y l|l l' l'' _ IH1 _ IH2]; cbn [qsum fold_right].
  - reflexivity.
  - fold (qsum md l) (qsum md l'). rewrite IH. reflexivity.
  - fold (qsum md l). ring.
  - rewrite IH1. exact IH2.
Qed.

Lemma weight_perm md c c' : Permutation c c' -> weight md c = weight md c'.
Proof. intro H. unfold weight. apply Qred_complete. apply (qsum_perm md _ _ H). Qed.

Lemma weight_eq md c : weight md c == qsum md c.
Proof. unfold weight. apply Qred_correct. Qed.

Lemma weight_canon md c : canon (weight md c).
Proof. apply canon_Qred. Qed.

(* ---------------------------------------------------------------------------------------------- *)
(* the candidate list *)
Lemma cands_In maxd minv s q t w :
  In (q, t, w) (cands maxd minv s) <->
  counted_dists maxd q t s <> [] /\ (minv <= length (counted_dists maxd q t s))%nat
  /\ w = weight (max_dist s) (counted_dists maxd q t s).
Proof.
  unfold cands. rewrite in_map_iff. split.
  - intros [[[q' t'] vs] [E Hin]]. cbn [fst snd] in E. inversion E; subst q' t' w. clear E.
    apply filter_In in Hin. destruct Hin as [Hin Hlen]. cbn [snd] in Hlen.
    apply (group_map_In pair_eqb pair_eqb_spec) in Hin. destruct Hin as [Hk Hv].
    apply (vals_nonempty pair_eqb pair_eqb_spec) in Hk. rewrite vals_kept in Hk, Hv. subst vs.
    apply Nat.leb_le in Hlen. tauto.
  - intros [Hne [Hlen Hw]]. exists ((q, t), counted_dists maxd q t s). cbn [fst snd]. split; [subst w; reflexivity|].
    apply filter_In. cbn [snd]. split; [|apply Nat.leb_le, Hlen].
    apply (group_map_In pair_eqb pair_eqb_spec). rewrite vals_kept. split; [|reflexivity].
    apply (vals_nonempty pair_eqb pair_eqb_spec). rewrite vals_kept. exact Hne.
Qed.

Definition c_key (c : cand) : N * N := (c_q c, c_t c).

Lemma cands_keys_NoDup maxd minv s : NoDup (map c_key (cands maxd minv s)).
Proof.
  unfold cands. rewrite map_map.
  rewrite (map_ext _ fst); [|intros [[q t] vs]; reflexivity].
  apply NoDup_map_filter. apply (group_map_NoDup pair_eqb pair_eqb_spec).
Qed.

Lemma cands_NoDup maxd minv s : NoDup (cands maxd minv s).
Proof. eapply NoDup_map_inv, cands_keys_NoDup. Qed.

Lemma cands_perm maxd minv s s' : Permutation s s' -> Permutation (cands maxd minv s) (cands maxd minv s').
Proof.
  intro Hp. apply NoDup_Permutation; try apply cands_NoDup.
  assert (forall a b, Permutation a b -> forall c, In c (cands maxd minv a) -> In c (cands maxd minv b)) as H.
  { intros a b Hab [[q t] w] Hin. apply cands_In in Hin. apply cands_In.
    destruct Hin as [Hne [Hlen Hw]].
    pose proof (counted_dists_perm maxd q t _ _ Hab) as Hc.
    split; [|split].
    - intro E. rewrite E in Hc. apply Permutation_sym, Permutation_nil in Hc. contradiction.
    - rewrite <- (Permutation_length Hc). exact Hlen.
    - rewrite <- (max_dist_perm _ _ Hab). rewrite <- (weight_perm _ _ _ Hc). exact Hw. }
  intro c. split; apply H; [exact Hp | apply Permutation_sym, Hp].
Qed.

Lemma cands_w_canon maxd minv s c : In c (cands maxd minv s) -> canon (c_w c).
Proof.
  destruct c as [[q t] w]. intro H. apply cands_In in H. destruct H as [_ [_ Hw]]. cbn. subst w. apply weight_canon.
Qed.

(* ---------------------------------------------------------------------------------------------- *)
(* TopNVoting *)
Definition reshape (c : cand) : N * (N * Q) := (c_q c, (c_t c, c_w c)).
Definition qcands (q : N) (l : list cand) : list (N * Q) := vals N.eqb q (map reshape l).

Lemma qcands_In q t w l : In (t, w) (qcands q l) <-> In (q, t, w) l.
Proof.
  unfold qcands. rewrite (vals_In N.eqb Neqb_spec). rewrite in_map_iff. split.
  - intros [[[q' t'] w'] [E Hin]]. unfold reshape, c_q, c_t, c_w in E. cbn [fst snd] in E. inversion E; subst. exact Hin.
  - intro Hin. exists (q, t, w). split; [reflexivity | exact Hin].
Qed.

Lemma qcands_perm q l l' : Permutation l l' -> Permutation (qcands q l) (qcands q l').
Proof. intro H. unfold qcands. apply (vals_perm N.eqb). apply Permutation_map, H. Qed.

Lemma by_query_In l q vs :
  In (q, vs) (by_query l) <-> In q (map c_q l) /\ vs = qcands q l.
Proof.
  unfold by_query. rewrite (group_map_In N.eqb Neqb_spec). rewrite map_map. reflexivity.
Qed.

Lemma topn_In n maxd minv s q l :
  In (q, l) (topn_voting n maxd minv s) <->
  In q (map c_q (cands maxd minv s)) /\ l = firstn n (sort_desc (@snd N Q) (qcands q (cands maxd minv s))).
Proof.
  unfold topn_voting. rewrite in_map_iff. split.
  - intros [[q' vs] [E Hin]]. cbn [fst snd] in E. inversion E; subst q' l. clear E.
    apply by_query_In in Hin. destruct Hin as [Hq Hv]. subst vs. tauto.
  - intros [Hq Hl]. exists (q, qcands q (cands maxd minv s)). cbn [fst snd]. split; [subst l; reflexivity|].
    apply by_query_In. tauto.
Qed.

Lemma topn_entry n maxd minv s q l t w :
  In (q, l) (topn_voting n maxd minv s) -> In (t, w) l -> In (q, t, w) (cands maxd minv s).
Proof.
  intros Hin Ht. apply topn_In in Hin. destruct Hin as [_ Hl]. subst l.
  apply In_firstn_sub in Ht. apply (Permutation_in _ (sort_desc_perm _ _)) in Ht.
  apply qcands_In, Ht.
Qed.

Lemma topn_at_most_n_lemma n maxd minv s q l :
  In (q, l) (topn_voting n maxd minv s) -> (length l <= n)%nat.
Proof.
  intro Hin. apply topn_In in Hin. destruct Hin as [_ Hl]. subst l. apply firstn_le_length.
Qed.

Lemma topn_min_votes_lemma n maxd minv s q l t w :
  In (q, l) (topn_voting n maxd minv s) -> In (t, w) l ->
  (minv <= length (counted_dists maxd q t s))%nat /\ (1 <= length (counted_dists maxd q t s))%nat.
Proof.
  intros Hin Ht. pose proof (topn_entry _ _ _ _ _ _ _ _ Hin Ht) as Hc. apply cands_In in Hc.
  destruct Hc as [Hne [Hlen _]]. split; [exact Hlen|].
  destruct (counted_dists maxd q t s); [congruence | cbn; lia].
Qed.

Lemma topn_sorted_lemma n maxd minv s q l :
  In (q, l) (topn_voting n maxd minv s) -> StronglySorted (fun a b => snd b <= snd a) l.
Proof.
  intro Hin. apply topn_In in Hin. destruct Hin as [_ Hl]. subst l.
  apply (firstn_sorted (@snd N Q)). apply sort_desc_sorted.
Qed.

Lemma weight_formula_lemma n maxd minv s q l t w :
  In (q, l) (topn_voting n maxd minv s) -> In (t, w) l ->
  w == qsum (max_dist s) (counted_dists maxd q t s).
Proof.
  intros Hin Ht. pose proof (topn_entry _ _ _ _ _ _ _ _ Hin Ht) as Hc. apply cands_In in Hc.
  destruct Hc as [_ [_ Hw]]. subst w. apply weight_eq.
Qed.

(* what is listed is the top: a candidate of the query that is not listed is not heavier than any listed one,
   and then the list is full *)
Lemma firstn_sorted_top {A} (wf : A -> Q) n l x y :
  StronglySorted (ge_w wf) l -> In x l -> ~ In x (firstn n l) -> In y (firstn n l) -> wf x <= wf y.
Proof.
  revert n. induction l as [|a l IH]; intros n Hs Hx Hnx Hy; [contradiction|].
  destruct n; cbn [firstn] in *; [contradiction|].
  apply StronglySorted_inv in Hs. destruct Hs as [Hs Ha]. rewrite Forall_forall in Ha.
  destruct Hx as [Hx|Hx]; [subst; exfalso; apply Hnx; left; reflexivity|].
  destruct Hy as [Hy|Hy]; [subst; apply Ha, Hx|].
  eapply IH; try eassumption. intro H. apply Hnx. right. exact H.
Qed.

Lemma firstn_full_or_all {A} n (l : list A) x : In x l -> ~ In x (firstn n l) -> length (firstn n l) = n.
Proof.
  revert n. induction l as [|a l IH]; intros n Hx Hnx; [contradiction|].
  destruct n; cbn [firstn length] in *; [reflexivity|]. f_equal.
  destruct Hx as [Hx|Hx]; [subst; exfalso; apply Hnx; left; reflexivity|].
  apply IH; [exact Hx|]. intro H. apply Hnx. right. exact H.
Qed.

Lemma topn_takes_heaviest_lemma n maxd minv s q l t w :
  In (q, l) (topn_voting n maxd minv s) -> In (q, t, w) (cands maxd minv s) -> ~ In (t, w) l ->
  length l = n /\ forall t' w', In (t', w') l -> w <= w'.
Proof.
  intros Hin Hc Hn. apply topn_In in Hin. destruct Hin as [_ Hl]. subst l.
  assert (In (t, w) (sort_desc (@snd N Q) (qcands q (cands maxd minv s)))) as Hs.
  { apply (Permutation_in _ (Permutation_sym (sort_desc_perm _ _))). apply qcands_In, Hc. }
  split.
  - eapply firstn_full_or_all; eassumption.
  - intros t' w' H'. apply (firstn_sorted_top (@snd N Q) n (sort_desc (@snd N Q) (qcands q (cands maxd minv s))) (t, w) (t', w')); try assumption. apply sort_desc_sorted.
Qed.

Lemma topn_query_listed_lemma n maxd minv s q t w :
  In (q, t, w) (cands maxd minv s) -> exists l, In (q, l) (topn_voting n maxd minv s).
Proof.
  intro Hc. eexists. apply topn_In. split; [|reflexivity].
  apply in_map_iff. exists (q, t, w). split; [reflexivity | exact Hc].
Qed.

Lemma topn_keys_NoDup n maxd minv s : NoDup (map fst (topn_voting n maxd minv s)).
Proof.
  unfold topn_voting. rewrite map_map. cbn [fst]. apply (group_map_NoDup N.eqb Neqb_spec).
Qed.

(* the results as finite maps *)
Definition topn_distinct (maxd : Q) (minv : nat) (s : list dist) : Prop :=
  forall q t1 t2 w1 w2, In (q, t1, w1) (cands maxd minv s) -> In (q, t2, w2) (cands maxd minv s) -> w1 == w2 -> t1 = t2.

Lemma topn_assoc n maxd minv s q :
  assoc N.eqb q (topn_voting n maxd minv s) =
  if existsb (N.eqb q) (nodupf N.eqb (map c_q (cands maxd minv s)))
  then Some (firstn n (sort_desc (@snd N Q) (qcands q (cands maxd minv s)))) else None.
Proof.
  unfold topn_voting, by_query, group_map. rewrite !map_map. cbn [fst snd].
  rewrite (assoc_keys N.eqb Neqb_spec (fun k => firstn n (sort_desc (@snd N Q) (vals N.eqb k (map reshape (cands maxd minv s)))))).
  unfold qcands. reflexivity.
Qed.

Lemma topn_perm_invariant_lemma n maxd minv s s' :
  Permutation s s' -> topn_distinct maxd minv s ->
  forall q, assoc N.eqb q (topn_voting n maxd minv s) = assoc N.eqb q (topn_voting n maxd minv s').
Proof.
  intros Hp Hd q. rewrite !topn_assoc.
  pose proof (cands_perm maxd minv _ _ Hp) as Hc.
  rewrite (existsb_perm N.eqb q _ (nodupf N.eqb (map c_q (cands maxd minv s')))).
  2:{ intro x. rewrite !(In_nodupf N.eqb Neqb_spec). split; apply Permutation_in; [|apply Permutation_sym]; apply Permutation_map, Hc. }
  destruct (existsb _ _); [|reflexivity]. f_equal. f_equal.
  apply sort_desc_unique; [apply qcands_perm, Hc|].
  intros [t1 w1] [t2 w2] H1 H2 Hw. cbn [snd] in Hw.
  apply qcands_In in H1, H2.
  assert (t1 = t2) by (eapply Hd; eassumption). subst t2. f_equal.
  apply canon_eq; [apply (cands_w_canon _ _ _ _ H1) | apply (cands_w_canon _ _ _ _ H2) | exact Hw].
Qed.

(* ---------------------------------------------------------------------------------------------- *)
(* BestFitVoting *)
Definition real (c : cand) : Prop := c_t c <> c_q c.

Lemma existsb_Neqb x l : existsb (N.eqb x) l = true <-> In x l.
Proof.
  rewrite existsb_exists. split.
  - intros [y [Hy E]]. apply N.eqb_eq in E. subst. exact Hy.
  - intro H. exists x. split; [exact H | apply N.eqb_refl].
Qed.

Lemma award_real_notin_won l : forall won e,
  (forall c, In c l -> real c) -> In e (award won l) -> real e -> ~ In (c_t e) won /\ In e l.
Proof.
  induction l as [|c r IH]; intros won e Hall Hin He; [contradiction|].
  cbn [award] in Hin. destruct (existsb (N.eqb (c_t c)) won) eqn:E.
  - destruct Hin as [Hin|Hin].
    + subst e. exfalso. apply He. reflexivity.
    + destruct (IH won e) as [H1 H2]; try assumption; [intros; apply Hall; right; assumption|].
      split; [exact H1 | right; exact H2].
  - destruct Hin as [Hin|Hin].
    + subst e. split; [|left; reflexivity]. intro H. apply existsb_Neqb in H. congruence.
    + destruct (IH (c_t c :: won) e) as [H1 H2]; try assumption; [intros; apply Hall; right; assumption|].
      split; [|right; exact H2]. intro H. apply H1. right. exact H.
Qed.

Lemma award_real_unique l : forall won e1 e2,
  (forall c, In c l -> real c) -> In e1 (award won l) -> In e2 (award won l) ->
  real e1 -> real e2 -> c_t e1 = c_t e2 -> e1 = e2.
Proof.
  induction l as [|c r IH]; intros won e1 e2 Hall H1 H2 R1 R2 Et; [contradiction|].
  assert (forall c', In c' r -> real c') as Hall' by (intros; apply Hall; right; assumption).
  cbn [award] in H1, H2. destruct (existsb (N.eqb (c_t c)) won) eqn:E.
  - destruct H1 as [H1|H1]; [subst e1; exfalso; apply R1; reflexivity|].
    destruct H2 as [H2|H2]; [subst e2; exfalso; apply R2; reflexivity|].
    eapply IH; eassumption.
  - destruct H1 as [H1|H1], H2 as [H2|H2].
    + congruence.
    + subst e1. exfalso. destruct (award_real_notin_won r _ _ Hall' H2 R2) as [Hn _]. apply Hn. left. exact Et.
    + subst e2. exfalso. destruct (award_real_notin_won r _ _ Hall' H1 R1) as [Hn _]. apply Hn. left. symmetry. exact Et.
    + eapply IH; eassumption.
Qed.

(* a real entry of the awarded list sits, in the input list, before every other claimant of its track *)
Lemma award_real_first l : forall won e,
  (forall c, In c l -> real c) -> In e (award won l) -> real e ->
  exists pre post, l = pre ++ e :: post /\ ~ In (c_t e) (map c_t pre).
Proof.
  induction l as [|c r IH]; intros won e Hall Hin He; [contradiction|].
  assert (forall c', In c' r -> real c') as Hall' by (intros; apply Hall; right; assumption).
  cbn [award] in Hin. destruct (existsb (N.eqb (c_t c)) won) eqn:E.
  - destruct Hin as [Hin|Hin]; [subst e; exfalso; apply He; reflexivity|].
    destruct (award_real_notin_won r _ _ Hall' Hin He) as [Hn _].
    destruct (IH won e Hall' Hin He) as [pre [post [El Hp]]].
    exists (c :: pre), post. split; [rewrite El; reflexivity|].
    cbn [map In]. intros [H|H]; [|exact (Hp H)]. apply Hn. rewrite <- H. apply existsb_Neqb, E.
  - destruct Hin as [Hin|Hin].
    + subst e. exists [], r. split; [reflexivity | intros []].
    + destruct (award_real_notin_won r _ _ Hall' Hin He) as [Hn _].
      destruct (IH (c_t c :: won) e Hall' Hin He) as [pre [post [El Hp]]].
      exists (c :: pre), post. split; [rewrite El; reflexivity|].
      cbn [map In]. intros [H|H]; [|exact (Hp H)]. apply Hn. left. exact H.
Qed.

Lemma award_answers l : forall won c,
  In c l -> In c (award won l) \/ In (c_q c, c_q c, c_w c) (award won l).
Proof.
  induction l as [|x r IH]; intros won c Hin; [contradiction|].
  cbn [award]. destruct (existsb (N.eqb (c_t x)) won); destruct Hin as [Hin|Hin].
  - subst x. right. left. reflexivity.
  - destruct (IH won c Hin); [left | right]; right; assumption.
  - subst x. left. left. reflexivity.
  - destruct (IH (c_t x :: won) c Hin); [left | right]; right; assumption.
Qed.

Lemma award_origin l : forall won e,
  In e (award won l) -> In e l \/ exists c, In c l /\ e = (c_q c, c_q c, c_w c).
Proof.
  induction l as [|x r IH]; intros won e Hin; [contradiction|].
  cbn [award] in Hin. destruct (existsb (N.eqb (c_t x)) won); destruct Hin as [Hin|Hin].
  - right. exists x. split; [left; reflexivity | symmetry; exact Hin].
  - destruct (IH _ _ Hin) as [H|[c [Hc E]]]; [left; right; exact H | right; exists c; split; [right; exact Hc | exact E]].
  - left. left. exact Hin.
  - destruct (IH _ _ Hin) as [H|[c [Hc E]]]; [left; right; exact H | right; exists c; split; [right; exact Hc | exact E]].
Qed.

Lemma award_track_given l : forall won c,
  In c l -> ~ In (c_t c) won -> exists e, In e (award won l) /\ In e l /\ c_t e = c_t c.
Proof.
  induction l as [|x r IH]; intros won c Hin Hn; [contradiction|].
  cbn [award]. destruct (existsb (N.eqb (c_t x)) won) eqn:E.
  - destruct Hin as [Hin|Hin]; [subst x; exfalso; apply Hn, existsb_Neqb, E|].
    destruct (IH won c Hin Hn) as [e [H1 [H2 H3]]]. exists e. split; [right; exact H1 | split; [right; exact H2 | exact H3]].
  - destruct (N.eq_dec (c_t x) (c_t c)) as [Et|Et].
    + exists x. split; [left; reflexivity | split; [left; reflexivity | exact Et]].
    + destruct Hin as [Hin|Hin]; [subst x; congruence|].
      destruct (IH (c_t x :: won) c Hin) as [e [H1 [H2 H3]]].
      * intros [H|H]; [congruence | exact (Hn H)].
      * exists e. split; [right; exact H1 | split; [right; exact H2 | exact H3]].
Qed.

Lemma StronglySorted_after {A} (R : A -> A -> Prop) pre e post x :
  StronglySorted R (pre ++ e :: post) -> In x post -> R e x.
Proof.
  induction pre as [|a pre IH]; cbn [app]; intros Hs Hx.
  - apply StronglySorted_inv in Hs. destruct Hs as [_ H]. rewrite Forall_forall in H. apply H, Hx.
  - apply StronglySorted_inv in Hs. destruct Hs as [Hs _]. apply IH; assumption.
Qed.

Definition ids_disjoint (s : list dist) : Prop := forall d d', In d s -> In d' s -> d_from d <> d_to d'.

Lemma counted_dists_witness maxd q t s :
  counted_dists maxd q t s <> [] -> exists d, In d s /\ d_from d = q /\ d_to d = t.
Proof.
  unfold counted_dists. induction s as [|d s IH]; cbn [flat_map]; intro H; [congruence|].
  destruct (counted maxd q t d) as [e|] eqn:E.
  - exists d. split; [left; reflexivity|]. unfold counted in E. destruct (fd d); [|discriminate].
    destruct (Qle_bool q0 maxd); cbn [andb] in E; [|discriminate].
    destruct (N.eqb_spec (d_from d) q); cbn [andb] in E; [|discriminate].
    destruct (N.eqb_spec (d_to d) t); [|discriminate]. tauto.
  - cbn [app] in H. destruct (IH H) as [d' [H1 H2]]. exists d'. split; [right; exact H1 | exact H2].
Qed.

Lemma cands_real maxd minv s : ids_disjoint s -> forall c, In c (cands maxd minv s) -> real c.
Proof.
  intros Hd [[q t] w] Hin. apply cands_In in Hin. destruct Hin as [Hne _].
  destruct (counted_dists_witness _ _ _ _ Hne) as [d [Hd1 [Hf Ht]]].
  unfold real, c_t, c_q. cbn [fst snd]. intro E. apply (Hd d d Hd1 Hd1). congruence.
Qed.

Definition awarded (maxd : Q) (minv : nat) (s : list dist) : list cand :=
  award [] (sort_desc c_w (cands maxd minv s)).

Lemma bestfit_In maxd minv s q l t w :
  In (q, l) (best_fit_voting maxd minv s) -> In (t, w) l -> In (q, t, w) (awarded maxd minv s).
Proof.
  unfold best_fit_voting. intros Hin Ht. apply by_query_In in Hin. destruct Hin as [_ Hl]. subst l.
  apply qcands_In, Ht.
Qed.

Lemma sorted_cands_real maxd minv s :
  ids_disjoint s -> forall c, In c (sort_desc c_w (cands maxd minv s)) -> real c.
Proof.
  intros Hd c Hc. eapply cands_real; [exact Hd|]. eapply Permutation_in; [apply sort_desc_perm | exact Hc].
Qed.

Lemma bestfit_one_winner_per_track_lemma maxd minv s q1 q2 l1 l2 t w1 w2 :
  ids_disjoint s ->
  In (q1, l1) (best_fit_voting maxd minv s) -> In (q2, l2) (best_fit_voting maxd minv s) ->
  In (t, w1) l1 -> In (t, w2) l2 -> t <> q1 -> t <> q2 -> q1 = q2 /\ w1 = w2.
Proof.
  intros Hd H1 H2 T1 T2 N1 N2.
  pose proof (bestfit_In _ _ _ _ _ _ _ H1 T1) as A1. pose proof (bestfit_In _ _ _ _ _ _ _ H2 T2) as A2.
  assert ((q1, t, w1) = (q2, t, w2)) as E.
  { eapply award_real_unique; try eassumption; try reflexivity. apply sorted_cands_real, Hd. }
  inversion E. tauto.
Qed.

Lemma bestfit_winner_is_max_lemma maxd minv s q l t w :
  ids_disjoint s ->
  In (q, l) (best_fit_voting maxd minv s) -> In (t, w) l -> t <> q ->
  In (q, t, w) (cands maxd minv s) /\
  forall q' w', In (q', t, w') (cands maxd minv s) -> w' <= w.
Proof.
  intros Hd Hin Ht Hn. pose proof (bestfit_In _ _ _ _ _ _ _ Hin Ht) as A.
  pose proof (sorted_cands_real maxd minv _ Hd) as Hreal.
  assert (real (q, t, w)) as Hr by exact Hn.
  destruct (award_real_notin_won _ _ _ Hreal A Hr) as [_ Hs].
  split; [eapply Permutation_in; [apply sort_desc_perm | exact Hs]|].
  intros q' w' Hc.
  destruct (award_real_first _ _ _ Hreal A Hr) as [pre [post [El Hp]]].
  assert (In (q', t, w') (sort_desc c_w (cands maxd minv s))) as Hc'
    by (eapply Permutation_in; [apply Permutation_sym, sort_desc_perm | exact Hc]).
  rewrite El in Hc'. apply in_app_or in Hc'. destruct Hc' as [Hc'|[Hc'|Hc']].
  - exfalso. apply Hp. apply in_map_iff. exists (q', t, w'). split; [reflexivity | exact Hc'].
  - inversion Hc'. apply Qle_refl.
  - pose proof (sort_desc_sorted c_w (cands maxd minv s)) as Hss. rewrite El in Hss.
    apply (StronglySorted_after _ _ _ _ _ Hss Hc').
Qed.

Lemma bestfit_every_candidate_answered_lemma maxd minv s q t w :
  In (q, t, w) (cands maxd minv s) ->
  exists l, In (q, l) (best_fit_voting maxd minv s) /\ (In (t, w) l \/ In (q, w) l).
Proof.
  intro Hc.
  assert (In (q, t, w) (sort_desc c_w (cands maxd minv s))) as Hs
    by (eapply Permutation_in; [apply Permutation_sym, sort_desc_perm | exact Hc]).
  exists (qcands q (awarded maxd minv s)). split.
  - unfold best_fit_voting. apply by_query_In. split; [|reflexivity].
    destruct (award_answers _ [] _ Hs) as [H|H]; apply in_map_iff; eexists; (split; [|exact H]); reflexivity.
  - destruct (award_answers _ [] _ Hs) as [H|H]; [left | right]; apply qcands_In; exact H.
Qed.

Lemma bestfit_track_awarded_lemma maxd minv s q t w :
  In (q, t, w) (cands maxd minv s) ->
  exists q' l' w', In (q', l') (best_fit_voting maxd minv s) /\ In (t, w') l' /\ In (q', t, w') (cands maxd minv s).
Proof.
  intro Hc.
  assert (In (q, t, w) (sort_desc c_w (cands maxd minv s))) as Hs
    by (eapply Permutation_in; [apply Permutation_sym, sort_desc_perm | exact Hc]).
  destruct (award_track_given _ [] _ Hs) as [[[q' t'] w'] [H1 [H2 H3]]]; [intros []|].
  unfold c_t in H3. cbn [fst snd] in H3. subst t'.
  exists q', (qcands q' (awarded maxd minv s)), w'. split; [|split].
  - unfold best_fit_voting. apply by_query_In. split; [|reflexivity]. apply in_map_iff. exists (q', t, w'). split; [reflexivity | exact H1].
  - apply qcands_In. exact H1.
  - eapply Permutation_in; [apply sort_desc_perm | exact H2].
Qed.

Lemma bestfit_entry_origin_lemma maxd minv s q l t w :
  In (q, l) (best_fit_voting maxd minv s) -> In (t, w) l ->
  In (q, t, w) (cands maxd minv s) \/ (t = q /\ exists t0, In (q, t0, w) (cands maxd minv s)).
Proof.
  intros Hin Ht. pose proof (bestfit_In _ _ _ _ _ _ _ Hin Ht) as A.
  destruct (award_origin _ _ _ A) as [H|[[[q0 t0] w0] [Hc E]]].
  - left. eapply Permutation_in; [apply sort_desc_perm | exact H].
  - right. unfold c_q, c_w in E. cbn [fst snd] in E. inversion E; subst. split; [reflexivity|].
    exists t0. eapply Permutation_in; [apply sort_desc_perm | exact Hc].
Qed.

Lemma bestfit_sorted_lemma maxd minv s q l :
  In (q, l) (best_fit_voting maxd minv s) -> StronglySorted (fun a b => snd b <= snd a) l.
Proof.
  unfold best_fit_voting. intro Hin. apply by_query_In in Hin. destruct Hin as [_ Hl]. subst l.
  (* weights of the awarded list are those of the sorted list, position by position *)
  assert (forall l won, map c_w (award won l) = map c_w l /\ map c_q (award won l) = map c_q l) as Haw.
  { induction l as [|c r IH]; intro won; [split; reflexivity|]. cbn [award].
    destruct (existsb (N.eqb (c_t c)) won); cbn [map]; destruct (IH won) as [E1 E2];
      destruct (IH (c_t c :: won)) as [E3 E4]; split; f_equal; assumption. }
  assert (forall l : list cand, StronglySorted (ge_w c_w) l -> StronglySorted (fun a b => snd b <= snd a) (qcands q l)) as Hq.
  { induction l as [|c r IH]; intro Hs; [constructor|].
    apply StronglySorted_inv in Hs. destruct Hs as [Hs Hc].
    unfold qcands, vals. cbn [map filter reshape fst]. destruct (q =? c_q c)%N; cbn [map snd]; [|apply IH, Hs].
    constructor; [apply IH, Hs|]. rewrite Forall_forall in *. intros [t w] Hin.
    apply qcands_In in Hin. apply (Hc _ Hin). }
  apply Hq.
  (* sortedness only depends on the weights *)
  assert (forall l l' : list cand, map c_w l = map c_w l' -> StronglySorted (ge_w c_w) l -> StronglySorted (ge_w c_w) l') as Hw.
  { induction l as [|c r IH]; intros [|c' r'] E Hs; try discriminate; [constructor|].
    cbn [map] in E. inversion E as [[Ec Er]]. apply StronglySorted_inv in Hs. destruct Hs as [Hs Hc].
    constructor; [eapply IH; eassumption|]. rewrite Forall_forall in *. intros x Hx.
    apply (in_map c_w) in Hx. rewrite <- Er in Hx. apply in_map_iff in Hx. destruct Hx as [y [Ey Hy]].
    unfold ge_w in *. rewrite <- Ey, <- Ec. apply Hc, Hy. }
  eapply Hw; [symmetry; apply Haw | apply sort_desc_sorted].
Qed.

Definition bestfit_distinct (maxd : Q) (minv : nat) (s : list dist) : Prop :=
  forall c1 c2, In c1 (cands maxd minv s) -> In c2 (cands maxd minv s) -> c_w c1 == c_w c2 -> c1 = c2.

Lemma bestfit_perm_invariant_lemma maxd minv s s' :
  Permutation s s' -> bestfit_distinct maxd minv s ->
  best_fit_voting maxd minv s = best_fit_voting maxd minv s'.
Proof.
  intros Hp Hd. unfold best_fit_voting. f_equal. f_equal.
  apply sort_desc_unique; [apply cands_perm, Hp | exact Hd].
Qed.

Lemma max_dist_is_largest_lemma s :
  (forall d e, In d s -> fd d = Some e -> e <= max_dist s) /\
  (max_dist s = (-1 # 1) \/ exists d, In d s /\ fd d = Some (max_dist s)).
Proof. split; [exact (max_dist_ub s) | exact (max_dist_attained s)]. Qed.

(* ---------------------------------------------------------------------------------------------- *)
(* best fit, order independence under the weaker hypothesis: only COMPARABLE candidates (same query or same track)
   need distinct weights *)
Definition heavier_claim (C : list cand) (c : cand) : bool :=
  existsb (fun c' => (c_t c' =? c_t c)%N && Qltb (c_w c) (c_w c')) C.
Definition relabel (C : list cand) (c : cand) : cand :=
  if heavier_claim C c then (c_q c, c_q c, c_w c) else c.

Lemma heavier_claim_perm C C' c : Permutation C C' -> heavier_claim C c = heavier_claim C' c.
Proof.
  intro Hp. unfold heavier_claim. apply eq_true_iff_eq. rewrite !existsb_exists.
  split; intros [x [Hx E]]; exists x; (split; [|exact E]); eapply Permutation_in; try eassumption. apply Permutation_sym, Hp.
Qed.

Lemma award_is_relabel l : forall pre won,
  (forall t, In t won <-> In t (map c_t pre)) ->
  StronglySorted (ge_w c_w) (pre ++ l) -> NoDup (pre ++ l) ->
  (forall c1 c2, In c1 (pre ++ l) -> In c2 (pre ++ l) -> c_t c1 = c_t c2 -> c_w c1 == c_w c2 -> c1 = c2) ->
  award won l = map (relabel (pre ++ l)) l.
Proof.
  induction l as [|c r IH]; intros pre won Hwon Hs Hnd Hdist; [reflexivity|].
  cbn [award map].
  assert (existsb (N.eqb (c_t c)) won = heavier_claim (pre ++ c :: r) c) as E.
  { apply eq_true_iff_eq. rewrite existsb_Neqb, Hwon. unfold heavier_claim. rewrite existsb_exists, in_map_iff. split.
    - intros [c' [Et Hc']]. exists c'. split; [apply in_or_app; left; exact Hc'|].
      rewrite Et, N.eqb_refl. cbn [andb]. apply Qltb_true.
      assert (c_w c <= c_w c') as Hle.
      { clear - Hs Hc'. induction pre as [|a pre IHp]; [contradiction|]. cbn [app] in Hs.
        apply StronglySorted_inv in Hs. destruct Hs as [Hs Ha]. destruct Hc' as [Hc'|Hc']; [|apply IHp; assumption].
        subst a. rewrite Forall_forall in Ha. apply Ha. apply in_or_app. right. left. reflexivity. }
      destruct (Qlt_le_dec (c_w c) (c_w c')) as [Hlt|Hge]; [exact Hlt|]. exfalso.
      assert (c' = c) as Ec.
      { apply Hdist; [apply in_or_app; left; exact Hc' | apply in_or_app; right; left; reflexivity | exact Et | apply Qle_antisym; assumption]. }
      subst c'. apply NoDup_remove_2 in Hnd. apply Hnd. apply in_or_app. left. exact Hc'.
    - intros [c' [Hc' Ec']]. apply andb_true_iff in Ec'. destruct Ec' as [Et Hlt]. apply N.eqb_eq in Et. apply Qltb_true in Hlt.
      exists c'. split; [exact Et|]. apply in_app_or in Hc'. destruct Hc' as [Hc'|[Hc'|Hc']]; [exact Hc' | |].
      + subst c'. exfalso. apply (Qlt_irrefl _ Hlt).
      + exfalso. pose proof (StronglySorted_after _ _ _ _ _ Hs Hc') as Hge. unfold ge_w in Hge. apply (Qlt_not_le _ _ Hlt Hge). }
  assert (pre ++ c :: r = (pre ++ [c]) ++ r) as Eapp by (rewrite <- app_assoc; reflexivity).
  unfold relabel at 1. rewrite <- E. destruct (existsb (N.eqb (c_t c)) won) eqn:Ew.
  - f_equal. rewrite Eapp. apply IH; try (rewrite <- Eapp; assumption).
    intro t. rewrite Hwon, map_app, in_app_iff. cbn [map In]. split; [tauto|]. intros [H|[H|[]]]; [exact H|].
    subst t. apply Hwon. apply existsb_Neqb. exact Ew.
  - f_equal. rewrite Eapp. apply IH; try (rewrite <- Eapp; assumption).
    intro t. cbn [In]. rewrite Hwon, map_app, in_app_iff. cbn [map In]. tauto.
Qed.

Lemma filter_sorted {A} (R : A -> A -> Prop) (p : A -> bool) l : StronglySorted R l -> StronglySorted R (filter p l).
Proof.
  induction l as [|x l IH]; intro Hs; cbn [filter]; [constructor|].
  apply StronglySorted_inv in Hs. destruct Hs as [Hs Hx]. destruct (p x); [|apply IH, Hs].
  constructor; [apply IH, Hs|]. rewrite Forall_forall in *. intros y Hy. apply filter_In in Hy. apply Hx. tauto.
Qed.

Lemma qcands_relabel q C l :
  qcands q (map (relabel C) l) = map (fun c => (c_t (relabel C c), c_w c)) (filter (fun c => (q =? c_q c)%N) l).
Proof.
  unfold qcands, vals. induction l as [|c r IH]; [reflexivity|].
  cbn [map filter]. 
  assert (c_q (relabel C c) = c_q c /\ c_w (relabel C c) = c_w c) as [Eq Ew]
    by (unfold relabel; destruct (heavier_claim C c); split; reflexivity).
  unfold reshape at 1. cbn [fst]. rewrite Eq. destruct (q =? c_q c)%N; cbn [map snd]; [|exact IH].
  rewrite IH. unfold reshape. cbn [snd]. rewrite Ew. reflexivity.
Qed.

Definition bestfit_distinct_cmp (maxd : Q) (minv : nat) (s : list dist) : Prop :=
  forall c1 c2, In c1 (cands maxd minv s) -> In c2 (cands maxd minv s) ->
    c_q c1 = c_q c2 \/ c_t c1 = c_t c2 -> c_w c1 == c_w c2 -> c1 = c2.

Lemma bestfit_as_relabel maxd minv s :
  bestfit_distinct_cmp maxd minv s ->
  awarded maxd minv s = map (relabel (cands maxd minv s)) (sort_desc c_w (cands maxd minv s)).
Proof.
  intro Hd. unfold awarded.
  pose proof (sort_desc_perm c_w (cands maxd minv s)) as Hp.
  rewrite (award_is_relabel _ [] []); cbn [app].
  - apply map_ext_in. intros c _. unfold relabel. rewrite (heavier_claim_perm _ _ c Hp). reflexivity.
  - intro t. cbn. tauto.
  - apply sort_desc_sorted.
  - eapply Permutation_NoDup; [apply Permutation_sym, Hp | apply cands_NoDup].
  - intros c1 c2 H1 H2 Et Ew. apply Hd; [eapply Permutation_in; eassumption | eapply Permutation_in; eassumption | right; exact Et | exact Ew].
Qed.

Lemma bestfit_assoc maxd minv s q :
  assoc N.eqb q (best_fit_voting maxd minv s) =
  if existsb (N.eqb q) (nodupf N.eqb (map c_q (awarded maxd minv s)))
  then Some (qcands q (awarded maxd minv s)) else None.
Proof.
  unfold best_fit_voting, by_query, group_map. fold (awarded maxd minv s). rewrite !map_map. cbn [fst].
  rewrite (assoc_keys N.eqb Neqb_spec (fun k => vals N.eqb k (map reshape (awarded maxd minv s)))). reflexivity.
Qed.

Lemma bestfit_perm_invariant_cmp_lemma maxd minv s s' :
  Permutation s s' -> bestfit_distinct_cmp maxd minv s ->
  forall q, assoc N.eqb q (best_fit_voting maxd minv s) = assoc N.eqb q (best_fit_voting maxd minv s').
Proof.
  intros Hp Hd q.
  pose proof (cands_perm maxd minv _ _ Hp) as Hc.
  assert (bestfit_distinct_cmp maxd minv s') as Hd'.
  { intros c1 c2 H1 H2. apply Hd; eapply Permutation_in; try apply Permutation_sym; eassumption. }
  rewrite !bestfit_assoc, (bestfit_as_relabel _ _ _ Hd), (bestfit_as_relabel _ _ _ Hd').
  set (C := cands maxd minv s) in *. set (C' := cands maxd minv s') in *.
  assert (forall X, map c_q (map (relabel X) (sort_desc c_w X)) = map c_q (sort_desc c_w X)) as Hq.
  { intro X. rewrite map_map. apply map_ext. intro c. unfold relabel. destruct (heavier_claim X c); reflexivity. }
  rewrite !Hq.
  rewrite (existsb_perm N.eqb q _ (nodupf N.eqb (map c_q (sort_desc c_w C')))).
  2:{ intro x. rewrite !(In_nodupf N.eqb Neqb_spec). split; apply Permutation_in; apply Permutation_map.
      - eapply perm_trans; [apply sort_desc_perm|]. eapply perm_trans; [exact Hc | apply Permutation_sym, sort_desc_perm].
      - eapply perm_trans; [apply sort_desc_perm|]. eapply perm_trans; [apply Permutation_sym, Hc | apply Permutation_sym, sort_desc_perm]. }
  destruct (existsb _ _); [|reflexivity]. f_equal.
  rewrite !qcands_relabel.
  assert (filter (fun c => (q =? c_q c)%N) (sort_desc c_w C) = filter (fun c => (q =? c_q c)%N) (sort_desc c_w C')) as Ef.
  { apply (sorted_unique c_w).
    - apply Permutation_filter'. eapply perm_trans; [apply sort_desc_perm|]. eapply perm_trans; [exact Hc | apply Permutation_sym, sort_desc_perm].
    - apply filter_sorted, sort_desc_sorted.
    - apply filter_sorted, sort_desc_sorted.
    - intros x y Hx Hy Hw. apply filter_In in Hx, Hy. destruct Hx as [Hx Qx], Hy as [Hy Qy].
      apply N.eqb_eq in Qx, Qy.
      apply Hd; [eapply Permutation_in; [apply sort_desc_perm | exact Hx] | eapply Permutation_in; [apply sort_desc_perm | exact Hy] | left; congruence | exact Hw]. }
  rewrite Ef. apply map_ext. intro c. unfold relabel. rewrite (heavier_claim_perm C C' c Hc). reflexivity.
Qed.

(* ============================================================================================== *)
(* VisualVoting *)
Local Close Scope Q_scope.

(* --- canonical form of a map ------------------------------------------------------------------- *)
Section CanonK.
  Context {V : Type}.
  Definition le_key (a b : N * V) : Prop := (fst a <= fst b)%N.

  Lemma insert_k_perm (e : N * V) l : Permutation (insert_k e l) (e :: l).
  Proof.
    induction l as [|x l IH]; cbn [insert_k]; [reflexivity|]. destruct (fst e <=? fst x)%N; [reflexivity|].
    eapply perm_trans; [apply perm_skip, IH | apply perm_swap].
  Qed.

  Lemma canon_k_perm (l : list (N * V)) : Permutation (canon_k l) l.
  Proof.
    induction l as [|e l IH]; cbn [canon_k fold_right]; [constructor|]. fold (canon_k l).
    eapply perm_trans; [apply insert_k_perm | apply perm_skip, IH].
  Qed.

  Lemma insert_k_sorted (e : N * V) l : StronglySorted le_key l -> StronglySorted le_key (insert_k e l).
  Proof.
    induction l as [|x l IH]; cbn [insert_k]; intro Hs; [repeat constructor|].
    apply StronglySorted_inv in Hs. destruct Hs as [Hs Hx]. destruct (N.leb_spec (fst e) (fst x)) as [Hle|Hgt].
    - constructor; [constructor; assumption|]. constructor; [exact Hle|].
      rewrite Forall_forall in *. intros y Hy. unfold le_key in *. specialize (Hx y Hy). lia.
    - constructor; [apply IH, Hs|]. apply Forall_forall. intros y Hy.
      apply (Permutation_in _ (insert_k_perm e l)) in Hy. destruct Hy as [Hy|Hy]; [subst; unfold le_key; lia|].
      rewrite Forall_forall in Hx. apply Hx, Hy.
  Qed.

  Lemma canon_k_sorted (l : list (N * V)) : StronglySorted le_key (canon_k l).
  Proof. induction l as [|e l IH]; cbn [canon_k fold_right]; [constructor | apply insert_k_sorted, IH]. Qed.

  Lemma sorted_key_unique (l1 : list (N * V)) : forall l2,
    Permutation l1 l2 -> StronglySorted le_key l1 -> StronglySorted le_key l2 -> NoDup (map fst l1) -> l1 = l2.
  Proof.
    induction l1 as [|a r1 IH]; intros l2 Hp H1 H2 Hnd.
    - apply Permutation_nil in Hp. subst. reflexivity.
    - destruct l2 as [|b r2]; [apply Permutation_sym, Permutation_nil in Hp; discriminate|].
      apply StronglySorted_inv in H1. destruct H1 as [H1 Ha]. apply StronglySorted_inv in H2. destruct H2 as [H2 Hb].
      rewrite Forall_forall in Ha, Hb.
      assert (a = b) as Eab.
      { assert (In a (b :: r2)) as Ia by (apply (Permutation_in _ Hp); left; reflexivity).
        assert (In b (a :: r1)) as Ib by (apply (Permutation_in _ (Permutation_sym Hp)); left; reflexivity).
        destruct Ia as [Ia|Ia]; [congruence|]. destruct Ib as [Ib|Ib]; [congruence|].
        specialize (Hb _ Ia). specialize (Ha _ Ib). unfold le_key in *.
        assert (fst a = fst b) as Ef by lia.
        destruct a as [a1 a2], b as [b1 b2]. cbn [fst] in Ef. subst b1. f_equal.
        eapply (NoDup_map_fst_unique ((a1, a2) :: r1)); [exact Hnd | left; reflexivity | right; exact Ib]. }
      subst b. f_equal. apply IH; try assumption.
      + eapply Permutation_cons_inv, Hp.
      + cbn [map] in Hnd. inversion Hnd; assumption.
  Qed.

  Lemma canon_k_unique (l l' : list (N * V)) : NoDup (map fst l) -> Permutation l l' -> canon_k l = canon_k l'.
  Proof.
    intros Hnd Hp. apply sorted_key_unique.
    - eapply perm_trans; [apply canon_k_perm|]. eapply perm_trans; [exact Hp | apply Permutation_sym, canon_k_perm].
    - apply canon_k_sorted.
    - apply canon_k_sorted.
    - eapply Permutation_NoDup; [apply Permutation_map, Permutation_sym, canon_k_perm | exact Hnd].
  Qed.
End CanonK.

(* --- the visual stage --------------------------------------------------------------------------- *)
Lemma assoc_In {W} (m : list (N * W)) k v : NoDup (map fst m) -> (In (k, v) m <-> assoc N.eqb k m = Some v).
Proof.
  unfold assoc. induction m as [|[a b] m IH]; cbn [map fst In find]; intro Hnd; [split; [intros [] | discriminate]|].
  inversion Hnd as [|? ? Hn Hd]; subst. destruct (N.eqb_spec k a) as [E|E]; cbn [option_map snd].
  - subst a. split.
    + intros [H|H]; [inversion H; reflexivity|]. exfalso. apply Hn. apply in_map_iff. exists (k, v). split; [reflexivity | exact H].
    + intro H. inversion H. left. reflexivity.
  - rewrite <- (IH Hd). split; [intros [H|H]; [inversion H; congruence | exact H] | intro H; right; exact H].
Qed.

Definition vhead (g : N * list (N * Q)) : list (N * N) :=
  match snd g with [] => [] | e :: _ => [(fst g, fst e)] end.

Lemma vis_feature_In maxd minv s q t :
  In (q, t) (vis_feature maxd minv s) <->
  exists w r, In (q, (t, w) :: r) (best_fit_voting maxd minv (map vd_dist s)).
Proof.
  unfold vis_feature. rewrite in_flat_map. split.
  - intros [[q' l] [Hin H]]. cbn [snd fst] in H. destruct l as [|[t' w] r]; [contradiction|].
    destruct H as [H|[]]. inversion H; subst. exists w, r. exact Hin.
  - intros [w [r Hin]]. exists (q, (t, w) :: r). split; [exact Hin | left; reflexivity].
Qed.

Lemma heads_fst_NoDup (BF : list (N * list (N * Q))) :
  NoDup (map fst BF) -> NoDup (map fst (flat_map vhead BF)).
Proof.
  induction BF as [|[q l] BF IH]; cbn [map fst flat_map]; intro Hnd; [constructor|].
  inversion Hnd as [|? ? Hn Hd]; subst. unfold vhead at 1. cbn [snd fst]. destruct l as [|e r]; cbn [app]; [apply IH, Hd|].
  cbn [map fst]. constructor; [|apply IH, Hd].
  intro Hin. apply Hn. apply in_map_iff in Hin. destruct Hin as [[q' t] [E Hin]]. cbn [fst] in E. subst q'.
  apply in_flat_map in Hin. destruct Hin as [[q' l'] [Hin H]]. unfold vhead in H. cbn [snd fst] in H.
  destruct l'; [contradiction|]. destruct H as [H|[]]. inversion H; subst. apply in_map_iff. exists (q, p :: l'). split; [reflexivity | exact Hin].
Qed.

Lemma bestfit_keys_NoDup maxd minv s : NoDup (map fst (best_fit_voting maxd minv s)).
Proof. unfold best_fit_voting, by_query. apply (group_map_NoDup N.eqb Neqb_spec). Qed.

Lemma vis_feature_fst_NoDup maxd minv s : NoDup (map fst (vis_feature maxd minv s)).
Proof. apply heads_fst_NoDup, bestfit_keys_NoDup. Qed.

Lemma vis_feature_perm maxd minv s s' :
  Permutation s s' -> bestfit_distinct_cmp maxd minv (map vd_dist s) ->
  Permutation (vis_feature maxd minv s) (vis_feature maxd minv s').
Proof.
  intros Hp Hd.
  assert (forall q l, In (q, l) (best_fit_voting maxd minv (map vd_dist s)) <-> In (q, l) (best_fit_voting maxd minv (map vd_dist s'))) as Hiff.
  { intros q l. rewrite !(assoc_In _ _ _ (bestfit_keys_NoDup _ _ _)).
    rewrite (bestfit_perm_invariant_cmp_lemma maxd minv _ _ (Permutation_map vd_dist Hp) Hd q). reflexivity. }
  apply NoDup_Permutation.
  - eapply NoDup_map_inv, vis_feature_fst_NoDup.
  - eapply NoDup_map_inv, vis_feature_fst_NoDup.
  - intros [q t]. rewrite !vis_feature_In. split; intros [w [r H]]; exists w, r; apply Hiff; exact H.
Qed.

Lemma memN_perm x l l' : Permutation l l' -> memN x l = memN x l'.
Proof.
  intro Hp. unfold memN. apply (existsb_perm N.eqb). intro y. split; apply Permutation_in; [exact Hp | apply Permutation_sym, Hp].
Qed.

Lemma memN_In x l : memN x l = true <-> In x l.
Proof. unfold memN. apply existsb_Neqb. Qed.

Lemma vis_rem_perm maxd minv s s' :
  Permutation s s' -> bestfit_distinct_cmp maxd minv (map vd_dist s) ->
  Permutation (vis_rem maxd minv s) (vis_rem maxd minv s').
Proof.
  intros Hp Hd. pose proof (vis_feature_perm maxd minv s s' Hp Hd) as Hf. unfold vis_rem, vis_remaining.
  rewrite (flat_map_ext _ (fun e => match v_w e with
                     | Some z => if negb (memN (v_from e) (map fst (vis_feature maxd minv s')) || memN (v_to e) (map snd (vis_feature maxd minv s')))
                                 then [(v_from e, v_to e, z)] else []
                     | None => []
                     end)).
  - apply Permutation_flat_map, Hp.
  - intro e. rewrite (memN_perm _ _ _ (Permutation_map fst Hf)), (memN_perm _ _ _ (Permutation_map snd Hf)). reflexivity.
Qed.

Lemma vis_rem_not_claimant maxd minv s p :
  In p (vis_rem maxd minv s) ->
  ~ In (p_from p) (map fst (vis_feature maxd minv s)) /\ ~ In (p_to p) (map snd (vis_feature maxd minv s)).
Proof.
  unfold vis_rem, vis_remaining. rewrite in_flat_map. intros [e [_ H]].
  destruct (v_w e) as [z|]; [|contradiction].
  destruct (memN (v_from e) _) eqn:E1; cbn [orb negb] in H; [contradiction|].
  destruct (memN (v_to e) _) eqn:E2; cbn [negb] in H; [contradiction|].
  destruct H as [H|[]]. subst p. unfold p_from, p_to. cbn [fst snd].
  split; intro Hin; apply memN_In in Hin; congruence.
Qed.

Lemma NoDup_app_disjoint {A} (l1 l2 : list A) :
  NoDup l1 -> NoDup l2 -> (forall x, In x l1 -> In x l2 -> False) -> NoDup (l1 ++ l2).
Proof.
  induction l1 as [|a l1 IH]; intros H1 H2 Hd; cbn [app]; [exact H2|].
  inversion H1 as [|? ? Hn Hd1]; subst. constructor.
  - rewrite in_app_iff. intros [H|H]; [contradiction | apply (Hd a); [left; reflexivity | exact H]].
  - apply IH; [exact Hd1 | exact H2 | intros x Hx; apply Hd; right; exact Hx].
Qed.

(* --- the composition ----------------------------------------------------------------------------- *)
Definition vis_tie_free (thr : Z) (maxd : Q) (minv : nat) (s : list vd) : Prop :=
  bestfit_distinct_cmp maxd minv (map vd_dist s) /\ hung_tie_free thr (vis_rem maxd minv s).

Lemma visual_raw_keys km thr maxd minv s R :
  (0 < thr)%Z -> km_ok km -> hung_tie_free thr (vis_rem maxd minv s) ->
  visual_raw km thr maxd minv s = Some R -> NoDup (map fst R).
Proof.
  intros Hthr Hkm [Hpos [Hdisj [Hnd Huniq]]] HR. unfold visual_raw in HR.
  set (rem := vis_rem maxd minv s) in *.
  destruct (sort_winners km thr (length (froms rem)) (length (tos rem)) rem) as [pw|] eqn:Ew; [|discriminate].
  inversion HR; subst R. clear HR.
  assert (km_ok_on km thr (length (froms rem)) (length (tos rem)) rem) as K by (intros m idx; apply Hkm).
  destruct (sort_winners_gated km thr _ _ rem pw Hthr Hdisj (le_n _) K Ew) as [[H1 _] _].
  rewrite map_app, !map_map. cbn [fst]. apply NoDup_app_disjoint.
  - apply vis_feature_fst_NoDup.
  - change (map (fun x : N * N => fst x) pw) with (map fst pw). rewrite H1. apply froms_NoDup.
  - intros x Hx Hy. change (map (fun x : N * N => fst x) pw) with (map fst pw) in Hy. rewrite H1 in Hy.
    apply froms_In in Hy. destruct Hy as [p [Hp E]]. subst x.
    destruct (vis_rem_not_claimant maxd minv s p Hp) as [Hn _]. apply Hn. exact Hx.
Qed.

Lemma visual_winners_perm_invariant_lemma km thr maxd minv :
  (0 < thr)%Z -> km_ok km ->
  forall s1 s2, Permutation s1 s2 -> vis_tie_free thr maxd minv s1 ->
    visual_winners km thr maxd minv s1 = visual_winners km thr maxd minv s2.
Proof.
  intros Hthr Hkm s1 s2 Hp [Hbf Htf]. pose proof Htf as [Hpos [Hdisj [Hnd Huniq]]].
  pose proof (vis_rem_perm maxd minv s1 s2 Hp Hbf) as Hrem.
  pose proof (vis_feature_perm maxd minv s1 s2 Hp Hbf) as Hfw.
  unfold visual_winners.
  destruct (visual_raw km thr maxd minv s1) as [R1|] eqn:E1.
  2:{ exfalso. unfold visual_raw in E1. set (rem := vis_rem maxd minv s1) in *.
      assert (km_ok_on km thr (length (froms rem)) (length (tos rem)) rem) as K by (intros m idx; apply Hkm).
      destruct (sort_winners_succeeds km thr _ _ rem Hthr Hpos Hdisj (le_n _) (le_n _) K) as [W R]. rewrite R in E1. discriminate. }
  pose proof (visual_raw_keys km thr maxd minv s1 R1 Hthr Hkm Htf E1) as Hkeys.
  unfold visual_raw in *. set (rem1 := vis_rem maxd minv s1) in *. set (rem2 := vis_rem maxd minv s2) in *.
  assert (km_ok_on km thr (length (froms rem1)) (length (tos rem1)) rem1) as K1 by (intros m idx; apply Hkm).
  assert (km_ok_on km thr (length (froms rem2)) (length (tos rem2)) rem2) as K2 by (intros m idx; apply Hkm).
  destruct (sort_winners km thr (length (froms rem1)) (length (tos rem1)) rem1) as [pw1|] eqn:Ew1; [|discriminate].
  destruct (sort_winners_succeeds km thr _ _ rem2 Hthr (ids_pos_perm _ _ Hrem Hpos) (ids_disj_perm _ _ Hrem Hdisj) (le_n _) (le_n _) K2) as [pw2 Ew2].
  rewrite Ew2. inversion E1; subst R1. cbn [option_map]. f_equal.
  destruct (hungarian_perm_invariant_lemma km km thr _ _ _ _ rem1 rem2 pw1 pw2 Hthr Hrem Hnd Hdisj (le_n _)
              ltac:(rewrite (tos_length_perm _ _ Hrem); apply le_n) Huniq K1 K2 Ew1 Ew2) as [HP _].
  apply canon_k_unique; [exact Hkeys|].
  apply Permutation_app; apply Permutation_map; assumption.
Qed.

(* --- structure ------------------------------------------------------------------------------------ *)
Lemma visual_award_is_heaviest_lemma maxd minv s q t :
  ids_disjoint (map vd_dist s) -> In (q, t) (vis_feature maxd minv s) -> t <> q ->
  exists w, In (q, t, w) (cands maxd minv (map vd_dist s)) /\
            (forall q' w', In (q', t, w') (cands maxd minv (map vd_dist s)) -> (w' <= w)%Q) /\
            (forall t' w', In (q, t', w') (cands maxd minv (map vd_dist s)) -> (w' <= w)%Q).
Proof.
  intros Hd Hin Hne. apply vis_feature_In in Hin. destruct Hin as [w [r Hin]]. exists w.
  destruct (bestfit_winner_is_max_lemma maxd minv _ q _ t w Hd Hin (or_introl eq_refl) Hne) as [Hc Hmax].
  split; [exact Hc|]. split; [exact Hmax|].
  (* the head of the query's list is its heaviest entry, and every claim of the query is an entry *)
  intros t' w' Hc'.
  destruct (bestfit_every_candidate_answered_lemma maxd minv _ q t' w' Hc') as [l [Hl Hor]].
  assert (l = (t, w) :: r) as El.
  { pose proof (bestfit_keys_NoDup maxd minv (map vd_dist s)) as Hk.
    apply (assoc_In _ _ _ Hk) in Hl. apply (assoc_In _ _ _ Hk) in Hin. congruence. }
  subst l. pose proof (bestfit_sorted_lemma maxd minv _ q _ Hin) as Hs.
  apply StronglySorted_inv in Hs. destruct Hs as [_ Hall]. rewrite Forall_forall in Hall.
  destruct Hor as [[H|H]|[H|H]]; try (inversion H; apply Qle_refl); apply (Hall _ H).
Qed.

Lemma visual_claimant_has_entry_lemma maxd minv s q t w :
  In (q, t, w) (cands maxd minv (map vd_dist s)) -> exists t', In (q, t') (vis_feature maxd minv s).
Proof.
  intro Hc. destruct (bestfit_every_candidate_answered_lemma maxd minv _ q t w Hc) as [l [Hl Hor]].
  destruct l as [|[t' w'] r]; [destruct Hor as [[]|[]]|]. exists t'. apply vis_feature_In. exists w', r. exact Hl.
Qed.

Lemma visual_raw_shape_lemma km thr maxd minv s R :
  (0 < thr)%Z -> km_ok km -> hung_tie_free thr (vis_rem maxd minv s) ->
  visual_raw km thr maxd minv s = Some R ->
  NoDup (map fst R) /\
  (forall q t, In (q, (t, Visual)) R <-> In (q, t) (vis_feature maxd minv s)) /\
  (forall q, In q (froms (vis_rem maxd minv s)) -> exists t, In (q, (t, Positional)) R) /\
  (forall q t, In (q, (t, Positional)) R -> In q (froms (vis_rem maxd minv s)) /\ ~ In q (map fst (vis_feature maxd minv s))).
Proof.
  intros Hthr Hkm Htf HR. split; [eapply visual_raw_keys; eassumption|].
  destruct Htf as [Hpos [Hdisj [Hnd Huniq]]]. unfold visual_raw in HR. set (rem := vis_rem maxd minv s) in *.
  destruct (sort_winners km thr (length (froms rem)) (length (tos rem)) rem) as [pw|] eqn:Ew; [|discriminate].
  inversion HR; subst R. clear HR.
  assert (km_ok_on km thr (length (froms rem)) (length (tos rem)) rem) as K by (intros m idx; apply Hkm).
  destruct (sort_winners_gated km thr _ _ rem pw Hthr Hdisj (le_n _) K Ew) as [[H1 _] _].
  split; [|split].
  - intros q t. rewrite in_app_iff, !in_map_iff. split.
    + intros [[[q' t'] [E H]]|[[q' t'] [E H]]]; inversion E; subst; exact H.
    + intro H. left. exists (q, t). split; [reflexivity | exact H].
  - intros q Hq. rewrite <- H1 in Hq. apply in_map_iff in Hq. destruct Hq as [[q' t] [E H]]. cbn [fst] in E. subst q'.
    exists t. apply in_or_app. right. apply in_map_iff. exists (q, t). split; [reflexivity | exact H].
  - intros q t H. apply in_app_or in H. destruct H as [H|H]; apply in_map_iff in H; destruct H as [[q' t'] [E H]]; inversion E; subst.
    assert (In q (froms rem)) as Hq by (rewrite <- H1; apply in_map_iff; exists (q, t); split; [reflexivity | exact H]).
    split; [exact Hq|]. apply froms_In in Hq. destruct Hq as [p [Hp Ep]]. subst q.
    apply (vis_rem_not_claimant maxd minv s p Hp).
Qed.
