(* Lemmas about Model/Feature.v (C16). *)
From Coq Require Import List Arith NArith ZArith QArith Bool Lia.
From Similari Require Import Base.Num Model.Feature.
Import ListNotations.
Close Scope Q_scope.

(* ------------------------------------------------------------------------------------------------ *)
(* Part 1: packing, for every carrier and every length, by induction on chunks of eight *)

Section PackFacts.
  Variable A : Type.
  Variable z : A.

  Local Notation block8 := (block8 A).
  Local Notation pack := (pack A z).
  Local Notation unpack := (unpack A).
  Local Notation pack_loop := (pack_loop A z).
  Local Notation pack_step := (pack_step A z).
  Local Notation pack_finish := (pack_finish A).
  Local Notation zero_block := (zero_block A z).

  (* the block made of the first (up to) eight elements of v, missing lanes zero *)
  Definition blk_of (v : list A) : block8 :=
    (nth 0 v z, nth 1 v z, nth 2 v z, nth 3 v z, nth 4 v z, nth 5 v z, nth 6 v z, nth 7 v z).

  (* specification of packing: cut into eights, pad the last one *)
  Fixpoint chunks (v : list A) : list block8 :=
    match v with
    | [] => []
    | a0 :: a1 :: a2 :: a3 :: a4 :: a5 :: a6 :: a7 :: rest => (a0, a1, a2, a3, a4, a5, a6, a7) :: chunks rest
    | _ => [blk_of v]
    end.

  Lemma chunk_ind : forall P : list A -> Prop,
      (forall v, length v < 8 -> P v) ->
      (forall a0 a1 a2 a3 a4 a5 a6 a7 rest, P rest -> P (a0 :: a1 :: a2 :: a3 :: a4 :: a5 :: a6 :: a7 :: rest)) ->
      forall v, P v.
  Proof.
    intros P Hshort Hchunk v.
    assert (H : forall n v, length v <= n -> P v).
    { induction n as [|n IH]; intros v' Hlen.
      - apply Hshort. lia.
      - destruct v' as [|a0 [|a1 [|a2 [|a3 [|a4 [|a5 [|a6 [|a7 rest]]]]]]]];
          try (apply Hshort; cbn [length]; lia).
        apply Hchunk. apply IH. cbn [length] in Hlen. lia. }
    apply (H (length v)). lia.
  Qed.

  (* only counter % 8 is ever used *)
  Lemma pack_loop_mod : forall v c s, pack_loop v c s = pack_loop v (c mod 8) s.
  Proof.
    induction v as [|x r IH]; intros c s; cbn [Feature.pack_loop]; [reflexivity|].
    assert (Hs : pack_step s c x = pack_step s (c mod 8) x).
    { unfold Feature.pack_step. change LANES with 8. rewrite Nat.mod_mod by lia. reflexivity. }
    rewrite Hs. rewrite (IH (S c)). rewrite (IH (S (c mod 8))). f_equal.
    change (S c) with (1 + c). change (S (c mod 8)) with (1 + c mod 8).
    rewrite Nat.add_mod_idemp_r by lia. reflexivity.
  Qed.

  Lemma pack_loop_chunk : forall a0 a1 a2 a3 a4 a5 a6 a7 rest s,
      pack_loop (a0 :: a1 :: a2 :: a3 :: a4 :: a5 :: a6 :: a7 :: rest) 0 s
      = pack_loop rest 0 {| acc := (a0, a1, a2, a3, a4, a5, a6, a7); part := 8;
                            feature := feature s ++ [(a0, a1, a2, a3, a4, a5, a6, a7)] |}.
  Proof.
    intros. cbn [Feature.pack_loop]. rewrite (pack_loop_mod rest 8). reflexivity.
  Qed.

  Lemma pack_from_boundary : forall v s, part s = 8 -> pack_finish (pack_loop v 0 s) = feature s ++ chunks v.
  Proof.
    intros v. pattern v. apply chunk_ind; clear v.
    - intros v Hlen s Hp.
      destruct v as [|a0 [|a1 [|a2 [|a3 [|a4 [|a5 [|a6 [|a7 rest]]]]]]]]; try reflexivity.
      + unfold Feature.pack_finish. cbn [Feature.pack_loop]. rewrite Hp. cbn. rewrite app_nil_r. reflexivity.
      + cbn [length] in Hlen. lia.
    - intros a0 a1 a2 a3 a4 a5 a6 a7 rest IH s Hp.
      rewrite pack_loop_chunk. rewrite IH by reflexivity. cbn [feature]. rewrite <- app_assoc. reflexivity.
  Qed.

  Lemma pack_spec : forall v, pack v = match v with [] => [zero_block] | _ => chunks v end.
  Proof.
    intros v.
    destruct v as [|a0 [|a1 [|a2 [|a3 [|a4 [|a5 [|a6 [|a7 rest]]]]]]]]; try reflexivity.
    unfold Feature.pack. rewrite pack_loop_chunk. rewrite pack_from_boundary by reflexivity. reflexivity.
  Qed.

  Lemma chunks_length : forall v, length (chunks v) = (length v + 7) / 8.
  Proof.
    intros v. pattern v. apply chunk_ind; clear v.
    - intros v Hlen.
      destruct v as [|a0 [|a1 [|a2 [|a3 [|a4 [|a5 [|a6 [|a7 rest]]]]]]]]; try reflexivity.
      cbn [length] in Hlen. lia.
    - intros a0 a1 a2 a3 a4 a5 a6 a7 rest IH. cbn [chunks length]. rewrite IH.
      replace (S (S (S (S (S (S (S (S (length rest)))))))) + 7) with ((length rest + 7) + 1 * 8) by lia.
      rewrite Nat.div_add by lia. lia.
  Qed.

  Lemma unpack_chunks : forall v, unpack (chunks v) = v ++ repeat z ((8 - length v mod 8) mod 8).
  Proof.
    intros v. pattern v. apply chunk_ind; clear v.
    - intros v Hlen.
      destruct v as [|a0 [|a1 [|a2 [|a3 [|a4 [|a5 [|a6 [|a7 rest]]]]]]]]; try reflexivity.
      cbn [length] in Hlen. lia.
    - intros a0 a1 a2 a3 a4 a5 a6 a7 rest IH.
      cbn [chunks Feature.unpack flat_map lanes app]. unfold Feature.unpack in IH. rewrite IH.
      cbn [length app].
      replace (S (S (S (S (S (S (S (S (length rest)))))))) mod 8) with (length rest mod 8).
      + reflexivity.
      + replace (S (S (S (S (S (S (S (S (length rest))))))))) with (length rest + 1 * 8) by lia.
        rewrite Nat.mod_add by lia. reflexivity.
  Qed.

  (* zeros appended by from_vec: a whole block for the empty vector, otherwise up to the next multiple of 8 *)
  Definition pad (n : nat) : nat := match n with 0 => 8 | _ => (8 - n mod 8) mod 8 end.

  (* number of blocks *)
  Definition packed_len (n : nat) : nat := match n with 0 => 1 | _ => (n + 7) / 8 end.

  Lemma unpack_pack_lemma : forall v, unpack (pack v) = v ++ repeat z (pad (length v)).
  Proof.
    intros v. rewrite pack_spec. destruct v as [|a r]; [reflexivity|].
    rewrite unpack_chunks. reflexivity.
  Qed.

  Lemma pack_length_lemma : forall v, length (pack v) = packed_len (length v).
  Proof.
    intros v. rewrite pack_spec. destruct v as [|a r]; [reflexivity|].
    rewrite chunks_length. reflexivity.
  Qed.

  Lemma unpack_length : forall f, length (unpack f) = 8 * length f.
  Proof.
    induction f as [|b f IH]; [reflexivity|].
    destruct b as [[[[[[[a0 a1] a2] a3] a4] a5] a6] a7].
    cbn [Feature.unpack flat_map lanes app length]. unfold Feature.unpack in IH. rewrite IH. lia.
  Qed.

  Lemma padded_length_multiple_of_8 : forall v : list A, (length v + pad (length v)) mod 8 = 0 /\ pad (length v) <= 8.
  Proof.
    intros v. unfold pad. destruct (length v) as [|n]; [split; [reflexivity|lia]|].
    pose proof (Nat.mod_upper_bound (S n) 8) as H1.
    pose proof (Nat.div_mod (S n) 8) as H2.
    pose proof (Nat.mod_upper_bound (8 - S n mod 8) 8) as H3.
    split; [|lia].
    destruct (Nat.eq_dec (S n mod 8) 0) as [E|E].
    - rewrite E. cbn. rewrite Nat.add_0_r. exact E.
    - rewrite (Nat.mod_small (8 - S n mod 8)) by lia.
      replace (S n + (8 - S n mod 8)) with (0 + (S n / 8 + 1) * 8) by lia.
      rewrite Nat.mod_add by lia. reflexivity.
  Qed.

  Lemma unpack_firstn : forall n f, unpack (firstn n f) = firstn (8 * n) (unpack f).
  Proof.
    induction n as [|n IH]; intros f; [reflexivity|].
    destruct f as [|b f]; [reflexivity|].
    destruct b as [[[[[[[a0 a1] a2] a3] a4] a5] a6] a7].
    replace (8 * S n) with (S (S (S (S (S (S (S (S (8 * n))))))))) by lia.
    cbn [firstn Feature.unpack flat_map lanes app]. unfold Feature.unpack in IH. rewrite IH. reflexivity.
  Qed.
End PackFacts.

Lemma combine_firstn_min : forall {X Y : Type} (a : list X) (b : list Y),
    combine (firstn (Nat.min (length a) (length b)) a) (firstn (Nat.min (length a) (length b)) b) = combine a b.
Proof.
  intros X Y a. induction a as [|x a IH]; intros b; [reflexivity|].
  destruct b as [|y b]; [reflexivity|]. cbn [length Nat.min firstn combine]. rewrite IH. reflexivity.
Qed.

(* ------------------------------------------------------------------------------------------------ *)
(* Part 2: the packed distances over exact rationals equal the textbook sums *)

Open Scope Q_scope.

(* textbook formulas on plain vectors (the sums stop at the shorter vector) *)
Fixpoint q_sqdist (u v : list Q) : Q :=
  match u, v with
  | x :: u', y :: v' => (x - y) * (x - y) + q_sqdist u' v'
  | _, _ => 0
  end.

Fixpoint q_dot (u v : list Q) : Q :=
  match u, v with
  | x :: u', y :: v' => x * y + q_dot u' v'
  | _, _ => 0
  end.

Definition zpadQ (u : list Q) : list Q := u ++ repeat 0 (pad (length u)).

Ltac qops_norm := cbn [add sub mul zero Qops T]; repeat rewrite Qred_correct.

Local Notation packQ := (pack Q 0).
Local Notation unpackQ := (unpack Q).

Lemma sqdist_fold_Q : forall (f1 f2 : list (block8 Q)) (a : Q),
    fold_left (fun acc p => let d := bsub Qops (fst p) (snd p) in add Qops acc (reduce_add Qops (bmul Qops d d)))
              (combine f1 f2) a
    == a + q_sqdist (unpackQ f1) (unpackQ f2).
Proof.
  induction f1 as [|b1 f1 IH]; intros f2 a.
  - cbn [combine fold_left Feature.unpack flat_map q_sqdist q_dot]. ring.
  - destruct b1 as [[[[[[[a0 a1] a2] a3] a4] a5] a6] a7].
    destruct f2 as [|b2 f2]; [cbn [combine fold_left Feature.unpack flat_map lanes app q_sqdist q_dot]; ring|].
    destruct b2 as [[[[[[[c0 c1] c2] c3] c4] c5] c6] c7].
    cbn [combine fold_left]. rewrite IH.
    cbn [Feature.unpack flat_map lanes app q_sqdist fst snd bsub bmul bmap2 reduce_add].
    qops_norm. unfold Feature.unpack. ring.
Qed.

Lemma dot_fold_Q : forall (f1 f2 : list (block8 Q)) (a : Q),
    fold_left (fun acc p => add Qops acc (reduce_add Qops (bmul Qops (fst p) (snd p)))) (combine f1 f2) a
    == a + q_dot (unpackQ f1) (unpackQ f2).
Proof.
  induction f1 as [|b1 f1 IH]; intros f2 a.
  - cbn [combine fold_left Feature.unpack flat_map q_sqdist q_dot]. ring.
  - destruct b1 as [[[[[[[a0 a1] a2] a3] a4] a5] a6] a7].
    destruct f2 as [|b2 f2]; [cbn [combine fold_left Feature.unpack flat_map lanes app q_sqdist q_dot]; ring|].
    destruct b2 as [[[[[[[c0 c1] c2] c3] c4] c5] c6] c7].
    cbn [combine fold_left]. rewrite IH.
    cbn [Feature.unpack flat_map lanes app q_dot fst snd bmul bmap2 reduce_add].
    qops_norm. unfold Feature.unpack. ring.
Qed.

Lemma norm2_fold_Q : forall (f : list (block8 Q)) (a : Q),
    fold_left (fun acc b => add Qops acc (reduce_add Qops (bmul Qops b b))) f a
    == a + q_dot (unpackQ f) (unpackQ f).
Proof.
  induction f as [|b f IH]; intros a.
  - cbn [combine fold_left Feature.unpack flat_map q_sqdist q_dot]. ring.
  - destruct b as [[[[[[[a0 a1] a2] a3] a4] a5] a6] a7].
    cbn [fold_left]. rewrite IH.
    cbn [Feature.unpack flat_map lanes app q_dot bmul bmap2 reduce_add].
    qops_norm. unfold Feature.unpack. ring.
Qed.

Lemma sqdist_packed_Q : forall u v : list Q,
    sqdist Qops (packQ u) (packQ v) == q_sqdist (zpadQ u) (zpadQ v).
Proof.
  intros u v. unfold sqdist, common_len. cbv zeta. rewrite combine_firstn_min.
  rewrite sqdist_fold_Q. rewrite !unpack_pack_lemma. unfold zpadQ. cbn [zero Qops]. apply Qplus_0_l.
Qed.

Lemma dot_packed_Q : forall u v : list Q,
    dot Qops (packQ u) (packQ v) == q_dot (zpadQ u) (zpadQ v).
Proof.
  intros u v. unfold dot, common_len. cbv zeta. rewrite combine_firstn_min.
  rewrite dot_fold_Q. rewrite !unpack_pack_lemma. unfold zpadQ. cbn [zero Qops]. apply Qplus_0_l.
Qed.

Lemma norm2_packed_Q : forall (len : nat) (u : list Q),
    norm2 Qops len (packQ u) == q_dot (firstn (8 * len) (zpadQ u)) (firstn (8 * len) (zpadQ u)).
Proof.
  intros len u. unfold norm2. rewrite norm2_fold_Q. rewrite unpack_firstn. rewrite unpack_pack_lemma.
  unfold zpadQ. cbn [zero Qops]. apply Qplus_0_l.
Qed.

(* zero padding contributes nothing *)
Lemma q_sqdist_zeros : forall k, q_sqdist (repeat 0 k) (repeat 0 k) == 0.
Proof. induction k as [|k IH]; cbn [repeat q_sqdist]; [reflexivity|]. rewrite IH. ring. Qed.

Lemma q_dot_zeros : forall k, q_dot (repeat 0 k) (repeat 0 k) == 0.
Proof. induction k as [|k IH]; cbn [repeat q_dot]; [reflexivity|]. rewrite IH. ring. Qed.

Lemma q_sqdist_pad : forall (u v : list Q) k, length u = length v ->
    q_sqdist (u ++ repeat 0 k) (v ++ repeat 0 k) == q_sqdist u v.
Proof.
  induction u as [|x u IH]; intros v k Hlen; destruct v as [|y v]; try discriminate.
  - cbn [app q_sqdist]. apply q_sqdist_zeros.
  - cbn [app q_sqdist]. rewrite IH by (cbn [length] in Hlen; congruence). reflexivity.
Qed.

Lemma q_dot_pad : forall (u v : list Q) k, length u = length v ->
    q_dot (u ++ repeat 0 k) (v ++ repeat 0 k) == q_dot u v.
Proof.
  induction u as [|x u IH]; intros v k Hlen; destruct v as [|y v]; try discriminate.
  - cbn [app q_dot]. apply q_dot_zeros.
  - cbn [app q_dot]. rewrite IH by (cbn [length] in Hlen; congruence). reflexivity.
Qed.

Lemma sqdist_packed_same_len_Q : forall u v : list Q, length u = length v ->
    sqdist Qops (packQ u) (packQ v) == q_sqdist u v.
Proof.
  intros u v Hlen. rewrite sqdist_packed_Q. unfold zpadQ. rewrite <- Hlen. apply q_sqdist_pad. exact Hlen.
Qed.

Lemma dot_packed_same_len_Q : forall u v : list Q, length u = length v ->
    dot Qops (packQ u) (packQ v) == q_dot u v.
Proof.
  intros u v Hlen. rewrite dot_packed_Q. unfold zpadQ. rewrite <- Hlen. apply q_dot_pad. exact Hlen.
Qed.

Lemma norm2_packed_same_len_Q : forall u v : list Q, length u = length v ->
    norm2 Qops (common_len Qops (packQ u) (packQ v)) (packQ u) == q_dot u u.
Proof.
  intros u v Hlen. rewrite norm2_packed_Q. unfold common_len. rewrite !pack_length_lemma. rewrite <- Hlen.
  rewrite Nat.min_id.
  assert (Hl : (8 * packed_len (length u))%nat = length (zpadQ u)).
  { rewrite <- (pack_length_lemma Q 0 u). rewrite <- unpack_length. rewrite unpack_pack_lemma. reflexivity. }
  rewrite Hl. rewrite firstn_all. unfold zpadQ. apply q_dot_pad. reflexivity.
Qed.

(* ------------------------------------------------------------------------------------------------ *)
(* Part 3: real-number reading; metric laws.  (Stdlib Reals: depends on its classical axioms.) *)

From Coq Require Import Reals Lra Psatz.
Close Scope Q_scope.
Open Scope R_scope.

Fixpoint r_sqdist (u v : list R) : R :=
  match u, v with
  | x :: u', y :: v' => (x - y) * (x - y) + r_sqdist u' v'
  | _, _ => 0
  end.

Fixpoint r_dot (u v : list R) : R :=
  match u, v with
  | x :: u', y :: v' => x * y + r_dot u' v'
  | _, _ => 0
  end.

Definition r_norm2 (u : list R) : R := r_dot u u.

(* textbook Euclidean distance and cosine similarity of two vectors (of equal length) *)
Definition euclid_s (u v : list R) : R := sqrt (r_sqdist u v).
Definition cosine_s (u v : list R) : R := r_dot u v / (sqrt (r_norm2 u) * sqrt (r_norm2 v)).

Definition scale (k : R) (u : list R) : list R := map (Rmult k) u.
Definition zpadR (u : list R) : list R := u ++ repeat 0 (pad (length u)).

Local Notation packR := (pack R 0).
Local Notation unpackR := (unpack R).

Ltac rops_norm := cbn [add sub mul zero Rops T].

Lemma sqdist_fold_R : forall (f1 f2 : list (block8 R)) (a : R),
    fold_left (fun acc p => let d := bsub Rops (fst p) (snd p) in add Rops acc (reduce_add Rops (bmul Rops d d)))
              (combine f1 f2) a
    = a + r_sqdist (unpackR f1) (unpackR f2).
Proof.
  induction f1 as [|b1 f1 IH]; intros f2 a.
  - cbn [combine fold_left Feature.unpack flat_map r_sqdist]. rops_norm. ring.
  - destruct b1 as [[[[[[[a0 a1] a2] a3] a4] a5] a6] a7].
    destruct f2 as [|b2 f2]; [cbn [combine fold_left Feature.unpack flat_map lanes app r_sqdist]; rops_norm; ring|].
    destruct b2 as [[[[[[[c0 c1] c2] c3] c4] c5] c6] c7].
    cbn [combine fold_left]. rewrite IH.
    cbn [Feature.unpack flat_map lanes app r_sqdist fst snd bsub bmul bmap2 reduce_add].
    rops_norm. unfold Feature.unpack. ring.
Qed.

Lemma dot_fold_R : forall (f1 f2 : list (block8 R)) (a : R),
    fold_left (fun acc p => add Rops acc (reduce_add Rops (bmul Rops (fst p) (snd p)))) (combine f1 f2) a
    = a + r_dot (unpackR f1) (unpackR f2).
Proof.
  induction f1 as [|b1 f1 IH]; intros f2 a.
  - cbn [combine fold_left Feature.unpack flat_map r_dot]. rops_norm. ring.
  - destruct b1 as [[[[[[[a0 a1] a2] a3] a4] a5] a6] a7].
    destruct f2 as [|b2 f2]; [cbn [combine fold_left Feature.unpack flat_map lanes app r_dot]; rops_norm; ring|].
    destruct b2 as [[[[[[[c0 c1] c2] c3] c4] c5] c6] c7].
    cbn [combine fold_left]. rewrite IH.
    cbn [Feature.unpack flat_map lanes app r_dot fst snd bmul bmap2 reduce_add].
    rops_norm. unfold Feature.unpack. ring.
Qed.

Lemma norm2_fold_R : forall (f : list (block8 R)) (a : R),
    fold_left (fun acc b => add Rops acc (reduce_add Rops (bmul Rops b b))) f a
    = a + r_norm2 (unpackR f).
Proof.
  unfold r_norm2. induction f as [|b f IH]; intros a.
  - cbn [fold_left Feature.unpack flat_map r_dot]. rops_norm. ring.
  - destruct b as [[[[[[[a0 a1] a2] a3] a4] a5] a6] a7].
    cbn [fold_left]. rewrite IH.
    cbn [Feature.unpack flat_map lanes app r_dot bmul bmap2 reduce_add].
    rops_norm. unfold Feature.unpack. ring.
Qed.

(* the packed functions on arbitrary features = the textbook sums on their unpacked forms *)
Lemma sqdist_unpacked_R : forall f1 f2, sqdist Rops f1 f2 = r_sqdist (unpackR f1) (unpackR f2).
Proof.
  intros. unfold sqdist, common_len. cbv zeta. rewrite combine_firstn_min. rewrite sqdist_fold_R.
  cbn [zero Rops T]. ring.
Qed.

Lemma dot_unpacked_R : forall f1 f2, dot Rops f1 f2 = r_dot (unpackR f1) (unpackR f2).
Proof.
  intros. unfold dot, common_len. cbv zeta. rewrite combine_firstn_min. rewrite dot_fold_R.
  cbn [zero Rops T]. ring.
Qed.

Lemma norm2_unpacked_R : forall len f, norm2 Rops len f = r_norm2 (firstn (8 * len) (unpackR f)).
Proof.
  intros. unfold norm2. rewrite norm2_fold_R. rewrite unpack_firstn. cbn [zero Rops T]. ring.
Qed.

Lemma r_sqdist_zeros : forall k, r_sqdist (repeat 0 k) (repeat 0 k) = 0.
Proof. induction k as [|k IH]; cbn [repeat r_sqdist]; [reflexivity|]. rewrite IH. ring. Qed.

Lemma r_dot_zeros : forall k, r_dot (repeat 0 k) (repeat 0 k) = 0.
Proof. induction k as [|k IH]; cbn [repeat r_dot]; [reflexivity|]. rewrite IH. ring. Qed.

Lemma r_sqdist_pad : forall (u v : list R) k, length u = length v ->
    r_sqdist (u ++ repeat 0 k) (v ++ repeat 0 k) = r_sqdist u v.
Proof.
  induction u as [|x u IH]; intros v k Hlen; destruct v as [|y v]; try discriminate.
  - cbn [app r_sqdist]. apply r_sqdist_zeros.
  - cbn [app r_sqdist]. rewrite IH by (cbn [length] in Hlen; congruence). reflexivity.
Qed.

Lemma r_dot_pad : forall (u v : list R) k, length u = length v ->
    r_dot (u ++ repeat 0 k) (v ++ repeat 0 k) = r_dot u v.
Proof.
  induction u as [|x u IH]; intros v k Hlen; destruct v as [|y v]; try discriminate.
  - cbn [app r_dot]. apply r_dot_zeros.
  - cbn [app r_dot]. rewrite IH by (cbn [length] in Hlen; congruence). reflexivity.
Qed.

Lemma sqdist_packed_R : forall u v : list R, sqdist Rops (packR u) (packR v) = r_sqdist (zpadR u) (zpadR v).
Proof. intros. rewrite sqdist_unpacked_R. rewrite !unpack_pack_lemma. reflexivity. Qed.

Lemma sqdist_packed_same_len_R : forall u v : list R, length u = length v ->
    sqdist Rops (packR u) (packR v) = r_sqdist u v.
Proof.
  intros u v Hlen. rewrite sqdist_packed_R. unfold zpadR. rewrite <- Hlen. apply r_sqdist_pad. exact Hlen.
Qed.

Lemma dot_packed_same_len_R : forall u v : list R, length u = length v ->
    dot Rops (packR u) (packR v) = r_dot u v.
Proof.
  intros u v Hlen. rewrite dot_unpacked_R. rewrite !unpack_pack_lemma. rewrite <- Hlen. apply r_dot_pad. exact Hlen.
Qed.

Lemma norm2_packed_same_len_R : forall u v : list R, length u = length v ->
    norm2 Rops (common_len Rops (packR u) (packR v)) (packR u) = r_norm2 u.
Proof.
  intros u v Hlen. rewrite norm2_unpacked_R. unfold common_len. rewrite !pack_length_lemma. rewrite <- Hlen.
  rewrite Nat.min_id.
  assert (Hl : (8 * packed_len (length u))%nat = length (unpackR (packR u))).
  { rewrite unpack_length. rewrite pack_length_lemma. reflexivity. }
  rewrite Hl. rewrite firstn_all. rewrite unpack_pack_lemma. unfold r_norm2. apply r_dot_pad. reflexivity.
Qed.

Lemma common_len_comm : forall (f1 f2 : list (block8 R)), common_len Rops f1 f2 = common_len Rops f2 f1.
Proof. intros. unfold common_len. apply Nat.min_comm. Qed.

Lemma euclid_packed_same_len : forall u v : list R, length u = length v ->
    euclid (packR u) (packR v) = euclid_s u v.
Proof. intros u v H. unfold euclid, euclid_s. rewrite sqdist_packed_same_len_R by exact H. reflexivity. Qed.

Lemma euclid_packed_general : forall u v : list R,
    euclid (packR u) (packR v) = sqrt (r_sqdist (zpadR u) (zpadR v)).
Proof. intros. unfold euclid. rewrite sqdist_packed_R. reflexivity. Qed.

Lemma cosine_packed_same_len : forall u v : list R, length u = length v ->
    cosine (packR u) (packR v) = cosine_s u v.
Proof.
  intros u v H. unfold cosine, cosine_s. cbv zeta.
  rewrite dot_packed_same_len_R by exact H.
  rewrite (norm2_packed_same_len_R u v H).
  rewrite (common_len_comm (packR u) (packR v)).
  rewrite (norm2_packed_same_len_R v u (eq_sym H)). reflexivity.
Qed.

(* ---- algebra of the textbook sums ---- *)

Lemma r_sqdist_sym : forall u v, r_sqdist u v = r_sqdist v u.
Proof.
  induction u as [|x u IH]; intros [|y v]; cbn [r_sqdist]; try reflexivity. rewrite IH. ring.
Qed.

Lemma r_sqdist_refl : forall u, r_sqdist u u = 0.
Proof. induction u as [|x u IH]; cbn [r_sqdist]; [reflexivity|]. rewrite IH. ring. Qed.

Lemma r_dot_comm : forall u v, r_dot u v = r_dot v u.
Proof.
  induction u as [|x u IH]; intros [|y v]; cbn [r_dot]; try reflexivity. rewrite IH. ring.
Qed.

Lemma r_norm2_nonneg : forall u, 0 <= r_norm2 u.
Proof.
  unfold r_norm2. induction u as [|x u IH]; cbn [r_dot]; [lra|]. nra.
Qed.

(* the same with one square root: |u| |v| = sqrt (|u|^2 |v|^2) *)
Lemma cosine_s_alt : forall u v, cosine_s u v = r_dot u v / sqrt (r_norm2 u * r_norm2 v).
Proof.
  intros. unfold cosine_s. rewrite sqrt_mult by apply r_norm2_nonneg. reflexivity.
Qed.

Lemma r_sqdist_nonneg : forall u v, 0 <= r_sqdist u v.
Proof.
  induction u as [|x u IH]; intros [|y v]; cbn [r_sqdist]; try lra. specialize (IH v). pose proof (Rle_0_sqr (x - y)) as Hsq. unfold Rsqr in Hsq. lra.
Qed.

(* this Coq's nra does not invent squares of compound terms: they are supplied by hand *)
Lemma sq_nonneg : forall r : R, 0 <= r * r.
Proof. intro r. pose proof (Rle_0_sqr r) as H. unfold Rsqr in H. exact H. Qed.

Lemma sq_lt_compat : forall s c : R, 0 <= s -> s < c -> s * s < c * c.
Proof. intros s c Hs Hc. apply Rmult_le_0_lt_compat; assumption. Qed.

(* Cauchy-Schwarz for lists (of any two lengths; the dot product stops at the shorter one) *)
Lemma cauchy_schwarz : forall u v, r_dot u v * r_dot u v <= r_norm2 u * r_norm2 v.
Proof.
  unfold r_norm2. induction u as [|x u IH]; intros [|y v]; cbn [r_dot].
  - lra.
  - lra.
  - pose proof (r_norm2_nonneg (x :: u)) as H. unfold r_norm2 in H. cbn [r_dot] in H. lra.
  - specialize (IH v).
    pose proof (r_norm2_nonneg u) as HA. pose proof (r_norm2_nonneg v) as HB. unfold r_norm2 in HA, HB.
    set (A := r_dot u u) in *. set (B := r_dot v v) in *. set (C := r_dot u v) in *.
    destruct (Rle_lt_or_eq_dec 0 B HB) as [Bpos|Bzero].
    + pose proof (sq_nonneg (x * B - y * C)) as H1.
      assert (H2 : 0 <= y * y * (A * B - C * C)) by (apply Rmult_le_pos; [apply sq_nonneg|lra]).
      assert (H3 : 0 <= B * (x * x * B - 2 * x * y * C + y * y * A)) by lra.
      assert (H4 : 0 <= x * x * B - 2 * x * y * C + y * y * A).
      { destruct (Rle_or_lt 0 (x * x * B - 2 * x * y * C + y * y * A)) as [Hok|Hneg]; [exact Hok|].
        exfalso. pose proof (Rmult_lt_compat_l B _ _ Bpos Hneg) as Hc. lra. }
      lra.
    + rewrite <- Bzero in *.
      assert (HC : C = 0).
      { pose proof (sq_nonneg C) as Hc. assert (Hz : C * C = 0) by lra.
        destruct (Rmult_integral _ _ Hz); assumption. }
      rewrite HC. pose proof (Rmult_le_pos _ _ HA (sq_nonneg y)) as Hy. lra.
Qed.

Definition vsub (u v : list R) : list R := map (fun p => fst p - snd p) (combine u v).

Lemma r_sqdist_norm : forall u v, r_sqdist u v = r_norm2 (vsub u v).
Proof.
  unfold r_norm2, vsub. induction u as [|x u IH]; intros [|y v]; cbn [r_sqdist combine map r_dot fst snd]; try reflexivity.
  rewrite IH. reflexivity.
Qed.

Lemma r_sqdist_expand : forall u v w, length u = length v -> length v = length w ->
    r_sqdist u w = r_norm2 (vsub u v) + 2 * r_dot (vsub u v) (vsub v w) + r_norm2 (vsub v w).
Proof.
  unfold r_norm2, vsub. induction u as [|x u IH]; intros [|y v] [|t w] H1 H2; try discriminate.
  - cbn. ring.
  - cbn [r_sqdist combine map r_dot fst snd]. cbn [length] in H1, H2.
    rewrite (IH v w) by congruence. ring.
Qed.

Lemma minkowski_core : forall P Q C, 0 <= P -> 0 <= Q -> C * C <= P * Q -> sqrt (P + 2 * C + Q) <= sqrt P + sqrt Q.
Proof.
  intros P Q C HP HQ HC.
  pose proof (sqrt_pos P) as Ha. pose proof (sqrt_pos Q) as Hb.
  pose proof (sqrt_sqrt P HP) as Haa. pose proof (sqrt_sqrt Q HQ) as Hbb.
  set (a := sqrt P) in *. set (b := sqrt Q) in *.
  assert (Hab : 0 <= a * b) by (apply Rmult_le_pos; assumption).
  assert (HPQ : a * b * (a * b) = P * Q) by (rewrite <- Haa, <- Hbb; ring).
  assert (HCab : C <= a * b).
  { destruct (Rle_or_lt C (a * b)) as [Hok|Hbad]; [exact Hok|]. exfalso.
    pose proof (sq_lt_compat _ _ Hab Hbad). lra. }
  rewrite <- (sqrt_square (a + b)) by lra.
  apply sqrt_le_1_alt. lra.
Qed.

Lemma euclid_s_sym : forall u v, euclid_s u v = euclid_s v u.
Proof. intros. unfold euclid_s. rewrite r_sqdist_sym. reflexivity. Qed.

Lemma euclid_s_refl : forall u, euclid_s u u = 0.
Proof. intros. unfold euclid_s. rewrite r_sqdist_refl. apply sqrt_0. Qed.

Lemma euclid_s_triangle : forall u v w, length u = length v -> length v = length w ->
    euclid_s u w <= euclid_s u v + euclid_s v w.
Proof.
  intros u v w H1 H2. unfold euclid_s. rewrite (r_sqdist_expand u v w H1 H2).
  rewrite (r_sqdist_norm u v), (r_sqdist_norm v w).
  apply minkowski_core; [apply r_norm2_nonneg|apply r_norm2_nonneg|apply cauchy_schwarz].
Qed.

Lemma cosine_s_sym : forall u v, cosine_s u v = cosine_s v u.
Proof. intros. rewrite !cosine_s_alt. rewrite r_dot_comm. rewrite (Rmult_comm (r_norm2 u)). reflexivity. Qed.

Lemma cosine_s_range : forall u v, 0 < r_norm2 u -> 0 < r_norm2 v -> -1 <= cosine_s u v <= 1.
Proof.
  intros u v HA HB. rewrite cosine_s_alt.
  pose proof (cauchy_schwarz u v) as HC.
  assert (HAB : 0 < r_norm2 u * r_norm2 v) by (apply Rmult_lt_0_compat; assumption).
  pose proof (sqrt_lt_R0 _ HAB) as Hs. pose proof (sqrt_sqrt _ (Rlt_le _ _ HAB)) as Hss.
  set (s := sqrt (r_norm2 u * r_norm2 v)) in *. set (C := r_dot u v) in *.
  assert (Hup : C <= s).
  { destruct (Rle_or_lt C s) as [Hok|Hbad]; [exact Hok|]. exfalso.
    pose proof (sq_lt_compat s C (Rlt_le _ _ Hs) Hbad). lra. }
  assert (Hlo : - s <= C).
  { destruct (Rle_or_lt (- s) C) as [Hok|Hbad]; [exact Hok|]. exfalso.
    assert (Hb : s < - C) by lra. pose proof (sq_lt_compat s (- C) (Rlt_le _ _ Hs) Hb). lra. }
  unfold Rdiv. pose proof (Rinv_0_lt_compat s Hs) as Hi.
  assert (Hone : s * / s = 1) by (apply Rinv_r; lra).
  pose proof (Rmult_le_compat_r (/ s) (- s) C (Rlt_le _ _ Hi) Hlo) as H1.
  pose proof (Rmult_le_compat_r (/ s) C s (Rlt_le _ _ Hi) Hup) as H2.
  split; lra.
Qed.

Lemma r_dot_scale : forall a b u v, r_dot (scale a u) (scale b v) = a * b * r_dot u v.
Proof.
  unfold scale. intros a b. induction u as [|x u IH]; intros [|y v]; cbn [map r_dot]; try ring.
  rewrite IH. ring.
Qed.

Lemma scale_1 : forall u, scale 1 u = u.
Proof. unfold scale. induction u as [|x u IH]; cbn [map]; [reflexivity|]. rewrite IH. f_equal. ring. Qed.

Lemma cosine_s_scale_invariant : forall a b u v, 0 < a -> 0 < b -> 0 < r_norm2 u -> 0 < r_norm2 v ->
    cosine_s (scale a u) (scale b v) = cosine_s u v.
Proof.
  intros a b u v Ha Hb HA HB. rewrite !cosine_s_alt. unfold r_norm2. rewrite !r_dot_scale.
  fold (r_norm2 u). fold (r_norm2 v).
  assert (HAB : 0 < r_norm2 u * r_norm2 v) by (apply Rmult_lt_0_compat; assumption).
  assert (Hab : 0 < a * b) by (apply Rmult_lt_0_compat; assumption).
  pose proof (sqrt_lt_R0 _ HAB) as Hs.
  replace (a * a * r_norm2 u * (b * b * r_norm2 v)) with ((a * b) * (a * b) * (r_norm2 u * r_norm2 v)) by ring.
  rewrite sqrt_mult; [|apply sq_nonneg|lra]. rewrite sqrt_square by lra.
  field. split; lra.
Qed.

Lemma cosine_s_parallel : forall k u, 0 < k -> 0 < r_norm2 u -> cosine_s u (scale k u) = 1.
Proof.
  intros k u Hk HA.
  rewrite <- (scale_1 u) at 1. rewrite (cosine_s_scale_invariant 1 k u u) by lra.
  rewrite cosine_s_alt. fold (r_norm2 u). rewrite sqrt_square by lra. field. lra.
Qed.

Lemma cosine_s_opposite : forall k u, k < 0 -> 0 < r_norm2 u -> cosine_s u (scale k u) = -1.
Proof.
  intros k u Hk HA. rewrite cosine_s_alt. unfold r_norm2.
  rewrite <- (scale_1 u) at 1. rewrite !r_dot_scale. fold (r_norm2 u).
  assert (Hp : 0 < - k * r_norm2 u) by (apply Rmult_lt_0_compat; lra).
  replace (r_norm2 u * (k * k * r_norm2 u)) with ((- k * r_norm2 u) * (- k * r_norm2 u)) by ring.
  rewrite sqrt_square by lra. field. split; lra.
Qed.

(* ---- the laws on the packed model ---- *)

Lemma euclid_sym_lemma : forall f1 f2 : list (block8 R), euclid f1 f2 = euclid f2 f1.
Proof. intros. unfold euclid. rewrite !sqdist_unpacked_R. rewrite r_sqdist_sym. reflexivity. Qed.

Lemma euclid_refl_lemma : forall f : list (block8 R), euclid f f = 0.
Proof. intros. unfold euclid. rewrite sqdist_unpacked_R. rewrite r_sqdist_refl. apply sqrt_0. Qed.

Lemma euclid_nonneg_lemma : forall f1 f2 : list (block8 R), 0 <= euclid f1 f2.
Proof. intros. unfold euclid. apply sqrt_pos. Qed.

Lemma euclid_triangle_lemma : forall u v w : list R, length u = length v -> length v = length w ->
    euclid (packR u) (packR w) <= euclid (packR u) (packR v) + euclid (packR v) (packR w).
Proof.
  intros u v w H1 H2.
  rewrite (euclid_packed_same_len u w) by congruence.
  rewrite (euclid_packed_same_len u v H1). rewrite (euclid_packed_same_len v w H2).
  apply euclid_s_triangle; assumption.
Qed.

Lemma cosine_sym_lemma : forall f1 f2 : list (block8 R), cosine f1 f2 = cosine f2 f1.
Proof.
  intros. unfold cosine. cbv zeta. rewrite !dot_unpacked_R. rewrite r_dot_comm.
  rewrite (common_len_comm f1 f2). rewrite (Rmult_comm (sqrt (norm2 Rops (common_len Rops f2 f1) f1))). reflexivity.
Qed.

Lemma scale_length : forall k u, length (scale k u) = length u.
Proof. intros. unfold scale. apply map_length. Qed.

Lemma cosine_range_lemma : forall u v : list R, length u = length v -> 0 < r_norm2 u -> 0 < r_norm2 v ->
    -1 <= cosine (packR u) (packR v) <= 1.
Proof. intros u v H HA HB. rewrite (cosine_packed_same_len u v H). apply cosine_s_range; assumption. Qed.

Lemma cosine_parallel_lemma : forall (k : R) (u : list R), 0 < k -> 0 < r_norm2 u ->
    cosine (packR u) (packR (scale k u)) = 1.
Proof.
  intros k u Hk HA. rewrite cosine_packed_same_len by (symmetry; apply scale_length).
  apply cosine_s_parallel; assumption.
Qed.

Lemma cosine_opposite_lemma : forall (k : R) (u : list R), k < 0 -> 0 < r_norm2 u ->
    cosine (packR u) (packR (scale k u)) = -1.
Proof.
  intros k u Hk HA. rewrite cosine_packed_same_len by (symmetry; apply scale_length).
  apply cosine_s_opposite; assumption.
Qed.

Lemma cosine_scale_invariant_lemma : forall (a b : R) (u v : list R),
    length u = length v -> 0 < a -> 0 < b -> 0 < r_norm2 u -> 0 < r_norm2 v ->
    cosine (packR (scale a u)) (packR (scale b v)) = cosine (packR u) (packR v).
Proof.
  intros a b u v H Ha Hb HA HB.
  rewrite cosine_packed_same_len by (rewrite !scale_length; exact H).
  rewrite (cosine_packed_same_len u v H). apply cosine_s_scale_invariant; assumption.
Qed.

(* "non-zero vector" *)
Lemma r_norm2_pos_iff : forall u : list R, 0 < r_norm2 u <-> exists x, In x u /\ x <> 0.
Proof.
  unfold r_norm2. induction u as [|x u IH]; cbn [r_dot].
  - split; [intro H; lra|intros [x [[] _]]].
  - pose proof (r_norm2_nonneg u) as Hn. unfold r_norm2 in Hn. pose proof (sq_nonneg x) as Hx. split.
    + intro H. destruct (Req_dec x 0) as [E|E].
      * subst x. assert (H' : 0 < r_dot u u) by lra. apply IH in H'. destruct H' as [t [Ht1 Ht2]].
        exists t. split; [right; exact Ht1|exact Ht2].
      * exists x. split; [left; reflexivity|exact E].
    + intros [t [[<-|Ht1] Ht2]].
      * assert (0 < x * x) by (pose proof (Rsqr_pos_lt x Ht2) as Hp; unfold Rsqr in Hp; exact Hp). lra.
      * assert (0 < r_dot u u) by (apply IH; exists t; split; assumption). lra.
Qed.
