(* Tie between two hand-written models: the distance-query protocol model Model/DistProto.v (C10, C05) is
   parametric in an abstract track type and callbacks; Model/Track.v (C11, C09) defines the generic track and
   `Track::distances`.  Here DistProto's Section is instantiated with the track of Model/Track.v and its callbacks,
   and it is shown that DistProto's per-pair function (its own `distances`, the worker's `dist_item` / `visit`,
   and the specification's `pair_ok` / `pair_err` under `eligible`) IS Track.distances on every pair of tracks.
   So the theorems of C10 speak about the per-pair function that the track model of C11/C09 defines. *)
From Coq Require Import List NArith Bool Arith Lia.
From Similari Require Import Model.Track Model.Store Model.DistProto.
Import ListNotations.

Section Link.
  Variables TA OA FT MS MOUT : Type.
  Notation track := (Track.track TA OA FT MS).
  Notation observation := (Track.observation OA FT).
  Notation obsdb := (Track.obsdb OA FT).

  (* the read-only user callbacks of the track model *)
  Variable cb_compatible : TA -> TA -> bool.
  Variable cb_metric : MS -> N -> TA -> observation -> TA -> observation -> option MOUT.
  Variable cb_baked : TA -> obsdb -> bstatus.
  (* candidate.metric.postprocess_distances *)
  Variable cb_postprocess : MS -> list (N * N * MOUT) -> list (N * N * MOUT).

  (* --- the instantiation of DistProto's Section variables ------------------------------------------ *)
  Definition i_tid (t : track) : N := Track.tid t.
  Definition i_compatible (c o : track) : bool := cb_compatible (attrs c) (attrs o).
  Definition i_status (s : bstatus) : DistProto.status :=
    match s with BReady => Ready | BPending => Pending | BWasted => Wasted | BErr => BakedErr end.
  Definition i_baked (t : track) : DistProto.status := i_status (cb_baked (attrs t) (obs t)).
  Definition i_observations (t : track) (cls : N) : option (list observation) := alookup cls (obs t).
  Definition i_metric (cls : N) (c : track) (l : observation) (o : track) (r : observation) : option MOUT :=
    cb_metric (mstate c) cls (attrs c) l (attrs o) r.
  Definition i_postprocess (c : track) (l : list (N * N * MOUT)) : list (N * N * MOUT) :=
    cb_postprocess (mstate c) l.

  Notation p_distances := (DistProto.distances track observation MOUT i_tid i_compatible i_observations i_metric).
  Notation p_dist_item := (DistProto.dist_item track observation MOUT i_tid i_compatible i_observations i_metric i_postprocess).
  Notation p_visit := (DistProto.visit track observation MOUT i_tid i_compatible i_baked i_observations i_metric i_postprocess).
  Notation p_pair_ok := (DistProto.pair_ok track observation MOUT i_tid i_observations i_metric i_postprocess).
  Notation p_pair_err := (DistProto.pair_err track observation i_tid i_observations).
  Notation p_eligible := (DistProto.eligible track i_tid i_compatible i_baked).
  Notation t_distances := (Track.distances cb_compatible cb_metric).

  (* Track.distances's answer, in DistProto's result type (the class-missing error carries its arguments) *)
  Definition conv (c o : track) (cls : N) (r : Track.dist_result (N * N * MOUT)) : DistProto.dres MOUT :=
    match r with
    | Track.DOk l => DistProto.DOk l
    | Track.DIncompatible => DistProto.DIncompatible
    | Track.DClassMissing => DistProto.DClassMissing (tid c, tid o, cls)
    end.

  Lemma flat_map_list_prod : forall {A B C} (f : A * B -> list C) (l : list A) (r : list B),
      flat_map f (list_prod l r) = flat_map (fun x => flat_map (fun y => f (x, y)) r) l.
  Proof.
    intros A B C f l r. induction l as [|x l IH]; cbn [list_prod flat_map]; [reflexivity|].
    rewrite flat_map_app, IH. f_equal. clear IH.
    induction r as [|y r IHr]; cbn [map flat_map]; [reflexivity|]. rewrite IHr. reflexivity.
  Qed.

  (* 1. the two models of Track::distances are the same function *)
  Lemma p_distances_is_track_distances : forall c o cls,
      p_distances c o cls = conv c o cls (t_distances c o cls).
  Proof.
    intros c o cls. unfold DistProto.distances, Track.distances, i_compatible, i_observations.
    destruct (cb_compatible (attrs c) (attrs o)); cbn [negb]; [|reflexivity].
    destruct (alookup cls (obs c)) as [l|]; [|reflexivity].
    destruct (alookup cls (obs o)) as [r|]; [|reflexivity].
    cbn [conv]. f_equal. rewrite flat_map_list_prod. reflexivity.
  Qed.

  (* 2. what the worker does with one stored track *)
  Lemma p_visit_is_track_distances : forall c cls only_baked o,
      p_visit c cls only_baked o =
      if (tid c =? tid o)%N then None                                  (* same id: skipped by the worker loop *)
      else if only_baked && negb (is_ready (i_baked o)) then None      (* only_baked: not Ready *)
      else match t_distances c o cls with
           | Track.DOk l => Some (inl (cb_postprocess (mstate c) l))   (* Ok list: an ok result *)
           | Track.DIncompatible => None                               (* Incompatible: nothing *)
           | Track.DClassMissing => Some (inr (tid c, tid o, cls))     (* ClassMissing: an err entry *)
           end.
  Proof.
    intros c cls only_baked o. unfold DistProto.visit, DistProto.dist_item, i_tid.
    destruct (tid c =? tid o)%N; [reflexivity|].
    rewrite p_distances_is_track_distances.
    destruct only_baked; cbn [negb andb].
    - destruct (i_baked o); cbn [is_ready negb]; try reflexivity.
      destruct (t_distances c o cls); reflexivity.
    - destruct (t_distances c o cls); reflexivity.
  Qed.

  (* 3. the specification's per-pair functions *)
  Lemma p_eligible_spec : forall c only_baked o,
      p_eligible c only_baked o =
      negb (tid c =? tid o)%N && cb_compatible (attrs c) (attrs o) && (negb only_baked || is_ready (i_baked o)).
  Proof. reflexivity. Qed.

  Lemma p_pair_spec_is_track_distances : forall c cls only_baked o,
      p_eligible c only_baked o = true ->
      match t_distances c o cls with
      | Track.DOk l => p_pair_ok c cls o = cb_postprocess (mstate c) l /\ p_pair_err c cls o = []
      | Track.DClassMissing => p_pair_ok c cls o = [] /\ p_pair_err c cls o = [(tid c, tid o, cls)]
      | Track.DIncompatible => False                                   (* eligible pairs are compatible *)
      end.
  Proof.
    intros c cls only_baked o He. rewrite p_eligible_spec in He.
    apply andb_true_iff in He. destruct He as [He _]. apply andb_true_iff in He. destruct He as [_ Hc].
    unfold Track.distances, DistProto.pair_ok, DistProto.pair_err, i_observations. rewrite Hc. cbn [negb].
    destruct (alookup cls (obs c)) as [l|]; [|split; reflexivity].
    destruct (alookup cls (obs o)) as [r|]; [|split; reflexivity].
    split; [|reflexivity]. unfold i_postprocess. f_equal. rewrite flat_map_list_prod. reflexivity.
  Qed.

  Lemma p_ineligible_incompatible : forall c cls o,
      t_distances c o cls = Track.DIncompatible <-> cb_compatible (attrs c) (attrs o) = false.
  Proof.
    intros c cls o. unfold Track.distances.
    destruct (cb_compatible (attrs c) (attrs o)); cbn [negb].
    - split; [|discriminate]. destruct (alookup cls (obs c)); [destruct (alookup cls (obs o))|]; discriminate.
    - split; reflexivity.
  Qed.

  (* all of it in one statement *)
  Lemma dist_proto_pair_is_track_distances_lemma : forall c o cls only_baked,
      p_distances c o cls = conv c o cls (t_distances c o cls) /\
      p_visit c cls only_baked o =
        (if (tid c =? tid o)%N then None
         else if only_baked && negb (is_ready (i_baked o)) then None
         else match t_distances c o cls with
              | Track.DOk l => Some (inl (cb_postprocess (mstate c) l))
              | Track.DIncompatible => None
              | Track.DClassMissing => Some (inr (tid c, tid o, cls))
              end) /\
      (p_eligible c only_baked o = true ->
       match t_distances c o cls with
       | Track.DOk l => p_pair_ok c cls o = cb_postprocess (mstate c) l /\ p_pair_err c cls o = []
       | Track.DClassMissing => p_pair_ok c cls o = [] /\ p_pair_err c cls o = [(tid c, tid o, cls)]
       | Track.DIncompatible => False
       end) /\
      (p_eligible c only_baked o = false ->
       (tid c =? tid o)%N = true \/ t_distances c o cls = Track.DIncompatible \/
       (only_baked = true /\ is_ready (i_baked o) = false)).
  Proof.
    intros c o cls only_baked.
    split; [apply p_distances_is_track_distances|]. split; [apply p_visit_is_track_distances|].
    split; [apply p_pair_spec_is_track_distances|].
    intros He. rewrite p_eligible_spec in He.
    destruct (tid c =? tid o)%N; [left; reflexivity|]. cbn [negb andb] in He.
    destruct (cb_compatible (attrs c) (attrs o)) eqn:Hc.
    - cbn [andb] in He. right; right. destruct only_baked; cbn [negb orb] in He; [auto|discriminate].
    - right; left. apply p_ineligible_incompatible. assumption.
  Qed.
End Link.
