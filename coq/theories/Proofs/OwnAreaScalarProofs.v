(* Lemmas about the TRANSLATED share normalisation of utils/clipping/bbox_own_areas.rs (gen/ScalarOwnArea.v):
   share = own_area / (box_area + EPS), capped at 1. Over exact rationals; proofs by case analysis on the translated
   text. Used by the own-area development (C15). *)
From Coq Require Import ZArith NArith QArith Bool List Lqa.
From Similari Require Import Base.Num Base.QExtra.
From SimilariGen Require Import Consts Scalar ScalarBox ScalarOwnArea.
Open Scope Q_scope.

Lemma EPS_pos : 0 < EPS.
Proof. reflexivity. Qed.

Lemma own_share_raw_spec b (poly_area : Q) : own_share_raw Qops b poly_area == poly_area / (ubox_area Qops b + EPS).
Proof. unfold own_share_raw. qops. rewrite ?Qred_correct. reflexivity. Qed.

Lemma own_share_clamp_spec (e : Q) :
  (1 <= e -> own_share_clamp Qops e == 1) /\ (e < 1 -> own_share_clamp Qops e == e) /\ own_share_clamp Qops e <= 1 /\
  own_share_clamp Qops e <= Qmaxb e 1 /\ (0 <= e -> 0 <= own_share_clamp Qops e).
Proof.
  unfold own_share_clamp. qops. destruct (Qmaxb_spec e 1) as [[M1 M2]|[M1 M2]]; rewrite M2;
  cases_if; repeat split; intros; lra.
Qed.

Definition own_share (b : Universal2DBox Qops) (poly_area : Q) : Q := own_share_clamp Qops (own_share_raw Qops b poly_area).

(* the normalised share of a non-negative owned area in a box of non-negative area lies in [0, 1] *)
Lemma share_normalise_range b (poly_area : Q) : 0 <= poly_area -> 0 <= ubox_area Qops b ->
  0 <= own_share b poly_area /\ own_share b poly_area <= 1.
Proof.
  intros Hp Ha. unfold own_share. pose proof EPS_pos as He.
  assert (Hr : 0 <= own_share_raw Qops b poly_area).
  { rewrite own_share_raw_spec. apply Qle_shift_div_l; lra. }
  destruct (own_share_clamp_spec (own_share_raw Qops b poly_area)) as [_ [_ [H3 [_ H5]]]]. split; [apply H5; exact Hr | exact H3].
Qed.

(* an owned area that does not exceed the box area gives exactly area/(box_area+EPS), which is < 1 *)
Lemma share_exact_below_one b (poly_area : Q) : 0 <= poly_area -> poly_area <= ubox_area Qops b ->
  own_share b poly_area == poly_area / (ubox_area Qops b + EPS) /\ own_share b poly_area < 1.
Proof.
  intros Hp Ha. unfold own_share. pose proof EPS_pos as He.
  assert (Hr : own_share_raw Qops b poly_area < 1).
  { rewrite own_share_raw_spec. apply Qlt_shift_div_r; lra. }
  destruct (own_share_clamp_spec (own_share_raw Qops b poly_area)) as [_ [H2 _]].
  rewrite (H2 Hr). split; [apply own_share_raw_spec | exact Hr].
Qed.

(* the share is monotone in the owned area *)
Lemma share_monotone b (p1 p2 : Q) : 0 <= ubox_area Qops b -> p1 <= p2 -> own_share b p1 <= own_share b p2.
Proof.
  intros Ha Hp. unfold own_share. pose proof EPS_pos as He.
  assert (Hr : own_share_raw Qops b p1 <= own_share_raw Qops b p2).
  { rewrite !own_share_raw_spec. unfold Qdiv. apply Qmult_le_compat_r; [exact Hp|]. apply Qlt_le_weak. apply Qinv_lt_0_compat. lra. }
  destruct (own_share_clamp_spec (own_share_raw Qops b p1)) as [A1 [A2 [A3 _]]].
  destruct (own_share_clamp_spec (own_share_raw Qops b p2)) as [B1 [B2 [B3 _]]].
  destruct (Qlt_le_dec (own_share_raw Qops b p2) 1) as [G|G].
  - rewrite (B2 G). rewrite A2 by lra. exact Hr.
  - rewrite (B1 G). exact A3.
Qed.
