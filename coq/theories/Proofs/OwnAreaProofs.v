(* Lemmas about Model/OwnArea.v (C15): laws of the exact grid specification [own_share_grid]. *)
From Coq Require Import List Bool ZArith QArith Lia Permutation.
From Similari Require Import Base.Num Model.Geom Model.OwnArea.
Import ListNotations.
Open Scope Z_scope.

Lemma own_shares_grid_length : forall bs, length (own_shares_grid bs) = length bs.
Proof.
  unfold own_shares_grid. intros bs. generalize (@nil ibox).
  induction bs as [|b tl IH]; intros pre; cbn [own_shares_grid_from length]; [reflexivity|].
  now rewrite IH.
Qed.

(* ------------------------------------------------------------------------------------------ *)
(* compressed coordinates: strictly increasing, same elements *)

Fixpoint ssorted (l : list Z) : Prop :=
  match l with
  | [] => True
  | a :: tl => (forall x, In x tl -> a < x) /\ ssorted tl
  end.

Lemma sinsert_in x l y : In y (sinsert x l) <-> y = x \/ In y l.
Proof.
  induction l as [|a tl IH]; cbn [sinsert In].
  - intuition.
  - destruct (x <? a) eqn:A; [cbn [In]; intuition|].
    destruct (x =? a) eqn:B.
    + apply Z.eqb_eq in B. subst. cbn [In]. intuition.
    + cbn [In]. rewrite IH. intuition.
Qed.

Lemma sinsert_sorted x l : ssorted l -> ssorted (sinsert x l).
Proof.
  induction l as [|a tl IH]; cbn [sinsert ssorted]; intros H.
  - split; [intros y []|exact I].
  - destruct H as [H1 H2]. destruct (x <? a) eqn:A.
    + apply Z.ltb_lt in A. cbn [ssorted]. split; [|split; assumption].
      intros y [<-|Hy]; [assumption|]. specialize (H1 y Hy). lia.
    + destruct (x =? a) eqn:B; [cbn [ssorted]; split; assumption|].
      apply Z.ltb_ge in A. apply Z.eqb_neq in B. cbn [ssorted]. split; [|now apply IH].
      intros y Hy. apply sinsert_in in Hy. destruct Hy as [->|Hy]; [lia | now apply H1].
Qed.

Lemma sset_in l y : In y (sset l) <-> In y l.
Proof.
  induction l as [|a tl IH]; cbn [sset fold_right In]; [reflexivity|].
  change (fold_right sinsert [] tl) with (sset tl). rewrite sinsert_in, IH. intuition.
Qed.

Lemma sset_sorted l : ssorted (sset l).
Proof.
  induction l as [|a tl IH]; cbn [sset fold_right]; [exact I|]. now apply sinsert_sorted.
Qed.

Lemma ssorted_unique l l' : ssorted l -> ssorted l' -> (forall x, In x l <-> In x l') -> l = l'.
Proof.
  revert l'. induction l as [|a tl IH]; intros l' S S' E.
  - destruct l' as [|b tl']; [reflexivity|]. exfalso. apply (E b). now left.
  - destruct l' as [|b tl']; [exfalso; apply (E a); now left|].
    destruct S as [S1 S2], S' as [S1' S2'].
    assert (a = b).
    { assert (Ha : In a (b :: tl')) by (apply E; now left).
      assert (Hb : In b (a :: tl)) by (apply E; now left).
      destruct Ha as [->|Ha]; [reflexivity|]. destruct Hb as [->|Hb]; [reflexivity|].
      specialize (S1 b Hb). specialize (S1' a Ha). lia. }
    subst b. f_equal. apply IH; try assumption.
    intros x. split; intros Hx.
    + assert (In x (a :: tl')) as [->|?] by (apply E; now right); [|assumption].
      specialize (S1 x Hx). lia.
    + assert (In x (a :: tl)) as [->|?] by (apply E; now right); [|assumption].
      specialize (S1' x Hx). lia.
Qed.

Lemma sset_perm l l' : (forall x, In x l <-> In x l') -> sset l = sset l'.
Proof.
  intros E. apply ssorted_unique; try apply sset_sorted. intros x. rewrite !sset_in. apply E.
Qed.

(* elementary intervals of a sorted list *)
Lemma adj_cons a b tl : adj (a :: b :: tl) = (a, b) :: adj (b :: tl).
Proof. reflexivity. Qed.

Lemma adj_facts l : ssorted l -> forall c, In c (adj l) ->
  fst c < snd c /\ In (fst c) l /\ In (snd c) l /\ (forall x, In x l -> x <= fst c \/ snd c <= x).
Proof.
  induction l as [|a tl IH]; intros S c Hc; [contradiction|].
  destruct tl as [|b tl]; [contradiction|].
  rewrite adj_cons in Hc. destruct S as [S1 S2]. destruct Hc as [<-|Hc]; cbn [fst snd].
  - split; [apply S1; now left|]. split; [now left|]. split; [right; now left|].
    intros x [<-|[<-|Hx]]; [lia | lia |]. right. destruct S2 as [S2 _]. specialize (S2 x Hx). lia.
  - destruct (IH S2 c Hc) as (F1 & F2 & F3 & F4). split; [assumption|].
    split; [now right|]. split; [now right|].
    intros x [<-|Hx]; [|now apply F4]. left. specialize (S1 _ F2). lia.
Qed.

(* ------------------------------------------------------------------------------------------ *)
(* one-dimensional measure of [lo,hi] on the compressed axis *)

Definition in1 (lo hi : Z) (c : Z * Z) : bool := (lo <=? fst c) && (snd c <=? hi).
Definition len1 (s : list Z) (lo hi : Z) : Z :=
  zsum (map (fun c => if in1 lo hi c then snd c - fst c else 0) (adj s)).

Lemma len1_above s : forall lo hi, ssorted s -> (forall x, In x s -> hi < x) -> len1 s lo hi = 0.
Proof.
  unfold len1. induction s as [|a tl IH]; intros lo hi S H; [reflexivity|].
  destruct tl as [|b tl]; [reflexivity|]. rewrite adj_cons. cbn [map zsum fold_right].
  change (fold_right Z.add 0 ?l) with (zsum l).
  destruct S as [S1 S2]. rewrite (IH lo hi S2) by (intros x Hx; apply H; now right).
  unfold in1. cbn [fst snd]. assert (hi < b) by (apply H; right; now left).
  destruct (b <=? hi) eqn:E; [apply Z.leb_le in E; lia|]. rewrite andb_false_r. reflexivity.
Qed.

Lemma len1_from_head : forall tl h lo hi, ssorted (h :: tl) -> lo <= h -> In hi (h :: tl) ->
  len1 (h :: tl) lo hi = hi - h.
Proof.
  induction tl as [|b tl IH]; intros h lo hi S L Hhi.
  - destruct Hhi as [<-|[]]. unfold len1. cbn. lia.
  - unfold len1. rewrite adj_cons. cbn [map zsum fold_right].
    change (fold_right Z.add 0 ?l) with (zsum l).
    change (zsum (map (fun c => if in1 lo hi c then snd c - fst c else 0) (adj (b :: tl)))) with (len1 (b :: tl) lo hi).
    destruct S as [S1 S2]. assert (HB : h < b) by (apply S1; now left).
    unfold in1 at 1. cbn [fst snd]. assert (E1 : (lo <=? h) = true) by (apply Z.leb_le; lia). rewrite E1. cbn [andb].
    destruct Hhi as [<-|Hhi].
    + assert (E2 : (b <=? h) = false) by (apply Z.leb_gt; lia). rewrite E2.
      rewrite len1_above; [lia | assumption |].
      intros x [<-|Hx]; [lia|]. destruct S2 as [S2 _]. specialize (S2 x Hx). lia.
    + assert (b <= hi). { destruct Hhi as [<-|Hx]; [lia|]. destruct S2 as [S2 _]. specialize (S2 hi Hx). lia. }
      assert (E2 : (b <=? hi) = true) by (apply Z.leb_le; lia). rewrite E2.
      rewrite (IH b lo hi S2) by (try lia; assumption). lia.
Qed.

Lemma len1_exact : forall s lo hi, ssorted s -> In lo s -> In hi s -> lo <= hi -> len1 s lo hi = hi - lo.
Proof.
  induction s as [|a tl IH]; intros lo hi S Hlo Hhi L; [contradiction|].
  destruct Hlo as [<-|Hlo].
  - apply len1_from_head; [assumption | lia | assumption].
  - destruct S as [S1 S2]. assert (a < lo) by (now apply S1).
    destruct tl as [|b tl]; [contradiction|].
    assert (Hhi' : In hi (b :: tl)) by (destruct Hhi as [<-|?]; [lia | assumption]).
    unfold len1. rewrite adj_cons. cbn [map zsum fold_right].
    change (fold_right Z.add 0 ?l) with (zsum l).
    change (zsum (map (fun c => if in1 lo hi c then snd c - fst c else 0) (adj (b :: tl)))) with (len1 (b :: tl) lo hi).
    unfold in1 at 1. cbn [fst snd]. assert (E : (lo <=? a) = false) by (apply Z.leb_gt; lia). rewrite E. cbn [andb].
    rewrite (IH lo hi S2 Hlo Hhi' L). lia.
Qed.

Lemma zsum_nonneg l : (forall x, In x l -> 0 <= x) -> 0 <= zsum l.
Proof.
  induction l as [|a tl IH]; intros H; cbn [zsum fold_right]; [lia|].
  change (fold_right Z.add 0 tl) with (zsum tl).
  assert (0 <= a) by (apply H; now left). assert (0 <= zsum tl) by (apply IH; intros; apply H; now right). lia.
Qed.

(* ------------------------------------------------------------------------------------------ *)
(* two-dimensional sums over the grid *)

Lemma zsum_map_ext {A} (f g : A -> Z) l : (forall x, In x l -> f x = g x) -> zsum (map f l) = zsum (map g l).
Proof.
  induction l as [|a tl IH]; intros H; cbn [map zsum fold_right]; [reflexivity|].
  change (fold_right Z.add 0 ?l) with (zsum l). rewrite (H a) by now left. rewrite IH; [reflexivity|].
  intros; apply H; now right.
Qed.

Lemma zsum_map_add {A} (f g : A -> Z) l : zsum (map (fun x => f x + g x) l) = zsum (map f l) + zsum (map g l).
Proof.
  induction l as [|a tl IH]; cbn [map zsum fold_right]; [reflexivity|].
  change (fold_right Z.add 0 ?l) with (zsum l). rewrite IH. lia.
Qed.

Lemma zsum_map_mul_l {A} (k : Z) (f : A -> Z) l : zsum (map (fun x => k * f x) l) = k * zsum (map f l).
Proof.
  induction l as [|a tl IH]; cbn [map zsum fold_right]; [lia|].
  change (fold_right Z.add 0 ?l) with (zsum l). rewrite IH. lia.
Qed.

Lemma zsum_map_zero {A} (f : A -> Z) l : (forall x, In x l -> f x = 0) -> zsum (map f l) = 0.
Proof.
  induction l as [|a tl IH]; intros H; cbn [map zsum fold_right]; [reflexivity|].
  change (fold_right Z.add 0 ?l) with (zsum l). rewrite (H a) by now left. rewrite IH; [reflexivity|].
  intros; apply H; now right.
Qed.

Lemma cells_sum_ext xs ys p q :
  (forall cx cy, In cx (adj xs) -> In cy (adj ys) -> p cx cy = q cx cy) -> cells_sum xs ys p = cells_sum xs ys q.
Proof.
  intros H. unfold cells_sum. apply zsum_map_ext. intros cx Hx. apply zsum_map_ext. intros cy Hy.
  now rewrite H.
Qed.

Lemma cells_sum_split xs ys p q :
  cells_sum xs ys p = cells_sum xs ys (fun cx cy => p cx cy && q cx cy) + cells_sum xs ys (fun cx cy => p cx cy && negb (q cx cy)).
Proof.
  unfold cells_sum. rewrite <- zsum_map_add. apply zsum_map_ext. intros cx _.
  rewrite <- zsum_map_add. apply zsum_map_ext. intros cy _.
  destruct (p cx cy), (q cx cy); cbn [andb negb]; lia.
Qed.

Lemma cells_sum_zero xs ys p :
  (forall cx cy, In cx (adj xs) -> In cy (adj ys) -> p cx cy = false) -> cells_sum xs ys p = 0.
Proof.
  intros H. unfold cells_sum. apply zsum_map_zero. intros cx Hx. apply zsum_map_zero. intros cy Hy.
  now rewrite H.
Qed.

Lemma cells_sum_nonneg xs ys p : ssorted xs -> ssorted ys -> 0 <= cells_sum xs ys p.
Proof.
  intros Sx Sy. unfold cells_sum. apply zsum_nonneg. intros v Hv. apply in_map_iff in Hv.
  destruct Hv as [cx [<- Hx]]. apply zsum_nonneg. intros w Hw. apply in_map_iff in Hw.
  destruct Hw as [cy [<- Hy]]. destruct (p cx cy); [|lia]. unfold cell_area.
  destruct (adj_facts xs Sx cx Hx) as [? _]. destruct (adj_facts ys Sy cy Hy) as [? _]. nia.
Qed.

(* the cells inside a box add up to its area *)
Lemma cells_sum_box xs ys b :
  cells_sum xs ys (cell_in b) = len1 xs (ix0 b) (ix1 b) * len1 ys (iy0 b) (iy1 b).
Proof.
  unfold cells_sum, len1.
  rewrite Z.mul_comm, <- zsum_map_mul_l. apply zsum_map_ext. intros cx _.
  rewrite Z.mul_comm, <- zsum_map_mul_l. apply zsum_map_ext. intros cy _.
  unfold cell_in, in1, cell_area.
  destruct (ix0 b <=? fst cx), (snd cx <=? ix1 b), (iy0 b <=? fst cy), (snd cy <=? iy1 b); cbn [andb]; lia.
Qed.

Lemma xs_of_in bs x : In x (xs_of bs) <-> exists b, In b bs /\ (x = ix0 b \/ x = ix1 b).
Proof.
  unfold xs_of. rewrite sset_in, in_flat_map. split; intros [b [Hb H]]; exists b; (split; [assumption|]).
  - cbn [In] in H. intuition.
  - cbn [In]. intuition.
Qed.

Lemma ys_of_in bs y : In y (ys_of bs) <-> exists b, In b bs /\ (y = iy0 b \/ y = iy1 b).
Proof.
  unfold ys_of. rewrite sset_in, in_flat_map. split; intros [b [Hb H]]; exists b; (split; [assumption|]).
  - cbn [In] in H. intuition.
  - cbn [In]. intuition.
Qed.

Lemma cells_sum_box_area bs b : In b bs -> ibox_ok b ->
  cells_sum (xs_of bs) (ys_of bs) (cell_in b) = ibox_area b.
Proof.
  intros Hb [Ox Oy]. rewrite cells_sum_box. unfold ibox_area.
  rewrite !len1_exact; try lia; try apply sset_sorted.
  - apply ys_of_in. exists b. auto.
  - apply ys_of_in. exists b. auto.
  - apply xs_of_in. exists b. auto.
  - apply xs_of_in. exists b. auto.
Qed.

(* ------------------------------------------------------------------------------------------ *)
(* the laws *)

Lemma own_plus_covered b others : ibox_ok b ->
  own_area_grid b others + covered_area_grid b others = ibox_area b.
Proof.
  intros Ok. unfold own_area_grid, covered_area_grid.
  rewrite <- (cells_sum_box_area (b :: others) b) by (try assumption; now left).
  rewrite (cells_sum_split _ _ (cell_in b) (covered others)). lia.
Qed.

Lemma own_area_bounds b others : ibox_ok b -> 0 <= own_area_grid b others <= ibox_area b.
Proof.
  intros Ok. pose proof (own_plus_covered b others Ok).
  assert (0 <= own_area_grid b others) by (apply cells_sum_nonneg; apply sset_sorted).
  assert (0 <= covered_area_grid b others) by (apply cells_sum_nonneg; apply sset_sorted).
  lia.
Qed.

Lemma ibox_area_pos b : ibox_ok b -> 0 < ibox_area b.
Proof. intros [? ?]. unfold ibox_area. nia. Qed.

Open Scope Q_scope.

Lemma share_in_unit_interval_lemma b others : ibox_ok b -> 0 <= own_share_grid b others <= 1.
Proof.
  intros Ok. pose proof (own_area_bounds b others Ok) as [L U]. pose proof (ibox_area_pos b Ok) as P.
  unfold own_share_grid, Qle. cbn [Qnum Qden]. rewrite Z2Pos.id by assumption. split; lia.
Qed.

Lemma share_is_uncovered_measure_lemma b others : ibox_ok b ->
  own_share_grid b others == 1 - Qmake (covered_area_grid b others) (Z.to_pos (ibox_area b)).
Proof.
  intros Ok. pose proof (own_plus_covered b others Ok) as E. pose proof (ibox_area_pos b Ok) as P.
  unfold own_share_grid, Qeq, Qminus, Qplus, Qopp. cbn [Qnum Qden]. rewrite !Pos2Z.inj_mul, !Z2Pos.id by assumption.
  nia.
Qed.

Close Scope Q_scope.

(* interiors of two boxes do not meet *)
Definition idisjoint (b o : ibox) : Prop :=
  ix1 b <= ix0 o \/ ix1 o <= ix0 b \/ iy1 b <= iy0 o \/ iy1 o <= iy0 b.

Lemma covered_area_disjoint b others :
  (forall o, In o others -> idisjoint b o) -> covered_area_grid b others = 0.
Proof.
  intros D. unfold covered_area_grid. apply cells_sum_zero. intros cx cy Hx Hy.
  destruct (adj_facts _ (sset_sorted _) cx Hx) as [Lx _]. destruct (adj_facts _ (sset_sorted _) cy Hy) as [Ly _].
  destruct (cell_in b cx cy) eqn:Cb; [|reflexivity]. cbn [andb]. unfold covered.
  destruct (existsb (fun o => cell_in o cx cy) others) eqn:E; [|reflexivity]. exfalso.
  apply existsb_exists in E. destruct E as [o [Ho Co]]. specialize (D o Ho).
  unfold cell_in in Cb, Co. rewrite !andb_true_iff, !Z.leb_le in Cb, Co. unfold idisjoint in D. lia.
Qed.

Open Scope Q_scope.
Lemma share_one_if_disjoint_lemma b others : ibox_ok b ->
  (forall o, In o others -> idisjoint b o) -> own_share_grid b others == 1.
Proof.
  intros Ok D. pose proof (own_plus_covered b others Ok) as E. rewrite (covered_area_disjoint b others D) in E.
  pose proof (ibox_area_pos b Ok) as P.
  unfold own_share_grid, Qeq. cbn [Qnum Qden]. rewrite Z2Pos.id by assumption. lia.
Qed.
Close Scope Q_scope.

(* every unit cell of b lies in some other box: b is covered by the union of the others *)
Definition icovered (b : ibox) (others : list ibox) : Prop :=
  forall i j, ix0 b <= i < ix1 b -> iy0 b <= j < iy1 b ->
    exists o, In o others /\ ix0 o <= i < ix1 o /\ iy0 o <= j < iy1 o.

Lemma own_area_covered b others : icovered b others -> own_area_grid b others = 0.
Proof.
  intros C. unfold own_area_grid. apply cells_sum_zero. intros cx cy Hx Hy.
  destruct (adj_facts _ (sset_sorted _) cx Hx) as (Lx & _ & _ & Gx).
  destruct (adj_facts _ (sset_sorted _) cy Hy) as (Ly & _ & _ & Gy).
  destruct (cell_in b cx cy) eqn:Cb; [|reflexivity]. cbn [andb]. apply negb_false_iff.
  unfold cell_in in Cb. rewrite !andb_true_iff, !Z.leb_le in Cb.
  destruct (C (fst cx) (fst cy)) as [o [Ho [Ox Oy]]]; [lia | lia |].
  unfold covered. apply existsb_exists. exists o. split; [assumption|].
  unfold cell_in. rewrite !andb_true_iff, !Z.leb_le.
  assert (X1 : In (ix1 o) (xs_of (b :: others))) by (apply xs_of_in; exists o; split; [now right | now right]).
  assert (Y1 : In (iy1 o) (ys_of (b :: others))) by (apply ys_of_in; exists o; split; [now right | now right]).
  destruct (Gx _ X1); destruct (Gy _ Y1); lia.
Qed.

Open Scope Q_scope.
Lemma share_zero_if_covered_lemma b others : icovered b others -> own_share_grid b others == 0.
Proof.
  intros C. unfold own_share_grid. rewrite (own_area_covered b others C). reflexivity.
Qed.
Close Scope Q_scope.

(* the order of the other boxes does not matter *)
Lemma covered_perm others others' cx cy : Permutation others others' -> covered others cx cy = covered others' cx cy.
Proof.
  intros P. unfold covered.
  destruct (existsb (fun o => cell_in o cx cy) others) eqn:A, (existsb (fun o => cell_in o cx cy) others') eqn:B; try reflexivity.
  - apply existsb_exists in A. destruct A as [o [Ho Co]].
    assert (existsb (fun o => cell_in o cx cy) others' = true)
      by (apply existsb_exists; exists o; split; [eapply Permutation_in; eassumption | assumption]). congruence.
  - apply existsb_exists in B. destruct B as [o [Ho Co]].
    assert (existsb (fun o => cell_in o cx cy) others = true)
      by (apply existsb_exists; exists o; split; [eapply Permutation_in; [apply Permutation_sym|]; eassumption | assumption]).
    congruence.
Qed.

Lemma xs_of_perm b others others' : Permutation others others' -> xs_of (b :: others) = xs_of (b :: others').
Proof.
  intros P. unfold xs_of. apply sset_perm. intros x. rewrite !in_flat_map.
  split; intros [o [Ho Hx]]; exists o; (split; [|assumption]); destruct Ho as [<-|Ho]; try (now left); right.
  - eapply Permutation_in; eassumption.
  - eapply Permutation_in; [apply Permutation_sym|]; eassumption.
Qed.

Lemma ys_of_perm b others others' : Permutation others others' -> ys_of (b :: others) = ys_of (b :: others').
Proof.
  intros P. unfold ys_of. apply sset_perm. intros x. rewrite !in_flat_map.
  split; intros [o [Ho Hx]]; exists o; (split; [|assumption]); destruct Ho as [<-|Ho]; try (now left); right.
  - eapply Permutation_in; eassumption.
  - eapply Permutation_in; [apply Permutation_sym|]; eassumption.
Qed.

Lemma share_permutation_invariant_lemma b others others' :
  Permutation others others' -> own_share_grid b others = own_share_grid b others'.
Proof.
  intros P. unfold own_share_grid, own_area_grid.
  rewrite (xs_of_perm b _ _ P), (ys_of_perm b _ _ P). f_equal.
  apply cells_sum_ext. intros cx cy _ _. now rewrite (covered_perm _ _ cx cy P).
Qed.

(* ------------------------------------------------------------------------------------------ *)
(* the normalisation own / (area + EPS), clamped at 1, stays in the unit interval *)
From Coq Require Import Lqa.
From Similari Require Import Proofs.GeomProofs.
From SimilariGen Require Import Consts.
Open Scope Q_scope.

Lemma share_normalise_range own area : 0 <= own -> 0 <= area ->
  0 <= share_normalise Qops own area <= 1.
Proof.
  intros Ho Ha. unfold share_normalise.
  assert (P0 : 0 < EPS) by reflexivity.
  assert (E : div Qops own (add Qops area (of_Q Qops EPS)) == own / (area + EPS)).
  { rewrite qdiv, qadd. reflexivity. }
  revert P0 E. generalize EPS. intros eps P0 E.
  assert (P : 0 < area + eps) by lra.
  assert (N : 0 <= own / (area + eps)) by (apply Qle_shift_div_l; [exact P | lra]).
  destruct (leb Qops (one Qops) (div Qops own (add Qops area (of_Q Qops eps)))) eqn:L.
  - rewrite qone. split; lra.
  - rewrite qleb in L. apply Qle_bool_false in L. rewrite qone in L. rewrite E in *. split; lra.
Qed.

(* a box that is not clipped by anything keeps its whole area *)
Lemma uncovered_nil p : uncovered Qops p [] = shoelace Qops p.
Proof. reflexivity. Qed.

(* the tie to the translated share normalisation (gen/ScalarOwnArea.v): same text, equal by computation *)
From SimilariGen Require Import Scalar ScalarBox ScalarOwnArea.

Lemma share_normalise_is_translation_lemma (u : Universal2DBox Qops) (own : Q) :
  own_share_clamp Qops (own_share_raw Qops u own) = share_normalise Qops own (ubox_area Qops u).
Proof. reflexivity. Qed.

Lemma own_shares_ie_uses_translation (boxes : list qbox) :
  own_shares_ie Qops boxes =
  map (fun ib => share_normalise Qops (own_area_ie Qops boxes (fst ib) (snd ib)) (ubox_area Qops (to_ubox Qops (snd ib))))
      (combine (seq 0 (length boxes)) boxes).
Proof. reflexivity. Qed.
