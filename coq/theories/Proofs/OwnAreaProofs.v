(* Lemmas about Model/OwnArea.v (C15). *)
From Coq Require Import List Bool ZArith QArith Lia.
From Similari Require Import Base.Num Model.Geom Model.OwnArea.
Import ListNotations.

Lemma own_shares_grid_length : forall bs, length (own_shares_grid bs) = length bs.
Proof.
  unfold own_shares_grid. intros bs. generalize (@nil ibox).
  induction bs as [|b tl IH]; intros pre; cbn [own_shares_grid_from length]; [reflexivity|].
  now rewrite IH.
Qed.
