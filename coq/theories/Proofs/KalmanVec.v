(* C07 - the vector filter treats its points independently: point k of a vector history is the stand-alone
   point filter run on the k-th components, and the vector run commutes with every re-indexing of the points
   (in particular with every permutation).  Holds for every arithmetic (no number is touched). *)
From Coq Require Import List Arith Bool Lia Permutation.
From Similari Require Import Base.Num Model.Kalman.
Import ListNotations.

Section Vec.
  Variable Ops : NumOps.
  Variables wp wv : T Ops.
  Local Notation PF := (point_filter Ops wp wv).
  Local Notation st := (kstate Ops).

  Definition vops_wf (len : nat) (ops : list (vop Ops)) : Prop :=
    forall pts, In (VUpdate pts) ops -> length pts = len.

  Lemma vec_step_length : forall sts op, (forall pts, op = VUpdate pts -> length pts = length sts) ->
      length (vec_step Ops wp wv sts op) = length sts.
  Proof.
    intros sts [|pts] H; cbn [vec_step].
    - unfold vec_predict. apply map_length.
    - unfold vec_update. rewrite map_length, combine_length. rewrite (H pts eq_refl). apply Nat.min_id.
  Qed.

  Lemma vec_step_nth : forall sts op k d, (forall pts, op = VUpdate pts -> length pts = length sts) ->
      (k < length sts)%nat ->
      nth k (vec_step Ops wp wv sts op) d = g_step Ops PF (nth k sts d) (vop_at Ops k op).
  Proof.
    intros sts [|pts] k d H Hk; cbn [vec_step vop_at g_step].
    - unfold vec_predict. rewrite nth_indep with (d' := g_predict Ops PF d) by (rewrite map_length; exact Hk).
      apply map_nth.
    - unfold vec_update. specialize (H pts eq_refl).
      rewrite nth_indep with (d' := (fun sp => g_update Ops PF (fst sp) (snd sp)) (d, []))
        by (rewrite map_length, combine_length, H, Nat.min_id; exact Hk).
      rewrite (map_nth (fun sp => g_update Ops PF (fst sp) (snd sp))).
      rewrite combine_nth by (symmetry; exact H). reflexivity.
  Qed.

  (* vec_filter_pointwise *)
  Theorem vec_run_pointwise : forall ops sts k d,
      vops_wf (length sts) ops -> (k < length sts)%nat ->
      length (vec_run Ops wp wv sts ops) = length sts /\
      nth k (vec_run Ops wp wv sts ops) d = g_run Ops PF (nth k sts d) (map (vop_at Ops k) ops).
  Proof.
    induction ops as [|op r IH]; intros sts k d Hwf Hk.
    - split; reflexivity.
    - assert (Hop : forall pts, op = VUpdate pts -> length pts = length sts)
        by (intros pts ->; apply Hwf; left; reflexivity).
      unfold vec_run, g_run. cbn [fold_left map].
      pose proof (vec_step_length sts op Hop) as Hl.
      destruct (IH (vec_step Ops wp wv sts op) k d) as [IH1 IH2].
      + rewrite Hl. intros pts Hin. apply Hwf. right. exact Hin.
      + rewrite Hl. exact Hk.
      + split.
        * unfold vec_run in IH1. rewrite IH1. exact Hl.
        * unfold vec_run, g_run in IH2. rewrite IH2. rewrite vec_step_nth by assumption. reflexivity.
  Qed.

  Lemma vec_run_length : forall ops sts, vops_wf (length sts) ops ->
      length (vec_run Ops wp wv sts ops) = length sts.
  Proof.
    induction ops as [|op r IH]; intros sts Hwf; [reflexivity|].
    assert (Hop : forall pts, op = VUpdate pts -> length pts = length sts)
      by (intros pts ->; apply Hwf; left; reflexivity).
    unfold vec_run. cbn [fold_left]. pose proof (vec_step_length sts op Hop) as Hl.
    fold (vec_run Ops wp wv (vec_step Ops wp wv sts op) r). rewrite IH.
    - exact Hl.
    - rewrite Hl. intros pts Hin. apply Hwf. right. exact Hin.
  Qed.

  Lemma vec_initiate_nth : forall pts k, (k < length pts)%nat ->
      nth k (vec_initiate Ops wp wv pts) (g_initiate Ops PF []) = g_initiate Ops PF (nth k pts []).
  Proof. intros. unfold vec_initiate. apply map_nth. Qed.

  (* vec_distance_pointwise: the distance of the vector filter is, element by element, the distance of the point
     filter on that element's OWN state (its own projected covariance), whatever the other elements are *)
  Theorem vec_distance_pointwise_lemma : forall (sqrtT : T Ops -> T Ops) sts pts k d dz,
      length pts = length sts -> (k < length sts)%nat ->
      length (vec_distance Ops sqrtT wp wv sts pts) = length sts /\
      nth k (vec_distance Ops sqrtT wp wv sts pts) dz = g_distance Ops PF sqrtT (nth k sts d) (nth k pts []).
  Proof.
    intros sqrtT sts pts k d dz Hl Hk. unfold vec_distance. split.
    - rewrite map_length, combine_length, Hl. apply Nat.min_id.
    - rewrite nth_indep with (d' := (fun sp => g_distance Ops PF sqrtT (fst sp) (snd sp)) (d, []))
        by (rewrite map_length, combine_length, Hl, Nat.min_id; exact Hk).
      rewrite (map_nth (fun sp => g_distance Ops PF sqrtT (fst sp) (snd sp))).
      rewrite combine_nth by (symmetry; exact Hl). reflexivity.
  Qed.

  Theorem vec_distance_diag_pointwise_lemma : forall sts pts k d dz,
      length pts = length sts -> (k < length sts)%nat ->
      nth k (vec_distance_diag Ops wp wv sts pts) dz = g_distance_diag Ops PF (nth k sts d) (nth k pts []).
  Proof.
    intros sts pts k d dz Hl Hk. unfold vec_distance_diag.
    rewrite nth_indep with (d' := (fun sp => g_distance_diag Ops PF (fst sp) (snd sp)) (d, []))
      by (rewrite map_length, combine_length, Hl, Nat.min_id; exact Hk).
    rewrite (map_nth (fun sp => g_distance_diag Ops PF (fst sp) (snd sp))).
    rewrite combine_nth by (symmetry; exact Hl). reflexivity.
  Qed.

  Theorem vec_cost_pointwise_lemma : forall ds inverted k dz, (k < length ds)%nat ->
      nth k (vec_calculate_cost Ops ds inverted) dz = point_calculate_cost Ops (nth k ds dz) inverted.
  Proof.
    intros ds inverted k dz Hk. unfold vec_calculate_cost.
    rewrite nth_indep with (d' := (fun d => point_calculate_cost Ops d inverted) dz) by (rewrite map_length; exact Hk).
    apply (map_nth (fun d => point_calculate_cost Ops d inverted)).
  Qed.

  (* ---- re-indexing (p lists, for every output position, the input position it is taken from) ---- *)
  Definition reindex {A : Type} (d : A) (p : list nat) (l : list A) : list A := map (fun i => nth i l d) p.

  Definition reindex_op (p : list nat) (op : vop Ops) : vop Ops :=
    match op with
    | VPredict => VPredict
    | VUpdate pts => VUpdate (reindex [] p pts)
    end.

  Lemma reindex_nth : forall (A : Type) (d : A) p l j, (j < length p)%nat ->
      nth j (reindex d p l) d = nth (nth j p O) l d.
  Proof.
    intros A d p l j Hj. unfold reindex.
    rewrite nth_indep with (d' := (fun i => nth i l d) O) by (rewrite map_length; exact Hj).
    apply (map_nth (fun i => nth i l d)).
  Qed.

  Theorem vec_run_equivariant : forall (d : st) p sts ops,
      vops_wf (length sts) ops -> (forall i, In i p -> (i < length sts)%nat) ->
      vec_run Ops wp wv (reindex d p sts) (map (reindex_op p) ops) = reindex d p (vec_run Ops wp wv sts ops).
  Proof.
    intros d p sts ops Hwf Hp.
    assert (Hwf' : vops_wf (length (reindex d p sts)) (map (reindex_op p) ops)).
    { intros pts Hin. apply in_map_iff in Hin. destruct Hin as [[|pts0] [Heq Hin]]; cbn in Heq; [discriminate|].
      injection Heq as <-. unfold reindex. rewrite !map_length. reflexivity. }
    assert (Hlen1 : length (vec_run Ops wp wv (reindex d p sts) (map (reindex_op p) ops)) = length p).
    { rewrite vec_run_length by exact Hwf'. unfold reindex. apply map_length. }
    apply (nth_ext _ _ d d).
    - rewrite Hlen1. unfold reindex. rewrite map_length. reflexivity.
    - intros j Hj. rewrite Hlen1 in Hj. assert (Hjp : (j < length p)%nat) by exact Hj.
      destruct (vec_run_pointwise (map (reindex_op p) ops) (reindex d p sts) j d Hwf') as [_ Hn].
      { unfold reindex. rewrite map_length. exact Hjp. }
      rewrite Hn. rewrite reindex_nth by exact Hjp. rewrite reindex_nth by exact Hjp.
      assert (Hpj : (nth j p O < length sts)%nat) by (apply Hp; apply nth_In; exact Hjp).
      destruct (vec_run_pointwise ops sts (nth j p O) d Hwf Hpj) as [_ Hn2]. rewrite Hn2.
      f_equal. rewrite map_map. apply map_ext_in. intros [|pts] Hin; cbn [reindex_op vop_at]; [reflexivity|].
      f_equal. assert (Hlen : length pts = length sts) by (apply Hwf; exact Hin).
      destruct (Nat.lt_ge_cases j (length p)) as [_|]; [|lia].
      apply (reindex_nth (vec Ops) [] p pts j Hjp).
  Qed.

  (* a re-indexing by a permutation of the positions is a permutation of the list *)
  Lemma reindex_permutation : forall (A : Type) (d : A) p l,
      Permutation p (seq O (length l)) -> Permutation (reindex d p l) l.
  Proof.
    intros A d p l Hp. unfold reindex.
    apply Permutation_trans with (map (fun i => nth i l d) (seq O (length l))).
    - apply Permutation_map. exact Hp.
    - assert (E : map (fun i => nth i l d) (seq O (length l)) = l).
      { apply (nth_ext _ _ d d).
        - rewrite map_length, seq_length. reflexivity.
        - intros j Hj. rewrite map_length, seq_length in Hj.
          rewrite nth_indep with (d' := (fun i => nth i l d) O) by (rewrite map_length, seq_length; exact Hj).
          rewrite (map_nth (fun i => nth i l d)). rewrite seq_nth by exact Hj. reflexivity. }
      rewrite E. apply Permutation_refl.
  Qed.
End Vec.
