(* C07 - positive definiteness of the FULL covariance: x^T P x > 0 for every non-zero x, on every reachable
   state.  By the block structure the quadratic form is the sum of the n two-by-two forms
   a x_k^2 + 2 b x_k y_k + c y_k^2 (y_k = x_(n+k)), each positive definite by the scalar invariant. *)
From Coq Require Import List Arith Bool ZArith QArith Qreals Reals Lra Lia Psatz.
From Similari Require Import Base.Num Model.Kalman Proofs.KalmanBase Proofs.KalmanEntries Proofs.KalmanUpdate
     Proofs.KalmanScalar Proofs.KalmanScalarUpd Proofs.KalmanRun.
Import ListNotations.
Local Open Scope R_scope.

Lemma Rsum_split : forall n m f, Rsum (n + m) f = Rsum n f + Rsum m (fun k => f (n + k)%nat).
Proof.
  intros n m f. induction m as [|m IH].
  - rewrite Nat.add_0_r. cbn [sum]. simplR. lra.
  - rewrite Nat.add_succ_r. rewrite !Rsum_S, IH. simplR. lra.
Qed.

Lemma Rsum_pos : forall n f, (forall i, (i < n)%nat -> 0 <= f i) -> (exists k, (k < n)%nat /\ 0 < f k) -> 0 < Rsum n f.
Proof.
  induction n as [|n IH]; intros f Hnn [k [Hk Hpos]]; [lia|].
  rewrite Rsum_S. simplR.
  assert (H0 : 0 <= Rsum n f) by (apply Rsum_nonneg; intros; apply Hnn; lia).
  destruct (Nat.eq_dec k n) as [->|Hne].
  - lra.
  - assert (0 < Rsum n f) by (apply IH; [intros; apply Hnn; lia|exists k; split; [lia|assumption]]).
    assert (0 <= f n) by (apply Hnn; lia). lra.
Qed.

Lemma sqr_nonneg : forall t, 0 <= t * t.
Proof. intros t. pose proof (Rle_0_sqr t) as H. unfold Rsqr in H. exact H. Qed.

Lemma sqr_pos : forall t, t <> 0 -> 0 < t * t.
Proof. intros t H. pose proof (Rsqr_pos_lt t H) as H1. unfold Rsqr in H1. exact H1. Qed.

Lemma pos_factor : forall a q, 0 < a -> 0 <= a * q -> 0 <= q.
Proof.
  intros a q Ha H. destruct (Rle_lt_dec 0 q) as [|Hn]; [assumption|]. exfalso.
  assert (a * q < 0) by (rewrite <- (Rmult_0_r a); apply Rmult_lt_compat_l; assumption). lra.
Qed.

Lemma pos_factor_strict : forall a q, 0 < a -> 0 < a * q -> 0 < q.
Proof.
  intros a q Ha H. destruct (Rlt_le_dec 0 q) as [|Hn]; [assumption|]. exfalso.
  assert (a * q <= 0) by (rewrite <- (Rmult_0_r a); apply Rmult_le_compat_l; lra). lra.
Qed.

Lemma form2_nonneg : forall a b c x y, 0 < a -> 0 < c -> 0 < a * c - b * b ->
    0 <= a * x * x + 2 * b * x * y + c * y * y.
Proof.
  intros a b c x y Ha Hc Hd. apply (pos_factor a); [assumption|].
  replace (a * (a * x * x + 2 * b * x * y + c * y * y))
    with ((a * x + b * y) * (a * x + b * y) + (a * c - b * b) * (y * y)) by ring.
  pose proof (sqr_nonneg (a * x + b * y)). pose proof (sqr_nonneg y).
  assert (0 <= (a * c - b * b) * (y * y)) by (apply Rmult_le_pos; lra). lra.
Qed.

Lemma form2_pos : forall a b c x y, 0 < a -> 0 < c -> 0 < a * c - b * b -> (x <> 0 \/ y <> 0) ->
    0 < a * x * x + 2 * b * x * y + c * y * y.
Proof.
  intros a b c x y Ha Hc Hd Hxy. apply (pos_factor_strict a); [assumption|].
  replace (a * (a * x * x + 2 * b * x * y + c * y * y))
    with ((a * x + b * y) * (a * x + b * y) + (a * c - b * b) * (y * y)) by ring.
  pose proof (sqr_nonneg (a * x + b * y)) as H1.
  destruct (Req_dec y 0) as [Hy|Hy].
  - subst y. destruct Hxy as [Hx|Hy]; [|contradiction].
    replace (a * x + b * 0) with (a * x) in * by ring.
    assert (0 < (a * x) * (a * x)) by (apply sqr_pos; apply Rmult_integral_contrapositive_currified; lra).
    lra.
  - assert (0 < y * y) by (apply sqr_pos; assumption).
    assert (0 < (a * c - b * b) * (y * y)) by (apply Rmult_lt_0_compat; assumption). lra.
Qed.

Section Quadratic.
  Variable F : kfilter Rops.
  Local Notation n := (kdim Rops F).
  Local Notation N := (2 * kdim Rops F)%nat.

  Definition quad (P : Rmat) (x : nat -> R) : R :=
    Rsum N (fun i => Rsum N (fun j => x i * mgetR P i j * x j)).

  Definition form2 (c : coord Rops) (x y : R) : R :=
    c_a c * x * x + 2 * c_b c * x * y + c_c c * y * y.

  Lemma quad_state_of : forall cs x,
      quad (cov (state_of Rops F cs)) x = Rsum n (fun k => form2 (nth k cs dflt) (x k) (x (n + k)%nat)).
  Proof.
    intros cs x. unfold quad.
    assert (HN : N = (n + n)%nat) by lia.
    assert (Hrow_p : forall k, (k < n)%nat ->
               Rsum N (fun j => x k * mgetR (cov (state_of Rops F cs)) k j * x j)
               = x k * c_a (nth k cs dflt) * x k + x k * c_b (nth k cs dflt) * x (n + k)%nat).
    { intros k Hk. rewrite (Rsum_two N _ k (n + k)%nat); try lia.
      - rewrite !sc_p by lia. rewrite E_pp, E_pv by assumption. reflexivity.
      - intros j Hj H1 H2. rewrite sc_p by lia. rewrite E_block_diagonal by lia. simplR. lra. }
    assert (Hrow_v : forall k, (k < n)%nat ->
               Rsum N (fun j => x (n + k)%nat * mgetR (cov (state_of Rops F cs)) (n + k) j * x j)
               = x (n + k)%nat * c_b (nth k cs dflt) * x k + x (n + k)%nat * c_c (nth k cs dflt) * x (n + k)%nat).
    { intros k Hk. rewrite (Rsum_two N _ k (n + k)%nat); try lia.
      - rewrite !sc_p by lia. rewrite E_vp, E_vv by assumption. reflexivity.
      - intros j Hj H1 H2. rewrite sc_p by lia. rewrite E_block_diagonal by lia. simplR. lra. }
    rewrite HN at 1. rewrite Rsum_split.
    rewrite (Rsum_ext n _ _ Hrow_p). rewrite (Rsum_ext n _ _ Hrow_v).
    rewrite <- Rsum_plus. apply Rsum_ext. intros k Hk. unfold form2. simplR. fixR. ring.
  Qed.

  Theorem quad_positive : forall cs x, all_spd F cs -> (exists i, (i < N)%nat /\ x i <> 0) ->
      0 < quad (cov (state_of Rops F cs)) x.
  Proof.
    intros cs x Hspd [i [Hi Hxi]]. rewrite quad_state_of. apply Rsum_pos.
    - intros k Hk. destruct (Hspd k Hk) as (Ha & Hc & Hd). unfold form2. apply form2_nonneg; assumption.
    - destruct (index_split F i Hi) as [Hlt|[k [Hk ->]]].
      + exists i. split; [assumption|]. destruct (Hspd i Hlt) as (Ha & Hc & Hd). unfold form2.
        apply form2_pos; try assumption. left. assumption.
      + exists k. split; [assumption|]. destruct (Hspd k Hk) as (Ha & Hc & Hd). unfold form2.
        apply form2_pos; try assumption. right. assumption.
  Qed.
End Quadratic.
