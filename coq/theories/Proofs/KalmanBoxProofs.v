(* Lemmas about the TRANSLATED conversions between a box and the mean of a Kalman state (gen/ScalarKalmanBox.v:
   Universal2DBox::new, TryFrom<KalmanState<X>> for Universal2DBox from /repo/src/utils/kalman.rs, and the mean that
   Universal2DBoxKalmanFilter::initiate builds). Over exact rationals, by case analysis on the translated text.
   Used by Props/C19.v. *)
From Coq Require Import ZArith NArith QArith Qabs Bool List Lqa Lia.
From Similari Require Import Base.Num Proofs.BoxProofs Base.QExtra.
From SimilariGen Require Import Consts Scalar ScalarBox ScalarKalmanBox.
Import ListNotations.
Open Scope Q_scope.

Definition mean_at (mean : list Q) (i : nat) : Q := nth i mean 0.

(* what the box read back from a state must be: positions 0,1,3,4 of the mean, and the angle of position 2 unless it is 0 *)
Definition box_of_mean (mean : list Q) (u : Universal2DBox Qops) : Prop :=
  Universal2DBox_xc Qops u == mean_at mean 0 /\ Universal2DBox_yc Qops u == mean_at mean 1 /\
  Universal2DBox_aspect Qops u == mean_at mean 3 /\ Universal2DBox_height Qops u == mean_at mean 4 /\
  (mean_at mean 2 == 0 -> Universal2DBox_angle Qops u = None) /\
  (~ mean_at mean 2 == 0 -> exists a, Universal2DBox_angle Qops u = Some a /\ a == mean_at mean 2).

Lemma kalman_state_to_box_exact_lemma (mean : list Q) : (5 <= length mean)%nat ->
  exists u, kalman_state_to_ubox Qops mean = Some u /\ box_of_mean mean u.
Proof.
  intro Hl. unfold kalman_state_to_ubox, ubox_new, box_of_mean, mean_at. qops.
  destruct (N.ltb (N.of_nat (length mean)) 5) eqn:E; [exfalso; apply N.ltb_lt in E; clear -Hl E; lia|].
  change (N.to_nat 0) with 0%nat. change (N.to_nat 1) with 1%nat. change (N.to_nat 2) with 2%nat.
  change (N.to_nat 3) with 3%nat. change (N.to_nat 4) with 4%nat.
  set (a := nth 2 mean 0).
  eexists. split; [reflexivity|].
  cbn [Universal2DBox_xc Universal2DBox_yc Universal2DBox_angle Universal2DBox_aspect Universal2DBox_height].
  repeat split; try reflexivity.
  - intro H0. cases_if; [reflexivity|]. exfalso. b2p_in E0. destruct E0; lra.
  - intro H0. cases_if.
    + exfalso. b2p_in E0. apply H0. destruct E0. lra.
    + exists a. split; reflexivity.
Qed.

Lemma kalman_state_too_short_lemma (mean : list Q) : (length mean < 5)%nat -> kalman_state_to_ubox Qops mean = None.
Proof.
  intro Hl. unfold kalman_state_to_ubox. qops. destruct (N.ltb (N.of_nat (length mean)) 5) eqn:E; [reflexivity|].
  apply N.ltb_ge in E. clear -Hl E. lia.
Qed.

(* the mean built by initiate: (xc, yc, angle or 0, aspect, height, 0, 0, 0, 0, 0) *)
Lemma kalman_initiate_mean_spec (b : Universal2DBox Qops) :
  let m : list Q := kalman_initiate_mean Qops b in
  length m = 10%nat /\ mean_at m 0 = Universal2DBox_xc Qops b /\ mean_at m 1 = Universal2DBox_yc Qops b /\
  mean_at m 2 = angle0 b /\ mean_at m 3 = Universal2DBox_aspect Qops b /\ mean_at m 4 = Universal2DBox_height Qops b /\
  (forall i, (5 <= i)%nat -> mean_at m i == 0).
Proof.
  unfold kalman_initiate_mean, mean_at, angle0. qops. repeat split.
  intros i Hi. do 10 (destruct i as [|i]; [try lia; reflexivity|]). destruct i; reflexivity.
Qed.

(* box -> initiate -> box: same centre, aspect, height; the angle is kept, except that Some 0 reads back as None (which ==
   treats alike); hence the box read back == the original, in both orders *)
Lemma kalman_roundtrip_preserves_box_lemma (b : Universal2DBox Qops) :
  exists u, kalman_state_to_ubox Qops (kalman_initiate_mean Qops b) = Some u /\
    Universal2DBox_xc Qops u == Universal2DBox_xc Qops b /\ Universal2DBox_yc Qops u == Universal2DBox_yc Qops b /\
    Universal2DBox_aspect Qops u == Universal2DBox_aspect Qops b /\ Universal2DBox_height Qops u == Universal2DBox_height Qops b /\
    angle0 u == angle0 b /\
    (forall a, Universal2DBox_angle Qops b = Some a -> ~ a == 0 -> exists a', Universal2DBox_angle Qops u = Some a' /\ a' == a) /\
    (angle0 b == 0 -> Universal2DBox_angle Qops u = None) /\
    ubox_eq Qops u b = true /\ ubox_eq Qops b u = true.
Proof.
  destruct (kalman_initiate_mean_spec b) as [Hl [H0 [H1 [H2 [H3 [H4 _]]]]]].
  destruct (kalman_state_to_box_exact_lemma (kalman_initiate_mean Qops b)) as [u [Hu [B0 [B1 [B3 [B4 [Bz Bnz]]]]]]]; [cbv zeta in Hl; clear -Hl; change (T Qops) with Q in *; lia|].
  rewrite H0 in B0. rewrite H1 in B1. rewrite H3 in B3. rewrite H4 in B4. rewrite H2 in Bz, Bnz.
  assert (Ha : angle0 u == angle0 b).
  { destruct (Qeq_dec (angle0 b) 0) as [Z|NZ].
    - unfold angle0 at 1. rewrite (Bz Z). rewrite Z. reflexivity.
    - destruct (Bnz NZ) as [a [Ea Eq]]. unfold angle0 at 1. rewrite Ea. exact Eq. }
  assert (Hw : ubox_within EPS u b).
  { pose proof EPS_pos. unfold ubox_within. rewrite B0, B1, B3, B4, Ha. repeat split; elim_abs; lra. }
  exists u. split; [exact Hu|]. repeat split; try assumption.
  - intros a Ea Hnz. assert (E : angle0 b = a) by (unfold angle0; rewrite Ea; reflexivity). rewrite <- E. apply Bnz. rewrite E. exact Hnz.
  - apply ubox_eq_within_lemma. exact Hw.
  - rewrite ubox_eq_sym_lemma. apply ubox_eq_within_lemma. exact Hw.
Qed.
