(* Lemmas about Model/Track.v (C11, and used by the store proofs of C09). *)
From Coq Require Import List NArith Bool Arith Lia Permutation.
From Similari Require Import Model.Track.
Import ListNotations.

(* ------------------------------------------------------------------------------------------------ *)
(* Association lists                                                                                  *)

Section AssocLemmas.
  Context {A : Type}.
  Implicit Types l : list (N * A).

  Lemma alookup_aremove : forall l k k',
      alookup k' (aremove k l) = if (k' =? k)%N then None else alookup k' l.
  Proof.
    induction l as [|[k0 v0] r IH]; intros k k'; cbn [aremove filter alookup fst].
    - destruct (k' =? k)%N; reflexivity.
    - destruct (k0 =? k)%N eqn:E0; cbn [negb].
      + apply N.eqb_eq in E0; subst k0. fold (aremove k r). rewrite IH.
        destruct (k' =? k)%N eqn:E1; [reflexivity|].
        destruct (k =? k')%N eqn:E2; [|reflexivity].
        apply N.eqb_eq in E2; subst. rewrite N.eqb_refl in E1; discriminate.
      + cbn [alookup]. fold (aremove k r). rewrite IH.
        destruct (k0 =? k')%N eqn:E2; [|reflexivity].
        apply N.eqb_eq in E2; subst k0. rewrite E0. reflexivity.
  Qed.

  Lemma alookup_aset : forall l k v k',
      alookup k' (aset k v l) = if (k' =? k)%N then Some v else alookup k' l.
  Proof.
    intros l k v k'. unfold aset. cbn [alookup]. rewrite alookup_aremove.
    rewrite (N.eqb_sym k k'). destruct (k' =? k)%N; reflexivity.
  Qed.

  Lemma ahas_aset : forall l k v k', ahas k' (aset k v l) = (k' =? k)%N || ahas k' l.
  Proof.
    intros. unfold ahas. rewrite alookup_aset. destruct (k' =? k)%N; reflexivity.
  Qed.

  Lemma alookup_In : forall l k v, alookup k l = Some v -> In (k, v) l.
  Proof.
    induction l as [|[k0 v0] r IH]; intros k v H; cbn [alookup] in H; [discriminate|].
    destruct (k0 =? k)%N eqn:E.
    - apply N.eqb_eq in E; subst. inversion H; subst. left; reflexivity.
    - right; apply IH; assumption.
  Qed.

  Lemma alookup_None_notin : forall l k, alookup k l = None -> ~ In k (akeys l).
  Proof.
    induction l as [|[k0 v0] r IH]; intros k H; cbn [alookup] in H; cbn [akeys map fst].
    - intros [].
    - destruct (k0 =? k)%N eqn:E; [discriminate|].
      intros [Hk|Hk].
      + subst. rewrite N.eqb_refl in E; discriminate.
      + exact (IH k H Hk).
  Qed.

  Lemma In_alookup_nodup : forall l k v, NoDup (akeys l) -> In (k, v) l -> alookup k l = Some v.
  Proof.
    induction l as [|[k0 v0] r IH]; intros k v ND HI; [destruct HI|].
    cbn [akeys map fst] in ND. inversion ND as [|x xs Hnot ND']; subst.
    cbn [alookup]. destruct HI as [HI|HI].
    - inversion HI; subst. rewrite N.eqb_refl. reflexivity.
    - destruct (k0 =? k)%N eqn:E.
      + apply N.eqb_eq in E; subst. exfalso. apply Hnot.
        change (In (fst (k, v)) (map fst r)). apply in_map. exact HI.
      + apply IH; assumption.
  Qed.

  Lemma aremove_In : forall l k p, In p (aremove k l) <-> (fst p <> k /\ In p l).
  Proof.
    intros l k p. unfold aremove. rewrite filter_In. rewrite negb_true_iff, N.eqb_neq. tauto.
  Qed.

  Lemma akeys_aremove_In : forall l k k', In k' (akeys (aremove k l)) <-> (k' <> k /\ In k' (akeys l)).
  Proof.
    intros l k k'. unfold akeys. rewrite !in_map_iff. split.
    - intros [p [Hp HI]]. apply aremove_In in HI. destruct HI as [Hne HI]. subst k'.
      split; [assumption|]. exists p; split; [reflexivity|assumption].
    - intros [Hne [p [Hp HI]]]. subst k'. exists p. split; [reflexivity|].
      apply aremove_In. split; assumption.
  Qed.

  Lemma NoDup_akeys_aremove : forall l k, NoDup (akeys l) -> NoDup (akeys (aremove k l)).
  Proof.
    induction l as [|[k0 v0] r IH]; intros k ND; cbn [aremove filter akeys map fst]; [constructor|].
    cbn [akeys map fst] in ND. inversion ND as [|x xs Hnot ND']; subst.
    fold (aremove k r). destruct (k0 =? k)%N; cbn [negb].
    - apply IH; assumption.
    - cbn [map fst]. constructor.
      + fold (akeys (aremove k r)). rewrite akeys_aremove_In. intros [_ H]. exact (Hnot H).
      + apply IH; assumption.
  Qed.

  Lemma NoDup_akeys_aset : forall l k v, NoDup (akeys l) -> NoDup (akeys (aset k v l)).
  Proof.
    intros l k v ND. unfold aset. cbn [akeys map fst]. constructor.
    - fold (akeys (aremove k l)). rewrite akeys_aremove_In. intros [H _]. apply H; reflexivity.
    - apply NoDup_akeys_aremove; assumption.
  Qed.

  Lemma length_aremove_absent : forall l k, alookup k l = None -> aremove k l = l.
  Proof.
    induction l as [|[k0 v0] r IH]; intros k H; cbn [aremove filter fst]; [reflexivity|].
    cbn [alookup] in H. destruct (k0 =? k)%N eqn:E; [discriminate|]. cbn [negb].
    fold (aremove k r). rewrite IH; [reflexivity|assumption].
  Qed.

  Lemma length_aremove_present : forall l k v, NoDup (akeys l) -> alookup k l = Some v ->
      S (length (aremove k l)) = length l.
  Proof.
    induction l as [|[k0 v0] r IH]; intros k v ND H; [discriminate|].
    cbn [akeys map fst] in ND. inversion ND as [|x xs Hnot ND']; subst.
    cbn [alookup] in H. cbn [aremove filter fst]. fold (aremove k r).
    destruct (k0 =? k)%N eqn:E; cbn [negb length].
    - apply N.eqb_eq in E; subst k0. rewrite length_aremove_absent; [reflexivity|].
      destruct (alookup k r) eqn:EL; [|reflexivity].
      exfalso. apply Hnot. apply alookup_In in EL.
      change (In (fst (k, a)) (map fst r)). apply in_map. exact EL.
    - f_equal. eapply IH; eassumption.
  Qed.
End AssocLemmas.

(* ------------------------------------------------------------------------------------------------ *)

Section TrackLemmas.
  Variables TA UPD OA FT MS W : Type.
  Notation track := (track TA OA FT MS).
  Notation observation := (observation OA FT).

  Variable cb_apply : W -> UPD -> TA -> W * bool * TA.
  Variable cb_merge : W -> TA -> TA -> W * bool * TA.
  Variable cb_optimize :
    W -> MS -> N -> list N -> TA -> list observation -> nat -> bool -> W * bool * MS * TA * list observation.

  Notation add_observation := (add_observation cb_apply cb_optimize).
  Notation merge := (merge cb_merge cb_optimize).
  Notation merge_loop := (merge_loop cb_optimize).
  Notation build_obs := (build_obs cb_apply cb_optimize).
  Notation build := (build cb_apply cb_optimize).

  (* --- add_observation ------------------------------------------------------------------------- *)

  (* Err: the track is EXACTLY what it was (all five fields) and nothing was notified.
     Ok : exactly one notification; id and merge history are not touched. *)
  Lemma add_observation_atomic_lemma : forall w self cls fa f upd w' r t' n,
      add_observation w self cls fa f upd = (w', r, t', n) ->
      match r with
      | Err _ => t' = self /\ n = 0%nat
      | Ok _ => n = 1%nat /\ tid t' = tid self /\ hist t' = hist self
      end.
  Proof.
    intros w self cls fa f upd w' r t' n H.
    destruct self as [a0 id0 o0 m0 h0].
    unfold Track.add_observation in H. cbn [attrs tid obs mstate hist] in H.
    destruct upd as [u|].
    - destruct (cb_apply w u a0) as [[w1 ok1] a1].
      destruct ok1; cbn [negb] in H.
      + destruct (is_none f && is_none fa).
        * inversion H; subst. cbn. auto.
        * cbn [set_attrs attrs tid obs mstate hist] in H.
          destruct (cb_optimize _ _ _ _ _ _ _ _) as [[[[w2 ok2] ms2] a2] v2].
          destruct ok2; cbn [negb] in H; inversion H; subst; cbn; auto.
      + inversion H; subst. cbn. auto.
    - cbn [negb] in H.
      destruct (is_none f && is_none fa).
      + inversion H; subst. cbn. auto.
      + destruct (cb_optimize _ _ _ _ _ _ _ _) as [[[[w2 ok2] ms2] a2] v2].
        destruct ok2; cbn [negb] in H; inversion H; subst; cbn; auto.
  Qed.

  (* which error is reported *)
  Lemma add_observation_err_kind : forall w self cls fa f upd w' e t' n,
      add_observation w self cls fa f upd = (w', Err e, t', n) -> e = EApply \/ e = EOptimize.
  Proof.
    intros w self cls fa f upd w' e t' n H.
    unfold Track.add_observation in H.
    destruct upd as [u|].
    - destruct (cb_apply w u (attrs self)) as [[w1 ok1] a1].
      destruct ok1; cbn [negb] in H.
      + destruct (is_none f && is_none fa); [inversion H|].
        destruct (cb_optimize _ _ _ _ _ _ _ _) as [[[[w2 ok2] ms2] a2] v2].
        destruct ok2; cbn [negb] in H; inversion H; auto.
      + inversion H; auto.
    - cbn [negb] in H. destruct (is_none f && is_none fa); [inversion H|].
      destruct (cb_optimize _ _ _ _ _ _ _ _) as [[[[w2 ok2] ms2] a2] v2].
      destruct ok2; cbn [negb] in H; inversion H; auto.
  Qed.

  (* --- merge ----------------------------------------------------------------------------------- *)

  Definition requested_present (self other : track) (classes : list N) : bool :=
    existsb (fun c => ahas c (obs self) || ahas c (obs other)) classes.

  Lemma merge_loop_spec : forall classes w self other nh la lo lm any w' r t' n,
      merge_loop w self other classes nh la lo lm any = (w', r, t', n) ->
      match r with
      | Err _ => t' = mkTrack la (tid self) lo lm (hist self) /\ n = 0%nat
      | Ok _ => n = 1%nat /\ tid t' = tid self /\
                hist t' = if any || requested_present self other classes then nh else hist self
      end.
  Proof.
    induction classes as [|c rest IH]; intros w self other nh la lo lm any w' r t' n H.
    - cbn [Track.merge_loop] in H. inversion H; subst. cbn [requested_present existsb].
      rewrite orb_false_r. destruct any; cbn; auto.
    - cbn [Track.merge_loop] in H.
      unfold requested_present. cbn [existsb]. fold (requested_present self other rest).
      unfold ahas at 1 2.
      destruct (alookup c (obs self)) as [dv|] eqn:ED; destruct (alookup c (obs other)) as [sv|] eqn:ES.
      + (* both *)
        destruct (cb_optimize _ _ _ _ _ _ _ _) as [[[[w1 ok] ms1] a1] v1].
        destruct ok; cbn [negb] in H.
        * apply IH in H. destruct r; [|exact H].
          cbn [set_mstate set_attrs set_obs attrs tid obs mstate hist] in H.
          destruct H as (Hn & Hid & Hh). split; [assumption|]. split; [assumption|].
          rewrite Hh. cbn [orb]. rewrite orb_true_r. reflexivity.
        * inversion H; subst. cbn. auto.
      + (* only dest *)
        destruct (cb_optimize _ _ _ _ _ _ _ _) as [[[[w1 ok] ms1] a1] v1].
        destruct ok; cbn [negb] in H.
        * apply IH in H. destruct r; [|exact H].
          cbn [set_mstate set_attrs set_obs attrs tid obs mstate hist] in H.
          destruct H as (Hn & Hid & Hh). split; [assumption|]. split; [assumption|].
          rewrite Hh. cbn [orb]. rewrite orb_true_r. reflexivity.
        * inversion H; subst. cbn. auto.
      + (* only src *)
        destruct (cb_optimize _ _ _ _ _ _ _ _) as [[[[w1 ok] ms1] a1] v1].
        destruct ok; cbn [negb] in H.
        * apply IH in H. destruct r; [|exact H].
          cbn [set_mstate set_attrs set_obs attrs tid obs mstate hist] in H.
          destruct H as (Hn & Hid & Hh). split; [assumption|]. split; [assumption|].
          rewrite Hh. cbn [orb]. rewrite orb_true_r. reflexivity.
        * inversion H; subst. cbn. auto.
      + (* neither: skipped *)
        apply IH in H. cbn [orb]. exact H.
  Qed.

  (* The complete specification of Track::merge's effect on what the property talks about. *)
  Lemma merge_spec_lemma : forall w self other classes mh w' r t' n,
      merge w self other classes mh = (w', r, t', n) ->
      match r with
      | Err _ => t' = self /\ n = 0%nat
      | Ok _ => n = 1%nat /\ tid t' = tid self /\
                hist t' = if mh && requested_present self other classes
                          then hist self ++ hist other else hist self
      end.
  Proof.
    intros w self other classes mh w' r t' n H.
    destruct self as [a0 id0 o0 m0 h0].
    unfold Track.merge in H. cbn [attrs tid obs mstate hist set_attrs] in H.
    destruct (cb_merge w a0 (attrs other)) as [[w1 ok] a1].
    destruct ok; cbn [negb] in H.
    - apply merge_loop_spec in H. destruct r.
      + cbn [tid hist orb] in H. destruct H as (Hn & Hid & Hh).
        split; [assumption|]. split; [assumption|].
        rewrite Hh. unfold requested_present. cbn [obs].
        destruct (existsb _ classes); destruct mh; reflexivity.
      + cbn [tid hist] in H. exact H.
    - inversion H; subst. cbn. auto.
  Qed.

  (* the merge-history clause of C11, spelled out *)
  Lemma merge_history_lemma : forall w self other classes mh w' r t' n,
      merge w self other classes mh = (w', r, t', n) ->
      match r with
      | Err _ => hist t' = hist self
      | Ok _ =>
          (mh = true -> requested_present self other classes = true -> hist t' = hist self ++ hist other) /\
          (mh = false -> hist t' = hist self) /\
          (requested_present self other classes = false -> hist t' = hist self) /\
          (hist t' = hist self \/ hist t' = hist self ++ hist other)
      end.
  Proof.
    intros w self other classes mh w' r t' n H. apply merge_spec_lemma in H. destruct r.
    - destruct H as (_ & _ & Hh). rewrite Hh.
      destruct mh; destruct (requested_present self other classes); cbn [andb]; repeat split; auto; discriminate.
    - destruct H as (H & _). subst. reflexivity.
  Qed.


  Lemma merge_err_kind : forall w self other classes mh w' e t' n,
      merge w self other classes mh = (w', Err e, t', n) -> e = EAttrMerge \/ e = EOptimize.
  Proof.
    intros w self other classes mh w' e t' n H.
    unfold Track.merge in H.
    destruct (cb_merge w (attrs self) (attrs other)) as [[w1 ok] a1].
    destruct ok; cbn [negb] in H; [|inversion H; auto].
    right. revert H.
    generalize (attrs self) as la.
    generalize (if mh then hist (set_attrs self a1) ++ hist other else hist (set_attrs self a1)) as nh.
    generalize (obs (set_attrs self a1)) as lo. generalize (mstate (set_attrs self a1)) as lm.
    generalize false as any. generalize (set_attrs self a1) as s. revert w1.
    induction classes as [|c rest IH]; intros w1 s any lm lo nh la H; cbn [Track.merge_loop] in H.
    - inversion H.
    - destruct (alookup c (obs s)); destruct (alookup c (obs other));
        try (destruct (cb_optimize _ _ _ _ _ _ _ _) as [[[[w2 ok] ms1] a2] v1];
             destruct ok; cbn [negb] in H; [eapply IH; eassumption|inversion H; reflexivity]).
      eapply IH; eassumption.
  Qed.

  (* --- builder --------------------------------------------------------------------------------- *)

  Lemma build_obs_ok : forall l w t w' t' n,
      build_obs w t l = (w', Ok t', n) -> tid t' = tid t /\ hist t' = hist t /\ n = length l.
  Proof.
    induction l as [|[[[cls fa] f] upd] r IH]; intros w t w' t' n H; cbn [Track.build_obs] in H.
    - inversion H; subst. auto.
    - destruct (add_observation w t cls fa f upd) as [[[w1 res] t1] n1] eqn:EA.
      destruct res as [[]|e]; [|inversion H].
      destruct (build_obs w1 t1 r) as [[w2 res2] n2] eqn:EB.
      inversion H; subst. apply add_observation_atomic_lemma in EA. cbn in EA.
      destruct EA as (Hn & Hid & Hh). apply IH in EB. destruct EB as (Hid2 & Hh2 & Hn2).
      subst. cbn [length]. repeat split; congruence.
  Qed.

  Lemma build_ok : forall w id m a l w' t n,
      build w id m a l = (w', Ok t, n) -> tid t = id /\ hist t = [id] /\ n = S (length l).
  Proof.
    intros w id m a l w' t n H. unfold Track.build, new_track in H.
    destruct (build_obs w _ l) as [[w1 res] n1] eqn:EB.
    inversion H; subst. apply build_obs_ok in EB. cbn in EB. destruct EB as (H1 & H2 & H3).
    subst. auto.
  Qed.
End TrackLemmas.
