(* Lemmas about Model/Assign.v (C02, C17). *)
From Coq Require Import List NArith ZArith Bool Arith Lia Permutation.
From Similari Require Import Model.Assign.
Import ListNotations.

Local Open Scope Z_scope.

(* ---------------------------------------------------------------------------------------------- *)
(* sums over index lists *)
Lemma zsum_cons f i l : zsum f (i :: l) = f i + zsum f l.
Proof. reflexivity. Qed.

Lemma zsum_app f l1 l2 : zsum f (l1 ++ l2) = zsum f l1 + zsum f l2.
Proof. induction l1 as [|x l IH]; cbn [app]; rewrite ?zsum_cons; [reflexivity | rewrite IH; lia]. Qed.

Lemma zsum_le f g l : (forall i, In i l -> f i <= g i) -> zsum f l <= zsum g l.
Proof.
  induction l as [|x l IH]; intro H; [reflexivity|]. rewrite !zsum_cons.
  assert (f x <= g x) by (apply H; left; reflexivity).
  assert (zsum f l <= zsum g l) by (apply IH; intros; apply H; right; assumption). lia.
Qed.

Lemma zsum_ext f g l : (forall i, In i l -> f i = g i) -> zsum f l = zsum g l.
Proof.
  induction l as [|x l IH]; intro H; [reflexivity|]. rewrite !zsum_cons.
  rewrite (H x) by (left; reflexivity). rewrite IH; [reflexivity | intros; apply H; right; assumption].
Qed.

Lemma zsum_add f g l : zsum (fun i => f i + g i) l = zsum f l + zsum g l.
Proof. induction l as [|x l IH]; [reflexivity|]. rewrite !zsum_cons, IH. lia. Qed.

Lemma zsum_const c l : zsum (fun _ => c) l = c * Z.of_nat (length l).
Proof. induction l as [|x l IH]; [cbn; lia|]. rewrite zsum_cons, IH. cbn [length]. lia. Qed.

Lemma zsum_eq_pointwise f g l :
  (forall i, In i l -> f i <= g i) -> zsum f l = zsum g l -> forall i, In i l -> f i = g i.
Proof.
  induction l as [|x l IH]; intros Hle Heq i Hi; [contradiction|].
  rewrite !zsum_cons in Heq.
  assert (f x <= g x) by (apply Hle; left; reflexivity).
  assert (zsum f l <= zsum g l) by (apply zsum_le; intros; apply Hle; right; assumption).
  destruct Hi as [Hi|Hi]; [subst; lia|].
  apply IH; [intros; apply Hle; right; assumption | lia | exact Hi].
Qed.

Lemma zsum_map f (h : nat -> nat) l : zsum f (map h l) = zsum (fun i => f (h i)) l.
Proof. induction l as [|x l IH]; [reflexivity|]. cbn [map]. rewrite !zsum_cons, IH. reflexivity. Qed.

Lemma map_nth_seq (a : list nat) : map (fun i => nth i a O) (seq 0 (length a)) = a.
Proof.
  apply (nth_ext _ _ O O).
  - rewrite map_length, seq_length. reflexivity.
  - intros k Hk. rewrite map_length, seq_length in Hk.
    rewrite (nth_indep _ O (nth O a O)) by (rewrite map_length, seq_length; exact Hk).
    rewrite (map_nth (fun i => nth i a O) (seq 0 (length a)) O k).
    rewrite seq_nth by exact Hk. reflexivity.
Qed.

Lemma zsum_assigned f (a : list nat) : zsum (fun i => f (nth i a O)) (seq 0 (length a)) = zsum f a.
Proof. rewrite <- zsum_map. rewrite map_nth_seq. reflexivity. Qed.

(* a duplicate-free sub-list of indices sums to at most the whole, for non-negative terms *)
Lemma zsum_sub_le f l : forall big,
  NoDup l -> incl l big -> (forall j, In j big -> 0 <= f j) -> zsum f l <= zsum f big.
Proof.
  induction l as [|x l IH]; intros big Hnd Hinc Hpos.
  - cbn. clear Hinc. induction big as [|b big IHb]; [cbn; lia|]. rewrite zsum_cons.
    assert (0 <= f b) by (apply Hpos; left; reflexivity).
    assert (0 <= zsum f big) by (apply IHb; intros; apply Hpos; right; assumption). cbn in *. lia.
  - inversion Hnd as [|? ? Hx Hnd']; subst.
    assert (In x big) as Hxb by (apply Hinc; left; reflexivity).
    destruct (in_split _ _ Hxb) as [l1 [l2 E]]. subst big.
    rewrite zsum_cons, zsum_app, zsum_cons.
    assert (zsum f l <= zsum f (l1 ++ l2)) as H.
    { apply IH; [exact Hnd' | |].
      - intros y Hy. assert (In y (l1 ++ x :: l2)) as H by (apply Hinc; right; exact Hy).
        apply in_app_or in H. apply in_or_app. destruct H as [H|[H|H]]; [left; exact H | subst; contradiction | right; exact H].
      - intros j Hj. apply Hpos. apply in_app_or in Hj. apply in_or_app. destruct Hj; [left | right; right]; assumption. }
    rewrite zsum_app in H. lia.
Qed.

Lemma zsum_zero_outside f l : forall big,
  NoDup l -> NoDup big -> incl l big -> (forall j, In j big -> ~ In j l -> f j = 0) -> zsum f big = zsum f l.
Proof.
  induction l as [|x l IH]; intros big Hnd Hndb Hinc Hz.
  - cbn. clear Hinc Hndb. induction big as [|b big IHb]; [reflexivity|]. rewrite zsum_cons.
    rewrite (Hz b) by (try (left; reflexivity); intros []).
    rewrite IHb; [reflexivity | intros; apply Hz; [right; assumption | intros []]].
  - inversion Hnd as [|? ? Hx Hnd']; subst.
    assert (In x big) as Hxb by (apply Hinc; left; reflexivity).
    destruct (in_split _ _ Hxb) as [l1 [l2 E]]. subst big.
    apply NoDup_remove in Hndb. destruct Hndb as [Hndb Hxn].
    rewrite zsum_cons, zsum_app, zsum_cons.
    assert (zsum f (l1 ++ l2) = zsum f l) as H.
    { apply IH; [exact Hnd' | exact Hndb | |].
      - intros y Hy. assert (In y (l1 ++ x :: l2)) as H by (apply Hinc; right; exact Hy).
        apply in_app_or in H. apply in_or_app. destruct H as [H|[H|H]]; [left; exact H | subst; contradiction | right; exact H].
      - intros j Hj Hnj. apply Hz.
        + apply in_app_or in Hj. apply in_or_app. destruct Hj; [left | right; right]; assumption.
        + intros [H|H]; [subst; contradiction | contradiction]. }
    rewrite zsum_app in H. lia.
Qed.

Lemma incl_seq (a : list nat) c : (forall j, In j a -> (j < c)%nat) -> incl a (seq 0 c).
Proof. intros H j Hj. apply in_seq. specialize (H j Hj). lia. Qed.

(* ---------------------------------------------------------------------------------------------- *)
(* the dual certificate (weak duality) *)
Lemma forallb_seq f s n : forallb f (seq s n) = true <-> forall i, (s <= i < s + n)%nat -> f i = true.
Proof.
  rewrite forallb_forall. split; intros H i Hi; apply H; apply in_seq; exact Hi.
Qed.

Lemma check_dual_sound_lemma m a u v :
  check_dual m a u v = true -> is_assignment (length m) (ncols m) a /\ optimal m a.
Proof.
  unfold check_dual. rewrite !andb_true_iff.
  intros [[[[[[[[[Ha Hu] Hv] _] Hr] Hnd] Hge] Heq] Hpos] Hz].
  apply Nat.eqb_eq in Ha, Hu, Hv.
  set (rows := length m) in *. set (cols := ncols m) in *.
  assert (forall j, In j a -> (j < cols)%nat) as Hrange.
  { intros j Hj. rewrite forallb_forall in Hr. apply Nat.ltb_lt, Hr, Hj. }
  assert (NoDup a) as Hnodup.
  { apply (NoDup_nth a O). intros i k Hi Hk E. rewrite Ha in Hi, Hk.
    rewrite forallb_seq in Hnd.
    destruct (Nat.lt_trichotomy i k) as [Hlt|[Heq'|Hgt]]; [|exact Heq'|].
    - specialize (Hnd i ltac:(lia)). rewrite forallb_seq in Hnd. specialize (Hnd k ltac:(lia)).
      apply negb_true_iff, Nat.eqb_neq in Hnd. congruence.
    - specialize (Hnd k ltac:(lia)). rewrite forallb_seq in Hnd. specialize (Hnd i ltac:(lia)).
      apply negb_true_iff, Nat.eqb_neq in Hnd. congruence. }
  split; [repeat split; assumption|].
  set (U := fun i => nth i u 0). set (V := fun j => nth j v 0).
  assert (forall j, 0 <= V j) as HVpos.
  { intro j. unfold V. destruct (Nat.lt_ge_cases j cols) as [Hj|Hj].
    - rewrite forallb_seq in Hpos. apply Z.leb_le, Hpos. lia.
    - rewrite nth_overflow by lia. lia. }
  assert (aweight m a = zsum U (seq 0 rows) + zsum V a) as Ea.
  { unfold aweight. fold rows. rewrite <- (zsum_assigned V a), Ha, <- zsum_add.
    apply zsum_ext. intros i Hi. apply in_seq in Hi. rewrite forallb_seq in Heq. apply Z.eqb_eq, Heq. lia. }
  assert (zsum V (seq 0 cols) = zsum V a) as EV.
  { apply zsum_zero_outside; [exact Hnodup | apply seq_NoDup | apply incl_seq, Hrange|].
    intros j Hj Hnj. apply in_seq in Hj. rewrite forallb_seq in Hz. specialize (Hz j ltac:(lia)).
    apply orb_true_iff in Hz. destruct Hz as [Hz|Hz]; [|apply Z.eqb_eq, Hz].
    exfalso. apply Hnj. apply existsb_exists in Hz. destruct Hz as [x [Hx E]]. apply Nat.eqb_eq in E. subst. exact Hx. }
  intros a' [Hla' [Hnd' Hr']].
  assert (aweight m a' <= zsum U (seq 0 rows) + zsum V a') as Ea'.
  { unfold aweight. fold rows. rewrite <- (zsum_assigned V a'), Hla', <- zsum_add.
    apply zsum_le. intros i Hi. apply in_seq in Hi.
    rewrite forallb_seq in Hge. specialize (Hge i ltac:(lia)). rewrite forallb_seq in Hge.
    apply Z.leb_le, Hge. split; [lia|]. cbn. apply Hr'. apply nth_In. lia. }
  assert (zsum V a' <= zsum V (seq 0 cols)) as H'.
  { apply zsum_sub_le; [exact Hnd' | apply incl_seq, Hr' | intros; apply HVpos]. }
  lia.
Qed.
