(* Lemmas about Model/Assign.v (C02, C17). *)
From Coq Require Import List NArith ZArith Bool Arith Lia Permutation.
From Similari Require Import Model.Assign.
Import ListNotations.

Local Open Scope Z_scope.

(* ---------------------------------------------------------------------------------------------- *)
(* sums over index lists *)
Lemma zsum_cons f i l : zsum f (i :: l) = f i + zsum f l.
Proof. reflexivity. Qed.

Lemma zsum_app f l1 l2 : zsum f (l1 ++ l2) = zsum f l1 + zsum f l2.
Proof. induction l1 as [|x l IH]; cbn [app]; rewrite ?zsum_cons; [reflexivity | rewrite IH; lia]. Qed.

Lemma zsum_le f g l : (forall i, In i l -> f i <= g i) -> zsum f l <= zsum g l.
Proof.
  induction l as [|x l IH]; intro H; [reflexivity|]. rewrite !zsum_cons.
  assert (f x <= g x) by (apply H; left; reflexivity).
  assert (zsum f l <= zsum g l) by (apply IH; intros; apply H; right; assumption). lia.
Qed.

Lemma zsum_ext f g l : (forall i, In i l -> f i = g i) -> zsum f l = zsum g l.
Proof.
  induction l as [|x l IH]; intro H; [reflexivity|]. rewrite !zsum_cons.
  rewrite (H x) by (left; reflexivity). rewrite IH; [reflexivity | intros; apply H; right; assumption].
Qed.

Lemma zsum_add f g l : zsum (fun i => f i + g i) l = zsum f l + zsum g l.
Proof. induction l as [|x l IH]; [reflexivity|]. rewrite !zsum_cons, IH. lia. Qed.

Lemma zsum_const c l : zsum (fun _ => c) l = c * Z.of_nat (length l).
Proof. induction l as [|x l IH]; [cbn; lia|]. rewrite zsum_cons, IH. cbn [length]. lia. Qed.

Lemma zsum_eq_pointwise f g l :
  (forall i, In i l -> f i <= g i) -> zsum f l = zsum g l -> forall i, In i l -> f i = g i.
Proof.
  induction l as [|x l IH]; intros Hle Heq i Hi; [contradiction|].
  rewrite !zsum_cons in Heq.
  assert (f x <= g x) by (apply Hle; left; reflexivity).
  assert (zsum f l <= zsum g l) by (apply zsum_le; intros; apply Hle; right; assumption).
  destruct Hi as [Hi|Hi]; [subst; lia|].
  apply IH; [intros; apply Hle; right; assumption | lia | exact Hi].
Qed.

Lemma zsum_map f (h : nat -> nat) l : zsum f (map h l) = zsum (fun i => f (h i)) l.
Proof. induction l as [|x l IH]; [reflexivity|]. cbn [map]. rewrite !zsum_cons, IH. reflexivity. Qed.

Lemma map_nth_seq (a : list nat) : map (fun i => nth i a O) (seq 0 (length a)) = a.
Proof.
  apply (nth_ext _ _ O O).
  - rewrite map_length, seq_length. reflexivity.
  - intros k Hk. rewrite map_length, seq_length in Hk.
    rewrite (nth_indep _ O (nth O a O)) by (rewrite map_length, seq_length; exact Hk).
    rewrite (map_nth (fun i => nth i a O) (seq 0 (length a)) O k).
    rewrite seq_nth by exact Hk. reflexivity.
Qed.

Lemma zsum_assigned f (a : list nat) : zsum (fun i => f (nth i a O)) (seq 0 (length a)) = zsum f a.
Proof. rewrite <- zsum_map. rewrite map_nth_seq. reflexivity. Qed.

(* a duplicate-free sub-list of indices sums to at most the whole, for non-negative terms *)
Lemma zsum_sub_le f l : forall big,
  NoDup l -> incl l big -> (forall j, In j big -> 0 <= f j) -> zsum f l <= zsum f big.
Proof.
  induction l as [|x l IH]; intros big Hnd Hinc Hpos.
  - cbn. clear Hinc. induction big as [|b big IHb]; [cbn; lia|]. rewrite zsum_cons.
    assert (0 <= f b) by (apply Hpos; left; reflexivity).
    assert (0 <= zsum f big) by (apply IHb; intros; apply Hpos; right; assumption). cbn in *. lia.
  - inversion Hnd as [|? ? Hx Hnd']; subst.
    assert (In x big) as Hxb by (apply Hinc; left; reflexivity).
    destruct (in_split _ _ Hxb) as [l1 [l2 E]]. subst big.
    rewrite zsum_cons, zsum_app, zsum_cons.
    assert (zsum f l <= zsum f (l1 ++ l2)) as H.
    { apply IH; [exact Hnd' | |].
      - intros y Hy. assert (In y (l1 ++ x :: l2)) as H by (apply Hinc; right; exact Hy).
        apply in_app_or in H. apply in_or_app. destruct H as [H|[H|H]]; [left; exact H | subst; contradiction | right; exact H].
      - intros j Hj. apply Hpos. apply in_app_or in Hj. apply in_or_app. destruct Hj; [left | right; right]; assumption. }
    rewrite zsum_app in H. lia.
Qed.

Lemma zsum_zero_outside f l : forall big,
  NoDup l -> NoDup big -> incl l big -> (forall j, In j big -> ~ In j l -> f j = 0) -> zsum f big = zsum f l.
Proof.
  induction l as [|x l IH]; intros big Hnd Hndb Hinc Hz.
  - cbn. clear Hinc Hndb. induction big as [|b big IHb]; [reflexivity|]. rewrite zsum_cons.
    rewrite (Hz b) by (try (left; reflexivity); intros []).
    rewrite IHb; [reflexivity | intros; apply Hz; [right; assumption | intros []]].
  - inversion Hnd as [|? ? Hx Hnd']; subst.
    assert (In x big) as Hxb by (apply Hinc; left; reflexivity).
    destruct (in_split _ _ Hxb) as [l1 [l2 E]]. subst big.
    apply NoDup_remove in Hndb. destruct Hndb as [Hndb Hxn].
    rewrite zsum_cons, zsum_app, zsum_cons.
    assert (zsum f (l1 ++ l2) = zsum f l) as H.
    { apply IH; [exact Hnd' | exact Hndb | |].
      - intros y Hy. assert (In y (l1 ++ x :: l2)) as H by (apply Hinc; right; exact Hy).
        apply in_app_or in H. apply in_or_app. destruct H as [H|[H|H]]; [left; exact H | subst; contradiction | right; exact H].
      - intros j Hj Hnj. apply Hz.
        + apply in_app_or in Hj. apply in_or_app. destruct Hj; [left | right; right]; assumption.
        + intros [H|H]; [subst; contradiction | contradiction]. }
    rewrite zsum_app in H. lia.
Qed.

Lemma incl_seq (a : list nat) c : (forall j, In j a -> (j < c)%nat) -> incl a (seq 0 c).
Proof. intros H j Hj. apply in_seq. specialize (H j Hj). lia. Qed.

(* ---------------------------------------------------------------------------------------------- *)
(* the dual certificate (weak duality) *)
Lemma forallb_seq f s n : forallb f (seq s n) = true <-> forall i, (s <= i < s + n)%nat -> f i = true.
Proof.
  rewrite forallb_forall. split; intros H i Hi; apply H; apply in_seq; exact Hi.
Qed.

Lemma check_dual_sound_lemma m a u v :
  check_dual m a u v = true -> is_assignment (length m) (ncols m) a /\ optimal m a.
Proof.
  unfold check_dual. rewrite !andb_true_iff.
  intros [[[[[[[[[Ha Hu] Hv] _] Hr] Hnd] Hge] Heq] Hpos] Hz].
  apply Nat.eqb_eq in Ha, Hu, Hv.
  set (rows := length m) in *. set (cols := ncols m) in *.
  assert (forall j, In j a -> (j < cols)%nat) as Hrange.
  { intros j Hj. rewrite forallb_forall in Hr. apply Nat.ltb_lt, Hr, Hj. }
  assert (NoDup a) as Hnodup.
  { apply (NoDup_nth a O). intros i k Hi Hk E. rewrite Ha in Hi, Hk.
    rewrite forallb_seq in Hnd.
    destruct (Nat.lt_trichotomy i k) as [Hlt|[Heq'|Hgt]]; [|exact Heq'|].
    - specialize (Hnd i ltac:(lia)). rewrite forallb_seq in Hnd. specialize (Hnd k ltac:(lia)).
      apply negb_true_iff, Nat.eqb_neq in Hnd. congruence.
    - specialize (Hnd k ltac:(lia)). rewrite forallb_seq in Hnd. specialize (Hnd i ltac:(lia)).
      apply negb_true_iff, Nat.eqb_neq in Hnd. congruence. }
  split; [repeat split; assumption|].
  set (U := fun i => nth i u 0). set (V := fun j => nth j v 0).
  assert (forall j, 0 <= V j) as HVpos.
  { intro j. unfold V. destruct (Nat.lt_ge_cases j cols) as [Hj|Hj].
    - rewrite forallb_seq in Hpos. apply Z.leb_le, Hpos. lia.
    - rewrite nth_overflow by lia. lia. }
  assert (aweight m a = zsum U (seq 0 rows) + zsum V a) as Ea.
  { unfold aweight. fold rows. rewrite <- (zsum_assigned V a), Ha, <- zsum_add.
    apply zsum_ext. intros i Hi. apply in_seq in Hi. rewrite forallb_seq in Heq. apply Z.eqb_eq, Heq. lia. }
  assert (zsum V (seq 0 cols) = zsum V a) as EV.
  { apply zsum_zero_outside; [exact Hnodup | apply seq_NoDup | apply incl_seq, Hrange|].
    intros j Hj Hnj. apply in_seq in Hj. rewrite forallb_seq in Hz. specialize (Hz j ltac:(lia)).
    apply orb_true_iff in Hz. destruct Hz as [Hz|Hz]; [|apply Z.eqb_eq, Hz].
    exfalso. apply Hnj. apply existsb_exists in Hz. destruct Hz as [x [Hx E]]. apply Nat.eqb_eq in E. subst. exact Hx. }
  intros a' [Hla' [Hnd' Hr']].
  assert (aweight m a' <= zsum U (seq 0 rows) + zsum V a') as Ea'.
  { unfold aweight. fold rows. rewrite <- (zsum_assigned V a'), Hla', <- zsum_add.
    apply zsum_le. intros i Hi. apply in_seq in Hi.
    rewrite forallb_seq in Hge. specialize (Hge i ltac:(lia)). rewrite forallb_seq in Hge.
    apply Z.leb_le, Hge. split; [lia|]. cbn. apply Hr'. apply nth_In. lia. }
  assert (zsum V a' <= zsum V (seq 0 cols)) as H'.
  { apply zsum_sub_le; [exact Hnd' | apply incl_seq, Hr' | intros; apply HVpos]. }
  lia.
Qed.

(* ---------------------------------------------------------------------------------------------- *)
(* best_partial: exhaustive optimum over partial one-to-one matchings *)
Section BestPartial.
  Variable wf : N -> N -> option Z.
  Variable thr : Z.

  Definition valid_pm (ds ts : list N) (M : pmatch) : Prop :=
    map fst M = ds /\ NoDup (matched M) /\
    forall d t, In (d, Some t) M -> In t ts /\ wf d t <> None.

  Definition bval (b : bres) : Z := fst (fst b).
  Definition bpm (b : bres) : pmatch := snd (fst b).

  Lemma better_cases b1 b2 :
    (fst (better b1 b2) = fst b1 \/ fst (better b1 b2) = fst b2) /\
    bval b1 <= bval (better b1 b2) /\ bval b2 <= bval (better b1 b2).
  Proof.
    destruct b1 as [[v1 m1] c1], b2 as [[v2 m2] c2]. unfold better, bval. cbn [fst snd].
    destruct (Z.ltb_spec v1 v2); cbn [fst]; [split; [right; reflexivity | lia]|].
    destruct (Z.eqb_spec v1 v2); cbn [fst]; (split; [left; reflexivity | lia]).
  Qed.

  Lemma fold_better_spec opts : forall b0,
    (fst (fold_left better opts b0) = fst b0 \/ exists o, In o opts /\ fst (fold_left better opts b0) = fst o) /\
    bval b0 <= bval (fold_left better opts b0) /\
    forall o, In o opts -> bval o <= bval (fold_left better opts b0).
  Proof.
    induction opts as [|o opts IH]; intro b0; cbn [fold_left].
    - split; [left; reflexivity|]. split; [lia | intros o []].
    - destruct (IH (better b0 o)) as [H1 [H2 H3]]. destruct (better_cases b0 o) as [C1 [C2 C3]].
      split; [|split].
      + destruct H1 as [H1|[o' [Ho' H1]]].
        * destruct C1 as [C1|C1]; [left; congruence | right; exists o; split; [left; reflexivity | congruence]].
        * right. exists o'. split; [right; exact Ho' | exact H1].
      + lia.
      + intros o' [Ho'|Ho']; [subst; lia | apply H3, Ho'].
  Qed.

  Lemma matched_cons e M : matched (e :: M) = match snd e with Some t => t :: matched M | None => matched M end.
  Proof. unfold matched. cbn [flat_map]. destruct (snd e); reflexivity. Qed.

  Lemma matched_In t M : In t (matched M) <-> exists d, In (d, Some t) M.
  Proof.
    unfold matched. rewrite in_flat_map. split.
    - intros [[d o] [Hin Ht]]. cbn [snd] in Ht. destruct o as [t'|]; [|contradiction].
      destruct Ht as [Ht|[]]. subst. exists d. exact Hin.
    - intros [d Hin]. exists (d, Some t). split; [exact Hin | left; reflexivity].
  Qed.

  Lemma removeN_In x t l : In x (removeN t l) <-> In x l /\ x <> t.
  Proof.
    unfold removeN. rewrite filter_In. rewrite negb_true_iff. split; intros [H1 H2]; (split; [exact H1|]).
    - intro E. subst. rewrite N.eqb_refl in H2. discriminate.
    - apply N.eqb_neq. congruence.
  Qed.

  Lemma pm_value_cons e M : pm_value wf thr (e :: M) = pm_term wf thr e + pm_value wf thr M.
  Proof. reflexivity. Qed.

  Lemma bp_spec ds : forall ts,
    valid_pm ds ts (bpm (bp wf thr ds ts)) /\
    pm_value wf thr (bpm (bp wf thr ds ts)) = bval (bp wf thr ds ts) /\
    forall M, valid_pm ds ts M -> pm_value wf thr M <= bval (bp wf thr ds ts).
  Proof.
    induction ds as [|d ds IH]; intro ts.
    - cbn [bp]. unfold bpm, bval. cbn [fst snd]. split; [|split].
      + split; [reflexivity|]. split; [constructor | intros ? ? []].
      + reflexivity.
      + intros M [HM _]. destruct M; [cbn; lia | discriminate].
    - cbn [bp]. destruct (bp wf thr ds ts) as [[v0 m0] c0] eqn:E0.
      set (opts := flat_map _ ts).
      set (b0 := (v0 + thr, (d, None) :: m0, c0)).
      destruct (IH ts) as [V0 [P0 O0]]. rewrite E0 in V0, P0, O0. unfold bpm, bval in V0, P0, O0. cbn [fst snd] in V0, P0, O0.
      (* every option is a valid matching with its value *)
      assert (forall o, In o opts ->
                exists t x, In t ts /\ wf d t = Some x /\
                  bpm o = (d, Some t) :: bpm (bp wf thr ds (removeN t ts)) /\
                  bval o = bval (bp wf thr ds (removeN t ts)) + x) as Hopts.
      { intros o Ho. unfold opts in Ho. apply in_flat_map in Ho. destruct Ho as [t [Ht Ho]].
        destruct (wf d t) as [x|] eqn:Ew; [|contradiction].
        destruct (bp wf thr ds (removeN t ts)) as [[v m] c] eqn:Eb. destruct Ho as [Ho|[]]. subst o.
        exists t, x. unfold bpm, bval. rewrite Eb. cbn [fst snd]. repeat split; try reflexivity; assumption. }
      assert (valid_pm (d :: ds) ts (bpm b0) /\ pm_value wf thr (bpm b0) = bval b0) as Hb0.
      { unfold b0, bpm, bval. cbn [fst snd]. destruct V0 as [A [B C]]. split.
        - split; [cbn [map fst]; f_equal; exact A|]. split; [rewrite matched_cons; exact B|].
          intros d' t [H|H]; [discriminate | apply C, H].
        - rewrite pm_value_cons. unfold pm_term. cbn [snd]. lia. }
      assert (forall o, In o opts -> valid_pm (d :: ds) ts (bpm o) /\ pm_value wf thr (bpm o) = bval o) as Hval.
      { intros o Ho. destruct (Hopts o Ho) as [t [x [Ht [Ew [Em Ev]]]]].
        destruct (IH (removeN t ts)) as [[A [B C]] [P _]]. rewrite Em, Ev. split.
        - split; [cbn [map fst]; f_equal; exact A|]. split.
          + rewrite matched_cons. cbn [snd]. constructor; [|exact B].
            intro Hin. apply matched_In in Hin. destruct Hin as [d' Hin]. apply C in Hin.
            destruct Hin as [Hin _]. apply removeN_In in Hin. destruct Hin as [_ Hin]. congruence.
          + intros d' t' [H|H].
            * inversion H; subst. split; [exact Ht | congruence].
            * apply C in H. destruct H as [H1 H2]. apply removeN_In in H1. tauto.
        - rewrite pm_value_cons. unfold pm_term. cbn [fst snd]. rewrite Ew. lia. }
      destruct (fold_better_spec opts b0) as [F1 [F2 F3]].
      set (r := fold_left better opts b0) in *.
      assert (bpm r = bpm b0 /\ bval r = bval b0 \/ exists o, In o opts /\ bpm r = bpm o /\ bval r = bval o) as Hr.
      { unfold bpm, bval. destruct F1 as [F1|[o [Ho F1]]]; [left | right; exists o; split; [exact Ho|]]; rewrite F1; tauto. }
      split; [|split].
      + destruct Hr as [[E1 _]|[o [Ho [E1 _]]]]; rewrite E1; [apply Hb0 | apply Hval, Ho].
      + destruct Hr as [[E1 E2]|[o [Ho [E1 E2]]]]; rewrite E1, E2; [apply Hb0 | apply Hval, Ho].
      + intros M [HM [HN HC]]. destruct M as [|[d' o] M]; [discriminate|].
        cbn [map fst] in HM. injection HM as Hd HM'. subst d'.
        rewrite pm_value_cons. unfold pm_term. cbn [fst snd]. rewrite matched_cons in HN. cbn [snd] in HN.
        destruct o as [t|].
        * assert (In t ts /\ wf d t <> None) as [Ht Hw] by (apply HC; left; reflexivity).
          destruct (wf d t) as [x|] eqn:Ew; [|congruence].
          apply NoDup_cons_iff in HN. destruct HN as [Hnt HN'].
          assert (valid_pm ds (removeN t ts) M) as HV.
          { split; [exact HM'|]. split; [exact HN'|]. intros d' t' Hin.
            assert (In t' ts /\ wf d' t' <> None) as [H1 H2] by (apply HC; right; exact Hin).
            split; [|exact H2]. apply removeN_In. split; [exact H1|]. intro E. subst t'.
            apply Hnt. apply matched_In. exists d'. exact Hin. }
          destruct (IH (removeN t ts)) as [_ [_ O]]. specialize (O M HV).
          assert (exists o, In o opts /\ bval o = bval (bp wf thr ds (removeN t ts)) + x) as [o [Ho Eo]].
          { destruct (bp wf thr ds (removeN t ts)) as [[v m] c] eqn:Eb.
            exists (v + x, (d, Some t) :: m, c). split; [|reflexivity].
            unfold opts. apply in_flat_map. exists t. split; [exact Ht|]. rewrite Ew, Eb. left. reflexivity. }
          specialize (F3 o Ho). lia.
        * assert (valid_pm ds ts M) as HV.
          { split; [exact HM'|]. split; [exact HN|]. intros d' t' Hin. apply HC. right. exact Hin. }
          specialize (O0 M HV). unfold b0, bval in F2. cbn [fst] in F2. unfold bval. lia.
  Qed.
End BestPartial.

Lemma best_partial_optimal_lemma thr s M :
  valid_pm (lastw s) (froms s) (tos s) M ->
  pm_value (lastw s) thr M <= fst (fst (best_partial thr s)).
Proof. intro H. apply (bp_spec (lastw s) thr (froms s) (tos s)). exact H. Qed.

Lemma best_partial_attained_lemma thr s :
  valid_pm (lastw s) (froms s) (tos s) (snd (fst (best_partial thr s))) /\
  pm_value (lastw s) thr (snd (fst (best_partial thr s))) = fst (fst (best_partial thr s)).
Proof. destruct (bp_spec (lastw s) thr (froms s) (tos s)) as [H1 [H2 _]]. split; assumption. Qed.

(* ---------------------------------------------------------------------------------------------- *)
(* lists, matrices, indices *)
Local Open Scope nat_scope.

Lemma set_nth_length {A} i (x : A) l : length (set_nth i x l) = length l.
Proof. revert i. induction l as [|y l IH]; intros [|i]; cbn [set_nth length]; try reflexivity. rewrite IH. reflexivity. Qed.

Lemma nth_set_nth {A} i (x : A) l d k :
  nth k (set_nth i x l) d = if (k =? i) && (i <? length l) then x else nth k l d.
Proof.
  revert i k. induction l as [|y l IH]; intros i k.
  - cbn [length]. replace (i <? 0) with false by (symmetry; apply Nat.ltb_ge; lia). rewrite andb_false_r. destruct i; reflexivity.
  - destruct i as [|i], k as [|k]; cbn [set_nth nth length]; try reflexivity.
    rewrite IH. cbn [Nat.eqb]. replace (S i <? S (length l)) with (i <? length l); [reflexivity|].
    destruct (Nat.ltb_spec i (length l)), (Nat.ltb_spec (S i) (S (length l))); try reflexivity; lia.
Qed.

Definition dims (r c : nat) (m : matrix) : Prop := length m = r /\ forall i, i < r -> length (nth i m []) = c.

Lemma mset_dims r c m i j v : dims r c m -> dims r c (mset m i j v).
Proof.
  intros [Hr Hc]. unfold mset. split; [rewrite set_nth_length; exact Hr|].
  intros k Hk. rewrite nth_set_nth. destruct ((k =? i) && (i <? length m)) eqn:E; [|apply Hc, Hk].
  rewrite set_nth_length. apply andb_true_iff in E. destruct E as [E _]. apply Nat.eqb_eq in E. subst. apply Hc, Hk.
Qed.

Lemma mget_mset r c m i j v i' j' :
  dims r c m -> i < r -> j < c ->
  mget (mset m i j v) i' j' = if (i' =? i) && (j' =? j) then v else mget m i' j'.
Proof.
  intros [Hr Hc] Hi Hj. unfold mget, mset. rewrite nth_set_nth.
  destruct (Nat.eqb_spec i' i) as [E|E]; cbn [andb].
  - subst i'. replace (i <? length m) with true by (symmetry; apply Nat.ltb_lt; lia).
    rewrite nth_set_nth. rewrite (Hc i Hi). replace (j <? c) with true by (symmetry; apply Nat.ltb_lt; lia).
    rewrite andb_true_r. reflexivity.
  - reflexivity.
Qed.

Lemma mzero_dims r c : dims r c (mzero r c).
Proof.
  unfold mzero. split; [apply repeat_length|]. intros i Hi.
  rewrite (nth_indep _ [] (repeat 0%Z c)) by (rewrite repeat_length; exact Hi).
  rewrite nth_repeat. apply repeat_length.
Qed.

Lemma mget_mzero r c i j : mget (mzero r c) i j = 0%Z.
Proof.
  unfold mget, mzero. destruct (Nat.lt_ge_cases i r) as [Hi|Hi].
  - rewrite (nth_indep _ [] (repeat 0%Z c)) by (rewrite repeat_length; exact Hi). rewrite nth_repeat. apply nth_repeat.
  - rewrite (nth_overflow (repeat (repeat 0%Z c) r)) by (rewrite repeat_length; exact Hi). destruct j; reflexivity.
Qed.

Lemma index_of_Some x l i : index_of x l = Some i -> nth_error l i = Some x.
Proof.
  revert i. induction l as [|y l IH]; intros i H; cbn [index_of] in H; [discriminate|].
  destruct (N.eqb_spec x y).
  - inversion H. subst. reflexivity.
  - destruct (index_of x l) as [k|]; cbn [option_map] in H; [|discriminate]. inversion H. subst. cbn. apply IH. reflexivity.
Qed.

Lemma index_of_None x l : index_of x l = None <-> ~ In x l.
Proof.
  induction l as [|y l IH]; cbn [index_of In]; [tauto|].
  destruct (N.eqb_spec x y).
  - split; [discriminate | intro H; exfalso; apply H; left; congruence].
  - destruct (index_of x l); cbn [option_map].
    + split; [discriminate|]. intro H. exfalso. assert (~ In x l) as H' by tauto. apply IH in H'. discriminate.
    + split; [|reflexivity]. intros _ [H|H]; [congruence|]. apply IH in H; [exact H | reflexivity].
Qed.

Lemma index_of_In x l : In x l -> exists i, index_of x l = Some i.
Proof.
  intro H. destruct (index_of x l) as [i|] eqn:E; [exists i; reflexivity|]. apply index_of_None in E. contradiction.
Qed.

Lemma index_of_app_l x l l' i : index_of x l = Some i -> index_of x (l ++ l') = Some i.
Proof.
  revert i. induction l as [|y l IH]; intros i H; cbn [index_of app] in *; [discriminate|].
  destruct (x =? y)%N; [exact H|].
  destruct (index_of x l) as [k|]; cbn [option_map] in H; [|discriminate].
  rewrite (IH k eq_refl). exact H.
Qed.

Lemma index_of_snoc_new x l : ~ In x l -> index_of x (l ++ [x]) = Some (length l).
Proof.
  induction l as [|y l IH]; intro H; cbn [index_of app length].
  - rewrite N.eqb_refl. reflexivity.
  - destruct (N.eqb_spec x y); [exfalso; apply H; left; congruence|].
    rewrite IH; [reflexivity | intro; apply H; right; assumption].
Qed.

Lemma index_of_nth_NoDup l : NoDup l -> forall i x, nth_error l i = Some x -> index_of x l = Some i.
Proof.
  induction 1 as [|y l Hy Hnd IH]; intros i x H; [destruct i; discriminate|].
  destruct i as [|i]; cbn [nth_error] in H; cbn [index_of].
  - inversion H. subst. rewrite N.eqb_refl. reflexivity.
  - destruct (N.eqb_spec x y); [subst; exfalso; apply Hy; eapply nth_error_In; exact H|].
    rewrite (IH i x H). reflexivity.
Qed.

Lemma existsb_Neqb_In x l : existsb (N.eqb x) l = true <-> In x l.
Proof.
  rewrite existsb_exists. split.
  - intros [y [Hy E]]. apply N.eqb_eq in E. subst. exact Hy.
  - intro H. exists x. split; [exact H | apply N.eqb_refl].
Qed.

Lemma add_id_cases acc x : (In x acc /\ add_id acc x = acc) \/ (~ In x acc /\ add_id acc x = acc ++ [x]).
Proof.
  unfold add_id. destruct (existsb (N.eqb x) acc) eqn:E.
  - left. split; [apply existsb_Neqb_In, E | reflexivity].
  - right. split; [|reflexivity]. intro H. apply existsb_Neqb_In in H. congruence.
Qed.

Lemma add_id_In acc x y : In y (add_id acc x) <-> In y acc \/ y = x.
Proof.
  destruct (add_id_cases acc x) as [[H E]|[H E]]; rewrite E.
  - split; [tauto|]. intros [H'|H']; [exact H' | subst; exact H].
  - rewrite in_app_iff. cbn [In]. split; [intros [?|[?|[]]]; [left | right]; congruence + assumption | intros [?|?]; [left | right; left]; congruence + assumption].
Qed.

Lemma NoDup_app_snoc {A} (l : list A) x : NoDup l -> ~ In x l -> NoDup (l ++ [x]).
Proof.
  induction l as [|y l IH]; intros Hn Hx; cbn [app]; [constructor; [intros [] | constructor]|].
  inversion Hn as [|? ? Hy Hn']; subst. constructor.
  - rewrite in_app_iff. cbn [In]. intros [H|[H|[]]]; [contradiction | subst; apply Hx; left; reflexivity].
  - apply IH; [exact Hn' | intro; apply Hx; right; assumption].
Qed.

Lemma add_id_NoDup acc x : NoDup acc -> NoDup (add_id acc x).
Proof.
  intro Hn. destruct (add_id_cases acc x) as [[H E]|[H E]]; rewrite E; [exact Hn|].
  apply NoDup_app_snoc; assumption.
Qed.

Lemma addl_In xs : forall acc y, In y (addl xs acc) <-> In y acc \/ In y xs.
Proof.
  unfold addl. induction xs as [|x xs IH]; intros acc y; cbn [fold_left In]; [tauto|].
  rewrite IH, add_id_In. split; [intros [[?|?]|?] | intros [?|[?|?]]]; subst; tauto.
Qed.

Lemma addl_NoDup xs : forall acc, NoDup acc -> NoDup (addl xs acc).
Proof.
  unfold addl. induction xs as [|x xs IH]; intros acc H; cbn [fold_left]; [exact H|]. apply IH, add_id_NoDup, H.
Qed.

Lemma add_id_prefix acc x : exists ext, add_id acc x = acc ++ ext.
Proof.
  destruct (add_id_cases acc x) as [[_ E]|[_ E]]; rewrite E; [exists []; rewrite app_nil_r; reflexivity | exists [x]; reflexivity].
Qed.

Lemma addl_prefix xs : forall acc, exists ext, addl xs acc = acc ++ ext.
Proof.
  unfold addl. induction xs as [|x xs IH]; intro acc; cbn [fold_left]; [exists []; rewrite app_nil_r; reflexivity|].
  destruct (add_id_prefix acc x) as [e1 E1]. destruct (IH (add_id acc x)) as [e2 E2].
  exists (e1 ++ e2). rewrite E2, E1, app_assoc. reflexivity.
Qed.

Lemma addl_index_stable xs acc x i : index_of x acc = Some i -> index_of x (addl xs acc) = Some i.
Proof.
  intro H. destruct (addl_prefix xs acc) as [ext E]. rewrite E. apply index_of_app_l, H.
Qed.

Lemma addl_cons x xs acc : addl (x :: xs) acc = addl xs (add_id acc x).
Proof. reflexivity. Qed.

Ltac splits := repeat match goal with |- _ /\ _ => split end.

(* ---------------------------------------------------------------------------------------------- *)
(* pad_matrix: what the loop computes *)
Fixpoint lastcell (n : nat) (F T : list N) (s : pairs) (i j : nat) : option Z :=
  match s with
  | [] => None
  | p :: r =>
      match lastcell n F T r i j with
      | Some w => Some w
      | None =>
          match index_of (p_from p) F, index_of (p_to p) T with
          | Some a, Some b => if (i =? a) && (j =? n + b) then Some (p_w p) else None
          | _, _ => None
          end
      end
  end.

Lemma pad_step_spec n cols st p st' :
  pad_step n cols st p = Some st' ->
  ~ In (p_to p) (add_id (ps_F st) (p_from p)) ->
  ps_F st' = add_id (ps_F st) (p_from p) /\ ps_T st' = add_id (ps_T st) (p_to p) /\
  p_from p <> 0%N /\ p_to p <> 0%N /\
  exists row col, index_of (p_from p) (ps_F st') = Some row /\ index_of (p_to p) (ps_T st') = Some col /\
                  row < n /\ col < cols /\ ps_m st' = mset (ps_m st) row (n + col) (p_w p) /\
                  (length (ps_F st) <= n -> length (ps_F st') <= n) /\ length (ps_T st') <= S (Nat.max col (length (ps_T st) - 1)).
Proof.
  unfold pad_step. set (f := p_from p). set (t := p_to p). set (F := ps_F st). set (T := ps_T st).
  destruct (N.eqb_spec f 0) as [Ef|Ef]; cbn [orb]; [discriminate|].
  destruct (N.eqb_spec t 0) as [Et|Et]; [discriminate|].
  unfold r_index at 1.
  destruct (index_of f F) as [r|] eqn:EF.
  - (* known detection *)
    assert (In f F) as HfF by (eapply nth_error_In, index_of_Some, EF).
    destruct (add_id_cases F f) as [[_ EA]|[HA _]]; [|contradiction]. rewrite EA.
    intros H Hnt. unfold r_index in H.
    assert (index_of t F = None) as EtF by (apply index_of_None; exact Hnt). rewrite EtF in H.
    destruct (index_of t T) as [c|] eqn:ET; cbn [option_map] in H.
    + assert (In t T) as HtT by (eapply nth_error_In, index_of_Some, ET).
      destruct (add_id_cases T t) as [[_ EB]|[HB _]]; [|contradiction]. rewrite EB.
      destruct (r <? n) eqn:Er; cbn [andb] in H; [|discriminate].
      destruct (n + c <? n + cols) eqn:Ec; [|discriminate]. inversion H; subst st'; cbn [ps_F ps_T ps_m].
      apply Nat.ltb_lt in Er, Ec. repeat split; try assumption. exists r, c. repeat split; try assumption; try lia.
      all: try (assert (c < length T) by (apply nth_error_Some; rewrite (index_of_Some _ _ _ ET); discriminate); lia).
    + assert (~ In t T) as HtT by (apply index_of_None, ET).
      destruct (add_id_cases T t) as [[HB _]|[_ EB]]; [contradiction|]. rewrite EB.
      destruct (r <? n) eqn:Er; cbn [andb] in H; [|discriminate].
      destruct (n + length T <? n + cols) eqn:Ec; [|discriminate]. inversion H; subst st'; cbn [ps_F ps_T ps_m].
      apply Nat.ltb_lt in Er, Ec. repeat split; try assumption. exists r, (length T).
      rewrite index_of_snoc_new by exact HtT. repeat split; try assumption; try lia.
      all: try (rewrite app_length; cbn [length]; lia).
  - assert (~ In f F) as HfF by (apply index_of_None, EF).
    destruct (add_id_cases F f) as [[HA _]|[_ EA]]; [contradiction|]. rewrite EA.
    destruct (index_of f T) as [c0|] eqn:EfT; cbn [option_map].
    + (* `from` collides with a track id: row >= n *)
      intros H _. exfalso.
      destruct (r_index n F T t) as [c|]; cbn [fst snd] in H;
        (replace (n + c0 <? n) with false in H by (symmetry; apply Nat.ltb_ge; lia)); cbn [andb] in H; discriminate.
    + destruct (length F <? n) eqn:El; [|discriminate].
      intros H Hnt. unfold r_index in H.
      assert (index_of t (F ++ [f]) = None) as EtF by (apply index_of_None; exact Hnt). rewrite EtF in H.
      apply Nat.ltb_lt in El.
      destruct (index_of t T) as [c|] eqn:ET; cbn [option_map] in H.
      * assert (In t T) as HtT by (eapply nth_error_In, index_of_Some, ET).
        destruct (add_id_cases T t) as [[_ EB]|[HB _]]; [|contradiction]. rewrite EB.
        replace (length F <? n) with true in H by (symmetry; apply Nat.ltb_lt; exact El). cbn [andb] in H.
        destruct (n + c <? n + cols) eqn:Ec; [|discriminate]. inversion H; subst st'; cbn [ps_F ps_T ps_m].
        apply Nat.ltb_lt in Ec. repeat split; try assumption. exists (length F), c.
        rewrite index_of_snoc_new by exact HfF. repeat split; try assumption; try lia.
        all: try (rewrite app_length; cbn [length]; lia).
        all: try (assert (c < length T) by (apply nth_error_Some; rewrite (index_of_Some _ _ _ ET); discriminate); lia).
      * assert (~ In t T) as HtT by (apply index_of_None, ET).
        destruct (add_id_cases T t) as [[HB _]|[_ EB]]; [contradiction|]. rewrite EB.
        replace (length F <? n) with true in H by (symmetry; apply Nat.ltb_lt; exact El). cbn [andb] in H.
        destruct (n + length T <? n + cols) eqn:Ec; [|discriminate]. inversion H; subst st'; cbn [ps_F ps_T ps_m].
        apply Nat.ltb_lt in Ec. repeat split; try assumption. exists (length F), (length T).
        rewrite !index_of_snoc_new by assumption. repeat split; try assumption; try lia.
        all: try (rewrite !app_length; cbn [length]; lia).
Qed.

Lemma pad_run_spec n cols s : forall st st',
  pad_run n cols st s = Some st' ->
  dims n (n + cols) (ps_m st) -> length (ps_F st) <= n -> length (ps_T st) <= cols ->
  (forall p, In p s -> ~ In (p_to p) (addl (map p_from s) (ps_F st))) ->
  ps_F st' = addl (map p_from s) (ps_F st) /\ ps_T st' = addl (map p_to s) (ps_T st) /\
  dims n (n + cols) (ps_m st') /\ length (ps_F st') <= n /\ length (ps_T st') <= cols /\
  (forall p, In p s -> p_from p <> 0%N /\ p_to p <> 0%N) /\
  forall i j, i < n -> j < n + cols ->
    mget (ps_m st') i j = match lastcell n (ps_F st') (ps_T st') s i j with
                          | Some w => w
                          | None => mget (ps_m st) i j
                          end.
Proof.
  induction s as [|p r IH]; intros st st' Hrun Hd HF HT Hdisj.
  - cbn [pad_run] in Hrun. inversion Hrun; subst st'. cbn [map addl fold_left lastcell].
    splits; try assumption; try (intros ? []); try (intros; reflexivity).
  - cbn [pad_run] in Hrun. destruct (pad_step n cols st p) as [st1|] eqn:Es; [|discriminate].
    rewrite !map_cons, !addl_cons in *.
    assert (~ In (p_to p) (add_id (ps_F st) (p_from p))) as Hnt.
    { intro H. apply (Hdisj p (or_introl eq_refl)). apply addl_In. left. exact H. }
    destruct (pad_step_spec _ _ _ _ _ Es Hnt) as [EF1 [ET1 [Hf0 [Ht0 [row [col [Ir [Ic [Hr [Hc [Em [HF1 HT1]]]]]]]]]]]].
    assert (dims n (n + cols) (ps_m st1)) as Hd1 by (rewrite Em; apply mset_dims, Hd).
    assert (length (ps_T st1) <= cols) as HT1' by lia.
    destruct (IH st1 st' Hrun Hd1 (HF1 HF) HT1') as [EF [ET [Hd' [HF' [HT' [Hnz Hcell]]]]]].
    { intros p' Hp'. rewrite EF1. apply Hdisj. right. exact Hp'. }
    rewrite <- EF1, <- ET1. splits; try assumption.
    + intros p' [H|H]; [subst; split; assumption | apply (Hnz _ H)].
    + intros i j Hi Hj. rewrite (Hcell i j Hi Hj). cbn [lastcell].
      destruct (lastcell n (ps_F st') (ps_T st') r i j) as [w|]; [reflexivity|].
      rewrite EF, ET. rewrite (addl_index_stable _ _ _ _ Ir), (addl_index_stable _ _ _ _ Ic).
      rewrite Em. rewrite (mget_mset n (n + cols)); [destruct ((i =? row) && (j =? n + col)); reflexivity | exact Hd | exact Hr | lia].
Qed.

Lemma set_diag_spec thr n c m :
  dims n c m -> n <= c ->
  dims n c (set_diag thr n m) /\
  forall i j, i < n -> mget (set_diag thr n m) i j = if i =? j then thr else mget m i j.
Proof.
  intros Hd Hnc. unfold set_diag.
  assert (forall l m0, dims n c m0 -> (forall k, In k l -> k < n) ->
            dims n c (fold_left (fun m i => mset m i i thr) l m0) /\
            forall i j, mget (fold_left (fun m i => mset m i i thr) l m0) i j
                        = if (i =? j) && existsb (Nat.eqb i) l then thr else mget m0 i j) as H.
  { induction l as [|k l IH]; intros m0 Hd0 Hl; cbn [fold_left existsb].
    - split; [exact Hd0|]. intros. rewrite andb_false_r. reflexivity.
    - assert (k < n) as Hk by (apply Hl; left; reflexivity).
      destruct (IH (mset m0 k k thr)) as [D C]; [apply mset_dims, Hd0 | intros; apply Hl; right; assumption|].
      split; [exact D|]. intros i j. rewrite C. rewrite (mget_mset n c); [|exact Hd0 | exact Hk | lia].
      destruct (Nat.eqb_spec i j) as [E|E]; cbn [andb]; [|destruct (Nat.eqb_spec i k), (Nat.eqb_spec j k); cbn [andb]; try reflexivity; lia].
      subst j. destruct (existsb (Nat.eqb i) l); [rewrite orb_true_r; reflexivity|].
      rewrite orb_false_r. destruct (i =? k); reflexivity. }
  destruct (H (seq 0 n) m Hd) as [D C]; [intros k Hk; apply in_seq in Hk; lia|].
  split; [exact D|]. intros i j Hi. rewrite C.
  replace (existsb (Nat.eqb i) (seq 0 n)) with true; [rewrite andb_true_r; reflexivity|].
  symmetry. apply existsb_exists. exists i. split; [apply in_seq; lia | apply Nat.eqb_refl].
Qed.

Definition ids_disj (s : pairs) : Prop := forall p p', In p s -> In p' s -> p_from p <> p_to p'.

Lemma froms_In s x : In x (froms s) <-> exists p, In p s /\ p_from p = x.
Proof.
  unfold froms. rewrite addl_In, in_map_iff. cbn [In]. split; [intros [[]|[p [E H]]]; exists p; tauto | intros [p [H E]]; right; exists p; tauto].
Qed.

Lemma tos_In s x : In x (tos s) <-> exists p, In p s /\ p_to p = x.
Proof.
  unfold tos. rewrite addl_In, in_map_iff. cbn [In]. split; [intros [[]|[p [E H]]]; exists p; tauto | intros [p [H E]]; right; exists p; tauto].
Qed.

Lemma froms_NoDup s : NoDup (froms s).
Proof. apply addl_NoDup. constructor. Qed.
Lemma tos_NoDup s : NoDup (tos s).
Proof. apply addl_NoDup. constructor. Qed.

(* the declarative reading of the padded matrix *)
Definition spec_cell (thr : Z) (n : nat) (s : pairs) (i j : nat) : Z :=
  if i =? j then thr
  else match lastcell n (froms s) (tos s) s i j with Some w => w | None => 0%Z end.

Lemma pad_matrix_spec thr n cols s m idx :
  pad_matrix thr n cols s = Some (m, idx) -> ids_disj s ->
  idx = tracks_index n (froms s) (tos s) /\ length (froms s) <= n /\ length (tos s) <= cols /\
  dims n (n + cols) m /\ (forall p, In p s -> p_from p <> 0%N /\ p_to p <> 0%N) /\
  forall i j, i < n -> j < n + cols -> mget m i j = spec_cell thr n s i j.
Proof.
  unfold pad_matrix. intros H Hdisj.
  destruct (pad_run n cols _ s) as [st|] eqn:Er; [|discriminate]. inversion H; subst m idx. clear H.
  destruct (pad_run_spec n cols s _ _ Er) as [EF [ET [Hd [HF [HT [Hnz Hcell]]]]]]; cbn [ps_F ps_T ps_m length].
  - apply mzero_dims.
  - lia.
  - lia.
  - intros p Hp Hin. apply (froms_In s) in Hin. destruct Hin as [p' [Hp' E]]. apply (Hdisj p' p Hp' Hp). exact E.
  - cbn [ps_F ps_T ps_m] in *. fold (froms s) in EF. fold (tos s) in ET. rewrite EF, ET in *.
    destruct (set_diag_spec thr n (n + cols) (ps_m st) Hd ltac:(lia)) as [D C].
    splits; try assumption; try reflexivity.
    intros i j Hi Hj. rewrite (C i j Hi). unfold spec_cell. destruct (i =? j); [reflexivity|].
    rewrite (Hcell i j Hi Hj). rewrite mget_mzero. reflexivity.
Qed.

Lemma lastcell_lastw n F T s i b f t :
  NoDup F -> NoDup T -> nth_error F i = Some f -> nth_error T b = Some t ->
  lastcell n F T s i (n + b) = lastw s f t.
Proof.
  intros HF HT Hf Ht. induction s as [|p r IH]; [reflexivity|].
  cbn [lastcell lastw]. rewrite IH. destruct (lastw r f t); [reflexivity|].
  destruct (N.eqb_spec (p_from p) f) as [Ef|Ef]; cbn [andb].
  - rewrite Ef, (index_of_nth_NoDup F HF i f Hf).
    destruct (N.eqb_spec (p_to p) t) as [Et|Et].
    + rewrite Et, (index_of_nth_NoDup T HT b t Ht). rewrite !Nat.eqb_refl. reflexivity.
    + destruct (index_of (p_to p) T) as [b'|] eqn:Eb; [|reflexivity].
      destruct (Nat.eqb_spec (n + b) (n + b')) as [E|E]; [|rewrite andb_false_r; reflexivity].
      exfalso. assert (b = b') by lia. subst b'. apply index_of_Some in Eb. congruence.
  - destruct (index_of (p_from p) F) as [a|] eqn:Ea; [|reflexivity].
    destruct (index_of (p_to p) T) as [b'|]; [|reflexivity].
    destruct (Nat.eqb_spec i a) as [E|E]; [|reflexivity].
    exfalso. subst a. apply index_of_Some in Ea. congruence.
Qed.

Lemma lastcell_Some_inv n F T s i j : forall w,
  lastcell n F T s i j = Some w ->
  exists f t b, j = n + b /\ nth_error F i = Some f /\ nth_error T b = Some t.
Proof.
  induction s as [|p r IH]; intro w; cbn [lastcell]; [discriminate|].
  destruct (lastcell n F T r i j) as [w'|]; [intros _; apply (IH w'); reflexivity|].
  destruct (index_of (p_from p) F) as [a|] eqn:Ea; [|discriminate].
  destruct (index_of (p_to p) T) as [b|] eqn:Eb; [|discriminate].
  destruct (Nat.eqb_spec i a); cbn [andb]; [|discriminate].
  destruct (Nat.eqb_spec j (n + b)); [|discriminate]. intros _. subst.
  exists (p_from p), (p_to p), b. splits; [reflexivity | apply index_of_Some, Ea | apply index_of_Some, Eb].
Qed.

Lemma lastw_Some_In s f t : forall w, lastw s f t = Some w -> exists p, In p s /\ p_from p = f /\ p_to p = t.
Proof.
  induction s as [|p r IH]; intro w; cbn [lastw]; [discriminate|].
  destruct (lastw r f t) as [w'|].
  - intros _. destruct (IH w' eq_refl) as [p' [H1 H2]]. exists p'. split; [right; exact H1 | exact H2].
  - destruct (N.eqb_spec (p_from p) f); cbn [andb]; [|discriminate].
    destruct (N.eqb_spec (p_to p) t); [|discriminate]. intros _. exists p. split; [left; reflexivity | tauto].
Qed.

Lemma ncols_dims n c m : dims n c m -> 0 < n -> ncols m = c.
Proof.
  intros [Hr Hc] Hn. unfold ncols. specialize (Hc 0 Hn). destruct m; [cbn in Hr; lia | exact Hc].
Qed.

Lemma NoDup_map_inj_on {A B} (g : A -> B) l :
  NoDup l -> (forall x y, In x l -> In y l -> g x = g y -> x = y) -> NoDup (map g l).
Proof.
  induction 1 as [|a l Ha Hnd IH]; intro Hinj; cbn [map]; constructor.
  - intro Hin. apply in_map_iff in Hin. destruct Hin as [y [E Hy]].
    assert (y = a) by (apply Hinj; [right; exact Hy | left; reflexivity | exact E]). subst. contradiction.
  - apply IH. intros x y Hx Hy. apply Hinj; right; assumption.
Qed.

Lemma fold_right_zsum {A} (h : A -> Z) (l : list A) d :
  fold_right (fun e acc => (h e + acc)%Z) 0%Z l = zsum (fun i => h (nth i l d)) (seq 0 (length l)).
Proof.
  induction l as [|x l IH]; [reflexivity|].
  cbn [fold_right length seq]. rewrite zsum_cons. cbn [nth]. rewrite IH.
  rewrite <- seq_shift, zsum_map. reflexivity.
Qed.

Lemma nth_map_seq (g : nat -> nat) n i : i < n -> nth i (map g (seq 0 n)) O = g i.
Proof.
  intro Hi. rewrite (nth_indep _ O (g O)); [|rewrite map_length, seq_length; exact Hi].
  rewrite map_nth, seq_nth by exact Hi. reflexivity.
Qed.

Lemma flat_map_nil {A B} (f : A -> list B) l : (forall x, In x l -> f x = []) -> flat_map f l = [].
Proof.
  induction l as [|x l IH]; intro H; [reflexivity|]. cbn [flat_map].
  rewrite (H x) by (left; reflexivity). rewrite IH; [reflexivity | intros; apply H; right; assumption].
Qed.

Lemma flat_map_map_in {A B} (f : A -> list B) (g : A -> B) l :
  (forall x, In x l -> f x = [g x]) -> flat_map f l = map g l.
Proof.
  induction l as [|x l IH]; intro H; [reflexivity|]. cbn [flat_map map].
  rewrite (H x) by (left; reflexivity). rewrite IH; [reflexivity | intros; apply H; right; assumption].
Qed.

Lemma seq_split n k : k <= n -> seq 0 n = seq 0 k ++ seq k (n - k).
Proof. intro H. replace n with (k + (n - k)) at 1 by lia. apply seq_app. Qed.

(* ---------------------------------------------------------------------------------------------- *)
(* optimal assignments of the padded matrix *)
Section Padded.
  Variables (thr : Z) (n cols : nat) (s : pairs) (m : matrix).
  Hypothesis Hthr : (0 < thr)%Z.
  Hypothesis Hdisj : ids_disj s.
  Hypothesis Hnz : forall p, In p s -> p_from p <> 0%N /\ p_to p <> 0%N.
  Hypothesis HF : length (froms s) <= n.
  Hypothesis HT : length (tos s) <= cols.
  Hypothesis Hd : dims n (n + cols) m.
  Hypothesis Hcell : forall i j, i < n -> j < n + cols -> mget m i j = spec_cell thr n s i j.

  Let F := froms s.
  Let T := tos s.
  Let k := length F.

  Lemma cell_diag i : i < n -> mget m i i = thr.
  Proof. intro Hi. rewrite Hcell by lia. unfold spec_cell. rewrite Nat.eqb_refl. reflexivity. Qed.

  Lemma cell_left i j : i < n -> j < n -> i <> j -> mget m i j = 0%Z.
  Proof.
    intros Hi Hj Hij. rewrite Hcell by lia. unfold spec_cell.
    destruct (Nat.eqb_spec i j); [contradiction|].
    destruct (lastcell n (froms s) (tos s) s i j) as [w|] eqn:E; [|reflexivity].
    destruct (lastcell_Some_inv _ _ _ _ _ _ _ E) as [f [t [b [Ej _]]]]. lia.
  Qed.

  Lemma cell_right i b f t :
    nth_error F i = Some f -> nth_error T b = Some t -> b < cols ->
    mget m i (n + b) = match lastw s f t with Some w => w | None => 0%Z end.
  Proof.
    intros Hf Ht Hb.
    assert (i < k) as Hi by (apply nth_error_Some; rewrite Hf; discriminate). unfold k, F in Hi.
    rewrite Hcell by lia. unfold spec_cell. destruct (Nat.eqb_spec i (n + b)); [lia|].
    rewrite (lastcell_lastw n _ _ s i b f t (froms_NoDup s) (tos_NoDup s) Hf Ht). reflexivity.
  Qed.

  Lemma cell_nonzero i j :
    i < n -> j < n + cols -> i <> j -> mget m i j <> 0%Z ->
    exists f t b w, j = n + b /\ nth_error F i = Some f /\ nth_error T b = Some t /\
                    lastw s f t = Some w /\ mget m i j = w.
  Proof.
    intros Hi Hj Hij Hne. rewrite Hcell in * by lia. unfold spec_cell in *.
    destruct (Nat.eqb_spec i j); [contradiction|].
    destruct (lastcell n (froms s) (tos s) s i j) as [w|] eqn:E; [|congruence].
    destruct (lastcell_Some_inv _ _ _ _ _ _ _ E) as [f [t [b [Ej [Hf Ht]]]]]. subst j.
    exists f, t, b, w. splits; try assumption; try reflexivity.
    rewrite (lastcell_lastw n _ _ s i b f t (froms_NoDup s) (tos_NoDup s) Hf Ht) in E. exact E.
  Qed.

  Lemma F_T_disjoint f : In f F -> In f T -> False.
  Proof.
    intros H1 H2. apply froms_In in H1. apply tos_In in H2.
    destruct H1 as [p [Hp Ep]], H2 as [p' [Hp' Ep']]. apply (Hdisj p p' Hp Hp'). congruence.
  Qed.

  Lemma F_nonzero f : In f F -> f <> 0%N.
  Proof. intro H. apply froms_In in H. destruct H as [p [Hp E]]. subst. apply Hnz, Hp. Qed.
  Lemma T_nonzero t : In t T -> t <> 0%N.
  Proof. intro H. apply tos_In in H. destruct H as [p [Hp E]]. subst. apply Hnz, Hp. Qed.

  (* --- normal form --- *)
  Definition keep (a : list nat) (i : nat) : bool :=
    (n <=? nth i a O) && (thr <=? mget m i (nth i a O))%Z.
  Definition norm (a : list nat) : list nat :=
    map (fun i => if keep a i then nth i a O else i) (seq 0 n).

  Lemma nth_norm a i : i < n -> nth i (norm a) O = if keep a i then nth i a O else i.
  Proof.
    intro Hi. unfold norm. apply (nth_map_seq (fun i => if keep a i then nth i a O else i) n i Hi).
  Qed.

  Lemma norm_assignment a : is_assignment n (n + cols) a -> is_assignment n (n + cols) (norm a).
  Proof.
    intros [Hl [Hnd Hr]]. unfold is_assignment. splits.
    - unfold norm. rewrite map_length, seq_length. reflexivity.
    - unfold norm. apply NoDup_map_inj_on; [apply seq_NoDup|].
      intros x y Hx Hy E. apply in_seq in Hx, Hy.
      destruct (keep a x) eqn:Kx, (keep a y) eqn:Ky.
      + rewrite (NoDup_nth a O) in Hnd. apply Hnd; [lia | lia | exact E].
      + unfold keep in Kx. apply andb_true_iff in Kx. destruct Kx as [Kx _]. apply Nat.leb_le in Kx. lia.
      + unfold keep in Ky. apply andb_true_iff in Ky. destruct Ky as [Ky _]. apply Nat.leb_le in Ky. lia.
      + exact E.
    - intros j Hj. unfold norm in Hj. apply in_map_iff in Hj. destruct Hj as [i [E Hi]]. apply in_seq in Hi.
      destruct (keep a i); subst j; [apply Hr, nth_In; lia | lia].
  Qed.

  Lemma norm_pointwise a i :
    is_assignment n (n + cols) a -> i < n ->
    (mget m i (nth i a O) <= mget m i (nth i (norm a) O))%Z /\
    (mget m i (nth i a O) = mget m i (nth i (norm a) O) ->
     nth i a O = i \/ (n <= nth i a O /\ (thr <= mget m i (nth i a O))%Z)).
  Proof.
    intros [Hl [Hnd Hr]] Hi. rewrite (nth_norm a i Hi).
    assert (nth i a O < n + cols) as Hj by (apply Hr, nth_In; lia).
    destruct (keep a i) eqn:K.
    - unfold keep in K. apply andb_true_iff in K. destruct K as [K1 K2]. apply Nat.leb_le in K1. apply Z.leb_le in K2.
      split; [lia | intros _; right; split; assumption].
    - rewrite (cell_diag i Hi).
      destruct (Nat.eq_dec (nth i a O) i) as [E|E]; [rewrite E, (cell_diag i Hi); split; [lia | intros _; left; reflexivity]|].
      destruct (Nat.lt_ge_cases (nth i a O) n) as [Hlt|Hge].
      + rewrite (cell_left i _ Hi Hlt) by lia. split; lia.
      + unfold keep in K. apply andb_false_iff in K. destruct K as [K|K]; [apply Nat.leb_gt in K; lia|].
        apply Z.leb_gt in K. split; lia.
  Qed.

  Lemma aweight_index a : aweight m a = zsum (fun i => mget m i (nth i a O)) (seq 0 n).
  Proof. unfold aweight. destruct Hd as [Hr _]. rewrite Hr. reflexivity. Qed.

  Lemma is_assignment_cols a : 0 < n -> (is_assignment (length m) (ncols m) a <-> is_assignment n (n + cols) a).
  Proof. intro Hn. rewrite (ncols_dims _ _ _ Hd Hn). destruct Hd as [Hr _]. rewrite Hr. tauto. Qed.

  Lemma optimal_normal a :
    is_assignment n (n + cols) a -> optimal m a ->
    forall i, i < n -> nth i a O = i \/ (n <= nth i a O /\ (thr <= mget m i (nth i a O))%Z).
  Proof.
    intros Ha Hopt i Hi.
    assert (0 < n) as Hn by lia.
    pose proof (norm_assignment a Ha) as Hna.
    assert (aweight m (norm a) <= aweight m a)%Z as H1 by (apply Hopt, is_assignment_cols; assumption).
    rewrite !aweight_index in H1.
    assert (zsum (fun i => mget m i (nth i a O)) (seq 0 n) <= zsum (fun i => mget m i (nth i (norm a) O)) (seq 0 n))%Z as H2.
    { apply zsum_le. intros x Hx. apply in_seq in Hx. apply norm_pointwise; [exact Ha | lia]. }
    assert (mget m i (nth i a O) = mget m i (nth i (norm a) O)) as E.
    { apply (zsum_eq_pointwise (fun i => mget m i (nth i a O)) (fun i => mget m i (nth i (norm a) O)) (seq 0 n)); [|lia | apply in_seq; lia].
      intros x Hx. apply in_seq in Hx. apply norm_pointwise; [exact Ha | lia]. }
    apply (norm_pointwise a i Ha Hi), E.
  Qed.

  (* rows without a detection sit on their own column *)
  Lemma optimal_empty_rows a :
    is_assignment n (n + cols) a -> optimal m a -> forall i, k <= i < n -> nth i a O = i.
  Proof.
    intros Ha Hopt i [Hk Hi]. destruct (optimal_normal a Ha Hopt i Hi) as [E|[Hge Hw]]; [exact E|].
    exfalso. assert (nth i a O < n + cols) as Hj by (destruct Ha as [Hl [_ Hr]]; apply Hr, nth_In; lia).
    assert (mget m i (nth i a O) <> 0%Z) as Hne by lia.
    destruct (cell_nonzero i _ Hi Hj ltac:(lia) Hne) as [f [t [b [w [_ [Hf _]]]]]].
    assert (i < k) by (apply nth_error_Some; rewrite Hf; discriminate). lia.
  Qed.

  (* --- decoding --- *)
  Definition idx : list N := tracks_index n F T.

  Lemma idx_length : length idx = n + length T.
  Proof. unfold idx, tracks_index. rewrite !app_length, repeat_length. fold k. unfold k, F. lia. Qed.

  Lemma idx_F i : i < k -> nth i idx 0%N = nth i F 0%N.
  Proof. intro Hi. unfold idx, tracks_index. rewrite app_nth1 by exact Hi. reflexivity. Qed.

  Lemma idx_zero i : k <= i < n -> nth i idx 0%N = 0%N.
  Proof.
    intros [H1 H2]. unfold idx, tracks_index. rewrite app_nth2 by exact H1. fold k.
    rewrite app_nth1 by (rewrite repeat_length; lia). apply nth_repeat.
  Qed.

  Lemma idx_T b : nth (n + b) idx 0%N = nth b T 0%N.
  Proof.
    unfold idx, tracks_index. rewrite app_nth2 by (fold k; unfold k, F; lia). fold k.
    rewrite app_nth2 by (rewrite repeat_length; unfold k, F; lia). rewrite repeat_length.
    f_equal. unfold k, F. lia.
  Qed.

  Lemma nth_F_In i : i < k -> In (nth i F 0%N) F.
  Proof. intro Hi. apply nth_In. exact Hi. Qed.

  Definition wentry (a : list nat) (i : nat) : N * N :=
    (nth i F 0%N, if nth i a O =? i then nth i F 0%N else nth (nth i a O - n) T 0%N).

  Definition normal (a : list nat) : Prop :=
    forall i, i < n -> nth i a O = i \/ (n <= nth i a O /\ (thr <= mget m i (nth i a O))%Z).

  (* a row that sits on a gated edge: the edge is a stream pair with that weight *)
  Lemma normal_right a i :
    is_assignment n (n + cols) a -> normal a -> i < n -> nth i a O <> i ->
    exists f t b w, nth i a O = n + b /\ nth_error F i = Some f /\ nth_error T b = Some t /\
                    lastw s f t = Some w /\ mget m i (nth i a O) = w /\ (thr <= w)%Z /\ i < k /\ b < length T.
  Proof.
    intros [Hl [Hnd Hr]] Hn Hi Hne. destruct (Hn i Hi) as [E|[Hge Hw]]; [contradiction|].
    assert (nth i a O < n + cols) as Hj by (apply Hr, nth_In; lia).
    destruct (cell_nonzero i _ Hi Hj ltac:(lia) ltac:(lia)) as [f [t [b [w [Ej [Hf [Ht [Hw' Em]]]]]]]].
    exists f, t, b, w. splits; try assumption; try lia.
    - apply nth_error_Some. rewrite Hf. discriminate.
    - apply nth_error_Some. rewrite Ht. discriminate.
  Qed.

  Lemma normal_empty a i : is_assignment n (n + cols) a -> normal a -> k <= i < n -> nth i a O = i.
  Proof.
    intros Ha Hn [Hk Hi]. destruct (Nat.eq_dec (nth i a O) i) as [E|E]; [exact E|].
    destruct (normal_right a i Ha Hn Hi E) as [f [t [b [w [_ [_ [_ [_ [_ [_ [H _]]]]]]]]]]]. lia.
  Qed.

  Lemma decode_normal a :
    is_assignment n (n + cols) a -> normal a ->
    decode idx a = Some (map (wentry a) (seq 0 k)).
  Proof.
    intros Ha Hn. pose proof Ha as [Hl [Hnd Hr]]. unfold decode.
    assert (forallb (fun e => e <? length idx) a = true) as H1.
    { apply forallb_forall. intros e He. apply Nat.ltb_lt. rewrite idx_length.
      destruct (In_nth _ _ O He) as [i [Hi Ei]]. rewrite Hl in Hi.
      destruct (Nat.eq_dec (nth i a O) i) as [E|E]; [lia|].
      destruct (normal_right a i Ha Hn Hi E) as [f [t [b [w [Ej [_ [_ [_ [_ [_ [_ Hb]]]]]]]]]]]. lia. }
    rewrite H1. replace (length a <=? length idx) with true by (symmetry; apply Nat.leb_le; rewrite idx_length; lia).
    cbn [andb]. f_equal. rewrite Hl. rewrite (seq_split n k) by (unfold k, F; exact HF).
    rewrite flat_map_app.
    rewrite (flat_map_nil _ (seq k (n - k))).
    2:{ intros i Hi. apply in_seq in Hi. cbn zeta. rewrite idx_zero by lia. reflexivity. }
    rewrite app_nil_r.
    apply flat_map_map_in. intros i Hi. apply in_seq in Hi. cbn zeta.
    assert (i < k) as Hik by lia. assert (i < n) as Hin by (unfold k, F in *; lia).
    rewrite (idx_F i Hik).
    assert (nth i F 0%N <> 0%N) as Hf0 by (apply F_nonzero, nth_F_In, Hik).
    unfold wentry. destruct (Nat.eqb_spec (nth i a O) i) as [E|E].
    - rewrite E, (idx_F i Hik).
      replace (0 <? nth i F 0%N)%N with true by (symmetry; apply N.ltb_lt; lia). reflexivity.
    - destruct (normal_right a i Ha Hn Hin E) as [f [t [b [w [Ej [_ [Ht [_ [_ [_ [_ Hb]]]]]]]]]]].
      rewrite Ej, idx_T. replace (n + b - n) with b by lia.
      assert (nth b T 0%N <> 0%N) as Ht0 by (apply T_nonzero, nth_In, Hb).
      replace (0 <? nth i F 0%N)%N with true by (symmetry; apply N.ltb_lt; lia).
      replace (0 <? nth b T 0%N)%N with true by (symmetry; apply N.ltb_lt; lia). reflexivity.
  Qed.

  Lemma map_nth_seq_N (l : list N) : map (fun i => nth i l 0%N) (seq 0 (length l)) = l.
  Proof.
    apply (nth_ext _ _ 0%N 0%N).
    - rewrite map_length, seq_length. reflexivity.
    - intros j Hj. rewrite map_length, seq_length in Hj.
      rewrite (nth_indep _ 0%N ((fun i => nth i l 0%N) O)) by (rewrite map_length, seq_length; exact Hj).
      rewrite (map_nth (fun i => nth i l 0%N) (seq 0 (length l)) O j). rewrite seq_nth by exact Hj. reflexivity.
  Qed.

  Lemma W_fst a : map fst (map (wentry a) (seq 0 k)) = F.
  Proof. rewrite map_map. unfold wentry. cbn [fst]. apply map_nth_seq_N. Qed.

  Lemma nth_error_nth_N (l : list N) i : i < length l -> nth_error l i = Some (nth i l 0%N).
  Proof. intro H. apply nth_error_nth'. exact H. Qed.

  Lemma NoDup_nth_N (l : list N) i j : NoDup l -> i < length l -> j < length l -> nth i l 0%N = nth j l 0%N -> i = j.
  Proof. intros Hn Hi Hj E. rewrite (NoDup_nth l 0%N) in Hn. apply Hn; assumption. Qed.

  Lemma W_snd_NoDup a : is_assignment n (n + cols) a -> normal a -> NoDup (map snd (map (wentry a) (seq 0 k))).
  Proof.
    intros Ha Hn. pose proof Ha as [Hl [Hnd Hr]]. rewrite map_map. apply NoDup_map_inj_on; [apply seq_NoDup|].
    intros x y Hx Hy E. apply in_seq in Hx, Hy. unfold wentry in E. cbn [snd] in E.
    assert (x < n /\ y < n) as [Hxn Hyn] by (unfold k, F in *; lia).
    destruct (Nat.eqb_spec (nth x a O) x) as [Ex|Ex], (Nat.eqb_spec (nth y a O) y) as [Ey|Ey].
    - apply (NoDup_nth_N F); [apply froms_NoDup | lia | lia | exact E].
    - exfalso. destruct (normal_right a y Ha Hn Hyn Ey) as [f [t [b [w [Ej [_ [_ [_ [_ [_ [_ Hb]]]]]]]]]]].
      rewrite Ej in E. replace (n + b - n) with b in E by lia.
      apply (F_T_disjoint (nth x F 0%N)); [apply nth_In; lia | rewrite E; apply nth_In; exact Hb].
    - exfalso. destruct (normal_right a x Ha Hn Hxn Ex) as [f [t [b [w [Ej [_ [_ [_ [_ [_ [_ Hb]]]]]]]]]]].
      rewrite Ej in E. replace (n + b - n) with b in E by lia.
      apply (F_T_disjoint (nth y F 0%N)); [apply nth_In; lia | rewrite <- E; apply nth_In; exact Hb].
    - destruct (normal_right a x Ha Hn Hxn Ex) as [f [t [b [w [Ej [_ [_ [_ [_ [_ [_ Hb]]]]]]]]]]].
      destruct (normal_right a y Ha Hn Hyn Ey) as [f' [t' [b' [w' [Ej' [_ [_ [_ [_ [_ [_ Hb']]]]]]]]]]].
      rewrite Ej, Ej' in E. replace (n + b - n) with b in E by lia. replace (n + b' - n) with b' in E by lia.
      assert (b = b') by (apply (NoDup_nth_N T); [apply tos_NoDup | assumption | assumption | exact E]). subst b'.
      rewrite (NoDup_nth a O) in Hnd. apply Hnd; [lia | lia | congruence].
  Qed.

  Lemma W_gated a f t :
    is_assignment n (n + cols) a -> normal a -> In (f, t) (map (wentry a) (seq 0 k)) ->
    t = f \/ exists w, lastw s f t = Some w /\ (thr <= w)%Z.
  Proof.
    intros Ha Hn Hin. apply in_map_iff in Hin. destruct Hin as [i [E Hi]]. apply in_seq in Hi.
    unfold wentry in E. assert (i < n) as Hin by (unfold k, F in *; lia).
    destruct (Nat.eqb_spec (nth i a O) i) as [Ei|Ei]; inversion E; subst; [left; reflexivity|]. right.
    destruct (normal_right a i Ha Hn Hin Ei) as [f [t [b [w [Ej [Hf [Ht [Hw [_ [Hge _]]]]]]]]]].
    exists w. rewrite Ej. replace (n + b - n) with b by lia.
    rewrite (nth_error_nth _ _ 0%N Hf), (nth_error_nth _ _ 0%N Ht). split; assumption.
  Qed.

  Definition wterm (e : N * N) : Z :=
    if (fst e =? snd e)%N then thr else match lastw s (fst e) (snd e) with Some x => x | None => 0%Z end.

  Lemma w_value_zsum W : w_value s thr W = zsum (fun i => wterm (nth i W (0%N, 0%N))) (seq 0 (length W)).
  Proof. unfold w_value. apply (fold_right_zsum wterm W (0%N, 0%N)). Qed.

  Lemma W_term a i : is_assignment n (n + cols) a -> normal a -> i < k -> wterm (wentry a i) = mget m i (nth i a O).
  Proof.
    intros Ha Hn Hi. assert (i < n) as Hin by (unfold k, F in *; lia).
    unfold wterm, wentry. cbn [fst snd].
    destruct (Nat.eqb_spec (nth i a O) i) as [E|E].
    - rewrite N.eqb_refl, E, (cell_diag i Hin). reflexivity.
    - destruct (normal_right a i Ha Hn Hin E) as [f [t [b [w [Ej [Hf [Ht [Hw [Em [_ [_ Hb]]]]]]]]]]].
      rewrite Ej. replace (n + b - n) with b by lia.
      rewrite (nth_error_nth _ _ 0%N Hf), (nth_error_nth _ _ 0%N Ht).
      destruct (N.eqb_spec f t) as [Eft|_].
      + exfalso. apply (F_T_disjoint f); [eapply nth_error_In; exact Hf | rewrite Eft; eapply nth_error_In; exact Ht].
      + rewrite Hw. rewrite <- Em, Ej. reflexivity.
  Qed.

  Lemma W_value a :
    is_assignment n (n + cols) a -> normal a ->
    aweight m a = (w_value s thr (map (wentry a) (seq 0 k)) + thr * Z.of_nat (n - k))%Z.
  Proof.
    intros Ha Hn. rewrite aweight_index, w_value_zsum. rewrite map_length, seq_length.
    rewrite (seq_split n k) by (unfold k, F; exact HF). rewrite zsum_app. f_equal.
    - apply zsum_ext. intros i Hi. apply in_seq in Hi.
      rewrite (nth_indep _ (0%N, 0%N) (wentry a O)) by (rewrite map_length, seq_length; lia).
      rewrite (map_nth (wentry a) (seq 0 k) O i), seq_nth by lia. symmetry. apply W_term; [exact Ha | exact Hn | lia].
    - rewrite <- (seq_length (n - k) k) at 2. rewrite <- zsum_const. apply zsum_ext. intros i Hi. apply in_seq in Hi.
      rewrite (normal_empty a i Ha Hn) by (unfold k, F in *; lia). apply cell_diag. unfold k, F in *. lia.
  Qed.

  (* --- every partial matching is an assignment of the same value --- *)
  Definition gcol (M : pmatch) (i : nat) : nat :=
    match nth_error M i with
    | Some (_, Some t) => match index_of t T with Some b => n + b | None => i end
    | _ => i
    end.
  Definition a_of (M : pmatch) : list nat := map (gcol M) (seq 0 n).

  Lemma matched_nth_unique M : NoDup (matched M) -> forall i1 i2 d1 d2 t,
    nth_error M i1 = Some (d1, Some t) -> nth_error M i2 = Some (d2, Some t) -> i1 = i2.
  Proof.
    induction M as [|e M IH]; intros Hnd i1 i2 d1 d2 t H1 H2; [destruct i1; discriminate|].
    rewrite matched_cons in Hnd.
    assert (NoDup (matched M)) as Hnd' by (destruct (snd e); [inversion Hnd; assumption | exact Hnd]).
    destruct i1 as [|i1], i2 as [|i2]; cbn [nth_error] in H1, H2.
    - reflexivity.
    - exfalso. inversion H1; subst e. cbn [snd] in Hnd. inversion Hnd as [|? ? Hn _]; subst.
      apply Hn. apply matched_In. exists d2. eapply nth_error_In, H2.
    - exfalso. inversion H2; subst e. cbn [snd] in Hnd. inversion Hnd as [|? ? Hn _]; subst.
      apply Hn. apply matched_In. exists d1. eapply nth_error_In, H1.
    - f_equal. eapply IH; eassumption.
  Qed.

  Lemma gcol_cases M i :
    valid_pm (lastw s) F T M ->
    (gcol M i = i /\ forall d t, nth_error M i <> Some (d, Some t)) \/
    (exists d t b w, nth_error M i = Some (d, Some t) /\ index_of t T = Some b /\ gcol M i = n + b /\ b < length T
                     /\ lastw s d t = Some w).
  Proof.
    intros [_ [_ HC]]. unfold gcol. destruct (nth_error M i) as [[d [t|]]|] eqn:E.
    - right. destruct (HC d t (nth_error_In _ _ E)) as [Ht Hw].
      destruct (index_of_In _ _ Ht) as [b Eb]. destruct (lastw s d t) as [w|] eqn:Ew; [|congruence].
      exists d, t, b, w. rewrite Eb. splits; try reflexivity; try exact Ew.
      apply nth_error_Some. rewrite (index_of_Some _ _ _ Eb). discriminate.
    - left. split; [reflexivity | intros; discriminate].
    - left. split; [reflexivity | intros; discriminate].
  Qed.

  Lemma a_of_assignment M : valid_pm (lastw s) F T M -> is_assignment n (n + cols) (a_of M).
  Proof.
    intro HV. unfold is_assignment, a_of. splits.
    - rewrite map_length, seq_length. reflexivity.
    - apply NoDup_map_inj_on; [apply seq_NoDup|]. intros x y Hx Hy E. apply in_seq in Hx, Hy.
      destruct (gcol_cases M x HV) as [[Gx _]|[d [t [b [w [Nx [Ix [Gx [Bx _]]]]]]]]],
               (gcol_cases M y HV) as [[Gy _]|[d' [t' [b' [w' [Ny [Iy [Gy [By _]]]]]]]]]; try lia.
      assert (b = b') by lia. subst b'.
      assert (t = t') by (apply index_of_Some in Ix, Iy; congruence). subst t'.
      destruct HV as [_ [Hnd _]]. eapply matched_nth_unique; eassumption.
    - intros j Hj. apply in_map_iff in Hj. destruct Hj as [i [E Hi]]. apply in_seq in Hi.
      destruct (gcol_cases M i HV) as [[G _]|[d [t [b [w [_ [_ [G [B _]]]]]]]]]; unfold T in *; lia.
  Qed.

  Lemma a_of_weight M :
    valid_pm (lastw s) F T M -> aweight m (a_of M) = (pm_value (lastw s) thr M + thr * Z.of_nat (n - k))%Z.
  Proof.
    intro HV. pose proof HV as [HM [_ HC]].
    assert (length M = k) as HlM by (unfold k; rewrite <- HM, map_length; reflexivity).
    rewrite aweight_index. unfold pm_value. rewrite (fold_right_zsum (pm_term (lastw s) thr) M (0%N, None)), HlM.
    rewrite (seq_split n k) by (unfold k, F; exact HF). rewrite zsum_app. f_equal.
    - apply zsum_ext. intros i Hi. apply in_seq in Hi. assert (i < n) as Hin by (unfold k, F in *; lia).
      unfold a_of. rewrite (nth_map_seq (gcol M) n i Hin).
      assert (exists o, nth_error M i = Some (nth i F 0%N, o)) as [o Eo].
      { destruct (nth_error M i) as [[d o]|] eqn:E; [|apply nth_error_None in E; lia].
        exists o. f_equal. f_equal.
        assert (nth_error (map fst M) i = Some d) as E' by (rewrite nth_error_map, E; reflexivity).
        rewrite HM in E'. rewrite (nth_error_nth _ _ 0%N E'). reflexivity. }
      rewrite (nth_error_nth _ _ (0%N, None) Eo). unfold pm_term. cbn [fst snd].
      destruct (gcol_cases M i HV) as [[G Hno]|[d [t [b [w [Ni [Ix [G [B Hw]]]]]]]]].
      + rewrite G, (cell_diag i Hin). destruct o as [t|]; [exfalso; apply (Hno _ _ Eo) | reflexivity].
      + rewrite Eo in Ni. inversion Ni; subst d o. rewrite G.
        rewrite (cell_right i b (nth i F 0%N) t); [reflexivity | apply nth_error_nth'; lia | apply index_of_Some, Ix | unfold T in *; lia].
    - rewrite <- (seq_length (n - k) k) at 2. rewrite <- zsum_const. apply zsum_ext. intros i Hi. apply in_seq in Hi.
      assert (i < n) as Hin by (unfold k, F in *; lia).
      unfold a_of. rewrite (nth_map_seq (gcol M) n i Hin). unfold gcol.
      replace (nth_error M i) with (@None (N * option N)) by (symmetry; apply nth_error_None; lia).
      apply cell_diag, Hin.
  Qed.

  Lemma is_assignment_m a : is_assignment n (n + cols) a -> is_assignment (length m) (ncols m) a.
  Proof.
    intro Ha. destruct (Nat.eq_dec n 0) as [E|E].
    - destruct Ha as [Hl _]. destruct Hd as [Hr _]. rewrite E in *.
      destruct a; [|discriminate]. unfold is_assignment. splits; [symmetry; exact Hr | constructor | intros ? []].
    - apply is_assignment_cols; [lia | exact Ha].
  Qed.

  Lemma optimal_beats_pm a M :
    is_assignment n (n + cols) a -> optimal m a -> normal a -> valid_pm (lastw s) F T M ->
    (pm_value (lastw s) thr M <= w_value s thr (map (wentry a) (seq 0 k)))%Z.
  Proof.
    intros Ha Hopt Hn HV.
    pose proof (Hopt (a_of M) (is_assignment_m _ (a_of_assignment M HV))) as H.
    rewrite (a_of_weight M HV), (W_value a Ha Hn) in H. lia.
  Qed.

  (* the winners list read as a partial matching *)
  Definition pm_of (W : list (N * N)) : pmatch :=
    map (fun e => (fst e, if (fst e =? snd e)%N then None else Some (snd e))) W.

  Lemma pm_of_value W : pm_value (lastw s) thr (pm_of W) = w_value s thr W.
  Proof.
    induction W as [|e W IH]; [reflexivity|]. cbn [pm_of map]. rewrite pm_value_cons. fold (pm_of W). rewrite IH.
    unfold w_value at 2. cbn [fold_right]. fold (w_value s thr W). f_equal.
    unfold pm_term. cbn [fst snd]. destruct (fst e =? snd e)%N; reflexivity.
  Qed.

  Lemma pm_of_matched_NoDup W : NoDup (map snd W) -> NoDup (matched (pm_of W)).
  Proof.
    induction W as [|e W IH]; intro H; [constructor|]. cbn [pm_of map] in *. fold (pm_of W).
    inversion H as [|? ? Hn Hnd]; subst. rewrite matched_cons. cbn [snd].
    destruct (fst e =? snd e)%N; [apply IH, Hnd|]. constructor; [|apply IH, Hnd].
    intro Hin. apply Hn. apply matched_In in Hin. destruct Hin as [d Hin].
    unfold pm_of in Hin. apply in_map_iff in Hin. destruct Hin as [e' [E He']].
    destruct (fst e' =? snd e')%N; [discriminate|]. inversion E. apply in_map_iff. exists e'. split; [congruence | exact He'].
  Qed.

  Lemma pm_of_valid a :
    is_assignment n (n + cols) a -> normal a -> valid_pm (lastw s) F T (pm_of (map (wentry a) (seq 0 k))).
  Proof.
    intros Ha Hn. unfold valid_pm. splits.
    - unfold pm_of. rewrite map_map. cbn [fst]. apply (W_fst a).
    - apply pm_of_matched_NoDup, W_snd_NoDup; assumption.
    - intros d t Hin. unfold pm_of in Hin. apply in_map_iff in Hin. destruct Hin as [[f t'] [E He]]. cbn [fst snd] in E.
      destruct (N.eqb_spec f t') as [Eq|Ne]; [discriminate|]. inversion E; subst.
      destruct (W_gated a _ _ Ha Hn He) as [Eq|[w [Hw _]]]; [congruence|].
      split; [|congruence]. destruct (lastw_Some_In _ _ _ _ Hw) as [p [Hp [_ Ep]]]. apply tos_In. exists p. tauto.
  Qed.
End Padded.

Definition gated_winners (thr : Z) (s : pairs) (W : list (N * N)) : Prop :=
  map fst W = froms s /\                                     (* one entry per detection of the stream, in order *)
  NoDup (map snd W) /\                                        (* no track (and no detection) twice *)
  (forall f t, In (f, t) W -> t = f \/ exists w, lastw s f t = Some w /\ (thr <= w)%Z).   (* itself, or a gated stream pair *)

Lemma pad_opt_lemma thr n cols s m idx a :
  (0 < thr)%Z -> ids_disj s -> pad_matrix thr n cols s = Some (m, idx) ->
  is_assignment n (n + cols) a -> optimal m a ->
  exists W, decode idx a = Some W /\ gated_winners thr s W /\
            (forall M, valid_pm (lastw s) (froms s) (tos s) M -> (pm_value (lastw s) thr M <= w_value s thr W)%Z) /\
            w_value s thr W = fst (fst (best_partial thr s)).
Proof.
  intros Hthr Hdisj Hpad Ha Hopt.
  destruct (pad_matrix_spec _ _ _ _ _ _ Hpad Hdisj) as [Eidx [HF [HT [Hd [Hnz Hcell]]]]].
  assert (normal thr n m a) as Hn by (intros i Hi; eapply optimal_normal; eassumption).
  exists (map (wentry n s a) (seq 0 (length (froms s)))).
  assert (forall M, valid_pm (lastw s) (froms s) (tos s) M ->
            (pm_value (lastw s) thr M <= w_value s thr (map (wentry n s a) (seq 0 (length (froms s)))))%Z) as Hbeat.
  { intros M HV. eapply optimal_beats_pm; eassumption. }
  splits.
  - rewrite Eidx. eapply decode_normal; eassumption.
  - unfold gated_winners. splits.
    + apply W_fst.
    + eapply W_snd_NoDup; eassumption.
    + intros f t Hin. eapply W_gated; eassumption.
  - exact Hbeat.
  - apply Z.le_antisymm.
    + rewrite <- (pm_of_value thr s). apply best_partial_optimal_lemma. eapply pm_of_valid; eassumption.
    + destruct (best_partial_attained_lemma thr s) as [HV E]. rewrite <- E. apply Hbeat, HV.
Qed.

(* ---------------------------------------------------------------------------------------------- *)
(* consequences *)
Lemma NoDup_map_fst_unique {A B} (l : list (A * B)) x y y' :
  NoDup (map fst l) -> In (x, y) l -> In (x, y') l -> y = y'.
Proof.
  induction l as [|[a b] l IH]; cbn [map fst In]; intros Hnd H1 H2; [contradiction|].
  inversion Hnd as [|? ? Hn Hd]; subst.
  destruct H1 as [H1|H1], H2 as [H2|H2].
  - congruence.
  - inversion H1; subst. exfalso. apply Hn. apply in_map_iff. exists (x, y'). split; [reflexivity | exact H2].
  - inversion H2; subst. exfalso. apply Hn. apply in_map_iff. exists (x, y). split; [reflexivity | exact H1].
  - eapply IH; eassumption.
Qed.

Lemma is_assignment_of_m n cols m a :
  dims n (n + cols) m -> is_assignment (length m) (ncols m) a -> is_assignment n (n + cols) a.
Proof.
  intros Hd Ha. destruct (Nat.eq_dec n 0) as [E|E].
  - destruct Ha as [Hl _]. destruct Hd as [Hr _]. rewrite Hr, E in Hl. destruct a; [|discriminate].
    unfold is_assignment. splits; [symmetry; exact E | constructor | intros ? []].
  - rewrite (ncols_dims _ _ _ Hd) in Ha by lia. destruct Hd as [Hr _]. rewrite Hr in Ha. exact Ha.
Qed.

Section Hungarian.
  Variable km : matrix -> list nat.

  Lemma sort_winners_gated thr n cols s W :
    (0 < thr)%Z -> ids_disj s -> length (tos s) <= cols ->
    (forall m idx, pad_matrix thr n cols s = Some (m, idx) ->
                   is_assignment (length m) (ncols m) (km m) /\ optimal m (km m)) ->
    sort_winners km thr n cols s = Some W ->
    gated_winners thr s W /\
    (forall M, valid_pm (lastw s) (froms s) (tos s) M -> (pm_value (lastw s) thr M <= w_value s thr W)%Z) /\
    w_value s thr W = fst (fst (best_partial thr s)).
  Proof.
    intros Hthr Hdisj HT Hkm Hrun. unfold sort_winners in Hrun.
    destruct (Nat.eqb_spec cols 0) as [E0|E0].
    - (* no tracks declared: the stream has no track, hence no entry *)
      inversion Hrun; subst W. assert (tos s = []) as ET by (destruct (tos s); [reflexivity | cbn in HT; lia]).
      assert (s = []) as Es.
      { destruct s as [|p r]; [reflexivity|]. exfalso.
        assert (In (p_to p) (tos (p :: r))) as H by (apply tos_In; exists p; split; [left; reflexivity | reflexivity]).
        rewrite ET in H. exact H. }
      subst s. split; [|split].
      + unfold gated_winners. cbn. split; [reflexivity|]. split; [constructor|]. intros f t [].
      + intros M [HM _]. destruct M; [cbn; lia | discriminate].
      + reflexivity.
    - destruct (pad_matrix thr n cols s) as [[m idx]|] eqn:Ep; [|discriminate].
      destruct (Hkm m idx eq_refl) as [Ha Hopt].
      destruct (pad_matrix_spec _ _ _ _ _ _ Ep Hdisj) as [_ [_ [_ [Hd _]]]].
      destruct (pad_opt_lemma thr n cols s m idx (km m) Hthr Hdisj Ep (is_assignment_of_m _ _ _ _ Hd Ha) Hopt)
        as [W' [Hdec [Hg [Hb Hv]]]].
      rewrite Hdec in Hrun. inversion Hrun; subst W'. splits; assumption.
  Qed.

  Lemma hungarian_total_lemma thr n cols s W :
    (0 < thr)%Z -> ids_disj s -> length (tos s) <= cols ->
    (forall m idx, pad_matrix thr n cols s = Some (m, idx) ->
                   is_assignment (length m) (ncols m) (km m) /\ optimal m (km m)) ->
    sort_winners km thr n cols s = Some W ->
    forall f, In f (froms s) ->
      exists t, In (f, t) W /\ (t = f \/ In t (tos s)) /\ forall t', In (f, t') W -> t' = t.
  Proof.
    intros Hthr Hdisj HT Hkm Hrun f Hf.
    destruct (sort_winners_gated thr n cols s W Hthr Hdisj HT Hkm Hrun) as [[H1 [H2 H3]] _].
    rewrite <- H1 in Hf. apply in_map_iff in Hf. destruct Hf as [[f' t] [E Hin]]. cbn [fst] in E. subst f'.
    exists t. splits; [exact Hin | |].
    - destruct (H3 f t Hin) as [E|[w [Hw _]]]; [left; exact E | right].
      destruct (lastw_Some_In _ _ _ _ Hw) as [p [Hp [_ Ep]]]. apply tos_In. exists p. tauto.
    - intros t' Hin'. eapply (NoDup_map_fst_unique W); [rewrite H1; apply froms_NoDup | exact Hin' | exact Hin].
  Qed.

  Lemma hungarian_only_queries_lemma thr n cols s W :
    (0 < thr)%Z -> ids_disj s -> length (tos s) <= cols ->
    (forall m idx, pad_matrix thr n cols s = Some (m, idx) ->
                   is_assignment (length m) (ncols m) (km m) /\ optimal m (km m)) ->
    sort_winners km thr n cols s = Some W ->
    forall f t, In (f, t) W -> In f (froms s).
  Proof.
    intros Hthr Hdisj HT Hkm Hrun f t Hin.
    destruct (sort_winners_gated thr n cols s W Hthr Hdisj HT Hkm Hrun) as [[H1 _] _].
    rewrite <- H1. apply in_map_iff. exists (f, t). split; [reflexivity | exact Hin].
  Qed.

  Lemma hungarian_no_track_twice_lemma thr n cols s W :
    (0 < thr)%Z -> ids_disj s -> length (tos s) <= cols ->
    (forall m idx, pad_matrix thr n cols s = Some (m, idx) ->
                   is_assignment (length m) (ncols m) (km m) /\ optimal m (km m)) ->
    sort_winners km thr n cols s = Some W -> NoDup (map snd W).
  Proof.
    intros Hthr Hdisj HT Hkm Hrun.
    destruct (sort_winners_gated thr n cols s W Hthr Hdisj HT Hkm Hrun) as [[_ [H2 _]] _]. exact H2.
  Qed.
End Hungarian.

(* more declared tracks than the stream mentions (all-zero columns) change nothing *)
Lemma aweight_agree n m m' a :
  length m = n -> length m' = n -> (forall i, i < n -> mget m i (nth i a O) = mget m' i (nth i a O)) ->
  aweight m a = aweight m' a.
Proof.
  intros H1 H2 H. unfold aweight. rewrite H1, H2. apply zsum_ext. intros i Hi. apply in_seq in Hi. apply H. lia.
Qed.

Lemma extra_zero_columns_lemma thr n c c' s m m' idx idx' a :
  (0 < thr)%Z -> ids_disj s -> c <= c' ->
  pad_matrix thr n c s = Some (m, idx) -> pad_matrix thr n c' s = Some (m', idx') ->
  idx' = idx /\
  (is_assignment n (n + c') a -> optimal m' a -> is_assignment n (n + c) a /\ optimal m a).
Proof.
  intros Hthr Hdisj Hcc Hp Hp'.
  destruct (pad_matrix_spec _ _ _ _ _ _ Hp Hdisj) as [Eidx [HF [HT [Hd [Hnz Hcell]]]]].
  destruct (pad_matrix_spec _ _ _ _ _ _ Hp' Hdisj) as [Eidx' [_ [HT' [Hd' [_ Hcell']]]]].
  split; [congruence|]. intros Ha Hopt.
  assert (normal thr n m' a) as Hn by (intros i Hi; eapply (optimal_normal thr n c' s m'); eassumption).
  assert (is_assignment n (n + c) a) as Ha'.
  { destruct Ha as [Hl [Hnd Hr]]. unfold is_assignment. splits; try assumption.
    intros j Hj. destruct (In_nth _ _ O Hj) as [i [Hi Ei]]. rewrite Hl in Hi.
    destruct (Nat.eq_dec (nth i a O) i) as [E|E]; [lia|].
    destruct (normal_right thr n c' s m' Hthr HF HT' Hcell' a i (conj Hl (conj Hnd Hr)) Hn Hi E)
      as [f [t [b [w [Ej [_ [_ [_ [_ [_ [_ Hb]]]]]]]]]]]. lia. }
  split; [exact Ha'|].
  assert (forall a0, is_assignment n (n + c) a0 -> aweight m a0 = aweight m' a0) as Hagree.
  { intros a0 [Hl0 [_ Hr0]]. apply (aweight_agree n); [apply Hd | apply Hd'|].
    intros i Hi. assert (nth i a0 O < n + c) by (apply Hr0, nth_In; lia).
    rewrite Hcell, Hcell' by lia. reflexivity. }
  intros a0 Ha0. apply (is_assignment_of_m n c m a0 Hd) in Ha0.
  rewrite (Hagree a0 Ha0), (Hagree a Ha').
  apply Hopt. apply (is_assignment_m thr n c' s m' HF HT' Hd' Hcell').
  destruct Ha0 as [Hl0 [Hnd0 Hr0]]. unfold is_assignment. splits; try assumption.
  intros j Hj. specialize (Hr0 j Hj). lia.
Qed.

Lemma best_partial_injective_lemma thr s : NoDup (matched (snd (fst (best_partial thr s)))).
Proof. destruct (best_partial_attained_lemma thr s) as [[_ [H _]] _]. exact H. Qed.

Lemma best_partial_domain_lemma thr s : map fst (snd (fst (best_partial thr s))) = froms s.
Proof. destruct (best_partial_attained_lemma thr s) as [[H _] _]. exact H. Qed.

(* a pair that does not pass the gate (absent from the stream, or weight below the threshold) is never continued *)
Lemma ungated_never_continued_lemma thr s W f t :
  gated_winners thr s W -> t <> f ->
  (lastw s f t = None \/ exists w, lastw s f t = Some w /\ (w < thr)%Z) -> ~ In (f, t) W.
Proof.
  intros [_ [_ H]] Hne Hw Hin. destruct (H f t Hin) as [E|[w [E Hle]]]; [contradiction|].
  destruct Hw as [Hw|[w' [Hw Hlt]]]; [congruence|]. rewrite E in Hw. inversion Hw. lia.
Qed.
