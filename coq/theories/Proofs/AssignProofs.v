(* Lemmas about Model/Assign.v (C02, C17). *)
From Coq Require Import List NArith ZArith Bool Arith Lia Permutation.
From Similari Require Import Model.Assign.
Import ListNotations.

Local Open Scope Z_scope.

(* ---------------------------------------------------------------------------------------------- *)
(* sums over index lists *)
Lemma zsum_cons f i l : zsum f (i :: l) = f i + zsum f l.
Proof. reflexivity. Qed.

Lemma zsum_app f l1 l2 : zsum f (l1 ++ l2) = zsum f l1 + zsum f l2.
Proof. induction l1 as [|x l IH]; cbn [app]; rewrite ?zsum_cons; [reflexivity | rewrite IH; lia]. Qed.

Lemma zsum_le f g l : (forall i, In i l -> f i <= g i) -> zsum f l <= zsum g l.
Proof.
  induction l as [|x l IH]; intro H; [reflexivity|]. rewrite !zsum_cons.
  assert (f x <= g x) by (apply H; left; reflexivity).
  assert (zsum f l <= zsum g l) by (apply IH; intros; apply H; right; assumption). lia.
Qed.

Lemma zsum_ext f g l : (forall i, In i l -> f i = g i) -> zsum f l = zsum g l.
Proof.
  induction l as [|x l IH]; intro H; [reflexivity|]. rewrite !zsum_cons.
  rewrite (H x) by (left; reflexivity). rewrite IH; [reflexivity | intros; apply H; right; assumption].
Qed.

Lemma zsum_add f g l : zsum (fun i => f i + g i) l = zsum f l + zsum g l.
Proof. induction l as [|x l IH]; [reflexivity|]. rewrite !zsum_cons, IH. lia. Qed.

Lemma zsum_const c l : zsum (fun _ => c) l = c * Z.of_nat (length l).
Proof. induction l as [|x l IH]; [cbn; lia|]. rewrite zsum_cons, IH. cbn [length]. lia. Qed.

Lemma zsum_eq_pointwise f g l :
  (forall i, In i l -> f i <= g i) -> zsum f l = zsum g l -> forall i, In i l -> f i = g i.
Proof.
  induction l as [|x l IH]; intros Hle Heq i Hi; [contradiction|].
  rewrite !zsum_cons in Heq.
  assert (f x <= g x) by (apply Hle; left; reflexivity).
  assert (zsum f l <= zsum g l) by (apply zsum_le; intros; apply Hle; right; assumption).
  destruct Hi as [Hi|Hi]; [subst; lia|].
  apply IH; [intros; apply Hle; right; assumption | lia | exact Hi].
Qed.

Lemma zsum_map f (h : nat -> nat) l : zsum f (map h l) = zsum (fun i => f (h i)) l.
Proof. induction l as [|x l IH]; [reflexivity|]. cbn [map]. rewrite !zsum_cons, IH. reflexivity. Qed.

Lemma map_nth_seq (a : list nat) : map (fun i => nth i a O) (seq 0 (length a)) = a.
Proof.
  apply (nth_ext _ _ O O).
  - rewrite map_length, seq_length. reflexivity.
  - intros k Hk. rewrite map_length, seq_length in Hk.
    rewrite (nth_indep _ O (nth O a O)) by (rewrite map_length, seq_length; exact Hk).
    rewrite (map_nth (fun i => nth i a O) (seq 0 (length a)) O k).
    rewrite seq_nth by exact Hk. reflexivity.
Qed.

Lemma zsum_assigned f (a : list nat) : zsum (fun i => f (nth i a O)) (seq 0 (length a)) = zsum f a.
Proof. rewrite <- zsum_map. rewrite map_nth_seq. reflexivity. Qed.

(* a duplicate-free sub-list of indices sums to at most the whole, for non-negative terms *)
Lemma zsum_sub_le f l : forall big,
  NoDup l -> incl l big -> (forall j, In j big -> 0 <= f j) -> zsum f l <= zsum f big.
Proof.
  induction l as [|x l IH]; intros big Hnd Hinc Hpos.
  - cbn. clear Hinc. induction big as [|b big IHb]; [cbn; lia|]. rewrite zsum_cons.
    assert (0 <= f b) by (apply Hpos; left; reflexivity).
    assert (0 <= zsum f big) by (apply IHb; intros; apply Hpos; right; assumption). cbn in *. lia.
  - inversion Hnd as [|? ? Hx Hnd']; subst.
    assert (In x big) as Hxb by (apply Hinc; left; reflexivity).
    destruct (in_split _ _ Hxb) as [l1 [l2 E]]. subst big.
    rewrite zsum_cons, zsum_app, zsum_cons.
    assert (zsum f l <= zsum f (l1 ++ l2)) as H.
    { apply IH; [exact Hnd' | |].
      - intros y Hy. assert (In y (l1 ++ x :: l2)) as H by (apply Hinc; right; exact Hy).
        apply in_app_or in H. apply in_or_app. destruct H as [H|[H|H]]; [left; exact H | subst; contradiction | right; exact H].
      - intros j Hj. apply Hpos. apply in_app_or in Hj. apply in_or_app. destruct Hj; [left | right; right]; assumption. }
    rewrite zsum_app in H. lia.
Qed.

Lemma zsum_zero_outside f l : forall big,
  NoDup l -> NoDup big -> incl l big -> (forall j, In j big -> ~ In j l -> f j = 0) -> zsum f big = zsum f l.
Proof.
  induction l as [|x l IH]; intros big Hnd Hndb Hinc Hz.
  - cbn. clear Hinc Hndb. induction big as [|b big IHb]; [reflexivity|]. rewrite zsum_cons.
    rewrite (Hz b) by (try (left; reflexivity); intros []).
    rewrite IHb; [reflexivity | intros; apply Hz; [right; assumption | intros []]].
  - inversion Hnd as [|? ? Hx Hnd']; subst.
    assert (In x big) as Hxb by (apply Hinc; left; reflexivity).
    destruct (in_split _ _ Hxb) as [l1 [l2 E]]. subst big.
    apply NoDup_remove in Hndb. destruct Hndb as [Hndb Hxn].
    rewrite zsum_cons, zsum_app, zsum_cons.
    assert (zsum f (l1 ++ l2) = zsum f l) as H.
    { apply IH; [exact Hnd' | exact Hndb | |].
      - intros y Hy. assert (In y (l1 ++ x :: l2)) as H by (apply Hinc; right; exact Hy).
        apply in_app_or in H. apply in_or_app. destruct H as [H|[H|H]]; [left; exact H | subst; contradiction | right; exact H].
      - intros j Hj Hnj. apply Hz.
        + apply in_app_or in Hj. apply in_or_app. destruct Hj; [left | right; right]; assumption.
        + intros [H|H]; [subst; contradiction | contradiction]. }
    rewrite zsum_app in H. lia.
Qed.

Lemma incl_seq (a : list nat) c : (forall j, In j a -> (j < c)%nat) -> incl a (seq 0 c).
Proof. intros H j Hj. apply in_seq. specialize (H j Hj). lia. Qed.

(* ---------------------------------------------------------------------------------------------- *)
(* the dual certificate (weak duality) *)
Lemma forallb_seq f s n : forallb f (seq s n) = true <-> forall i, (s <= i < s + n)%nat -> f i = true.
Proof.
  rewrite forallb_forall. split; intros H i Hi; apply H; apply in_seq; exact Hi.
Qed.

Lemma check_dual_sound_lemma m a u v :
  check_dual m a u v = true -> is_assignment (length m) (ncols m) a /\ optimal m a.
Proof.
  unfold check_dual. rewrite !andb_true_iff.
  intros [[[[[[[[[Ha Hu] Hv] _] Hr] Hnd] Hge] Heq] Hpos] Hz].
  apply Nat.eqb_eq in Ha, Hu, Hv.
  set (rows := length m) in *. set (cols := ncols m) in *.
  assert (forall j, In j a -> (j < cols)%nat) as Hrange.
  { intros j Hj. rewrite forallb_forall in Hr. apply Nat.ltb_lt, Hr, Hj. }
  assert (NoDup a) as Hnodup.
  { apply (NoDup_nth a O). intros i k Hi Hk E. rewrite Ha in Hi, Hk.
    rewrite forallb_seq in Hnd.
    destruct (Nat.lt_trichotomy i k) as [Hlt|[Heq'|Hgt]]; [|exact Heq'|].
    - specialize (Hnd i ltac:(lia)). rewrite forallb_seq in Hnd. specialize (Hnd k ltac:(lia)).
      apply negb_true_iff, Nat.eqb_neq in Hnd. congruence.
    - specialize (Hnd k ltac:(lia)). rewrite forallb_seq in Hnd. specialize (Hnd i ltac:(lia)).
      apply negb_true_iff, Nat.eqb_neq in Hnd. congruence. }
  split; [repeat split; assumption|].
  set (U := fun i => nth i u 0). set (V := fun j => nth j v 0).
  assert (forall j, 0 <= V j) as HVpos.
  { intro j. unfold V. destruct (Nat.lt_ge_cases j cols) as [Hj|Hj].
    - rewrite forallb_seq in Hpos. apply Z.leb_le, Hpos. lia.
    - rewrite nth_overflow by lia. lia. }
  assert (aweight m a = zsum U (seq 0 rows) + zsum V a) as Ea.
  { unfold aweight. fold rows. rewrite <- (zsum_assigned V a), Ha, <- zsum_add.
    apply zsum_ext. intros i Hi. apply in_seq in Hi. rewrite forallb_seq in Heq. apply Z.eqb_eq, Heq. lia. }
  assert (zsum V (seq 0 cols) = zsum V a) as EV.
  { apply zsum_zero_outside; [exact Hnodup | apply seq_NoDup | apply incl_seq, Hrange|].
    intros j Hj Hnj. apply in_seq in Hj. rewrite forallb_seq in Hz. specialize (Hz j ltac:(lia)).
    apply orb_true_iff in Hz. destruct Hz as [Hz|Hz]; [|apply Z.eqb_eq, Hz].
    exfalso. apply Hnj. apply existsb_exists in Hz. destruct Hz as [x [Hx E]]. apply Nat.eqb_eq in E. subst. exact Hx. }
  intros a' [Hla' [Hnd' Hr']].
  assert (aweight m a' <= zsum U (seq 0 rows) + zsum V a') as Ea'.
  { unfold aweight. fold rows. rewrite <- (zsum_assigned V a'), Hla', <- zsum_add.
    apply zsum_le. intros i Hi. apply in_seq in Hi.
    rewrite forallb_seq in Hge. specialize (Hge i ltac:(lia)). rewrite forallb_seq in Hge.
    apply Z.leb_le, Hge. split; [lia|]. cbn. apply Hr'. apply nth_In. lia. }
  assert (zsum V a' <= zsum V (seq 0 cols)) as H'.
  { apply zsum_sub_le; [exact Hnd' | apply incl_seq, Hr' | intros; apply HVpos]. }
  lia.
Qed.

(* ---------------------------------------------------------------------------------------------- *)
(* best_partial: exhaustive optimum over partial one-to-one matchings *)
Section BestPartial.
  Variable wf : N -> N -> option Z.
  Variable thr : Z.

  Definition valid_pm (ds ts : list N) (M : pmatch) : Prop :=
    map fst M = ds /\ NoDup (matched M) /\
    forall d t, In (d, Some t) M -> In t ts /\ wf d t <> None.

  Definition bval (b : bres) : Z := fst (fst b).
  Definition bpm (b : bres) : pmatch := snd (fst b).

  Lemma better_cases b1 b2 :
    (fst (better b1 b2) = fst b1 \/ fst (better b1 b2) = fst b2) /\
    bval b1 <= bval (better b1 b2) /\ bval b2 <= bval (better b1 b2).
  Proof.
    destruct b1 as [[v1 m1] c1], b2 as [[v2 m2] c2]. unfold better, bval. cbn [fst snd].
    destruct (Z.ltb_spec v1 v2); cbn [fst]; [split; [right; reflexivity | lia]|].
    destruct (Z.eqb_spec v1 v2); cbn [fst]; (split; [left; reflexivity | lia]).
  Qed.

  Lemma fold_better_spec opts : forall b0,
    (fst (fold_left better opts b0) = fst b0 \/ exists o, In o opts /\ fst (fold_left better opts b0) = fst o) /\
    bval b0 <= bval (fold_left better opts b0) /\
    forall o, In o opts -> bval o <= bval (fold_left better opts b0).
  Proof.
    induction opts as [|o opts IH]; intro b0; cbn [fold_left].
    - split; [left; reflexivity|]. split; [lia | intros o []].
    - destruct (IH (better b0 o)) as [H1 [H2 H3]]. destruct (better_cases b0 o) as [C1 [C2 C3]].
      split; [|split].
      + destruct H1 as [H1|[o' [Ho' H1]]].
        * destruct C1 as [C1|C1]; [left; congruence | right; exists o; split; [left; reflexivity | congruence]].
        * right. exists o'. split; [right; exact Ho' | exact H1].
      + lia.
      + intros o' [Ho'|Ho']; [subst; lia | apply H3, Ho'].
  Qed.

  Lemma matched_cons e M : matched (e :: M) = match snd e with Some t => t :: matched M | None => matched M end.
  Proof. unfold matched. cbn [flat_map]. destruct (snd e); reflexivity. Qed.

  Lemma matched_In t M : In t (matched M) <-> exists d, In (d, Some t) M.
  Proof.
    unfold matched. rewrite in_flat_map. split.
    - intros [[d o] [Hin Ht]]. cbn [snd] in Ht. destruct o as [t'|]; [|contradiction].
      destruct Ht as [Ht|[]]. subst. exists d. exact Hin.
    - intros [d Hin]. exists (d, Some t). split; [exact Hin | left; reflexivity].
  Qed.

  Lemma removeN_In x t l : In x (removeN t l) <-> In x l /\ x <> t.
  Proof.
    unfold removeN. rewrite filter_In. rewrite negb_true_iff. split; intros [H1 H2]; (split; [exact H1|]).
    - intro E. subst. rewrite N.eqb_refl in H2. discriminate.
    - apply N.eqb_neq. congruence.
  Qed.

  Lemma pm_value_cons e M : pm_value wf thr (e :: M) = pm_term wf thr e + pm_value wf thr M.
  Proof. reflexivity. Qed.

  Lemma bp_spec ds : forall ts,
    valid_pm ds ts (bpm (bp wf thr ds ts)) /\
    pm_value wf thr (bpm (bp wf thr ds ts)) = bval (bp wf thr ds ts) /\
    forall M, valid_pm ds ts M -> pm_value wf thr M <= bval (bp wf thr ds ts).
  Proof.
    induction ds as [|d ds IH]; intro ts.
    - cbn [bp]. unfold bpm, bval. cbn [fst snd]. split; [|split].
      + split; [reflexivity|]. split; [constructor | intros ? ? []].
      + reflexivity.
      + intros M [HM _]. destruct M; [cbn; lia | discriminate].
    - cbn [bp]. destruct (bp wf thr ds ts) as [[v0 m0] c0] eqn:E0.
      set (opts := flat_map _ ts).
      set (b0 := (v0 + thr, (d, None) :: m0, c0)).
      destruct (IH ts) as [V0 [P0 O0]]. rewrite E0 in V0, P0, O0. unfold bpm, bval in V0, P0, O0. cbn [fst snd] in V0, P0, O0.
      (* every option is a valid matching with its value *)
      assert (forall o, In o opts ->
                exists t x, In t ts /\ wf d t = Some x /\
                  bpm o = (d, Some t) :: bpm (bp wf thr ds (removeN t ts)) /\
                  bval o = bval (bp wf thr ds (removeN t ts)) + x) as Hopts.
      { intros o Ho. unfold opts in Ho. apply in_flat_map in Ho. destruct Ho as [t [Ht Ho]].
        destruct (wf d t) as [x|] eqn:Ew; [|contradiction].
        destruct (bp wf thr ds (removeN t ts)) as [[v m] c] eqn:Eb. destruct Ho as [Ho|[]]. subst o.
        exists t, x. unfold bpm, bval. cbn [fst snd]. repeat split; try reflexivity; assumption. }
      assert (valid_pm (d :: ds) ts (bpm b0) /\ pm_value wf thr (bpm b0) = bval b0) as Hb0.
      { unfold b0, bpm, bval. cbn [fst snd]. destruct V0 as [A [B C]]. split.
        - split; [cbn [map fst]; f_equal; exact A|]. split; [rewrite matched_cons; exact B|].
          intros d' t [H|H]; [discriminate | apply C, H].
        - rewrite pm_value_cons. unfold pm_term. cbn [snd]. lia. }
      assert (forall o, In o opts -> valid_pm (d :: ds) ts (bpm o) /\ pm_value wf thr (bpm o) = bval o) as Hval.
      { intros o Ho. destruct (Hopts o Ho) as [t [x [Ht [Ew [Em Ev]]]]].
        destruct (IH (removeN t ts)) as [[A [B C]] [P _]]. rewrite Em, Ev. split.
        - split; [cbn [map fst]; f_equal; exact A|]. split.
          + rewrite matched_cons. cbn [snd]. constructor; [|exact B].
            intro Hin. apply matched_In in Hin. destruct Hin as [d' Hin]. apply C in Hin.
            destruct Hin as [Hin _]. apply removeN_In in Hin. destruct Hin as [_ Hin]. congruence.
          + intros d' t' [H|H].
            * inversion H; subst. split; [exact Ht | congruence].
            * apply C in H. destruct H as [H1 H2]. apply removeN_In in H1. tauto.
        - rewrite pm_value_cons. unfold pm_term. cbn [fst snd]. rewrite Ew. lia. }
      destruct (fold_better_spec opts b0) as [F1 [F2 F3]].
      set (r := fold_left better opts b0) in *.
      assert (bpm r = bpm b0 /\ bval r = bval b0 \/ exists o, In o opts /\ bpm r = bpm o /\ bval r = bval o) as Hr.
      { unfold bpm, bval. destruct F1 as [F1|[o [Ho F1]]]; [left | right; exists o; split; [exact Ho|]]; rewrite F1; tauto. }
      split; [|split].
      + destruct Hr as [[E1 _]|[o [Ho [E1 _]]]]; rewrite E1; [apply Hb0 | apply Hval, Ho].
      + destruct Hr as [[E1 E2]|[o [Ho [E1 E2]]]]; rewrite E1, E2; [apply Hb0 | apply Hval, Ho].
      + intros M [HM [HN HC]]. destruct M as [|[d' o] M]; [discriminate|].
        cbn [map fst] in HM. inversion HM as [[Hd HM']]. subst d'.
        rewrite pm_value_cons. unfold pm_term. cbn [fst snd]. rewrite matched_cons in HN. cbn [snd] in HN.
        destruct o as [t|].
        * assert (In t ts /\ wf d t <> None) as [Ht Hw] by (apply HC; left; reflexivity).
          destruct (wf d t) as [x|] eqn:Ew; [|congruence].
          inversion HN as [|? ? Hnt HN']; subst.
          assert (valid_pm ds (removeN t ts) M) as HV.
          { split; [exact HM'|]. split; [exact HN'|]. intros d' t' Hin.
            assert (In t' ts /\ wf d' t' <> None) as [H1 H2] by (apply HC; right; exact Hin).
            split; [|exact H2]. apply removeN_In. split; [exact H1|]. intro E. subst t'.
            apply Hnt. apply matched_In. exists d'. exact Hin. }
          destruct (IH (removeN t ts)) as [_ [_ O]]. specialize (O M HV).
          assert (exists o, In o opts /\ bval o = bval (bp wf thr ds (removeN t ts)) + x) as [o [Ho Eo]].
          { destruct (bp wf thr ds (removeN t ts)) as [[v m] c] eqn:Eb.
            exists (v + x, (d, Some t) :: m, c). split; [|reflexivity].
            unfold opts. apply in_flat_map. exists t. split; [exact Ht|]. rewrite Ew, Eb. left. reflexivity. }
          specialize (F3 o Ho). lia.
        * assert (valid_pm ds ts M) as HV.
          { split; [exact HM'|]. split; [exact HN|]. intros d' t' Hin. apply HC. right. exact Hin. }
          specialize (O0 M HV). unfold b0, bval in F2. cbn [fst] in F2. unfold bval. lia.
  Qed.
End BestPartial.

Lemma best_partial_optimal_lemma thr s M :
  valid_pm (lastw s) (froms s) (tos s) M ->
  pm_value (lastw s) thr M <= fst (fst (best_partial thr s)).
Proof. intro H. apply (bp_spec (lastw s) thr (froms s) (tos s)). exact H. Qed.

Lemma best_partial_attained_lemma thr s :
  valid_pm (lastw s) (froms s) (tos s) (snd (fst (best_partial thr s))) /\
  pm_value (lastw s) thr (snd (fst (best_partial thr s))) = fst (fst (best_partial thr s)).
Proof. destruct (bp_spec (lastw s) thr (froms s) (tos s)) as [H1 [H2 _]]. split; assumption. Qed.
