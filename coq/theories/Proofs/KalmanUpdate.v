(* C07 - the update step: what the code computes (lower-triangular solve) and what the textbook computes
   (true inverse), entry by entry, when the innovation covariance S is diagonal; hence their equality. *)
From Coq Require Import List Arith Bool ZArith QArith Qreals Reals Lra Lia.
From Similari Require Import Base.Num Model.Kalman Proofs.KalmanBase Proofs.KalmanEntries.
Import ListNotations.
Local Open Scope R_scope.

(* ---- forward substitution ---- *)
Lemma fsub_length : forall (L : Rmat) b i, length (fsub_list Rops L b i) = i.
Proof.
  induction i as [|i IH]; [reflexivity|].
  cbn [fsub_list]. rewrite app_length, IH. cbn. lia.
Qed.

(* If the strictly lower part that forward substitution reads is zero, the solve is a division by the diagonal. *)
Lemma fsub_diag : forall (L : Rmat) b nn,
    (forall k l, (l < k)%nat -> (k < nn)%nat -> mgetR L k l = 0) ->
    forall i, (i <= nn)%nat -> forall k, (k < i)%nat ->
    nth k (fsub_list Rops L b i) 0 = b k / mgetR L k k.
Proof.
  intros L b nn HL. induction i as [|i IH]; intros Hi k Hk; [lia|].
  cbn [fsub_list]. destruct (Nat.eq_dec k i) as [->|Hne].
  - rewrite app_nth2 by (rewrite fsub_length; lia). rewrite fsub_length, Nat.sub_diag. cbn [nth].
    rewrite Rsum_zero.
    + simplR. f_equal. lra.
    + intros l Hl. rewrite HL by lia. simplR. lra.
  - rewrite app_nth1 by (rewrite fsub_length; lia). apply IH; lia.
Qed.

Lemma solve_lower_entry : forall nn m (L B : Rmat),
    (forall k l, (l < k)%nat -> (k < nn)%nat -> mgetR L k l = 0) ->
    forall i j, (i < nn)%nat -> (j < m)%nat ->
    mgetR (solve_lower Rops nn m L B) i j = mgetR B i j / mgetR L i i.
Proof.
  intros nn m L B HL i j Hi Hj. unfold solve_lower. rewrite mget_mtab by assumption.
  rewrite nth_map_seq by assumption.
  apply (fsub_diag L (fun i0 => mgetR B i0 j) nn HL nn); lia.
Qed.

(* two states whose components are tabulations are equal as soon as their entries are *)
Lemma kstate_eq_tab : forall N (s1 s2 : kstate Rops) f1 f2 g1 g2,
    mean s1 = vtab Rops N f1 -> mean s2 = vtab Rops N f2 ->
    cov s1 = mtab Rops N N g1 -> cov s2 = mtab Rops N N g2 ->
    (forall i, (i < N)%nat -> vgetR (mean s1) i = vgetR (mean s2) i) ->
    (forall i j, (i < N)%nat -> (j < N)%nat -> mgetR (cov s1) i j = mgetR (cov s2) i j) ->
    s1 = s2.
Proof.
  intros N [m1 c1] [m2 c2] f1 f2 g1 g2 Hm1 Hm2 Hc1 Hc2 Hm Hc. cbn [mean cov] in *. subst.
  f_equal.
  - apply vtab_ext. intros i Hi. specialize (Hm i Hi). rewrite !vget_vtab in Hm by assumption. exact Hm.
  - apply mtab_ext. intros i j Hi Hj. specialize (Hc i j Hi Hj). rewrite !mget_mtab in Hc by assumption. exact Hc.
Qed.

(* (A + A^T) * 0.5: always symmetric; the identity on symmetric matrices *)
Lemma msym_entry : forall k (A : Rmat) i j, (i < k)%nat -> (j < k)%nat ->
    mgetR (msym Rops k A) i j = (mgetR A i j + mgetR A j i) * / 2.
Proof.
  intros. unfold msym. rewrite mget_mtab by assumption. simplR. f_equal. unfold Q2R. cbn. lra.
Qed.

Lemma msym_symmetric : forall k (A : Rmat) i j, (i < k)%nat -> (j < k)%nat ->
    mgetR (msym Rops k A) i j = mgetR (msym Rops k A) j i.
Proof. intros. rewrite !msym_entry by assumption. lra. Qed.

Lemma msym_id_on_symmetric : forall k (A : Rmat),
    (forall i j, (i < k)%nat -> (j < k)%nat -> mgetR A i j = mgetR A j i) ->
    forall i j, (i < k)%nat -> (j < k)%nat -> mgetR (msym Rops k A) i j = mgetR A i j.
Proof. intros k A H i j Hi Hj. rewrite msym_entry by assumption. rewrite (H j i) by assumption. lra. Qed.

Section Update.
  Variable F : kfilter Rops.
  Local Notation n := (kdim Rops F).
  Local Notation N := (2 * kdim Rops F)%nat.

  Definition Sm (st : kstate Rops) : Rmat := snd (g_project Rops F (mean st) (cov st)).
  Definition pmean (st : kstate Rops) : Rvec := fst (g_project Rops F (mean st) (cov st)).

  Definition Sdiag (st : kstate Rops) : Prop :=
    forall k l, (k < n)%nat -> (l < n)%nat -> k <> l -> mgetR (Sm st) k l = 0.

  Definition gainM (st : kstate Rops) : Rmat :=
    solve_lower Rops n N (Sm st)
      (mtrans Rops N n (mmul Rops N N n (cov st) (mtrans Rops n N (update_matrix Rops n)))).

  Lemma g_update_unfold : forall st z,
      g_update Rops F st z =
      {| mean := vadd Rops N (mean st)
                   (vtab Rops N (fun j => Rsum n (fun i => vgetR (vsub Rops n z (pmean st)) i * mgetR (gainM st) i j)));
         cov := msym Rops N (msub Rops N N (cov st)
                   (mmul Rops N n N (mmul Rops N n n (mtrans Rops n N (gainM st)) (Sm st)) (gainM st))) |}.
  Proof.
    intros st z. unfold g_update, gainM, Sm, pmean.
    destruct (g_project Rops F (mean st) (cov st)) as [pm pc]. reflexivity.
  Qed.

  Lemma tb_update_unfold : forall Si st z,
      tb_update Rops F Si st z =
      let K := mmul Rops N n n (mmul Rops N N n (cov st) (mtrans Rops n N (update_matrix Rops n))) Si in
      {| mean := vadd Rops N (mean st) (mvmul Rops N n K (vsub Rops n z (pmean st)));
         cov := msub Rops N N (cov st) (mmul Rops N n N (mmul Rops N n n K (Sm st)) (mtrans Rops N n K)) |}.
  Proof.
    intros Si st z. unfold tb_update, Sm, pmean.
    destruct (g_project Rops F (mean st) (cov st)) as [pm pc]. reflexivity.
  Qed.

  Lemma gain_entry : forall st, Sdiag st -> forall i j, (i < n)%nat -> (j < N)%nat ->
      mgetR (gainM st) i j = mgetR (cov st) j i / mgetR (Sm st) i i.
  Proof.
    intros st HS i j Hi Hj. unfold gainM.
    rewrite solve_lower_entry; try assumption.
    - f_equal. unfold mtrans at 1. rewrite mget_mtab by assumption.
      apply pht_entry; assumption.
    - intros k l Hl Hk. apply HS; lia.
  Qed.

  Lemma innovation_entry : forall st z i, (i < n)%nat ->
      vgetR (vsub Rops n z (pmean st)) i = vgetR z i - vgetR (mean st) i.
  Proof.
    intros st z i Hi. unfold vsub. rewrite vget_vtab by assumption. unfold pmean.
    rewrite project_mean_entry by assumption. reflexivity.
  Qed.

  (* the two results every update (code or textbook) produces when S is diagonal *)
  Definition upd_mean (st : kstate Rops) (z : Rvec) (j : nat) : R :=
    vgetR (mean st) j
    + Rsum n (fun i => (vgetR z i - vgetR (mean st) i) * (mgetR (cov st) j i / mgetR (Sm st) i i)).

  Definition upd_cov (st : kstate Rops) (i j : nat) : R :=
    mgetR (cov st) i j
    - Rsum n (fun l => (mgetR (cov st) i l / mgetR (Sm st) l l * mgetR (Sm st) l l)
                       * (mgetR (cov st) j l / mgetR (Sm st) l l)).

  Lemma code_update_mean : forall st z, Sdiag st -> forall j, (j < N)%nat ->
      vgetR (mean (g_update Rops F st z)) j = upd_mean st z j.
  Proof.
    intros st z HS j Hj. rewrite g_update_unfold. cbn [mean]. unfold vadd.
    rewrite vget_vtab by assumption. rewrite vget_vtab by assumption. unfold upd_mean. simplR. f_equal.
    apply Rsum_ext. intros i Hi. rewrite innovation_entry by assumption.
    rewrite gain_entry by assumption. reflexivity.
  Qed.

  Lemma Q2R_half : Q2R (1 # 2) = / 2.
  Proof. unfold Q2R. cbn. lra. Qed.

  (* the un-symmetrised difference P - K'^T S K' *)
  Lemma code_update_cov_raw : forall st, Sdiag st -> forall i j, (i < N)%nat -> (j < N)%nat ->
      mgetR (msub Rops N N (cov st)
                  (mmul Rops N n N (mmul Rops N n n (mtrans Rops n N (gainM st)) (Sm st)) (gainM st))) i j
      = upd_cov st i j.
  Proof.
    intros st HS i j Hi Hj. unfold msub.
    rewrite mget_mtab by assumption. unfold upd_cov. simplR. f_equal.
    unfold mmul at 1. rewrite mget_mtab by assumption.
    apply Rsum_ext. intros l Hl. rewrite (gain_entry st HS l j) by assumption. simplR. f_equal.
    unfold mmul. rewrite mget_mtab by assumption.
    rewrite (Rsum_single n _ l); try assumption.
    - unfold mtrans. rewrite mget_mtab by assumption. rewrite gain_entry by assumption. reflexivity.
    - intros k Hk Hne. rewrite (HS k l) by assumption. simplR. lra.
  Qed.

  Definition Psym (st : kstate Rops) : Prop :=
    forall i j, (i < N)%nat -> (j < N)%nat -> mgetR (cov st) i j = mgetR (cov st) j i.

  Lemma upd_cov_sym : forall st, Psym st -> forall i j, (i < N)%nat -> (j < N)%nat -> upd_cov st i j = upd_cov st j i.
  Proof.
    intros st HP i j Hi Hj. unfold upd_cov. rewrite (HP i j) by assumption. simplR. f_equal.
    apply Rsum_ext. intros l Hl. simplR. lra.
  Qed.

  (* what the code stores: the symmetrised difference; on a symmetric P symmetrising changes nothing *)
  Lemma code_update_cov : forall st z, Sdiag st -> Psym st -> forall i j, (i < N)%nat -> (j < N)%nat ->
      mgetR (cov (g_update Rops F st z)) i j = upd_cov st i j.
  Proof.
    intros st z HS HP i j Hi Hj. rewrite g_update_unfold. cbn [cov]. unfold msym.
    rewrite mget_mtab by assumption. rewrite !code_update_cov_raw by assumption.
    rewrite (upd_cov_sym st HP j i) by assumption. simplR. rewrite Q2R_half. lra.
  Qed.

  (* ---- the textbook side ---- *)
  Definition right_inverse (S Si : Rmat) : Prop :=
    forall i j, (i < n)%nat -> (j < n)%nat ->
                Rsum n (fun l => mgetR S i l * mgetR Si l j) = if Nat.eqb i j then 1 else 0.

  Lemma inverse_of_diag : forall st Si, Sdiag st -> (forall i, (i < n)%nat -> mgetR (Sm st) i i <> 0) ->
      right_inverse (Sm st) Si ->
      forall i j, (i < n)%nat -> (j < n)%nat ->
      mgetR Si i j = if Nat.eqb i j then / mgetR (Sm st) i i else 0.
  Proof.
    intros st Si HS Hnz Hinv i j Hi Hj. specialize (Hinv i j Hi Hj).
    rewrite (Rsum_single n _ i) in Hinv; try assumption.
    - simplR. specialize (Hnz i Hi). destruct (Nat.eqb i j).
      + apply (Rmult_eq_reg_l (mgetR (Sm st) i i)); [|assumption]. rewrite Hinv. field. assumption.
      + apply (Rmult_eq_reg_l (mgetR (Sm st) i i)); [|assumption]. rewrite Hinv. lra.
    - intros l Hl Hne. rewrite (HS i l) by (try assumption; lia). simplR. lra.
  Qed.

  Section Textbook.
    Variable st : kstate Rops.
    Variable Si : Rmat.
    Hypothesis HS : Sdiag st.
    Hypothesis Hnz : forall i, (i < n)%nat -> mgetR (Sm st) i i <> 0.
    Hypothesis Hinv : right_inverse (Sm st) Si.

    Let K := mmul Rops N n n (mmul Rops N N n (cov st) (mtrans Rops n N (update_matrix Rops n))) Si.

    Lemma K_entry : forall i j, (i < N)%nat -> (j < n)%nat ->
        mgetR K i j = mgetR (cov st) i j / mgetR (Sm st) j j.
    Proof.
      intros i j Hi Hj. unfold K. unfold mmul at 1. rewrite mget_mtab by assumption.
      rewrite (Rsum_single n _ j); try assumption.
      - rewrite pht_entry by assumption.
        rewrite (inverse_of_diag st Si HS Hnz Hinv j j Hj Hj). rewrite Nat.eqb_refl. reflexivity.
      - intros l Hl Hne. rewrite (inverse_of_diag st Si HS Hnz Hinv l j Hl Hj).
        destruct (Nat.eqb_spec l j); [contradiction|]. simplR. lra.
    Qed.

    Lemma tb_update_mean : forall z j, (j < N)%nat ->
        vgetR (mean (tb_update Rops F Si st z)) j = upd_mean st z j.
    Proof.
      intros z j Hj. rewrite tb_update_unfold. cbn zeta. cbn [mean]. unfold vadd.
      rewrite vget_vtab by assumption. unfold upd_mean. simplR. f_equal.
      unfold mvmul. rewrite vget_vtab by assumption.
      apply Rsum_ext. intros i Hi. rewrite innovation_entry by assumption.
      fold K. rewrite K_entry by assumption. simplR. lra.
    Qed.

    Lemma tb_update_cov : forall z i j, (i < N)%nat -> (j < N)%nat ->
        mgetR (cov (tb_update Rops F Si st z)) i j = upd_cov st i j.
    Proof.
      intros z i j Hi Hj. rewrite tb_update_unfold. cbn zeta. cbn [cov]. unfold msub.
      rewrite mget_mtab by assumption. unfold upd_cov. simplR. f_equal.
      unfold mmul at 1. rewrite mget_mtab by assumption.
      apply Rsum_ext. intros l Hl. fold K.
      unfold mtrans. rewrite mget_mtab by assumption. rewrite (K_entry j l) by assumption.
      simplR. f_equal.
      unfold mmul. rewrite mget_mtab by assumption. fold K.
      rewrite (Rsum_single n _ l); try assumption.
      - rewrite K_entry by assumption. reflexivity.
      - intros k Hk Hne. rewrite (HS k l) by assumption. simplR. lra.
    Qed.
  End Textbook.

  (* update_eq_textbook: when the innovation covariance is diagonal with non-zero diagonal, the code's update
     (triangular solve against the LOWER TRIANGLE of S) is the textbook update with ANY true (right) inverse of S. *)
  Theorem update_eq_textbook_diag : forall st z Si,
      Sdiag st -> Psym st -> (forall i, (i < n)%nat -> mgetR (Sm st) i i <> 0) -> right_inverse (Sm st) Si ->
      g_update Rops F st z = tb_update Rops F Si st z.
  Proof.
    intros st z Si HS HP Hnz Hinv.
    eapply (kstate_eq_tab N).
    - rewrite g_update_unfold. reflexivity.
    - rewrite tb_update_unfold. reflexivity.
    - rewrite g_update_unfold. reflexivity.
    - rewrite tb_update_unfold. reflexivity.
    - intros j Hj. rewrite code_update_mean, (tb_update_mean st Si HS Hnz Hinv) by assumption. reflexivity.
    - intros i j Hi Hj. rewrite code_update_cov, (tb_update_cov st Si HS Hnz Hinv) by assumption. reflexivity.
  Qed.
End Update.
