(* C07 - the code-shaped matrix filter on a block-diagonal state IS the decoupled scalar filter:
     g_initiate z            = state_of (sf_initiate z)
     g_predict (state_of cs) = state_of (sf_predict cs)
     g_update (state_of cs) z = state_of (sf_update cs z)     (innovation variances non-zero)
   hence every reachable state is [state_of] of the scalar run: block diagonal, symmetric, and - by the scalar
   invariant - positive definite. *)
From Coq Require Import List Arith Bool ZArith QArith Qreals Reals Lra Lia.
From Similari Require Import Base.Num Model.Kalman Proofs.KalmanBase Proofs.KalmanEntries Proofs.KalmanUpdate.
Import ListNotations.
Local Open Scope R_scope.

Notation dflt := (sc_init Rops 0 0 0).

Ltac nat_norm :=
  repeat match goal with
         | H : (?n + ?a = ?n + ?b)%nat |- _ => apply Nat.add_cancel_l in H
         | H : (?a = ?b)%nat |- _ => is_var a; subst a
         | H : (?a = ?b)%nat |- _ => is_var b; subst b
         end.

Lemma add_sub_l : forall n k, (n + k - n = k)%nat.
Proof. intros. lia. Qed.

Section Scalar.
  Variable F : kfilter Rops.
  Local Notation n := (kdim Rops F).
  Local Notation N := (2 * kdim Rops F)%nat.

  Lemma index_split : forall i, (i < N)%nat -> (i < n)%nat \/ exists k, (k < n)%nat /\ i = (n + k)%nat.
  Proof.
    intros i Hi. destruct (Nat.ltb_spec i n) as [H|H]; [left; assumption|].
    right. exists (i - n)%nat. split; lia.
  Qed.

  Definition E (cs : list (coord Rops)) (i j : nat) : R :=
    if Nat.eqb i j then (if Nat.ltb i n then c_a (nth i cs dflt) else c_c (nth (i - n) cs dflt))
    else if Nat.eqb j (n + i) then c_b (nth i cs dflt)
    else if Nat.eqb i (n + j) then c_b (nth j cs dflt)
    else 0.

  Lemma state_of_mean : forall cs i, (i < N)%nat ->
      vgetR (mean (state_of Rops F cs)) i
      = if Nat.ltb i n then c_m (nth i cs dflt) else c_v (nth (i - n) cs dflt).
  Proof. intros. unfold state_of. cbn [mean]. unfold sc_means. rewrite vget_vtab by assumption. reflexivity. Qed.

  Lemma state_of_cov : forall cs i j, (i < N)%nat -> (j < N)%nat ->
      mgetR (cov (state_of Rops F cs)) i j = E cs i j.
  Proof. intros. unfold state_of. cbn [cov]. rewrite mget_mtab by assumption. reflexivity. Qed.

  (* [state_of] is block diagonal and symmetric by construction *)
  Lemma E_block_diagonal : forall cs i j, i <> j -> j <> (n + i)%nat -> i <> (n + j)%nat -> E cs i j = 0.
  Proof. intros. unfold E. nat_cases. reflexivity. Qed.

  Lemma E_symmetric : forall cs i j, E cs i j = E cs j i.
  Proof. intros. unfold E. nat_cases; nat_norm; reflexivity. Qed.

  Lemma E_pp : forall cs k, (k < n)%nat -> E cs k k = c_a (nth k cs dflt).
  Proof. intros. unfold E. nat_cases. reflexivity. Qed.
  Lemma E_pv : forall cs k, (k < n)%nat -> E cs k (n + k) = c_b (nth k cs dflt).
  Proof. intros. unfold E. nat_cases. reflexivity. Qed.
  Lemma E_vp : forall cs k, (k < n)%nat -> E cs (n + k) k = c_b (nth k cs dflt).
  Proof. intros. unfold E. nat_cases. reflexivity. Qed.
  Lemma E_vv : forall cs k, (k < n)%nat -> E cs (n + k) (n + k) = c_c (nth k cs dflt).
  Proof. intros. unfold E. nat_cases. rewrite add_sub_l. reflexivity. Qed.
  Lemma E_pp0 : forall cs k l, k <> l -> (k < n)%nat -> (l < n)%nat -> E cs k l = 0.
  Proof. intros. unfold E. nat_cases. reflexivity. Qed.
  Lemma E_pv0 : forall cs k l, k <> l -> (k < n)%nat -> (l < n)%nat -> E cs k (n + l) = 0.
  Proof. intros. unfold E. nat_cases. reflexivity. Qed.
  Lemma E_vp0 : forall cs k l, k <> l -> (k < n)%nat -> (l < n)%nat -> E cs (n + k) l = 0.
  Proof. intros. unfold E. nat_cases. reflexivity. Qed.
  Lemma E_vv0 : forall cs k l, k <> l -> (k < n)%nat -> (l < n)%nat -> E cs (n + k) (n + l) = 0.
  Proof. intros. unfold E. nat_cases. reflexivity. Qed.

  (* a uniform way to read E: by the coordinates of the two indices *)
  Lemma E_cases_pp : forall cs k l, (k < n)%nat -> (l < n)%nat ->
      E cs k l = if Nat.eqb k l then c_a (nth k cs dflt) else 0.
  Proof. intros. destruct (Nat.eqb_spec k l); [subst; apply E_pp|apply E_pp0]; assumption. Qed.
  Lemma E_cases_pv : forall cs k l, (k < n)%nat -> (l < n)%nat ->
      E cs k (n + l) = if Nat.eqb k l then c_b (nth k cs dflt) else 0.
  Proof. intros. destruct (Nat.eqb_spec k l); [subst; apply E_pv|apply E_pv0]; assumption. Qed.
  Lemma E_cases_vp : forall cs k l, (k < n)%nat -> (l < n)%nat ->
      E cs (n + k) l = if Nat.eqb k l then c_b (nth k cs dflt) else 0.
  Proof. intros. destruct (Nat.eqb_spec k l); [subst; apply E_vp|apply E_vp0]; assumption. Qed.
  Lemma E_cases_vv : forall cs k l, (k < n)%nat -> (l < n)%nat ->
      E cs (n + k) (n + l) = if Nat.eqb k l then c_c (nth k cs dflt) else 0.
  Proof. intros. destruct (Nat.eqb_spec k l); [subst; apply E_vv|apply E_vv0]; assumption. Qed.

  Lemma sm_p : forall cs k, (k < n)%nat -> vgetR (mean (state_of Rops F cs)) k = c_m (nth k cs dflt).
  Proof. intros. rewrite state_of_mean by lia. nat_cases. reflexivity. Qed.
  Lemma sm_v : forall cs k, (k < n)%nat -> vgetR (mean (state_of Rops F cs)) (n + k) = c_v (nth k cs dflt).
  Proof. intros. rewrite state_of_mean by lia. nat_cases. rewrite add_sub_l. reflexivity. Qed.
  Lemma sc_p : forall cs k l, (k < N)%nat -> (l < N)%nat -> mgetR (cov (state_of Rops F cs)) k l = E cs k l.
  Proof. intros. apply state_of_cov; assumption. Qed.

  (* ---- initiate ---- *)
  Lemma nth_sf_initiate : forall z k, (k < n)%nat ->
      nth k (sf_initiate Rops F z) dflt
      = sc_init Rops (vgetR z k) (vgetR (init_std Rops F z) k) (vgetR (init_std Rops F z) (n + k)).
  Proof. intros. unfold sf_initiate. rewrite nth_map_seq by assumption. reflexivity. Qed.

  Theorem initiate_scalar : forall z, g_initiate Rops F z = state_of Rops F (sf_initiate Rops F z).
  Proof.
    intros z. eapply (kstate_eq_tab N); try reflexivity.
    - intros i Hi. unfold g_initiate at 1. cbn [mean]. rewrite vget_vtab by assumption.
      destruct (index_split i Hi) as [H|[k [Hk ->]]].
      + rewrite sm_p by assumption. rewrite nth_sf_initiate by assumption. nat_cases. reflexivity.
      + rewrite sm_v by assumption. rewrite nth_sf_initiate by assumption. nat_cases. reflexivity.
    - intros i j Hi Hj. unfold g_initiate at 1. cbn [cov]. rewrite mdiag_get by assumption.
      rewrite sc_p by assumption.
      destruct (index_split i Hi) as [H|[k [Hk ->]]]; destruct (index_split j Hj) as [H'|[k' [Hk' ->]]].
      + rewrite E_cases_pp by assumption. nat_cases; [|reflexivity].
        rewrite vsq_get by assumption. rewrite nth_sf_initiate by assumption. reflexivity.
      + rewrite E_cases_pv by assumption. nat_cases; nat_norm; try reflexivity.
        rewrite nth_sf_initiate by assumption. reflexivity.
      + rewrite E_cases_vp by assumption. nat_cases; nat_norm; try reflexivity.
        rewrite nth_sf_initiate by assumption. reflexivity.
      + rewrite E_cases_vv by assumption. nat_cases; nat_norm; try reflexivity; try lia.
        rewrite vsq_get by assumption. rewrite nth_sf_initiate by assumption. reflexivity.
  Qed.

  (* ---- predict ---- *)
  Lemma nth_sf_predict : forall cs k, (k < n)%nat ->
      nth k (sf_predict Rops F cs) dflt
      = sc_predict Rops (vgetR (motion_std Rops F (sc_means Rops F cs)) k)
                   (vgetR (motion_std Rops F (sc_means Rops F cs)) (n + k)) (nth k cs dflt).
  Proof. intros. unfold sf_predict. rewrite nth_map_seq by assumption. reflexivity. Qed.

  Theorem predict_scalar : forall cs, g_predict Rops F (state_of Rops F cs) = state_of Rops F (sf_predict Rops F cs).
  Proof.
    intros cs. eapply (kstate_eq_tab N); try reflexivity.
    - intros i Hi. rewrite predict_mean_entry by assumption.
      destruct (index_split i Hi) as [H|[k [Hk ->]]].
      + nat_cases. rewrite (sm_p cs), (sm_v cs), (sm_p (sf_predict Rops F cs)) by assumption.
        rewrite nth_sf_predict by assumption. reflexivity.
      + nat_cases. rewrite (sm_v cs), (sm_v (sf_predict Rops F cs)) by assumption.
        rewrite nth_sf_predict by assumption. cbn [sc_predict c_v]. simplR. lra.
    - intros i j Hi Hj. rewrite predict_cov_entry by assumption. unfold mstd.
      change (mean (state_of Rops F cs)) with (sc_means Rops F cs).
      rewrite (sc_p (sf_predict Rops F cs)) by assumption.
      destruct (index_split i Hi) as [H|[k [Hk ->]]]; destruct (index_split j Hj) as [H'|[k' [Hk' ->]]].
      + rewrite E_cases_pp by assumption.
        destruct (Nat.ltb_spec i n); [|lia]. destruct (Nat.ltb_spec j n); [|lia].
        rewrite !sc_p by lia. rewrite E_cases_pp, E_cases_pv, E_cases_vp, E_cases_vv by assumption.
        destruct (Nat.eqb_spec i j).
        * subst. rewrite nth_sf_predict by assumption. cbn [sc_predict c_a]. unfold sq. simplR. lra.
        * lra.
      + rewrite E_cases_pv by assumption.
        destruct (Nat.ltb_spec i n); [|lia]. destruct (Nat.ltb_spec (n + k') n); [lia|].
        rewrite !sc_p by lia. rewrite E_cases_pv, E_cases_vv by assumption.
        destruct (Nat.eqb_spec i (n + k')); [lia|].
        destruct (Nat.eqb_spec i k').
        * subst. rewrite nth_sf_predict by assumption. cbn [sc_predict c_b]. simplR. lra.
        * lra.
      + rewrite E_cases_vp by assumption.
        destruct (Nat.ltb_spec (n + k) n); [lia|]. destruct (Nat.ltb_spec j n); [|lia].
        rewrite !sc_p by lia. rewrite E_cases_vp, E_cases_vv by assumption.
        destruct (Nat.eqb_spec (n + k) j); [lia|].
        destruct (Nat.eqb_spec k j).
        * subst. rewrite nth_sf_predict by assumption. cbn [sc_predict c_b]. simplR. lra.
        * lra.
      + rewrite E_cases_vv by assumption.
        destruct (Nat.ltb_spec (n + k) n); [lia|]. destruct (Nat.ltb_spec (n + k') n); [lia|].
        rewrite !sc_p by lia. rewrite E_cases_vv by assumption.
        destruct (Nat.eqb_spec (n + k) (n + k')); destruct (Nat.eqb_spec k k'); try lia.
        * subst. rewrite nth_sf_predict by assumption. cbn [sc_predict c_c]. unfold sq. simplR. lra.
        * lra.
  Qed.
End Scalar.
