(* The sqrt-free form of the too_far test is the sqrt form (over the reals; the only C08 statement that needs the
   Stdlib real-number axioms). *)
From Coq Require Import Reals Lra Psatz.
Open Scope R_scope.

Lemma too_far_sqrt_form_lemma (d2 r1 r2 : R) : 0 <= r1 -> 0 <= r2 ->
  ((sqrt r1 + sqrt r2) * (sqrt r1 + sqrt r2) < d2 <->
   (0 < d2 - r1 - r2 /\ 4 * r1 * r2 < (d2 - r1 - r2) * (d2 - r1 - r2))).
Proof.
  intros H1 H2.
  pose proof (sqrt_pos r1) as P1. pose proof (sqrt_pos r2) as P2.
  pose proof (sqrt_sqrt r1 H1) as S1. pose proof (sqrt_sqrt r2 H2) as S2.
  set (a := sqrt r1) in *. set (b := sqrt r2) in *.
  assert (E : (a + b) * (a + b) = r1 + r2 + 2 * (a * b)) by (rewrite <- S1, <- S2; ring).
  assert (M : (a * b) * (a * b) = r1 * r2) by (rewrite <- S1, <- S2; ring).
  assert (M0 : 0 <= a * b) by (apply Rmult_le_pos; assumption).
  rewrite E. set (m := a * b) in *. set (K := d2 - r1 - r2).
  split.
  - intros L. assert (KL : 2 * m < K) by (unfold K; lra). split; [lra|]. nra.
  - intros [K0 K1]. assert (KL : 2 * m < K).
    { destruct (Rlt_le_dec (2 * m) K) as [|G]; [assumption|]. exfalso. nra. }
    unfold K in KL. lra.
Qed.
