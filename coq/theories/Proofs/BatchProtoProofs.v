(* Lemmas about Model/BatchProto.v *)
From Coq Require Import List NArith Bool Arith Lia Permutation.
From Similari Require Import Model.BatchProto.
Import ListNotations.

Section BatchProofs.
  Variable SC : Type.
  Variable DET : Type.
  Variable JD : Type.
  Variable REC : Type.
  Variable sc0 : SC.
  Variable prep : SC -> list DET -> SC * JD.
  Variable write : SC -> JD -> nat -> SC * REC * bool.
  Variable V : nat.
  Variable batches : list (batch DET).
  Variable lazy : bool.

  Notation state := (bstate SC DET JD REC).
  Notation entryT := (entry JD REC).
  Notation FIRE := (bfire SC DET JD REC prep write V batches lazy).
  Notation RUN := (brun SC DET JD REC prep write V batches lazy).
  Notation FINAL := (bfinal SC DET JD REC batches).
  Notation INIT := (init SC DET JD REC sc0).
  Notation nb := (length batches).

  (* ---------------------------------------------------------------------------------------------- *)
  (* the queue encoding *)

  Lemma first_split v (l : list entryT) e :
    first v l = Some e ->
    exists l1 l2, l = l1 ++ e :: l2 /\ ev e = v /\ (forall x, In x l1 -> ev x <> v) /\
                  (forall e', upd_first v e' l = l1 ++ e' :: l2) /\ remove_first v l = l1 ++ l2.
  Proof.
    induction l as [|a l IH]; cbn; [discriminate|].
    destruct (Nat.eqb (ev a) v) eqn:E; intro H.
    - injection H as ->. exists [], l. cbn. apply Nat.eqb_eq in E.
      split; [reflexivity|]. split; [exact E|]. split; [intros x []|]. split; [reflexivity|reflexivity].
    - destruct (IH H) as (l1 & l2 & -> & Hv & Hn & Hu & Hr).
      exists (a :: l1), l2. cbn. try rewrite E.
      split; [reflexivity|]. split; [exact Hv|]. split.
      + intros x [<-|Hx]; [now apply Nat.eqb_neq|auto].
      + split; [intro e'; now rewrite Hu|now rewrite Hr].
  Qed.

  Lemma first_none v (l : list entryT) : first v l = None <-> forall x, In x l -> ev x <> v.
  Proof.
    induction l as [|a l IH]; cbn.
    { split; [intros _ x []|reflexivity]. }
    destruct (Nat.eqb (ev a) v) eqn:E.
    - apply Nat.eqb_eq in E. split; [discriminate|]. intro H. exfalso. apply (H a); auto.
    - apply Nat.eqb_neq in E. rewrite IH. split.
      + intros H x [<-|Hx]; auto.
      + intros H x Hx. apply H. now right.
  Qed.

  Lemma first_some_of_in (l : list entryT) e : In e l -> exists e', first (ev e) l = Some e'.
  Proof.
    intro H. destruct (first (ev e) l) eqn:E; [eauto|].
    exfalso. rewrite first_none in E. apply (E e H). reflexivity.
  Qed.

  (* ---------------------------------------------------------------------------------------------- *)
  (* steps as a relation with explicit successor states *)

  Inductive bstep (st : state) : state -> Prop :=
  | S_shutdown0 b : pc st = MWait b -> nb <= b ->
      bstep st (mkB (MDropSend 0) (scs st) (counter st) (mons st) (jobs st) (xsent st) (xdone st) (chans st) (consumed st))
  | S_wait b : pc st = MWait b -> b < nb -> (b = 0 \/ exists b', b = S b' /\ mons st b' = 0) ->
      bstep st (mkB (MDisp b (nth b batches []) 0) (scs st) (counter st)
                    (upd (mons st) b (length (nth b batches []))) (jobs st) (xsent st) (xdone st) (chans st) (consumed st))
  | S_disp_end b i : pc st = MDisp b [] i ->
      bstep st (mkB (after_batch DET batches b) (scs st) (counter st) (mons st) (jobs st) (xsent st) (xdone st) (chans st) (consumed st))
  | S_disp b s ds rest i sc1 d : pc st = MDisp b ((s, ds) :: rest) i -> prep (scs st s) ds = (sc1, d) ->
      bstep st (mkB (MDisp b rest (S i)) (updN (scs st) s sc1) (counter st) (mons st)
                    (jobs st ++ [mkE (Nat.modulo i V) (mkJob b s (length ds) d) Queued])
                    (xsent st) (xdone st) (chans st) (consumed st))
  | S_dropsend v : pc st = MDropSend v -> v < V ->
      bstep st (mkB (MDropJoin v) (scs st) (counter st) (mons st) (jobs st) (upd (xsent st) v true) (xdone st)
                    (chans st) (consumed st))
  | S_dropend v : pc st = MDropSend v -> V <= v ->
      bstep st (mkB MDone (scs st) (counter st) (mons st) (jobs st) (xsent st) (xdone st) (chans st) (consumed st))
  | S_join v : pc st = MDropJoin v -> xdone st v = true ->
      bstep st (mkB (MDropSend (S v)) (scs st) (counter st) (mons st) (jobs st) (xsent st) (xdone st)
                    (chans st) (consumed st))
  | S_exit v : v < V -> first v (jobs st) = None -> xsent st v = true -> xdone st v = false ->
      bstep st (mkB (pc st) (scs st) (counter st) (mons st) (jobs st) (xsent st) (upd (xdone st) v true)
                    (chans st) (consumed st))
  | S_begin v e : v < V -> first v (jobs st) = Some e -> ep e = Queued ->
      bstep st (mkB (pc st) (scs st) (counter st) (mons st) (upd_first v (mkE v (ej e) (Work 0 [])) (jobs st))
                    (xsent st) (xdone st) (chans st) (consumed st))
  | S_write v e i acc sc1 r created : v < V -> first v (jobs st) = Some e -> ep e = Work i acc -> i < jn (ej e) ->
      write (scs st (js (ej e))) (jd (ej e)) i = (sc1, r, created) ->
      bstep st (mkB (pc st) (updN (scs st) (js (ej e)) sc1) (counter st + 1)%N (mons st)
                    (upd_first v (mkE v (ej e) (Work (S i) (acc ++ [(r, if created then Some (counter st + 1)%N else None)]))) (jobs st))
                    (xsent st) (xdone st) (chans st) (consumed st))
  | S_send v e i acc : v < V -> first v (jobs st) = Some e -> ep e = Work i acc -> jn (ej e) <= i ->
      chans st (jb (ej e)) = [] ->
      bstep st (mkB (pc st) (scs st) (counter st) (mons st) (upd_first v (mkE v (ej e) Sent) (jobs st))
                    (xsent st) (xdone st) (upd (chans st) (jb (ej e)) [(js (ej e), acc)]) (consumed st))
  | S_dec v e : v < V -> first v (jobs st) = Some e -> ep e = Sent ->
      bstep st (mkB (pc st) (scs st) (counter st) (upd (mons st) (jb (ej e)) (pred (mons st (jb (ej e)))))
                    (remove_first v (jobs st)) (xsent st) (xdone st) (chans st) (consumed st))
  | S_consume b r rest : chans st b = r :: rest -> (lazy = false \/ submitted_all st = true) ->
      bstep st (mkB (pc st) (scs st) (counter st) (mons st) (jobs st) (xsent st) (xdone st)
                    (upd (chans st) b rest) (upd (consumed st) b (consumed st b ++ [r]))).

  Lemma fire_step st l st' : FIRE st l = Some st' -> bstep st st'.
  Proof.
    destruct l as [|v|b]; cbn [bfire].
    - unfold main_step. destruct (pc st) as [b|b rest i|v|v|] eqn:Epc.
      + destruct (Nat.leb nb b) eqn:El.
        * intro H. injection H as <-. apply Nat.leb_le in El. eapply S_shutdown0; eauto.
        * apply Nat.leb_gt in El. destruct b as [|b'].
          -- intro H. injection H as <-. eapply S_wait; eauto.
          -- destruct (Nat.eqb (mons st b') 0) eqn:Em; [|discriminate].
             intro H. injection H as <-. apply Nat.eqb_eq in Em. eapply S_wait; eauto.
      + destruct rest as [|[s ds] rest].
        * intro H. injection H as <-. eapply S_disp_end; eauto.
        * destruct (prep (scs st s) ds) as [sc1 d] eqn:Ep. intro H. injection H as <-. eapply S_disp; eauto.
      + destruct (Nat.ltb v V) eqn:Ev; intro H; injection H as <-.
        * apply Nat.ltb_lt in Ev. eapply S_dropsend; eauto.
        * apply Nat.ltb_ge in Ev. eapply S_dropend; eauto.
      + destruct (xdone st v) eqn:Ex; [|discriminate]. intro H. injection H as <-. eapply S_join; eauto.
      + discriminate.
    - unfold vote_step. destruct (Nat.ltb v V) eqn:Ev; cbn [negb]; [|discriminate]. apply Nat.ltb_lt in Ev.
      destruct (first v (jobs st)) as [e|] eqn:Ef.
      + destruct (ep e) as [|i acc|] eqn:Ee.
        * intro H. injection H as <-. eapply S_begin; eauto.
        * destruct (Nat.ltb i (jn (ej e))) eqn:Ei.
          -- apply Nat.ltb_lt in Ei.
             destruct (write (scs st (js (ej e))) (jd (ej e)) i) as [[sc1 r] created] eqn:Ew.
             intro H. injection H as <-. eapply S_write; eauto.
          -- apply Nat.ltb_ge in Ei. destruct (chans st (jb (ej e))) eqn:Ec; [|discriminate].
             intro H. injection H as <-. eapply S_send; eauto.
        * intro H. injection H as <-. eapply S_dec; eauto.
      + destruct (xsent st v) eqn:E1; cbn [andb]; [|discriminate].
        destruct (xdone st v) eqn:E2; cbn [negb]; [discriminate|].
        intro H. injection H as <-. eapply S_exit; eauto.
    - unfold consume_step.
      destruct (lazy && negb (submitted_all st)) eqn:El; [discriminate|].
      destruct (chans st b) as [|r rest] eqn:Ec; [discriminate|].
      intro H. injection H as <-. eapply S_consume; eauto.
      destruct lazy; [right|left; reflexivity]. cbn in El. now apply negb_false_iff in El.
  Qed.

  (* ---------------------------------------------------------------------------------------------- *)
  (* bookkeeping functions *)

  Definition ejb (e : entryT) : nat := jb (ej e).
  Definition ejs (e : entryT) : N := js (ej e).
  Definition jobs_of (b : nat) (l : list entryT) : list (job JD) := filter (fun j => Nat.eqb (jb j) b) (map ej l).
  Definition unsent (e : entryT) : bool := match ep e with Sent => false | _ => true end.
  Definition pending (b : nat) (l : list entryT) : list N :=
    flat_map (fun e => if Nat.eqb (ejb e) b && unsent e then [ejs e] else []) l.

  Definition undisp (st : state) (b : nat) : batch DET :=
    match pc st with
    | MWait b0 => if Nat.ltb b b0 then [] else nth b batches []
    | MDisp b0 rest _ => if Nat.ltb b b0 then [] else if Nat.eqb b b0 then rest else nth b batches []
    | _ => []
    end.

  Definition is_created (st : state) (b : nat) : bool :=
    match pc st with
    | MWait b0 => Nat.ltb b b0
    | MDisp b0 _ _ => Nat.leb b b0
    | _ => true
    end.

  Definition settled (st : state) (b : nat) : bool :=
    match pc st with
    | MWait b0 => Nat.ltb (S b) b0
    | MDisp b0 _ _ => Nat.ltb b b0
    | _ => Nat.ltb (S b) nb
    end.

  Definition joined (st : state) (v : nat) : bool :=
    match pc st with
    | MDropSend v' => Nat.ltb v v'
    | MDropJoin v' => Nat.ltb v v'
    | MDone => true
    | _ => false
    end.

  Definition running (st : state) : bool :=
    match pc st with MWait _ | MDisp _ _ _ => true | _ => false end.

  Record Inv (st : state) : Prop := {
    inv_ev : forall e, In e (jobs st) -> ev e < V;
    inv_jb : forall e, In e (jobs st) -> ejb e < nb;
    inv_pcb : forall b rest i, pc st = MDisp b rest i -> b < nb;
    inv_mon : forall b, is_created st b = true -> mons st b = length (jobs_of b (jobs st)) + length (undisp st b);
    inv_nocre : forall b, is_created st b = false -> mons st b = 0 /\ jobs_of b (jobs st) = [];
    inv_zero : forall b, settled st b = true -> mons st b = 0;
    inv_acc : forall b, Permutation (map fst (consumed st b) ++ map fst (chans st b) ++ pending b (jobs st) ++ map fst (undisp st b))
                                    (map fst (nth b batches []));
    inv_cap : forall b, length (chans st b) <= 1;
    inv_run : running st = true -> forall v, xsent st v = false /\ xdone st v = false;
    inv_join : forall v, v < V -> joined st v = true -> xdone st v = true;
    inv_joinpc : forall v, pc st = MDropJoin v -> v < V /\ xsent st v = true;
    inv_xdone : forall v, xdone st v = true -> first v (jobs st) = None
  }.

  Lemma jobs_of_app b (l1 l2 : list entryT) : jobs_of b (l1 ++ l2) = jobs_of b l1 ++ jobs_of b l2.
  Proof. unfold jobs_of. now rewrite map_app, filter_app. Qed.

  Lemma pending_app b (l1 l2 : list entryT) : pending b (l1 ++ l2) = pending b l1 ++ pending b l2.
  Proof. unfold pending. now rewrite flat_map_app. Qed.

  Lemma jobs_of_mid b (l1 l2 : list entryT) e :
    jobs_of b (l1 ++ e :: l2) = jobs_of b l1 ++ jobs_of b [e] ++ jobs_of b l2.
  Proof. change (e :: l2) with ([e] ++ l2). now rewrite !jobs_of_app. Qed.

  Lemma pending_single b (e : entryT) :
    pending b [e] = if Nat.eqb (ejb e) b && unsent e then [ejs e] else [].
  Proof. unfold pending. cbn. now rewrite app_nil_r. Qed.

  Lemma pending_mid b (l1 l2 : list entryT) e :
    pending b (l1 ++ e :: l2) = pending b l1 ++ pending b [e] ++ pending b l2.
  Proof. change (e :: l2) with ([e] ++ l2). now rewrite !pending_app. Qed.

  Lemma upd_same {A} (f : nat -> A) k x : upd f k x k = x.
  Proof. unfold upd. now rewrite Nat.eqb_refl. Qed.

  Lemma upd_other {A} (f : nat -> A) k x j : j <> k -> upd f k x j = f j.
  Proof. unfold upd. intro H. apply Nat.eqb_neq in H. now rewrite H. Qed.

  Lemma inv_init : Inv INIT.
  Proof.
    constructor; cbn; try (intros; contradiction); try (intros; discriminate); auto.
    all: try (intros b H; destruct b; discriminate).
  Qed.

  Lemma jobs_of_single_other b (e : entryT) : ejb e <> b -> jobs_of b [e] = [].
  Proof. unfold jobs_of, ejb. cbn. intro H. apply Nat.eqb_neq in H. now rewrite H. Qed.

  Lemma jobs_of_single_same (e : entryT) : jobs_of (ejb e) [e] = [ej e].
  Proof. unfold jobs_of, ejb. cbn. now rewrite Nat.eqb_refl. Qed.

  Lemma first_none_mono v (l l' : list entryT) :
    (forall x, In x l' -> exists y, In y l /\ ev y = ev x) -> first v l = None -> first v l' = None.
  Proof.
    rewrite !first_none. intros H Hn x Hx. destruct (H x Hx) as (y & Hy & <-). now apply Hn.
  Qed.

  Hypothesis HV : 0 < V.

  Ltac keep I :=
    first [ discriminate
          | intros; eapply (inv_pcb _ I); eassumption
          | intros; apply (inv_ev _ I); assumption
          | intros; apply (inv_jb _ I); assumption
          | let b' := fresh in let Hc := fresh in intros b' Hc; apply (inv_mon _ I b' Hc)
          | let b' := fresh in let Hc := fresh in intros b' Hc; apply (inv_nocre _ I b' Hc)
          | let b' := fresh in let Hc := fresh in intros b' Hc; apply (inv_zero _ I b' Hc)
          | let b' := fresh in intro b'; apply (inv_acc _ I b')
          | let b' := fresh in intro b'; apply (inv_cap _ I b')
          | let Hr := fresh in let v0 := fresh in intros Hr v0; apply (inv_run _ I Hr v0)
          | let v0 := fresh in let Hv := fresh in let Hj := fresh in intros v0 Hv Hj; apply (inv_join _ I v0 Hv Hj)
          | let v0 := fresh in let Hp := fresh in intros v0 Hp; apply (inv_joinpc _ I v0 Hp)
          | let v0 := fresh in let Hx := fresh in intros v0 Hx; apply (inv_xdone _ I v0 Hx) ].

  Lemma inv_step st st' : Inv st -> bstep st st' -> Inv st'.
  Proof.
    intros I S. destruct S.
    - (* S_shutdown0 *)
      assert (Hu : forall b', undisp (mkB (MDropSend 0) (scs st) (counter st) (mons st) (jobs st) (xsent st) (xdone st) (chans st) (consumed st)) b' = undisp st b').
      { intro b'. unfold undisp. cbn [pc]. rewrite H. destruct (Nat.ltb b' b) eqn:E; [reflexivity|].
        apply Nat.ltb_ge in E. symmetry. apply nth_overflow. lia. }
      constructor; cbn [pc scs counter mons jobs xsent xdone chans consumed];
        try (keep I).
      + intros b' _. rewrite Hu. destruct (is_created st b') eqn:Ec.
        * now apply (inv_mon _ I).
        * destruct (inv_nocre _ I b' Ec) as (-> & ->). unfold is_created in Ec. rewrite H in Ec.
          apply Nat.ltb_ge in Ec. unfold undisp. rewrite H. apply Nat.ltb_ge in Ec. rewrite Ec.
          rewrite nth_overflow by (apply Nat.ltb_ge in Ec; lia). reflexivity.
      + intros b' Hs. unfold settled in Hs. cbn [pc] in Hs. apply (inv_zero _ I). unfold settled. rewrite H.
        apply Nat.ltb_lt in Hs. apply Nat.ltb_lt. lia.
      + intro b'. rewrite Hu. apply (inv_acc _ I).
    - (* S_wait *)
      set (st' := mkB (MDisp b (nth b batches []) 0) (scs st) (counter st) (upd (mons st) b (length (nth b batches [])))
                      (jobs st) (xsent st) (xdone st) (chans st) (consumed st)).
      assert (Hu : forall b', undisp st' b' = undisp st b').
      { intro b'. unfold undisp, st'. cbn [pc]. rewrite H. destruct (Nat.ltb b' b) eqn:E; [reflexivity|].
        destruct (Nat.eqb b' b) eqn:E2; [|reflexivity]. apply Nat.eqb_eq in E2. now subst. }
      constructor; fold st'; cbn [pc scs counter mons jobs xsent xdone chans consumed st'];
        try (keep I).
      + intros b0 rest i Hp. injection Hp as <- _ _. exact H0.
      + intros b' Hc. rewrite Hu. unfold is_created in Hc. cbn [pc st'] in Hc. apply Nat.leb_le in Hc.
        destruct (Nat.eq_dec b' b) as [->|Hne].
        * rewrite upd_same. assert (Hn : is_created st b = false) by (unfold is_created; rewrite H; apply Nat.ltb_irrefl).
          destruct (inv_nocre _ I b Hn) as (_ & ->). unfold undisp. rewrite H, Nat.ltb_irrefl. reflexivity.
        * rewrite upd_other by exact Hne. apply (inv_mon _ I). unfold is_created. rewrite H. apply Nat.ltb_lt. lia.
      + intros b' Hc. unfold is_created in Hc. cbn [pc st'] in Hc. apply Nat.leb_gt in Hc.
        rewrite upd_other by lia. apply (inv_nocre _ I). unfold is_created. rewrite H. apply Nat.ltb_ge. lia.
      + intros b' Hs. unfold settled in Hs. cbn [pc st'] in Hs. apply Nat.ltb_lt in Hs.
        rewrite upd_other by lia.
        destruct H1 as [->|(b'' & -> & Hz)]; [lia|].
        destruct (Nat.eq_dec b' b'') as [->|Hne]; [exact Hz|].
        apply (inv_zero _ I). unfold settled. rewrite H. apply Nat.ltb_lt. lia.
      + intro b'. rewrite Hu. apply (inv_acc _ I).
      + intros _. apply (inv_run _ I). unfold running. now rewrite H.
    - (* S_disp_end *)
      set (st' := mkB (after_batch DET batches b) (scs st) (counter st) (mons st) (jobs st) (xsent st) (xdone st) (chans st) (consumed st)).
      assert (Hu : forall b', undisp st' b' = undisp st b').
      { intro b'. unfold undisp, st', after_batch. cbn [pc]. rewrite H.
        destruct (Nat.ltb (S b) nb) eqn:En.
        - destruct (Nat.ltb b' (S b)) eqn:E1.
          + apply Nat.ltb_lt in E1. destruct (Nat.ltb b' b) eqn:E2; [reflexivity|].
            apply Nat.ltb_ge in E2. assert (b' = b) by lia. subst. now rewrite Nat.eqb_refl.
          + apply Nat.ltb_ge in E1. assert (E2 : Nat.ltb b' b = false) by (apply Nat.ltb_ge; lia).
            assert (E3 : Nat.eqb b' b = false) by (apply Nat.eqb_neq; lia). now rewrite E2, E3.
        - apply Nat.ltb_ge in En. destruct (Nat.ltb b' b) eqn:E2; [reflexivity|].
          destruct (Nat.eqb b' b) eqn:E3; [reflexivity|].
          apply Nat.ltb_ge in E2. apply Nat.eqb_neq in E3. symmetry. apply nth_overflow. lia. }
      constructor; fold st'; cbn [scs counter mons jobs xsent xdone chans consumed st'];
        try (keep I).
      + intros b0 rest i0 Hp. unfold st', after_batch in Hp. cbn [pc] in Hp.
        destruct (Nat.ltb (S b) nb); discriminate.
      + intros b' Hc. rewrite Hu. destruct (is_created st b') eqn:Ec; [now apply (inv_mon _ I)|].
        destruct (inv_nocre _ I b' Ec) as (-> & ->). unfold is_created in Ec. rewrite H in Ec. apply Nat.leb_gt in Ec.
        unfold undisp. rewrite H. assert (E2 : Nat.ltb b' b = false) by (apply Nat.ltb_ge; lia).
        assert (E3 : Nat.eqb b' b = false) by (apply Nat.eqb_neq; lia). rewrite E2, E3.
        unfold is_created, st', after_batch in Hc. cbn [pc] in Hc.
        destruct (Nat.ltb (S b) nb) eqn:En.
        * apply Nat.ltb_lt in Hc. lia.
        * apply Nat.ltb_ge in En. rewrite nth_overflow by lia. reflexivity.
      + intros b' Hc. apply (inv_nocre _ I). unfold is_created in *. rewrite H. unfold st', after_batch in Hc. cbn [pc] in Hc.
        destruct (Nat.ltb (S b) nb); [|discriminate]. apply Nat.ltb_ge in Hc. apply Nat.leb_gt. lia.
      + intros b' Hs. apply (inv_zero _ I). unfold settled in *. rewrite H. unfold st', after_batch in Hs. cbn [pc] in Hs.
        destruct (Nat.ltb (S b) nb) eqn:En; apply Nat.ltb_lt in Hs; apply Nat.ltb_lt.
        * lia.
        * apply Nat.ltb_ge in En. lia.
      + intro b'. rewrite Hu. apply (inv_acc _ I).
      + intros Hr. apply (inv_run _ I). unfold running. now rewrite H.
      + intros v Hv Hj. unfold joined, st', after_batch in Hj. cbn [pc] in Hj.
        destruct (Nat.ltb (S b) nb); [discriminate|]. destruct v; discriminate.
      + intros v Hp. unfold st', after_batch in Hp. cbn [pc] in Hp. destruct (Nat.ltb (S b) nb); discriminate.
    - (* S_disp *)
      set (e0 := mkE (Nat.modulo i V) (mkJob b s (length ds) d) (@Queued REC)).
      set (st' := mkB (MDisp b rest (S i)) (updN (scs st) s sc1) (counter st) (mons st) (jobs st ++ [e0])
                      (xsent st) (xdone st) (chans st) (consumed st)).
      pose proof (inv_pcb _ I _ _ _ H) as Hb.
      assert (Hrun : running st = true) by (unfold running; now rewrite H).
      constructor; fold e0; fold st'; cbn [pc scs counter mons jobs xsent xdone chans consumed st'];
        try (keep I).
      + intros e He. apply in_app_or in He. destruct He as [He|[<-|[]]]; [now apply I|].
        cbn. apply Nat.mod_upper_bound. lia.
      + intros e He. apply in_app_or in He. destruct He as [He|[<-|[]]]; [now apply I|]. exact Hb.
      + intros b0 rest0 i0 Hp. injection Hp as <- _ _. exact Hb.
      + intros b' Hc. unfold is_created in Hc. cbn [pc st'] in Hc.
        assert (Hc0 : is_created st b' = true) by (unfold is_created; now rewrite H).
        rewrite (inv_mon _ I b' Hc0). rewrite jobs_of_app, app_length.
        unfold undisp. cbn [pc st']. rewrite H.
        destruct (Nat.ltb b' b) eqn:E1.
        * apply Nat.ltb_lt in E1. rewrite jobs_of_single_other by (cbn; lia). cbn. lia.
        * destruct (Nat.eqb b' b) eqn:E2.
          -- apply Nat.eqb_eq in E2. subst b'. assert (Hs1 : jobs_of b [e0] = [ej e0]) by (apply (jobs_of_single_same e0)). rewrite Hs1. cbn. lia.
          -- apply Nat.leb_le in Hc. apply Nat.ltb_ge in E1. apply Nat.eqb_neq in E2. lia.
      + intros b' Hc. unfold is_created in Hc. cbn [pc st'] in Hc.
        assert (Hc0 : is_created st b' = false) by (unfold is_created; now rewrite H).
        destruct (inv_nocre _ I b' Hc0) as (Hm & Hj). split; [exact Hm|].
        rewrite jobs_of_app, Hj. apply Nat.leb_gt in Hc. rewrite jobs_of_single_other by (cbn; lia). reflexivity.
      + intros b' Hs. apply (inv_zero _ I). unfold settled in *. now rewrite H.
      + intro b'. pose proof (inv_acc _ I b') as P. rewrite pending_app.
        unfold undisp in *. cbn [pc st']. rewrite H in P.
        destruct (Nat.ltb b' b) eqn:E1.
        * apply Nat.ltb_lt in E1. unfold pending at 2. cbn. unfold ejb. cbn.
          assert (E2 : Nat.eqb b b' = false) by (apply Nat.eqb_neq; lia). rewrite E2. cbn. now rewrite app_nil_r.
        * destruct (Nat.eqb b' b) eqn:E2.
          -- apply Nat.eqb_eq in E2. subst b'. unfold pending at 2. cbn. unfold ejb, ejs. cbn. rewrite Nat.eqb_refl. cbn.
             cbn in P. rewrite <- !app_assoc. cbn. exact P.
          -- unfold pending at 2. cbn. unfold ejb. cbn. rewrite Nat.eqb_sym, E2. cbn. now rewrite app_nil_r.
      + intros Hr0 v0. apply (inv_run _ I Hrun v0).
      + intros v Hx. destruct (inv_run _ I Hrun v) as (_ & Hf). congruence.
    - (* S_dropsend *)
      constructor; cbn [pc scs counter mons jobs xsent xdone chans consumed];
        try (keep I).
      + intros b' Hc. assert (Hu : undisp (mkB (MDropJoin v) (scs st) (counter st) (mons st) (jobs st) (upd (xsent st) v true) (xdone st) (chans st) (consumed st)) b' = undisp st b')
          by (unfold undisp; cbn [pc]; now rewrite H).
        rewrite Hu. apply (inv_mon _ I). unfold is_created. now rewrite H.
      + intros b' Hs. apply (inv_zero _ I). unfold settled in *. now rewrite H.
      + intro b'. pose proof (inv_acc _ I b') as P. unfold undisp in *. cbn [pc]. now rewrite H in P.
      + intros v0 Hv Hj. apply (inv_join _ I v0 Hv). unfold joined in *. now rewrite H.
      + intros v0 Hp. injection Hp as <-. split; [exact H0|apply upd_same].
    - (* S_dropend *)
      constructor; cbn [pc scs counter mons jobs xsent xdone chans consumed];
        try (keep I).
      + intros b' Hc. assert (Hu : undisp (mkB MDone (scs st) (counter st) (mons st) (jobs st) (xsent st) (xdone st) (chans st) (consumed st)) b' = undisp st b')
          by (unfold undisp; cbn [pc]; now rewrite H).
        rewrite Hu. apply (inv_mon _ I). unfold is_created. now rewrite H.
      + intros b' Hs. apply (inv_zero _ I). unfold settled in *. now rewrite H.
      + intro b'. pose proof (inv_acc _ I b') as P. unfold undisp in *. cbn [pc]. now rewrite H in P.
      + intros v0 Hv _. apply (inv_join _ I v0 Hv). unfold joined. rewrite H. apply Nat.ltb_lt. lia.
    - (* S_join *)
      constructor; cbn [pc scs counter mons jobs xsent xdone chans consumed];
        try (keep I).
      + intros b' Hc. assert (Hu : undisp (mkB (MDropSend (S v)) (scs st) (counter st) (mons st) (jobs st) (xsent st) (xdone st) (chans st) (consumed st)) b' = undisp st b')
          by (unfold undisp; cbn [pc]; now rewrite H).
        rewrite Hu. apply (inv_mon _ I). unfold is_created. now rewrite H.
      + intros b' Hs. apply (inv_zero _ I). unfold settled in *. now rewrite H.
      + intro b'. pose proof (inv_acc _ I b') as P. unfold undisp in *. cbn [pc]. now rewrite H in P.
      + intros v0 Hv Hj. unfold joined in Hj. cbn [pc] in Hj. apply Nat.ltb_lt in Hj.
        destruct (Nat.eq_dec v0 v) as [->|Hne]; [exact H0|].
        apply (inv_join _ I v0 Hv). unfold joined. rewrite H. apply Nat.ltb_lt. lia.
    - (* S_exit *)
      assert (Hnr : running st = false).
      { destruct (running st) eqn:Er; [|reflexivity]. destruct (inv_run _ I Er v) as (Hf & _). congruence. }
      constructor; cbn [pc scs counter mons jobs xsent xdone chans consumed];
        try (keep I).
      + intros Hr. unfold running in *. cbn [pc] in Hr. congruence.
      + intros v0 Hv Hj. destruct (Nat.eq_dec v0 v) as [->|Hne]; [apply upd_same|].
        rewrite upd_other by exact Hne. apply (inv_join _ I v0 Hv). exact Hj.
      + intros v0 Hx. destruct (Nat.eq_dec v0 v) as [->|Hne]; [exact H0|].
        rewrite upd_other in Hx by exact Hne. now apply I.
    - (* S_begin *)
      destruct (first_split _ _ _ H0) as (l1 & l2 & Hl & Hev & Hn & Hu & Hr).
      rewrite Hu.
      assert (Hj : forall b', jobs_of b' (l1 ++ mkE v (ej e) (Work 0 []) :: l2) = jobs_of b' (jobs st)).
      { intro b'. rewrite Hl. unfold jobs_of. now rewrite !map_app. }
      assert (Hp : forall b', pending b' (l1 ++ mkE v (ej e) (Work 0 []) :: l2) = pending b' (jobs st)).
      { intro b'. rewrite Hl, !pending_app. f_equal. unfold pending. cbn. unfold ejb, ejs, unsent. cbn. now rewrite H1. }
      constructor; cbn [pc scs counter mons jobs xsent xdone chans consumed];
        try (keep I).
      + intros x Hx. apply in_app_or in Hx. destruct Hx as [Hx|[<-|Hx]]; [| exact H |];
          apply (inv_ev _ I); rewrite Hl; apply in_or_app; [left|right; right]; assumption.
      + intros x Hx. apply in_app_or in Hx. destruct Hx as [Hx|[<-|Hx]].
        * apply (inv_jb _ I). rewrite Hl. apply in_or_app. now left.
        * change (ejb e < nb). apply (inv_jb _ I). rewrite Hl. apply in_or_app. right. now left.
        * apply (inv_jb _ I). rewrite Hl. apply in_or_app. right. now right.
      + intros b' Hc. rewrite Hj. now apply (inv_mon _ I).
      + intros b' Hc. rewrite Hj. now apply (inv_nocre _ I).
      + intro b'. rewrite Hp. apply (inv_acc _ I).
      + intros v0 Hx. eapply first_none_mono; [|apply (inv_xdone _ I v0 Hx)].
        intros x Hx'. apply in_app_or in Hx'. rewrite Hl. destruct Hx' as [Hx'|[<-|Hx']].
        * exists x. split; [apply in_or_app; now left|reflexivity].
        * exists e. split; [apply in_or_app; right; now left|cbn; now rewrite Hev].
        * exists x. split; [apply in_or_app; right; now right|reflexivity].
    - (* S_write *)
      destruct (first_split _ _ _ H0) as (l1 & l2 & Hl & Hev & Hn & Hu & Hr).
      rewrite Hu.
      set (e' := mkE v (ej e) (Work (S i) (acc ++ [(r, if created then Some (counter st + 1)%N else None)]))).
      assert (Hj : forall b', jobs_of b' (l1 ++ e' :: l2) = jobs_of b' (jobs st)).
      { intro b'. rewrite Hl. unfold jobs_of. now rewrite !map_app. }
      assert (Hp : forall b', pending b' (l1 ++ e' :: l2) = pending b' (jobs st)).
      { intro b'. rewrite Hl, !pending_app. f_equal. unfold pending. cbn. unfold ejb, ejs, unsent. cbn. now rewrite H1. }
      constructor; cbn [pc scs counter mons jobs xsent xdone chans consumed];
        try (keep I).
      + intros x Hx. apply in_app_or in Hx. destruct Hx as [Hx|[<-|Hx]]; [| exact H |];
          apply (inv_ev _ I); rewrite Hl; apply in_or_app; [left|right; right]; assumption.
      + intros x Hx. apply in_app_or in Hx. destruct Hx as [Hx|[<-|Hx]].
        * apply (inv_jb _ I). rewrite Hl. apply in_or_app. now left.
        * change (ejb e < nb). apply (inv_jb _ I). rewrite Hl. apply in_or_app. right. now left.
        * apply (inv_jb _ I). rewrite Hl. apply in_or_app. right. now right.
      + intros b' Hc. rewrite Hj. now apply (inv_mon _ I).
      + intros b' Hc. rewrite Hj. now apply (inv_nocre _ I).
      + intro b'. rewrite Hp. apply (inv_acc _ I).
      + intros v0 Hx. eapply first_none_mono; [|apply (inv_xdone _ I v0 Hx)].
        intros x Hx'. apply in_app_or in Hx'. rewrite Hl. destruct Hx' as [Hx'|[<-|Hx']].
        * exists x. split; [apply in_or_app; now left|reflexivity].
        * exists e. split; [apply in_or_app; right; now left|cbn; now rewrite Hev].
        * exists x. split; [apply in_or_app; right; now right|reflexivity].
    - (* S_send *)
      destruct (first_split _ _ _ H0) as (l1 & l2 & Hl & Hev & Hn & Hu & Hr).
      rewrite Hu.
      set (e' := mkE v (ej e) (@Sent REC)).
      assert (Hj : forall b', jobs_of b' (l1 ++ e' :: l2) = jobs_of b' (jobs st)).
      { intro b'. rewrite Hl. unfold jobs_of. now rewrite !map_app. }
      constructor; cbn [pc scs counter mons jobs xsent xdone chans consumed];
        try (keep I).
      + intros x Hx. apply in_app_or in Hx. destruct Hx as [Hx|[<-|Hx]]; [| exact H |];
          apply (inv_ev _ I); rewrite Hl; apply in_or_app; [left|right; right]; assumption.
      + intros x Hx. apply in_app_or in Hx. destruct Hx as [Hx|[<-|Hx]].
        * apply (inv_jb _ I). rewrite Hl. apply in_or_app. now left.
        * change (ejb e < nb). apply (inv_jb _ I). rewrite Hl. apply in_or_app. right. now left.
        * apply (inv_jb _ I). rewrite Hl. apply in_or_app. right. now right.
      + intros b' Hc. rewrite Hj. now apply (inv_mon _ I).
      + intros b' Hc. rewrite Hj. now apply (inv_nocre _ I).
      + intro b'. pose proof (inv_acc _ I b') as P. rewrite Hl in P. rewrite pending_mid in *.
        change (undisp (mkB (pc st) (scs st) (counter st) (mons st) (l1 ++ e' :: l2) (xsent st) (xdone st)
                            (upd (chans st) (jb (ej e)) [(js (ej e), acc)]) (consumed st)) b') with (undisp st b').
        assert (Pe' : pending b' [e'] = []) by (rewrite pending_single; unfold unsent; cbn; now rewrite andb_false_r).
        rewrite Pe'. cbn [app].
        destruct (Nat.eq_dec b' (jb (ej e))) as [->|Hne].
        * rewrite upd_same. rewrite H3 in P. cbn [map app] in *.
          assert (Pe : pending (jb (ej e)) [e] = [ejs e]).
          { rewrite pending_single. unfold ejb, unsent. rewrite Nat.eqb_refl, H1. reflexivity. }
          rewrite Pe in P. etransitivity; [|exact P]. apply Permutation_app_head.
          cbn [app]. rewrite <- !app_assoc. cbn [app]. apply Permutation_middle.
        * rewrite upd_other by exact Hne.
          assert (Pe : pending b' [e] = []).
          { rewrite pending_single. unfold ejb. assert (E : Nat.eqb (jb (ej e)) b' = false) by (apply Nat.eqb_neq; lia).
            now rewrite E. }
          rewrite Pe in P. exact P.
      + intro b'. destruct (Nat.eq_dec b' (jb (ej e))) as [->|Hne]; [rewrite upd_same; cbn; lia|].
        rewrite upd_other by exact Hne. apply (inv_cap _ I).
      + intros v0 Hx. eapply first_none_mono; [|apply (inv_xdone _ I v0 Hx)].
        intros x Hx'. apply in_app_or in Hx'. rewrite Hl. destruct Hx' as [Hx'|[<-|Hx']].
        * exists x. split; [apply in_or_app; now left|reflexivity].
        * exists e. split; [apply in_or_app; right; now left|cbn; now rewrite Hev].
        * exists x. split; [apply in_or_app; right; now right|reflexivity].
    - (* S_dec *)
      destruct (first_split _ _ _ H0) as (l1 & l2 & Hl & Hev & Hn & Hu & Hr).
      rewrite Hr.
      assert (Hin : In e (jobs st)) by (rewrite Hl; apply in_or_app; right; now left).
      assert (Hcr : is_created st (ejb e) = true).
      { destruct (is_created st (ejb e)) eqn:Ec; [reflexivity|].
        destruct (inv_nocre _ I _ Ec) as (_ & Hj). rewrite Hl, jobs_of_mid in Hj.
        apply app_eq_nil in Hj. destruct Hj as (_ & Hj). apply app_eq_nil in Hj. destruct Hj as (Hj & _).
        rewrite jobs_of_single_same in Hj. discriminate. }
      fold (ejb e).
      constructor; cbn [pc scs counter mons jobs xsent xdone chans consumed];
        try (keep I).
      + intros x Hx. apply (inv_ev _ I). rewrite Hl. apply in_app_or in Hx. apply in_or_app.
        destruct Hx; [now left|right; now right].
      + intros x Hx. apply (inv_jb _ I). rewrite Hl. apply in_app_or in Hx. apply in_or_app.
        destruct Hx; [now left|right; now right].
      + intros b' Hc. assert (Hu' : undisp (mkB (pc st) (scs st) (counter st) (upd (mons st) (ejb e) (pred (mons st (ejb e)))) (l1 ++ l2) (xsent st) (xdone st) (chans st) (consumed st)) b' = undisp st b') by reflexivity.
        rewrite Hu'. pose proof (inv_mon _ I b' Hc) as M. rewrite Hl in M. rewrite jobs_of_mid in M. rewrite jobs_of_app. rewrite !app_length in *.
        destruct (Nat.eq_dec b' (ejb e)) as [->|Hne].
        * rewrite upd_same. rewrite M. rewrite jobs_of_single_same. cbn. lia.
        * rewrite upd_other by exact Hne. rewrite M. rewrite (jobs_of_single_other b' e) by congruence. cbn. lia.
      + intros b' Hc. assert (Hne : b' <> ejb e) by (intros ->; change (is_created st (ejb e) = false) in Hc; congruence).
        rewrite upd_other by exact Hne. destruct (inv_nocre _ I b' Hc) as (Hm & Hj). split; [exact Hm|].
        rewrite Hl, jobs_of_mid in Hj. apply app_eq_nil in Hj. destruct Hj as (Hj1 & Hj2).
        apply app_eq_nil in Hj2. rewrite jobs_of_app, Hj1. apply Hj2.
      + intros b' Hs. pose proof (inv_zero _ I b' Hs) as Z. destruct (Nat.eq_dec b' (ejb e)) as [->|Hne].
        * rewrite upd_same, Z. reflexivity.
        * now rewrite upd_other.
      + intro b'. pose proof (inv_acc _ I b') as P. rewrite Hl in P. rewrite pending_mid in P. rewrite pending_app.
        assert (Pe : pending b' [e] = []) by (rewrite pending_single; unfold unsent; rewrite H1; now rewrite andb_false_r).
        rewrite Pe in P. exact P.
      + intros v0 Hx. eapply first_none_mono; [|apply (inv_xdone _ I v0 Hx)].
        intros x Hx'. exists x. split; [|reflexivity]. rewrite Hl. apply in_app_or in Hx'. apply in_or_app.
        destruct Hx'; [now left|right; now right].
    - (* S_consume *)
      constructor; cbn [pc scs counter mons jobs xsent xdone chans consumed];
        try (keep I).
      + intro b'. pose proof (inv_acc _ I b') as P.
        assert (Hu' : undisp (mkB (pc st) (scs st) (counter st) (mons st) (jobs st) (xsent st) (xdone st) (upd (chans st) b rest) (upd (consumed st) b (consumed st b ++ [r]))) b' = undisp st b') by reflexivity.
        rewrite Hu'. destruct (Nat.eq_dec b' b) as [->|Hne].
        * rewrite !upd_same. rewrite H in P. rewrite map_app. cbn in *. rewrite <- !app_assoc. cbn. exact P.
        * rewrite !upd_other by exact Hne. exact P.
      + intro b'. destruct (Nat.eq_dec b' b) as [->|Hne].
        * rewrite upd_same. pose proof (inv_cap _ I b) as C. rewrite H in C. cbn in C. lia.
        * rewrite upd_other by exact Hne. apply (inv_cap _ I).
  Qed.

  Lemma run_inv sigma : forall st st', Inv st -> RUN st sigma = Some st' -> Inv st'.
  Proof.
    induction sigma as [|l sigma IH]; intros st st' I H; cbn in H.
    - now injection H as <-.
    - destruct (FIRE st l) as [st1|] eqn:E; [|discriminate].
      apply (IH st1 st'); [|exact H]. eapply inv_step; [exact I|]. eapply fire_step; eauto.
  Qed.

  Lemma reachable_inv sigma st : RUN INIT sigma = Some st -> Inv st.
  Proof. apply run_inv. apply inv_init. Qed.

  (* every queued job belongs to the one batch that is in flight *)
  Lemma entry_batch st e :
    Inv st -> In e (jobs st) ->
    match pc st with
    | MWait b0 => S (ejb e) = b0
    | MDisp b0 _ _ => ejb e = b0
    | _ => S (ejb e) = nb
    end.
  Proof.
    intros I He. pose proof (inv_jb _ I e He) as Hb.
    assert (Hne : jobs_of (ejb e) (jobs st) <> []).
    { apply in_split in He. destruct He as (l1 & l2 & ->). rewrite jobs_of_mid, jobs_of_single_same.
      intro H. apply app_eq_nil in H. destruct H as (_ & H). discriminate. }
    assert (Hc : is_created st (ejb e) = true).
    { destruct (is_created st (ejb e)) eqn:E; [reflexivity|]. destruct (inv_nocre _ I _ E) as (_ & H). contradiction. }
    assert (Hs : settled st (ejb e) = false).
    { destruct (settled st (ejb e)) eqn:E; [|reflexivity]. pose proof (inv_zero _ I _ E) as Z.
      rewrite (inv_mon _ I _ Hc) in Z. destruct (jobs_of (ejb e) (jobs st)); [contradiction|cbn in Z; lia]. }
    unfold is_created, settled in *. destruct (pc st) as [b0|b0 rest i|v|v|].
    - apply Nat.ltb_lt in Hc. apply Nat.ltb_ge in Hs. lia.
    - apply Nat.leb_le in Hc. apply Nat.ltb_ge in Hs. lia.
    - apply Nat.ltb_ge in Hs. lia.
    - apply Nat.ltb_ge in Hs. lia.
    - apply Nat.ltb_ge in Hs. lia.
  Qed.

  Lemma done_no_jobs st : Inv st -> pc st = MDone -> jobs st = [].
  Proof.
    intros I Hp. destruct (jobs st) as [|e l] eqn:E; [reflexivity|]. exfalso.
    assert (He : In e (jobs st)) by (rewrite E; now left).
    pose proof (inv_ev _ I e He) as Hv.
    assert (Hj : joined st (ev e) = true) by (unfold joined; now rewrite Hp).
    pose proof (inv_xdone _ I _ (inv_join _ I _ Hv Hj)) as Hn.
    rewrite first_none in Hn. apply (Hn e He). reflexivity.
  Qed.

  Lemma forallb_false {A} (f : A -> bool) l : forallb f l = false -> exists x, In x l /\ f x = false.
  Proof.
    induction l as [|a l IH]; cbn; [discriminate|]. destruct (f a) eqn:E; cbn.
    - intro H. destruct (IH H) as (x & Hx & Hf). exists x. auto.
    - intros _. exists a. auto.
  Qed.

  (* a queued job can always advance, or its result channel is full and the consumer can read *)
  Lemma job_progress st e :
    lazy = false -> Inv st -> In e (jobs st) -> exists l st', FIRE st l = Some st'.
  Proof.
    intros Hl I He. pose proof (inv_ev _ I e He) as Hv.
    destruct (first_some_of_in _ _ He) as (e' & Hf).
    assert (Hlt : Nat.ltb (ev e) V = true) by now apply Nat.ltb_lt.
    destruct (ep e') as [|i acc|] eqn:Ee.
    - exists (BVote (ev e)). cbn. unfold vote_step. rewrite Hlt, Hf, Ee. cbn. eauto.
    - destruct (Nat.ltb i (jn (ej e'))) eqn:Ei.
      + exists (BVote (ev e)). cbn. unfold vote_step. rewrite Hlt, Hf, Ee, Ei. cbn.
        destruct (write (scs st (js (ej e'))) (jd (ej e')) i) as [[sc1 r] c]. eauto.
      + destruct (chans st (jb (ej e'))) as [|r rest] eqn:Ec.
        * exists (BVote (ev e)). cbn. unfold vote_step. rewrite Hlt, Hf, Ee, Ei, Ec. cbn. eauto.
        * exists (BConsume (jb (ej e'))). cbn. unfold consume_step. rewrite Hl, Ec. cbn. eauto.
    - exists (BVote (ev e)). cbn. unfold vote_step. rewrite Hlt, Hf, Ee. cbn. eauto.
  Qed.

  Lemma no_deadlock_inv st :
    lazy = false -> Inv st -> FINAL st = false -> exists l st', FIRE st l = Some st'.
  Proof.
    intros Hl I F. destruct (pc st) as [b|b rest i|v|v|] eqn:Hp.
    - (* waiting for the monitor *)
      destruct (Nat.leb nb b) eqn:En.
      { exists BMain. cbn. unfold main_step. rewrite Hp, En. eauto. }
      destruct b as [|b'].
      { exists BMain. cbn. unfold main_step. rewrite Hp, En. eauto. }
      destruct (Nat.eqb (mons st b') 0) eqn:Em.
      { exists BMain. cbn. unfold main_step. rewrite Hp, En, Em. eauto. }
      apply Nat.eqb_neq in Em.
      assert (Hc : is_created st b' = true) by (unfold is_created; rewrite Hp; apply Nat.ltb_lt; lia).
      pose proof (inv_mon _ I _ Hc) as M. unfold undisp in M. rewrite Hp in M.
      assert (E1 : Nat.ltb b' (S b') = true) by (apply Nat.ltb_lt; lia). rewrite E1 in M. cbn in M.
      destruct (jobs_of b' (jobs st)) as [|j l] eqn:Ej; [cbn in M; lia|].
      assert (Hin : In j (jobs_of b' (jobs st))) by (rewrite Ej; now left).
      unfold jobs_of in Hin. apply filter_In in Hin. destruct Hin as (Hin & _).
      apply in_map_iff in Hin. destruct Hin as (e & _ & He). eapply job_progress; eauto.
    - exists BMain. cbn. unfold main_step. rewrite Hp. destruct rest as [|[s ds] rest]; [eauto|].
      destruct (prep (scs st s) ds). eauto.
    - exists BMain. cbn. unfold main_step. rewrite Hp. destruct (Nat.ltb v V); eauto.
    - destruct (xdone st v) eqn:Ex.
      { exists BMain. cbn. unfold main_step. rewrite Hp, Ex. eauto. }
      destruct (inv_joinpc _ I _ Hp) as (Hv & Hs).
      destruct (first v (jobs st)) as [e|] eqn:Ef.
      + destruct (first_split _ _ _ Ef) as (l1 & l2 & Hj & _). eapply job_progress; eauto.
        rewrite Hj. apply in_or_app. right. now left.
      + exists (BVote v). cbn. unfold vote_step. apply Nat.ltb_lt in Hv. rewrite Hv, Ef, Hs, Ex. cbn. eauto.
    - unfold bfinal in F. rewrite Hp in F. apply forallb_false in F. destruct F as (b & Hb & Hne).
      apply Nat.eqb_neq in Hne. pose proof (inv_acc _ I b) as P.
      rewrite (done_no_jobs _ I Hp) in P. unfold undisp in P. rewrite Hp in P. cbn in P. rewrite !app_nil_r in P.
      apply Permutation_length in P. rewrite app_length, !map_length in P.
      destruct (chans st b) as [|r rest] eqn:Ec; [exfalso; cbn in P; rewrite Nat.add_0_r in P; apply Hne; exact P|].
      exists (BConsume b). cbn. unfold consume_step. rewrite Hl, Ec. cbn. eauto.
  Qed.

  Lemma one_result_per_scene_inv st b :
    Inv st -> FINAL st = true -> b < nb ->
    Permutation (map fst (consumed st b)) (map fst (nth b batches [])) /\ chans st b = [].
  Proof.
    intros I F Hb. unfold bfinal in F. destruct (pc st) eqn:Hp; try discriminate.
    rewrite forallb_forall in F. assert (Hin : In b (seq 0 nb)) by (apply in_seq; lia).
    specialize (F b Hin). apply Nat.eqb_eq in F. pose proof (inv_acc _ I b) as P.
    rewrite (done_no_jobs _ I Hp) in P. unfold undisp in P. rewrite Hp in P. cbn in P. rewrite !app_nil_r in P.
    pose proof (Permutation_length P) as L. rewrite app_length, !map_length in L.
    destruct (chans st b) as [|r rest].
    - cbn in P. rewrite app_nil_r in P. auto.
    - exfalso. cbn [length] in L. unfold result, rec_id in *. lia.
  Qed.

  (* ---------------------------------------------------------------------------------------------- *)
  (* refinement: every interleaving computes, scene by scene, what the serial reference computes *)

  Notation WR := (writes SC JD REC write).
  Notation SIMPLE := (simple_call SC DET JD REC prep write).
  Notation REFB := (ref_batch SC DET JD REC prep write).
  Notation SCB := (sc_before SC DET JD REC prep write).
  Notation R := (sc_before SC DET JD REC prep write (fun _ => sc0) batches).

  Lemma writes_snoc n : forall sc d a sc' rs sc'' r c,
    WR sc d a n = (sc', rs) -> write sc' d (a + n) = (sc'', r, c) -> WR sc d a (S n) = (sc'', rs ++ [r]).
  Proof.
    induction n as [|m IH]; intros sc d a sc' rs sc'' r c H W.
    - cbn in H. injection H as <- <-. rewrite Nat.add_0_r in W. cbn. rewrite W. reflexivity.
    - cbn in H. destruct (write sc d a) as [[sc1 r0] c0] eqn:E1.
      destruct (WR sc1 d (S a) m) as [sc2 rs'] eqn:E2. injection H as <- <-.
      assert (W' : write sc2 d (S a + m) = (sc'', r, c)) by (rewrite <- W; f_equal; lia).
      pose proof (IH _ _ _ _ _ _ _ _ E2 W') as H3.
      change (WR sc d a (S (S m))) with (let '(s1, r1, _) := write sc d a in let '(s2, rs2) := WR s1 d (S a) (S m) in (s2, r1 :: rs2)).
      rewrite E1, H3. reflexivity.
  Qed.

  Lemma writes_length n : forall sc d a sc' rs, WR sc d a n = (sc', rs) -> length rs = n.
  Proof.
    induction n as [|m IH]; intros sc d a sc' rs H; cbn in H.
    - now injection H as <- <-.
    - destruct (write sc d a) as [[sc1 r0] c0]. destruct (WR sc1 d (S a) m) as [sc2 rs'] eqn:E2.
      injection H as <- <-. cbn. f_equal. eapply IH; eauto.
  Qed.

  Lemma updN_same {A} (f : N -> A) k x : updN f k x k = x.
  Proof. unfold updN. now rewrite N.eqb_refl. Qed.

  Lemma updN_other {A} (f : N -> A) k x j : j <> k -> updN f k x j = f j.
  Proof. unfold updN. intro H. apply N.eqb_neq in H. now rewrite H. Qed.

  Lemma ref_batch_other bt : forall sc s, ~ In s (map fst bt) -> fst (REFB sc bt) s = sc s.
  Proof.
    induction bt as [|[s0 ds] bt IH]; intros sc s Hn; cbn; [reflexivity|].
    destruct (SIMPLE (sc s0) ds) as [sc1 rs] eqn:E1.
    destruct (REFB (updN sc s0 sc1) bt) as [sc2 out] eqn:E2. cbn.
    cbn in Hn. assert (s <> s0) by (intro; apply Hn; left; congruence).
    assert (Hn' : ~ In s (map fst bt)) by (intro; apply Hn; now right).
    pose proof (IH (updN sc s0 sc1) s Hn') as H1. rewrite E2 in H1. cbn in H1. rewrite H1.
    now apply updN_other.
  Qed.

  Lemma ref_batch_in bt : forall sc s ds, NoDup (map fst bt) -> In (s, ds) bt ->
    fst (REFB sc bt) s = fst (SIMPLE (sc s) ds) /\ In (s, snd (SIMPLE (sc s) ds)) (snd (REFB sc bt)).
  Proof.
    induction bt as [|[s0 ds0] bt IH]; intros sc s ds Hnd Hin; [destruct Hin|].
    cbn in Hnd. inversion Hnd as [|x l Hni Hnd']; subst. cbn.
    destruct (SIMPLE (sc s0) ds0) as [sc1 rs] eqn:E1.
    destruct (REFB (updN sc s0 sc1) bt) as [sc2 out] eqn:E2. cbn.
    destruct Hin as [Heq|Hin].
    - injection Heq as -> ->. rewrite E1. cbn. split; [|now left].
      pose proof (ref_batch_other bt (updN sc s sc1) s Hni) as H1. rewrite E2 in H1. cbn in H1.
      rewrite H1. apply updN_same.
    - assert (Hne : s <> s0).
      { intros ->. apply Hni. apply in_map_iff. exists (s0, ds). auto. }
      destruct (IH (updN sc s0 sc1) s ds Hnd' Hin) as (H1 & H2). rewrite E2 in H1, H2. cbn in H1, H2.
      rewrite updN_other in H1, H2 by exact Hne. split; [exact H1|now right].
  Qed.

  Lemma sc_before_succ bs : forall sc b, b < length bs ->
    SCB sc bs (S b) = fst (REFB (SCB sc bs b) (nth b bs [])).
  Proof.
    induction bs as [|bt bs IH]; intros sc b Hb; [cbn in Hb; lia|].
    destruct b as [|b'].
    - cbn. destruct bs; reflexivity.
    - cbn in Hb. change (SCB sc (bt :: bs) (S (S b'))) with (SCB (fst (REFB sc bt)) bs (S b')).
      rewrite IH by lia. reflexivity.
  Qed.

  Hypothesis Hwf : forall bt, In bt batches -> NoDup (map fst bt).

  Lemma R_succ_in b s ds : b < nb -> In (s, ds) (nth b batches []) -> R (S b) s = fst (SIMPLE (R b s) ds).
  Proof.
    intros Hb Hin. rewrite sc_before_succ by exact Hb.
    apply ref_batch_in; [|exact Hin]. apply Hwf. now apply nth_In.
  Qed.

  Lemma R_succ_out b s : b < nb -> ~ In s (map fst (nth b batches [])) -> R (S b) s = R b s.
  Proof. intros Hb Hn. rewrite sc_before_succ by exact Hb. now apply ref_batch_other. Qed.

  Definition undisp_now (st : state) : batch DET := match pc st with MDisp _ rest _ => rest | _ => [] end.

  Definition done_level (st : state) (s : N) : nat :=
    match pc st with
    | MWait b0 => b0
    | MDisp b0 rest _ => if existsb (N.eqb s) (map fst rest) then b0 else S b0
    | _ => nb
    end.

  Definition entry_ok (st : state) (e : entryT) : Prop :=
    exists ds, In (ejs e, ds) (nth (ejb e) batches []) /\ jn (ej e) = length ds /\
               jd (ej e) = snd (prep (R (ejb e) (ejs e)) ds) /\
               match ep e with
               | Queued => scs st (ejs e) = fst (prep (R (ejb e) (ejs e)) ds)
               | Work i acc => i <= length ds /\
                               WR (fst (prep (R (ejb e) (ejs e)) ds)) (jd (ej e)) 0 i = (scs st (ejs e), map fst acc)
               | Sent => scs st (ejs e) = R (S (ejb e)) (ejs e)
               end.

  Definition result_ok (b : nat) (r : result REC) : Prop :=
    exists ds, In (fst r, ds) (nth b batches []) /\ map fst (snd r) = snd (SIMPLE (R b (fst r)) ds).

  Record Inv2 (st : state) : Prop := {
    i2_wait : forall b0, pc st = MWait b0 -> b0 <= nb;
    i2_rest : forall b0 rest i, pc st = MDisp b0 rest i -> incl rest (nth b0 batches []);
    i2_nodup : NoDup (map ejs (jobs st) ++ map fst (undisp_now st));
    i2_idle : forall s, (forall e, In e (jobs st) -> ejs e <> s) -> scs st s = R (done_level st s) s;
    i2_entry : forall e, In e (jobs st) -> entry_ok st e;
    i2_res : forall b r, In r (consumed st b ++ chans st b) -> result_ok b r
  }.

  Lemma inv2_init : Inv2 INIT.
  Proof.
    constructor; cbn; try (intros; contradiction).
    - intros b0 H. injection H as <-. lia.
    - intros; discriminate.
    - constructor.
    - intros s _. unfold done_level. cbn. destruct batches; reflexivity.
  Qed.

  Lemma existsb_In s (l : list N) : existsb (N.eqb s) l = true <-> In s l.
  Proof.
    rewrite existsb_exists. split.
    - intros (x & Hx & E). apply N.eqb_eq in E. now subst.
    - intro H. exists s. split; [exact H|apply N.eqb_refl].
  Qed.

  Lemma nodup_mid (l1 l2 : list entryT) e U :
    NoDup (map ejs (l1 ++ e :: l2) ++ U) ->
    (forall x, In x (l1 ++ l2) -> ejs x <> ejs e) /\ ~ In (ejs e) U /\ NoDup (map ejs (l1 ++ l2) ++ U).
  Proof.
    rewrite !map_app. cbn [map]. rewrite <- !app_assoc. cbn [app]. intro H.
    pose proof (NoDup_remove_1 _ _ _ H) as H1. pose proof (NoDup_remove_2 _ _ _ H) as H2.
    split; [|split].
    - intros x Hx Heq. apply H2. apply in_app_or in Hx. apply in_or_app.
      destruct Hx as [Hx|Hx]; [left|right; apply in_or_app; left]; rewrite <- Heq; now apply in_map.
    - intro Hu. apply H2. apply in_or_app. right. apply in_or_app. now right.
    - exact H1.
  Qed.

  Lemma simple_of_writes sc ds sc' rs :
    WR (fst (prep sc ds)) (snd (prep sc ds)) 0 (length ds) = (sc', rs) -> SIMPLE sc ds = (sc', rs).
  Proof. unfold simple_call. destruct (prep sc ds) as [sc1 d]. cbn. auto. Qed.

  Lemma no_jobs_when_free st b :
    Inv st -> pc st = MWait b -> (b = 0 \/ exists b', b = S b' /\ mons st b' = 0) -> jobs st = [].
  Proof.
    intros I Hp Hc. destruct (jobs st) as [|e l] eqn:E; [reflexivity|]. exfalso.
    assert (He : In e (jobs st)) by (rewrite E; now left).
    pose proof (entry_batch _ _ I He) as Hb. rewrite Hp in Hb.
    destruct Hc as [->|(b' & -> & Hz)]; [discriminate|]. injection Hb as Hb.
    assert (Hcr : is_created st b' = true) by (unfold is_created; rewrite Hp; apply Nat.ltb_lt; lia).
    pose proof (inv_mon _ I _ Hcr) as M. rewrite Hz in M.
    apply in_split in He. destruct He as (l1 & l2 & Hj). rewrite Hj, jobs_of_mid, <- Hb, jobs_of_single_same in M.
    rewrite !app_length in M. cbn in M. lia.
  Qed.

  Lemma entry_ok_ext (st st' : state) e : scs st' (ejs e) = scs st (ejs e) -> entry_ok st e -> entry_ok st' e.
  Proof.
    intros H (ds & H1 & H2 & H3 & H4). exists ds. repeat split; auto. rewrite H. exact H4.
  Qed.

  Lemma inv2_step st st' : Inv st -> Inv2 st -> bstep st st' -> Inv2 st'.
  Proof.
    intros I J S. destruct S.
    - (* S_shutdown0 *)
      constructor; cbn [pc scs jobs chans consumed]; try (intros; discriminate).
      + unfold undisp_now. cbn [pc]. pose proof (i2_nodup _ J) as N0. unfold undisp_now in N0. now rewrite H in N0.
      + intros s Hs. rewrite (i2_idle _ J s Hs). unfold done_level. cbn [pc]. rewrite H.
        pose proof (i2_wait _ J _ H). f_equal. lia.
      + apply (i2_entry _ J).
      + apply (i2_res _ J).
    - (* S_wait *)
      pose proof (no_jobs_when_free _ _ I H H1) as Hj.
      constructor; cbn [pc scs jobs chans consumed]; try (intros; discriminate).
      + intros b0 rest i Hp. injection Hp as <- <- _. apply incl_refl.
      + rewrite Hj. unfold undisp_now. cbn [pc map app]. apply Hwf. now apply nth_In.
      + intros s Hs. rewrite (i2_idle _ J s Hs). unfold done_level. cbn [pc]. rewrite H.
        destruct (existsb (N.eqb s) (map fst (nth b batches []))) eqn:E; [reflexivity|].
        symmetry. apply R_succ_out; [exact H0|]. intro Hin. apply existsb_In in Hin. congruence.
      + apply (i2_entry _ J).
      + apply (i2_res _ J).
    - (* S_disp_end *)
      pose proof (inv_pcb _ I _ _ _ H) as Hb.
      constructor; cbn [pc scs jobs chans consumed].
      + intros b0 Hp. unfold after_batch in Hp. destruct (Nat.ltb (S b) nb) eqn:E; [|discriminate].
        injection Hp as <-. apply Nat.ltb_lt in E. lia.
      + intros b0 rest i0 Hp. unfold after_batch in Hp. destruct (Nat.ltb (S b) nb); discriminate.
      + pose proof (i2_nodup _ J) as N0. unfold undisp_now in *. rewrite H in N0. cbn [pc].
        unfold after_batch. destruct (Nat.ltb (S b) nb); exact N0.
      + intros s Hs. rewrite (i2_idle _ J s Hs). unfold done_level. cbn [pc]. rewrite H. cbn.
        unfold after_batch. destruct (Nat.ltb (S b) nb) eqn:E; [reflexivity|].
        apply Nat.ltb_ge in E. f_equal. lia.
      + apply (i2_entry _ J).
      + apply (i2_res _ J).
    - (* S_disp *)
      set (e0 := mkE (Nat.modulo i V) (mkJob b s (length ds) d) (@Queued REC)).
      pose proof (inv_pcb _ I _ _ _ H) as Hb.
      pose proof (i2_nodup _ J) as N0. unfold undisp_now in N0. rewrite H in N0. cbn [map fst] in N0.
      assert (Hs_free : forall e, In e (jobs st) -> ejs e <> s).
      { intros e He Heq. apply NoDup_remove_2 in N0. apply N0. apply in_or_app. left. rewrite <- Heq. now apply in_map. }
      assert (Hs_rest : ~ In s (map fst rest)).
      { apply NoDup_remove_2 in N0. intro Hin. apply N0. apply in_or_app. now right. }
      assert (Hscs : scs st s = R b s).
      { rewrite (i2_idle _ J s Hs_free). unfold done_level. rewrite H. cbn [map fst existsb]. now rewrite N.eqb_refl. }
      constructor; fold e0; cbn [pc scs jobs chans consumed]; try (intros; discriminate).
      + intros b0 rest0 i0 Hp. injection Hp as <- <- _. intros x Hx. apply (i2_rest _ J _ _ _ H). now right.
      + unfold undisp_now. cbn [pc]. rewrite map_app, <- app_assoc. exact N0.
      + intros s' Hs'. assert (Hne : s' <> s).
        { intros ->. apply (Hs' e0); [apply in_or_app; right; now left|reflexivity]. }
        rewrite updN_other by exact Hne.
        rewrite (i2_idle _ J s'); [|intros e He; apply Hs'; apply in_or_app; now left].
        unfold done_level. cbn [pc]. rewrite H. cbn [map fst existsb].
        assert (E : N.eqb s' s = false) by now apply N.eqb_neq. now rewrite E.
      + intros e He. apply in_app_or in He. destruct He as [He|[<-|[]]].
        * apply (entry_ok_ext st); [|now apply (i2_entry _ J)]. cbn [scs].
          apply updN_other. now apply Hs_free.
        * exists ds. unfold ejs, ejb. cbn. rewrite updN_same, <- Hscs, H0. cbn.
          repeat split; auto. apply (i2_rest _ J _ _ _ H). now left.
      + apply (i2_res _ J).
    - (* S_dropsend *)
      constructor; cbn [pc scs jobs chans consumed]; try (intros; discriminate).
      + pose proof (i2_nodup _ J) as N0. unfold undisp_now in *. now rewrite H in N0.
      + intros s Hs. rewrite (i2_idle _ J s Hs). unfold done_level. cbn [pc]. now rewrite H.
      + apply (i2_entry _ J).
      + apply (i2_res _ J).
    - (* S_dropend *)
      constructor; cbn [pc scs jobs chans consumed]; try (intros; discriminate).
      + pose proof (i2_nodup _ J) as N0. unfold undisp_now in *. now rewrite H in N0.
      + intros s Hs. rewrite (i2_idle _ J s Hs). unfold done_level. cbn [pc]. now rewrite H.
      + apply (i2_entry _ J).
      + apply (i2_res _ J).
    - (* S_join *)
      constructor; cbn [pc scs jobs chans consumed]; try (intros; discriminate).
      + pose proof (i2_nodup _ J) as N0. unfold undisp_now in *. now rewrite H in N0.
      + intros s Hs. rewrite (i2_idle _ J s Hs). unfold done_level. cbn [pc]. now rewrite H.
      + apply (i2_entry _ J).
      + apply (i2_res _ J).
    - (* S_exit *)
      constructor; cbn [pc scs jobs chans consumed].
      + apply (i2_wait _ J).
      + apply (i2_rest _ J).
      + apply (i2_nodup _ J).
      + apply (i2_idle _ J).
      + apply (i2_entry _ J).
      + apply (i2_res _ J).
    - (* S_begin *)
      destruct (first_split _ _ _ H0) as (l1 & l2 & Hl & Hev & Hn & Hu & Hr).
      rewrite Hu. set (e' := mkE v (ej e) (Work 0 [])).
      pose proof (i2_nodup _ J) as N0. rewrite Hl in N0.
      destruct (nodup_mid _ _ _ _ N0) as (Hoth & _ & _).
      assert (He : In e (jobs st)) by (rewrite Hl; apply in_or_app; right; now left).
      constructor; cbn [pc scs jobs chans consumed].
      + apply (i2_wait _ J).
      + apply (i2_rest _ J).
      + unfold undisp_now. cbn [pc]. rewrite !map_app in *. exact N0.
      + intros s Hs. apply (i2_idle _ J). intros x Hx. rewrite Hl in Hx. apply in_app_or in Hx.
        destruct Hx as [Hx|[<-|Hx]].
        * apply Hs. apply in_or_app. now left.
        * apply (Hs e'). apply in_or_app. right. now left.
        * apply Hs. apply in_or_app. right. now right.
      + intros x Hx. apply in_app_or in Hx. destruct Hx as [Hx|[<-|Hx]].
        * apply (i2_entry _ J). rewrite Hl. apply in_or_app. now left.
        * destruct (i2_entry _ J e He) as (ds & H2 & H3 & H4 & H5). exists ds. rewrite H1 in H5.
          unfold ejs, ejb in *. cbn. repeat split; auto; try lia. rewrite H5. reflexivity.
        * apply (i2_entry _ J). rewrite Hl. apply in_or_app. right. now right.
      + apply (i2_res _ J).
    - (* S_write *)
      destruct (first_split _ _ _ H0) as (l1 & l2 & Hl & Hev & Hn & Hu & Hr).
      rewrite Hu.
      set (e' := mkE v (ej e) (Work (S i) (acc ++ [(r, if created then Some (counter st + 1)%N else None)]))).
      pose proof (i2_nodup _ J) as N0. rewrite Hl in N0.
      destruct (nodup_mid _ _ _ _ N0) as (Hoth & _ & _).
      assert (He : In e (jobs st)) by (rewrite Hl; apply in_or_app; right; now left).
      constructor; cbn [pc scs jobs chans consumed].
      + apply (i2_wait _ J).
      + apply (i2_rest _ J).
      + unfold undisp_now. cbn [pc]. rewrite !map_app in *. exact N0.
      + intros s Hs. assert (Hne : s <> js (ej e)).
        { intros ->. apply (Hs e'); [apply in_or_app; right; now left|reflexivity]. }
        rewrite updN_other by exact Hne.
        apply (i2_idle _ J). intros x Hx. rewrite Hl in Hx. apply in_app_or in Hx.
        destruct Hx as [Hx|[<-|Hx]].
        * apply Hs. apply in_or_app. now left.
        * apply (Hs e'). apply in_or_app. right. now left.
        * apply Hs. apply in_or_app. right. now right.
      + intros x Hx. apply in_app_or in Hx. destruct Hx as [Hx|[<-|Hx]].
        * assert (Hx' : In x (jobs st)) by (rewrite Hl; apply in_or_app; now left).
          apply (entry_ok_ext st); [|now apply (i2_entry _ J)]. cbn [scs].
          apply updN_other. apply Hoth. apply in_or_app. now left.
        * destruct (i2_entry _ J e He) as (ds & H5 & H6 & H7 & H8). exists ds. rewrite H1 in H8.
          destruct H8 as (H8 & H9). unfold ejs, ejb in *. cbn. rewrite updN_same.
          repeat split; auto; try lia. rewrite map_app. cbn [map fst].
          eapply writes_snoc; [exact H9|]. cbn. exact H3.
        * assert (Hx' : In x (jobs st)) by (rewrite Hl; apply in_or_app; right; now right).
          apply (entry_ok_ext st); [|now apply (i2_entry _ J)]. cbn [scs].
          apply updN_other. apply Hoth. apply in_or_app. now right.
      + apply (i2_res _ J).
    - (* S_send *)
      destruct (first_split _ _ _ H0) as (l1 & l2 & Hl & Hev & Hn & Hu & Hr).
      rewrite Hu. set (e' := mkE v (ej e) (@Sent REC)).
      pose proof (i2_nodup _ J) as N0. rewrite Hl in N0.
      assert (He : In e (jobs st)) by (rewrite Hl; apply in_or_app; right; now left).
      destruct (i2_entry _ J e He) as (ds & H5 & H6 & H7 & H8). rewrite H1 in H8. destruct H8 as (H8 & H9).
      assert (Hi : i = length ds) by lia. subst i.
      pose proof (inv_jb _ I e He) as Hb.
      rewrite H7 in H9. apply simple_of_writes in H9.
      constructor; cbn [pc scs jobs chans consumed].
      + apply (i2_wait _ J).
      + apply (i2_rest _ J).
      + unfold undisp_now. cbn [pc]. rewrite !map_app in *. exact N0.
      + intros s Hs. apply (i2_idle _ J). intros x Hx. rewrite Hl in Hx. apply in_app_or in Hx.
        destruct Hx as [Hx|[<-|Hx]].
        * apply Hs. apply in_or_app. now left.
        * apply (Hs e'). apply in_or_app. right. now left.
        * apply Hs. apply in_or_app. right. now right.
      + intros x Hx. apply in_app_or in Hx. destruct Hx as [Hx|[<-|Hx]].
        * apply (i2_entry _ J). rewrite Hl. apply in_or_app. now left.
        * exists ds. unfold ejs, ejb in *. cbn. repeat split; auto.
          rewrite (R_succ_in _ _ _ Hb H5), H9. reflexivity.
        * apply (i2_entry _ J). rewrite Hl. apply in_or_app. right. now right.
      + intros b r Hin. destruct (Nat.eq_dec b (jb (ej e))) as [->|Hne].
        * rewrite upd_same in Hin. apply in_app_or in Hin. destruct Hin as [Hin|[<-|[]]].
          -- apply (i2_res _ J). apply in_or_app. now left.
          -- exists ds. cbn. unfold ejs, ejb in *. split; [exact H5|]. now rewrite H9.
        * rewrite upd_other in Hin by exact Hne. now apply (i2_res _ J).
    - (* S_dec *)
      destruct (first_split _ _ _ H0) as (l1 & l2 & Hl & Hev & Hn & Hu & Hr).
      rewrite Hr.
      pose proof (i2_nodup _ J) as N0. rewrite Hl in N0.
      destruct (nodup_mid _ _ _ _ N0) as (Hoth & Hnu & N1).
      assert (He : In e (jobs st)) by (rewrite Hl; apply in_or_app; right; now left).
      destruct (i2_entry _ J e He) as (ds & H5 & H6 & H7 & H8). rewrite H1 in H8.
      pose proof (entry_batch _ _ I He) as Hb. pose proof (inv_jb _ I e He) as Hlt.
      constructor; cbn [pc scs jobs chans consumed].
      + apply (i2_wait _ J).
      + apply (i2_rest _ J).
      + exact N1.
      + intros s Hs. destruct (N.eq_dec s (ejs e)) as [->|Hne].
        * rewrite H8. f_equal. unfold done_level. cbn [pc]. unfold undisp_now in Hnu.
          destruct (pc st) as [b0|b0 rest i|v0|v0|]; try lia.
          destruct (existsb (N.eqb (ejs e)) (map fst rest)) eqn:E; [|lia].
          apply existsb_In in E. contradiction.
        * apply (i2_idle _ J). intros x Hx. rewrite Hl in Hx. apply in_app_or in Hx.
          destruct Hx as [Hx|[<-|Hx]].
          -- apply Hs. apply in_or_app. now left.
          -- congruence.
          -- apply Hs. apply in_or_app. now right.
      + intros x Hx. apply (i2_entry _ J). rewrite Hl. apply in_app_or in Hx. apply in_or_app.
        destruct Hx; [now left|right; now right].
      + apply (i2_res _ J).
    - (* S_consume *)
      constructor; cbn [pc scs jobs chans consumed].
      + apply (i2_wait _ J).
      + apply (i2_rest _ J).
      + apply (i2_nodup _ J).
      + apply (i2_idle _ J).
      + apply (i2_entry _ J).
      + intros b0 r0 Hin. destruct (Nat.eq_dec b0 b) as [->|Hne].
        * rewrite !upd_same in Hin. apply (i2_res _ J b). rewrite H.
          rewrite <- app_assoc in Hin. exact Hin.
        * rewrite !upd_other in Hin by exact Hne. now apply (i2_res _ J).
  Qed.

  Lemma run_inv2 sigma : forall st st', Inv st -> Inv2 st -> RUN st sigma = Some st' -> Inv st' /\ Inv2 st'.
  Proof.
    induction sigma as [|l sigma IH]; intros st st' I J H; cbn in H.
    - injection H as <-. auto.
    - destruct (FIRE st l) as [st1|] eqn:E; [|discriminate].
      pose proof (fire_step _ _ _ E) as S.
      apply (IH st1 st'); [eapply inv_step; eauto|eapply inv2_step; eauto|exact H].
  Qed.

  Lemma reachable_inv2 sigma st : RUN INIT sigma = Some st -> Inv st /\ Inv2 st.
  Proof. apply run_inv2; [apply inv_init|apply inv2_init]. Qed.

  (* ---- keyed lists ------------------------------------------------------------------------------ *)
  Lemma pick_none {A B} (g : N * A -> B) s (l : list (N * A)) :
    ~ In s (map fst l) -> flat_map (fun sd => if N.eqb (fst sd) s then [g sd] else []) l = [].
  Proof.
    induction l as [|[k a] l IH]; cbn; [reflexivity|]. intro H.
    destruct (N.eqb k s) eqn:E; [apply N.eqb_eq in E; exfalso; apply H; now left|].
    apply IH. intro Hin. apply H. now right.
  Qed.

  Lemma pick_one {A B} (g : N * A -> B) s a (l : list (N * A)) :
    NoDup (map fst l) -> In (s, a) l ->
    flat_map (fun sd => if N.eqb (fst sd) s then [g sd] else []) l = [g (s, a)].
  Proof.
    induction l as [|[k a0] l IH]; cbn; [intros _ []|]. intros Hnd Hin.
    inversion Hnd as [|x y Hni Hnd']; subst.
    destruct Hin as [Heq|Hin].
    - injection Heq as -> ->. rewrite N.eqb_refl. cbn. f_equal. now apply pick_none.
    - destruct (N.eqb k s) eqn:E.
      + apply N.eqb_eq in E. subst. exfalso. apply Hni. apply in_map_iff. exists (s, a). auto.
      + now apply IH.
  Qed.

  Lemma keyed_unique {A} s (a a' : A) (l : list (N * A)) :
    NoDup (map fst l) -> In (s, a) l -> In (s, a') l -> a = a'.
  Proof.
    induction l as [|[k a0] l IH]; cbn; [intros _ []|]. intros Hnd H1 H2.
    inversion Hnd as [|x y Hni Hnd']; subst.
    destruct H1 as [E1|H1], H2 as [E2|H2].
    - congruence.
    - injection E1 as -> ->. exfalso. apply Hni. apply in_map_iff. exists (s, a'). auto.
    - injection E2 as -> ->. exfalso. apply Hni. apply in_map_iff. exists (s, a). auto.
    - now apply IH.
  Qed.

  (* the serial reference, read scene by scene, is the simple tracker run on that scene's own sequence *)
  Lemma ref_projection s bs : forall sc,
    (forall bt, In bt bs -> NoDup (map fst bt)) ->
    simple_run SC DET JD REC prep write (sc s) (proj DET s bs) =
    flat_map (fun b => flat_map (fun sd => if N.eqb (fst sd) s then [snd (SIMPLE (SCB sc bs b s) (snd sd))] else [])
                                (nth b bs [])) (seq 0 (length bs)).
  Proof.
    induction bs as [|bt bs IH]; intros sc Hw; [reflexivity|].
    assert (Hbt : NoDup (map fst bt)) by (apply Hw; now left).
    assert (Hw' : forall bt', In bt' bs -> NoDup (map fst bt')) by (intros; apply Hw; now right).
    change (seq 0 (length (bt :: bs))) with (0 :: seq 1 (length bs)). cbn [flat_map].
    rewrite <- seq_shift. rewrite (flat_map_concat_map _ (map S (seq 0 (length bs)))), map_map, <- flat_map_concat_map.
    cbn [nth].
    assert (E0 : SCB sc (bt :: bs) 0 = sc) by reflexivity. rewrite E0.
    assert (Erest : flat_map (fun b => flat_map (fun sd => if N.eqb (fst sd) s then [snd (SIMPLE (SCB sc (bt :: bs) (S b) s) (snd sd))] else [])
                                        (nth b bs [])) (seq 0 (length bs)) =
                    simple_run SC DET JD REC prep write (fst (REFB sc bt) s) (proj DET s bs)).
    { rewrite (IH (fst (REFB sc bt)) Hw'). reflexivity. }
    rewrite Erest. unfold proj. cbn [flat_map]. fold (proj DET s bs).
    destruct (in_dec N.eq_dec s (map fst bt)) as [Hin|Hni].
    - apply in_map_iff in Hin. destruct Hin as ([s' ds] & Hs & Hin). cbn in Hs. subst s'.
      rewrite (pick_one (fun sd => snd sd) s ds bt Hbt Hin).
      rewrite (pick_one (fun sd => snd (SIMPLE (sc s) (snd sd))) s ds bt Hbt Hin).
      cbn [app snd simple_run]. destruct (ref_batch_in bt sc s ds Hbt Hin) as (H1 & _). rewrite H1.
      destruct (SIMPLE (sc s) ds) as [sc1 rs]. reflexivity.
    - rewrite (pick_none (fun sd => snd sd) s bt Hni).
      rewrite (pick_none (fun sd => snd (SIMPLE (sc s) (snd sd))) s bt Hni).
      cbn [app]. now rewrite (ref_batch_other bt sc s Hni).
  Qed.

  (* what scene s received, batch after batch, read off the retrieved results (canonical records) *)
  Definition scene_results (st : state) (s : N) : list (list REC) :=
    flat_map (fun b => flat_map (fun r => if N.eqb (fst r) s then [map fst (snd r)] else []) (consumed st b)) (seq 0 nb).

  Lemma flat_map_ext_in' {A B} (f g : A -> list B) l :
    (forall a, In a l -> f a = g a) -> flat_map f l = flat_map g l.
  Proof.
    induction l as [|a l IH]; intro H; cbn; [reflexivity|].
    rewrite (H a) by now left. f_equal. apply IH. intros; apply H; now right.
  Qed.

  Lemma batch_refines_simple_inv st s :
    Inv st -> Inv2 st -> FINAL st = true ->
    scene_results st s = simple_run SC DET JD REC prep write sc0 (proj DET s batches).
  Proof.
    intros I J F. rewrite (ref_projection s batches (fun _ => sc0) Hwf). unfold scene_results.
    apply flat_map_ext_in'. intros b Hb. apply in_seq in Hb. assert (Hlt : b < nb) by (destruct Hb as (_ & Hb); exact Hb).
    destruct (one_result_per_scene_inv st b I F Hlt) as (P & _).
    assert (Hnd : NoDup (map fst (nth b batches []))) by (apply Hwf; now apply nth_In).
    assert (Hndc : NoDup (map fst (consumed st b))) by (eapply Permutation_NoDup; [symmetry; exact P|exact Hnd]).
    destruct (in_dec N.eq_dec s (map fst (nth b batches []))) as [Hin|Hni].
    - pose proof (Permutation_in _ (Permutation_sym P) Hin) as Hinc.
      apply in_map_iff in Hin. destruct Hin as ([s1 ds] & E1 & Hin). cbn in E1. subst s1.
      apply in_map_iff in Hinc. destruct Hinc as ([s2 recs] & E2 & Hinc). cbn in E2. subst s2.
      rewrite (pick_one (fun r => map fst (snd r)) s recs _ Hndc Hinc).
      etransitivity; [|symmetry; apply (pick_one (fun sd => snd (SIMPLE (R b s) (snd sd))) s ds _ Hnd Hin)].
      cbn [snd]. f_equal.
      destruct (i2_res _ J b (s, recs)) as (ds' & H1 & H2); [apply in_or_app; now left|].
      cbn in H1, H2. rewrite H2. now rewrite (keyed_unique s ds' ds _ Hnd H1 Hin).
    - etransitivity; [|symmetry; apply (pick_none (fun sd => snd (SIMPLE (R b s) (snd sd))) s _ Hni)].
      apply pick_none. intro Hc. apply Hni. eapply Permutation_in; eauto.
  Qed.

  Lemma result_shape_inv st b r :
    Inv2 st -> In r (consumed st b) ->
    exists ds, In (fst r, ds) (nth b batches []) /\ length (snd r) = length ds.
  Proof.
    intros J Hin. destruct (i2_res _ J b r) as (ds & H1 & H2); [apply in_or_app; now left|].
    exists ds. split; [exact H1|].
    transitivity (length (map fst (snd r))); [symmetry; apply map_length|]. rewrite H2.
    unfold simple_call. destruct (prep (R b (fst r)) ds) as [sc1 d].
    destruct (WR sc1 d 0 (length ds)) as [sc2 rs] eqn:E. cbn. eapply writes_length; eauto.
  Qed.

  (* ---- ids: every id in circulation was drawn from the counter, so a newly drawn id (counter + 1) is fresh --- *)
  Definition occurs (st : state) (t : N) : Prop :=
    (exists b r x, In r (consumed st b ++ chans st b) /\ In (x, Some t) (snd r)) \/
    (exists e i acc x, In e (jobs st) /\ ep e = Work i acc /\ In (x, Some t) acc).

  Definition ids_ok (st : state) : Prop := forall t, occurs st t -> (t <= counter st)%N.

  Lemma ids_init : ids_ok INIT.
  Proof.
    intros t [(b & r & x & H & _)|(e & i & acc & x & H & _)]; cbn in H; contradiction.
  Qed.

  Lemma ids_step st st' : ids_ok st -> bstep st st' -> ids_ok st'.
  Proof.
    intros K S. destruct S;
      try (intros t Ho; apply K; destruct Ho as [(b0 & r0 & x0 & Q1 & Q2)|(e0 & i0 & acc0 & x0 & Q1 & Q2 & Q3)];
           [left; exists b0, r0, x0; auto|right; exists e0, i0, acc0, x0; auto]; fail).
    - (* S_disp *)
      intros t Ho. cbn [counter]. apply K. destruct Ho as [(b0 & r0 & x0 & Q1 & Q2)|(e0 & i0 & acc0 & x0 & Q1 & Q2 & Q3)].
      + left. exists b0, r0, x0. auto.
      + cbn [jobs] in Q1. apply in_app_or in Q1. destruct Q1 as [Q1|[<-|[]]]; [|discriminate].
        right. exists e0, i0, acc0, x0. auto.
    - (* S_begin *)
      destruct (first_split _ _ _ H0) as (l1 & l2 & Hl & _ & _ & Hu & _).
      intros t Ho. cbn [counter]. apply K. destruct Ho as [(b0 & r0 & x0 & Q2 & Q3)|(e0 & i0 & acc0 & x0 & Q2 & Q3 & Q4)].
      + left. exists b0, r0, x0. auto.
      + cbn [jobs] in Q2. rewrite Hu in Q2. apply in_app_or in Q2. destruct Q2 as [Q2|[<-|Q2]].
        * right. exists e0, i0, acc0, x0. rewrite Hl. split; [apply in_or_app; now left|auto].
        * cbn in Q3. injection Q3 as <- <-. destruct Q4.
        * right. exists e0, i0, acc0, x0. rewrite Hl. split; [apply in_or_app; right; now right|auto].
    - (* S_write *)
      destruct (first_split _ _ _ H0) as (l1 & l2 & Hl & _ & _ & Hu & _).
      intros t Ho. cbn [counter].
      assert (Hold : forall t', occurs st t' -> (t' <= counter st + 1)%N) by (intros t' Ht'; specialize (K t' Ht'); lia).
      destruct Ho as [(b0 & r0 & x0 & Q5 & Q6)|(e0 & i0 & acc0 & x0 & Q5 & Q6 & Q7)].
      + apply Hold. left. exists b0, r0, x0. auto.
      + cbn [jobs] in Q5. rewrite Hu in Q5. apply in_app_or in Q5. destruct Q5 as [Q5|[<-|Q5]].
        * apply Hold. right. exists e0, i0, acc0, x0. rewrite Hl. split; [apply in_or_app; now left|auto].
        * cbn in Q6. injection Q6 as <- <-. apply in_app_or in Q7. destruct Q7 as [Q7|[Q7|[]]].
          -- apply Hold. right. exists e, i, acc, x0. rewrite Hl. split; [apply in_or_app; right; now left|auto].
          -- injection Q7 as _ Q7. destruct created; [injection Q7 as <-; lia|discriminate].
        * apply Hold. right. exists e0, i0, acc0, x0. rewrite Hl. split; [apply in_or_app; right; now right|auto].
    - (* S_send *)
      destruct (first_split _ _ _ H0) as (l1 & l2 & Hl & _ & _ & Hu & _).
      intros t Ho. cbn [counter]. apply K. destruct Ho as [(b0 & r0 & x0 & Q5 & Q6)|(e0 & i0 & acc0 & x0 & Q5 & Q6 & Q7)].
      + cbn [consumed chans] in Q5. destruct (Nat.eq_dec b0 (jb (ej e))) as [->|Hne].
        * rewrite upd_same in Q5. apply in_app_or in Q5. destruct Q5 as [Q5|[<-|[]]].
          -- left. exists (jb (ej e)), r0, x0. split; [apply in_or_app; now left|auto].
          -- right. exists e, i, acc, x0. rewrite Hl. split; [apply in_or_app; right; now left|auto].
        * rewrite upd_other in Q5 by exact Hne. left. exists b0, r0, x0. auto.
      + cbn [jobs] in Q5. rewrite Hu in Q5. apply in_app_or in Q5. destruct Q5 as [Q5|[<-|Q5]].
        * right. exists e0, i0, acc0, x0. rewrite Hl. split; [apply in_or_app; now left|auto].
        * discriminate.
        * right. exists e0, i0, acc0, x0. rewrite Hl. split; [apply in_or_app; right; now right|auto].
    - (* S_dec *)
      destruct (first_split _ _ _ H0) as (l1 & l2 & Hl & _ & _ & _ & Hr).
      intros t Ho. cbn [counter]. apply K. destruct Ho as [(b0 & r0 & x0 & Q5 & Q6)|(e0 & i0 & acc0 & x0 & Q5 & Q6 & Q7)].
      + left. exists b0, r0, x0. auto.
      + cbn [jobs] in Q5. rewrite Hr in Q5. right. exists e0, i0, acc0, x0. rewrite Hl.
        split; [|auto]. apply in_app_or in Q5. apply in_or_app. destruct Q5; [now left|right; now right].
    - (* S_consume *)
      intros t Ho. cbn [counter]. apply K. destruct Ho as [(b0 & r0 & x0 & Q5 & Q6)|(e0 & i0 & acc0 & x0 & Q5 & Q6 & Q7)].
      + cbn [consumed chans] in Q5. left. destruct (Nat.eq_dec b0 b) as [->|Hne].
        * rewrite !upd_same in Q5. exists b, r0, x0. rewrite H. rewrite <- app_assoc in Q5. auto.
        * rewrite !upd_other in Q5 by exact Hne. exists b0, r0, x0. auto.
      + right. exists e0, i0, acc0, x0. auto.
  Qed.

  Lemma ids_bounded_lemma sigma st t : RUN INIT sigma = Some st -> occurs st t -> (t <= counter st)%N.
  Proof.
    intros H. revert t. change (ids_ok st). revert H. generalize ids_init. generalize INIT.
    induction sigma as [|l sigma IH]; intros s0 K H; cbn in H.
    - now injection H as <-.
    - destruct (FIRE s0 l) as [s1|] eqn:E; [|discriminate].
      apply (IH s1); [|exact H]. eapply ids_step; [exact K|]. eapply fire_step; eauto.
  Qed.

  Lemma counter_step_lemma st l st' :
    FIRE st l = Some st' -> counter st' = counter st \/ counter st' = (counter st + 1)%N.
  Proof. intro H. apply fire_step in H. destruct H; cbn [counter]; auto. Qed.

  (* the voting threads' job queues are unbounded: dispatching a scene never blocks, whatever is queued *)
  Lemma dispatch_never_blocks_lemma st b rest i :
    pc st = MDisp b rest i -> exists st', FIRE st BMain = Some st'.
  Proof.
    intro Hp. cbn. unfold main_step. rewrite Hp. destruct rest as [|[s ds] rest]; [eauto|].
    destruct (prep (scs st s) ds). eauto.
  Qed.

  (* ---- termination: a natural-number measure that every step decreases ------------------------------ *)
  Fixpoint sumf (h : nat -> nat) (n : nat) : nat := match n with O => 0 | S m => sumf h m + h m end.

  Lemma sumf_ext h g n : (forall k, k < n -> h k = g k) -> sumf h n = sumf g n.
  Proof.
    induction n as [|m IH]; intro H; cbn; [reflexivity|]. rewrite IH by (intros; apply H; lia). rewrite (H m) by lia. reflexivity.
  Qed.

  Lemma sumf_upd {A} (w : A -> nat) (f : nat -> A) n b x :
    b < n -> sumf (fun k => w (upd f b x k)) n + w (f b) = sumf (fun k => w (f k)) n + w x.
  Proof.
    induction n as [|m IH]; intro Hb; [lia|]. cbn [sumf].
    destruct (Nat.eq_dec b m) as [->|Hne].
    - rewrite upd_same. rewrite (sumf_ext (fun k => w (upd f m x k)) (fun k => w (f k)) m); [lia|].
      intros k Hk. rewrite upd_other by lia. reflexivity.
    - rewrite (upd_other f b x m) by lia. assert (Hb' : b < m) by lia. specialize (IH Hb'). lia.
  Qed.

  Definition scene_weight (sd : N * list DET) : nat := length (snd sd) + 5.
  Definition scenes_weight (bt : batch DET) : nat := list_sum (map scene_weight bt).
  (* the batches from index b on: their dispatches, plus the monitor step and the loop exit of each *)
  Definition rest_weight (b : nat) : nat := list_sum (map (fun bt => scenes_weight bt + 2) (skipn b batches)).
  Definition drop_weight : nat := 2 * V + 3.

  Definition main_rank (p : mpc DET) : nat :=
    match p with
    | MWait b => rest_weight b + drop_weight + 1
    | MDisp b rest _ => scenes_weight rest + 1 + rest_weight (S b) + drop_weight + 1
    | MDropSend v => 2 * (V - v) + 3
    | MDropJoin v => 2 * (V - v) + 2
    | MDone => 0
    end.

  Definition entry_weight (e : entryT) : nat :=
    match ep e with
    | Queued => jn (ej e) + 4
    | Work i _ => (jn (ej e) - i) + 3
    | Sent => 1
    end.

  Definition bmeasure (st : state) : nat :=
    main_rank (pc st) + list_sum (map entry_weight (jobs st)) +
    sumf (fun b => length (chans st b)) nb + sumf (fun v => if xdone st v then 0 else 1) V.

  Lemma skipn_sum_lt {A} (g : list A -> nat) (bs : list (list A)) : forall b, b < length bs ->
    list_sum (map g (skipn b bs)) = g (nth b bs []) + list_sum (map g (skipn (S b) bs)).
  Proof.
    induction bs as [|bt bs' IH]; intros b Hb; [cbn in Hb; lia|].
    destruct b as [|b']; [reflexivity|]. cbn [skipn nth]. apply IH. cbn in Hb. lia.
  Qed.

  Lemma rest_weight_lt b : b < nb -> rest_weight b = scenes_weight (nth b batches []) + 2 + rest_weight (S b).
  Proof.
    intro Hb. unfold rest_weight.
    pose proof (skipn_sum_lt (fun bt : batch DET => scenes_weight bt + 2) batches b Hb) as E. cbn beta in E.
    unfold batch in *. lia.
  Qed.

  Lemma rest_weight_ge b : nb <= b -> rest_weight b = 0.
  Proof. intro H. unfold rest_weight. rewrite skipn_all2 by exact H. reflexivity. Qed.

  Lemma list_sum_mid (l1 l2 : list entryT) e :
    list_sum (map entry_weight (l1 ++ e :: l2)) = list_sum (map entry_weight l1) + entry_weight e + list_sum (map entry_weight l2).
  Proof. rewrite map_app, list_sum_app. change (map entry_weight (e :: l2)) with (entry_weight e :: map entry_weight l2). change (list_sum (entry_weight e :: map entry_weight l2)) with (entry_weight e + list_sum (map entry_weight l2)). lia. Qed.

  Lemma chan_nonempty_lt st b r rest : Inv st -> chans st b = r :: rest -> b < nb.
  Proof.
    intros I H. destruct (Nat.lt_ge_cases b nb) as [Hlt|Hge]; [exact Hlt|]. exfalso.
    pose proof (inv_acc _ I b) as P. rewrite nth_overflow in P by exact Hge. cbn in P.
    apply Permutation_length in P. rewrite !app_length, H in P. cbn in P. lia.
  Qed.

  Lemma measure_decreases_inv st st' : Inv st -> bstep st st' -> bmeasure st' < bmeasure st.
  Proof.
    intros I S. destruct S; unfold bmeasure; cbn [pc jobs chans xdone].
    - (* shutdown0 *) rewrite H. cbn [main_rank]. rewrite (rest_weight_ge b H0). unfold drop_weight. lia.
    - (* wait *) rewrite H. cbn [main_rank]. rewrite (rest_weight_lt b H0). lia.
    - (* disp_end *) rewrite H. cbn [main_rank]. unfold after_batch. unfold scenes_weight. cbn [map list_sum].
      destruct (Nat.ltb (S b) nb) eqn:E; cbn [main_rank].
      + lia.
      + apply Nat.ltb_ge in E. rewrite (rest_weight_ge (S b) E). unfold drop_weight. lia.
    - (* disp *) rewrite H. cbn [main_rank]. unfold scenes_weight. cbn [map list_sum]. unfold scene_weight at 2. cbn [snd].
      rewrite map_app, list_sum_app.
      change (list_sum (length ds + 5 :: map scene_weight rest)) with (length ds + 5 + list_sum (map scene_weight rest)).
      change (list_sum (map entry_weight [mkE (i mod V) (mkJob b s (length ds) d) Queued])) with (length ds + 4 + 0).
      lia.
    - (* dropsend *) rewrite H. cbn [main_rank]. lia.
    - (* dropend *) rewrite H. cbn [main_rank]. lia.
    - (* join *) rewrite H. cbn [main_rank]. destruct (inv_joinpc _ I _ H) as (Hv & _). lia.
    - (* exit *)
      pose proof (sumf_upd (fun d : bool => if d then 0 else 1) (xdone st) V v true H) as E.
      cbn beta in E. rewrite H2 in E. lia.
    - (* begin *)
      destruct (first_split _ _ _ H0) as (l1 & l2 & Hl & _ & _ & Hu & _). rewrite Hu, Hl, !list_sum_mid.
      assert (W1 : entry_weight e = jn (ej e) + 4) by (unfold entry_weight; now rewrite H1).
      assert (W2 : entry_weight (mkE v (ej e) (Work 0 [])) = jn (ej e) - 0 + 3) by reflexivity.
      rewrite W1, W2. lia.
    - (* write *)
      destruct (first_split _ _ _ H0) as (l1 & l2 & Hl & _ & _ & Hu & _). rewrite Hu, Hl, !list_sum_mid.
      assert (W1 : entry_weight e = jn (ej e) - i + 3) by (unfold entry_weight; now rewrite H1).
      assert (W2 : entry_weight (mkE v (ej e) (Work (S i) (acc ++ [(r, if created then Some (counter st + 1)%N else None)]))) = jn (ej e) - S i + 3) by reflexivity.
      rewrite W1, W2. lia.
    - (* send *)
      destruct (first_split _ _ _ H0) as (l1 & l2 & Hl & _ & _ & Hu & _). rewrite Hu, Hl, !list_sum_mid.
      assert (W1 : entry_weight e = jn (ej e) - i + 3) by (unfold entry_weight; now rewrite H1).
      assert (W2 : entry_weight (mkE v (ej e) (@Sent REC)) = 1) by reflexivity.
      rewrite W1, W2.
      assert (Hin : In e (jobs st)) by (rewrite Hl; apply in_or_app; right; now left).
      pose proof (inv_jb _ I e Hin) as Hb. unfold ejb in Hb.
      pose proof (sumf_upd (@length (result REC)) (chans st) nb (jb (ej e)) [(js (ej e), acc)] Hb) as E.
      rewrite H3 in E. cbn [length] in E. lia.
    - (* dec *)
      destruct (first_split _ _ _ H0) as (l1 & l2 & Hl & _ & _ & _ & Hr). rewrite Hr, Hl, list_sum_mid, map_app, list_sum_app.
      assert (W1 : entry_weight e = 1) by (unfold entry_weight; now rewrite H1). rewrite W1. lia.
    - (* consume *)
      pose proof (chan_nonempty_lt _ _ _ _ I H) as Hb.
      pose proof (sumf_upd (@length (result REC)) (chans st) nb b rest Hb) as E. rewrite H in E. cbn [length] in E. lia.
  Qed.

  Lemma run_length_bounded sigma : forall st st', Inv st -> RUN st sigma = Some st' -> length sigma + bmeasure st' <= bmeasure st.
  Proof.
    induction sigma as [|l sigma IH]; intros st st' I H; cbn in H.
    - injection H as <-. cbn. lia.
    - destruct (FIRE st l) as [st1|] eqn:E; [|discriminate].
      pose proof (fire_step _ _ _ E) as S. pose proof (measure_decreases_inv _ _ I S) as D.
      specialize (IH st1 st' (inv_step _ _ I S) H). cbn [length]. lia.
  Qed.

  Lemma batch_terminates_lemma sigma st :
    RUN INIT sigma = Some st -> length sigma + bmeasure st <= bmeasure INIT.
  Proof. apply run_length_bounded. apply inv_init. Qed.

  Lemma measure_decreases_lemma sigma st l st' :
    RUN INIT sigma = Some st -> FIRE st l = Some st' -> bmeasure st' < bmeasure st.
  Proof. intros H E. apply measure_decreases_inv; [eapply reachable_inv; eauto|eapply fire_step; eauto]. Qed.

  Lemma run_app s1 : forall s2 st st1 st2, RUN st s1 = Some st1 -> RUN st1 s2 = Some st2 -> RUN st (s1 ++ s2) = Some st2.
  Proof.
    induction s1 as [|l s1 IH]; intros s2 st st1 st2 H1 H2; cbn in *.
    - now injection H1 as ->.
    - destruct (FIRE st l) as [sx|]; [|discriminate]. eapply IH; eauto.
  Qed.

  (* under the proviso every reachable state can be driven to a final state, in at most [bmeasure] steps *)
  Lemma completion_from n : forall st, lazy = false -> Inv st -> bmeasure st <= n ->
    exists sigma st', RUN st sigma = Some st' /\ FINAL st' = true /\ length sigma <= n.
  Proof.
    induction n as [|m IH]; intros st Hl I Hm.
    - destruct (FINAL st) eqn:F; [exists [], st; cbn; auto|].
      destruct (no_deadlock_inv st Hl I F) as (l & st1 & E).
      pose proof (measure_decreases_inv _ _ I (fire_step _ _ _ E)). lia.
    - destruct (FINAL st) eqn:F; [exists [], st; cbn; split; [reflexivity|split; [exact F|lia]]|].
      destruct (no_deadlock_inv st Hl I F) as (l & st1 & E).
      pose proof (fire_step _ _ _ E) as S. pose proof (measure_decreases_inv _ _ I S) as D.
      destruct (IH st1 Hl (inv_step _ _ I S)) as (sigma & st' & R & Fn & Ln); [lia|].
      exists (l :: sigma), st'. cbn. rewrite E. repeat split; auto. lia.
  Qed.

  Lemma every_run_completes_lemma sigma st :
    lazy = false -> RUN INIT sigma = Some st ->
    exists sigma' st', RUN INIT (sigma ++ sigma') = Some st' /\ FINAL st' = true /\ length (sigma ++ sigma') <= bmeasure INIT.
  Proof.
    intros Hl H. pose proof (reachable_inv _ _ H) as I.
    destruct (completion_from (bmeasure st) st Hl I (le_n _)) as (s2 & st' & R & F & L).
    exists s2, st'. split; [eapply run_app; eauto|]. split; [exact F|].
    rewrite app_length. pose proof (batch_terminates_lemma _ _ H). lia.
  Qed.

  Lemma maximal_run_is_final_lemma sigma st :
    lazy = false -> RUN INIT sigma = Some st -> (forall l, FIRE st l = None) -> FINAL st = true.
  Proof.
    intros Hl H Hmax. destruct (FINAL st) eqn:F; [reflexivity|].
    destruct (no_deadlock_inv st Hl (reachable_inv _ _ H) F) as (l & st1 & E). rewrite Hmax in E. discriminate.
  Qed.

  (* ---- scene locality of the steps ---------------------------------------------------------------- *)
  Definition touched (st : state) (l : blabel) : option N :=
    match l with
    | BMain => match pc st with MDisp _ ((s, _) :: _) _ => Some s | _ => None end
    | BVote v => match first v (jobs st) with Some e => Some (ejs e) | None => None end
    | BConsume _ => None
    end.

  Lemma scene_local_lemma st l st' s :
    FIRE st l = Some st' -> touched st l <> Some s -> scs st' s = scs st s.
  Proof.
    intros H T. destruct l as [|v|b]; cbn in H, T.
    - unfold main_step in H. destruct (pc st) as [b|b rest i|v|v|].
      + destruct (Nat.leb nb b); [now injection H as <-|].
        destruct b; [now injection H as <-|]. destruct (Nat.eqb (mons st b) 0); [now injection H as <-|discriminate].
      + destruct rest as [|[s0 ds] rest]; [now injection H as <-|].
        destruct (prep (scs st s0) ds). injection H as <-. cbn. apply updN_other. congruence.
      + destruct (Nat.ltb v V); now injection H as <-.
      + destruct (xdone st v); [now injection H as <-|discriminate].
      + discriminate.
    - unfold vote_step in H. destruct (negb (Nat.ltb v V)); [discriminate|].
      destruct (first v (jobs st)) as [e|].
      + destruct (ep e) as [|i acc|].
        * now injection H as <-.
        * destruct (Nat.ltb i (jn (ej e))).
          -- destruct (write (scs st (js (ej e))) (jd (ej e)) i) as [[sc1 r] c]. injection H as <-. cbn.
             apply updN_other. unfold ejs in T. congruence.
          -- destruct (chans st (jb (ej e))); [now injection H as <-|discriminate].
        * now injection H as <-.
      + destruct (xsent st v && negb (xdone st v)); [now injection H as <-|discriminate].
    - unfold consume_step in H. destruct (lazy && negb (submitted_all st)); [discriminate|].
      destruct (chans st b); [discriminate|]. now injection H as <-.
  Qed.

  (* ---- summary lemmas in the form used by Props/C06.v ---------------------------------------------- *)
  Lemma one_result_per_scene_lemma sigma st b :
    RUN INIT sigma = Some st -> FINAL st = true -> b < nb ->
    Permutation (map fst (consumed st b)) (map fst (nth b batches [])) /\ chans st b = [] /\
    (forall r, In r (consumed st b) -> exists ds, In (fst r, ds) (nth b batches []) /\ length (snd r) = length ds).
  Proof.
    intros H F Hb. destruct (reachable_inv2 _ _ H) as (I & J).
    destruct (one_result_per_scene_inv st b I F Hb) as (P & C). repeat split; auto.
    intros r Hr. now apply (result_shape_inv st b r J).
  Qed.

  Lemma no_deadlock_lemma sigma st :
    lazy = false -> RUN INIT sigma = Some st -> FINAL st = false -> exists l st', FIRE st l = Some st'.
  Proof. intros Hl H F. apply no_deadlock_inv; auto. eapply reachable_inv; eauto. Qed.

  Lemma monitor_protocol_lemma sigma st :
    RUN INIT sigma = Some st ->
    (forall b, is_created st b = true -> mons st b = length (jobs_of b (jobs st)) + length (undisp st b)) /\
    (forall b, is_created st b = false -> mons st b = 0 /\ jobs_of b (jobs st) = []) /\
    (forall e, In e (jobs st) ->
       match pc st with MWait b0 => S (ejb e) = b0 | MDisp b0 _ _ => ejb e = b0 | _ => S (ejb e) = nb end) /\
    (forall b, length (chans st b) <= 1).
  Proof.
    intro H. pose proof (reachable_inv _ _ H) as I. repeat split.
    - apply (inv_mon _ I).
    - now apply (inv_nocre _ I).
    - now apply (inv_nocre _ I).
    - intros e He. now apply entry_batch.
    - apply (inv_cap _ I).
  Qed.

  Lemma batch_refines_simple_lemma sigma st s :
    RUN INIT sigma = Some st -> FINAL st = true ->
    scene_results st s = simple_run SC DET JD REC prep write sc0 (proj DET s batches).
  Proof. intros H F. destruct (reachable_inv2 _ _ H) as (I & J). now apply batch_refines_simple_inv. Qed.
End BatchProofs.

(* Without the property's proviso (the caller retrieves the results of a batch only after it has submitted
   the next one, from the same thread) the protocol deadlocks: two batches of two scenes, one voting thread. *)
Module ProvisoWitness.
  Import BatchInst.
  Definition w_batches : list (list (N * nat)) := [[(1%N, 1); (2%N, 1)]; [(1%N, 1)]].
  Definition w_sigma : list blabel :=
    [BMain; BMain; BMain; BMain;            (* predict(0): monitor := 2, two jobs queued, predict returns *)
     BVote 0; BVote 0; BVote 0; BVote 0;    (* job of scene 1: begin, write, send, monitor := 1 *)
     BVote 0; BVote 0].                     (* job of scene 2: begin, write; its send blocks (channel full) *)

  Lemma deadlock_without_proviso_lemma :
    enabled_after 1 w_batches true w_sigma = Some [] /\ exists n, run_count 1 (mk_batches w_batches) true init0 w_sigma 0 = (n, false).
  Proof. split; [vm_compute; reflexivity|]. eexists. vm_compute. reflexivity. Qed.

  Lemma same_prefix_with_proviso_lemma :
    enabled_after 1 w_batches false w_sigma = Some [BConsume 0].
  Proof. vm_compute. reflexivity. Qed.
End ProvisoWitness.
