(* Lemmas about Model/DistProtoFine.v: the main theorems of the distance-query protocol hold at the granularity
   of single channel sends. The conserved quantities of Proofs/DistProtoProofs.v are reused; a worker's pending
   err chunk is one more place where a chunk can sit. *)
From Coq Require Import List NArith Bool Arith Lia Permutation.
From Similari Require Import Model.DistProto Model.DistProtoFine Proofs.DistProtoProofs.
Import ListNotations.

Definition pending {A} (h : list (option A)) : list A :=
  flat_map (fun o => match o with Some e => [e] | None => [] end) h.

Lemma pending_set_some {A} (h : list (option A)) : forall k e,
  nth_error h k = Some None -> Permutation (pending (set_nth k (Some e) h)) (e :: pending h).
Proof.
  induction h as [|o h IH]; intros k e H; [destruct k; discriminate|].
  destruct k; cbn in H.
  - injection H as ->. cbn. reflexivity.
  - cbn [set_nth]. unfold pending in *. cbn [flat_map]. rewrite (IH k e H).
    destruct o; cbn; [apply perm_swap|reflexivity].
Qed.

Lemma pending_set_none {A} (h : list (option A)) : forall k e,
  nth_error h k = Some (Some e) -> Permutation (pending h) (e :: pending (set_nth k None h)).
Proof.
  induction h as [|o h IH]; intros k e H; [destruct k; discriminate|].
  destruct k; cbn in H.
  - injection H as ->. cbn. reflexivity.
  - cbn [set_nth]. unfold pending in *. cbn [flat_map]. rewrite (IH k e H).
    destruct o; cbn; [apply perm_swap|reflexivity].
Qed.

Lemma pending_repeat_none {A} n : pending (repeat (@None A) n) = [].
Proof. induction n; cbn; auto. Qed.

Lemma pending_nil_all_none {A} (h : list (option A)) : pending h = [] -> Forall (fun o => o = None) h.
Proof.
  induction h as [|o h IH]; intro H; [constructor|]. destruct o; [discriminate|].
  constructor; [reflexivity|apply IH; exact H].
Qed.

Lemma pending_pos {A} (h : list (option A)) : 0 < length (pending h) -> exists k e, nth_error h k = Some (Some e).
Proof.
  induction h as [|o h IH]; intro H; [cbn in H; lia|].
  destruct o as [e|].
  - exists 0, e. reflexivity.
  - destruct (IH H) as (k & e & Hk). exists (S k), e. exact Hk.
Qed.

Section FineProofs.
  Variable track : Type.
  Variable OBS : Type.
  Variable MV : Type.
  Variable tid : track -> N.
  Variable compatible : track -> track -> bool.
  Variable baked : track -> status.
  Variable observations : track -> N -> option (list OBS).
  Variable metric : N -> track -> OBS -> track -> OBS -> option MV.
  Variable postprocess : track -> list (res MV) -> list (res MV).
  Variable cls : N.
  Variable ob : bool.

  Notation SD := (shard_distances track OBS MV tid compatible baked observations metric postprocess).
  Notation DFIRE := (dfire track OBS MV tid compatible baked observations metric postprocess cls ob).
  Notation FFIRE := (ffire track OBS MV tid compatible baked observations metric postprocess cls ob).
  Notation FRUN := (frun track OBS MV tid compatible baked observations metric postprocess cls ob).
  Notation FFINAL := (ffinal track MV).
  Notation OKSPEC := (ok_spec track OBS MV tid compatible baked observations metric postprocess).
  Notation ERRSPEC := (err_spec track OBS tid compatible baked observations).
  Notation OKF := (okf track OBS MV tid compatible baked observations metric postprocess cls ob).
  Notation ERRF := (errf track OBS MV tid compatible baked observations metric postprocess cls ob).
  Notation state := (fstate track MV).
  Notation WF := (wf track MV).

  (* the atomic step a FExecOk corresponds to, and the state it would produce *)
  Definition atomic_exec (b : dstate track MV) (k : nat) (c : track) (q : list track) : dstate track MV :=
    let r := SD c cls ob (nth k (shards b) []) in
    mkD (shards b) (set_nth k q (queues b)) (ok_chan b ++ [fst r]) (err_chan b ++ [snd r]) (pre b) (todo b)
        (need_ok b) (need_err b) (got_ok b) (got_err b).

  Lemma atomic_exec_fire b k c q :
    nth_error (queues b) k = Some (c :: q) -> DFIRE b (DExec k) = Some (atomic_exec b k c q).
  Proof. intro H. cbn. rewrite H. reflexivity. Qed.

  Inductive fstep (st : state) : state -> Prop :=
  | FS_base l' b' : DFIRE (fb st) l' = Some b' -> (forall k, l' <> DExec k) -> fstep st (mkF b' (half st))
  | FS_ok k c q : nth_error (half st) k = Some None -> nth_error (queues (fb st)) k = Some (c :: q) ->
      fstep st (mkF (mkD (shards (fb st)) (set_nth k q (queues (fb st)))
                         (ok_chan (fb st) ++ [fst (SD c cls ob (nth k (shards (fb st)) []))]) (err_chan (fb st))
                         (pre (fb st)) (todo (fb st)) (need_ok (fb st)) (need_err (fb st)) (got_ok (fb st)) (got_err (fb st)))
                    (set_nth k (Some (snd (SD c cls ob (nth k (shards (fb st)) [])))) (half st)))
  | FS_err k e : nth_error (half st) k = Some (Some e) ->
      fstep st (mkF (mkD (shards (fb st)) (queues (fb st)) (ok_chan (fb st)) (err_chan (fb st) ++ [e])
                         (pre (fb st)) (todo (fb st)) (need_ok (fb st)) (need_err (fb st)) (got_ok (fb st)) (got_err (fb st)))
                    (set_nth k None (half st))).

  Lemma ffire_step st l st' : FFIRE st l = Some st' -> fstep st st'.
  Proof.
    destruct l as [|k|k|k| |]; cbn [ffire base_label].
    - destruct (DFIRE (fb st) DCopy) as [b'|] eqn:E; [|discriminate]. intro H. injection H as <-.
      eapply FS_base; [exact E|]. intros k; discriminate.
    - destruct (DFIRE (fb st) (DEnq k)) as [b'|] eqn:E; [|discriminate]. intro H. injection H as <-.
      eapply FS_base; [exact E|]. intros k'; discriminate.
    - destruct (nth_error (half st) k) as [[e|]|] eqn:Eh; try discriminate.
      destruct (nth_error (queues (fb st)) k) as [[|c q]|] eqn:Eq; try discriminate.
      intro H. injection H as <-. now apply FS_ok.
    - destruct (nth_error (half st) k) as [[e|]|] eqn:Eh; try discriminate.
      intro H. injection H as <-. now apply FS_err.
    - destruct (DFIRE (fb st) DRecvOk) as [b'|] eqn:E; [|discriminate]. intro H. injection H as <-.
      eapply FS_base; [exact E|]. intros k; discriminate.
    - destruct (DFIRE (fb st) DRecvErr) as [b'|] eqn:E; [|discriminate]. intro H. injection H as <-.
      eapply FS_base; [exact E|]. intros k; discriminate.
  Qed.

  Definition fwf (st : state) : Prop := WF (fb st) /\ length (half st) = length (shards (fb st)).

  Lemma fstep_wf st st' : fwf st -> fstep st st' -> fwf st' /\ shards (fb st') = shards (fb st).
  Proof.
    intros (Hw & Hh) S. destruct S as [l' b' E _|k c q Hk Hq|k e Hk].
    - destruct (fire_wf _ _ _ _ _ _ _ _ _ _ _ _ _ _ Hw E) as (Hw' & Hs). cbn [fb half]. split; [split; [exact Hw'|cbn [fb half]; etransitivity; [exact Hh|now rewrite Hs]]|exact Hs].
    - destruct (fire_wf _ _ _ _ _ _ _ _ _ _ _ _ _ _ Hw (atomic_exec_fire _ _ _ _ Hq)) as (Hw' & Hs).
      cbn. split; [|reflexivity]. split; [exact Hw'|]. cbn. now rewrite set_nth_length.
    - cbn. split; [|reflexivity]. split; [exact Hw|]. cbn. now rewrite set_nth_length.
  Qed.

  Section Mass.
    Variable B : Type.
    Variable f : track -> list track -> list B.
    Variable gk : list (res MV) -> list B.
    Variable ge : list err -> list B.

    Notation MOK := (mass_ok track MV B f gk).
    Notation MERR := (mass_err track MV B f ge).

    Definition fmass_err (st : state) : list B := MERR (fb st) ++ flat_map ge (pending (half st)).

    Lemma fstep_mass_ok st st' :
      (forall c sh, gk (OKF c sh) = f c sh) -> fwf st -> fstep st st' -> Permutation (MOK (fb st')) (MOK (fb st)).
    Proof.
      intros Hg (Hw & _) S. destruct S as [l' b' E _|k c q Hk Hq|k e Hk].
      - cbn [fb]. eapply mass_ok_step; eauto.
      - change (Permutation (MOK (atomic_exec (fb st) k c q)) (MOK (fb st))).
        eapply mass_ok_step; [exact Hg|exact Hw|apply atomic_exec_fire; exact Hq].
      - reflexivity.
    Qed.

    Lemma fstep_mass_err st st' :
      (forall c sh, ge (ERRF c sh) = f c sh) -> fwf st -> fstep st st' -> Permutation (fmass_err st') (fmass_err st).
    Proof.
      intros Hg (Hw & _) S. destruct S as [l' b' E _|k c q Hk Hq|k e Hk]; unfold fmass_err; cbn [fb half].
      - apply Permutation_app_tail. eapply mass_err_step; eauto.
      - assert (P : Permutation (MERR (atomic_exec (fb st) k c q)) (MERR (fb st)))
          by (eapply mass_err_step; [exact Hg|exact Hw|apply atomic_exec_fire; exact Hq]).
        rewrite <- P. unfold mass_err, atomic_exec. cbn [got_err err_chan shards queues todo].
        rewrite (Permutation_flat_map_l ge _ _ (pending_set_some (half st) k _ Hk)). cbn [flat_map].
        rewrite flat_map_app. cbn [flat_map]. rewrite app_nil_r.
        set (X := ge (snd (SD c cls ob (nth k (shards (fb st)) [])))).
        set (P' := pend f (shards (fb st)) (set_nth k q (queues (fb st)))).
        set (W := work f (shards (fb st)) (todo (fb st))).
        rewrite <- !app_assoc. apply Permutation_app_head, Permutation_app_head.
        rewrite !(app_assoc P' W).
        apply Permutation_sym, Permutation_app_swap_app.
      - unfold mass_err. cbn [got_err err_chan shards queues todo].
        rewrite (Permutation_flat_map_l ge _ _ (pending_set_none (half st) k e Hk)). cbn [flat_map].
        rewrite flat_map_app. cbn [flat_map]. rewrite app_nil_r.
        set (X := ge e).
        set (P' := pend f (shards (fb st)) (queues (fb st))).
        set (W := work f (shards (fb st)) (todo (fb st))).
        rewrite <- !app_assoc. apply Permutation_app_head, Permutation_app_head.
        rewrite !(app_assoc P' W).
        apply Permutation_app_swap_app.
    Qed.

    Lemma frun_mass_ok sigma : forall st st',
      (forall c sh, gk (OKF c sh) = f c sh) -> fwf st -> FRUN st sigma = Some st' ->
      Permutation (MOK (fb st')) (MOK (fb st)).
    Proof.
      induction sigma as [|l sigma IH]; intros st st' H1 Hw H; cbn in H.
      - injection H as <-. reflexivity.
      - destruct (FFIRE st l) as [s1|] eqn:E; [|discriminate]. pose proof (ffire_step _ _ _ E) as S.
        destruct (fstep_wf _ _ Hw S) as (Hw1 & Hs1).
        rewrite (IH s1 st' H1 Hw1 H). now apply fstep_mass_ok.
    Qed.

    Lemma frun_mass_err sigma : forall st st',
      (forall c sh, ge (ERRF c sh) = f c sh) -> fwf st -> FRUN st sigma = Some st' ->
      Permutation (fmass_err st') (fmass_err st).
    Proof.
      induction sigma as [|l sigma IH]; intros st st' H1 Hw H; cbn in H.
      - injection H as <-. reflexivity.
      - destruct (FFIRE st l) as [s1|] eqn:E; [|discriminate]. pose proof (ffire_step _ _ _ E) as S.
        destruct (fstep_wf _ _ Hw S) as (Hw1 & Hs1).
        rewrite (IH s1 st' H1 Hw1 H). now apply fstep_mass_err.
    Qed.
  End Mass.

  Lemma frun_wf sigma : forall st st', fwf st -> FRUN st sigma = Some st' -> fwf st' /\ shards (fb st') = shards (fb st).
  Proof.
    induction sigma as [|l sigma IH]; intros st st' Hw H; cbn in H.
    - injection H as <-. auto.
    - destruct (FFIRE st l) as [s1|] eqn:E; [|discriminate]. pose proof (ffire_step _ _ _ E) as S.
      destruct (fstep_wf _ _ Hw S) as (Hw1 & Hs1). destruct (IH s1 st' Hw1 H) as (Hw' & Hs'). split; [exact Hw'|congruence].
  Qed.

  Lemma fstep_balance st st' : fwf st -> fstep st st' -> balance track MV (fb st') = balance track MV (fb st).
  Proof.
    intros ((_ & Hpre & _) & _) S. destruct S as [l' b' E _|k c q Hk Hq|k e Hk]; cbn [fb].
    - eapply balance_step; eauto.
    - reflexivity.
    - reflexivity.
  Qed.

  Lemma frun_balance sigma : forall st st', fwf st -> FRUN st sigma = Some st' ->
    balance track MV (fb st') = balance track MV (fb st).
  Proof.
    induction sigma as [|l sigma IH]; intros st st' Hw H; cbn in H.
    - now injection H as <-.
    - destruct (FFIRE st l) as [s1|] eqn:E; [|discriminate]. pose proof (ffire_step _ _ _ E) as S.
      destruct (fstep_wf _ _ Hw S) as (Hw1 & _). rewrite (IH s1 st' Hw1 H). now apply fstep_balance.
  Qed.

  Notation unit_f := (fun (_ : track) (_ : list track) => [tt]).
  Notation unit_k := (fun _ : list (res MV) => [tt]).
  Notation unit_e := (fun _ : list err => [tt]).

  Lemma finit_wf sh cands : fwf (finit_foreign track MV sh cands).
  Proof. split; [apply foreign_init_wf|]. cbn. now rewrite repeat_length. Qed.

  Record freach (sh : list (list track)) (cands : list track) (st : state) : Prop := {
    fr_wf : fwf st;
    fr_shards : shards (fb st) = sh;
    fr_ok : Permutation (mass_ok track MV (res MV) OKF (fun x => x) (fb st)) (OKSPEC (concat sh) cands cls ob);
    fr_err : Permutation (mass_err track MV err ERRF (fun x => x) (fb st) ++ concat (pending (half st)))
                         (ERRSPEC (concat sh) cands cls ob);
    fr_cnt_ok : length (got_ok (fb st)) + length (ok_chan (fb st)) + length (pend unit_f (shards (fb st)) (queues (fb st)))
                + length (todo (fb st)) = length sh * length cands;
    fr_cnt_err : length (got_err (fb st)) + length (err_chan (fb st)) + length (pend unit_f (shards (fb st)) (queues (fb st)))
                 + length (todo (fb st)) + length (pending (half st)) = length sh * length cands;
    fr_bal_ok : length (got_ok (fb st)) + need_ok (fb st) = length sh * length cands;
    fr_bal_err : length (got_err (fb st)) + need_err (fb st) = length sh * length cands
  }.

  Lemma flat_map_id_concat' {A} (ls : list (list A)) : flat_map (fun x => x) ls = concat ls.
  Proof. induction ls as [|l ls IH]; cbn; [reflexivity|]. now rewrite IH. Qed.

  Lemma fine_reach sh cands sigma st :
    FRUN (finit_foreign track MV sh cands) sigma = Some st -> freach sh cands st.
  Proof.
    intros H. pose proof (finit_wf sh cands) as Hw0.
    destruct (frun_wf sigma _ _ Hw0 H) as (Hw & Hs).
    pose proof (frun_mass_ok (res MV) OKF (fun x => x) sigma _ _ (fun _ _ => eq_refl) Hw0 H) as Pok.
    pose proof (frun_mass_err err ERRF (fun x => x) sigma _ _ (fun _ _ => eq_refl) Hw0 H) as Perr.
    pose proof (frun_mass_ok unit unit_f unit_k sigma _ _ (fun _ _ => eq_refl) Hw0 H) as Cok.
    pose proof (frun_mass_err unit unit_f unit_e sigma _ _ (fun _ _ => eq_refl) Hw0 H) as Cerr.
    pose proof (frun_balance sigma _ _ Hw0 H) as Hbal.
    unfold finit_foreign, foreign_init in *. cbn [fb half] in *.
    apply Permutation_length in Cok. apply Permutation_length in Cerr.
    unfold fmass_err, mass_ok, mass_err in Cok, Cerr, Pok, Perr.
    cbn [fb half got_ok got_err ok_chan err_chan shards queues todo flat_map app] in Cok, Cerr, Pok, Perr, Hs, Hbal.
    rewrite !app_length in Cok. rewrite !app_length in Cerr.
    rewrite !length_flat_map_unit in Cok. rewrite !length_flat_map_unit in Cerr.
    rewrite pend_repeat_nil in Cok. rewrite pend_repeat_nil in Cerr. rewrite pend_repeat_nil in Pok. rewrite pend_repeat_nil in Perr.
    rewrite pending_repeat_none in Cerr, Perr.
    unfold work in Cok, Cerr. rewrite !length_flat_map_unit in Cok. rewrite !length_flat_map_unit in Cerr.
    rewrite enq_list_length in Cok, Cerr. cbn [length app flat_map] in Cok, Cerr, Pok, Perr.
    rewrite app_nil_r in Perr.
    rewrite okf_all_shards in Pok. rewrite errf_all_shards in Perr.
    rewrite flat_map_id_concat' in Perr.
    unfold balance in Hbal. cbn in Hbal. injection Hbal as Hb1 Hb2.
    constructor; try assumption; try lia.
  Qed.

  Lemma fine_final_empty sh cands st :
    freach sh cands st -> FFINAL st = true ->
    todo (fb st) = [] /\ ok_chan (fb st) = [] /\ err_chan (fb st) = [] /\
    length (pend unit_f (shards (fb st)) (queues (fb st))) = 0 /\ pending (half st) = [] /\
    length (got_ok (fb st)) = length sh * length cands /\ length (got_err (fb st)) = length sh * length cands.
  Proof.
    intros R F. unfold ffinal, dfinal in F.
    destruct (pre (fb st)); [discriminate|]. destruct (todo (fb st)) eqn:Et; [|discriminate].
    destruct (need_ok (fb st)) eqn:E1; [|discriminate]. destruct (need_err (fb st)) eqn:E2; [|discriminate].
    pose proof (fr_cnt_ok _ _ _ R) as C1. pose proof (fr_cnt_err _ _ _ R) as C2.
    pose proof (fr_bal_ok _ _ _ R) as B1. pose proof (fr_bal_err _ _ _ R) as B2.
    rewrite Et in C1, C2. cbn [length] in C1, C2. rewrite E1 in B1. rewrite E2 in B2.
    repeat split; try lia.
    - destruct (ok_chan (fb st)); [reflexivity|cbn in C1; lia].
    - destruct (err_chan (fb st)); [reflexivity|cbn in C2; lia].
    - destruct (pending (half st)); [reflexivity|cbn in C2; lia].
  Qed.

  Lemma query_exact_fine_lemma sh cands sigma st :
    FRUN (finit_foreign track MV sh cands) sigma = Some st -> FFINAL st = true ->
    Permutation (concat (got_ok (fb st))) (OKSPEC (concat sh) cands cls ob) /\
    Permutation (concat (got_err (fb st))) (ERRSPEC (concat sh) cands cls ob) /\
    shards (fb st) = sh /\
    length (got_ok (fb st)) = length sh * length cands /\ length (got_err (fb st)) = length sh * length cands /\
    ok_chan (fb st) = [] /\ err_chan (fb st) = [] /\ Forall (fun o => o = None) (half st).
  Proof.
    intros H F. pose proof (fine_reach _ _ _ _ H) as R.
    destruct (fine_final_empty _ _ _ R F) as (Et & Eo & Ee & Ep & Eh & L1 & L2).
    pose proof (fr_ok _ _ _ R) as Hok. pose proof (fr_err _ _ _ R) as Herr.
    unfold mass_ok in Hok. unfold mass_err in Herr. rewrite Et, Eo in Hok. rewrite Et, Ee, Eh in Herr.
    rewrite (pend_unit_zero OKF _ _ Ep) in Hok. rewrite (pend_unit_zero ERRF _ _ Ep) in Herr.
    cbn [flat_map work app concat] in Hok, Herr. rewrite !app_nil_r in Hok, Herr.
    rewrite flat_map_id_concat' in Hok. rewrite flat_map_id_concat' in Herr. rewrite ?app_nil_r in Herr.
    repeat split; try assumption.
    - apply (fr_shards _ _ _ R).
    - now apply pending_nil_all_none.
  Qed.

  Lemma no_deadlock_fine_lemma sh cands sigma st :
    FRUN (finit_foreign track MV sh cands) sigma = Some st -> FFINAL st = false ->
    exists l st', FFIRE st l = Some st'.
  Proof.
    intros H F. pose proof (fine_reach _ _ _ _ H) as R.
    pose proof (fr_cnt_ok _ _ _ R) as C1. pose proof (fr_cnt_err _ _ _ R) as C2.
    pose proof (fr_bal_ok _ _ _ R) as B1. pose proof (fr_bal_err _ _ _ R) as B2.
    destruct (fr_wf _ _ _ R) as ((Hlen & Hpre & Htodo) & Hh).
    unfold ffinal, dfinal in F. rewrite Hpre in F.
    (* a worker with a pending err chunk can send it; a non-empty queue lets its worker start or finish *)
    assert (Hq : 0 < length (pend unit_f (shards (fb st)) (queues (fb st))) -> exists l st', FFIRE st l = Some st').
    { intro Hp. destruct (pend_unit_pos _ _ Hlen Hp) as (k & c & q & Hk).
      assert (Hkl : k < length (half st)).
      { rewrite Hh, <- Hlen. apply nth_error_Some. rewrite Hk. discriminate. }
      destruct (nth_error (half st) k) as [[e|]|] eqn:Eh.
      - exists (FExecErr k). cbn. rewrite Eh. eauto.
      - exists (FExecOk k). cbn. rewrite Eh, Hk. eauto.
      - apply nth_error_None in Eh. lia. }
    assert (Hp : 0 < length (pending (half st)) -> exists l st', FFIRE st l = Some st').
    { intro Hp. destruct (pending_pos _ Hp) as (k & e & Hk). exists (FExecErr k). cbn. rewrite Hk. eauto. }
    destruct (todo (fb st)) as [|[k c] rest] eqn:Et.
    - cbn [length] in C1, C2.
      destruct (need_ok (fb st)) eqn:E1.
      + destruct (need_err (fb st)) eqn:E2; [discriminate|].
        destruct (err_chan (fb st)) eqn:Ec.
        * cbn [length] in C2.
          destruct (length (pending (half st))) eqn:Ep; [apply Hq; lia|apply Hp; lia].
        * exists FRecvErr. cbn. rewrite E2, Ec. eauto.
      + destruct (ok_chan (fb st)) eqn:Ec.
        * apply Hq. cbn in C1. lia.
        * exists FRecvOk. cbn. rewrite E1, Ec. eauto.
    - inversion Htodo as [|x l Hk _]; subst. cbn in Hk. rewrite <- Hlen in Hk.
      destruct (nth_error (queues (fb st)) k) as [q|] eqn:Eq.
      + exists (FEnq k). cbn. rewrite Hpre, Et, Nat.eqb_refl, Eq. eauto.
      + apply nth_error_None in Eq. lia.
  Qed.

  (* owned query: nothing but the copy can happen first; afterwards it is a foreign query *)
  Lemma owned_fine_shape sh ids sigma st :
    FRUN (finit_owned track MV sh ids) sigma = Some st ->
    (sigma = [] /\ st = finit_owned track MV sh ids) \/
    exists sigma', sigma = FCopy :: sigma' /\
                   FRUN (finit_foreign track MV sh (owned_cands track tid sh ids)) sigma' = Some st.
  Proof.
    destruct sigma as [|l sigma]; intros H; cbn [frun] in H.
    - left. split; [reflexivity|]. now injection H.
    - right. destruct l as [|k|k|k| |]; cbn in H.
      + exists sigma. split; [reflexivity|]. exact H.
      + discriminate.
      + exfalso. destruct (nth_error (repeat None (length sh)) k) as [[e|]|]; try discriminate.
        assert (E : nth_error (repeat (@nil track) (length sh)) k = None \/
                    nth_error (repeat (@nil track) (length sh)) k = Some []).
        { destruct (nth_error (repeat [] (length sh)) k) eqn:E; [|auto]. right.
          apply nth_error_In, repeat_spec in E. now subst. }
        destruct E as [E|E]; rewrite E in H; discriminate.
      + exfalso. destruct (nth_error (repeat None (length sh)) k) as [[e|]|] eqn:E; try discriminate.
        apply nth_error_In, repeat_spec in E. discriminate.
      + discriminate.
      + discriminate.
  Qed.

  Lemma owned_query_exact_fine_lemma sh ids sigma st :
    FRUN (finit_owned track MV sh ids) sigma = Some st -> FFINAL st = true ->
    Permutation (concat (got_ok (fb st))) (OKSPEC (concat sh) (owned_cands track tid sh ids) cls ob) /\
    Permutation (concat (got_err (fb st))) (ERRSPEC (concat sh) (owned_cands track tid sh ids) cls ob) /\
    shards (fb st) = sh.
  Proof.
    intros H F. destruct (owned_fine_shape _ _ _ _ H) as [(-> & ->)|(sigma' & -> & H')].
    - discriminate.
    - destruct (query_exact_fine_lemma _ _ _ _ H' F) as (A & B & C & _). auto.
  Qed.
End FineProofs.
