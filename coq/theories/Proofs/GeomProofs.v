(* Lemmas about Model/Geom.v over the exact-rational instance (C08). *)
From Coq Require Import List Bool ZArith QArith Qabs Lia Lra.
From Similari Require Import Base.Num Model.Geom.
Import ListNotations.
Open Scope Q_scope.

Lemma sh_clip_nil_clip : forall subj : list qpt, sh_clip Qops subj [] = subj.
Proof. reflexivity. Qed.
