(* Lemmas about Model/Geom.v over the exact-rational instance Qops (C08).
   Part 1: arithmetic normal forms, similarity maps (translation / rotation) commute with the clipper,
           the clipped region never leaves either polygon, self-clipping, rectangle area. *)
From Coq Require Import List Bool ZArith QArith Qfield Qabs Lia Lra Psatz Setoid Morphisms.
From Similari Require Import Base.Num Model.Geom.
From SimilariGen Require Import Scalar ScalarClip ScalarBox.
Import ListNotations.
Open Scope Q_scope.

(* ring / field also when the carrier is written [T Qops] (the type of px, py, shoelace ... at Qops) *)
Definition Qsft_T : @field_theory (T Qops) 0 1 Qplus Qmult Qminus Qopp Qdiv Qinv Qeq := Qsft.
Add Field QopsField : Qsft_T
 (decidable Qeq_bool_eq, completeness Qeq_eq_bool, constants [Qcst], power_tac Qpower_theory [Qpow_tac]).

(* ------------------------------------------------------------------------------------------ *)
(* Qops in terms of the Stdlib operations (results are normalised by Qred, hence == and not =) *)

Lemma qadd a b : add Qops a b == a + b. Proof. apply Qred_correct. Qed.
Lemma qsub a b : sub Qops a b == a - b. Proof. apply Qred_correct. Qed.
Lemma qmul a b : mul Qops a b == a * b. Proof. apply Qred_correct. Qed.
Lemma qdiv a b : div Qops a b == a / b. Proof. apply Qred_correct. Qed.
Lemma qopp a : opp Qops a = - a. Proof. reflexivity. Qed.
Lemma qzero : zero Qops = 0. Proof. reflexivity. Qed.
Lemma qone : one Qops = 1. Proof. reflexivity. Qed.
Lemma qleb a b : leb Qops a b = Qle_bool a b. Proof. reflexivity. Qed.
Lemma qltb a b : ltb Qops a b = negb (Qle_bool b a). Proof. reflexivity. Qed.
Lemma qtwo : two Qops == 2. Proof. reflexivity. Qed.

Lemma Qabsb_abs a : abs Qops a == Qabs a.
Proof.
  cbn [abs Qops]. unfold Qabsb. destruct (Qle_bool 0 a) eqn:E.
  - apply Qle_bool_iff in E. now rewrite Qabs_pos.
  - assert (a < 0). { apply Qnot_le_lt. intro H. apply Qle_bool_iff in H. congruence. }
    rewrite Qabs_neg; [reflexivity | now apply Qlt_le_weak].
Qed.

Lemma Qmaxb_spec a b : (a <= b /\ max Qops a b = b) \/ (b < a /\ max Qops a b = a).
Proof.
  cbn [max Qops]. unfold Qmaxb. destruct (Qle_bool a b) eqn:E.
  - left. split; [now apply Qle_bool_iff | reflexivity].
  - right. split; [|reflexivity]. apply Qnot_le_lt. intro H. apply Qle_bool_iff in H. congruence.
Qed.

Lemma Qminb_spec a b : (a <= b /\ min Qops a b = a) \/ (b < a /\ min Qops a b = b).
Proof.
  cbn [min Qops]. unfold Qminb. destruct (Qle_bool a b) eqn:E.
  - left. split; [now apply Qle_bool_iff | reflexivity].
  - right. split; [|reflexivity]. apply Qnot_le_lt. intro H. apply Qle_bool_iff in H. congruence.
Qed.

Lemma Qle_bool_false a b : Qle_bool a b = false <-> b < a.
Proof.
  split; intro H.
  - apply Qnot_le_lt. intro L. apply Qle_bool_iff in L. congruence.
  - destruct (Qle_bool a b) eqn:E; [|reflexivity]. apply Qle_bool_iff in E. exfalso. now apply (Qlt_not_le _ _ H).
Qed.

Lemma qltb_iff a b : ltb Qops a b = true <-> a < b.
Proof. rewrite qltb, negb_true_iff. apply Qle_bool_false. Qed.

Lemma qleb_iff a b : leb Qops a b = true <-> a <= b.
Proof. rewrite qleb. apply Qle_bool_iff. Qed.

Lemma eqb_iff a b : eqb Qops a b = true <-> a == b.
Proof.
  unfold eqb. rewrite andb_true_iff, !qleb_iff. split.
  - intros [H1 H2]. now apply Qle_antisym.
  - intros H. rewrite H. split; apply Qle_refl.
Qed.

(* normal form of the primitive geometric functions *)
Ltac qn := cbn [T add sub mul div opp zero one Qops]; rewrite ?Qred_correct.

Definition crossq (p1 p2 q : qpt) : Q :=
  (px p2 - px p1) * (py q - py p1) - (py p2 - py p1) * (px q - px p1).

Lemma cross_q p1 p2 q : cross Qops p1 p2 q == crossq p1 p2 q.
Proof. unfold cross, crossq. qn. reflexivity. Qed.

(* the translated clip_is_inside tests the sign of [cross] (by computation: the texts coincide) *)
Lemma is_inside_cross q p1 p2 : is_inside Qops q p1 p2 = leb Qops (cross Qops p1 p2 q) (zero Qops).
Proof. reflexivity. Qed.

Lemma is_inside_iff q p1 p2 : is_inside Qops q p1 p2 = true <-> crossq p1 p2 q <= 0.
Proof. rewrite is_inside_cross. rewrite qleb_iff, cross_q, qzero. reflexivity. Qed.

Lemma is_inside_false q p1 p2 : is_inside Qops q p1 p2 = false <-> 0 < crossq p1 p2 q.
Proof. rewrite is_inside_cross. rewrite qleb, cross_q, qzero. apply Qle_bool_false. Qed.

(* equality of points / of vertex lists up to == *)
Definition peq (p q : qpt) : Prop := px p == px q /\ py p == py q.
Definition leq (l l' : list qpt) : Prop := Forall2 peq l l'.

Lemma peq_refl p : peq p p. Proof. split; reflexivity. Qed.
Lemma leq_refl l : leq l l. Proof. induction l; constructor; auto using peq_refl. Qed.

(* ------------------------------------------------------------------------------------------ *)
(* the crossing point in parametric form: the point s + t (e - s) of the subject segment with
   t = r_s / (r_s - r_e), r = the very cross product that is_inside tests.  The denominator of the line-line
   formula IS r_s - r_e: it cannot vanish when the two end points are classified differently. *)

Definition ci_t (s e cs ce : qpt) : Q := crossq cs ce s / (crossq cs ce s - crossq cs ce e).

(* the situation in which the clipper calls compute_intersection: the end points of the subject edge are
   classified differently by is_inside *)
Definition sides_differ (s e cs ce : qpt) : Prop :=
  (crossq cs ce e <= 0 /\ 0 < crossq cs ce s) \/ (crossq cs ce s <= 0 /\ 0 < crossq cs ce e).

Lemma sides_differ_den s e cs ce : sides_differ s e cs ce -> ~ crossq cs ce s - crossq cs ce e == 0.
Proof. intros [[? ?]|[? ?]] Z; lra. Qed.

Lemma ci_t_range s e cs ce : sides_differ s e cs ce -> 0 <= ci_t s e cs ce <= 1.
Proof.
  unfold ci_t, sides_differ. set (rs := crossq cs ce s). set (re := crossq cs ce e). intros [[H1 H2]|[H1 H2]].
  - assert (D : 0 < rs - re) by lra. split.
    + apply Qle_shift_div_l; [exact D | lra].
    + apply Qle_shift_div_r; [exact D | lra].
  - assert (D : 0 < re - rs) by lra.
    assert (E : rs / (rs - re) == (- rs) / (re - rs)) by (field; split; lra).
    rewrite E. split.
    + apply Qle_shift_div_l; [exact D | lra].
    + apply Qle_shift_div_r; [exact D | lra].
Qed.

(* f64::clamp(0.0, 1.0), translated as min (max t 0) 1 *)
Lemma clamp_id t t' : t == t' -> 0 <= t' <= 1 -> min Qops (max Qops t (zero Qops)) (one Qops) == t'.
Proof.
  intros E [H0 H1]. rewrite qzero, qone.
  destruct (Qmaxb_spec t 0) as [[A M]|[A M]]; rewrite M.
  - destruct (Qminb_spec 0 1) as [[B N]|[B N]]; rewrite N; [rewrite E in A; lra | lra].
  - destruct (Qminb_spec t 1) as [[B N]|[B N]]; rewrite N; [exact E | rewrite E in B; lra].
Qed.

(* the translated clip_compute_intersection, unfolded (by computation) in terms of [cross] *)
Lemma compute_intersection_unfold s e cs ce :
  compute_intersection Qops s e cs ce =
  (let d1 := cross Qops cs ce s in
   let d2 := cross Qops cs ce e in
   let t := min Qops (max Qops (div Qops d1 (sub Qops d1 d2)) (zero Qops)) (one Qops) in
   (add Qops (px s) (mul Qops t (sub Qops (px e) (px s))), add Qops (py s) (mul Qops t (sub Qops (py e) (py s))))).
Proof. reflexivity. Qed.

Lemma compute_intersection_parametric s e cs ce :
  sides_differ s e cs ce ->
  peq (compute_intersection Qops s e cs ce)
      (px s + ci_t s e cs ce * (px e - px s), py s + ci_t s e cs ce * (py e - py s)).
Proof.
  intros Hd. rewrite compute_intersection_unfold. cbv zeta.
  assert (ET : min Qops (max Qops (div Qops (cross Qops cs ce s) (sub Qops (cross Qops cs ce s) (cross Qops cs ce e)))
                          (zero Qops)) (one Qops) == ci_t s e cs ce).
  { apply clamp_id; [|now apply ci_t_range]. rewrite qdiv, qsub, !cross_q. reflexivity. }
  set (tt := min Qops _ _) in *.
  unfold peq. cbn [px py fst snd]. qn. rewrite ET. split; reflexivity.
Qed.

(* the line-line formula used before commit 04617aa gives the same point in exact arithmetic *)
Definition ci_den (s e cs ce : qpt) : Q :=
  (px s - px e) * (py cs - py ce) - (py s - py e) * (px cs - px ce).

Lemma ci_den_cross s e cs ce : ci_den s e cs ce == crossq cs ce s - crossq cs ce e.
Proof. unfold ci_den, crossq. ring. Qed.

Lemma compute_intersection_lines_parametric s e cs ce :
  ~ crossq cs ce s - crossq cs ce e == 0 ->
  peq (compute_intersection_lines Qops s e cs ce)
      (px s + ci_t s e cs ce * (px e - px s), py s + ci_t s e cs ce * (py e - py s)).
Proof.
  intros Hd.
  assert (Hd' : ~ ci_den s e cs ce == 0) by (now rewrite ci_den_cross).
  unfold compute_intersection_lines, peq, ci_t. cbn [px py fst snd]. qn.
  unfold ci_den, crossq in *. split; field; auto.
Qed.

Lemma compute_intersection_lines_eq s e cs ce :
  sides_differ s e cs ce ->
  peq (compute_intersection_lines Qops s e cs ce) (compute_intersection Qops s e cs ce).
Proof.
  intros Hd.
  destruct (compute_intersection_lines_parametric _ _ _ _ (sides_differ_den _ _ _ _ Hd)) as [A B].
  destruct (compute_intersection_parametric _ _ _ _ Hd) as [C D].
  split; [rewrite A, C | rewrite B, D]; reflexivity.
Qed.

(* ------------------------------------------------------------------------------------------ *)
(* Similarity maps  p |-> (a x - b y + dx, b x + a y + dy), a^2 + b^2 > 0, as a relation on points so that
   == on coordinates is absorbed: a = 1, b = 0 is a translation, a = cos, b = sin a rotation,
   a = 1, b = dx = dy = 0 is plain == (the clipper respects ==). *)
Section Similarity.
Variables a b dx dy : Q.
Let k := a * a + b * b.
Hypothesis kpos : 0 < k.

Definition simR (p p' : qpt) : Prop :=
  px p' == a * px p - b * py p + dx /\ py p' == b * px p + a * py p + dy.

Lemma cross_sim p1 p2 q p1' p2' q' :
  simR p1 p1' -> simR p2 p2' -> simR q q' -> crossq p1' p2' q' == k * crossq p1 p2 q.
Proof.
  intros [H1 H2] [H3 H4] [H5 H6]. unfold crossq, k. rewrite H1, H2, H3, H4, H5, H6. ring.
Qed.

Lemma is_inside_sim p1 p2 q p1' p2' q' :
  simR p1 p1' -> simR p2 p2' -> simR q q' -> is_inside Qops q' p1' p2' = is_inside Qops q p1 p2.
Proof.
  intros H1 H2 H3. pose proof (cross_sim _ _ _ _ _ _ H1 H2 H3) as E.
  destruct (is_inside Qops q p1 p2) eqn:I.
  - apply is_inside_iff in I. apply is_inside_iff. rewrite E.
    setoid_replace 0 with (k * 0) by ring. apply Qmult_le_l; assumption.
  - apply is_inside_false in I. apply is_inside_false. rewrite E. apply Qmult_lt_0_compat; assumption.
Qed.

Lemma sides_differ_sim s e cs ce s' e' cs' ce' :
  simR s s' -> simR e e' -> simR cs cs' -> simR ce ce' ->
  sides_differ s e cs ce -> sides_differ s' e' cs' ce'.
Proof.
  intros Hs He Hcs Hce Hd.
  pose proof (cross_sim _ _ _ _ _ _ Hcs Hce Hs) as Es.
  pose proof (cross_sim _ _ _ _ _ _ Hcs Hce He) as Ee.
  unfold sides_differ in *. rewrite Es, Ee.
  set (rs := crossq cs ce s) in *. set (re := crossq cs ce e) in *.
  destruct Hd as [[H1 H2]|[H1 H2]]; [left | right]; split; nra.
Qed.

Lemma ci_sim s e cs ce s' e' cs' ce' :
  simR s s' -> simR e e' -> simR cs cs' -> simR ce ce' ->
  sides_differ s e cs ce ->
  simR (compute_intersection Qops s e cs ce) (compute_intersection Qops s' e' cs' ce').
Proof.
  intros Hs He Hcs Hce Hd.
  pose proof (sides_differ_sim _ _ _ _ _ _ _ _ Hs He Hcs Hce Hd) as Hd'.
  pose proof (cross_sim _ _ _ _ _ _ Hcs Hce Hs) as Es.
  pose proof (cross_sim _ _ _ _ _ _ Hcs Hce He) as Ee.
  assert (Hk : ~ k == 0) by (intro Z; rewrite Z in kpos; now apply (Qlt_irrefl 0)).
  pose proof (sides_differ_den _ _ _ _ Hd) as Nd.
  destruct (compute_intersection_parametric _ _ _ _ Hd) as [X Y].
  destruct (compute_intersection_parametric _ _ _ _ Hd') as [X' Y'].
  assert (Et : ci_t s' e' cs' ce' == ci_t s e cs ce).
  { unfold ci_t. rewrite Es, Ee. field. split; [assumption|]. rewrite <- Es, <- Ee. now apply sides_differ_den. }
  destruct Hs as [Hs1 Hs2], He as [He1 He2].
  unfold simR. rewrite X, Y, X', Y'. cbn [px py fst snd]. rewrite Et, Hs1, Hs2, He1, He2. split; ring.
Qed.

Definition simL (l l' : list qpt) : Prop := Forall2 simR l l'.

Lemma clip_step_sim cs ce s e cs' ce' s' e' :
  simR cs cs' -> simR ce ce' -> simR s s' -> simR e e' ->
  simL (clip_step Qops cs ce s e) (clip_step Qops cs' ce' s' e').
Proof.
  intros Hcs Hce Hs He. unfold clip_step.
  rewrite (is_inside_sim _ _ _ _ _ _ Hcs Hce He), (is_inside_sim _ _ _ _ _ _ Hcs Hce Hs).
  destruct (is_inside Qops e cs ce) eqn:Ie, (is_inside Qops s cs ce) eqn:Is; cbn [negb].
  - constructor; [exact He | constructor].
  - constructor; [| constructor; [exact He | constructor]].
    apply ci_sim; try assumption.
    apply is_inside_iff in Ie. apply is_inside_false in Is. left. split; assumption.
  - constructor; [| constructor].
    apply ci_sim; try assumption.
    apply is_inside_iff in Is. apply is_inside_false in Ie. right. split; assumption.
  - constructor.
Qed.

Lemma simL_app l1 l1' l2 l2' : simL l1 l1' -> simL l2 l2' -> simL (l1 ++ l2) (l1' ++ l2').
Proof. intros H1 H2. induction H1; cbn; [assumption | constructor; assumption]. Qed.

Lemma clip_walk_sim cs ce cs' ce' :
  simR cs cs' -> simR ce ce' ->
  forall l l', simL l l' -> forall prev prev', simR prev prev' ->
  simL (clip_walk Qops cs ce prev l) (clip_walk Qops cs' ce' prev' l').
Proof.
  intros Hcs Hce l l' H. induction H as [|x x' l l' Hx Hl IH]; intros prev prev' Hp; cbn [clip_walk].
  - constructor.
  - apply simL_app; [now apply clip_step_sim | now apply IH].
Qed.

Lemma last_sim_ne l l' : simL l l' -> l <> [] -> forall d d', simR (last l d) (last l' d').
Proof.
  intros H Hne d d'. destruct H as [|x x' l l' Hx Hl]; [congruence|].
  change (simR (last (x :: l) d) (last (x' :: l') d')).
  assert (G : forall (m m' : list qpt), simL m m' -> forall y y', simR y y' ->
              simR (last (y :: m) d) (last (y' :: m') d')).
  { intros m m' Hm. induction Hm as [|z z' m m' Hz Hm IH]; intros y y' Hy; [exact Hy|].
    exact (IH z z' Hz). }
  now apply G.
Qed.

Lemma clip_pass_sim cs ce cs' ce' l l' :
  simR cs cs' -> simR ce ce' -> simL l l' ->
  simL (clip_pass Qops cs ce l) (clip_pass Qops cs' ce' l').
Proof.
  intros Hcs Hce Hl. unfold clip_pass. destruct Hl as [|x x' l l' Hx Hl]; [constructor|].
  apply clip_walk_sim; try assumption; [constructor; assumption|].
  apply last_sim_ne; [constructor; assumption | discriminate].
Qed.

Lemma clip_edges_sim : forall cl cl', simL cl cl' -> forall prev prev' l l',
  simR prev prev' -> simL l l' ->
  simL (clip_edges Qops prev cl l) (clip_edges Qops prev' cl' l').
Proof.
  intros cl cl' H. induction H as [|c c' cl cl' Hc Hcl IH]; intros prev prev' l l' Hp Hl; cbn [clip_edges].
  - assumption.
  - apply IH; [assumption|]. now apply clip_pass_sim.
Qed.

Lemma sh_clip_sim p p' q q' : simL p p' -> simL q q' -> simL (sh_clip Qops p q) (sh_clip Qops p' q').
Proof.
  intros Hp Hq. unfold sh_clip. destruct Hq as [|c c' q q' Hc Hq]; [assumption|].
  apply clip_edges_sim; [constructor; assumption | | assumption].
  apply last_sim_ne; [constructor; assumption | discriminate].
Qed.

Lemma last_cons {A} (l : list A) : forall x d, last (x :: l) d = last l x.
Proof.
  induction l as [|y l IH]; intros x d; [reflexivity|].
  change (last (x :: y :: l) d) with (last (y :: l) d). rewrite !IH. reflexivity.
Qed.

(* area: the cyclic determinant sum scales by k; the translation terms telescope *)
Definition detq (p q : qpt) : Q := px p * py q - py p * px q.
Lemma det_q p q : det Qops p q == detq p q.
Proof. unfold det, detq. qn. reflexivity. Qed.

Let g (p : qpt) : Q := dx * (b * px p + a * py p) - dy * (a * px p - b * py p).

Lemma det_sim p q p' q' : simR p p' -> simR q q' -> detq p' q' == k * detq p q + g q - g p.
Proof. intros [H1 H2] [H3 H4]. unfold detq, g, k. rewrite H1, H2, H3, H4. ring. Qed.

Lemma det_walk_sim l l' : simL l l' -> forall prev prev', simR prev prev' ->
  det_walk Qops prev' l' == k * det_walk Qops prev l + g (last l prev) - g prev.
Proof.
  intros H. induction H as [|x x' l l' Hx Hl IH]; intros prev prev' Hp; cbn [det_walk].
  - rewrite qzero. cbn [last]. ring.
  - qn. rewrite !det_q, (det_sim _ _ _ _ Hp Hx), (IH _ _ Hx).
    rewrite (last_cons l x prev). ring.
Qed.

Lemma twice_area_sim l l' : simL l l' -> twice_signed_area Qops l' == k * twice_signed_area Qops l.
Proof.
  intros H. unfold twice_signed_area. destruct H as [|x x' l l' Hx Hl]; [rewrite qzero; ring|].
  assert (HL : simL (x :: l) (x' :: l')) by (constructor; assumption).
  rewrite (det_walk_sim _ _ HL (last (x :: l) (zero Qops, zero Qops)) (last (x' :: l') (zero Qops, zero Qops))).
  - assert (E : last (x :: l) (last (x :: l) (zero Qops, zero Qops)) = last (x :: l) (zero Qops, zero Qops))
      by (rewrite !last_cons; reflexivity).
    rewrite E. set (u := det_walk _ _ _). set (v := g _). ring.
  - apply last_sim_ne; [assumption | discriminate].
Qed.

Lemma shoelace_sim l l' : simL l l' -> shoelace Qops l' == k * shoelace Qops l.
Proof.
  intros H. unfold shoelace. rewrite !qdiv, !Qabsb_abs, (twice_area_sim _ _ H), qtwo.
  rewrite Qabs_Qmult, (Qabs_pos k) by (now apply Qlt_le_weak). field.
Qed.

End Similarity.

(* == is the similarity a = 1, b = dx = dy = 0 *)
Lemma peq_simR p q : peq p q <-> simR 1 0 0 0 p q.
Proof.
  unfold peq, simR. split; intros [H1 H2]; split.
  - rewrite <- H1. ring. - rewrite <- H2. ring.
  - rewrite H1. ring. - rewrite H2. ring.
Qed.

Lemma leq_simL l l' : leq l l' <-> simL 1 0 0 0 l l'.
Proof.
  unfold leq, simL. split; intro H; induction H; constructor; auto; now apply peq_simR.
Qed.

Lemma one_pos : 0 < 1 * 1 + 0 * 0. Proof. reflexivity. Qed.

Lemma sh_clip_leq p p' q q' : leq p p' -> leq q q' -> leq (sh_clip Qops p q) (sh_clip Qops p' q').
Proof. rewrite !leq_simL. apply sh_clip_sim. exact one_pos. Qed.

Lemma shoelace_leq l l' : leq l l' -> shoelace Qops l' == shoelace Qops l.
Proof. rewrite leq_simL. intro H. rewrite (shoelace_sim 1 0 0 0 one_pos _ _ H). ring. Qed.

Lemma simL_leq_r a b dx dy l l' : simL a b dx dy l l' -> forall l'', leq l' l'' -> simL a b dx dy l l''.
Proof.
  intros H. induction H as [|x x' l l' Hx Hl IH]; intros l'' E; inversion E as [|y y' m m' Ey Em]; subst; constructor.
  - destruct Hx as [H1 H2]. destruct Ey as [E1 E2].
    split; [rewrite <- E1; exact H1 | rewrite <- E2; exact H2].
  - now apply IH.
Qed.

(* ------------------------------------------------------------------------------------------ *)
(* The clipped region never leaves either polygon. *)

Lemma crossq_peq u w p p' : peq p p' -> crossq u w p == crossq u w p'.
Proof. intros [H1 H2]. unfold crossq. rewrite H1, H2. reflexivity. Qed.

(* cross is affine along a segment *)
Lemma crossq_affine (u w s e : qpt) t :
  crossq u w (px s + t * (px e - px s), py s + t * (py e - py s)) == (1 - t) * crossq u w s + t * crossq u w e.
Proof. unfold crossq. cbn [px py fst snd]. ring. Qed.

Lemma ci_on_line s e cs ce :
  sides_differ s e cs ce ->
  crossq cs ce (compute_intersection Qops s e cs ce) == 0.
Proof.
  intros Hd. rewrite (crossq_peq _ _ _ _ (compute_intersection_parametric _ _ _ _ Hd)).
  rewrite crossq_affine. unfold ci_t. field. now apply sides_differ_den.
Qed.

Lemma ci_in_halfplane u w s e cs ce :
  sides_differ s e cs ce ->
  crossq u w s <= 0 -> crossq u w e <= 0 ->
  crossq u w (compute_intersection Qops s e cs ce) <= 0.
Proof.
  intros Hc Hs He.
  rewrite (crossq_peq _ _ _ _ (compute_intersection_parametric _ _ _ _ Hc)), crossq_affine.
  destruct (ci_t_range _ _ _ _ Hc) as [T0 T1]. set (t := ci_t s e cs ce) in *.
  set (a := crossq u w s) in *. set (b := crossq u w e) in *. nra.
Qed.

Definition all_in (u w : qpt) (l : list qpt) : Prop := Forall (fun v => crossq u w v <= 0) l.

Lemma clip_step_cases cs ce s e :
  let rs := crossq cs ce s in let re := crossq cs ce e in
  (re <= 0 /\ rs <= 0 /\ clip_step Qops cs ce s e = [e]) \/
  (re <= 0 /\ 0 < rs /\ clip_step Qops cs ce s e = [compute_intersection Qops s e cs ce; e]) \/
  (0 < re /\ rs <= 0 /\ clip_step Qops cs ce s e = [compute_intersection Qops s e cs ce]) \/
  (0 < re /\ 0 < rs /\ clip_step Qops cs ce s e = []).
Proof.
  cbn zeta. unfold clip_step.
  destruct (is_inside Qops e cs ce) eqn:Ie, (is_inside Qops s cs ce) eqn:Is; cbn [negb];
    rewrite ?is_inside_iff, ?is_inside_false in *; tauto.
Qed.

Lemma clip_step_inside cs ce s e : all_in cs ce (clip_step Qops cs ce s e).
Proof.
  destruct (clip_step_cases cs ce s e) as [(H1 & H2 & E)|[(H1 & H2 & E)|[(H1 & H2 & E)|(H1 & H2 & E)]]]; rewrite E.
  - repeat constructor; assumption.
  - constructor; [|repeat constructor; assumption]. rewrite ci_on_line; [apply Qle_refl | left; split; assumption].
  - constructor; [|constructor]. rewrite ci_on_line; [apply Qle_refl | right; split; assumption].
  - constructor.
Qed.

Lemma clip_step_halfplane u w cs ce s e :
  crossq u w s <= 0 -> crossq u w e <= 0 -> all_in u w (clip_step Qops cs ce s e).
Proof.
  intros Hs He.
  destruct (clip_step_cases cs ce s e) as [(H1 & H2 & E)|[(H1 & H2 & E)|[(H1 & H2 & E)|(H1 & H2 & E)]]]; rewrite E.
  - repeat constructor; assumption.
  - constructor; [|repeat constructor; assumption]. apply ci_in_halfplane; auto. left; split; assumption.
  - constructor; [|constructor]. apply ci_in_halfplane; auto. right; split; assumption.
  - constructor.
Qed.

Lemma all_in_app u w l1 l2 : all_in u w l1 -> all_in u w l2 -> all_in u w (l1 ++ l2).
Proof. intros H1 H2. apply Forall_app. split; assumption. Qed.

Lemma clip_walk_inside cs ce : forall l prev, all_in cs ce (clip_walk Qops cs ce prev l).
Proof.
  induction l as [|x l IH]; intros prev; cbn [clip_walk]; [constructor|].
  apply all_in_app; [apply clip_step_inside | apply IH].
Qed.

Lemma clip_walk_halfplane u w cs ce : forall l prev,
  crossq u w prev <= 0 -> all_in u w l -> all_in u w (clip_walk Qops cs ce prev l).
Proof.
  induction l as [|x l IH]; intros prev Hp Hl; cbn [clip_walk]; [constructor|].
  inversion Hl as [|y m Hx Hm]; subst.
  apply all_in_app; [now apply clip_step_halfplane | now apply IH].
Qed.

Lemma all_in_last u w l : all_in u w l -> l <> [] -> forall d, crossq u w (last l d) <= 0.
Proof.
  intros H Hne d. destruct l as [|x l]; [congruence|]. rewrite last_cons.
  clear Hne. revert x H. induction l as [|y l IH]; intros x H.
  - inversion H; assumption.
  - rewrite last_cons. apply IH. inversion H; assumption.
Qed.

Lemma clip_pass_inside cs ce l : all_in cs ce (clip_pass Qops cs ce l).
Proof. unfold clip_pass. destruct l; [constructor | apply clip_walk_inside]. Qed.

Lemma clip_pass_halfplane u w cs ce l : all_in u w l -> all_in u w (clip_pass Qops cs ce l).
Proof.
  intros H. unfold clip_pass. destruct l as [|x l]; [constructor|].
  apply clip_walk_halfplane; [apply all_in_last; [assumption | discriminate] | assumption].
Qed.

Lemma clip_edges_halfplane u w : forall cl prev l, all_in u w l -> all_in u w (clip_edges Qops prev cl l).
Proof.
  induction cl as [|c cl IH]; intros prev l H; cbn [clip_edges]; [assumption|].
  apply IH. now apply clip_pass_halfplane.
Qed.

Lemma clip_edges_inside : forall cl prev l e,
  In e (edges_from Qops prev cl) -> all_in (fst e) (snd e) (clip_edges Qops prev cl l).
Proof.
  induction cl as [|c cl IH]; intros prev l e Hin; cbn [edges_from clip_edges] in *; [contradiction|].
  destruct Hin as [<-|Hin].
  - cbn [fst snd]. apply clip_edges_halfplane, clip_pass_inside.
  - now apply IH.
Qed.

Lemma sh_clip_inside_clip subj clip e :
  In e (edges Qops clip) -> all_in (fst e) (snd e) (sh_clip Qops subj clip).
Proof.
  unfold edges, sh_clip. destruct clip as [|c cl]; [contradiction|]. apply clip_edges_inside.
Qed.

Lemma sh_clip_halfplane u w subj clip : all_in u w subj -> all_in u w (sh_clip Qops subj clip).
Proof. unfold sh_clip. destruct clip; [auto | apply clip_edges_halfplane]. Qed.

Lemma clip_vertices_inside_lemma subj clip v :
  In v (sh_clip Qops subj clip) ->
  (forall e, In e (edges Qops clip) -> crossq (fst e) (snd e) v <= 0) /\
  (forall u w, (forall x, In x subj -> crossq u w x <= 0) -> crossq u w v <= 0).
Proof.
  intros Hv. split.
  - intros e He. pose proof (sh_clip_inside_clip subj clip e He) as A.
    unfold all_in in A. rewrite Forall_forall in A. now apply A.
  - intros u w Hs. assert (A : all_in u w (sh_clip Qops subj clip)).
    { apply sh_clip_halfplane. apply Forall_forall. exact Hs. }
    unfold all_in in A. rewrite Forall_forall in A. now apply A.
Qed.

(* ------------------------------------------------------------------------------------------ *)
(* a polygon all of whose vertices satisfy a clip edge passes that edge unchanged *)

Lemma clip_walk_all_inside cs ce : forall l prev,
  crossq cs ce prev <= 0 -> all_in cs ce l -> clip_walk Qops cs ce prev l = l.
Proof.
  induction l as [|x l IH]; intros prev Hp Hl; cbn [clip_walk]; [reflexivity|].
  inversion Hl as [|y m Hx Hm]; subst.
  destruct (clip_step_cases cs ce prev x) as [(H1 & H2 & E)|[(H1 & H2 & E)|[(H1 & H2 & E)|(H1 & H2 & E)]]];
    try lra. rewrite E. cbn [app]. f_equal. now apply IH.
Qed.

Lemma clip_pass_all_inside cs ce l : all_in cs ce l -> clip_pass Qops cs ce l = l.
Proof.
  intros H. unfold clip_pass. destruct l as [|x l]; [reflexivity|].
  apply clip_walk_all_inside; [apply all_in_last; [assumption | discriminate] | assumption].
Qed.

Lemma clip_edges_all_inside : forall cl prev l,
  (forall e, In e (edges_from Qops prev cl) -> all_in (fst e) (snd e) l) -> clip_edges Qops prev cl l = l.
Proof.
  induction cl as [|c cl IH]; intros prev l H; cbn [clip_edges]; [reflexivity|].
  rewrite clip_pass_all_inside.
  - apply IH. intros e He. apply H. cbn [edges_from]. now right.
  - apply (H (prev, c)). cbn [edges_from]. now left.
Qed.

Lemma sh_clip_all_inside subj clip :
  (forall e, In e (edges Qops clip) -> all_in (fst e) (snd e) subj) -> sh_clip Qops subj clip = subj.
Proof.
  unfold sh_clip, edges. destruct clip as [|c cl]; [reflexivity|]. apply clip_edges_all_inside.
Qed.

(* ------------------------------------------------------------------------------------------ *)
(* Rectangles *)

Lemma crossq_peq3 u u' w w' p p' : peq u u' -> peq w w' -> peq p p' -> crossq u w p == crossq u' w' p'.
Proof. intros [A1 A2] [B1 B2] [C1 C2]. unfold crossq. rewrite A1, A2, B1, B2, C1, C2. reflexivity. Qed.

Section Rect.
Variables x y c s asp h : Q.
Hypothesis Hasp : 0 < asp.
Hypothesis Hh : 0 < h.
Let k := c * c + s * s.

Definition rq0 : qpt := (x + ((- (h * asp / 2)) * c - h / 2 * s), y + ((- (h * asp / 2)) * s + h / 2 * c)).
Definition rq1 : qpt := (x + (h * asp / 2 * c - h / 2 * s), y + (h * asp / 2 * s + h / 2 * c)).
Definition rq2 : qpt := (x - ((- (h * asp / 2)) * c - h / 2 * s), y - ((- (h * asp / 2)) * s + h / 2 * c)).
Definition rq3 : qpt := (x - (h * asp / 2 * c - h / 2 * s), y - (h * asp / 2 * s + h / 2 * c)).
Definition rectq : list qpt := [rq0; rq1; rq2; rq3].

Lemma rect_K : 0 <= asp * h * h * k.
Proof.
  assert (0 <= k) by (unfold k; nra).
  assert (0 < asp * h) by (apply Qmult_lt_0_compat; assumption).
  assert (0 < asp * h * h) by (apply Qmult_lt_0_compat; assumption).
  apply Qmult_le_0_compat; [now apply Qlt_le_weak | assumption].
Qed.

Ltac rect_fact :=
  unfold crossq, rq0, rq1, rq2, rq3; cbn [px py fst snd];
  first [ match goal with |- ?e <= 0 => setoid_replace e with 0 by field; apply Qle_refl end
        | match goal with |- ?e <= 0 =>
            setoid_replace e with (- (asp * h * h * k)) by (unfold k; field); pose proof rect_K; lra end ].

Lemma rectq_convex : forall e, In e [(rq3, rq0); (rq0, rq1); (rq1, rq2); (rq2, rq3)] ->
  all_in (fst e) (snd e) rectq.
Proof.
  intros e He. cbn [In] in He.
  destruct He as [<-|[<-|[<-|[<-|[]]]]]; cbn [fst snd]; unfold rectq, all_in;
    repeat (apply Forall_cons); try apply Forall_nil; rect_fact.
Qed.

Lemma rectq_twice : twice_signed_area Qops rectq == - (2 * (asp * h * h * k)).
Proof.
  unfold twice_signed_area, rectq. cbn [last det_walk]. unfold det, rq0, rq1, rq2, rq3.
  cbn [px py fst snd]. qn. unfold k. field.
Qed.

Lemma rectq_area : shoelace Qops rectq == asp * h * h * k.
Proof.
  unfold shoelace. rewrite qdiv, Qabsb_abs, rectq_twice, qtwo, Qabs_opp.
  rewrite Qabs_pos; [field|]. pose proof rect_K. lra.
Qed.

End Rect.

Lemma rect_vertices_q (b : qbox) :
  leq (rect_vertices Qops b) (rectq (bxc b) (byc b) (bc b) (bs b) (basp b) (bh b)).
Proof.
  unfold rect_vertices, ubox_vertices. cbv zeta.
  cbn [map of_coord to_ubox Coord_x Coord_y Universal2DBox_xc Universal2DBox_yc Universal2DBox_aspect
       Universal2DBox_height Universal2DBox_angle of_Q Qops].
  unfold rectq, rq0, rq1, rq2, rq3, leq, of_coord.
  repeat (apply Forall2_cons); try apply Forall2_nil; unfold peq; cbn [px py fst snd Coord_x Coord_y]; qn;
    split; reflexivity.
Qed.

Lemma all_in_leq u u' w w' l l' : peq u u' -> peq w w' -> leq l l' -> all_in u w l -> all_in u' w' l'.
Proof.
  intros Hu Hw Hl H. unfold all_in in *. induction Hl as [|p p' l l' Hp Hl IH]; [constructor|].
  inversion H as [|q m Hq Hm]; subst. constructor; [|now apply IH].
  rewrite <- (crossq_peq3 _ _ _ _ _ _ Hu Hw Hp). assumption.
Qed.

Lemma peq_sym p q : peq p q -> peq q p.
Proof. intros [A B]. split; symmetry; assumption. Qed.

Lemma leq_sym l l' : leq l l' -> leq l' l.
Proof. intros H. induction H; constructor; auto using peq_sym. Qed.

Definition valid_box (b : qbox) : Prop := 0 < basp b /\ 0 < bh b.

Lemma rect_all_inside (b : qbox) : valid_box b ->
  forall e, In e (edges Qops (rect_vertices Qops b)) -> all_in (fst e) (snd e) (rect_vertices Qops b).
Proof.
  intros [Ha Hh] e He.
  pose proof (rect_vertices_q b) as L.
  set (X := bxc b) in *. set (Y := byc b) in *. set (C := bc b) in *. set (S := bs b) in *.
  set (A := basp b) in *. set (H := bh b) in *.
  remember (rect_vertices Qops b) as R eqn:ER.
  unfold rectq in L.
  inversion L as [|v0 q0 R1 Q1 P0 L1]; subst R. inversion L1 as [|v1 q1 R2 Q2 P1 L2]; subst.
  inversion L2 as [|v2 q2 R3 Q3 P2 L3]; subst. inversion L3 as [|v3 q3 R4 Q4 P3 L4]; subst.
  inversion L4; subst.
  match goal with HH : _ = rect_vertices Qops b |- _ => rewrite <- HH in *; clear HH end.
  cbn [edges edges_from last In] in He.
  pose proof (rectq_convex X Y C S A H Ha Hh) as CV.
  destruct He as [<-|[<-|[<-|[<-|[]]]]]; cbn [fst snd].
  - apply (all_in_leq (rq3 X Y C S A H) _ (rq0 X Y C S A H) _ (rectq X Y C S A H)); auto using peq_sym, leq_sym.
    apply (CV (_, _)). cbn [In]. auto.
  - apply (all_in_leq (rq0 X Y C S A H) _ (rq1 X Y C S A H) _ (rectq X Y C S A H)); auto using peq_sym, leq_sym.
    apply (CV (_, _)). cbn [In]. auto.
  - apply (all_in_leq (rq1 X Y C S A H) _ (rq2 X Y C S A H) _ (rectq X Y C S A H)); auto using peq_sym, leq_sym.
    apply (CV (_, _)). cbn [In]. auto.
  - apply (all_in_leq (rq2 X Y C S A H) _ (rq3 X Y C S A H) _ (rectq X Y C S A H)); auto using peq_sym, leq_sym.
    apply (CV (_, _)). cbn [In]. auto.
Qed.

Lemma clip_self_lemma (b : qbox) : valid_box b ->
  sh_clip Qops (rect_vertices Qops b) (rect_vertices Qops b) = rect_vertices Qops b.
Proof. intros V. apply sh_clip_all_inside. now apply rect_all_inside. Qed.

Lemma rect_area_lemma (b : qbox) : valid_box b ->
  shoelace Qops (rect_vertices Qops b) == basp b * bh b * bh b * (bc b * bc b + bs b * bs b).
Proof.
  intros [Ha Hh]. rewrite <- (shoelace_leq _ _ (rect_vertices_q b)). now apply rectq_area.
Qed.

Lemma box_area_q (b : qbox) : box_area Qops b == bh b * bh b * basp b.
Proof. unfold box_area. qn. reflexivity. Qed.

Definition unit_dir (b : qbox) : Prop := bc b * bc b + bs b * bs b == 1.

Lemma rect_area_unit (b : qbox) : valid_box b -> unit_dir b ->
  shoelace Qops (rect_vertices Qops b) == box_area Qops b.
Proof. intros V U. unfold unit_dir in U. rewrite rect_area_lemma, box_area_q by assumption. rewrite U. ring. Qed.

(* ------------------------------------------------------------------------------------------ *)
(* too_far: the sqrt-free decision, and its soundness as a pre-filter *)

Definition radius2q (b : qbox) : Q := (basp b * bh b / 2) * (basp b * bh b / 2) + (bh b / 2) * (bh b / 2).
Definition dist2q (l r : qbox) : Q := (bxc l - bxc r) * (bxc l - bxc r) + (byc l - byc r) * (byc l - byc r).

Lemma radius2_q b : radius2 Qops b == radius2q b.
Proof.
  unfold radius2, radius2q, ubox_radius_sq, to_ubox. cbv zeta.
  cbn [Universal2DBox_aspect Universal2DBox_height of_Q Qops]. qn. reflexivity.
Qed.

Lemma dist2_q l r : dist2 Qops l r == dist2q l r.
Proof. unfold dist2, dist2q. qn. reflexivity. Qed.

(* too_far l r  <->  d^2 - r_l^2 - r_r^2 > 0  /\  (d^2 - r_l^2 - r_r^2)^2 > 4 r_l^2 r_r^2
   which, for non-negative radii, is  d^2 > (r_l + r_r)^2 = r_l^2 + r_r^2 + 2 r_l r_r  without square roots *)
Lemma too_far_iff l r :
  too_far Qops l r = true <->
  0 < dist2q l r - radius2q l - radius2q r /\
  4 * radius2q l * radius2q r < (dist2q l r - radius2q l - radius2q r) * (dist2q l r - radius2q l - radius2q r).
Proof.
  unfold too_far. rewrite andb_true_iff, !qltb_iff. qn.
  rewrite !dist2_q, !radius2_q, !qtwo. setoid_replace (2 * 2 * radius2q l * radius2q r) with (4 * radius2q l * radius2q r) by ring.
  reflexivity.
Qed.

Lemma too_far_sym_lemma l r : too_far Qops l r = too_far Qops r l.
Proof.
  assert (E : dist2q l r == dist2q r l) by (unfold dist2q; ring).
  destruct (too_far Qops l r) eqn:A, (too_far Qops r l) eqn:B; try reflexivity.
  - apply too_far_iff in A. rewrite <- B. symmetry. apply too_far_iff. rewrite <- E.
    destruct A as [A1 A2]. split; [lra|].
    setoid_replace (4 * radius2q r * radius2q l) with (4 * radius2q l * radius2q r) by ring.
    setoid_replace (dist2q l r - radius2q r - radius2q l) with (dist2q l r - radius2q l - radius2q r) by ring.
    exact A2.
  - apply too_far_iff in B. rewrite <- A. apply too_far_iff. rewrite E.
    destruct B as [B1 B2]. split; [lra|].
    setoid_replace (4 * radius2q l * radius2q r) with (4 * radius2q r * radius2q l) by ring.
    setoid_replace (dist2q r l - radius2q l - radius2q r) with (dist2q r l - radius2q r - radius2q l) by ring.
    exact B2.
Qed.

(* a point of a rectangle is within its radius of the centre *)
Definition in_rect (b : qbox) (p : qpt) : Prop :=
  forall e, In e (edges Qops (rect_vertices Qops b)) -> crossq (fst e) (snd e) p <= 0.

Section InRect.
Variables x y c s asp h : Q.
Hypothesis Hasp : 0 < asp.
Hypothesis Hh : 0 < h.
Hypothesis Hu : c * c + s * s == 1.
Variable p : qpt.
Hypothesis H30 : crossq (rq3 x y c s asp h) (rq0 x y c s asp h) p <= 0.
Hypothesis H01 : crossq (rq0 x y c s asp h) (rq1 x y c s asp h) p <= 0.
Hypothesis H12 : crossq (rq1 x y c s asp h) (rq2 x y c s asp h) p <= 0.
Hypothesis H23 : crossq (rq2 x y c s asp h) (rq3 x y c s asp h) p <= 0.

Lemma rectq_point_radius :
  (px p - x) * (px p - x) + (py p - y) * (py p - y) <= (asp * h / 2) * (asp * h / 2) + (h / 2) * (h / 2).
Proof.
  set (dx := px p - x). set (dy := py p - y).
  set (a := dx * c + dy * s). set (b := - dx * s + dy * c).
  assert (Hw : 0 < h * asp) by (apply Qmult_lt_0_compat; assumption).
  (* the four half-plane constraints in local coordinates *)
  assert (E30 : crossq (rq3 x y c s asp h) (rq0 x y c s asp h) p == h * (- a - h * asp / 2 * (c * c + s * s))).
  { unfold crossq, rq3, rq0, a, dx, dy. cbn [px py fst snd]. field. }
  assert (E01 : crossq (rq0 x y c s asp h) (rq1 x y c s asp h) p == (h * asp) * (b - h / 2 * (c * c + s * s))).
  { unfold crossq, rq0, rq1, b, dx, dy. cbn [px py fst snd]. field. }
  assert (E12 : crossq (rq1 x y c s asp h) (rq2 x y c s asp h) p == h * (a - h * asp / 2 * (c * c + s * s))).
  { unfold crossq, rq1, rq2, a, dx, dy. cbn [px py fst snd]. field. }
  assert (E23 : crossq (rq2 x y c s asp h) (rq3 x y c s asp h) p == (h * asp) * (- b - h / 2 * (c * c + s * s))).
  { unfold crossq, rq2, rq3, b, dx, dy. cbn [px py fst snd]. field. }
  rewrite E30 in H30. rewrite E01 in H01. rewrite E12 in H12. rewrite E23 in H23.
  rewrite Hu in *.
  assert (A1 : - a - h * asp / 2 * 1 <= 0) by nra.
  assert (A2 : a - h * asp / 2 * 1 <= 0) by nra.
  assert (B1 : b - h / 2 * 1 <= 0) by nra.
  assert (B2 : - b - h / 2 * 1 <= 0) by nra.
  assert (N : dx * dx + dy * dy == a * a + b * b).
  { unfold a, b. setoid_replace (dx * dx + dy * dy) with ((dx * dx + dy * dy) * (c * c + s * s)) by (rewrite Hu; ring). ring. }
  rewrite N.
  setoid_replace (asp * h / 2) with (h * asp / 2) by field.
  set (hw := h * asp / 2) in *. set (hh := h / 2) in *.
  assert (A1' : 0 <= hw + a) by lra. assert (A2' : 0 <= hw - a) by lra.
  assert (B1' : 0 <= hh - b) by lra. assert (B2' : 0 <= hh + b) by lra.
  pose proof (Qmult_le_0_compat _ _ A2' A1') as PA. pose proof (Qmult_le_0_compat _ _ B1' B2') as PB.
  assert (EA : (hw - a) * (hw + a) == hw * hw - a * a) by ring.
  assert (EB : (hh - b) * (hh + b) == hh * hh - b * b) by ring.
  lra.
Qed.
End InRect.

Lemma in_rect_radius (b : qbox) p : valid_box b -> unit_dir b -> in_rect b p ->
  (px p - bxc b) * (px p - bxc b) + (py p - byc b) * (py p - byc b) <= radius2q b.
Proof.
  intros [Ha Hh] U I. unfold radius2q.
  pose proof (rect_vertices_q b) as L. unfold in_rect in I.
  remember (rect_vertices Qops b) as R eqn:ER. unfold rectq in L.
  inversion L as [|v0 q0 R1 Q1 P0 L1]; subst R. inversion L1 as [|v1 q1 R2 Q2 P1 L2]; subst.
  inversion L2 as [|v2 q2 R3 Q3 P2 L3]; subst. inversion L3 as [|v3 q3 R4 Q4 P3 L4]; subst.
  inversion L4; subst.
  match goal with HH : _ = rect_vertices Qops b |- _ => rewrite <- HH in *; clear HH end.
  cbn [edges edges_from last In] in I.
  apply (rectq_point_radius (bxc b) (byc b) (bc b) (bs b) (basp b) (bh b) Ha Hh U p).
  - rewrite <- (crossq_peq3 _ _ _ _ _ _ P3 P0 (peq_refl p)). apply (I (_, _)). auto.
  - rewrite <- (crossq_peq3 _ _ _ _ _ _ P0 P1 (peq_refl p)). apply (I (_, _)). auto.
  - rewrite <- (crossq_peq3 _ _ _ _ _ _ P1 P2 (peq_refl p)). apply (I (_, _)). auto.
  - rewrite <- (crossq_peq3 _ _ _ _ _ _ P2 P3 (peq_refl p)). apply (I (_, _)). auto.
Qed.

Lemma sq_nonneg (z : Q) : 0 <= z * z.
Proof. nra. Qed.

(* triangle inequality through the two bounding circles, in squared form *)
Lemma circles_not_far (ux uy vx vy r1 r2 : Q) :
  ux * ux + uy * uy <= r1 -> vx * vx + vy * vy <= r2 ->
  let K := (ux + vx) * (ux + vx) + (uy + vy) * (uy + vy) - r1 - r2 in
  ~ (0 < K /\ 4 * r1 * r2 < K * K).
Proof.
  intros H1 H2 K [K0 K1].
  set (uu := ux * ux + uy * uy) in *. set (vv := vx * vx + vy * vy) in *.
  set (d := ux * vx + uy * vy).
  assert (EK : K == uu + vv + 2 * d - r1 - r2) by (unfold K, uu, vv, d; ring).
  assert (Kd : K <= 2 * d) by lra.
  assert (CS : d * d <= uu * vv).
  { assert (E : uu * vv - d * d == (ux * vy - uy * vx) * (ux * vy - uy * vx)) by (unfold uu, vv, d; ring).
    pose proof (sq_nonneg (ux * vy - uy * vx)) as S0.
    set (sq := (ux * vy - uy * vx) * (ux * vy - uy * vx)) in *. set (m := uu * vv) in *. set (n := d * d) in *. lra. }
  assert (U0 : 0 <= uu) by (unfold uu; pose proof (sq_nonneg ux); pose proof (sq_nonneg uy); lra).
  assert (V0 : 0 <= vv) by (unfold vv; pose proof (sq_nonneg vx); pose proof (sq_nonneg vy); lra).
  assert (P : uu * vv <= r1 * r2) by nra.
  assert (KK : K * K <= (2 * d) * (2 * d)) by nra.
  nra.
Qed.

Lemma too_far_sound_lemma (l r : qbox) p :
  valid_box l -> valid_box r -> unit_dir l -> unit_dir r ->
  in_rect l p -> in_rect r p -> too_far Qops l r = false.
Proof.
  intros Vl Vr Ul Ur Il Ir.
  destruct (too_far Qops l r) eqn:T; [|reflexivity]. exfalso. apply too_far_iff in T.
  pose proof (in_rect_radius l p Vl Ul Il) as Rl. pose proof (in_rect_radius r p Vr Ur Ir) as Rr.
  apply (circles_not_far (bxc l - px p) (byc l - py p) (px p - bxc r) (py p - byc r) (radius2q l) (radius2q r)).
  - setoid_replace ((bxc l - px p) * (bxc l - px p) + (byc l - py p) * (byc l - py p))
      with ((px p - bxc l) * (px p - bxc l) + (py p - byc l) * (py p - byc l)) by ring. exact Rl.
  - exact Rr.
  - cbn zeta. unfold dist2q in T.
    setoid_replace (bxc l - px p + (px p - bxc r)) with (bxc l - bxc r) by ring.
    setoid_replace (byc l - py p + (py p - byc r)) with (byc l - byc r) by ring.
    exact T.
Qed.

(* ------------------------------------------------------------------------------------------ *)
(* IoU: identical boxes, rigid motions *)

Definition oeq (x y : option Q) : Prop :=
  match x, y with
  | None, None => True
  | Some u, Some v => u == v
  | _, _ => False
  end.

Lemma eqb_comp a a' b b' : a == a' -> b == b' -> eqb Qops a b = eqb Qops a' b'.
Proof. intros H1 H2. unfold eqb. rewrite !qleb, H1, H2. reflexivity. Qed.

Lemma iou_of_comp i i' a a' b b' : i == i' -> a == a' -> b == b' ->
  oeq (iou_of Qops i a b) (iou_of Qops i' a' b').
Proof.
  intros Hi Ha Hb. unfold iou_of. rewrite (eqb_comp i i' (zero Qops) (zero Qops) Hi (Qeq_refl _)).
  destruct (eqb Qops i' (zero Qops)); cbn [oeq]; [exact I|]. qn. rewrite Hi, Ha, Hb. reflexivity.
Qed.

Lemma radius2q_nonneg b : 0 <= radius2q b.
Proof. unfold radius2q. pose proof (sq_nonneg (basp b * bh b / 2)). pose proof (sq_nonneg (bh b / 2)). lra. Qed.

Lemma too_far_self b : too_far Qops b b = false.
Proof.
  destruct (too_far Qops b b) eqn:T; [|reflexivity]. apply too_far_iff in T. destruct T as [T _].
  assert (dist2q b b == 0) by (unfold dist2q; ring). pose proof (radius2q_nonneg b). lra.
Qed.

Lemma box_area_pos b : valid_box b -> 0 < box_area Qops b.
Proof.
  intros [Ha Hh]. rewrite box_area_q. apply Qmult_lt_0_compat; [apply Qmult_lt_0_compat|]; assumption.
Qed.

Lemma inter_area_self b : valid_box b -> unit_dir b -> inter_area Qops b b == box_area Qops b.
Proof.
  intros V U. unfold inter_area, clip_area. rewrite too_far_self, clip_self_lemma by assumption.
  now apply rect_area_unit.
Qed.

Lemma iou_identical_lemma b : valid_box b -> unit_dir b -> exists v, iou Qops b b = Some v /\ v == 1.
Proof.
  intros V U. unfold iou, iou_of. pose proof (inter_area_self b V U) as E. pose proof (box_area_pos b V) as P.
  set (A := box_area Qops b) in *. set (I := inter_area Qops b b) in *.
  assert (NZ : eqb Qops I (zero Qops) = false).
  { destruct (eqb Qops I (zero Qops)) eqn:Z; [|reflexivity]. apply eqb_iff in Z. rewrite qzero in Z. lra. }
  rewrite NZ. eexists. split; [reflexivity|]. qn. rewrite E. field. lra.
Qed.

(* box x' is box x moved by the rigid motion p |-> (a x - b y + dx, b x + a y + dy), a^2 + b^2 = 1:
   the centre is mapped, the direction (cos, sin) is turned by (a, b), the size is kept *)
Definition moved (a b dx dy : Q) (x x' : qbox) : Prop :=
  bxc x' == a * bxc x - b * byc x + dx /\ byc x' == b * bxc x + a * byc x + dy /\
  bc x' == a * bc x - b * bs x /\ bs x' == b * bc x + a * bs x /\
  basp x' == basp x /\ bh x' == bh x.

Lemma simR_peq a b dx dy p p' q q' : simR a b dx dy p p' -> peq p q -> peq p' q' -> simR a b dx dy q q'.
Proof. intros [H1 H2] [A1 A2] [B1 B2]. split; [rewrite <- B1, <- A1, <- A2 | rewrite <- B2, <- A1, <- A2]; assumption. Qed.

Lemma simL_leq a b dx dy l l' m m' : simL a b dx dy l l' -> leq l m -> leq l' m' -> simL a b dx dy m m'.
Proof.
  intros H. revert m m'. induction H as [|p p' l l' Hp Hl IH]; intros m m' E E'; inversion E; inversion E'; subst; constructor.
  - eapply simR_peq; eassumption.
  - now apply IH.
Qed.

Lemma rect_vertices_moved a b dx dy x x' : moved a b dx dy x x' ->
  simL a b dx dy (rect_vertices Qops x) (rect_vertices Qops x').
Proof.
  intros (M1 & M2 & M3 & M4 & M5 & M6).
  apply (simL_leq a b dx dy (rectq (bxc x) (byc x) (bc x) (bs x) (basp x) (bh x))
                   (rectq (bxc x') (byc x') (bc x') (bs x') (basp x') (bh x')));
    [| apply leq_sym, rect_vertices_q | apply leq_sym, rect_vertices_q].
  unfold rectq, rq0, rq1, rq2, rq3, simL.
  repeat (apply Forall2_cons); try apply Forall2_nil; unfold simR; cbn [px py fst snd];
    rewrite M1, M2, M3, M4, M5, M6; split; field.
Qed.

Lemma too_far_moved a b dx dy l l' r r' : a * a + b * b == 1 ->
  moved a b dx dy l l' -> moved a b dx dy r r' -> too_far Qops l' r' = too_far Qops l r.
Proof.
  intros U (L1 & L2 & L3 & L4 & L5 & L6) (R1 & R2 & R3 & R4 & R5 & R6).
  assert (Ed : dist2q l' r' == dist2q l r).
  { unfold dist2q. rewrite L1, L2, R1, R2.
    setoid_replace (dist2q l r) with ((a * a + b * b) * dist2q l r) by (rewrite U; ring). unfold dist2q. ring. }
  assert (El : radius2q l' == radius2q l) by (unfold radius2q; rewrite L5, L6; reflexivity).
  assert (Er : radius2q r' == radius2q r) by (unfold radius2q; rewrite R5, R6; reflexivity).
  destruct (too_far Qops l r) eqn:T.
  - apply too_far_iff. apply too_far_iff in T. rewrite Ed, El, Er. exact T.
  - destruct (too_far Qops l' r') eqn:T'; [|reflexivity]. apply too_far_iff in T'.
    rewrite Ed, El, Er in T'. apply too_far_iff in T'. congruence.
Qed.

Lemma inter_area_moved a b dx dy l l' r r' : a * a + b * b == 1 ->
  moved a b dx dy l l' -> moved a b dx dy r r' -> inter_area Qops l' r' == inter_area Qops l r.
Proof.
  intros U Ml Mr. unfold inter_area. rewrite (too_far_moved a b dx dy l l' r r' U Ml Mr).
  destruct (too_far Qops l r); [reflexivity|]. unfold clip_area.
  assert (K : 0 < a * a + b * b) by (rewrite U; reflexivity).
  rewrite (shoelace_sim a b dx dy K _ _
             (sh_clip_sim a b dx dy K _ _ _ _ (rect_vertices_moved _ _ _ _ _ _ Ml) (rect_vertices_moved _ _ _ _ _ _ Mr))).
  rewrite U. apply Qmult_1_l.
Qed.

Lemma box_area_moved a b dx dy x x' : moved a b dx dy x x' -> box_area Qops x' == box_area Qops x.
Proof. intros (_ & _ & _ & _ & M5 & M6). rewrite !box_area_q, M5, M6. reflexivity. Qed.

Lemma iou_rigid_motion_lemma a b dx dy l l' r r' : a * a + b * b == 1 ->
  moved a b dx dy l l' -> moved a b dx dy r r' -> oeq (iou Qops l' r') (iou Qops l r).
Proof.
  intros U Ml Mr. unfold iou. apply iou_of_comp.
  - now apply (inter_area_moved a b dx dy).
  - now apply (box_area_moved a b dx dy).
  - now apply (box_area_moved a b dx dy).
Qed.

(* clipping commutes with a common translation / rotation (vertex lists up to ==) *)
Lemma clip_translate_lemma dx dy p p' q q' :
  simL 1 0 dx dy p p' -> simL 1 0 dx dy q q' -> simL 1 0 dx dy (sh_clip Qops p q) (sh_clip Qops p' q').
Proof. apply sh_clip_sim. reflexivity. Qed.

Lemma clip_rotate_lemma c s p p' q q' : c * c + s * s == 1 ->
  simL c s 0 0 p p' -> simL c s 0 0 q q' -> simL c s 0 0 (sh_clip Qops p q) (sh_clip Qops p' q').
Proof. intros U. apply sh_clip_sim. rewrite U. reflexivity. Qed.

(* ------------------------------------------------------------------------------------------ *)
(* Axis-aligned closed form (BoundingBox::intersection and its IoU) *)
From Coq Require Import Qminmax.

Lemma Qmaxb_max a b : max Qops a b == Qmax a b.
Proof.
  destruct (Qmaxb_spec a b) as [[H E]|[H E]]; rewrite E.
  - symmetry. now apply Q.max_r.
  - symmetry. apply Q.max_l. now apply Qlt_le_weak.
Qed.

Lemma Qminb_min a b : min Qops a b == Qmin a b.
Proof.
  destruct (Qminb_spec a b) as [[H E]|[H E]]; rewrite E.
  - symmetry. now apply Q.min_l.
  - symmetry. apply Q.min_r. now apply Qlt_le_weak.
Qed.

Definition aa_w (l r : ltwh Qops) : Q := Qmin (bl l + bw l) (bl r + bw r) - Qmax (bl l) (bl r).
Definition aa_h (l r : ltwh Qops) : Q := Qmin (bt l + bhh l) (bt r + bhh r) - Qmax (bt l) (bt r).

Lemma aa_inter_cases l r :
  (0 < aa_w l r /\ 0 < aa_h l r /\ aa_inter Qops l r == aa_w l r * aa_h l r) \/
  ((aa_w l r <= 0 \/ aa_h l r <= 0) /\ aa_inter Qops l r == 0).
Proof.
  unfold aa_inter, bbox_intersection, to_bbox.
  cbn [BoundingBox_left BoundingBox_top BoundingBox_width BoundingBox_height].
  set (W := sub Qops (min Qops (add Qops (bl l) (bw l)) (add Qops (bl r) (bw r))) (max Qops (bl l) (bl r))).
  set (H := sub Qops (min Qops (add Qops (bt l) (bhh l)) (add Qops (bt r) (bhh r))) (max Qops (bt l) (bt r))).
  assert (EW : W == aa_w l r).
  { unfold W, aa_w. rewrite qsub, Qminb_min, Qmaxb_max, !qadd. reflexivity. }
  assert (EH : H == aa_h l r).
  { unfold H, aa_h. rewrite qsub, Qminb_min, Qmaxb_max, !qadd. reflexivity. }
  destruct (ltb Qops (zero Qops) W) eqn:A, (ltb Qops (zero Qops) H) eqn:B; cbn [andb].
  - left. apply qltb_iff in A. apply qltb_iff in B. rewrite qzero, EW in A. rewrite qzero, EH in B.
    split; [assumption|]. split; [assumption|]. rewrite qmul, EW, EH. reflexivity.
  - right. split; [|reflexivity]. right. rewrite qltb, negb_false_iff in B. apply Qle_bool_iff in B.
    rewrite qzero, EH in B. exact B.
  - right. split; [|reflexivity]. left. rewrite qltb, negb_false_iff in A. apply Qle_bool_iff in A.
    rewrite qzero, EW in A. exact A.
  - right. split; [|reflexivity]. left. rewrite qltb, negb_false_iff in A. apply Qle_bool_iff in A.
    rewrite qzero, EW in A. exact A.
Qed.

Lemma aa_w_sym l r : aa_w l r == aa_w r l.
Proof. unfold aa_w. rewrite Q.min_comm, Q.max_comm. reflexivity. Qed.
Lemma aa_h_sym l r : aa_h l r == aa_h r l.
Proof. unfold aa_h. rewrite Q.min_comm, Q.max_comm. reflexivity. Qed.

Lemma aa_inter_sym_lemma l r : aa_inter Qops l r == aa_inter Qops r l.
Proof.
  destruct (aa_inter_cases l r) as [(A & B & E)|[D E]], (aa_inter_cases r l) as [(A' & B' & E')|[D' E']];
    rewrite E, E'; rewrite ?(aa_w_sym r l), ?(aa_h_sym r l) in *; try reflexivity.
  - destruct D'; lra.
  - destruct D; lra.
Qed.

Definition valid_ltwh (r : ltwh Qops) : Prop := 0 < bw r /\ 0 < bhh r.
Definition aa_area (r : ltwh Qops) : Q := bhh r * bw r.

Lemma aa_w_bounds l r : valid_ltwh l -> valid_ltwh r -> aa_w l r <= bw l /\ aa_w l r <= bw r.
Proof.
  intros [Wl _] [Wr _]. unfold aa_w.
  destruct (Q.min_spec (bl l + bw l) (bl r + bw r)) as [[A E]|[A E]]; rewrite E;
  destruct (Q.max_spec (bl l) (bl r)) as [[B F]|[B F]]; rewrite F; split; lra.
Qed.

Lemma aa_h_bounds l r : valid_ltwh l -> valid_ltwh r -> aa_h l r <= bhh l /\ aa_h l r <= bhh r.
Proof.
  intros [_ Hl] [_ Hr]. unfold aa_h.
  destruct (Q.min_spec (bt l + bhh l) (bt r + bhh r)) as [[A E]|[A E]]; rewrite E;
  destruct (Q.max_spec (bt l) (bt r)) as [[B F]|[B F]]; rewrite F; split; lra.
Qed.

Lemma aa_inter_range_lemma l r : valid_ltwh l -> valid_ltwh r ->
  0 <= aa_inter Qops l r /\ aa_inter Qops l r <= aa_area l /\ aa_inter Qops l r <= aa_area r.
Proof.
  intros Vl Vr. pose proof (aa_w_bounds l r Vl Vr) as [W1 W2]. pose proof (aa_h_bounds l r Vl Vr) as [H1 H2].
  destruct Vl as [Wl Hl], Vr as [Wr Hr]. unfold aa_area.
  destruct (aa_inter_cases l r) as [(A & B & E)|[D E]]; rewrite E.
  - set (w := aa_w l r) in *. set (h := aa_h l r) in *. repeat split; nra.
  - repeat split; nra.
Qed.

Lemma aa_iou_q l r : aa_iou Qops l r == aa_inter Qops l r / (aa_area l + aa_area r - aa_inter Qops l r).
Proof. unfold aa_iou, aa_area. qn. reflexivity. Qed.

Lemma aa_iou_range_lemma l r : valid_ltwh l -> valid_ltwh r -> 0 <= aa_iou Qops l r <= 1.
Proof.
  intros Vl Vr. destruct (aa_inter_range_lemma l r Vl Vr) as (I0 & I1 & I2).
  assert (Al : 0 < aa_area l) by (destruct Vl; unfold aa_area; nra).
  assert (Ar : 0 < aa_area r) by (destruct Vr; unfold aa_area; nra).
  rewrite aa_iou_q. set (i := aa_inter Qops l r) in *. set (a := aa_area l) in *. set (b := aa_area r) in *.
  assert (D : 0 < a + b - i) by lra. split.
  - apply Qle_shift_div_l; [exact D | lra].
  - apply Qle_shift_div_r; [exact D | lra].
Qed.

Lemma aa_iou_identical_lemma r : valid_ltwh r -> aa_iou Qops r r == 1.
Proof.
  intros [W H]. rewrite aa_iou_q.
  assert (E : aa_inter Qops r r == aa_area r).
  { destruct (aa_inter_cases r r) as [(A & B & E)|[D E]]; rewrite E; unfold aa_w, aa_h, aa_area in *;
      rewrite ?Q.min_id, ?Q.max_id in *.
    - ring.
    - destruct D; lra. }
  rewrite E. assert (0 < aa_area r) by (unfold aa_area; nra). field. lra.
Qed.

(* the closed form is zero exactly when the open rectangles have no common point *)
Definition in_open (r : ltwh Qops) (x y : Q) : Prop :=
  bl r < x /\ x < bl r + bw r /\ bt r < y /\ y < bt r + bhh r.

Lemma aa_inter_zero_iff_lemma l r : valid_ltwh l -> valid_ltwh r ->
  (aa_inter Qops l r == 0 <-> ~ exists x y, in_open l x y /\ in_open r x y).
Proof.
  intros Vl Vr. split.
  - intros Z [x [y [(A1 & A2 & A3 & A4) (B1 & B2 & B3 & B4)]]].
    assert (Wp : 0 < aa_w l r).
    { unfold aa_w. destruct (Q.min_spec (bl l + bw l) (bl r + bw r)) as [[A E]|[A E]]; rewrite E;
      destruct (Q.max_spec (bl l) (bl r)) as [[B F]|[B F]]; rewrite F; lra. }
    assert (Hp : 0 < aa_h l r).
    { unfold aa_h. destruct (Q.min_spec (bt l + bhh l) (bt r + bhh r)) as [[A E]|[A E]]; rewrite E;
      destruct (Q.max_spec (bt l) (bt r)) as [[B F]|[B F]]; rewrite F; lra. }
    destruct (aa_inter_cases l r) as [(A & B & E)|[D E]].
    + rewrite E in Z. set (w := aa_w l r) in *. set (h := aa_h l r) in *. nra.
    + destruct D; lra.
  - intros N. destruct (aa_inter_cases l r) as [(A & B & E)|[D E]]; [|exact E]. exfalso. apply N.
    exists (Qmax (bl l) (bl r) + aa_w l r / 2), (Qmax (bt l) (bt r) + aa_h l r / 2).
    unfold in_open. unfold aa_w, aa_h in *.
    pose proof (Q.le_max_l (bl l) (bl r)). pose proof (Q.le_max_r (bl l) (bl r)).
    pose proof (Q.le_min_l (bl l + bw l) (bl r + bw r)). pose proof (Q.le_min_r (bl l + bw l) (bl r + bw r)).
    pose proof (Q.le_max_l (bt l) (bt r)). pose proof (Q.le_max_r (bt l) (bt r)).
    pose proof (Q.le_min_l (bt l + bhh l) (bt r + bhh r)). pose proof (Q.le_min_r (bt l + bhh l) (bt r + bhh r)).
    set (x1 := Qmax (bl l) (bl r)) in *. set (x2 := Qmin (bl l + bw l) (bl r + bw r)) in *.
    set (y1 := Qmax (bt l) (bt r)) in *. set (y2 := Qmin (bt l + bhh l) (bt r + bhh r)) in *.
    clear E N. destruct Vl as [Wl Hl], Vr as [Wr Hr].
    assert (X : (x2 - x1) / 2 == (x2 - x1) * (1 # 2)) by field.
    assert (Y : (y2 - y1) / 2 == (y2 - y1) * (1 # 2)) by field.
    rewrite X, Y. repeat split; lra.
Qed.

(* ------------------------------------------------------------------------------------------ *)
(* Unrotated boxes: the clipped area IS the closed form.
   Clipping a canonical rectangle [x0,x1] x [y0,y1] (vertex order of bbox.rs) by one edge of an axis-aligned
   rectangle yields a canonical rectangle again (or nothing); the last pass is only needed up to its area. *)

Lemma clip_step_in_in cs ce s e : crossq cs ce e <= 0 -> crossq cs ce s <= 0 -> clip_step Qops cs ce s e = [e].
Proof. intros. destruct (clip_step_cases cs ce s e) as [(?&?&E)|[(?&?&E)|[(?&?&E)|(?&?&E)]]]; try lra; exact E. Qed.
Lemma clip_step_out_in cs ce s e : crossq cs ce e <= 0 -> 0 < crossq cs ce s ->
  clip_step Qops cs ce s e = [compute_intersection Qops s e cs ce; e].
Proof. intros. destruct (clip_step_cases cs ce s e) as [(?&?&E)|[(?&?&E)|[(?&?&E)|(?&?&E)]]]; try lra; exact E. Qed.
Lemma clip_step_in_out cs ce s e : 0 < crossq cs ce e -> crossq cs ce s <= 0 ->
  clip_step Qops cs ce s e = [compute_intersection Qops s e cs ce].
Proof. intros. destruct (clip_step_cases cs ce s e) as [(?&?&E)|[(?&?&E)|[(?&?&E)|(?&?&E)]]]; try lra; exact E. Qed.
Lemma clip_step_out_out cs ce s e : 0 < crossq cs ce e -> 0 < crossq cs ce s -> clip_step Qops cs ce s e = [].
Proof. intros. destruct (clip_step_cases cs ce s e) as [(?&?&E)|[(?&?&E)|[(?&?&E)|(?&?&E)]]]; try lra; exact E. Qed.

Definition canon (x0 x1 y0 y1 : Q) : list qpt := [(x0, y1); (x1, y1); (x1, y0); (x0, y0)].

Lemma canon_area x0 x1 y0 y1 : x0 <= x1 -> y0 <= y1 -> shoelace Qops (canon x0 x1 y0 y1) == (x1 - x0) * (y1 - y0).
Proof.
  intros Hx Hy. unfold shoelace, twice_signed_area, canon. cbn [last det_walk]. unfold det. cbn [px py fst snd].
  rewrite qdiv, Qabsb_abs, qtwo. qn.
  match goal with |- Qabs ?e / 2 == _ => setoid_replace e with (- (2 * ((x1 - x0) * (y1 - y0)))) by ring end.
  rewrite Qabs_opp, Qabs_pos; [field | nra].
Qed.

Lemma canon_leq x0 x1 y0 y1 x0' x1' y0' y1' :
  x0 == x0' -> x1 == x1' -> y0 == y0' -> y1 == y1' -> leq (canon x0 x1 y0 y1) (canon x0' x1' y0' y1').
Proof. intros. unfold canon, leq. repeat constructor; cbn [px py fst snd]; assumption. Qed.

Lemma clip_pass_leq cs ce cs' ce' l l' : peq cs cs' -> peq ce ce' -> leq l l' ->
  leq (clip_pass Qops cs ce l) (clip_pass Qops cs' ce' l').
Proof. rewrite !leq_simL, !peq_simR. apply clip_pass_sim. exact one_pos. Qed.

Section AxisAligned.
(* the clip rectangle *)
Variables bx0 bx1 by0 by1 : Q.
Hypothesis HbX : bx0 < bx1.
Hypothesis HbY : by0 < by1.

Let B0 : qpt := (bx0, by1).
Let B1 : qpt := (bx1, by1).
Let B2 : qpt := (bx1, by0).
Let B3 : qpt := (bx0, by0).

Lemma E_left (q : qpt) : crossq B3 B0 q == - (by1 - by0) * (px q - bx0).
Proof. unfold crossq, B3, B0. cbn [px py fst snd]. ring. Qed.
Lemma E_top (q : qpt) : crossq B0 B1 q == (bx1 - bx0) * (py q - by1).
Proof. unfold crossq, B0, B1. cbn [px py fst snd]. ring. Qed.
Lemma E_right (q : qpt) : crossq B1 B2 q == (by1 - by0) * (px q - bx1).
Proof. unfold crossq, B1, B2. cbn [px py fst snd]. ring. Qed.
Lemma E_bottom (q : qpt) : crossq B2 B3 q == - (bx1 - bx0) * (py q - by0).
Proof. unfold crossq, B2, B3. cbn [px py fst snd]. ring. Qed.

(* the crossing point, once the sides are known to differ *)
Lemma ci_point s e cs ce (X Y : Q) :
  sides_differ s e cs ce ->
  px s + ci_t s e cs ce * (px e - px s) == X -> py s + ci_t s e cs ce * (py e - py s) == Y ->
  peq (compute_intersection Qops s e cs ce) (X, Y).
Proof.
  intros Hd HX HY. destruct (compute_intersection_parametric _ _ _ _ Hd) as [A B].
  split; cbn [px py fst snd]; [rewrite A | rewrite B]; cbn [px py fst snd]; assumption.
Qed.

Ltac sgn E := rewrite E; cbn [px py fst snd]; nra.

(* pass 0: the left edge keeps x >= bx0 *)
Lemma pass_left x0 x1 y0 y1 : x0 <= x1 -> y0 <= y1 ->
  (x1 < bx0 /\ clip_pass Qops B3 B0 (canon x0 x1 y0 y1) = []) \/
  (bx0 <= x1 /\ leq (clip_pass Qops B3 B0 (canon x0 x1 y0 y1)) (canon (Qmax x0 bx0) x1 y0 y1)).
Proof.
  intros Hx Hy. unfold clip_pass, canon. cbn [last clip_walk].
  destruct (Qlt_le_dec x1 bx0) as [C1|C1]; [left | right]; (split; [assumption|]).
  - rewrite !clip_step_out_out by (sgn E_left). reflexivity.
  - destruct (Qlt_le_dec x0 bx0) as [C0|C0].
    + (* crossing *)
      rewrite (clip_step_out_out B3 B0 (x0, y0) (x0, y1)) by (sgn E_left).
      rewrite (clip_step_out_in B3 B0 (x0, y1) (x1, y1)) by (sgn E_left).
      rewrite (clip_step_in_in B3 B0 (x1, y1) (x1, y0)) by (sgn E_left).
      rewrite (clip_step_in_out B3 B0 (x1, y0) (x0, y0)) by (sgn E_left).
      cbn [app]. assert (M : Qmax x0 bx0 == bx0) by (apply Q.max_r; lra).
      repeat (apply Forall2_cons); try apply Forall2_nil; try (split; cbn [px py fst snd]; rewrite ?M; reflexivity).
      * apply ci_point; [left; split; sgn E_left | |]; unfold ci_t; rewrite !E_left; cbn [px py fst snd];
          rewrite ?M; field; repeat split; intro Z; nra.
      * apply ci_point; [right; split; sgn E_left | |]; unfold ci_t; rewrite !E_left; cbn [px py fst snd];
          rewrite ?M; field; repeat split; intro Z; nra.
    + rewrite !clip_step_in_in by (sgn E_left). cbn [app].
      assert (M : Qmax x0 bx0 == x0) by (apply Q.max_l; lra).
      repeat (apply Forall2_cons); try apply Forall2_nil; split; cbn [px py fst snd]; rewrite ?M; reflexivity.
Qed.

(* pass 1: the top edge keeps y <= by1 *)
Lemma pass_top x0 x1 y0 y1 : x0 <= x1 -> y0 <= y1 ->
  (by1 < y0 /\ clip_pass Qops B0 B1 (canon x0 x1 y0 y1) = []) \/
  (y0 <= by1 /\ leq (clip_pass Qops B0 B1 (canon x0 x1 y0 y1)) (canon x0 x1 y0 (Qmin y1 by1))).
Proof.
  intros Hx Hy. unfold clip_pass, canon. cbn [last clip_walk].
  destruct (Qlt_le_dec by1 y0) as [C1|C1]; [left | right]; (split; [assumption|]).
  - rewrite !clip_step_out_out by (sgn E_top). reflexivity.
  - destruct (Qlt_le_dec by1 y1) as [C0|C0].
    + rewrite (clip_step_in_out B0 B1 (x0, y0) (x0, y1)) by (sgn E_top).
      rewrite (clip_step_out_out B0 B1 (x0, y1) (x1, y1)) by (sgn E_top).
      rewrite (clip_step_out_in B0 B1 (x1, y1) (x1, y0)) by (sgn E_top).
      rewrite (clip_step_in_in B0 B1 (x1, y0) (x0, y0)) by (sgn E_top).
      cbn [app]. assert (M : Qmin y1 by1 == by1) by (apply Q.min_r; lra).
      repeat (apply Forall2_cons); try apply Forall2_nil; try (split; cbn [px py fst snd]; rewrite ?M; reflexivity).
      * apply ci_point; [right; split; sgn E_top | |]; unfold ci_t; rewrite !E_top; cbn [px py fst snd];
          rewrite ?M; field; repeat split; intro Z; nra.
      * apply ci_point; [left; split; sgn E_top | |]; unfold ci_t; rewrite !E_top; cbn [px py fst snd];
          rewrite ?M; field; repeat split; intro Z; nra.
    + rewrite !clip_step_in_in by (sgn E_top). cbn [app].
      assert (M : Qmin y1 by1 == y1) by (apply Q.min_l; lra).
      repeat (apply Forall2_cons); try apply Forall2_nil; split; cbn [px py fst snd]; rewrite ?M; reflexivity.
Qed.

(* pass 2: the right edge keeps x <= bx1 *)
Lemma pass_right x0 x1 y0 y1 : x0 <= x1 -> y0 <= y1 ->
  (bx1 < x0 /\ clip_pass Qops B1 B2 (canon x0 x1 y0 y1) = []) \/
  (x0 <= bx1 /\ leq (clip_pass Qops B1 B2 (canon x0 x1 y0 y1)) (canon x0 (Qmin x1 bx1) y0 y1)).
Proof.
  intros Hx Hy. unfold clip_pass, canon. cbn [last clip_walk].
  destruct (Qlt_le_dec bx1 x0) as [C1|C1]; [left | right]; (split; [assumption|]).
  - rewrite !clip_step_out_out by (sgn E_right). reflexivity.
  - destruct (Qlt_le_dec bx1 x1) as [C0|C0].
    + rewrite (clip_step_in_in B1 B2 (x0, y0) (x0, y1)) by (sgn E_right).
      rewrite (clip_step_in_out B1 B2 (x0, y1) (x1, y1)) by (sgn E_right).
      rewrite (clip_step_out_out B1 B2 (x1, y1) (x1, y0)) by (sgn E_right).
      rewrite (clip_step_out_in B1 B2 (x1, y0) (x0, y0)) by (sgn E_right).
      cbn [app]. assert (M : Qmin x1 bx1 == bx1) by (apply Q.min_r; lra).
      repeat (apply Forall2_cons); try apply Forall2_nil; try (split; cbn [px py fst snd]; rewrite ?M; reflexivity).
      * apply ci_point; [right; split; sgn E_right | |]; unfold ci_t; rewrite !E_right; cbn [px py fst snd];
          rewrite ?M; field; repeat split; intro Z; nra.
      * apply ci_point; [left; split; sgn E_right | |]; unfold ci_t; rewrite !E_right; cbn [px py fst snd];
          rewrite ?M; field; repeat split; intro Z; nra.
    + rewrite !clip_step_in_in by (sgn E_right). cbn [app].
      assert (M : Qmin x1 bx1 == x1) by (apply Q.min_l; lra).
      repeat (apply Forall2_cons); try apply Forall2_nil; split; cbn [px py fst snd]; rewrite ?M; reflexivity.
Qed.

(* pass 3: the bottom edge keeps y >= by0; the vertex list comes out rotated by one place, so only its area is stated *)
Lemma pass_bottom_area x0 x1 y0 y1 : x0 <= x1 -> y0 <= y1 ->
  (y1 < by0 /\ clip_pass Qops B2 B3 (canon x0 x1 y0 y1) = []) \/
  (by0 <= y1 /\ shoelace Qops (clip_pass Qops B2 B3 (canon x0 x1 y0 y1)) == (x1 - x0) * (y1 - Qmax y0 by0)).
Proof.
  intros Hx Hy. unfold clip_pass, canon. cbn [last clip_walk].
  destruct (Qlt_le_dec y1 by0) as [C1|C1]; [left | right]; (split; [assumption|]).
  - rewrite !clip_step_out_out by (sgn E_bottom). reflexivity.
  - destruct (Qlt_le_dec y0 by0) as [C0|C0].
    + rewrite (clip_step_out_in B2 B3 (x0, y0) (x0, y1)) by (sgn E_bottom).
      rewrite (clip_step_in_in B2 B3 (x0, y1) (x1, y1)) by (sgn E_bottom).
      rewrite (clip_step_in_out B2 B3 (x1, y1) (x1, y0)) by (sgn E_bottom).
      rewrite (clip_step_out_out B2 B3 (x1, y0) (x0, y0)) by (sgn E_bottom).
      cbn [app]. assert (M : Qmax y0 by0 == by0) by (apply Q.max_r; lra).
      assert (L : leq [compute_intersection Qops (x0, y0) (x0, y1) B2 B3; (x0, y1); (x1, y1);
                       compute_intersection Qops (x1, y1) (x1, y0) B2 B3]
                      [(x0, by0); (x0, y1); (x1, y1); (x1, by0)]).
      { repeat (apply Forall2_cons); try apply Forall2_nil; try apply peq_refl.
        - apply ci_point; [left; split; sgn E_bottom | |]; unfold ci_t; rewrite !E_bottom; cbn [px py fst snd];
            field; repeat split; intro Z; nra.
        - apply ci_point; [right; split; sgn E_bottom | |]; unfold ci_t; rewrite !E_bottom; cbn [px py fst snd];
            field; repeat split; intro Z; nra. }
      rewrite <- (shoelace_leq _ _ L). rewrite M.
      unfold shoelace, twice_signed_area. cbn [last det_walk]. unfold det. cbn [px py fst snd].
      rewrite qdiv, Qabsb_abs, qtwo. qn.
      match goal with |- Qabs ?e / 2 == _ => setoid_replace e with (- (2 * ((x1 - x0) * (y1 - by0)))) by ring end.
      rewrite Qabs_opp, Qabs_pos; [field | nra].
    + rewrite !clip_step_in_in by (sgn E_bottom). cbn [app].
      assert (M : Qmax y0 by0 == y0) by (apply Q.max_l; lra).
      rewrite M. apply (canon_area x0 x1 y0 y1 Hx Hy).
Qed.

(* the same pass with its vertex list: a canonical rectangle again, or the canonical rectangle rotated by one place *)
Lemma pass_bottom_list x0 x1 y0 y1 : x0 <= x1 -> y0 <= y1 ->
  (y1 < by0 /\ clip_pass Qops B2 B3 (canon x0 x1 y0 y1) = []) \/
  (by0 <= y1 /\
   (leq (clip_pass Qops B2 B3 (canon x0 x1 y0 y1)) (canon x0 x1 (Qmax y0 by0) y1) \/
    leq (clip_pass Qops B2 B3 (canon x0 x1 y0 y1))
        [(x0, Qmax y0 by0); (x0, y1); (x1, y1); (x1, Qmax y0 by0)])).
Proof.
  intros Hx Hy. unfold clip_pass, canon. cbn [last clip_walk].
  destruct (Qlt_le_dec y1 by0) as [C1|C1]; [left | right]; (split; [assumption|]).
  - rewrite !clip_step_out_out by (sgn E_bottom). reflexivity.
  - destruct (Qlt_le_dec y0 by0) as [C0|C0]; [right | left].
    + rewrite (clip_step_out_in B2 B3 (x0, y0) (x0, y1)) by (sgn E_bottom).
      rewrite (clip_step_in_in B2 B3 (x0, y1) (x1, y1)) by (sgn E_bottom).
      rewrite (clip_step_in_out B2 B3 (x1, y1) (x1, y0)) by (sgn E_bottom).
      rewrite (clip_step_out_out B2 B3 (x1, y0) (x0, y0)) by (sgn E_bottom).
      cbn [app]. assert (M : Qmax y0 by0 == by0) by (apply Q.max_r; lra).
      repeat (apply Forall2_cons); try apply Forall2_nil; try apply peq_refl.
      * apply ci_point; [left; split; sgn E_bottom | |]; unfold ci_t; rewrite !E_bottom; cbn [px py fst snd];
          rewrite ?M; field; repeat split; intro Z; nra.
      * apply ci_point; [right; split; sgn E_bottom | |]; unfold ci_t; rewrite !E_bottom; cbn [px py fst snd];
          rewrite ?M; field; repeat split; intro Z; nra.
    + rewrite !clip_step_in_in by (sgn E_bottom). cbn [app].
      assert (M : Qmax y0 by0 == y0) by (apply Q.max_l; lra).
      repeat (apply Forall2_cons); try apply Forall2_nil; split; cbn [px py fst snd]; rewrite ?M; reflexivity.
Qed.

End AxisAligned.

Lemma leq_nil_r l : leq l [] -> l = [].
Proof. intros H. inversion H. reflexivity. Qed.

Lemma leq_trans l1 l2 l3 : leq l1 l2 -> leq l2 l3 -> leq l1 l3.
Proof.
  intros H. revert l3. induction H as [|p q l1 l2 Hp Hl IH]; intros l3 H3; inversion H3; subst; constructor.
  - destruct Hp as [A B]. match goal with H : peq q _ |- _ => destruct H as [C D] end.
    split; [rewrite A; exact C | rewrite B; exact D].
  - now apply IH.
Qed.

Lemma shoelace_nil : shoelace Qops [] == 0.
Proof. unfold shoelace, twice_signed_area. rewrite qdiv, Qabsb_abs, qtwo, qzero. reflexivity. Qed.

(* clipping one canonical rectangle by another: the area is the closed form *)
Lemma clip_canon_area x0 x1 y0 y1 bx0 bx1 by0 by1 :
  x0 <= x1 -> y0 <= y1 -> bx0 < bx1 -> by0 < by1 ->
  let W := Qmin x1 bx1 - Qmax x0 bx0 in
  let H := Qmin y1 by1 - Qmax y0 by0 in
  let A := shoelace Qops (sh_clip Qops (canon x0 x1 y0 y1) (canon bx0 bx1 by0 by1)) in
  (0 <= W /\ 0 <= H /\ A == W * H) \/ ((W < 0 \/ H < 0) /\ A == 0).
Proof.
  intros Hx Hy HbX HbY W H A.
  assert (EQ : sh_clip Qops (canon x0 x1 y0 y1) (canon bx0 bx1 by0 by1) =
               clip_pass Qops (bx1, by0) (bx0, by0) (clip_pass Qops (bx1, by1) (bx1, by0)
                 (clip_pass Qops (bx0, by1) (bx1, by1) (clip_pass Qops (bx0, by0) (bx0, by1) (canon x0 x1 y0 y1)))))
    by reflexivity.
  unfold A. rewrite EQ. clear EQ A.
  set (S0 := canon x0 x1 y0 y1).
  set (S1 := clip_pass Qops (bx0, by0) (bx0, by1) S0).
  set (S2 := clip_pass Qops (bx0, by1) (bx1, by1) S1).
  set (S3 := clip_pass Qops (bx1, by1) (bx1, by0) S2).
  set (S4 := clip_pass Qops (bx1, by0) (bx0, by0) S3).
  pose proof (Q.le_max_l x0 bx0) as M1. pose proof (Q.le_max_r x0 bx0) as M2.
  pose proof (Q.le_min_l x1 bx1) as M3. pose proof (Q.le_min_r x1 bx1) as M4.
  pose proof (Q.le_max_l y0 by0) as M5. pose proof (Q.le_max_r y0 by0) as M6.
  pose proof (Q.le_min_l y1 by1) as M7. pose proof (Q.le_min_r y1 by1) as M8.
  (* pass 0 *)
  destruct (pass_left bx0 by0 by1 HbY x0 x1 y0 y1 Hx Hy) as [[C E]|[C E]]; fold S0 in E; fold S1 in E.
  { right. split; [left; unfold W; lra|]. unfold S4, S3, S2. rewrite E. cbn [clip_pass]. apply shoelace_nil. }
  set (X0 := Qmax x0 bx0) in *.
  assert (HX0 : X0 <= x1) by (unfold X0; apply Q.max_lub; assumption).
  (* pass 1 *)
  pose proof (clip_pass_leq (bx0, by1) (bx1, by1) _ _ _ _ (peq_refl _) (peq_refl _) E) as E1. fold S2 in E1.
  destruct (pass_top bx0 bx1 by1 HbX X0 x1 y0 y1 HX0 Hy) as [[C' F]|[C' F]].
  { rewrite F in E1. apply leq_nil_r in E1. right. split; [right; unfold H; lra|].
    unfold S4, S3. rewrite E1. cbn [clip_pass]. apply shoelace_nil. }
  pose proof (leq_trans _ _ _ E1 F) as E2. clear E1 F.
  set (Y1 := Qmin y1 by1) in *.
  assert (HY1 : y0 <= Y1) by (unfold Y1; apply Q.min_glb; assumption).
  (* pass 2 *)
  pose proof (clip_pass_leq (bx1, by1) (bx1, by0) _ _ _ _ (peq_refl _) (peq_refl _) E2) as E3. fold S3 in E3.
  destruct (pass_right bx1 by0 by1 HbY X0 x1 y0 Y1 HX0 HY1) as [[C'' F]|[C'' F]].
  { rewrite F in E3. apply leq_nil_r in E3. right. split; [left; unfold W; fold X0; lra|].
    unfold S4. rewrite E3. cbn [clip_pass]. apply shoelace_nil. }
  pose proof (leq_trans _ _ _ E3 F) as E4. clear E3 F.
  set (X1 := Qmin x1 bx1) in *.
  assert (HX1 : X0 <= X1) by (unfold X1; apply Q.min_glb; assumption).
  (* pass 3 *)
  pose proof (clip_pass_leq (bx1, by0) (bx0, by0) _ _ _ _ (peq_refl _) (peq_refl _) E4) as E5. fold S4 in E5.
  rewrite <- (shoelace_leq _ _ E5).
  destruct (pass_bottom_area bx0 bx1 by0 HbX X0 X1 y0 Y1 HX1 HY1) as [[C3 F]|[C3 F]].
  { right. split; [right; unfold H; fold Y1; lra|]. rewrite F. apply shoelace_nil. }
  left. fold X0 X1 in W. fold Y1 in H. unfold W, H. split; [lra|]. split; [|exact F].
  apply Qle_minus_iff. setoid_replace (Y1 - Qmax y0 by0 + - 0) with (Y1 - Qmax y0 by0) by ring.
  apply -> Qle_minus_iff. apply Q.max_lub; assumption.
Qed.

Lemma half_pos w : 0 < w -> 0 < w / 2.
Proof. intros H. apply Qlt_shift_div_l; lra. Qed.

Definition unrotated (b : qbox) : Prop := bc b == 1 /\ bs b == 0.

Definition box_x0 (b : qbox) : Q := bxc b - bh b * basp b / 2.
Definition box_x1 (b : qbox) : Q := bxc b + bh b * basp b / 2.
Definition box_y0 (b : qbox) : Q := byc b - bh b / 2.
Definition box_y1 (b : qbox) : Q := byc b + bh b / 2.

Lemma rect_unrotated b : unrotated b ->
  leq (rect_vertices Qops b) (canon (box_x0 b) (box_x1 b) (box_y0 b) (box_y1 b)).
Proof.
  intros [C S]. eapply leq_trans; [apply rect_vertices_q|].
  unfold rectq, rq0, rq1, rq2, rq3, canon, box_x0, box_x1, box_y0, box_y1, leq.
  repeat (apply Forall2_cons); try apply Forall2_nil; split; cbn [px py fst snd]; rewrite C, S; field.
Qed.

Lemma to_ltwh_q (b : qbox) :
  bl (to_ltwh Qops b) == box_x0 b /\ bt (to_ltwh Qops b) == box_y0 b /\
  bl (to_ltwh Qops b) + bw (to_ltwh Qops b) == box_x1 b /\ bt (to_ltwh Qops b) + bhh (to_ltwh Qops b) == box_y1 b.
Proof.
  unfold to_ltwh, box_x0, box_x1, box_y0, box_y1. cbn [bl bt bw bhh]. qn. rewrite !qtwo.
  repeat split; try reflexivity; field.
Qed.

Lemma clip_axis_aligned_lemma (l r : qbox) :
  valid_box l -> valid_box r -> unrotated l -> unrotated r ->
  clip_area Qops (rect_vertices Qops l) (rect_vertices Qops r) == aa_inter Qops (to_ltwh Qops l) (to_ltwh Qops r).
Proof.
  intros [Al Hl] [Ar Hr] Ul Ur.
  assert (Wl : 0 < bh l * basp l) by (apply Qmult_lt_0_compat; assumption).
  assert (Wr : 0 < bh r * basp r) by (apply Qmult_lt_0_compat; assumption).
  unfold clip_area.
  rewrite <- (shoelace_leq _ _ (sh_clip_leq _ _ _ _ (rect_unrotated l Ul) (rect_unrotated r Ur))).
  pose proof (half_pos _ Wl) as P1. pose proof (half_pos _ Hl) as P2.
  pose proof (half_pos _ Wr) as P3. pose proof (half_pos _ Hr) as P4.
  assert (X : box_x0 l <= box_x1 l) by (unfold box_x0, box_x1; clear - P1; set (u := bh l * basp l / 2) in *; lra).
  assert (Y : box_y0 l <= box_y1 l) by (unfold box_y0, box_y1; clear - P2; lra).
  assert (BX : box_x0 r < box_x1 r) by (unfold box_x0, box_x1; clear - P3; set (u := bh r * basp r / 2) in *; lra).
  assert (BY : box_y0 r < box_y1 r) by (unfold box_y0, box_y1; clear - P4; lra).
  pose proof (clip_canon_area _ _ _ _ _ _ _ _ X Y BX BY) as CA. cbn zeta in CA.
  destruct (to_ltwh_q l) as (L1 & L2 & L3 & L4). destruct (to_ltwh_q r) as (R1 & R2 & R3 & R4).
  assert (EW : aa_w (to_ltwh Qops l) (to_ltwh Qops r) == Qmin (box_x1 l) (box_x1 r) - Qmax (box_x0 l) (box_x0 r)).
  { unfold aa_w. rewrite L3, R3, L1, R1. reflexivity. }
  assert (EH : aa_h (to_ltwh Qops l) (to_ltwh Qops r) == Qmin (box_y1 l) (box_y1 r) - Qmax (box_y0 l) (box_y0 r)).
  { unfold aa_h. rewrite L4, R4, L2, R2. reflexivity. }
  set (W := Qmin (box_x1 l) (box_x1 r) - Qmax (box_x0 l) (box_x0 r)) in *.
  set (H := Qmin (box_y1 l) (box_y1 r) - Qmax (box_y0 l) (box_y0 r)) in *.
  destruct CA as [(W0 & H0 & E)|[D E]]; rewrite E;
    destruct (aa_inter_cases (to_ltwh Qops l) (to_ltwh Qops r)) as [(A & B & F)|[D' F]]; rewrite F, ?EW, ?EH in *.
  - reflexivity.
  - destruct D'; nra.
  - destruct D; lra.
  - reflexivity.
Qed.

(* ------------------------------------------------------------------------------------------ *)
(* What is proved of "the reported area is the true area" (the general rotated link is NOT proved):
   every vertex of the clipped polygon lies in both rectangles; for unrotated boxes the clipped area is the closed
   form; for identical boxes it is the area of the box. *)
Lemma clip_vertices_in_both (l r : qbox) v : valid_box l -> valid_box r ->
  In v (sh_clip Qops (rect_vertices Qops l) (rect_vertices Qops r)) -> in_rect l v /\ in_rect r v.
Proof.
  intros Vl Vr Hv. destruct (clip_vertices_inside_lemma _ _ _ Hv) as [A B]. split.
  - intros e He. apply B. intros x Hx.
    pose proof (rect_all_inside l Vl e He) as I. unfold all_in in I. rewrite Forall_forall in I. apply I. exact Hx.
  - exact A.
Qed.

Lemma iou_exact_partial_lemma (l r : qbox) : valid_box l -> valid_box r ->
  (forall v, In v (sh_clip Qops (rect_vertices Qops l) (rect_vertices Qops r)) -> in_rect l v /\ in_rect r v) /\
  (unrotated l -> unrotated r ->
   clip_area Qops (rect_vertices Qops l) (rect_vertices Qops r) == aa_inter Qops (to_ltwh Qops l) (to_ltwh Qops r)) /\
  (unit_dir l -> inter_area Qops l l == box_area Qops l).
Proof.
  intros Vl Vr. split; [|split].
  - intros v. now apply clip_vertices_in_both.
  - now apply clip_axis_aligned_lemma.
  - now apply inter_area_self.
Qed.

(* ------------------------------------------------------------------------------------------ *)
(* Unrotated boxes, end to end: the general IoU (too_far pre-check + clipper + shoelace) IS the closed-form IoU,
   hence symmetric, in [0,1], and absent exactly when the open rectangles do not meet. *)

Lemma in_rect_unrotated (b : qbox) (p : qpt) : valid_box b -> unrotated b ->
  box_x0 b <= px p <= box_x1 b -> box_y0 b <= py p <= box_y1 b -> in_rect b p.
Proof.
  intros [Ha Hh] U [X0 X1] [Y0 Y1].
  assert (Wb : 0 < bh b * basp b) by (apply Qmult_lt_0_compat; assumption).
  pose proof (half_pos _ Wb) as P1. pose proof (half_pos _ Hh) as P2.
  assert (DX : box_x0 b < box_x1 b) by (unfold box_x0, box_x1; clear - P1; set (u := bh b * basp b / 2) in *; lra).
  assert (DY : box_y0 b < box_y1 b) by (unfold box_y0, box_y1; clear - P2; lra).
  pose proof (rect_unrotated b U) as L. unfold in_rect.
  remember (rect_vertices Qops b) as R eqn:ER. unfold canon in L.
  inversion L as [|v0 q0 R1 Q1 P0' L1]; subst R. inversion L1 as [|v1 q1 R2 Q2 P1' L2]; subst.
  inversion L2 as [|v2 q2 R3 Q3 P2' L3]; subst. inversion L3 as [|v3 q3 R4 Q4 P3' L4]; subst.
  inversion L4; subst.
  match goal with HH : _ = rect_vertices Qops b |- _ => rewrite <- HH in *; clear HH end.
  set (x0 := box_x0 b) in *. set (x1 := box_x1 b) in *. set (y0 := box_y0 b) in *. set (y1 := box_y1 b) in *.
  cbn [edges edges_from last In]. intros e [<-|[<-|[<-|[<-|[]]]]]; cbn [fst snd].
  - rewrite (crossq_peq3 _ _ _ _ _ _ P3' P0' (peq_refl p)), (E_left x0 y0 y1). nra.
  - rewrite (crossq_peq3 _ _ _ _ _ _ P0' P1' (peq_refl p)), (E_top x0 x1 y1). nra.
  - rewrite (crossq_peq3 _ _ _ _ _ _ P1' P2' (peq_refl p)), (E_right x1 y0 y1). nra.
  - rewrite (crossq_peq3 _ _ _ _ _ _ P2' P3' (peq_refl p)), (E_bottom x0 x1 y0). nra.
Qed.

Lemma unrotated_unit b : unrotated b -> unit_dir b.
Proof. intros [C S]. unfold unit_dir. rewrite C, S. reflexivity. Qed.

Lemma to_ltwh_valid b : valid_box b -> valid_ltwh (to_ltwh Qops b).
Proof.
  intros [Ha Hh]. unfold valid_ltwh, to_ltwh. cbn [bw bhh]. rewrite qmul. split; [|assumption].
  apply Qmult_lt_0_compat; assumption.
Qed.

Lemma to_ltwh_area b : aa_area (to_ltwh Qops b) == box_area Qops b.
Proof. unfold aa_area, to_ltwh. cbn [bw bhh]. rewrite box_area_q, qmul. ring. Qed.

Lemma too_far_aa_zero (l r : qbox) : valid_box l -> valid_box r -> unrotated l -> unrotated r ->
  too_far Qops l r = true -> aa_inter Qops (to_ltwh Qops l) (to_ltwh Qops r) == 0.
Proof.
  intros Vl Vr Ul Ur T.
  apply (aa_inter_zero_iff_lemma _ _ (to_ltwh_valid l Vl) (to_ltwh_valid r Vr)).
  intros [x [y [(A1 & A2 & A3 & A4) (B1 & B2 & B3 & B4)]]].
  destruct (to_ltwh_q l) as (L1 & L2 & L3 & L4). destruct (to_ltwh_q r) as (R1 & R2 & R3 & R4).
  rewrite L1 in A1. rewrite L3 in A2. rewrite L2 in A3. rewrite L4 in A4.
  rewrite R1 in B1. rewrite R3 in B2. rewrite R2 in B3. rewrite R4 in B4.
  assert (F : too_far Qops l r = false).
  { apply (too_far_sound_lemma l r (x, y)); auto using unrotated_unit.
    - apply in_rect_unrotated; auto; cbn [px py fst snd]; split; apply Qlt_le_weak; assumption.
    - apply in_rect_unrotated; auto; cbn [px py fst snd]; split; apply Qlt_le_weak; assumption. }
  congruence.
Qed.

Lemma inter_area_unrotated (l r : qbox) : valid_box l -> valid_box r -> unrotated l -> unrotated r ->
  inter_area Qops l r == aa_inter Qops (to_ltwh Qops l) (to_ltwh Qops r).
Proof.
  intros Vl Vr Ul Ur. unfold inter_area. destruct (too_far Qops l r) eqn:T.
  - rewrite (too_far_aa_zero l r Vl Vr Ul Ur T). reflexivity.
  - now apply clip_axis_aligned_lemma.
Qed.

Lemma iou_unrotated_lemma (l r : qbox) : valid_box l -> valid_box r -> unrotated l -> unrotated r ->
  oeq (iou Qops l r)
      (iou_of Qops (aa_inter Qops (to_ltwh Qops l) (to_ltwh Qops r)) (box_area Qops l) (box_area Qops r)).
Proof.
  intros Vl Vr Ul Ur. unfold iou. apply iou_of_comp; [now apply inter_area_unrotated | reflexivity | reflexivity].
Qed.

Lemma oeq_sym x y : oeq x y -> oeq y x.
Proof. destruct x, y; cbn [oeq]; auto. intros H. now symmetry. Qed.

Lemma oeq_trans x y z : oeq x y -> oeq y z -> oeq x z.
Proof. destruct x, y, z; cbn [oeq]; auto; try contradiction. intros H1 H2. now rewrite H1. Qed.

Lemma iou_of_swap i a b : oeq (iou_of Qops i a b) (iou_of Qops i b a).
Proof.
  unfold iou_of. destruct (eqb Qops i (zero Qops)); cbn [oeq]; [exact I|]. qn.
  setoid_replace (a + b - i) with (b + a - i) by ring. reflexivity.
Qed.

Lemma iou_unrotated_sym_lemma (l r : qbox) : valid_box l -> valid_box r -> unrotated l -> unrotated r ->
  oeq (iou Qops l r) (iou Qops r l).
Proof.
  intros Vl Vr Ul Ur.
  eapply oeq_trans; [apply (iou_unrotated_lemma l r); assumption|].
  eapply oeq_trans; [|apply oeq_sym, (iou_unrotated_lemma r l); assumption].
  eapply oeq_trans; [apply iou_of_swap|].
  apply iou_of_comp; [apply aa_inter_sym_lemma | reflexivity | reflexivity].
Qed.

Lemma iou_of_range (i a b v : Q) : 0 <= i -> i <= a -> i <= b -> 0 < a -> 0 < b ->
  iou_of Qops i a b = Some v -> 0 < v <= 1.
Proof.
  intros I0 I1 I2 Pl Pr E. unfold iou_of in E.
  destruct (eqb Qops i (zero Qops)) eqn:Z; [discriminate|]. injection E as <-.
  assert (NZ : ~ i == 0).
  { intro Hz. assert (T : eqb Qops i (zero Qops) = true) by (apply eqb_iff; exact Hz). congruence. }
  assert (IP : 0 < i) by (destruct (Qle_lt_or_eq _ _ I0) as [|Heq]; [assumption | exfalso; apply NZ; now symmetry]).
  assert (EV : div Qops i (sub Qops (add Qops a b) i) == i / (a + b - i)) by (rewrite qdiv, qsub, qadd; reflexivity).
  rewrite EV. assert (D : 0 < a + b - i) by lra. split.
  - apply Qlt_shift_div_l; [exact D | lra].
  - apply Qle_shift_div_r; [exact D | lra].
Qed.

Lemma inter_area_unrotated_bounds (l r : qbox) : valid_box l -> valid_box r -> unrotated l -> unrotated r ->
  0 <= inter_area Qops l r /\ inter_area Qops l r <= box_area Qops l /\ inter_area Qops l r <= box_area Qops r.
Proof.
  intros Vl Vr Ul Ur.
  pose proof (inter_area_unrotated l r Vl Vr Ul Ur) as EI.
  destruct (aa_inter_range_lemma _ _ (to_ltwh_valid l Vl) (to_ltwh_valid r Vr)) as (I0 & I1 & I2).
  pose proof (to_ltwh_area l) as Al. pose proof (to_ltwh_area r) as Ar.
  revert EI I0 I1 I2 Al Ar.
  generalize (inter_area Qops l r), (box_area Qops l), (box_area Qops r),
             (aa_inter Qops (to_ltwh Qops l) (to_ltwh Qops r)), (aa_area (to_ltwh Qops l)), (aa_area (to_ltwh Qops r)).
  intros i a b x al ar EI I0 I1 I2 Al Ar. repeat split; lra.
Qed.

Lemma iou_unfold (l r : qbox) :
  iou Qops l r = iou_of Qops (inter_area Qops l r) (box_area Qops l) (box_area Qops r).
Proof. reflexivity. Qed.

Lemma iou_unrotated_range_lemma (l r : qbox) v : valid_box l -> valid_box r -> unrotated l -> unrotated r ->
  iou Qops l r = Some v -> 0 < v <= 1.
Proof.
  intros Vl Vr Ul Ur E. rewrite iou_unfold in E.
  destruct (inter_area_unrotated_bounds l r Vl Vr Ul Ur) as (I0 & I1 & I2).
  exact (iou_of_range (inter_area Qops l r) (box_area Qops l) (box_area Qops r) v I0 I1 I2
           (box_area_pos l Vl) (box_area_pos r Vr) E).
Qed.

Lemma iou_unrotated_none_iff_lemma (l r : qbox) : valid_box l -> valid_box r -> unrotated l -> unrotated r ->
  (iou Qops l r = None <-> ~ exists x y, in_open (to_ltwh Qops l) x y /\ in_open (to_ltwh Qops r) x y).
Proof.
  intros Vl Vr Ul Ur.
  rewrite <- (aa_inter_zero_iff_lemma _ _ (to_ltwh_valid l Vl) (to_ltwh_valid r Vr)).
  rewrite <- (inter_area_unrotated l r Vl Vr Ul Ur).
  unfold iou, iou_of. destruct (eqb Qops (inter_area Qops l r) (zero Qops)) eqn:Z.
  - apply eqb_iff in Z. split; [intros _; exact Z | reflexivity].
  - split; [discriminate|]. intros Hz.
    assert (T : eqb Qops (inter_area Qops l r) (zero Qops) = true) by (apply eqb_iff; exact Hz). congruence.
Qed.

(* ------------------------------------------------------------------------------------------ *)
(* The tie to the functions TRANSLATED from the Rust source (gen/ScalarClip.v, gen/ScalarBox.v).
   Swapped (the model calls the translated function; equalities by computation): is_inside, compute_intersection,
   rect_vertices, radius2, aa_inter.  Bridged (hand definition proved equal to the translated text): box_area,
   to_ltwh, of_ltwh, too_far (squared form, through BoxExtraProofs.too_far_sq_correct_lemma). *)
From Similari Require Import Proofs.BoxExtraProofs.

Lemma is_inside_is_translation_lemma (q p1 p2 : qpt) :
  is_inside Qops q p1 p2 = clip_is_inside Qops (to_coord Qops q) (to_coord Qops p1) (to_coord Qops p2).
Proof. reflexivity. Qed.

Lemma compute_intersection_is_translation_lemma (cp1 cp2 s e : qpt) :
  compute_intersection Qops cp1 cp2 s e =
  of_coord Qops (clip_compute_intersection Qops (to_coord Qops cp1) (to_coord Qops cp2) (to_coord Qops s) (to_coord Qops e)).
Proof. reflexivity. Qed.

Lemma rect_vertices_is_translation_lemma (b : qbox) :
  rect_vertices Qops b = map (of_coord Qops) (ubox_vertices Qops (to_ubox Qops b) (bc b) (bs b)).
Proof. reflexivity. Qed.

Lemma radius2_is_translation_lemma (b : qbox) : radius2 Qops b = ubox_radius_sq Qops (to_ubox Qops b).
Proof. reflexivity. Qed.

Lemma aa_inter_is_translation_lemma (l r : ltwh Qops) :
  aa_inter Qops l r = bbox_intersection Qops (to_bbox Qops l) (to_bbox Qops r).
Proof. reflexivity. Qed.

(* the union term of the IoU (height*height*aspect, written inline in calculate_metric_object) is Universal2DBox::area *)
Lemma box_area_is_translation_lemma (b : qbox) : box_area Qops b == ubox_area Qops (to_ubox Qops b).
Proof.
  rewrite box_area_q. unfold ubox_area, to_ubox. cbv zeta. cbn [Universal2DBox_aspect Universal2DBox_height]. qn. ring.
Qed.

(* TryFrom<&Universal2DBox> for BoundingBox / From<&BoundingBox> for Universal2DBox *)
Lemma to_ltwh_is_translation_lemma (b : qbox) :
  ubox_to_bbox Qops (to_ubox Qops b) = Some (to_bbox Qops (to_ltwh Qops b)).
Proof. reflexivity. Qed.

Lemma of_ltwh_is_translation_lemma (r : ltwh Qops) :
  bbox_to_ubox Qops (to_bbox Qops r) = to_ubox Qops (of_ltwh Qops r).
Proof. reflexivity. Qed.

(* too_far: the translated test takes the two radii (sqrt of the translated radius_sq) as parameters; for any
   non-negative radii with the right squares it is the model's sqrt-free decision *)
Lemma ubox_too_far_sq_iff (l r : qbox) :
  ubox_too_far_sq Qops (to_ubox Qops l) (to_ubox Qops r) = true <->
  0 < dist2q l r - radius2q l - radius2q r /\
  4 * radius2q l * radius2q r < (dist2q l r - radius2q l - radius2q r) * (dist2q l r - radius2q l - radius2q r).
Proof.
  unfold ubox_too_far_sq. cbv zeta.
  change (ubox_radius_sq Qops (to_ubox Qops l)) with (radius2 Qops l).
  change (ubox_radius_sq Qops (to_ubox Qops r)) with (radius2 Qops r).
  cbn [to_ubox Universal2DBox_xc Universal2DBox_yc].
  rewrite andb_true_iff, !qltb_iff. qn. rewrite !radius2_q. unfold dist2q. cbn [of_Q Qops]. reflexivity.
Qed.

Lemma too_far_is_translation_lemma (l r : qbox) (rl rr : Q) :
  0 <= rl -> 0 <= rr -> rl * rl == radius2 Qops l -> rr * rr == radius2 Qops r ->
  ubox_too_far_r Qops (to_ubox Qops l) (to_ubox Qops r) rl rr = too_far Qops l r.
Proof.
  intros Hl Hr El Er.
  rewrite (too_far_sq_correct_lemma (to_ubox Qops l) (to_ubox Qops r) rl rr Hl Hr El Er).
  apply QExtra.bool_eq_iff. rewrite ubox_too_far_sq_iff, too_far_iff. reflexivity.
Qed.

(* ------------------------------------------------------------------------------------------ *)
(* Boxes with the SAME orientation: turning both back by the common angle makes them unrotated, so the clipped area
   is the closed form of the turned-back boxes (the overlap of the projections on the common axes) and the IoU is
   exact, symmetric and in (0,1]. *)

(* the box x turned by the inverse of the rotation (c, s): centre rotated by (c, -s), direction (1, 0), same size *)
Definition unrot (c s : Q) (x : qbox) : qbox :=
  mkbox (num:=Qops) (c * bxc x + s * byc x) (- s * bxc x + c * byc x) 1 0 (basp x) (bh x).

Definition same_dir (l r : qbox) : Prop := bc r == bc l /\ bs r == bs l.

Lemma unrot_moved c s (x : qbox) : c * c + s * s == 1 -> bc x == c -> bs x == s -> moved c (- s) 0 0 x (unrot c s x).
Proof.
  intros U C S. unfold moved, unrot. cbn [bxc byc bc bs basp bh]. rewrite C, S.
  repeat split; try reflexivity; try ring.
  - rewrite <- U. ring.
Qed.

Lemma unrot_unrotated c s (x : qbox) : unrotated (unrot c s x).
Proof. split; reflexivity. Qed.

Lemma unrot_valid c s (x : qbox) : valid_box x -> valid_box (unrot c s x).
Proof. intros V. exact V. Qed.

Lemma clip_area_moved a b dx dy l l' r r' : a * a + b * b == 1 ->
  moved a b dx dy l l' -> moved a b dx dy r r' ->
  clip_area Qops (rect_vertices Qops l') (rect_vertices Qops r') == clip_area Qops (rect_vertices Qops l) (rect_vertices Qops r).
Proof.
  intros U Ml Mr. unfold clip_area.
  assert (K : 0 < a * a + b * b) by (rewrite U; reflexivity).
  rewrite (shoelace_sim a b dx dy K _ _
             (sh_clip_sim a b dx dy K _ _ _ _ (rect_vertices_moved _ _ _ _ _ _ Ml) (rect_vertices_moved _ _ _ _ _ _ Mr))).
  rewrite U. apply Qmult_1_l.
Qed.

Lemma inv_rot_unit c s : c * c + s * s == 1 -> c * c + - s * - s == 1.
Proof. intros U. rewrite <- U. ring. Qed.

Lemma clip_area_same_orientation_lemma (l r : qbox) :
  valid_box l -> valid_box r -> unit_dir l -> same_dir l r ->
  clip_area Qops (rect_vertices Qops l) (rect_vertices Qops r) ==
  aa_inter Qops (to_ltwh Qops (unrot (bc l) (bs l) l)) (to_ltwh Qops (unrot (bc l) (bs l) r)).
Proof.
  intros Vl Vr U [Sc Ss]. unfold unit_dir in U.
  pose proof (unrot_moved (bc l) (bs l) l U (Qeq_refl _) (Qeq_refl _)) as Ml.
  pose proof (unrot_moved (bc l) (bs l) r U Sc Ss) as Mr.
  rewrite <- (clip_area_moved _ _ _ _ _ _ _ _ (inv_rot_unit _ _ U) Ml Mr).
  apply clip_axis_aligned_lemma; auto using unrot_unrotated.
Qed.

Lemma box_area_unrot c s (x : qbox) : box_area Qops (unrot c s x) = box_area Qops x.
Proof. reflexivity. Qed.

Lemma iou_same_orientation_lemma (l r : qbox) :
  valid_box l -> valid_box r -> unit_dir l -> same_dir l r ->
  oeq (iou Qops l r)
      (iou_of Qops (aa_inter Qops (to_ltwh Qops (unrot (bc l) (bs l) l)) (to_ltwh Qops (unrot (bc l) (bs l) r)))
              (box_area Qops l) (box_area Qops r)).
Proof.
  intros Vl Vr U [Sc Ss]. unfold unit_dir in U.
  pose proof (unrot_moved (bc l) (bs l) l U (Qeq_refl _) (Qeq_refl _)) as Ml.
  pose proof (unrot_moved (bc l) (bs l) r U Sc Ss) as Mr.
  eapply oeq_trans; [apply oeq_sym, (iou_rigid_motion_lemma _ _ _ _ _ _ _ _ (inv_rot_unit _ _ U) Ml Mr)|].
  apply (iou_unrotated_lemma (unrot (bc l) (bs l) l) (unrot (bc l) (bs l) r)); auto using unrot_unrotated.
Qed.

Lemma same_dir_sym (l r : qbox) : same_dir l r -> same_dir r l.
Proof. intros [A B]. split; symmetry; assumption. Qed.

Lemma same_dir_unit (l r : qbox) : unit_dir l -> same_dir l r -> unit_dir r.
Proof. intros U [A B]. unfold unit_dir in *. rewrite A, B. exact U. Qed.

Lemma iou_same_orientation_sym_lemma (l r : qbox) :
  valid_box l -> valid_box r -> unit_dir l -> same_dir l r -> oeq (iou Qops l r) (iou Qops r l).
Proof.
  intros Vl Vr U [Sc Ss]. unfold unit_dir in U.
  pose proof (unrot_moved (bc l) (bs l) l U (Qeq_refl _) (Qeq_refl _)) as Ml.
  pose proof (unrot_moved (bc l) (bs l) r U Sc Ss) as Mr.
  pose proof (inv_rot_unit _ _ U) as U'.
  eapply oeq_trans; [apply oeq_sym, (iou_rigid_motion_lemma _ _ _ _ _ _ _ _ U' Ml Mr)|].
  eapply oeq_trans; [|apply (iou_rigid_motion_lemma _ _ _ _ _ _ _ _ U' Mr Ml)].
  apply iou_unrotated_sym_lemma; auto using unrot_unrotated.
Qed.

Lemma iou_same_orientation_range_lemma (l r : qbox) v :
  valid_box l -> valid_box r -> unit_dir l -> same_dir l r -> iou Qops l r = Some v -> 0 < v <= 1.
Proof.
  intros Vl Vr U [Sc Ss] E. unfold unit_dir in U.
  pose proof (unrot_moved (bc l) (bs l) l U (Qeq_refl _) (Qeq_refl _)) as Ml.
  pose proof (unrot_moved (bc l) (bs l) r U Sc Ss) as Mr.
  pose proof (iou_rigid_motion_lemma _ _ _ _ _ _ _ _ (inv_rot_unit _ _ U) Ml Mr) as O.
  pose proof (fun w => iou_unrotated_range_lemma (unrot (bc l) (bs l) l) (unrot (bc l) (bs l) r) w
                         Vl Vr (unrot_unrotated _ _ _) (unrot_unrotated _ _ _)) as RG.
  revert O RG. generalize (iou Qops (unrot (bc l) (bs l) l) (unrot (bc l) (bs l) r)). intros o2.
  revert E. generalize (iou Qops l r). intros o1 E O RG. subst o1.
  destruct o2 as [w|]; cbn [oeq] in O; [|contradiction]. rewrite <- O. apply RG. reflexivity.
Qed.
