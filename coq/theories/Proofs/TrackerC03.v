(* C03 - track lifecycle: lemmas (conservation, one place, delivery, expiry, idle, statistics).
   gc_unobservable is in TrackerGc.v. *)
From Coq Require Import List NArith ZArith QArith Bool Lia Permutation.
From Similari Require Import Base.Num Model.Constraints Model.Tracker
     Proofs.TrackerBase Proofs.TrackerPredict Proofs.TrackerInv Proofs.TrackerC01.
Import ListNotations.
Open Scope N_scope.

Definition wasted_outputs (outs : list tout) : list trk :=
  flat_map (fun o => match o with OWasted l => l | _ => [] end) outs.

Fixpoint Nsum (l : list N) : N := match l with [] => 0 | x :: r => x + Nsum r end.

Lemma Nsum_map_add {A} (f g : A -> N) l : Nsum (map (fun x => f x + g x) l) = Nsum (map f l) + Nsum (map g l).
Proof. induction l as [|x r IH]; cbn [map Nsum]; [reflexivity|]. rewrite IH. lia. Qed.

Lemma Nsum_map_zero {A} (l : list A) : Nsum (map (fun _ => 0) l) = 0.
Proof. induction l as [|x r IH]; cbn [map Nsum]; [reflexivity|]. rewrite IH. reflexivity. Qed.

Lemma Nsum_app l1 l2 : Nsum (l1 ++ l2) = Nsum l1 + Nsum l2.
Proof. induction l1 as [|x r IH]; cbn [app Nsum]; [reflexivity|]. rewrite IH. lia. Qed.

Lemma Nsum_indicator (x n : nat) :
  Nsum (map (fun k => if Nat.eqb x k then 1 else 0) (seq 0 n)) = if Nat.ltb x n then 1 else 0.
Proof.
  induction n as [|n IH].
  - reflexivity.
  - rewrite seq_S, map_app, Nsum_app, IH. cbn [map Nsum plus].
    destruct (Nat.ltb_spec x n), (Nat.eqb_spec x n), (Nat.ltb_spec x (S n)); lia.
Qed.

Section C03.
  Variable G : N -> list N -> option Z.
  Variable D2R : N -> list N -> Q.
  Variable solve : solver.
  Variable c : cfg.

  Notation predict_core := (predict_core G D2R solve c).
  Notation tstep := (tstep G D2R solve c).
  Notation reach := (reach G D2R solve c).
  Notation trun := (trun G D2R solve c).

  (* --- conservation / one place ---------------------------------------------------------------- *)

  Lemma conservation_lemma st :
    reach st ->
    Permutation (g_submitted st) (concat (map g_dets (all_tracks st)))
    /\ NoDup (concat (map g_dets (all_tracks st)))
    /\ Forall (fun t => t_len t = N.of_nat (length (g_dets t))) (all_tracks st).
  Proof.
    intro Hr. destruct (reach_Inv _ _ _ _ _ Hr) as [_ H2 H3 _ H5]. split; [exact H2|]. split.
    - eapply Permutation_NoDup; eassumption.
    - eapply Forall_impl; [|exact H3]. intros t [H _]; exact H.
  Qed.

  Lemma one_place_lemma st :
    reach st ->
    Permutation (map t_id (live st) ++ map t_id (wasted st) ++ map t_id (g_delivered st) ++ map t_id (g_cleared st))
                (issued (next_id st)).
  Proof.
    intro Hr. destruct (reach_Inv _ _ _ _ _ Hr) as [H1 _ _ _ _]. unfold all_tracks in H1. rewrite !map_app in H1. exact H1.
  Qed.

  Lemma one_place_nodup st :
    reach st ->
    NoDup (map t_id (live st) ++ map t_id (wasted st) ++ map t_id (g_delivered st) ++ map t_id (g_cleared st)).
  Proof.
    intro Hr. eapply Permutation_NoDup; [apply Permutation_sym, one_place_lemma; exact Hr|apply issued_NoDup].
  Qed.

  (* --- delivery ---------------------------------------------------------------------------------- *)

  Lemma g_delivered_prologue st : g_delivered (prologue c st) = g_delivered st.
  Proof. rewrite prologue_eq. destruct (aw_cnt st =? 0); reflexivity. Qed.

  Lemma g_delivered_tstep st op :
    g_delivered (snd (tstep st op)) = g_delivered st ++ match fst (tstep st op) with OWasted l => l | _ => [] end.
  Proof.
    destruct op as [scene dets|scene n| |scene| |p| | |scene]; cbn [Tracker.tstep];
      try (cbn [fst snd]; rewrite app_nil_r; reflexivity).
    - destruct (predict_core (prologue c st) scene dets) as [recs st'] eqn:E. cbn [fst snd]. rewrite app_nil_r.
      change st' with (snd (recs, st')). rewrite <- E. rewrite predict_core_unfold. cbn [snd].
      destruct (apply_all_frame c scene (pc_epoch (prologue c st) scene)
                  (combine dets (winners G D2R solve c (pc_epoch (prologue c st) scene) (pc_rel c (prologue c st) scene) dets))
                  (pc_st1 (prologue c st) scene)) as [_ [_ [_ [_ [A5 _]]]]].
      cbn zeta in A5. rewrite A5. cbn [g_delivered pc_st1 set_epochs]. apply g_delivered_prologue.
    - cbn [fst snd]. reflexivity.
  Qed.

  Lemma delivered_once_lemma ops :
    NoDup (ops_uids ops) ->
    g_delivered (snd (trun ops)) = wasted_outputs (fst (trun ops))
    /\ NoDup (map t_id (wasted_outputs (fst (trun ops)))).
  Proof.
    intro Hnd. assert (E : g_delivered (snd (trun ops)) = wasted_outputs (fst (trun ops))).
    { clear Hnd. unfold Tracker.trun. induction ops as [|op ops IH] using rev_ind; [reflexivity|].
      rewrite trun_from_snoc. cbn [fst snd]. rewrite g_delivered_tstep, IH.
      unfold wasted_outputs. rewrite flat_map_app. cbn [flat_map]. rewrite app_nil_r. reflexivity. }
    split; [exact E|]. rewrite <- E.
    pose proof (one_place_nodup _ (trun_reach G D2R solve c ops Hnd)) as H.
    apply NoDup_app_r in H. apply NoDup_app_r in H. apply NoDup_app_l in H. exact H.
  Qed.

  (* --- epochs and expiry -------------------------------------------------------------------------- *)

  Lemma epochs_auto_waste st : epochs (auto_waste c st) = epochs st.
  Proof. reflexivity. Qed.

  Lemma epoch_step_lemma st op s :
    epoch_of (epochs (snd (tstep st op))) s =
    match op with
    | Predict sc _ => if sc =? s then epoch_of (epochs st) s + 1 else epoch_of (epochs st) s
    | Skip sc n => if sc =? s then epoch_of (epochs st) s + n else epoch_of (epochs st) s
    | _ => epoch_of (epochs st) s
    end.
  Proof.
    destruct op as [scene dets|scene n| |scene| |p| | |scene]; cbn [Tracker.tstep]; try reflexivity.
    - destruct (predict_core (prologue c st) scene dets) as [recs st'] eqn:E. cbn [snd].
      assert (H : Tracker.tstep G D2R solve c st (Predict scene dets) = (ORecords recs, st')).
      { cbn [Tracker.tstep]. rewrite E. reflexivity. }
      rewrite (predict_epoch G D2R solve c _ _ _ _ _ H s). destruct (scene =? s) eqn:E1; [|reflexivity].
      apply N.eqb_eq in E1. subst. reflexivity.
    - cbn [snd]. rewrite epochs_auto_waste. cbn [epochs set_epochs]. rewrite epoch_of_set.
      destruct (scene =? s) eqn:E1; [|reflexivity]. apply N.eqb_eq in E1. subst. reflexivity.
  Qed.

  Lemma wasted_exact_lemma st l st' :
    reach st -> tstep st Wasted = (OWasted l, st') ->
    (forall t, In t l <-> In t (live st ++ wasted st) /\ expired c (epochs st) t = true)
    /\ live st' = filter (fun t => negb (expired c (epochs st) t)) (live st)
    /\ wasted st' = [].
  Proof.
    intros Hr H. cbn [Tracker.tstep] in H. inversion H; subst; clear H.
    pose proof (Inv_auto_waste _ _ (reach_Inv _ _ _ _ _ Hr)) as HI. destruct HI as [_ _ _ H4 _].
    rewrite Forall_forall in H4. rewrite epochs_auto_waste in *.
    set (W := ins_all (filter (expired c (epochs st)) (live st)) (wasted st)) in *.
    assert (H4' : forall x, In x W -> expired c (epochs st) x = true) by exact H4.
    rewrite (filter_all_true _ W H4').
    split; [|split].
    - intro t. unfold W. rewrite In_ins_all, filter_In, in_app_iff. split.
      + intros [[H1 H2]|H1]; [auto|]. split; [auto|]. apply H4'. unfold W. apply In_ins_all. right; exact H1.
      + intros [[H1|H1] H2]; auto.
    - reflexivity.
    - cbn [wasted set_delivered set_wasted]. apply filter_all_false. intros t Ht. rewrite (H4' t Ht). reflexivity.
  Qed.

  Section Sound.
    Hypothesis Hsound : solver_sound solve.

    Lemma expired_not_relevant e scene t :
      expired c (set_epoch e scene (epoch_of e scene + 1)) t = true ->
      relevant c scene (epoch_of e scene + 1) t = false.
    Proof.
      rewrite expired_ltb. unfold relevant. intro H. apply N.ltb_lt in H. rewrite epoch_of_set in H.
      destruct (t_scene t =? scene) eqn:E; cbn [andb]; [|reflexivity].
      rewrite N.eqb_sym in E. rewrite E in H. apply N.leb_gt. unfold absdiff.
      destruct (epoch_of e scene + 1 <=? t_last t) eqn:E2; [apply N.leb_le in E2; lia|]. lia.
    Qed.

    Lemma expired_never_continued_lemma st scene dets recs st' :
      reach st -> tstep st (Predict scene dets) = (ORecords recs, st') ->
      forall t, In t (live st ++ wasted st) -> expired c (epochs st') t = true ->
        In t (live st' ++ wasted st') /\ ~ In (t_id t) (map r_id recs).
    Proof.
      intros Hr H t Hin Hex.
      pose proof (Inv_prologue _ _ (reach_Inv _ _ _ _ _ Hr)) as HI. set (p := prologue c st) in *.
      assert (Hinp : In t (live p ++ wasted p)).
      { unfold p. rewrite prologue_eq. destruct (aw_cnt st =? 0); cbn [live wasted set_aw]; [|exact Hin].
        unfold auto_waste. cbn [live wasted set_wasted set_live]. apply in_or_app. rewrite In_ins_all, !filter_In.
        apply in_app_or in Hin. destruct Hin as [Hin|Hin]; [|auto].
        destruct (expired c (epochs st) t) eqn:E; [right; left; auto|left; auto]. }
      pose proof (predict_spec G D2R solve c Hsound _ _ _ _ _ Hr H) as HF. fold p in HF.
      destruct (tstep_predict G D2R solve c _ _ _ _ _ H) as [_ Est]. fold p in Est.
      rewrite predict_core_unfold in Est. cbn [snd] in Est.
      set (epoch := pc_epoch p scene) in *. set (rel := pc_rel c p scene) in *.
      set (ws := winners G D2R solve c epoch rel dets) in *.
      destruct (apply_all_frame c scene epoch (combine dets ws) (pc_st1 p scene)) as [A1 [A2 _]].
      cbn zeta in A1, A2. rewrite <- Est in A1, A2. cbn [epochs wasted pc_st1 set_epochs] in A1, A2.
      assert (Hnr : relevant c scene epoch t = false).
      { unfold epoch, pc_epoch. apply expired_not_relevant. rewrite A1 in Hex. exact Hex. }
      assert (Hnr' : relevant c scene (epoch_of (epochs st) scene + 1) t = false).
      { rewrite <- Hnr. unfold epoch, pc_epoch, p. rewrite epochs_prologue. reflexivity. }
      pose proof (Inv_NoDup_ids _ _ HI) as Hnd. pose proof (Inv_NoDup_live _ _ HI) as Hndl.
      assert (Hrec : ~ In (t_id t) (map r_id recs)).
      { intro Hi. apply in_map_iff in Hi. destruct Hi as [r [Er Hrin]].
        destruct (Forall2_In_r _ _ _ _ HF Hrin) as [d [_ [t' [Ht' [Er' Hc]]]]]. subst r. cbn [rec_of r_id] in Er.
        destruct Hc as [[t0 [wt [Hin0 [Hrel [_ E]]]]]|[Hb E]].
        - subst t'. cbn [absorb t_id] in Er.
          assert (t0 = t).
          { apply (NoDup_id_eq (all_tracks p)); try assumption.
            - unfold all_tracks. apply in_or_app; left; exact Hin0.
            - unfold all_tracks. rewrite app_assoc. apply in_or_app; left; exact Hinp. }
          subst t0. congruence.
        - assert (Hb' : 1 <= t_id t <= next_id p).
          { apply (Inv_id_bound _ _ _ HI). unfold all_tracks. rewrite app_assoc. apply in_or_app; left; exact Hinp. }
          lia. }
      split; [|exact Hrec]. apply in_or_app. apply in_app_or in Hinp. destruct Hinp as [Hl|Hw].
      - left. rewrite Est. apply apply_all_keeps; [exact Hl|].
        assert (Hlen : length dets = length ws) by (symmetry; apply winners_length; exact Hsound).
        rewrite map_snd_combine by exact Hlen. intro Hi. apply winners_in_rel in Hi. destruct Hi as [t' [Ht' E]].
        unfold rel, pc_rel in Ht'. apply filter_In in Ht'. destruct Ht' as [Hl' Hr'].
        assert (t' = t) by (apply (NoDup_id_eq (live p)); assumption). subst t'. unfold epoch in Hnr. congruence.
      - right. rewrite A2. exact Hw.
    Qed.
  End Sound.

  (* --- idle ------------------------------------------------------------------------------------------ *)

  Lemma idle_spec_lemma st s :
    tstep st (Idle s) =
    (OIdle (map rec_of (filter (fun t => (t_scene t =? s) && negb (expired c (epochs st) t)
                                         && negb (t_last t =? epoch_of (epochs st) s)) (live st))), st).
  Proof.
    cbn [Tracker.tstep]. f_equal. f_equal. f_equal. rewrite filter_filter_and. apply filter_ext. intro t.
    unfold idle_lookup. destruct (t_scene t =? s) eqn:E; cbn [andb]; [|reflexivity].
    apply N.eqb_eq in E. rewrite E. destruct (expired c (epochs st) t); cbn [negb andb];
      destruct (t_last t =? epoch_of (epochs st) s); reflexivity.
  Qed.

  (* --- statistics ------------------------------------------------------------------------------------ *)

  Lemma shard_counts_sum l : 0 < shards c -> Nsum (shard_counts c l) = N.of_nat (length l).
  Proof.
    intro Hs. unfold shard_counts. induction l as [|t r IH].
    - cbn [filter length]. rewrite Nsum_map_zero. reflexivity.
    - transitivity (Nsum (map (fun k => (if Nat.eqb (N.to_nat (t_id t mod shards c)) k then 1 else 0)
                                        + N.of_nat (length (filter (fun t0 => t_id t0 mod shards c =? N.of_nat k) r)))
                              (seq 0 (N.to_nat (shards c))))).
      + f_equal. apply map_ext. intro k. cbn [filter].
        destruct (t_id t mod shards c =? N.of_nat k) eqn:E.
        * apply N.eqb_eq in E. replace (Nat.eqb (N.to_nat (t_id t mod shards c)) k) with true
            by (symmetry; apply Nat.eqb_eq; lia). cbn [length]. lia.
        * apply N.eqb_neq in E. replace (Nat.eqb (N.to_nat (t_id t mod shards c)) k) with false
            by (symmetry; apply Nat.eqb_neq; lia). lia.
      + rewrite Nsum_map_add, IH, Nsum_indicator.
        replace (Nat.ltb (N.to_nat (t_id t mod shards c)) (N.to_nat (shards c))) with true.
        * cbn [length]. lia.
        * symmetry. apply Nat.ltb_lt. pose proof (N.mod_lt (t_id t) (shards c)). lia.
  Qed.

  Lemma stats_account_lemma st :
    reach st -> 0 < shards c ->
    (exists l, tstep st ActiveStats = (OStats l, st) /\ Nsum l = N.of_nat (length (live st)))
    /\ (exists l, tstep st WastedStats = (OStats l, st) /\ Nsum l = N.of_nat (length (wasted st)))
    /\ N.of_nat (length (live st)) + N.of_nat (length (wasted st))
       + N.of_nat (length (g_delivered st)) + N.of_nat (length (g_cleared st)) = next_id st.
  Proof.
    intros Hr Hs. split; [|split].
    - eexists. split; [reflexivity|apply shard_counts_sum; exact Hs].
    - eexists. split; [reflexivity|apply shard_counts_sum; exact Hs].
    - pose proof (one_place_lemma _ Hr) as H. apply Permutation_length in H.
      rewrite !app_length, !map_length, issued_length in H. lia.
  Qed.
End C03.
