(* C05 for Hungarian (SORT) voting: the Section hypothesis [winners_perm_invariant] of Section Predict /
   Props/C05.v is discharged with the voting development's theorem
   (Proofs/AssignPerm.v: hung_winners_perm_invariant_lemma = Props/C17.v hungarian_winners_perm_invariant).

   Adapter: a distance result (from, to, metric value) is read as the integer triple SortVoting works on,
   [weight_of] being the implementation's (attribute_metric.unwrap_or(0.0) * 1_000_000.0) as i64. *)
From Coq Require Import List NArith ZArith Bool Arith Permutation.
From Similari Require Import Model.DistProto Proofs.DistProtoProofs Model.Assign Proofs.AssignProofs Proofs.AssignPerm.
Import ListNotations.

Section C05Sort.
  Variable track : Type.
  Variable OBS : Type.
  Variable MV : Type.
  Variable tid : track -> N.
  Variable compatible : track -> track -> bool.
  Variable baked : track -> status.
  Variable observations : track -> N -> option (list OBS).
  Variable metric : N -> track -> OBS -> track -> OBS -> option MV.
  Variable postprocess : track -> list (res MV) -> list (res MV).
  Variable cls : N.
  Variable ob : bool.
  Variable TS : Type.
  Variable IN : Type.
  Variable OUT : Type.
  Variable store_of : TS -> list track.
  Variable cands_of : TS -> IN -> TS * list track.
  Variable commit : TS -> list track -> option (list (N * N)) -> TS * OUT.

  Variable weight_of : MV -> Z.             (* metric value -> weight * 1e6 *)
  Variable km : matrix -> list nat.         (* the Kuhn-Munkres oracle *)
  Variable thr : Z.                         (* threshold * 1e6 *)

  Definition to_pair (r : res MV) : pair3 := (fst (fst r), snd (fst r), weight_of (snd r)).

  (* SortVoting::winners on the delivered stream, answer in canonical form *)
  Definition sort_winners_of (s : list (res MV)) : option (list (N * N)) := hung_winners km thr (map to_pair s).

  (* no exact ties: positive ids, candidate ids distinct from track ids, one metric per (candidate, track),
     unique optimal gated assignment *)
  Definition sort_tie_free (s : list (res MV)) : Prop := hung_tie_free thr (map to_pair s).

  Lemma sort_winners_perm_invariant :
    (0 < thr)%Z -> km_ok km ->
    forall s1 s2, Permutation s1 s2 -> sort_tie_free s1 -> sort_winners_of s1 = sort_winners_of s2.
  Proof.
    intros Hthr Hkm s1 s2 Hp Htf. unfold sort_winners_of.
    exact (hung_winners_perm_invariant_lemma km thr Hthr Hkm (map to_pair s1) (map to_pair s2)
             (Permutation_map to_pair Hp) Htf).
  Qed.

  Notation PREDICT := (predict_rel track OBS MV tid compatible baked observations metric postprocess cls ob
                                   TS IN OUT (option (list (N * N))) store_of cands_of sort_winners_of commit).
  Notation HISTORY := (history_rel track OBS MV tid compatible baked observations metric postprocess cls ob
                                   TS IN OUT (option (list (N * N))) store_of cands_of sort_winners_of commit).
  Notation TFCALL := (tie_free_call track OBS MV tid compatible baked observations metric postprocess cls ob
                                    TS IN store_of cands_of sort_tie_free).
  Notation TFHIST := (tie_free_history track OBS MV tid compatible baked observations metric postprocess cls ob
                                       TS IN OUT (option (list (N * N))) store_of cands_of sort_winners_of commit sort_tie_free).

  Lemma predict_independent_sort_lemma n1 n2 ts inp t1 o1 t2 o2 :
    (0 < thr)%Z -> km_ok km -> 0 < n1 -> 0 < n2 -> TFCALL ts inp ->
    PREDICT n1 ts inp t1 o1 -> PREDICT n2 ts inp t2 o2 -> t1 = t2 /\ o1 = o2.
  Proof.
    intros Hthr Hkm. 
    exact (predict_independent_lemma track OBS MV tid compatible baked observations metric postprocess cls ob
             TS IN OUT (option (list (N * N))) store_of cands_of sort_winners_of commit sort_tie_free
             (sort_winners_perm_invariant Hthr Hkm) n1 n2 ts inp t1 o1 t2 o2).
  Qed.

  Lemma history_independent_sort_lemma n1 n2 ins ts t1 os1 t2 os2 :
    (0 < thr)%Z -> km_ok km -> 0 < n1 -> 0 < n2 -> TFHIST n1 ts ins ->
    HISTORY n1 ts ins t1 os1 -> HISTORY n2 ts ins t2 os2 -> t1 = t2 /\ os1 = os2.
  Proof.
    intros Hthr Hkm.
    exact (history_independent_lemma track OBS MV tid compatible baked observations metric postprocess cls ob
             TS IN OUT (option (list (N * N))) store_of cands_of sort_winners_of commit sort_tie_free
             (sort_winners_perm_invariant Hthr Hkm) n1 n2 ins ts t1 os1 t2 os2).
  Qed.
End C05Sort.
