(* C20: the distance handed to the constraint table, as translated from Universal2DBox::dist_in_2r
   (gen/ScalarBox.v: ubox_dist_in_2r_sq_r - the squared value, with the two bounding radii as inputs
   because get_radius takes a square root). *)
From Coq Require Import QArith Lia Lqa.
From Similari Require Import Base.Num.
From SimilariGen Require Import Consts Scalar ScalarBox.

Local Open Scope Q_scope.

Definition cx (b : Universal2DBox Qops) : Q := Universal2DBox_xc Qops b.
Definition cy (b : Universal2DBox Qops) : Q := Universal2DBox_yc Qops b.

Lemma Qsq_nonneg (x : Q) : 0 <= x * x.
Proof.
  destruct (Qlt_le_dec x 0) as [Hn|Hp].
  - setoid_replace (x * x) with ((- x) * (- x)) by ring. apply Qmult_le_0_compat; lra.
  - apply Qmult_le_0_compat; lra.
Qed.

Lemma Qsq_zero (x : Q) : x * x == 0 -> x == 0.
Proof.
  intros H. destruct (Qeq_dec x 0) as [E|E]; [exact E|].
  exfalso. apply E. apply Qmult_integral in H. destruct H; assumption.
Qed.

(* the squared centre distance divided by the squared sum of the radii (plus EPS) *)
Lemma dist_in_2r_sq_formula l r (rl rr : Q) :
  ubox_dist_in_2r_sq_r Qops l r rl rr ==
  ((cx l - cx r) * (cx l - cx r) + (cy l - cy r) * (cy l - cy r)) / ((rl + rr) * (rl + rr) + EPS).
Proof.
  unfold ubox_dist_in_2r_sq_r, cx, cy. cbn [Qops add sub mul div of_Q T].
  rewrite !Qred_correct. reflexivity.
Qed.

Lemma dist_in_2r_sq_sym l r (rl rr : Q) :
  ubox_dist_in_2r_sq_r Qops l r rl rr == ubox_dist_in_2r_sq_r Qops r l rr rl.
Proof.
  rewrite !dist_in_2r_sq_formula.
  setoid_replace ((rr + rl) * (rr + rl) + EPS) with ((rl + rr) * (rl + rr) + EPS) by ring.
  apply Qmult_comp; [ring | reflexivity].
Qed.

Lemma dist_in_2r_sq_nonneg l r (rl rr : Q) :
  0 <= rl -> 0 <= rr -> 0 <= ubox_dist_in_2r_sq_r Qops l r rl rr.
Proof.
  intros Hl Hr. rewrite dist_in_2r_sq_formula.
  assert (Hd : 0 < (rl + rr) * (rl + rr) + EPS).
  { assert (0 <= (rl + rr) * (rl + rr)) by (apply Qmult_le_0_compat; lra).
    assert (0 < EPS) by reflexivity. lra. }
  apply Qle_shift_div_l; [exact Hd|].
  pose proof (Qsq_nonneg (cx l - cx r)). pose proof (Qsq_nonneg (cy l - cy r)). lra.
Qed.

(* monotone in the radii: bigger boxes are "closer" in these units *)
Lemma dist_in_2r_sq_zero_iff_same_centre l r (rl rr : Q) :
  0 <= rl -> 0 <= rr ->
  (ubox_dist_in_2r_sq_r Qops l r rl rr == 0 <-> (cx l == cx r /\ cy l == cy r)).
Proof.
  intros Hl Hr. rewrite dist_in_2r_sq_formula.
  assert (Hd : 0 < (rl + rr) * (rl + rr) + EPS).
  { assert (0 <= (rl + rr) * (rl + rr)) by (apply Qmult_le_0_compat; lra).
    assert (0 < EPS) by reflexivity. lra. }
  split.
  - intros H.
    assert (Hn : (cx l - cx r) * (cx l - cx r) + (cy l - cy r) * (cy l - cy r) == 0).
    { apply (Qmult_inj_r _ _ (/ ((rl + rr) * (rl + rr) + EPS))).
      - intro Hz. apply (Qinv_lt_0_compat) in Hd. lra.
      - unfold Qdiv in H. rewrite H. ring. }
    pose proof (Qsq_nonneg (cx l - cx r)) as H1. pose proof (Qsq_nonneg (cy l - cy r)) as H2.
    assert (Hx : (cx l - cx r) * (cx l - cx r) == 0) by lra.
    assert (Hy : (cy l - cy r) * (cy l - cy r) == 0) by lra.
    apply Qsq_zero in Hx. apply Qsq_zero in Hy. split; lra.
  - intros [Hx Hy]. rewrite Hx, Hy. unfold Qdiv. ring.
Qed.
