(* C20: the distance handed to the constraint table, as translated from Universal2DBox::dist_in_2r
   (gen/ScalarBox.v: ubox_dist_in_2r_sq_r - the squared value, with the two bounding radii as inputs
   because get_radius takes a square root). *)
From Coq Require Import QArith Lia Lra.
From Similari Require Import Base.Num.
From SimilariGen Require Import Consts Scalar ScalarBox.

Local Open Scope Q_scope.

Definition cx (b : Universal2DBox Qops) : Q := Universal2DBox_xc Qops b.
Definition cy (b : Universal2DBox Qops) : Q := Universal2DBox_yc Qops b.

(* the squared centre distance divided by the squared sum of the radii (plus EPS) *)
Lemma dist_in_2r_sq_formula l r (rl rr : Q) :
  ubox_dist_in_2r_sq_r Qops l r rl rr ==
  ((cx l - cx r) * (cx l - cx r) + (cy l - cy r) * (cy l - cy r)) / ((rl + rr) * (rl + rr) + EPS).
Proof.
  unfold ubox_dist_in_2r_sq_r, cx, cy. cbn [Qops add sub mul div of_Q T].
  rewrite !Qred_correct. reflexivity.
Qed.

Lemma dist_in_2r_sq_sym l r (rl rr : Q) :
  ubox_dist_in_2r_sq_r Qops l r rl rr == ubox_dist_in_2r_sq_r Qops r l rr rl.
Proof.
  rewrite !dist_in_2r_sq_formula.
  setoid_replace ((rr + rl) * (rr + rl) + EPS) with ((rl + rr) * (rl + rr) + EPS) by ring.
  apply Qmult_comp; [ring | reflexivity].
Qed.

Lemma dist_in_2r_sq_nonneg l r (rl rr : Q) :
  0 <= rl -> 0 <= rr -> 0 <= ubox_dist_in_2r_sq_r Qops l r rl rr.
Proof.
  intros Hl Hr. rewrite dist_in_2r_sq_formula.
  assert (Hd : 0 < (rl + rr) * (rl + rr) + EPS).
  { assert (0 <= (rl + rr) * (rl + rr)) by (apply Qmult_le_0_compat; lra).
    assert (0 < EPS) by reflexivity. lra. }
  apply Qle_shift_div_l; [exact Hd|].
  assert (0 <= (cx l - cx r) * (cx l - cx r)) by (apply Qsqr_nonneg_aux || nra).
  assert (0 <= (cy l - cy r) * (cy l - cy r)) by nra.
  lra.
Qed.

(* monotone in the radii: bigger boxes are "closer" in these units *)
Lemma dist_in_2r_sq_zero_iff_same_centre l r (rl rr : Q) :
  0 <= rl -> 0 <= rr ->
  (ubox_dist_in_2r_sq_r Qops l r rl rr == 0 <-> (cx l == cx r /\ cy l == cy r)).
Proof.
  intros Hl Hr. rewrite dist_in_2r_sq_formula.
  assert (Hd : 0 < (rl + rr) * (rl + rr) + EPS).
  { assert (0 <= (rl + rr) * (rl + rr)) by (apply Qmult_le_0_compat; lra).
    assert (0 < EPS) by reflexivity. lra. }
  split.
  - intros H.
    assert (Hn : (cx l - cx r) * (cx l - cx r) + (cy l - cy r) * (cy l - cy r) == 0).
    { apply (Qmult_inj_r _ _ (/ ((rl + rr) * (rl + rr) + EPS))).
      - intro Hz. apply (Qinv_lt_0_compat) in Hd. lra.
      - unfold Qdiv in H. rewrite H. ring. }
    split; nra.
  - intros [Hx Hy]. rewrite Hx, Hy. unfold Qdiv. ring.
Qed.
