(* Lemmas about the TRANSLATED decision structure of SortMetric::metric (gen/ScalarGate.v: sort_metric) and of the expiry
   comparison of EpochDb::baked (baked_wasted_cmp), over exact rationals. Used by Props/C02.v (gate part) and C03.

   sort_metric num min_confidence method candidate track far dist iou
     far  = Universal2DBox::too_far(candidate, track)          (decided elsewhere: BoxProofs.too_far_sq_correct_lemma)
     dist = the Kalman filter's Mahalanobis distance             (C07)
     iou  = Universal2DBox::calculate_metric_object(cand, track) (C08)
   result: None (pair dropped by the pre-filter) | Some (weight option, None).
   Proofs go by case analysis on the comparisons that occur in the translated text (no syntactic matching of the body). *)
From Coq Require Import ZArith NArith QArith Bool List Lqa.
From Similari Require Import Base.Num Proofs.CostProofs.
From SimilariGen Require Import Consts Scalar ScalarBox ScalarCost ScalarGate.
Import ListNotations.
Open Scope Q_scope.

Import CostProofs.QTk.

(* case analysis on every comparison under an [if] of hypothesis H; the outcomes become hypotheses in Prop *)
Ltac cases_if_in H := repeat match type of H with
  | context [if ?c then _ else _] =>
      let E := fresh "E" in destruct c eqn:E;
      [ first [apply Qltb_iff in E | apply Qle_bool_iff in E | idtac] | first [apply Qltb_false_iff in E | apply Qleb_false_iff in E | idtac] ]
  end.
(* name every [Qred x] as a variable r with r == x (so that injection / subst do not unfold it) *)
Ltac name_red := repeat match goal with
  | |- context [Qred ?x] => let H := fresh "Hred" in pose proof (Qred_correct x) as H; generalize dependent (Qred x); intros
  | _ : context [Qred ?x] |- _ => let H := fresh "Hred" in pose proof (Qred_correct x) as H; generalize dependent (Qred x); intros
  end.

(* the confidence actually used: the candidate's, raised to min_confidence *)
Definition sort_conf (mc : Q) (cand : Universal2DBox Qops) : Q :=
  if Qltb (Universal2DBox_confidence Qops cand) mc then mc else Universal2DBox_confidence Qops cand.

Lemma sort_conf_is_max mc cand :
  mc <= sort_conf mc cand /\ Universal2DBox_confidence Qops cand <= sort_conf mc cand /\
  (sort_conf mc cand == mc \/ sort_conf mc cand == Universal2DBox_confidence Qops cand).
Proof.
  unfold sort_conf. destruct (Qltb _ mc) eqn:E.
  - apply Qltb_iff in E. split; [lra | split; [lra | left; reflexivity]].
  - apply Qltb_false_iff in E. split; [lra | split; [lra | right; reflexivity]].
Qed.

Lemma div_pos_facts (k c : Q) : 0 < c -> (0 < k / c <-> 0 < k) /\ (k == 0 -> k / c == 0).
Proof.
  intro Hc. split; [split; intro G|intro G].
  - assert (E : k == (k / c) * c) by (field; lra). rewrite E. apply Qmult_lt_0_compat; assumption.
  - apply Qlt_shift_div_l; [exact Hc | lra].
  - rewrite G. field. lra.
Qed.

(* the pre-filter: a pair that is too far gets no answer at all, in either mode *)
Lemma sort_metric_far_lemma (mc : Q) m cand trk (d : Q) (iou : option Q) : sort_metric Qops mc m cand trk true d iou = None.
Proof. reflexivity. Qed.

Lemma sort_metric_some_not_far (mc : Q) m cand trk far (d : Q) (iou : option Q) r :
  sort_metric Qops mc m cand trk far d iou = Some r -> far = false.
Proof. destruct far; [rewrite sort_metric_far_lemma; discriminate | reflexivity]. Qed.

(* a pair that is not too far always gets an answer whose second (feature distance) component is None *)
Lemma sort_metric_not_far_some (mc : Q) m cand trk (d : Q) (iou : option Q) :
  exists w, sort_metric Qops mc m cand trk false d iou = Some (w, None).
Proof. unfold sort_metric. qops. destruct m; eexists; reflexivity. Qed.

(* IoU mode: a weight is reported only for a pair that is not too far, has an IoU, and whose confidence-scaled IoU
   reaches the threshold; the weight is that scaled IoU *)
Lemma gate_iou (mc thr : Q) cand trk far (d : Q) (iou : option Q) (w : Q) x :
  sort_metric Qops mc (PositionalMetricType_IoU Qops thr) cand trk far d iou = Some (Some w, x) ->
  far = false /\ x = None /\ exists i, iou = Some i /\ w == i * sort_conf mc cand /\ thr <= w.
Proof.
  intro H. pose proof (sort_metric_some_not_far _ _ _ _ _ _ _ _ H) as Hf. subst far. split; [reflexivity|].
  unfold sort_metric in H. qops. unfold sort_conf.
  destruct iou as [i|]; [|cases_if_in H; discriminate H].
  name_red. cases_if_in H; try discriminate H;
  (injection H as Hw Hx; subst; split; [reflexivity|]; exists i; split; [reflexivity|]; split; lra).
Qed.

(* ... and no weight means: no IoU, or the scaled IoU does not exceed the threshold *)
Lemma gate_iou_rejected (mc thr : Q) cand trk far (d : Q) (iou : option Q) x :
  sort_metric Qops mc (PositionalMetricType_IoU Qops thr) cand trk far d iou = Some (None, x) ->
  far = false /\ (iou = None \/ exists i, iou = Some i /\ i * sort_conf mc cand <= thr).
Proof.
  intro H. pose proof (sort_metric_some_not_far _ _ _ _ _ _ _ _ H) as Hf. subst far. split; [reflexivity|].
  unfold sort_metric in H. qops. unfold sort_conf.
  destruct iou as [i|]; [|left; reflexivity]. right. exists i. split; [reflexivity|].
  name_red. cases_if_in H; try discriminate H; lra.
Qed.

(* Mahalanobis mode: every pair that passes the pre-filter gets the weight (inverted cost)/confidence; with a positive
   minimal confidence that weight is positive exactly inside the chi-square gate and 0 outside *)
Lemma gate_maha (mc : Q) cand trk far (d : Q) (iou : option Q) (w : Q) x :
  sort_metric Qops mc (PositionalMetricType_Mahalanobis Qops) cand trk far d iou = Some (Some w, x) ->
  far = false /\ x = None /\ w == box_calculate_cost Qops d true / sort_conf mc cand /\
  (0 < mc -> (0 < w <-> d <= box_gate) /\ (box_gate < d -> w == 0)).
Proof.
  intro H. pose proof (sort_metric_some_not_far _ _ _ _ _ _ _ _ H) as Hf. subst far. split; [reflexivity|].
  assert (Ew : x = None /\ w == box_calculate_cost Qops d true / sort_conf mc cand).
  { unfold sort_metric in H. qops. unfold sort_conf. name_red.
    cases_if_in H; injection H as Hw Hx; subst; split; try reflexivity; lra. }
  destruct Ew as [Ex Ew]. split; [exact Ex|]. split; [exact Ew|].
  intro Hmc.
  destruct (sort_conf_is_max mc cand) as [Hc _].
  assert (Hc0 : 0 < sort_conf mc cand) by lra.
  destruct (div_pos_facts (box_calculate_cost Qops d true) (sort_conf mc cand) Hc0) as [D1 D2].
  split.
  - rewrite Ew, D1. apply box_cost_inverted_pos_iff.
  - intro G. rewrite Ew. apply D2. apply (box_cost_inverted_out_of_gate d G).
Qed.

(* Mahalanobis mode never reports "no weight" for a pair that passes the pre-filter *)
Lemma gate_maha_total (mc : Q) cand trk (d : Q) (iou : option Q) :
  exists w, sort_metric Qops mc (PositionalMetricType_Mahalanobis Qops) cand trk false d iou = Some (Some w, None).
Proof. unfold sort_metric. qops. eexists. reflexivity. Qed.

(* expiry: a track is wasted exactly when last_updated + max_idle < current epoch of its scene (0 if the scene is unknown) *)
Lemma baked_wasted_cmp_spec last_updated max_idle cur :
  baked_wasted_cmp Qops last_updated max_idle cur = true <->
  (last_updated + max_idle < match cur with Some e => e | None => 0 end)%N.
Proof. unfold baked_wasted_cmp. destruct cur; apply N.ltb_lt. Qed.
