(* C01 - tracker output contract: lemmas. *)
From Coq Require Import List NArith ZArith QArith Bool Lia Permutation.
From Similari Require Import Base.Num Model.Constraints Model.Tracker
     Proofs.TrackerBase Proofs.TrackerPredict Proofs.TrackerInv.
Import ListNotations.
Open Scope N_scope.

Lemma NoDup_map_filter {A B} (f : A -> B) (p : A -> bool) l : NoDup (map f l) -> NoDup (map f (filter p l)).
Proof.
  induction l as [|x r IH]; cbn [map filter]; intro H; [constructor|]. inversion H; subst.
  destruct (p x); cbn [map]; [|apply IH; assumption]. constructor; [|apply IH; assumption].
  intro Hin. apply H2. apply in_map_iff in Hin. destruct Hin as [y [E Hy]]. apply filter_In in Hy.
  apply in_map_iff. exists y. split; [exact E|apply Hy].
Qed.

Lemma Forall2_impl {A B} (P Q : A -> B -> Prop) l1 l2 :
  (forall a b, P a b -> Q a b) -> Forall2 P l1 l2 -> Forall2 Q l1 l2.
Proof. intros H HF. induction HF; constructor; auto. Qed.

Lemma Forall2_In_r {A B} (P : A -> B -> Prop) l1 l2 b :
  Forall2 P l1 l2 -> In b l2 -> exists a, In a l1 /\ P a b.
Proof.
  intro HF. induction HF as [|x y r1 r2 Hxy HF IH]; cbn [In]; intro H; [contradiction|].
  destruct H as [H|H]; [subst; exists x; auto|]. destruct (IH H) as [a [Ha Hp]]. exists a; auto.
Qed.

Lemma Forall2_nth {A B} (P : A -> B -> Prop) l1 l2 i a b :
  Forall2 P l1 l2 -> nth_error l1 i = Some a -> nth_error l2 i = Some b -> P a b.
Proof.
  intro HF. revert i. induction HF as [|x y r1 r2 Hxy HF IH]; intros [|i] Ha Hb; cbn [nth_error] in *; try discriminate.
  - inversion Ha; inversion Hb; subst; exact Hxy.
  - eapply IH; eassumption.
Qed.

Section C01.
  Variable G : N -> list N -> option Z.
  Variable D2R : N -> list N -> Q.
  Variable solve : solver.
  Variable c : cfg.
  Hypothesis Hsound : solver_sound solve.

  Notation pair_weight := (pair_weight G D2R c).
  Notation predict_core := (predict_core G D2R solve c).
  Notation tstep := (tstep G D2R solve c).
  Notation reach := (reach G D2R solve c).

  (* what the record of detection d looks like, in terms of the state before (st) and after (st') the body
     of predict: it is read from a live track that either continues a relevant, gated live track or is new *)
  Definition rec_spec (st st' : tstate) (scene epoch : N) (d : detection) (r : rec) : Prop :=
    exists t, In t (live st') /\ r = rec_of t /\
      ((exists t0 wt, In t0 (live st) /\ relevant c scene epoch t0 = true
                      /\ pair_weight epoch d t0 = Some wt /\ t = absorb c epoch d t0)
       \/ (next_id st < t_id t <= next_id st' /\ t = fresh_track c (t_id t) scene epoch d)).

  Lemma predict_core_spec st scene dets :
    Inv c st ->
    Forall2 (rec_spec st (snd (predict_core st scene dets)) scene (pc_epoch st scene))
            dets (fst (predict_core st scene dets)).
  Proof.
    intro HI. rewrite predict_core_unfold. cbn [fst snd].
    set (epoch := pc_epoch st scene). set (rel := pc_rel c st scene).
    set (ws := winners G D2R solve c epoch rel dets).
    pose proof (Inv_NoDup_live _ _ HI) as Hnd.
    assert (Hlen : length dets = length ws) by (symmetry; apply winners_length; exact Hsound).
    assert (Hspec := apply_all_spec c scene epoch (combine dets ws) (pc_st1 st scene)).
    cbn [live pc_st1 set_epochs next_id] in Hspec.
    assert (HF : Forall2 (cand_spec c scene epoch (pc_st1 st scene)
                                    (fst (apply_all c scene epoch (pc_st1 st scene) (combine dets ws))))
                         (combine dets ws) (snd (apply_all c scene epoch (pc_st1 st scene) (combine dets ws)))).
    { apply Hspec.
      - exact Hnd.
      - intros t Ht. apply (Inv_live_id_bound _ _ _ HI Ht).
      - rewrite map_snd_combine by exact Hlen. intros id Hid. apply winners_in_rel in Hid.
        destruct Hid as [t [Ht E]]. unfold rel, pc_rel in Ht. apply filter_In in Ht. rewrite <- E. apply in_map, Ht.
      - rewrite map_snd_combine by exact Hlen. apply winners_inj; [exact Hsound|].
        unfold rel, pc_rel. apply NoDup_map_filter. exact Hnd. }
    pose proof (Forall2_combine _ _ _ _ _ (winners_spec G D2R solve c Hsound epoch rel dets) HF) as HF2.
    eapply Forall2_impl; [|exact HF2]. intros d r [w [HQ [t [Ht [Er Hsp]]]]]. cbn [fst snd] in Hsp.
    exists t. split; [exact Ht|split; [exact Er|]]. destruct w as [id|].
    - left. destruct HQ as [t0 [wt [Hrel [Eid Hpw]]]]. destruct Hsp as [t0' [Hin' [Eid' Eabs]]].
      cbn [live pc_st1 set_epochs] in Hin'. unfold rel, pc_rel in Hrel. apply filter_In in Hrel. destruct Hrel as [Hl Hr].
      assert (t0 = t0') by (apply (NoDup_id_eq (live st)); try assumption; congruence). subst t0'.
      exists t0, wt. auto.
    - right. cbn [next_id pc_st1 set_epochs] in Hsp. exact Hsp.
  Qed.

  (* consequences of rec_spec *)
  Lemma rec_spec_fields st st' scene epoch d r :
    Forall trk_ok (live st) ->
    rec_spec st st' scene epoch d r ->
    r_obs r = d_uid d /\ r_pred r = d_uid d /\ r_custom r = d_custom d /\ r_scene r = scene /\ r_epoch r = epoch
    /\ exists t, In t (live st') /\ t_id t = r_id r /\ r_len r = t_len t /\ last_uid t = d_uid d /\ t_scene t = scene
                 /\ trk_ok t.
  Proof.
    intros Hok [t [Ht [Er Hc]]]. subst r. unfold rec_of. cbn [r_obs r_pred r_custom r_scene r_epoch r_id r_len].
    destruct Hc as [[t0 [wt [Hin [Hrel [_ E]]]]]|[_ E]].
    - subst t. cbn [absorb t_obs t_pred t_custom t_scene t_last t_id t_len].
      unfold relevant in Hrel. apply andb_prop in Hrel. destruct Hrel as [Hs _]. apply N.eqb_eq in Hs.
      rewrite !last_trunc_snoc. repeat split; try assumption.
      exists (absorb c epoch d t0).
      refine (conj Ht (conj eq_refl (conj eq_refl (conj _ (conj Hs _))))).
      + unfold last_uid. cbn [absorb g_dets]. apply last_last.
      + apply trk_ok_absorb. rewrite Forall_forall in Hok. apply Hok; exact Hin.
    - rewrite E. cbn [fresh_track t_obs t_pred t_custom t_scene t_last t_id t_len].
      rewrite !last_trunc_single. repeat split.
      exists t. refine (conj Ht (conj eq_refl (conj _ (conj _ (conj _ _))))).
      + rewrite E. reflexivity.
      + rewrite E. reflexivity.
      + rewrite E. reflexivity.
      + rewrite E. apply trk_ok_fresh.
  Qed.

  (* --- statements about tstep ------------------------------------------------------------------ *)

  Lemma tstep_predict st scene dets recs st' :
    tstep st (Predict scene dets) = (ORecords recs, st') ->
    recs = fst (predict_core (prologue c st) scene dets) /\ st' = snd (predict_core (prologue c st) scene dets).
  Proof.
    cbn [Tracker.tstep]. destruct (predict_core (prologue c st) scene dets) as [r s]. intro H. inversion H. auto.
  Qed.

  Lemma predict_spec st scene dets recs st' :
    reach st -> tstep st (Predict scene dets) = (ORecords recs, st') ->
    Forall2 (rec_spec (prologue c st) st' scene (epoch_of (epochs st) scene + 1)) dets recs.
  Proof.
    intros Hr H. apply tstep_predict in H. destruct H as [E1 E2]. subst.
    pose proof (predict_core_spec (prologue c st) scene dets (Inv_prologue _ _ (reach_Inv _ _ _ _ _ Hr))) as HF.
    unfold pc_epoch in HF. rewrite epochs_prologue in HF. exact HF.
  Qed.

  Lemma live_ok_prologue st : reach st -> Forall trk_ok (live (prologue c st)).
  Proof.
    intro Hr. pose proof (Inv_prologue _ _ (reach_Inv _ _ _ _ _ Hr)) as HI. destruct HI as [_ _ H _ _].
    unfold all_tracks in H. apply Forall_app in H. apply H.
  Qed.

  Lemma predict_epoch st scene dets recs st' :
    tstep st (Predict scene dets) = (ORecords recs, st') ->
    forall s, epoch_of (epochs st') s = if scene =? s then epoch_of (epochs st) scene + 1 else epoch_of (epochs st) s.
  Proof.
    intros H s. apply tstep_predict in H. destruct H as [_ E]. subst st'. rewrite predict_core_unfold. cbn [snd].
    destruct (apply_all_frame c scene (pc_epoch (prologue c st) scene)
                (combine dets (winners G D2R solve c (pc_epoch (prologue c st) scene) (pc_rel c (prologue c st) scene) dets))
                (pc_st1 (prologue c st) scene)) as [A1 _].
    cbn zeta in A1. rewrite A1. cbn [epochs pc_st1 set_epochs]. rewrite epoch_of_set. unfold pc_epoch.
    rewrite epochs_prologue. reflexivity.
  Qed.

  Lemma predict_one_record_per_detection_lemma st scene dets recs st' :
    reach st -> tstep st (Predict scene dets) = (ORecords recs, st') -> length recs = length dets.
  Proof. intros Hr H. symmetry. eapply Forall2_len. eapply predict_spec; eassumption. Qed.

  Lemma predict_records_in_order_lemma st scene dets recs st' :
    reach st -> tstep st (Predict scene dets) = (ORecords recs, st') ->
    forall i d r, nth_error dets i = Some d -> nth_error recs i = Some r ->
      r_obs r = d_uid d /\ r_custom r = d_custom d /\ r_scene r = scene.
  Proof.
    intros Hr H i d r Hd Hrr. pose proof (Forall2_nth _ _ _ _ _ _ (predict_spec _ _ _ _ _ Hr H) Hd Hrr) as Hs.
    apply rec_spec_fields in Hs; [|apply (live_ok_prologue st Hr)]. destruct Hs as [A [_ [B [C _]]]]. auto.
  Qed.

  Lemma predict_record_epoch_len_lemma st scene dets recs st' :
    reach st -> tstep st (Predict scene dets) = (ORecords recs, st') ->
    epoch_of (epochs st') scene = epoch_of (epochs st) scene + 1 /\
    forall i d r, nth_error dets i = Some d -> nth_error recs i = Some r ->
      r_epoch r = epoch_of (epochs st') scene /\
      exists t, In t (live st') /\ t_id t = r_id r /\ r_len r = t_len t
                /\ t_len t = N.of_nat (length (g_dets t)) /\ last (g_dets t) 0 = d_uid d.
  Proof.
    intros Hr H. pose proof (predict_epoch _ _ _ _ _ H scene) as He. rewrite N.eqb_refl in He. split; [exact He|].
    intros i d r Hd Hrr. pose proof (Forall2_nth _ _ _ _ _ _ (predict_spec _ _ _ _ _ Hr H) Hd Hrr) as Hs.
    apply rec_spec_fields in Hs; [|apply (live_ok_prologue st Hr)].
    destruct Hs as [_ [_ [_ [_ [E [t [Ht [Eid [El [Eu [_ [Hok _]]]]]]]]]]]].
    split; [congruence|]. exists t. repeat split; assumption.
  Qed.

  Lemma nodup_from_forall2 (R : detection -> rec -> Prop) dets recs :
    Forall2 R dets recs -> NoDup (map d_uid dets) ->
    (forall d r d' r', R d r -> R d' r' -> r_id r = r_id r' -> d_uid d = d_uid d') ->
    NoDup (map r_id recs).
  Proof.
    intros HF. induction HF as [|d r ds rs Hdr HF IH]; intros Hnd Hinj; cbn [map]; [constructor|].
    cbn [map] in Hnd. inversion Hnd; subst. constructor; [|apply IH; assumption].
    intro Hin. apply in_map_iff in Hin. destruct Hin as [r' [E Hr']].
    destruct (Forall2_In_r _ _ _ _ HF Hr') as [d' [Hd' HR']].
    apply H1. rewrite (Hinj d r d' r' Hdr HR' (eq_sym E)). apply in_map; exact Hd'.
  Qed.

  Lemma predict_ids_nodup_lemma st scene dets recs st' :
    reach st -> ok_op st (Predict scene dets) ->
    tstep st (Predict scene dets) = (ORecords recs, st') -> NoDup (map r_id recs).
  Proof.
    intros Hr Hok H.
    assert (HI : Inv c st').
    { replace st' with (snd (tstep st (Predict scene dets))) by (rewrite H; reflexivity).
      apply Inv_tstep; [apply (reach_Inv _ _ _ _ _ Hr)|exact Hok]. }
    pose proof (Inv_NoDup_live _ _ HI) as Hnd.
    eapply nodup_from_forall2; [eapply predict_spec; eassumption|apply Hok|].
    intros d r d' r' H1 H2 E.
    apply rec_spec_fields in H1; [|apply (live_ok_prologue st Hr)].
    apply rec_spec_fields in H2; [|apply (live_ok_prologue st Hr)].
    destruct H1 as [_ [_ [_ [_ [_ [t [Ht [Eid [_ [Eu _]]]]]]]]]].
    destruct H2 as [_ [_ [_ [_ [_ [t' [Ht' [Eid' [_ [Eu' _]]]]]]]]]].
    assert (t = t') by (apply (NoDup_id_eq (live st')); try assumption; congruence). subst t'. congruence.
  Qed.

  Lemma live_prologue_incl st t : In t (live (prologue c st)) -> In t (live st).
  Proof.
    rewrite prologue_eq. destruct (aw_cnt st =? 0); cbn [live set_aw auto_waste set_wasted set_live]; [|auto].
    intro H. apply filter_In in H. apply H.
  Qed.

  (* every id anywhere is at most the counter *)
  Lemma ids_bounded_lemma st t : reach st -> In t (all_tracks st) -> 1 <= t_id t <= next_id st.
  Proof. intros Hr. apply Inv_id_bound with (c := c). apply (reach_Inv _ _ _ _ _ Hr). Qed.

  Lemma next_id_mono_lemma st op : next_id st <= next_id (snd (tstep st op)).
  Proof.
    destruct op as [scene dets|scene n| |scene| |p| | |scene]; cbn [Tracker.tstep]; try (cbn; lia).
    destruct (predict_core (prologue c st) scene dets) as [recs st'] eqn:E. cbn [snd].
    change st' with (snd (recs, st')). rewrite <- E. rewrite predict_core_unfold. cbn [snd].
    destruct (apply_all_frame c scene (pc_epoch (prologue c st) scene)
                (combine dets (winners G D2R solve c (pc_epoch (prologue c st) scene) (pc_rel c (prologue c st) scene) dets))
                (pc_st1 (prologue c st) scene)) as [_ [_ [_ [_ [_ [_ [_ [A8 _]]]]]]]].
    cbn zeta in A8. cbn [next_id pc_st1 set_epochs] in A8. rewrite next_id_prologue in A8. exact A8.
  Qed.

  (* the id of a record is the id of a track that was live before the call, or it lies above the counter value
     before the call (hence, by ids_bounded, was never issued) and at most the counter after the call *)
  Lemma new_ids_fresh_lemma st scene dets recs st' :
    reach st -> tstep st (Predict scene dets) = (ORecords recs, st') ->
    forall r, In r recs ->
      (exists t0, In t0 (live st) /\ t_id t0 = r_id r /\ t_scene t0 = scene) \/ next_id st < r_id r <= next_id st'.
  Proof.
    intros Hr H r Hin. destruct (Forall2_In_r _ _ _ _ (predict_spec _ _ _ _ _ Hr H) Hin) as [d [_ [t [Ht [Er Hc]]]]].
    subst r. cbn [rec_of r_id]. destruct Hc as [[t0 [wt [Hin0 [Hrel [_ E]]]]]|[Hb E]].
    - left. exists t0. subst t. cbn [absorb t_id]. split; [apply live_prologue_incl; exact Hin0|split; [reflexivity|]].
      unfold relevant in Hrel. apply andb_prop in Hrel. destruct Hrel as [Hs _]. apply N.eqb_eq in Hs. exact Hs.
    - right. rewrite next_id_prologue in Hb. exact Hb.
  Qed.

  (* the ids of the tracks started within one call increase in submission order *)
  Lemma new_ids_increasing_lemma st scene dets recs st' :
    reach st -> tstep st (Predict scene dets) = (ORecords recs, st') ->
    ForallOrdPairs (fun a b => next_id st < r_id a -> next_id st < r_id b -> r_id a < r_id b) recs.
  Proof.
    intros Hr H. apply tstep_predict in H. destruct H as [E _]. subst recs. rewrite predict_core_unfold. cbn [fst].
    pose proof (Inv_prologue _ _ (reach_Inv _ _ _ _ _ Hr)) as HI.
    set (st0 := prologue c st) in *. set (epoch := pc_epoch st0 scene). set (rel := pc_rel c st0 scene).
    set (ws := winners G D2R solve c epoch rel dets).
    pose proof (Inv_NoDup_live _ _ HI) as Hnd.
    assert (Hlen : length dets = length ws) by (symmetry; apply winners_length; exact Hsound).
    pose proof (apply_all_new_increasing c scene epoch (combine dets ws) (pc_st1 st0 scene)) as HX.
    cbn [live pc_st1 set_epochs next_id] in HX.
    assert (Hn : next_id st0 = next_id st) by apply next_id_prologue.
    eapply ForallOrdPairs_impl_in; [intros a b _ _ HR; rewrite <- Hn; exact HR|]. apply HX.
    - exact Hnd.
    - intros t Ht. pose proof (Inv_live_id_bound _ _ _ HI Ht) as Hb. lia.
    - rewrite map_snd_combine by exact Hlen. intros id Hid. apply winners_in_rel in Hid.
      destruct Hid as [t [Ht E]]. unfold rel, pc_rel in Ht. apply filter_In in Ht. rewrite <- E. apply in_map, Ht.
    - rewrite map_snd_combine by exact Hlen. apply winners_inj; [exact Hsound|].
      unfold rel, pc_rel. apply NoDup_map_filter. exact Hnd.
  Qed.
End C01.
