(* Lemmas about Model/DistProto.v: every complete interleaving of a distance query delivers exactly the
   specified multiset, for all stores, candidate batches, shard counts, user callbacks. *)
From Coq Require Import List NArith Bool Arith Lia Permutation.
From Similari Require Import Model.DistProto.
Import ListNotations.

(* ---------------------------------------------------------------------------------------------------- *)
(* generic list facts                                                                                    *)

Lemma flat_map_flat_map {A B C} (f : A -> list B) (g : B -> list C) (l : list A) :
  flat_map g (flat_map f l) = flat_map (fun a => flat_map g (f a)) l.
Proof.
  induction l as [|a l IH]; cbn; [reflexivity|].
  rewrite flat_map_app, IH. reflexivity.
Qed.

Lemma flat_map_concat {A B} (f : A -> list B) (ls : list (list A)) :
  flat_map f (concat ls) = flat_map (flat_map f) ls.
Proof.
  induction ls as [|l ls IH]; cbn; [reflexivity|].
  rewrite flat_map_app, IH. reflexivity.
Qed.

Lemma flat_map_id_concat {A} (ls : list (list A)) : flat_map (fun x => x) ls = concat ls.
Proof. induction ls as [|l ls IH]; cbn; [reflexivity|]. now rewrite IH. Qed.

Lemma map_nth_seq {A} (d : A) (l : list A) : map (fun k => nth k l d) (seq 0 (length l)) = l.
Proof.
  induction l as [|a l IH]; cbn [length seq map]; [reflexivity|].
  cbn [nth]. f_equal. rewrite <- seq_shift, map_map. cbn [nth]. exact IH.
Qed.

Lemma flat_map_nth_seq {A B} (d : A) (g : A -> list B) (l : list A) :
  flat_map (fun k => g (nth k l d)) (seq 0 (length l)) = flat_map g l.
Proof.
  rewrite (flat_map_concat_map (fun k => g (nth k l d))).
  rewrite <- (map_map (fun k => nth k l d) g), map_nth_seq.
  now rewrite <- flat_map_concat_map.
Qed.

Lemma set_nth_length {A} (k : nat) (x : A) (l : list A) : length (set_nth k x l) = length l.
Proof.
  revert k; induction l as [|a l IH]; intros k; cbn; [reflexivity|].
  destruct k; cbn; [reflexivity|]. now rewrite IH.
Qed.

Lemma nth_error_set_nth_same {A} (k : nat) (x y : A) (l : list A) :
  nth_error l k = Some y -> nth_error (set_nth k x l) k = Some x.
Proof.
  revert k; induction l as [|a l IH]; intros k H; destruct k; cbn in *; try discriminate; auto.
Qed.

Lemma set_nth_set_nth {A} (k : nat) (x y : A) (l : list A) : set_nth k x (set_nth k y l) = set_nth k x l.
Proof.
  revert k; induction l as [|a l IH]; intros k; cbn; [reflexivity|].
  destruct k; cbn; [reflexivity|]. now rewrite IH.
Qed.

Lemma Permutation_flat_map_l {A B} (f : A -> list B) (l l' : list A) :
  Permutation l l' -> Permutation (flat_map f l) (flat_map f l').
Proof.
  induction 1 as [|x l l' H IH|x y l|l l' l'' H1 IH1 H2 IH2]; cbn.
  - constructor.
  - now apply Permutation_app_head.
  - rewrite !app_assoc. apply Permutation_app_tail, Permutation_app_comm.
  - now transitivity (flat_map f l').
Qed.

(* ---------------------------------------------------------------------------------------------------- *)
(* pending work of the queues                                                                            *)

Section Pend.
  Context {T B : Type}.
  Variable f : T -> list T -> list B.

  Definition pend (sh : list (list T)) (qs : list (list T)) : list B :=
    flat_map (fun sq => flat_map (fun c => f c (fst sq)) (snd sq)) (combine sh qs).

  Definition work (sh : list (list T)) (items : list (nat * T)) : list B :=
    flat_map (fun kc => f (snd kc) (nth (fst kc) sh [])) items.

  Lemma pend_split sh : forall qs k q,
      length qs = length sh -> nth_error qs k = Some q ->
      Permutation (pend sh qs) (flat_map (fun c => f c (nth k sh [])) q ++ pend sh (set_nth k [] qs)).
  Proof.
    induction sh as [|s sh IH]; intros qs k q Hlen Hk.
    - destruct qs; [destruct k; discriminate|discriminate].
    - destruct qs as [|q0 qs]; [discriminate|].
      destruct k as [|k].
      + cbn in Hk. injection Hk as ->. unfold pend. cbn. reflexivity.
      + cbn in Hk. cbn in Hlen. injection Hlen as Hlen.
        specialize (IH qs k q Hlen Hk).
        unfold pend in *. cbn [combine flat_map set_nth fst snd nth].
        rewrite IH. rewrite !app_assoc. apply Permutation_app_tail, Permutation_app_comm.
  Qed.

  Lemma pend_repeat_nil sh n : pend sh (repeat [] n) = [].
  Proof.
    revert n; induction sh as [|s sh IH]; intros n; destruct n; cbn; try reflexivity.
    unfold pend in *. cbn. apply IH.
  Qed.
End Pend.

Lemma pend_unit_zero {T B} (f : T -> list T -> list B) sh : forall qs,
    length (pend (fun _ _ => [tt]) sh qs) = 0 -> pend f sh qs = [].
Proof.
  induction sh as [|s sh IH]; intros qs H; [reflexivity|].
  destruct qs as [|q qs]; [reflexivity|].
  unfold pend in *. cbn [combine flat_map fst snd] in *. rewrite app_length in H.
  destruct q as [|c q]; [|cbn in H; lia].
  cbn. apply IH. cbn in H. exact H.
Qed.

Lemma pend_unit_pos {T} sh : forall qs : list (list T),
    length qs = length sh -> 0 < length (pend (fun _ _ => [tt]) sh qs) ->
    exists k c q, nth_error qs k = Some (c :: q).
Proof.
  induction sh as [|s sh IH]; intros qs Hl H; [destruct qs; cbn in *; [lia|discriminate]|].
  destruct qs as [|q qs]; [discriminate|].
  destruct q as [|c q].
  - unfold pend in H. cbn [combine flat_map fst snd app] in H.
    injection Hl as Hl. destruct (IH qs Hl H) as (k & c & q & Hk).
    exists (S k), c, q. exact Hk.
  - exists 0, c, q. reflexivity.
Qed.

(* ---------------------------------------------------------------------------------------------------- *)

Section DistProofs.
  Variable track : Type.
  Variable OBS : Type.
  Variable MV : Type.
  Variable tid : track -> N.
  Variable compatible : track -> track -> bool.
  Variable baked : track -> status.
  Variable observations : track -> N -> option (list OBS).
  Variable metric : N -> track -> OBS -> track -> OBS -> option MV.
  Variable postprocess : track -> list (res MV) -> list (res MV).
  Variable cls : N.
  Variable ob : bool.

  Notation SD := (shard_distances track OBS MV tid compatible baked observations metric postprocess).
  Notation FIRE := (dfire track OBS MV tid compatible baked observations metric postprocess cls ob).
  Notation RUN := (drun track OBS MV tid compatible baked observations metric postprocess cls ob).
  Notation FINAL := (dfinal track MV).
  Notation OKSPEC := (ok_spec track OBS MV tid compatible baked observations metric postprocess).
  Notation ERRSPEC := (err_spec track OBS tid compatible baked observations).
  Notation ELIG := (eligible track tid compatible baked).
  Notation PAIROK := (pair_ok track OBS MV tid observations metric postprocess).
  Notation PAIRERR := (pair_err track OBS tid observations).
  Notation VISIT := (visit track OBS MV tid compatible baked observations metric postprocess).
  Notation state := (dstate track MV).

  Definition okf (c : track) (sh : list track) : list (res MV) := fst (SD c cls ob sh).
  Definition errf (c : track) (sh : list track) : list err := snd (SD c cls ob sh).

  (* ---- a worker's chunk is the per-shard slice of the specification ------------------------------- *)
  Lemma visit_oks c o :
    flat_map (@oks MV) (opt_list (VISIT c cls ob o)) = if ELIG c ob o then PAIROK c cls o else [].
  Proof.
    unfold visit, eligible, dist_item, distances, pair_ok.
    destruct (N.eqb (tid c) (tid o)); cbn; [reflexivity|].
    destruct ob; cbn.
    - destruct (baked o); cbn; rewrite ?andb_false_r; try reflexivity.
      rewrite andb_true_r.
      destruct (compatible c o); cbn; [|reflexivity].
      destruct (observations c cls); [destruct (observations o cls)|]; cbn; rewrite ?app_nil_r; reflexivity.
    - rewrite andb_true_r. destruct (compatible c o); cbn; [|reflexivity].
      destruct (observations c cls); [destruct (observations o cls)|]; cbn; rewrite ?app_nil_r; reflexivity.
  Qed.

  Lemma visit_errs c o :
    flat_map (@errs MV) (opt_list (VISIT c cls ob o)) = if ELIG c ob o then PAIRERR c cls o else [].
  Proof.
    unfold visit, eligible, dist_item, distances, pair_err.
    destruct (N.eqb (tid c) (tid o)); cbn; [reflexivity|].
    destruct ob; cbn.
    - destruct (baked o); cbn; rewrite ?andb_false_r; try reflexivity.
      rewrite andb_true_r.
      destruct (compatible c o); cbn; [|reflexivity].
      destruct (observations c cls); [destruct (observations o cls)|]; cbn; reflexivity.
    - rewrite andb_true_r. destruct (compatible c o); cbn; [|reflexivity].
      destruct (observations c cls); [destruct (observations o cls)|]; cbn; reflexivity.
  Qed.

  Lemma okf_spec c sh : okf c sh = flat_map (fun o => if ELIG c ob o then PAIROK c cls o else []) sh.
  Proof.
    unfold okf, shard_distances. cbn [fst]. rewrite flat_map_flat_map.
    apply flat_map_ext. intro o. apply visit_oks.
  Qed.

  Lemma errf_spec c sh : errf c sh = flat_map (fun o => if ELIG c ob o then PAIRERR c cls o else []) sh.
  Proof.
    unfold errf, shard_distances. cbn [snd]. rewrite flat_map_flat_map.
    apply flat_map_ext. intro o. apply visit_errs.
  Qed.

  Lemma okf_all_shards sh cands :
    work okf sh (enq_list track (length sh) cands) = OKSPEC (concat sh) cands cls ob.
  Proof.
    unfold work, enq_list, ok_spec. rewrite flat_map_flat_map.
    apply flat_map_ext. intro c.
    rewrite (flat_map_concat_map _ (map _ _)), map_map. cbn [fst snd].
    rewrite <- flat_map_concat_map.
    rewrite (flat_map_nth_seq [] (okf c) sh).
    rewrite flat_map_concat. apply flat_map_ext. intro s. apply okf_spec.
  Qed.

  Lemma errf_all_shards sh cands :
    work errf sh (enq_list track (length sh) cands) = ERRSPEC (concat sh) cands cls ob.
  Proof.
    unfold work, enq_list, err_spec. rewrite flat_map_flat_map.
    apply flat_map_ext. intro c.
    rewrite (flat_map_concat_map _ (map _ _)), map_map. cbn [fst snd].
    rewrite <- flat_map_concat_map.
    rewrite (flat_map_nth_seq [] (errf c) sh).
    rewrite flat_map_concat. apply flat_map_ext. intro s. apply errf_spec.
  Qed.

  (* ---- the conserved quantity ------------------------------------------------------------------------ *)
  Section Mass.
    Variable B : Type.
    Variable f : track -> list track -> list B.
    Variable gk : list (res MV) -> list B.
    Variable ge : list err -> list B.

    Definition mass_ok (st : state) : list B :=
      flat_map gk (got_ok st) ++ flat_map gk (ok_chan st) ++ pend f (shards st) (queues st) ++ work f (shards st) (todo st).

    Definition mass_err (st : state) : list B :=
      flat_map ge (got_err st) ++ flat_map ge (err_chan st) ++ pend f (shards st) (queues st) ++ work f (shards st) (todo st).

    Definition wf (st : state) : Prop :=
      length (queues st) = length (shards st) /\ pre st = None /\
      Forall (fun kc => fst kc < length (shards st)) (todo st).

    Lemma fire_wf st l st' : wf st -> FIRE st l = Some st' -> wf st' /\ shards st' = shards st.
    Proof.
      intros (Hlen & Hpre & Htodo) H.
      destruct l as [| k | k | |]; cbn in H.
      - rewrite Hpre in H. discriminate.
      - rewrite Hpre in H. destruct (todo st) as [|[k' c] rest] eqn:Et; [discriminate|].
        destruct (Nat.eqb k k'); [|discriminate].
        destruct (nth_error (queues st) k); [|discriminate]. injection H as <-. cbn.
        unfold wf; cbn. rewrite set_nth_length. inversion Htodo; subst. auto.
      - destruct (nth_error (queues st) k) as [[|c q]|]; try discriminate. injection H as <-.
        unfold wf; cbn. rewrite set_nth_length. auto.
      - destruct (need_ok st); [discriminate|]. destruct (ok_chan st); [discriminate|]. injection H as <-.
        unfold wf; cbn. auto.
      - destruct (need_err st); [discriminate|]. destruct (err_chan st); [discriminate|]. injection H as <-.
        unfold wf; cbn. auto.
    Qed.

    Lemma mass_ok_step st l st' :
      (forall c sh, gk (okf c sh) = f c sh) ->
      wf st -> FIRE st l = Some st' -> Permutation (mass_ok st') (mass_ok st).
    Proof.
      intros Hg (Hlen & Hpre & Htodo) H.
      destruct l as [| k | k | |]; cbn in H.
      - rewrite Hpre in H. discriminate.
      - rewrite Hpre in H. destruct (todo st) as [|[k' c] rest] eqn:Et; [discriminate|].
        destruct (Nat.eqb k k') eqn:Ek; [|discriminate]. apply Nat.eqb_eq in Ek. subst k'.
        destruct (nth_error (queues st) k) as [q|] eqn:Eq; [|discriminate]. injection H as <-.
        unfold mass_ok; cbn [got_ok ok_chan shards queues todo]. rewrite Et.
        apply Permutation_app_head, Permutation_app_head.
        rewrite (pend_split f (shards st) (queues st) k q Hlen Eq).
        assert (Hq' : nth_error (set_nth k (q ++ [c]) (queues st)) k = Some (q ++ [c]))
          by (eapply nth_error_set_nth_same; eauto).
        rewrite (pend_split f (shards st) _ k (q ++ [c]) (eq_trans (set_nth_length _ _ _) Hlen) Hq').
        rewrite set_nth_set_nth. rewrite flat_map_app. cbn [flat_map work fst snd]. rewrite app_nil_r.
        rewrite <- !app_assoc. apply Permutation_app_head.
        rewrite !app_assoc. apply Permutation_app_tail, Permutation_app_comm.
      - destruct (nth_error (queues st) k) as [[|c q]|] eqn:Eq; try discriminate. injection H as <-.
        unfold mass_ok; cbn [got_ok ok_chan shards queues todo].
        apply Permutation_app_head. rewrite flat_map_app. cbn [flat_map]. rewrite app_nil_r.
        pose proof (Hg c (nth k (shards st) [])) as Hg'. unfold okf, shard_distances in Hg'. cbn [fst] in Hg'. rewrite Hg'.
        rewrite <- !app_assoc. apply Permutation_app_head.
        rewrite (pend_split f (shards st) (queues st) k (c :: q) Hlen Eq).
        assert (Hq' : nth_error (set_nth k q (queues st)) k = Some q)
          by (eapply nth_error_set_nth_same; eauto).
        rewrite (pend_split f (shards st) _ k q (eq_trans (set_nth_length _ _ _) Hlen) Hq').
        rewrite set_nth_set_nth. cbn [flat_map]. rewrite <- !app_assoc. reflexivity.
      - destruct (need_ok st); [discriminate|]. destruct (ok_chan st) as [|ch rest] eqn:Ec; [discriminate|].
        injection H as <-. unfold mass_ok; cbn [got_ok ok_chan shards queues todo]. rewrite Ec.
        rewrite flat_map_app. cbn [flat_map]. rewrite app_nil_r, <- !app_assoc. reflexivity.
      - destruct (need_err st); [discriminate|]. destruct (err_chan st); [discriminate|].
        injection H as <-. unfold mass_ok; cbn [got_ok ok_chan shards queues todo]. reflexivity.
    Qed.

    Lemma mass_err_step st l st' :
      (forall c sh, ge (errf c sh) = f c sh) ->
      wf st -> FIRE st l = Some st' -> Permutation (mass_err st') (mass_err st).
    Proof.
      intros Hg (Hlen & Hpre & Htodo) H.
      destruct l as [| k | k | |]; cbn in H.
      - rewrite Hpre in H. discriminate.
      - rewrite Hpre in H. destruct (todo st) as [|[k' c] rest] eqn:Et; [discriminate|].
        destruct (Nat.eqb k k') eqn:Ek; [|discriminate]. apply Nat.eqb_eq in Ek. subst k'.
        destruct (nth_error (queues st) k) as [q|] eqn:Eq; [|discriminate]. injection H as <-.
        unfold mass_err; cbn [got_err err_chan shards queues todo]. rewrite Et.
        apply Permutation_app_head, Permutation_app_head.
        rewrite (pend_split f (shards st) (queues st) k q Hlen Eq).
        assert (Hq' : nth_error (set_nth k (q ++ [c]) (queues st)) k = Some (q ++ [c]))
          by (eapply nth_error_set_nth_same; eauto).
        rewrite (pend_split f (shards st) _ k (q ++ [c]) (eq_trans (set_nth_length _ _ _) Hlen) Hq').
        rewrite set_nth_set_nth. rewrite flat_map_app. cbn [flat_map work fst snd]. rewrite app_nil_r.
        rewrite <- !app_assoc. apply Permutation_app_head.
        rewrite !app_assoc. apply Permutation_app_tail, Permutation_app_comm.
      - destruct (nth_error (queues st) k) as [[|c q]|] eqn:Eq; try discriminate. injection H as <-.
        unfold mass_err; cbn [got_err err_chan shards queues todo].
        apply Permutation_app_head. rewrite flat_map_app. cbn [flat_map]. rewrite app_nil_r.
        pose proof (Hg c (nth k (shards st) [])) as Hg'. unfold errf, shard_distances in Hg'. cbn [snd] in Hg'. rewrite Hg'.
        rewrite <- !app_assoc. apply Permutation_app_head.
        rewrite (pend_split f (shards st) (queues st) k (c :: q) Hlen Eq).
        assert (Hq' : nth_error (set_nth k q (queues st)) k = Some q)
          by (eapply nth_error_set_nth_same; eauto).
        rewrite (pend_split f (shards st) _ k q (eq_trans (set_nth_length _ _ _) Hlen) Hq').
        rewrite set_nth_set_nth. cbn [flat_map]. rewrite <- !app_assoc. reflexivity.
      - destruct (need_ok st); [discriminate|]. destruct (ok_chan st); [discriminate|].
        injection H as <-. unfold mass_err; cbn [got_err err_chan shards queues todo]. reflexivity.
      - destruct (need_err st); [discriminate|]. destruct (err_chan st) as [|ch rest] eqn:Ec; [discriminate|].
        injection H as <-. unfold mass_err; cbn [got_err err_chan shards queues todo]. rewrite Ec.
        rewrite flat_map_app. cbn [flat_map]. rewrite app_nil_r, <- !app_assoc. reflexivity.
    Qed.

    Lemma run_wf sigma : forall st st',
      wf st -> RUN st sigma = Some st' -> wf st' /\ shards st' = shards st.
    Proof.
      induction sigma as [|l sigma IH]; intros st st' Hwf H; cbn in H.
      - injection H as <-. auto.
      - destruct (FIRE st l) as [st1|] eqn:E; [|discriminate].
        destruct (fire_wf _ _ _ Hwf E) as (Hwf1 & Hs1).
        destruct (IH st1 st' Hwf1 H) as (Hwf' & Hs'). split; [assumption|congruence].
    Qed.

    Lemma run_mass_ok sigma : forall st st',
      (forall c sh, gk (okf c sh) = f c sh) ->
      wf st -> RUN st sigma = Some st' -> Permutation (mass_ok st') (mass_ok st).
    Proof.
      induction sigma as [|l sigma IH]; intros st st' Hgk Hwf H; cbn in H.
      - injection H as <-. reflexivity.
      - destruct (FIRE st l) as [st1|] eqn:E; [|discriminate].
        destruct (fire_wf _ _ _ Hwf E) as (Hwf1 & Hs1).
        etransitivity; [exact (IH st1 st' Hgk Hwf1 H)|]. eapply mass_ok_step; eauto.
    Qed.

    Lemma run_mass_err sigma : forall st st',
      (forall c sh, ge (errf c sh) = f c sh) ->
      wf st -> RUN st sigma = Some st' -> Permutation (mass_err st') (mass_err st).
    Proof.
      induction sigma as [|l sigma IH]; intros st st' Hge Hwf H; cbn in H.
      - injection H as <-. reflexivity.
      - destruct (FIRE st l) as [st1|] eqn:E; [|discriminate].
        destruct (fire_wf _ _ _ Hwf E) as (Hwf1 & Hs1).
        etransitivity; [exact (IH st1 st' Hge Hwf1 H)|]. eapply mass_err_step; eauto.
    Qed.
  End Mass.

  (* the number of chunks still to be read plus those read is constant *)
  Definition balance (st : state) : nat * nat := (length (got_ok st) + need_ok st, length (got_err st) + need_err st).

  Lemma balance_step st l st' : pre st = None -> FIRE st l = Some st' -> balance st' = balance st.
  Proof.
    intros Hpre H. destruct l as [| k | k | |]; cbn in H.
    - rewrite Hpre in H; discriminate.
    - rewrite Hpre in H. destruct (todo st) as [|[k' c] rest]; [discriminate|].
      destruct (Nat.eqb k k'); [|discriminate]. destruct (nth_error (queues st) k); [|discriminate].
      injection H as <-. reflexivity.
    - destruct (nth_error (queues st) k) as [[|c q]|]; try discriminate. injection H as <-. reflexivity.
    - unfold balance. destruct (need_ok st); [discriminate|]. destruct (ok_chan st); [discriminate|].
      injection H as <-. cbn. rewrite app_length. cbn. f_equal. lia.
    - unfold balance. destruct (need_err st); [discriminate|]. destruct (err_chan st); [discriminate|].
      injection H as <-. cbn. rewrite app_length. cbn. f_equal. lia.
  Qed.

  Lemma balance_run sigma : forall st st', wf st -> RUN st sigma = Some st' -> balance st' = balance st.
  Proof.
    induction sigma as [|l sigma IH]; intros st st' Hwf H; cbn in H.
    - now injection H as <-.
    - destruct (FIRE st l) as [st1|] eqn:E; [|discriminate].
      destruct (fire_wf _ _ _ Hwf E) as (Hwf1 & _).
      rewrite (IH st1 st' Hwf1 H). apply (balance_step st l st1); [apply Hwf|exact E].
  Qed.

  Notation unit_f := (fun (_ : track) (_ : list track) => [tt]).
  Notation unit_k := (fun _ : list (res MV) => [tt]).
  Notation unit_e := (fun _ : list err => [tt]).

  Lemma length_flat_map_unit {A} (l : list A) : length (flat_map (fun _ => [tt]) l) = length l.
  Proof. induction l; cbn; auto. Qed.

  Lemma foreign_init_wf sh cands : wf (foreign_init track MV sh cands).
  Proof.
    unfold wf, foreign_init; cbn. rewrite repeat_length. repeat split; auto.
    unfold enq_list. apply Forall_forall. intros [k c] Hin. apply in_flat_map in Hin.
    destruct Hin as (c' & _ & Hin). apply in_map_iff in Hin. destruct Hin as (k' & Heq & Hk).
    injection Heq as <- <-. apply in_seq in Hk. cbn. lia.
  Qed.

  Lemma enq_list_length n (cands : list track) : length (enq_list track n cands) = n * length cands.
  Proof.
    unfold enq_list. induction cands as [|c cands IH]; cbn; [lia|].
    rewrite app_length, map_length, seq_length, IH. lia.
  Qed.

  (* What is known about every state reachable from the start of a foreign query. *)
  Record reach_facts (sh : list (list track)) (cands : list track) (st : state) : Prop := {
    rf_wf : wf st;
    rf_shards : shards st = sh;
    rf_ok : Permutation (mass_ok (res MV) okf (fun x => x) st) (OKSPEC (concat sh) cands cls ob);
    rf_err : Permutation (mass_err err errf (fun x => x) st) (ERRSPEC (concat sh) cands cls ob);
    rf_cnt_ok : length (got_ok st) + length (ok_chan st) + length (pend unit_f (shards st) (queues st)) + length (todo st)
                = length sh * length cands;
    rf_cnt_err : length (got_err st) + length (err_chan st) + length (pend unit_f (shards st) (queues st)) + length (todo st)
                = length sh * length cands;
    rf_bal_ok : length (got_ok st) + need_ok st = length sh * length cands;
    rf_bal_err : length (got_err st) + need_err st = length sh * length cands
  }.

  Lemma reach sh cands sigma st :
    RUN (foreign_init track MV sh cands) sigma = Some st -> reach_facts sh cands st.
  Proof.
    intros H. pose proof (foreign_init_wf sh cands) as Hwf0.
    destruct (run_wf sigma _ _ Hwf0 H) as (Hwf & Hsh). cbn in Hsh.
    pose proof (run_mass_ok (res MV) okf (fun x => x) sigma _ _ (fun _ _ => eq_refl) Hwf0 H) as Hok.
    pose proof (run_mass_err err errf (fun x => x) sigma _ _ (fun _ _ => eq_refl) Hwf0 H) as Herr.
    pose proof (run_mass_ok unit unit_f unit_k sigma _ _ (fun _ _ => eq_refl) Hwf0 H) as Hcok.
    pose proof (run_mass_err unit unit_f unit_e sigma _ _ (fun _ _ => eq_refl) Hwf0 H) as Hcerr.
    pose proof (balance_run sigma _ _ Hwf0 H) as Hbal.
    apply Permutation_length in Hcok. apply Permutation_length in Hcerr.
    unfold mass_ok, mass_err in Hcok, Hcerr.
    rewrite !app_length, !length_flat_map_unit in Hcok. rewrite !app_length, !length_flat_map_unit in Hcerr.
    unfold foreign_init in Hcok, Hcerr, Hok, Herr, Hbal; cbn [got_ok got_err ok_chan err_chan shards queues todo] in *.
    rewrite pend_repeat_nil in Hcok. rewrite pend_repeat_nil in Hcerr. unfold work in Hcok, Hcerr.
    rewrite !length_flat_map_unit, enq_list_length in Hcok. rewrite !length_flat_map_unit, enq_list_length in Hcerr. cbn [length] in Hcok, Hcerr.
    unfold mass_ok in Hok. unfold mass_err in Herr.
    cbn [got_ok got_err ok_chan err_chan shards queues todo flat_map] in Hok, Herr.
    rewrite pend_repeat_nil in Hok. rewrite pend_repeat_nil in Herr. cbn [app] in Hok, Herr.
    rewrite okf_all_shards in Hok. rewrite errf_all_shards in Herr.
    unfold balance in Hbal. cbn in Hbal. injection Hbal as Hb1 Hb2.
    constructor; try assumption; lia.
  Qed.

  Lemma final_empty sh cands st :
    reach_facts sh cands st -> FINAL st = true ->
    todo st = [] /\ ok_chan st = [] /\ err_chan st = [] /\
    length (pend unit_f (shards st) (queues st)) = 0 /\
    length (got_ok st) = length sh * length cands /\ length (got_err st) = length sh * length cands.
  Proof.
    intros R F. unfold dfinal in F.
    destruct (pre st); [discriminate|]. destruct (todo st) eqn:Et; [|discriminate].
    destruct (need_ok st) eqn:E1; [|discriminate]. destruct (need_err st) eqn:E2; [|discriminate].
    pose proof (rf_cnt_ok _ _ _ R) as C1. pose proof (rf_cnt_err _ _ _ R) as C2.
    pose proof (rf_bal_ok _ _ _ R) as B1. pose proof (rf_bal_err _ _ _ R) as B2.
    rewrite Et in C1, C2. cbn [length] in C1, C2. rewrite E1 in B1. rewrite E2 in B2.
    repeat split; try lia.
    - destruct (ok_chan st); [reflexivity|cbn in C1; lia].
    - destruct (err_chan st); [reflexivity|cbn in C2; lia].
  Qed.

  (* ---- the theorems ---------------------------------------------------------------------------------- *)

  Lemma foreign_query_exact_lemma sh cands sigma st :
    RUN (foreign_init track MV sh cands) sigma = Some st -> FINAL st = true ->
    Permutation (concat (got_ok st)) (OKSPEC (concat sh) cands cls ob) /\
    Permutation (concat (got_err st)) (ERRSPEC (concat sh) cands cls ob) /\
    shards st = sh.
  Proof.
    intros H F. pose proof (reach _ _ _ _ H) as R.
    destruct (final_empty _ _ _ R F) as (Et & Eo & Ee & Ep & _ & _).
    pose proof (rf_ok _ _ _ R) as Hok. pose proof (rf_err _ _ _ R) as Herr.
    unfold mass_ok in Hok. unfold mass_err in Herr. rewrite Et, Eo in Hok. rewrite Et, Ee in Herr.
    rewrite (pend_unit_zero okf _ _ Ep) in Hok. rewrite (pend_unit_zero errf _ _ Ep) in Herr.
    cbn [flat_map work app] in Hok, Herr. rewrite !app_nil_r in Hok, Herr.
    rewrite flat_map_id_concat in Hok. rewrite flat_map_id_concat in Herr.
    repeat split; try assumption. apply (rf_shards _ _ _ R).
  Qed.

  Lemma chunk_count_lemma sh cands sigma st :
    RUN (foreign_init track MV sh cands) sigma = Some st -> FINAL st = true ->
    length (got_ok st) = length sh * length cands /\ length (got_err st) = length sh * length cands /\
    ok_chan st = [] /\ err_chan st = [] /\ Forall (fun q => q = []) (queues st).
  Proof.
    intros H F. pose proof (reach _ _ _ _ H) as R.
    destruct (final_empty _ _ _ R F) as (Et & Eo & Ee & Ep & L1 & L2).
    repeat split; try assumption.
    destruct (rf_wf _ _ _ R) as (Hlen & _ & _).
    revert Hlen Ep. generalize (queues st), (shards st). intros qs ss. revert ss.
    induction qs as [|q qs IH]; intros ss Hlen Ep; [constructor|].
    destruct ss as [|s ss]; [discriminate|]. unfold pend in Ep. cbn [combine flat_map fst snd] in Ep.
    rewrite app_length in Ep. constructor.
    - destruct q; [reflexivity|cbn in Ep; lia].
    - apply (IH ss); [now injection Hlen|]. unfold pend. lia.
  Qed.

  (* never reads more chunks than were produced: in every reachable state *)
  Lemma never_over_read_lemma sh cands sigma st :
    RUN (foreign_init track MV sh cands) sigma = Some st ->
    need_ok st = length (ok_chan st) + length (pend unit_f (shards st) (queues st)) + length (todo st) /\
    need_err st = length (err_chan st) + length (pend unit_f (shards st) (queues st)) + length (todo st).
  Proof.
    intros H. pose proof (reach _ _ _ _ H) as R.
    pose proof (rf_cnt_ok _ _ _ R). pose proof (rf_cnt_err _ _ _ R).
    pose proof (rf_bal_ok _ _ _ R). pose proof (rf_bal_err _ _ _ R). lia.
  Qed.

  Lemma query_no_deadlock_lemma sh cands sigma st :
    RUN (foreign_init track MV sh cands) sigma = Some st -> FINAL st = false ->
    exists l st', FIRE st l = Some st'.
  Proof.
    intros H F. pose proof (reach _ _ _ _ H) as R.
    destruct (never_over_read_lemma _ _ _ _ H) as (N1 & N2).
    destruct (rf_wf _ _ _ R) as (Hlen & Hpre & Htodo).
    unfold dfinal in F. rewrite Hpre in F.
    destruct (todo st) as [|[k c] rest] eqn:Et.
    - cbn [length] in N1, N2.
      assert (Hq : 0 < length (pend unit_f (shards st) (queues st)) ->
                   exists l st', FIRE st l = Some st').
      { intro Hp. destruct (pend_unit_pos _ _ Hlen Hp) as (k & c & q & Hk).
        exists (DExec k). cbn. rewrite Hk. eauto. }
      destruct (need_ok st) eqn:E1.
      + destruct (need_err st) eqn:E2; [discriminate|].
        destruct (err_chan st) eqn:Ec.
        * apply Hq. cbn in N2. lia.
        * exists DRecvErr. cbn. rewrite E2, Ec. eauto.
      + destruct (ok_chan st) eqn:Ec.
        * apply Hq. cbn in N1. lia.
        * exists DRecvOk. cbn. rewrite E1, Ec. eauto.
    - inversion Htodo as [|x l Hk _]; subst. cbn in Hk. rewrite <- Hlen in Hk.
      destruct (nth_error (queues st) k) as [q|] eqn:Eq.
      + exists (DEnq k). cbn. rewrite Hpre, Et, Nat.eqb_refl, Eq. eauto.
      + apply nth_error_None in Eq. lia.
  Qed.

  (* every step strictly decreases this measure: every run terminates *)
  Definition dmeasure (st : state) : nat :=
    (match pre st with Some _ => 1 | None => 0 end) +
    4 * length (todo st) + 3 * length (concat (queues st)) + length (ok_chan st) + length (err_chan st)
    + need_ok st + need_err st.

  Lemma concat_set_nth_length {A} (qs : list (list A)) : forall k q q',
    nth_error qs k = Some q ->
    length (concat (set_nth k q' qs)) + length q = length (concat qs) + length q'.
  Proof.
    induction qs as [|q0 qs IH]; intros k q q' H; [destruct k; discriminate|].
    destruct k; cbn in *.
    - injection H as ->. rewrite !app_length. lia.
    - rewrite !app_length. specialize (IH k q q' H). lia.
  Qed.

  Lemma measure_decreases_lemma st l st' :
    pre st = None -> FIRE st l = Some st' -> dmeasure st' < dmeasure st.
  Proof.
    intros Hpre H. destruct l as [| k | k | |]; cbn in H.
    - rewrite Hpre in H. discriminate.
    - rewrite Hpre in H. destruct (todo st) as [|[k' c] rest] eqn:Et; [discriminate|].
      destruct (Nat.eqb k k'); [|discriminate].
      destruct (nth_error (queues st) k) as [q|] eqn:Eq; [|discriminate]. injection H as <-.
      unfold dmeasure; cbn [pre todo queues ok_chan err_chan need_ok need_err]. rewrite Hpre, Et.
      pose proof (concat_set_nth_length (queues st) k q (q ++ [c]) Eq) as L. rewrite app_length in L.
      cbn [length] in *. lia.
    - destruct (nth_error (queues st) k) as [[|c q]|] eqn:Eq; try discriminate. injection H as <-.
      unfold dmeasure; cbn [pre todo queues ok_chan err_chan need_ok need_err].
      pose proof (concat_set_nth_length (queues st) k (c :: q) q Eq) as L.
      rewrite !app_length. cbn [length] in *. lia.
    - destruct (need_ok st) eqn:E1; [discriminate|]. destruct (ok_chan st) eqn:Ec; [discriminate|].
      injection H as <-. unfold dmeasure; cbn [pre todo queues ok_chan err_chan need_ok need_err].
      rewrite E1, Ec. cbn [length]. lia.
    - destruct (need_err st) eqn:E1; [discriminate|]. destruct (err_chan st) eqn:Ec; [discriminate|].
      injection H as <-. unfold dmeasure; cbn [pre todo queues ok_chan err_chan need_ok need_err].
      rewrite E1, Ec. cbn [length]. lia.
  Qed.

  (* ---- owned query ------------------------------------------------------------------------------------ *)
  Lemma owned_run_shape sh ids sigma st :
    RUN (owned_init track MV sh ids) sigma = Some st ->
    (sigma = [] /\ st = owned_init track MV sh ids) \/
    exists sigma', sigma = DCopy :: sigma' /\
                   RUN (foreign_init track MV sh (owned_cands track tid sh ids)) sigma' = Some st.
  Proof.
    destruct sigma as [|l sigma]; intros H; cbn in H.
    - left. split; [reflexivity|]. now injection H.
    - right. destruct l as [| k | k | |]; cbn in H.
      + exists sigma. split; [reflexivity|]. exact H.
      + discriminate.
      + assert (E : nth_error (repeat (@nil track) (length sh)) k = None \/
                    nth_error (repeat (@nil track) (length sh)) k = Some []).
        { destruct (nth_error (repeat [] (length sh)) k) eqn:E; [|auto]. right.
          apply nth_error_In, repeat_spec in E. now subst. }
        destruct E as [E|E]; rewrite E in H; discriminate.
      + discriminate.
      + discriminate.
  Qed.

  Lemma owned_query_exact_lemma sh ids sigma st :
    RUN (owned_init track MV sh ids) sigma = Some st -> FINAL st = true ->
    Permutation (concat (got_ok st)) (OKSPEC (concat sh) (owned_cands track tid sh ids) cls ob) /\
    Permutation (concat (got_err st)) (ERRSPEC (concat sh) (owned_cands track tid sh ids) cls ob) /\
    shards st = sh.
  Proof.
    intros H F. destruct (owned_run_shape _ _ _ _ H) as [(-> & ->)|(sigma' & -> & H')].
    - discriminate.
    - eapply foreign_query_exact_lemma; eauto.
  Qed.

  Lemma owned_no_deadlock_lemma sh ids sigma st :
    RUN (owned_init track MV sh ids) sigma = Some st -> FINAL st = false ->
    exists l st', FIRE st l = Some st'.
  Proof.
    intros H F. destruct (owned_run_shape _ _ _ _ H) as [(-> & ->)|(sigma' & -> & H')].
    - exists DCopy. cbn. eauto.
    - eapply query_no_deadlock_lemma; eauto.
  Qed.

  (* the queried tracks are the stored tracks themselves *)
  Lemma find_track_in sh id t : find_track track tid sh id = Some t -> In t (concat sh) /\ tid t = id.
  Proof.
    unfold find_track. intro H. apply find_some in H. destruct H as (Hin & Heq).
    apply N.eqb_eq in Heq. split; [|exact Heq].
    set (k := N.to_nat (id mod N.of_nat (length sh))) in *.
    destruct (Nat.lt_ge_cases k (length sh)) as [Hk|Hk].
    - apply in_concat. exists (nth k sh []). split; [apply nth_In; exact Hk|exact Hin].
    - rewrite nth_overflow in Hin by exact Hk. destruct Hin.
  Qed.

  Lemma owned_cands_in sh ids c : In c (owned_cands track tid sh ids) -> In c (concat sh) /\ In (tid c) ids.
  Proof.
    unfold owned_cands. intro H. apply in_flat_map in H. destruct H as (id & Hid & Hc).
    destruct (find_track track tid sh id) as [t|] eqn:E; cbn in Hc; [|destruct Hc].
    destruct Hc as [<-|[]]. destruct (find_track_in _ _ _ E) as (Hin & <-). auto.
  Qed.

  (* a store is well sharded when every track lives in shard id mod n and ids are unique *)
  Definition well_sharded (sh : list (list track)) : Prop :=
    (forall k t, In t (nth k sh []) -> N.to_nat (N.modulo (tid t) (N.of_nat (length sh))) = k) /\
    NoDup (map tid (concat sh)).

  Lemma find_unique (l : list track) t :
    NoDup (map tid l) -> In t l -> find (fun x => N.eqb (tid x) (tid t)) l = Some t.
  Proof.
    induction l as [|a l IH]; intros Hnd Hin; [destruct Hin|].
    cbn in Hnd. inversion Hnd as [|x y Hni Hnd']; subst. cbn.
    destruct Hin as [->|Hin].
    - now rewrite N.eqb_refl.
    - destruct (N.eqb (tid a) (tid t)) eqn:E.
      + apply N.eqb_eq in E. exfalso. apply Hni. rewrite E. now apply in_map.
      + now apply IH.
  Qed.

  Lemma NoDup_app_parts {A} (l l' : list A) : NoDup (l ++ l') -> NoDup l /\ NoDup l'.
  Proof.
    induction l as [|a l IH]; cbn; intro H; [split; [constructor|exact H]|].
    inversion H as [|x y Hni Hnd]; subst. destruct (IH Hnd) as (H1 & H2). split; [|exact H2].
    constructor; [|exact H1]. intro Hin. apply Hni, in_or_app. now left.
  Qed.

  Lemma NoDup_map_concat_nth (sh : list (list track)) k :
    NoDup (map tid (concat sh)) -> NoDup (map tid (nth k sh [])).
  Proof.
    revert k. induction sh as [|s sh IH]; intros k H.
    - destruct k; constructor.
    - cbn in H. rewrite map_app in H. destruct k; cbn.
      + apply (NoDup_app_parts _ _ H).
      + apply IH. apply (NoDup_app_parts _ _ H).
  Qed.

  Lemma owned_cands_complete sh ids t :
    well_sharded sh -> In t (concat sh) -> In (tid t) ids -> In t (owned_cands track tid sh ids).
  Proof.
    intros (Hws & Hnd) Hin Hid. unfold owned_cands. apply in_flat_map. exists (tid t). split; [exact Hid|].
    apply in_concat in Hin. destruct Hin as (s & Hs & Ht).
    apply In_nth with (d := []) in Hs. destruct Hs as (k & Hk & <-).
    unfold find_track. rewrite (Hws k t Ht).
    rewrite (find_unique _ t (NoDup_map_concat_nth sh k Hnd) Ht). cbn. auto.
  Qed.

  Lemma in_ok_spec all cands c o r :
    In c cands -> In o all -> ELIG c ob o = true -> In r (PAIROK c cls o) -> In r (OKSPEC all cands cls ob).
  Proof.
    intros Hc Ho He Hr. unfold ok_spec. apply in_flat_map. exists c. split; [exact Hc|].
    apply in_flat_map. exists o. split; [exact Ho|]. now rewrite He.
  Qed.

  Lemma owned_query_mutual_lemma sh ids sigma st c1 c2 r :
    RUN (owned_init track MV sh ids) sigma = Some st -> FINAL st = true ->
    In c1 (owned_cands track tid sh ids) -> In c2 (owned_cands track tid sh ids) ->
    ELIG c1 ob c2 = true -> In r (PAIROK c1 cls c2) -> In r (concat (got_ok st)).
  Proof.
    intros H F H1 H2 He Hr. destruct (owned_query_exact_lemma _ _ _ _ H F) as (Hok & _ & _).
    eapply Permutation_in; [symmetry; exact Hok|].
    eapply (in_ok_spec _ _ c1 c2); eauto. apply (owned_cands_in _ _ _ H2).
  Qed.

  (* ---- reading aids for the specification ----------------------------------------------------------- *)
  Lemma spec_no_self_pairs_lemma all cands r :
    (forall c l x, In x (postprocess c l) -> In x l) ->
    In r (OKSPEC all cands cls ob) -> fst (fst r) <> snd (fst r).
  Proof.
    intros Hpp H. unfold ok_spec in H. apply in_flat_map in H. destruct H as (c & _ & H).
    apply in_flat_map in H. destruct H as (o & _ & H).
    destruct (ELIG c ob o) eqn:E; [|destruct H].
    unfold pair_ok in H. destruct (observations c cls); [|destruct H].
    destruct (observations o cls); [|destruct H].
    apply Hpp in H. apply in_flat_map in H. destruct H as (lr & _ & H).
    unfold pair_metric in H. destruct (metric cls c (fst lr) o (snd lr)); [|destruct H].
    destruct H as [<-|[]]. cbn.
    unfold eligible in E. apply andb_prop in E. destruct E as (E & _). apply andb_prop in E. destruct E as (E & _).
    apply negb_true_iff, N.eqb_neq in E. exact E.
  Qed.

  Lemma spec_one_per_observation_pair_lemma c o l r :
    (forall c l, postprocess c l = l) ->
    observations c cls = Some l -> observations o cls = Some r ->
    PAIROK c cls o =
    flat_map (fun a => flat_map (fun b => match metric cls c a o b with
                                          | Some v => [(tid c, tid o, v)] | None => [] end) r) l.
  Proof.
    intros Hpp Hl Hr. unfold pair_ok. rewrite Hl, Hr, Hpp.
    clear Hl. induction l as [|a l IH]; cbn; [reflexivity|].
    rewrite flat_map_app, IH. f_equal.
    rewrite flat_map_concat_map, map_map, <- flat_map_concat_map. reflexivity.
  Qed.

  Lemma spec_perm_store all all' cands :
    Permutation all all' ->
    Permutation (OKSPEC all cands cls ob) (OKSPEC all' cands cls ob) /\
    Permutation (ERRSPEC all cands cls ob) (ERRSPEC all' cands cls ob).
  Proof.
    intro P. unfold ok_spec, err_spec. split.
    - induction cands as [|c cands IH]; cbn; [constructor|].
      apply Permutation_app; [|exact IH]. now apply Permutation_flat_map_l.
    - induction cands as [|c cands IH]; cbn; [constructor|].
      apply Permutation_app; [|exact IH]. now apply Permutation_flat_map_l.
  Qed.

  Lemma query_schedule_independent_lemma sh cands s1 s2 st1 st2 :
    RUN (foreign_init track MV sh cands) s1 = Some st1 -> FINAL st1 = true ->
    RUN (foreign_init track MV sh cands) s2 = Some st2 -> FINAL st2 = true ->
    Permutation (concat (got_ok st1)) (concat (got_ok st2)) /\
    Permutation (concat (got_err st1)) (concat (got_err st2)).
  Proof.
    intros H1 F1 H2 F2.
    destruct (foreign_query_exact_lemma _ _ _ _ H1 F1) as (A1 & B1 & _).
    destruct (foreign_query_exact_lemma _ _ _ _ H2 F2) as (A2 & B2 & _).
    split; [rewrite A1, A2|rewrite B1, B2]; reflexivity.
  Qed.

  Lemma query_shard_independent_lemma sh1 sh2 cands s1 s2 st1 st2 :
    Permutation (concat sh1) (concat sh2) ->
    RUN (foreign_init track MV sh1 cands) s1 = Some st1 -> FINAL st1 = true ->
    RUN (foreign_init track MV sh2 cands) s2 = Some st2 -> FINAL st2 = true ->
    Permutation (concat (got_ok st1)) (concat (got_ok st2)) /\
    Permutation (concat (got_err st1)) (concat (got_err st2)).
  Proof.
    intros P H1 F1 H2 F2.
    destruct (foreign_query_exact_lemma _ _ _ _ H1 F1) as (A1 & B1 & _).
    destruct (foreign_query_exact_lemma _ _ _ _ H2 F2) as (A2 & B2 & _).
    destruct (spec_perm_store _ _ cands P) as (PA & PB).
    split; [rewrite A1, A2|rewrite B1, B2]; assumption.
  Qed.

  (* ---- the store's own sharding ------------------------------------------------------------------------ *)
  Lemma concat_map_nil {A B} (ks : list A) : concat (map (fun _ => @nil B) ks) = [].
  Proof. induction ks; cbn; auto. Qed.

  Lemma concat_insert_one {A} (F : nat -> list A) (t : A) (k0 : nat) (ks : list nat) :
    NoDup ks -> In k0 ks ->
    Permutation (concat (map (fun k => if Nat.eqb k0 k then t :: F k else F k) ks)) (t :: concat (map F ks)).
  Proof.
    induction ks as [|k ks IH]; intros Hnd Hin; [destruct Hin|].
    inversion Hnd as [|x y Hni Hnd']; subst. cbn [map concat].
    destruct (Nat.eqb k0 k) eqn:E.
    - apply Nat.eqb_eq in E. subst k. cbn. constructor.
      assert (Hm : map (fun k => if Nat.eqb k0 k then t :: F k else F k) ks = map F ks).
      { apply map_ext_in. intros k Hk. destruct (Nat.eqb k0 k) eqn:E; [|reflexivity].
        apply Nat.eqb_eq in E. subst. contradiction. }
      rewrite Hm. reflexivity.
    - destruct Hin as [->|Hin]; [rewrite Nat.eqb_refl in E; discriminate|].
      rewrite (IH Hnd' Hin). apply Permutation_sym, Permutation_middle.
  Qed.

  Lemma concat_distribute n (all : list track) :
    0 < n -> Permutation (concat (distribute track tid n all)) all.
  Proof.
    intro Hn. unfold distribute. induction all as [|t all IH].
    - cbn. rewrite concat_map_nil. constructor.
    - set (k0 := N.to_nat (tid t mod N.of_nat n)).
      assert (Hk0 : In k0 (seq 0 n)).
      { apply in_seq. split; [lia|]. cbn. unfold k0.
        assert (tid t mod N.of_nat n < N.of_nat n)%N by (apply N.mod_lt; lia). lia. }
      transitivity (t :: concat (map (fun k => filter (fun x => Nat.eqb (N.to_nat (tid x mod N.of_nat n)) k) all) (seq 0 n))).
      + rewrite <- (concat_insert_one (fun k => filter (fun x => Nat.eqb (N.to_nat (tid x mod N.of_nat n)) k) all) t k0 (seq 0 n) (seq_NoDup n 0) Hk0).
        apply Permutation_refl'. apply f_equal. apply map_ext. intro k. cbn [filter]. reflexivity.
      + constructor. exact IH.
  Qed.

  Lemma distribute_length n (all : list track) : length (distribute track tid n all) = n.
  Proof. unfold distribute. now rewrite map_length, seq_length. Qed.

  Lemma nth_map_seq {A} (F : nat -> A) n k d : k < n -> nth k (map F (seq 0 n)) d = F k.
  Proof.
    intros Hk. rewrite nth_indep with (d' := F 0) by (rewrite map_length, seq_length; lia).
    rewrite map_nth, seq_nth by lia. reflexivity.
  Qed.

  Lemma distribute_well_sharded n (all : list track) :
    NoDup (map tid all) -> 0 < n -> well_sharded (distribute track tid n all).
  Proof.
    intros Hnd Hn. split.
    - intros k t Hin. rewrite distribute_length. unfold distribute in Hin.
      destruct (Nat.lt_ge_cases k n) as [Hk|Hk].
      + rewrite nth_map_seq in Hin by exact Hk.
        apply filter_In in Hin. destruct Hin as (_ & E). now apply Nat.eqb_eq in E.
      + rewrite nth_overflow in Hin by (now rewrite map_length, seq_length). destruct Hin.
    - eapply Permutation_NoDup; [|exact Hnd]. apply Permutation_map, Permutation_sym, concat_distribute. exact Hn.
  Qed.
End DistProofs.

(* ---------------------------------------------------------------------------------------------------- *)
(* The legacy shape of owned_track_distances violates the property: witness on the scripted algebra.      *)
Module LegacyWitness.
  Import DistInst Legacy.

  Definition w_t1 := mkT 1 0 1 [(0%N, [1%N])].
  Definition w_t2 := mkT 2 0 1 [(0%N, [2%N])].
  Definition w_store : list (list trk) := [[w_t1; w_t2]].
  (* both workers' commands run between the fetch and the re-add *)
  Definition w_bad : list llabel :=
    [LFetch; LStep (DEnq 0); LStep (DEnq 0); LStep (DExec 0); LStep (DExec 0); LReAdd;
     LStep DRecvOk; LStep DRecvOk; LStep DRecvErr; LStep DRecvErr].
  (* the re-add happens before the workers run *)
  Definition w_good : list llabel :=
    [LFetch; LStep (DEnq 0); LStep (DEnq 0); LReAdd; LStep (DExec 0); LStep (DExec 0);
     LStep DRecvOk; LStep DRecvOk; LStep DRecvErr; LStep DRecvErr].

  Lemma owned_query_refuted_lemma :
    exists sh ids cls ob sigma s,
      lrun cls ob (legacy_init sh ids) sigma = Some s /\ lfinal s = true /\
      ~ Permutation (concat (got_ok (base s))) (okspec (concat sh) (owned_cands trk t_id sh ids) cls ob).
  Proof.
    exists w_store, [1%N; 2%N], 0%N, false, w_bad.
    eexists. split; [vm_compute; reflexivity|]. split; [vm_compute; reflexivity|].
    intro P. apply Permutation_length in P. vm_compute in P. discriminate.
  Qed.

  Lemma legacy_schedule_dependent_lemma :
    exists sh ids cls ob s1 s2 r1 r2,
      lrun cls ob (legacy_init sh ids) s1 = Some r1 /\ lfinal r1 = true /\
      lrun cls ob (legacy_init sh ids) s2 = Some r2 /\ lfinal r2 = true /\
      length (concat (got_ok (base r1))) <> length (concat (got_ok (base r2))).
  Proof.
    exists w_store, [1%N; 2%N], 0%N, false, w_bad, w_good.
    do 2 eexists.
    split; [vm_compute; reflexivity|].
    split; [vm_compute; reflexivity|].
    split; [vm_compute; reflexivity|].
    split; [vm_compute; reflexivity|].
    vm_compute. discriminate.
  Qed.
End LegacyWitness.

(* ---------------------------------------------------------------------------------------------------- *)
(* C05: composition - shard count and worker schedule do not influence what a simple tracker reports      *)
Section PredictProofs.
  Variable track : Type.
  Variable OBS : Type.
  Variable MV : Type.
  Variable tid : track -> N.
  Variable compatible : track -> track -> bool.
  Variable baked : track -> status.
  Variable observations : track -> N -> option (list OBS).
  Variable metric : N -> track -> OBS -> track -> OBS -> option MV.
  Variable postprocess : track -> list (res MV) -> list (res MV).
  Variable cls : N.
  Variable ob : bool.
  Variable TS : Type.
  Variable IN : Type.
  Variable OUT : Type.
  Variable W : Type.
  Variable store_of : TS -> list track.
  Variable cands_of : TS -> IN -> TS * list track.
  Variable winners : list (res MV) -> W.
  Variable commit : TS -> list track -> W -> TS * OUT.
  Variable tie_free : list (res MV) -> Prop.

  (* proved about the voting models elsewhere (C17 / C02: sort_voting_perm_invariant, visual_voting_perm_invariant):
     on a stream without exact ties the winners do not depend on the order of the stream *)
  Hypothesis winners_perm_invariant :
    forall s1 s2, Permutation s1 s2 -> tie_free s1 -> winners s1 = winners s2.

  Notation PREDICT := (predict_rel track OBS MV tid compatible baked observations metric postprocess cls ob
                                   TS IN OUT W store_of cands_of winners commit).
  Notation HISTORY := (history_rel track OBS MV tid compatible baked observations metric postprocess cls ob
                                   TS IN OUT W store_of cands_of winners commit).
  Notation TFCALL := (tie_free_call track OBS MV tid compatible baked observations metric postprocess cls ob
                                    TS IN store_of cands_of tie_free).
  Notation TFHIST := (tie_free_history track OBS MV tid compatible baked observations metric postprocess cls ob
                                       TS IN OUT W store_of cands_of winners commit tie_free).

  Lemma predict_winners n ts inp sigma st :
    0 < n ->
    drun track OBS MV tid compatible baked observations metric postprocess cls ob
         (foreign_init track MV (distribute track tid n (store_of (fst (cands_of ts inp)))) (snd (cands_of ts inp))) sigma = Some st ->
    dfinal track MV st = true -> TFCALL ts inp ->
    winners (concat (got_ok st)) =
    winners (ok_spec track OBS MV tid compatible baked observations metric postprocess
                     (store_of (fst (cands_of ts inp))) (snd (cands_of ts inp)) cls ob).
  Proof.
    intros Hn H F T. symmetry. apply winners_perm_invariant; [|exact T].
    destruct (foreign_query_exact_lemma _ _ _ _ _ _ _ _ _ _ _ _ _ _ _ H F) as (P & _ & _).
    rewrite P. symmetry.
    apply (spec_perm_store track OBS MV tid compatible baked observations metric postprocess cls ob).
    now apply concat_distribute.
  Qed.

  Lemma predict_independent_lemma n1 n2 ts inp t1 o1 t2 o2 :
    0 < n1 -> 0 < n2 -> TFCALL ts inp ->
    PREDICT n1 ts inp t1 o1 -> PREDICT n2 ts inp t2 o2 -> t1 = t2 /\ o1 = o2.
  Proof.
    intros H1 H2 T P1 P2. destruct P1 as [s1 st1 R1 F1]. destruct P2 as [s2 st2 R2 F2].
    rewrite (predict_winners n1 ts inp s1 st1 H1 R1 F1 T), (predict_winners n2 ts inp s2 st2 H2 R2 F2 T). auto.
  Qed.

  Lemma history_independent_lemma n1 n2 ins : forall ts t1 os1 t2 os2,
    0 < n1 -> 0 < n2 -> TFHIST n1 ts ins ->
    HISTORY n1 ts ins t1 os1 -> HISTORY n2 ts ins t2 os2 -> t1 = t2 /\ os1 = os2.
  Proof.
    induction ins as [|inp ins IH]; intros ts t1 os1 t2 os2 H1 H2 T R1 R2.
    - inversion R1; inversion R2; subst. auto.
    - inversion R1 as [|? ? ? ts1 o1 ? os1' P1 R1']; subst.
      inversion R2 as [|? ? ? ts1' o2 ? os2' P2 R2']; subst.
      inversion T as [|? ? ? Tc Tn]; subst.
      destruct (predict_independent_lemma n1 n2 ts inp ts1 o1 ts1' o2 H1 H2 Tc P1 P2) as (<- & <-).
      destruct (IH ts1 t1 os1' t2 os2' H1 H2 (Tn _ _ P1) R1' R2') as (<- & <-). auto.
  Qed.
End PredictProofs.
