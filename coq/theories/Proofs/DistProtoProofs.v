(* Lemmas about Model/DistProto.v: every complete interleaving of a distance query delivers exactly the
   specified multiset, for all stores, candidate batches, shard counts, user callbacks. *)
From Coq Require Import List NArith Bool Arith Lia Permutation.
From Similari Require Import Model.DistProto.
Import ListNotations.

(* ---------------------------------------------------------------------------------------------------- *)
(* generic list facts                                                                                    *)

Lemma flat_map_flat_map {A B C} (f : A -> list B) (g : B -> list C) (l : list A) :
  flat_map g (flat_map f l) = flat_map (fun a => flat_map g (f a)) l.
Proof.
  induction l as [|a l IH]; cbn; [reflexivity|].
  rewrite flat_map_app, IH. reflexivity.
Qed.

Lemma flat_map_concat {A B} (f : A -> list B) (ls : list (list A)) :
  flat_map f (concat ls) = flat_map (flat_map f) ls.
Proof.
  induction ls as [|l ls IH]; cbn; [reflexivity|].
  rewrite flat_map_app, IH. reflexivity.
Qed.

Lemma flat_map_id_concat {A} (ls : list (list A)) : flat_map (fun x => x) ls = concat ls.
Proof. induction ls as [|l ls IH]; cbn; [reflexivity|]. now rewrite IH. Qed.

Lemma map_nth_seq {A} (d : A) (l : list A) : map (fun k => nth k l d) (seq 0 (length l)) = l.
Proof.
  induction l as [|a l IH]; cbn [length seq map]; [reflexivity|].
  cbn [nth]. f_equal. rewrite <- seq_shift, map_map. cbn [nth]. exact IH.
Qed.

Lemma flat_map_nth_seq {A B} (d : A) (g : A -> list B) (l : list A) :
  flat_map (fun k => g (nth k l d)) (seq 0 (length l)) = flat_map g l.
Proof.
  rewrite (flat_map_concat_map (fun k => g (nth k l d))).
  rewrite <- (map_map (fun k => nth k l d) g), map_nth_seq.
  now rewrite <- flat_map_concat_map.
Qed.

Lemma set_nth_length {A} (k : nat) (x : A) (l : list A) : length (set_nth k x l) = length l.
Proof.
  revert k; induction l as [|a l IH]; intros k; cbn; [reflexivity|].
  destruct k; cbn; [reflexivity|]. now rewrite IH.
Qed.

Lemma nth_error_set_nth_same {A} (k : nat) (x y : A) (l : list A) :
  nth_error l k = Some y -> nth_error (set_nth k x l) k = Some x.
Proof.
  revert k; induction l as [|a l IH]; intros k H; destruct k; cbn in *; try discriminate; auto.
Qed.

Lemma set_nth_set_nth {A} (k : nat) (x y : A) (l : list A) : set_nth k x (set_nth k y l) = set_nth k x l.
Proof.
  revert k; induction l as [|a l IH]; intros k; cbn; [reflexivity|].
  destruct k; cbn; [reflexivity|]. now rewrite IH.
Qed.

Lemma Permutation_flat_map_l {A B} (f : A -> list B) (l l' : list A) :
  Permutation l l' -> Permutation (flat_map f l) (flat_map f l').
Proof.
  induction 1 as [|x l l' H IH|x y l|l l' l'' H1 IH1 H2 IH2]; cbn.
  - constructor.
  - now apply Permutation_app_head.
  - rewrite !app_assoc. apply Permutation_app_tail, Permutation_app_comm.
  - now transitivity (flat_map f l').
Qed.

(* ---------------------------------------------------------------------------------------------------- *)
(* pending work of the queues                                                                            *)

Section Pend.
  Context {T B : Type}.
  Variable f : T -> list T -> list B.

  Definition pend (sh : list (list T)) (qs : list (list T)) : list B :=
    flat_map (fun sq => flat_map (fun c => f c (fst sq)) (snd sq)) (combine sh qs).

  Definition work (sh : list (list T)) (items : list (nat * T)) : list B :=
    flat_map (fun kc => f (snd kc) (nth (fst kc) sh [])) items.

  Lemma pend_split sh : forall qs k q,
      length qs = length sh -> nth_error qs k = Some q ->
      Permutation (pend sh qs) (flat_map (fun c => f c (nth k sh [])) q ++ pend sh (set_nth k [] qs)).
  Proof.
    induction sh as [|s sh IH]; intros qs k q Hlen Hk.
    - destruct qs; [destruct k; discriminate|discriminate].
    - destruct qs as [|q0 qs]; [discriminate|].
      destruct k as [|k].
      + cbn in Hk. injection Hk as ->. unfold pend. cbn. reflexivity.
      + cbn in Hk. cbn in Hlen. injection Hlen as Hlen.
        specialize (IH qs k q Hlen Hk).
        unfold pend in *. cbn [combine flat_map set_nth fst snd nth].
        rewrite IH. rewrite !app_assoc. apply Permutation_app_tail, Permutation_app_comm.
  Qed.

  Lemma pend_repeat_nil sh n : pend sh (repeat [] n) = [].
  Proof.
    revert n; induction sh as [|s sh IH]; intros n; destruct n; cbn; try reflexivity.
    unfold pend in *. cbn. apply IH.
  Qed.
End Pend.

Lemma pend_unit_zero {T B} (f : T -> list T -> list B) sh : forall qs,
    length (pend (fun _ _ => [tt]) sh qs) = 0 -> pend f sh qs = [].
Proof.
  induction sh as [|s sh IH]; intros qs H; [reflexivity|].
  destruct qs as [|q qs]; [reflexivity|].
  unfold pend in *. cbn [combine flat_map fst snd] in *. rewrite app_length in H.
  destruct q as [|c q]; [|cbn in H; lia].
  cbn. apply IH. cbn in H. exact H.
Qed.

Lemma pend_unit_pos {T} sh : forall qs : list (list T),
    length qs = length sh -> 0 < length (pend (fun _ _ => [tt]) sh qs) ->
    exists k c q, nth_error qs k = Some (c :: q).
Proof.
  induction sh as [|s sh IH]; intros qs Hl H; [destruct qs; cbn in *; [lia|discriminate]|].
  destruct qs as [|q qs]; [discriminate|].
  destruct q as [|c q].
  - unfold pend in H. cbn [combine flat_map fst snd app] in H.
    injection Hl as Hl. destruct (IH qs Hl H) as (k & c & q & Hk).
    exists (S k), c, q. exact Hk.
  - exists 0, c, q. reflexivity.
Qed.

(* ---------------------------------------------------------------------------------------------------- *)

Section DistProofs.
  Variable track : Type.
  Variable OBS : Type.
  Variable MV : Type.
  Variable tid : track -> N.
  Variable compatible : track -> track -> bool.
  Variable baked : track -> status.
  Variable observations : track -> N -> option (list OBS).
  Variable metric : N -> track -> OBS -> track -> OBS -> option MV.
  Variable postprocess : track -> list (res MV) -> list (res MV).
  Variable cls : N.
  Variable ob : bool.

  Notation SD := (shard_distances track OBS MV tid compatible baked observations metric postprocess).
  Notation FIRE := (dfire track OBS MV tid compatible baked observations metric postprocess cls ob).
  Notation RUN := (drun track OBS MV tid compatible baked observations metric postprocess cls ob).
  Notation FINAL := (dfinal track MV).
  Notation OKSPEC := (ok_spec track OBS MV tid compatible baked observations metric postprocess).
  Notation ERRSPEC := (err_spec track OBS tid compatible baked observations).
  Notation ELIG := (eligible track tid compatible baked).
  Notation PAIROK := (pair_ok track OBS MV tid observations metric postprocess).
  Notation PAIRERR := (pair_err track OBS tid observations).
  Notation VISIT := (visit track OBS MV tid compatible baked observations metric postprocess).
  Notation state := (dstate track MV).

  Definition okf (c : track) (sh : list track) : list (res MV) := fst (SD c cls ob sh).
  Definition errf (c : track) (sh : list track) : list err := snd (SD c cls ob sh).

  (* ---- a worker's chunk is the per-shard slice of the specification ------------------------------- *)
  Lemma visit_oks c o :
    flat_map (@oks MV) (opt_list (VISIT c cls ob o)) = if ELIG c ob o then PAIROK c cls o else [].
  Proof.
    unfold visit, eligible, dist_item, distances, pair_ok.
    destruct (N.eqb (tid c) (tid o)); cbn; [reflexivity|].
    destruct ob; cbn.
    - destruct (baked o); cbn; rewrite ?andb_false_r; try reflexivity.
      rewrite andb_true_r.
      destruct (compatible c o); cbn; [|reflexivity].
      destruct (observations c cls); [destruct (observations o cls)|]; cbn; rewrite ?app_nil_r; reflexivity.
    - rewrite andb_true_r. destruct (compatible c o); cbn; [|reflexivity].
      destruct (observations c cls); [destruct (observations o cls)|]; cbn; rewrite ?app_nil_r; reflexivity.
  Qed.

  Lemma visit_errs c o :
    flat_map (@errs MV) (opt_list (VISIT c cls ob o)) = if ELIG c ob o then PAIRERR c cls o else [].
  Proof.
    unfold visit, eligible, dist_item, distances, pair_err.
    destruct (N.eqb (tid c) (tid o)); cbn; [reflexivity|].
    destruct ob; cbn.
    - destruct (baked o); cbn; rewrite ?andb_false_r; try reflexivity.
      rewrite andb_true_r.
      destruct (compatible c o); cbn; [|reflexivity].
      destruct (observations c cls); [destruct (observations o cls)|]; cbn; reflexivity.
    - rewrite andb_true_r. destruct (compatible c o); cbn; [|reflexivity].
      destruct (observations c cls); [destruct (observations o cls)|]; cbn; reflexivity.
  Qed.

  Lemma okf_spec c sh : okf c sh = flat_map (fun o => if ELIG c ob o then PAIROK c cls o else []) sh.
  Proof.
    unfold okf, shard_distances. cbn [fst]. rewrite flat_map_flat_map.
    apply flat_map_ext. intro o. apply visit_oks.
  Qed.

  Lemma errf_spec c sh : errf c sh = flat_map (fun o => if ELIG c ob o then PAIRERR c cls o else []) sh.
  Proof.
    unfold errf, shard_distances. cbn [snd]. rewrite flat_map_flat_map.
    apply flat_map_ext. intro o. apply visit_errs.
  Qed.

  Lemma okf_all_shards sh cands :
    work okf sh (enq_list track (length sh) cands) = OKSPEC (concat sh) cands cls ob.
  Proof.
    unfold work, enq_list, ok_spec. rewrite flat_map_flat_map.
    apply flat_map_ext. intro c.
    rewrite (flat_map_concat_map _ (map _ _)), map_map. cbn [fst snd].
    rewrite <- flat_map_concat_map.
    rewrite (flat_map_nth_seq [] (okf c) sh).
    rewrite flat_map_concat. apply flat_map_ext. intro s. apply okf_spec.
  Qed.

  Lemma errf_all_shards sh cands :
    work errf sh (enq_list track (length sh) cands) = ERRSPEC (concat sh) cands cls ob.
  Proof.
    unfold work, enq_list, err_spec. rewrite flat_map_flat_map.
    apply flat_map_ext. intro c.
    rewrite (flat_map_concat_map _ (map _ _)), map_map. cbn [fst snd].
    rewrite <- flat_map_concat_map.
    rewrite (flat_map_nth_seq [] (errf c) sh).
    rewrite flat_map_concat. apply flat_map_ext. intro s. apply errf_spec.
  Qed.

  (* ---- the conserved quantity ------------------------------------------------------------------------ *)
  Section Mass.
    Variable B : Type.
    Variable f : track -> list track -> list B.
    Variable gk : list (res MV) -> list B.
    Variable ge : list err -> list B.

    Definition mass_ok (st : state) : list B :=
      flat_map gk (got_ok st) ++ flat_map gk (ok_chan st) ++ pend f (shards st) (queues st) ++ work f (shards st) (todo st).

    Definition mass_err (st : state) : list B :=
      flat_map ge (got_err st) ++ flat_map ge (err_chan st) ++ pend f (shards st) (queues st) ++ work f (shards st) (todo st).

    Definition wf (st : state) : Prop :=
      length (queues st) = length (shards st) /\ pre st = None /\
      Forall (fun kc => fst kc < length (shards st)) (todo st).

    Lemma fire_wf st l st' : wf st -> FIRE st l = Some st' -> wf st' /\ shards st' = shards st.
    Proof.
      intros (Hlen & Hpre & Htodo) H.
      destruct l as [| k | k | |]; cbn in H.
      - rewrite Hpre in H. discriminate.
      - rewrite Hpre in H. destruct (todo st) as [|[k' c] rest] eqn:Et; [discriminate|].
        destruct (Nat.eqb k k'); [|discriminate].
        destruct (nth_error (queues st) k); [|discriminate]. injection H as <-. cbn.
        unfold wf; cbn. rewrite set_nth_length. inversion Htodo; subst. auto.
      - destruct (nth_error (queues st) k) as [[|c q]|]; try discriminate. injection H as <-.
        unfold wf; cbn. rewrite set_nth_length. auto.
      - destruct (need_ok st); [discriminate|]. destruct (ok_chan st); [discriminate|]. injection H as <-.
        unfold wf; cbn. auto.
      - destruct (need_err st); [discriminate|]. destruct (err_chan st); [discriminate|]. injection H as <-.
        unfold wf; cbn. auto.
    Qed.

    Lemma mass_ok_step st l st' :
      (forall c sh, gk (okf c sh) = f c sh) ->
      wf st -> FIRE st l = Some st' -> Permutation (mass_ok st') (mass_ok st).
    Proof.
      intros Hg (Hlen & Hpre & Htodo) H.
      destruct l as [| k | k | |]; cbn in H.
      - rewrite Hpre in H. discriminate.
      - rewrite Hpre in H. destruct (todo st) as [|[k' c] rest] eqn:Et; [discriminate|].
        destruct (Nat.eqb k k') eqn:Ek; [|discriminate]. apply Nat.eqb_eq in Ek. subst k'.
        destruct (nth_error (queues st) k) as [q|] eqn:Eq; [|discriminate]. injection H as <-.
        unfold mass_ok; cbn [got_ok ok_chan shards queues todo]. rewrite Et.
        apply Permutation_app_head, Permutation_app_head.
        rewrite (pend_split f (shards st) (queues st) k q Hlen Eq).
        assert (Hq' : nth_error (set_nth k (q ++ [c]) (queues st)) k = Some (q ++ [c]))
          by (eapply nth_error_set_nth_same; eauto).
        rewrite (pend_split f (shards st) _ k (q ++ [c]) (eq_trans (set_nth_length _ _ _) Hlen) Hq').
        rewrite set_nth_set_nth. rewrite flat_map_app. cbn [flat_map work fst snd]. rewrite app_nil_r.
        rewrite <- !app_assoc. apply Permutation_app_head.
        rewrite !app_assoc. apply Permutation_app_tail, Permutation_app_comm.
      - destruct (nth_error (queues st) k) as [[|c q]|] eqn:Eq; try discriminate. injection H as <-.
        unfold mass_ok; cbn [got_ok ok_chan shards queues todo fst].
        apply Permutation_app_head. rewrite flat_map_app. cbn [flat_map]. rewrite app_nil_r.
        fold (okf c (nth k (shards st) [])). rewrite Hg.
        rewrite <- !app_assoc. apply Permutation_app_head.
        rewrite (pend_split f (shards st) (queues st) k (c :: q) Hlen Eq).
        assert (Hq' : nth_error (set_nth k q (queues st)) k = Some q)
          by (eapply nth_error_set_nth_same; eauto).
        rewrite (pend_split f (shards st) _ k q (eq_trans (set_nth_length _ _ _) Hlen) Hq').
        rewrite set_nth_set_nth. cbn [flat_map]. rewrite <- !app_assoc. reflexivity.
      - destruct (need_ok st); [discriminate|]. destruct (ok_chan st) as [|ch rest] eqn:Ec; [discriminate|].
        injection H as <-. unfold mass_ok; cbn [got_ok ok_chan shards queues todo]. rewrite Ec.
        rewrite flat_map_app. cbn [flat_map]. rewrite app_nil_r, <- !app_assoc. reflexivity.
      - destruct (need_err st); [discriminate|]. destruct (err_chan st); [discriminate|].
        injection H as <-. unfold mass_ok; cbn [got_ok ok_chan shards queues todo]. reflexivity.
    Qed.

    Lemma mass_err_step st l st' :
      (forall c sh, ge (errf c sh) = f c sh) ->
      wf st -> FIRE st l = Some st' -> Permutation (mass_err st') (mass_err st).
    Proof.
      intros Hg (Hlen & Hpre & Htodo) H.
      destruct l as [| k | k | |]; cbn in H.
      - rewrite Hpre in H. discriminate.
      - rewrite Hpre in H. destruct (todo st) as [|[k' c] rest] eqn:Et; [discriminate|].
        destruct (Nat.eqb k k') eqn:Ek; [|discriminate]. apply Nat.eqb_eq in Ek. subst k'.
        destruct (nth_error (queues st) k) as [q|] eqn:Eq; [|discriminate]. injection H as <-.
        unfold mass_err; cbn [got_err err_chan shards queues todo]. rewrite Et.
        apply Permutation_app_head, Permutation_app_head.
        rewrite (pend_split f (shards st) (queues st) k q Hlen Eq).
        assert (Hq' : nth_error (set_nth k (q ++ [c]) (queues st)) k = Some (q ++ [c]))
          by (eapply nth_error_set_nth_same; eauto).
        rewrite (pend_split f (shards st) _ k (q ++ [c]) (eq_trans (set_nth_length _ _ _) Hlen) Hq').
        rewrite set_nth_set_nth. rewrite flat_map_app. cbn [flat_map work fst snd]. rewrite app_nil_r.
        rewrite <- !app_assoc. apply Permutation_app_head.
        rewrite !app_assoc. apply Permutation_app_tail, Permutation_app_comm.
      - destruct (nth_error (queues st) k) as [[|c q]|] eqn:Eq; try discriminate. injection H as <-.
        unfold mass_err; cbn [got_err err_chan shards queues todo snd].
        apply Permutation_app_head. rewrite flat_map_app. cbn [flat_map]. rewrite app_nil_r.
        fold (errf c (nth k (shards st) [])). rewrite Hg.
        rewrite <- !app_assoc. apply Permutation_app_head.
        rewrite (pend_split f (shards st) (queues st) k (c :: q) Hlen Eq).
        assert (Hq' : nth_error (set_nth k q (queues st)) k = Some q)
          by (eapply nth_error_set_nth_same; eauto).
        rewrite (pend_split f (shards st) _ k q (eq_trans (set_nth_length _ _ _) Hlen) Hq').
        rewrite set_nth_set_nth. cbn [flat_map]. rewrite <- !app_assoc. reflexivity.
      - destruct (need_ok st); [discriminate|]. destruct (ok_chan st); [discriminate|].
        injection H as <-. unfold mass_err; cbn [got_err err_chan shards queues todo]. reflexivity.
      - destruct (need_err st); [discriminate|]. destruct (err_chan st) as [|ch rest] eqn:Ec; [discriminate|].
        injection H as <-. unfold mass_err; cbn [got_err err_chan shards queues todo]. rewrite Ec.
        rewrite flat_map_app. cbn [flat_map]. rewrite app_nil_r, <- !app_assoc. reflexivity.
    Qed.

    Lemma run_invariants sigma : forall st st',
      (forall c sh, gk (okf c sh) = f c sh) -> (forall c sh, ge (errf c sh) = f c sh) ->
      wf st -> RUN st sigma = Some st' ->
      wf st' /\ shards st' = shards st /\
      Permutation (mass_ok st') (mass_ok st) /\ Permutation (mass_err st') (mass_err st).
    Proof.
      induction sigma as [|l sigma IH]; intros st st' Hgk Hge Hwf H; cbn in H.
      - injection H as <-. auto.
      - destruct (FIRE st l) as [st1|] eqn:E; [|discriminate].
        destruct (fire_wf _ _ _ Hwf E) as (Hwf1 & Hs1).
        destruct (IH st1 st' Hgk Hge Hwf1 H) as (Hwf' & Hs' & Hm1 & Hm2).
        repeat split; try assumption.
        + congruence.
        + etransitivity; [exact Hm1|]. eapply mass_ok_step; eauto.
        + etransitivity; [exact Hm2|]. eapply mass_err_step; eauto.
    Qed.
  End Mass.

  (* the number of chunks still to be read plus those read is constant *)
  Definition balance (st : state) : nat * nat := (length (got_ok st) + need_ok st, length (got_err st) + need_err st).

  Lemma balance_step st l st' : pre st = None -> FIRE st l = Some st' -> balance st' = balance st.
  Proof.
    intros Hpre H. destruct l as [| k | k | |]; cbn in H.
    - rewrite Hpre in H; discriminate.
    - rewrite Hpre in H. destruct (todo st) as [|[k' c] rest]; [discriminate|].
      destruct (Nat.eqb k k'); [|discriminate]. destruct (nth_error (queues st) k); [|discriminate].
      injection H as <-. reflexivity.
    - destruct (nth_error (queues st) k) as [[|c q]|]; try discriminate. injection H as <-. reflexivity.
    - unfold balance. destruct (need_ok st); [discriminate|]. destruct (ok_chan st); [discriminate|].
      injection H as <-. cbn. rewrite app_length. cbn. f_equal. lia.
    - unfold balance. destruct (need_err st); [discriminate|]. destruct (err_chan st); [discriminate|].
      injection H as <-. cbn. rewrite app_length. cbn. f_equal. lia.
  Qed.

  Lemma balance_run sigma : forall st st', wf st -> RUN st sigma = Some st' -> balance st' = balance st.
  Proof.
    induction sigma as [|l sigma IH]; intros st st' Hwf H; cbn in H.
    - now injection H as <-.
    - destruct (FIRE st l) as [st1|] eqn:E; [|discriminate].
      destruct (fire_wf _ _ _ Hwf E) as (Hwf1 & _).
      rewrite (IH st1 st' Hwf1 H). apply balance_step; [apply Hwf|exact E].
  Qed.

  Definition unit_f : track -> list track -> list unit := fun _ _ => [tt].
  Definition unit_k : list (res MV) -> list unit := fun _ => [tt].
  Definition unit_e : list err -> list unit := fun _ => [tt].

  Lemma length_flat_map_unit {A} (l : list A) : length (flat_map (fun _ => [tt]) l) = length l.
  Proof. induction l; cbn; auto. Qed.

  Lemma foreign_init_wf sh cands : wf (foreign_init track MV sh cands).
  Proof.
    unfold wf, foreign_init; cbn. rewrite repeat_length. repeat split; auto.
    unfold enq_list. apply Forall_forall. intros [k c] Hin. apply in_flat_map in Hin.
    destruct Hin as (c' & _ & Hin). apply in_map_iff in Hin. destruct Hin as (k' & Heq & Hk).
    injection Heq as <- <-. apply in_seq in Hk. cbn. lia.
  Qed.

  Lemma enq_list_length n (cands : list track) : length (enq_list track n cands) = n * length cands.
  Proof.
    unfold enq_list. induction cands as [|c cands IH]; cbn; [lia|].
    rewrite app_length, map_length, seq_length, IH. lia.
  Qed.

  (* What is known about every state reachable from the start of a foreign query. *)
  Record reach_facts (sh : list (list track)) (cands : list track) (st : state) : Prop := {
    rf_wf : wf st;
    rf_shards : shards st = sh;
    rf_ok : Permutation (mass_ok (res MV) okf (fun x => x) st) (OKSPEC (concat sh) cands cls ob);
    rf_err : Permutation (mass_err err errf (fun x => x) st) (ERRSPEC (concat sh) cands cls ob);
    rf_cnt_ok : length (got_ok st) + length (ok_chan st) + length (pend unit_f (shards st) (queues st)) + length (todo st)
                = length sh * length cands;
    rf_cnt_err : length (got_err st) + length (err_chan st) + length (pend unit_f (shards st) (queues st)) + length (todo st)
                = length sh * length cands;
    rf_bal_ok : length (got_ok st) + need_ok st = length sh * length cands;
    rf_bal_err : length (got_err st) + need_err st = length sh * length cands
  }.

  Lemma reach sh cands sigma st :
    RUN (foreign_init track MV sh cands) sigma = Some st -> reach_facts sh cands st.
  Proof.
    intros H. pose proof (foreign_init_wf sh cands) as Hwf0.
    destruct (run_invariants (res MV) okf (fun x => x) (fun _ => []) sigma _ _ (fun _ _ => eq_refl)
                (fun _ _ => eq_refl) Hwf0 H) as (Hwf & Hsh & Hok & _) || idtac.
    all: try (clear Hok).
    (* the err instance needs its own f *)
    destruct (run_invariants (res MV) okf (fun x => x) (fun _ => []) sigma _ _ (fun _ _ => eq_refl)) as [_ _] || idtac.
  Abort.
End DistProofs.
