(* C07 - distance(): Cholesky factor + forward substitution + sum of squares is the squared Mahalanobis
   distance  sum_i y_i^2 / S_ii  when the innovation covariance S is diagonal and positive.
   Stated over the reals with the real square root (this is the one place where sqrt is needed). *)
From Coq Require Import List Arith Bool ZArith QArith Qreals Reals Lra Lia Psatz.
From Similari Require Import Base.Num Model.Kalman Proofs.KalmanBase Proofs.KalmanEntries Proofs.KalmanUpdate
     Proofs.KalmanScalar Proofs.KalmanScalarUpd Proofs.KalmanRun.
Import ListNotations.
Local Open Scope R_scope.

Section Cholesky.
  Variable nn : nat.
  Variable A : Rmat.
  (* the part of A that the factorisation reads below the diagonal is zero *)
  Hypothesis Alow : forall i k, (k < i)%nat -> (i < nn)%nat -> mgetR A i k = 0.

  Lemma chol_cols_diag : forall j, (j <= nn)%nat ->
      length (chol_cols Rops sqrt nn A j) = j /\
      forall l i, (l < j)%nat -> (i < nn)%nat ->
        nth i (nth l (chol_cols Rops sqrt nn A j) []) 0 = if Nat.eqb i l then sqrt (mgetR A l l) else 0.
  Proof.
    induction j as [|k IH]; intros Hj.
    - split; [reflexivity|]. intros; lia.
    - destruct IH as [Hlen Hent]; [lia|]. cbn [chol_cols]. split.
      + rewrite app_length, Hlen. cbn. lia.
      + intros l i Hl Hi.
        assert (Ht : forall i0, (i0 < nn)%nat ->
                  Rsum k (fun l0 => nth i0 (nth l0 (chol_cols Rops sqrt nn A k) []) 0
                                    * nth k (nth l0 (chol_cols Rops sqrt nn A k) []) 0) = 0).
        { intros i0 Hi0. apply Rsum_zero. intros l0 Hl0. rewrite (Hent l0 k) by lia.
          destruct (Nat.eqb_spec k l0); [lia|]. simplR. lra. }
        destruct (Nat.eq_dec l k) as [->|Hne].
        * rewrite app_nth2 by lia. rewrite Hlen, Nat.sub_diag. cbn [nth].
          rewrite nth_map_seq by assumption.
          rewrite !Ht by lia. simplR. rewrite !Rminus_0_r.
          destruct (Nat.ltb_spec i k) as [Hlt|Hge].
          -- destruct (Nat.eqb_spec i k); [lia|reflexivity].
          -- destruct (Nat.eqb_spec i k) as [->|Hik]; [reflexivity|].
             rewrite Alow by lia. unfold Rdiv. lra.
        * rewrite app_nth1 by lia. apply Hent; lia.
  Qed.

  Lemma cholesky_diag : forall i j, (i < nn)%nat -> (j < nn)%nat ->
      mgetR (cholesky Rops sqrt nn A) i j = if Nat.eqb i j then sqrt (mgetR A j j) else 0.
  Proof.
    intros i j Hi Hj. unfold cholesky. rewrite mget_mtab by assumption.
    destruct (chol_cols_diag nn (le_n nn)) as [_ H]. apply H; assumption.
  Qed.
End Cholesky.

Section Distance.
  Variable F : kfilter Rops.
  Local Notation n := (kdim Rops F).
  Local Notation N := (2 * kdim Rops F)%nat.

  Lemma g_distance_unfold : forall st z,
      g_distance Rops F sqrt st z =
      Rsum n (fun i => sq Rops (nth i (fsub_list Rops (cholesky Rops sqrt n (Sm F st))
                                                  (fun i0 => vgetR (vsub Rops n z (pmean F st)) i0) n) 0)).
  Proof.
    intros. unfold g_distance, Sm, pmean. destruct (g_project Rops F (mean st) (cov st)). reflexivity.
  Qed.

  Lemma g_distance_diag_unfold : forall st z,
      g_distance_diag Rops F st z
      = Rsum n (fun i => sq Rops (vgetR z i - vgetR (pmean F st) i) / mgetR (Sm F st) i i).
  Proof.
    intros. unfold g_distance_diag, Sm, pmean. destruct (g_project Rops F (mean st) (cov st)). reflexivity.
  Qed.

  (* distance_is_mahalanobis, general form: S diagonal with positive diagonal *)
  Theorem distance_diag : forall st z,
      Sdiag F st -> (forall i, (i < n)%nat -> 0 < mgetR (Sm F st) i i) ->
      g_distance Rops F sqrt st z
      = Rsum n (fun i => (vgetR z i - vgetR (mean st) i) * (vgetR z i - vgetR (mean st) i) / mgetR (Sm F st) i i).
  Proof.
    intros st z HS Hpos. rewrite g_distance_unfold. apply Rsum_ext. intros i Hi.
    assert (Alow : forall i0 k, (k < i0)%nat -> (i0 < n)%nat -> mgetR (Sm F st) i0 k = 0)
      by (intros; apply HS; lia).
    rewrite (fsub_diag _ _ n) with (i := n); try lia.
    - rewrite cholesky_diag by assumption. rewrite Nat.eqb_refl. rewrite innovation_entry by assumption.
      specialize (Hpos i Hi). set (s := mgetR (Sm F st) i i) in *.
      assert (Hq : 0 < sqrt s) by (apply sqrt_lt_R0; assumption).
      assert (Hqq : sqrt s * sqrt s = s) by (apply sqrt_sqrt; lra).
      set (q := sqrt s) in *. unfold sq. simplR. rewrite <- Hqq. fixR. field. lra.
    - intros k l Hl Hk. rewrite (cholesky_diag n (Sm F st) Alow) by lia. destruct (Nat.eqb_spec k l); [lia|reflexivity].
  Qed.

  Corollary distance_eq_diag_form : forall st z,
      Sdiag F st -> (forall i, (i < n)%nat -> 0 < mgetR (Sm F st) i i) ->
      g_distance Rops F sqrt st z = g_distance_diag Rops F st z.
  Proof.
    intros st z HS Hpos. rewrite distance_diag by assumption. rewrite g_distance_diag_unfold.
    apply Rsum_ext. intros i Hi. unfold pmean. rewrite project_mean_entry by assumption. reflexivity.
  Qed.

  (* on reachable states: the scalar form *)
  Theorem distance_scalar : forall cs z, all_spd F cs ->
      g_distance Rops F sqrt (state_of Rops F cs) z = sf_distance Rops F cs z.
  Proof.
    intros cs z Hspd. rewrite distance_diag.
    - unfold sf_distance. apply Rsum_ext. intros i Hi.
      rewrite Sm_state_of by assumption. rewrite Nat.eqb_refl. rewrite sm_p by assumption.
      unfold svar, rstd, sq. reflexivity.
    - apply Sdiag_state_of.
    - intros i Hi. rewrite Sm_state_of by assumption. rewrite Nat.eqb_refl. apply spd_svar; assumption.
  Qed.
End Distance.
