(* The executable default assignment [best_matching] satisfies the solver interface. *)
From Coq Require Import List NArith ZArith Bool Lia.
From Similari Require Import Model.Tracker.
Import ListNotations.

Inductive ok_sol (ps : list (nat * nat * Z)) : list nat -> list nat -> list (option nat) -> Prop :=
| ok_nil used : ok_sol ps [] used []
| ok_none i rest used s : ok_sol ps rest used s -> ok_sol ps (i :: rest) used (None :: s)
| ok_some i j w rest used s :
    In (i, j, w) ps -> ~ In j used -> ok_sol ps rest (j :: used) s -> ok_sol ps (i :: rest) used (Some j :: s).

Lemma bm_better_snd a b : snd (bm_better a b) = snd a \/ snd (bm_better a b) = snd b.
Proof.
  destruct a as [[va ca] sa], b as [[vb cb] sb]. unfold bm_better.
  destruct (va <? vb)%Z; [right; reflexivity|]. destruct (vb <? va)%Z; left; reflexivity.
Qed.

Lemma existsb_eqb_false j used : existsb (Nat.eqb j) used = false -> ~ In j used.
Proof.
  intros H Hin. assert (existsb (Nat.eqb j) used = true); [|congruence].
  apply existsb_exists. exists j. split; [exact Hin|apply Nat.eqb_refl].
Qed.

Lemma bm_ok thr ps cands : forall used, ok_sol ps cands used (snd (bm thr ps cands used)).
Proof.
  induction cands as [|i rest IH]; intro used; cbn [bm].
  - constructor.
  - set (none := let '(v, k, s) := bm thr ps rest used in ((v + thr)%Z, k, None :: s)).
    assert (Hnone : ok_sol ps (i :: rest) used (snd none)).
    { unfold none. specialize (IH used). destruct (bm thr ps rest used) as [[v k] s]. cbn [snd] in *. constructor; exact IH. }
    clearbody none.
    assert (Hfold : forall l best, incl l ps -> ok_sol ps (i :: rest) used (snd best) ->
              ok_sol ps (i :: rest) used
                (snd (fold_left (fun best p =>
                   let '(i', j, w) := p in
                   if Nat.eqb i' i && (thr <=? w)%Z && negb (existsb (Nat.eqb j) used)
                   then let '(v, k, s) := bm thr ps rest (j :: used) in
                        bm_better best ((v + w)%Z, k, Some j :: s)
                   else best) l best))).
    { induction l as [|[[i' j] w] l IHl]; intros best Hincl Hb; cbn [fold_left]; [exact Hb|].
      apply IHl; [intros x Hx; apply Hincl; right; exact Hx|].
      destruct (Nat.eqb i' i && (thr <=? w)%Z && negb (existsb (Nat.eqb j) used)) eqn:E; [|exact Hb].
      apply andb_prop in E. destruct E as [E E3]. apply andb_prop in E. destruct E as [E1 E2].
      apply Nat.eqb_eq in E1. subst i'. apply negb_true_iff in E3. apply existsb_eqb_false in E3.
      specialize (IH (j :: used)). destruct (bm thr ps rest (j :: used)) as [[v k] s]. cbn [snd] in IH.
      destruct (bm_better_snd best ((v + w)%Z, k, Some j :: s)) as [H|H]; rewrite H; [exact Hb|].
      cbn [snd]. econstructor; [apply Hincl; left; reflexivity|exact E3|exact IH]. }
    apply Hfold; [apply incl_refl|exact Hnone].
Qed.

Lemma ok_sol_facts ps cands used s :
  ok_sol ps cands used s ->
  length s = length cands
  /\ (forall k j, nth_error s k = Some (Some j) ->
        ~ In j used /\ exists i w, nth_error cands k = Some i /\ In (i, j, w) ps)
  /\ (forall k k' j, nth_error s k = Some (Some j) -> nth_error s k' = Some (Some j) -> k = k').
Proof.
  induction 1 as [used|i rest used s H [IH1 [IH2 IH3]]|i j w rest used s Hin Hnot H [IH1 [IH2 IH3]]].
  - split; [reflexivity|]. split; intros k; destruct k; discriminate.
  - split; [cbn [length]; congruence|]. split.
    + intros [|k] j Hk; cbn [nth_error] in *; [discriminate|]. apply IH2; exact Hk.
    + intros [|k] [|k'] j Hk Hk'; cbn [nth_error] in *; try discriminate. f_equal. eapply IH3; eassumption.
  - split; [cbn [length]; congruence|]. split.
    + intros [|k] j' Hk; cbn [nth_error] in *.
      * inversion Hk; subst. split; [exact Hnot|]. exists i, w. auto.
      * destruct (IH2 k j' Hk) as [Hn Hex]. split; [intro Hu; apply Hn; right; exact Hu|exact Hex].
    + intros [|k] [|k'] j' Hk Hk'; cbn [nth_error] in *; try reflexivity.
      * inversion Hk; subst. destruct (IH2 k' j' Hk') as [Hn _]. exfalso; apply Hn; left; reflexivity.
      * inversion Hk'; subst. destruct (IH2 k j' Hk) as [Hn _]. exfalso; apply Hn; left; reflexivity.
      * f_equal. eapply IH3; eassumption.
Qed.

Lemma best_matching_sound : solver_sound best_matching.
Proof.
  intros tag thr n cols ps. cbn zeta. unfold best_matching.
  destruct (ok_sol_facts _ _ _ _ (bm_ok thr ps (seq 0 n) [])) as [H1 [H2 H3]].
  split; [rewrite H1; apply seq_length|]. split.
  - intros i j Hi. destruct (H2 i j Hi) as [_ [i' [w [Hs Hin]]]].
    assert (i' = i).
    { assert (Hlt : (i < n)%nat).
      { assert (nth_error (seq 0 n) i <> None) by congruence. apply nth_error_Some in H. rewrite seq_length in H. exact H. }
      rewrite nth_error_nth' with (d := O) in Hs by (rewrite seq_length; exact Hlt).
      rewrite seq_nth in Hs by exact Hlt. inversion Hs. reflexivity. }
    subst i'. exists w; exact Hin.
  - exact H3.
Qed.
