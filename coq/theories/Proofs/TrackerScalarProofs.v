(* Lemmas about the TRANSLATED tracker prologue (gen/ScalarTracker.v: the auto-waste counter of the four predict
   functions) and the expiry comparison of EpochDb::baked (gen/ScalarGate.v). Used by the tracker developments
   (C01, C03, C06). *)
From Coq Require Import ZArith NArith Bool List Lia.
From Similari Require Import Base.Num Base.QExtra.
From SimilariGen Require Import Consts Scalar ScalarGate ScalarTracker.

(* (counter, periodicity) -> (collect?, counter'): counter 0 => collect wasted tracks and restart at periodicity,
   otherwise count down by one *)
Definition auto_waste_step (counter periodicity : N) : bool * N :=
  if (counter =? 0)%N then (true, periodicity) else (false, N.pred counter).

Lemma auto_waste_prologue_spec (counter periodicity : N) :
  auto_waste_prologue_sort Qops counter periodicity = auto_waste_step counter periodicity /\
  auto_waste_prologue_batch_sort Qops counter periodicity = auto_waste_step counter periodicity /\
  auto_waste_prologue_visual Qops counter periodicity = auto_waste_step counter periodicity /\
  auto_waste_prologue_batch_visual Qops counter periodicity = auto_waste_step counter periodicity.
Proof.
  unfold auto_waste_prologue_sort, auto_waste_prologue_batch_sort, auto_waste_prologue_visual, auto_waste_prologue_batch_visual, auto_waste_step.
  destruct (counter =? 0)%N eqn:E0; repeat split; cases_if; try (f_equal; lia); try reflexivity; try congruence; exfalso; apply N.eqb_eq in E0 || apply N.eqb_neq in E0; lia.
Qed.

Lemma auto_waste_step_zero p : auto_waste_step 0 p = (true, p).
Proof. reflexivity. Qed.
Lemma auto_waste_step_pos c p : (0 < c)%N -> auto_waste_step c p = (false, (c - 1)%N).
Proof. intro H. unfold auto_waste_step. destruct (c =? 0)%N eqn:E; [apply N.eqb_eq in E; lia | f_equal; lia]. Qed.

(* k calls starting from counter c >= k: no collection, counter c - k; hence a collection happens exactly at call
   number c + 1 and then every periodicity + 1 calls *)
Fixpoint auto_waste_run (k : nat) (c p : N) : list bool * N :=
  match k with
  | O => (nil, c)
  | S k' => let '(f, c') := auto_waste_step c p in let '(fs, c'') := auto_waste_run k' c' p in (f :: fs, c'')
  end.

Lemma auto_waste_run_S (k : nat) (c p : N) :
  auto_waste_run (S k) c p = (fst (auto_waste_step c p) :: fst (auto_waste_run k (snd (auto_waste_step c p)) p),
                              snd (auto_waste_run k (snd (auto_waste_step c p)) p)).
Proof. cbn [auto_waste_run]. destruct (auto_waste_step c p) as [f c']. cbn [fst snd]. destruct (auto_waste_run k c' p). reflexivity. Qed.

Lemma auto_waste_countdown (k : nat) (c p : N) : (N.of_nat k <= c)%N ->
  auto_waste_run k c p = (repeat false k, (c - N.of_nat k)%N).
Proof.
  revert c. induction k as [|k IH]; intros c H.
  - cbn. f_equal. lia.
  - cbn [auto_waste_run repeat]. rewrite auto_waste_step_pos by lia. rewrite IH by lia. f_equal. lia.
Qed.

Lemma auto_waste_cycle (c p : N) :
  auto_waste_run (S (N.to_nat c)) c p = (repeat false (N.to_nat c) ++ (true :: nil), p).
Proof.
  assert (G : forall k c, c = N.of_nat k -> auto_waste_run (S k) c p = (repeat false k ++ (true :: nil), p)).
  { induction k as [|k IH]; intros c0 Hc.
    - subst. reflexivity.
    - rewrite auto_waste_run_S. rewrite auto_waste_step_pos by lia. cbn [fst snd].
      rewrite (IH (c0 - 1)%N) by lia. reflexivity. }
  apply G. lia.
Qed.

(* expiry: a track is wasted exactly when last_updated + max_idle < current epoch of its scene (0 if the scene is unknown) *)
Lemma baked_wasted_cmp_spec last_updated max_idle cur :
  baked_wasted_cmp Qops last_updated max_idle cur = true <->
  (last_updated + max_idle < match cur with Some e => e | None => 0 end)%N.
Proof. unfold baked_wasted_cmp. destruct cur; apply N.ltb_lt. Qed.
