(* LINK between the L0 tracker and the verified model of SortVoting::winners (Model/Assign.v, Proofs/AssignProofs.v):
   a [solver] built from [sort_winners] - the real padded-matrix construction + kuhn_munkres (oracle [km], assumed to
   return an optimal assignment, exactly as C02's theorems assume) + decode - satisfies [solver_sound].

   Id spaces.  In the Rust code a candidate track carries a random u64 id and a stored track an id from the counter;
   SortVoting needs them non-zero and distinct ([ids_disj]).  The tracker model names the candidates of a call by
   their index i and the relevant tracks by their column j; they are fed to the voting model as
       candidate i  |->  2*i + 1   (odd),        track column j  |->  2*j + 2   (even, non-zero),
   which are non-zero and disjoint by parity.  The number of declared tracks (`track_num` = all live tracks in the
   code) is the number of relevant tracks here; declaring more tracks only adds all-zero columns, which is irrelevant
   (C02 extra_zero_columns_irrelevant).

   Side conditions.  C02's theorem needs thr > 0 and that the stream does not mention more tracks than declared;
   [assign_solver] checks both and answers "all new" otherwise, so that [solver_sound] holds unconditionally;
   [assign_solver_is_raw] shows that the guard is always passed in the tracker when thr > 0 (all_pairs only mentions
   columns of relevant tracks), i.e. there the solver IS the voting model. *)
From Coq Require Import List NArith ZArith Bool Arith Lia.
From Similari Require Import Model.Tracker Model.Assign Proofs.AssignProofs.
Import ListNotations.
Close Scope N_scope.
Open Scope nat_scope.

Definition cid (i : nat) : N := N.of_nat (2 * i + 1).
Definition tid (j : nat) : N := N.of_nat (2 * j + 2).

Definition untid (t : N) : option nat :=
  if N.even t && (2 <=? t)%N then Some (N.to_nat ((t - 2) / 2)) else None.

Definition enc (ps : list (nat * nat * Z)) : pairs :=
  map (fun p => (cid (fst (fst p)), tid (snd (fst p)), snd p)) ps.

Lemma cid_inj i i' : cid i = cid i' -> i = i'.
Proof. unfold cid. lia. Qed.

Lemma tid_inj j j' : tid j = tid j' -> j = j'.
Proof. unfold tid. lia. Qed.

Lemma cid_tid i j : cid i <> tid j.
Proof. unfold cid, tid. lia. Qed.

Lemma untid_tid j : untid (tid j) = Some j.
Proof.
  unfold untid, tid. replace (N.of_nat (2 * j + 2)) with (2 * (N.of_nat j + 1))%N by lia.
  rewrite N.even_mul. cbn [N.even orb].
  replace (2 <=? 2 * (N.of_nat j + 1))%N with true by (symmetry; apply N.leb_le; lia). cbn [andb]. f_equal.
  replace (2 * (N.of_nat j + 1) - 2)%N with (N.of_nat j * 2)%N by lia. rewrite N.div_mul by discriminate. lia.
Qed.

Lemma untid_inv t j : untid t = Some j -> t = tid j.
Proof.
  unfold untid. destruct (N.even t && (2 <=? t)%N) eqn:E; [|discriminate]. intro H. inversion H; subst. clear H.
  apply andb_prop in E. destruct E as [E1 E2]. apply N.leb_le in E2. apply N.even_spec in E1. destruct E1 as [k Ek].
  subst t. unfold tid. replace (2 * k - 2)%N with ((k - 1) * 2)%N by lia. rewrite N.div_mul by discriminate. lia.
Qed.

Lemma enc_ids_disj ps : ids_disj (enc ps).
Proof.
  intros p p' Hp Hp'. unfold enc in *. apply in_map_iff in Hp, Hp'.
  destruct Hp as [[[i j] w] [E _]]. destruct Hp' as [[[i' j'] w'] [E' _]]. subst p p'. cbn. apply cid_tid.
Qed.

Lemma In_enc ps f t w : In (f, t, w) (enc ps) -> exists i j, f = cid i /\ t = tid j /\ In (i, j, w) ps.
Proof.
  unfold enc. intro H. apply in_map_iff in H. destruct H as [[[i j] w'] [E Hin]]. cbn [fst snd] in E. inversion E; subst.
  exists i, j. auto.
Qed.

Section AssignSolver.
  Variable km : matrix -> list nat.

  Definition winners_to_cols (n : nat) (W : list (N * N)) : list (option nat) :=
    map (fun i => match find (fun e => (fst e =? cid i)%N) W with
                  | Some e => untid (snd e)
                  | None => None
                  end) (seq 0 n).

  (* SortVoting::winners on the encoded stream; a panic of the voting model (None) cannot happen for streams produced
     by the tracker and is answered by "all new" *)
  Definition raw_solver : solver :=
    fun _tag thr n cols ps =>
      match sort_winners km thr n (length cols) (enc ps) with
      | Some W => winners_to_cols n W
      | None => repeat None n
      end.

  Definition assign_solver : solver :=
    fun tag thr n cols ps =>
      if (0 <? thr)%Z && (length (tos (enc ps)) <=? length cols)
      then raw_solver tag thr n cols ps
      else repeat None n.

  (* the specification of kuhn_munkres, as in C02: on every matrix built by pad_matrix it returns an optimal assignment *)
  Definition km_optimal : Prop :=
    forall thr n cols s m idx, pad_matrix thr n cols s = Some (m, idx) ->
      is_assignment (length m) (ncols m) (km m) /\ optimal m (km m).

  Lemma NoDup_map_snd_unique {A B} (l : list (A * B)) x x' y :
    NoDup (map snd l) -> In (x, y) l -> In (x', y) l -> x = x'.
  Proof.
    induction l as [|[a b] l IH]; cbn [map snd In]; intros Hnd H1 H2; [contradiction|].
    inversion Hnd as [|? ? Hn Hd]; subst.
    destruct H1 as [H1|H1], H2 as [H2|H2].
    - congruence.
    - inversion H1; subst. exfalso. apply Hn. apply in_map_iff. exists (x', y). split; [reflexivity|exact H2].
    - inversion H2; subst. exfalso. apply Hn. apply in_map_iff. exists (x, y). split; [reflexivity|exact H1].
    - eapply IH; eassumption.
  Qed.

  Lemma nth_error_repeat_None {A} n i (x : option (option A)) :
    nth_error (repeat (@None A) n) i = x -> x = None \/ x = Some None.
  Proof.
    revert i. induction n as [|n IH]; intros [|i] H; cbn in H; subst; auto. apply (IH i). reflexivity.
  Qed.

  Lemma repeat_None_sound n (ps : list (nat * nat * Z)) :
    length (repeat (@None nat) n) = n
    /\ (forall i j, nth_error (repeat (@None nat) n) i = Some (Some j) -> exists w, In (i, j, w) ps)
    /\ (forall i i' j, nth_error (repeat (@None nat) n) i = Some (Some j) ->
                       nth_error (repeat (@None nat) n) i' = Some (Some j) -> i = i').
  Proof.
    split; [apply repeat_length|]. split.
    - intros i j H. destruct (nth_error_repeat_None _ _ _ H); discriminate.
    - intros i i' j H. destruct (nth_error_repeat_None _ _ _ H); discriminate.
  Qed.

  Lemma winners_to_cols_nth n W i j :
    nth_error (winners_to_cols n W) i = Some (Some j) -> In (cid i, tid j) W.
  Proof.
    unfold winners_to_cols. intro H. rewrite nth_error_map in H.
    destruct (nth_error (seq 0 n) i) as [k|] eqn:Ek; [|discriminate]. cbn [option_map] in H.
    assert (k = i).
    { assert (Hlt : i < n).
      { assert (X : nth_error (seq 0 n) i <> None) by congruence. apply nth_error_Some in X. rewrite seq_length in X. exact X. }
      rewrite nth_error_nth' with (d := O) in Ek by (rewrite seq_length; exact Hlt). rewrite seq_nth in Ek by exact Hlt.
      inversion Ek. reflexivity. }
    subst k. destruct (find (fun e => (fst e =? cid i)%N) W) as [[f t]|] eqn:Ef; [|discriminate].
    apply find_some in Ef. destruct Ef as [Hin Hf]. cbn [fst] in Hf. apply N.eqb_eq in Hf. subst f.
    cbn [snd] in H. inversion H as [Hu]. apply untid_inv in Hu. subst t. exact Hin.
  Qed.

  Theorem assign_solver_sound_lemma : km_optimal -> solver_sound assign_solver.
  Proof.
    intros Hkm tag thr n cols ps. cbn zeta. unfold assign_solver.
    destruct ((0 <? thr)%Z && (length (tos (enc ps)) <=? length cols)) eqn:Eg; [|apply repeat_None_sound].
    apply andb_prop in Eg. destruct Eg as [Eg1 Eg2]. apply Z.ltb_lt in Eg1. apply Nat.leb_le in Eg2.
    unfold raw_solver. destruct (sort_winners km thr n (length cols) (enc ps)) as [W|] eqn:EW; [|apply repeat_None_sound].
    destruct (sort_winners_gated km thr n (length cols) (enc ps) W Eg1 (enc_ids_disj ps) Eg2
                (fun m idx H => Hkm thr n (length cols) (enc ps) m idx H) EW) as [[G1 [G2 G3]] _].
    split; [unfold winners_to_cols; rewrite map_length, seq_length; reflexivity|]. split.
    - intros i j H. apply winners_to_cols_nth in H. destruct (G3 _ _ H) as [E|[w [Hw _]]].
      + exfalso. symmetry in E. exact (cid_tid i j E).
      + destruct (lastw_Some_In _ _ _ _ Hw) as [[[f t] w'] [Hp [Ef Et]]]. cbn in Ef, Et. subst f t.
        apply In_enc in Hp. destruct Hp as [i' [j' [Ei [Ej Hin]]]]. apply cid_inj in Ei. apply tid_inj in Ej. subst i' j'.
        exists w'. exact Hin.
    - intros i i' j H H'. apply winners_to_cols_nth in H, H'.
      apply cid_inj. eapply (NoDup_map_snd_unique W); eassumption.
  Qed.

  (* in the tracker (every pair mentions a column of a relevant track) and for thr > 0 the guard is passed:
     the solver is the voting model itself *)
  Lemma tos_enc_bound ps L : (forall i j w, In (i, j, w) ps -> j < L) -> length (tos (enc ps)) <= L.
  Proof.
    intro H. replace L with (length (map tid (seq 0 L))) by (rewrite map_length, seq_length; reflexivity).
    apply NoDup_incl_length; [apply tos_NoDup|]. intros t Ht. apply tos_In in Ht. destruct Ht as [[[f t'] w] [Hp Et]].
    cbn in Et. subst t'. apply In_enc in Hp. destruct Hp as [i [j [_ [Ej Hin]]]]. subst t.
    apply in_map. apply in_seq. specialize (H _ _ _ Hin). lia.
  Qed.

  Lemma assign_solver_is_raw tag thr n cols ps :
    (0 < thr)%Z -> (forall i j w, In (i, j, w) ps -> j < length cols) ->
    assign_solver tag thr n cols ps = raw_solver tag thr n cols ps.
  Proof.
    intros Ht Hp. unfold assign_solver.
    replace (0 <? thr)%Z with true by (symmetry; apply Z.ltb_lt; exact Ht).
    replace (length (tos (enc ps)) <=? length cols) with true; [reflexivity|].
    symmetry. apply Nat.leb_le. apply tos_enc_bound. exact Hp.
  Qed.
End AssignSolver.

(* ------------------------------------------------------------------------------------------------ *)
(* Execution of the link (tools/props/c01.py, small calls only): a brute-force stand-in for kuhn_munkres - the first
   maximum-weight assignment of rows to distinct columns in lexicographic search order - and the tracker model run
   with the voting-model solver.  (Not used by any theorem; the theorems hold for every optimal [km].) *)
Fixpoint km_rows (m : matrix) (ncol : nat) (rows : list nat) (used : list nat) : option (Z * list nat) :=
  match rows with
  | [] => Some (0%Z, [])
  | i :: rest =>
      fold_left (fun best j =>
                   if existsb (Nat.eqb j) used then best
                   else match km_rows m ncol rest (j :: used) with
                        | None => best
                        | Some (v, a) =>
                            let cand := ((mget m i j + v)%Z, j :: a) in
                            match best with
                            | None => Some cand
                            | Some (bv, _) => if (bv <? fst cand)%Z then Some cand else best
                            end
                        end) (seq 0 ncol) None
  end.

Definition km_brute (m : matrix) : list nat :=
  match km_rows m (ncols m) (seq 0 (length m)) [] with
  | Some (_, a) => a
  | None => []
  end.

Definition run_case_assign (tb : otable) (c : cfg) (xs : list xop) := run_case_with (assign_solver km_brute) tb c xs.
