(* C04 - the body of one predict call for scene s is a function of the view of scene s
   ([predict_view_congruence]): two stores that hold the scene's unexpired tracks under different ids, interleaved
   with other scenes' tracks, give the same records (ids erased) and the same next view. *)
From Coq Require Import List NArith ZArith QArith Bool Lia Permutation.
From Similari Require Import Base.Num Model.Constraints Model.Tracker
     Proofs.TrackerBase Proofs.TrackerPredict Proofs.TrackerInv Proofs.TrackerC01 Proofs.TrackerC03 Proofs.TrackerGc
     Proofs.TrackerC04.
Import ListNotations.
Open Scope N_scope.

(* ------------------------------------------------------------------------------------------------ *)
(* generic facts about lists related position by position *)

Lemma map_eq_Forall2 {A B} (f : A -> B) l1 l2 : map f l1 = map f l2 -> Forall2 (fun x y => f x = f y) l1 l2.
Proof.
  revert l2. induction l1 as [|a r IH]; intros [|b r2] H; cbn [map] in H; try discriminate; constructor.
  - injection H as H1 H2. exact H1.
  - apply IH. injection H as H1 H2. exact H2.
Qed.

Lemma Forall2_map_eq {A B} (f : A -> B) l1 l2 : Forall2 (fun x y => f x = f y) l1 l2 -> map f l1 = map f l2.
Proof. induction 1; cbn [map]; congruence. Qed.

Lemma Forall2_app_intro {A B} (R : A -> B -> Prop) l1 l2 m1 m2 :
  Forall2 R l1 l2 -> Forall2 R m1 m2 -> Forall2 R (l1 ++ m1) (l2 ++ m2).
Proof. induction 1; cbn [app]; [auto|constructor; auto]. Qed.

Lemma In_combine_app_l {A B} (l1 m1 : list A) (l2 m2 : list B) p :
  length l1 = length l2 -> In p (combine l1 l2) -> In p (combine (l1 ++ m1) (l2 ++ m2)).
Proof.
  revert l2. induction l1 as [|a r IH]; intros [|b r2] Hl H; cbn in Hl; try discriminate; cbn [combine app In] in *; [contradiction|].
  destruct H as [H|H]; [left; exact H|right; apply IH; [lia|exact H]].
Qed.

Lemma In_combine_map {A B} (g1 : A -> A) (g2 : B -> B) l1 l2 z1 z2 :
  In (z1, z2) (combine l1 l2) -> In (g1 z1, g2 z2) (combine (map g1 l1) (map g2 l2)).
Proof.
  revert l2. induction l1 as [|a r IH]; intros [|b r2] H; cbn [combine map In] in *; try contradiction.
  destruct H as [H|H]; [left; inversion H; reflexivity|right; apply IH; exact H].
Qed.

Lemma Forall2_filter_nth {A B} (R : A -> B -> Prop) (p : A -> bool) (p' : B -> bool) l1 l2 :
  Forall2 R l1 l2 -> (forall x1 x2, R x1 x2 -> p x1 = p' x2) ->
  forall j x1 x2, nth_error (filter p l1) j = Some x1 -> nth_error (filter p' l2) j = Some x2 -> In (x1, x2) (combine l1 l2).
Proof.
  intros HF Hp. induction HF as [|a b r1 r2 Hab HF IH]; intros j x1 x2 H1 H2; cbn [filter] in *.
  - destruct j; discriminate.
  - rewrite <- (Hp a b Hab) in H2. destruct (p a).
    + destruct j as [|j]; cbn [nth_error] in *.
      * inversion H1; inversion H2; subst. left; reflexivity.
      * right. eapply IH; eassumption.
    + right. eapply IH; eassumption.
Qed.

Lemma Forall2_filter {A B} (R : A -> B -> Prop) (p : A -> bool) (p' : B -> bool) l1 l2 :
  Forall2 R l1 l2 -> (forall x1 x2, R x1 x2 -> p x1 = p' x2) -> Forall2 R (filter p l1) (filter p' l2).
Proof.
  intros HF Hp. induction HF as [|a b r1 r2 Hab HF IH]; cbn [filter]; [constructor|].
  rewrite <- (Hp a b Hab). destruct (p a); [constructor; assumption|assumption].
Qed.

Lemma Forall2_length_eq {A B} (R : A -> B -> Prop) l1 l2 : Forall2 R l1 l2 -> length l1 = length l2.
Proof. induction 1; cbn [length]; congruence. Qed.

(* rewriting the corresponding elements (identified by their ids) of two related lists *)
Lemma Forall2_upd_track (R : trk -> trk -> Prop) (f : trk -> trk) l1 l2 i1 i2 y1 y2 :
  Forall2 R l1 l2 -> NoDup (map t_id l1) -> NoDup (map t_id l2) ->
  In (y1, y2) (combine l1 l2) -> t_id y1 = i1 -> t_id y2 = i2 ->
  (forall x1 x2, R x1 x2 -> R (f x1) (f x2)) ->
  Forall2 R (upd_track i1 f l1) (upd_track i2 f l2).
Proof.
  intros HF. induction HF as [|a b r1 r2 Hab HF IH]; intros N1 N2 Hin E1 E2 Hf; cbn [combine In] in Hin; [contradiction|].
  cbn [map] in N1, N2. inversion N1 as [|? ? Ha N1']; inversion N2 as [|? ? Hb N2']; subst.
  unfold upd_track. cbn [map]. fold (upd_track (t_id y1) f r1). fold (upd_track (t_id y2) f r2).
  destruct Hin as [Hin|Hin].
  - inversion Hin; subst. rewrite !N.eqb_refl. rewrite !upd_track_notin by assumption. constructor; [apply Hf; exact Hab|exact HF].
  - assert (Hy1 : In y1 r1) by (eapply in_combine_l; exact Hin).
    assert (Hy2 : In y2 r2) by (eapply in_combine_r; exact Hin).
    assert (Ea : t_id a =? t_id y1 = false).
    { apply N.eqb_neq. intro E. apply Ha. rewrite E. apply in_map; exact Hy1. }
    assert (Eb : t_id b =? t_id y2 = false).
    { apply N.eqb_neq. intro E. apply Hb. rewrite E. apply in_map; exact Hy2. }
    rewrite Ea, Eb. constructor; [exact Hab|]. apply IH; auto.
Qed.

(* ------------------------------------------------------------------------------------------------ *)
Section Cong.
  Variable G : N -> list N -> option Z.
  Variable D2R : N -> list N -> Q.
  Variable solve : solver.
  Variable c : cfg.
  Variable s : N.      (* the scene of the call *)
  Variable E : N.      (* its epoch before the call *)

  Let epoch := E + 1.

  (* "of scene s and not expired w.r.t. epoch e of scene s" as a predicate that does not mention the other
     scenes' epochs *)
  Definition qn (e : N) (t : trk) : bool := (t_scene t =? s) && negb (t_last t + max_idle c <? e).

  Lemma qv_qn e t : qv c s e t = qn (epoch_of e s) t.
  Proof.
    unfold qv, qn. rewrite expired_ltb. destruct (t_scene t =? s) eqn:Es; cbn [andb]; [|reflexivity].
    apply N.eqb_eq in Es. rewrite Es. reflexivity.
  Qed.

  Definition ceq (x y : trk) : Prop := canon x = canon y.

  Lemma ceq_qn e x y : ceq x y -> qn e x = qn e y.
  Proof. unfold ceq, qn. intro H. change (t_scene x) with (t_scene (canon x)). change (t_last x) with (t_last (canon x)). rewrite H. reflexivity. Qed.

  Lemma ceq_relevant e x y : ceq x y -> relevant c s e x = relevant c s e y.
  Proof. unfold ceq, relevant. intro H. change (t_scene x) with (t_scene (canon x)). change (t_last x) with (t_last (canon x)). rewrite H. reflexivity. Qed.

  Lemma ceq_absorb d x y : ceq x y -> ceq (absorb c epoch d x) (absorb c epoch d y).
  Proof.
    unfold ceq. intro H. change (canon (absorb c epoch d x)) with (absorb c epoch d (canon x)).
    change (canon (absorb c epoch d y)) with (absorb c epoch d (canon y)). rewrite H. reflexivity.
  Qed.

  Lemma qn_absorb d t : t_scene t = s -> qn E (absorb c epoch d t) = true.
  Proof.
    intro H. unfold qn. cbn [absorb t_scene t_last]. rewrite H, N.eqb_refl. cbn [andb]. apply negb_true_iff, N.ltb_ge. unfold epoch. lia.
  Qed.

  Lemma qn_fresh id d : qn E (fresh_track c id s epoch d) = true.
  Proof. unfold qn. cbn [fresh_track t_scene t_last]. rewrite N.eqb_refl. cbn [andb]. apply negb_true_iff, N.ltb_ge. unfold epoch. lia. Qed.

  Definition FL (a : tstate) : list trk := filter (qn E) (live a).

  Definition idpair (a1 a2 : tstate) (i1 i2 : N) : Prop :=
    exists y1 y2, In (y1, y2) (combine (FL a1) (FL a2)) /\ t_id y1 = i1 /\ t_id y2 = i2.

  Definition wrel (a1 a2 : tstate) (w1 w2 : option N) : Prop :=
    match w1, w2 with
    | None, None => True
    | Some i1, Some i2 => idpair a1 a2 i1 i2
    | _, _ => False
    end.

  Lemma NoDup_FL a : NoDup (map t_id (live a)) -> NoDup (map t_id (FL a)).
  Proof. apply NoDup_map_filter. Qed.

  (* one candidate, in both runs *)
  Lemma apply_one_cong a1 a2 d w1 w2 :
    NoDup (map t_id (live a1)) -> NoDup (map t_id (live a2)) ->
    (forall t, In t (live a1) -> t_id t <= next_id a1) -> (forall t, In t (live a2) -> t_id t <= next_id a2) ->
    Forall2 ceq (FL a1) (FL a2) -> wrel a1 a2 w1 w2 ->
    let b1 := fst (apply_one c s epoch a1 (d, w1)) in
    let b2 := fst (apply_one c s epoch a2 (d, w2)) in
    Forall2 ceq (FL b1) (FL b2)
    /\ map canon_rec (snd (apply_one c s epoch a1 (d, w1))) = map canon_rec (snd (apply_one c s epoch a2 (d, w2)))
    /\ (forall v1 v2, wrel a1 a2 v1 v2 -> wrel b1 b2 v1 v2).
  Proof.
    intros N1 N2 B1 B2 HF Hw. cbn zeta. destruct w1 as [i1|], w2 as [i2|]; cbn [wrel] in Hw; try contradiction.
    - (* both continue corresponding tracks *)
      destruct Hw as [y1 [y2 [Hin [E1 E2]]]].
      assert (Hy1 : In y1 (FL a1)) by (eapply in_combine_l; exact Hin).
      assert (Hy2 : In y2 (FL a2)) by (eapply in_combine_r; exact Hin).
      unfold FL in Hy1, Hy2. apply filter_In in Hy1, Hy2. destruct Hy1 as [L1 Q1], Hy2 as [L2 Q2].
      assert (S1 : t_scene y1 = s) by (unfold qn in Q1; apply andb_prop in Q1; destruct Q1 as [Q1 _]; apply N.eqb_eq; exact Q1).
      assert (S2 : t_scene y2 = s) by (unfold qn in Q2; apply andb_prop in Q2; destruct Q2 as [Q2 _]; apply N.eqb_eq; exact Q2).
      assert (U1 : forall t, In t (live a1) -> t_id t = i1 -> qn E t = true /\ qn E (absorb c epoch d t) = true).
      { intros t Ht Et. assert (t = y1) by (apply (NoDup_id_eq (live a1)); try assumption; congruence). subst t.
        split; [exact Q1|apply qn_absorb; exact S1]. }
      assert (U2 : forall t, In t (live a2) -> t_id t = i2 -> qn E t = true /\ qn E (absorb c epoch d t) = true).
      { intros t Ht Et. assert (t = y2) by (apply (NoDup_id_eq (live a2)); try assumption; congruence). subst t.
        split; [exact Q2|apply qn_absorb; exact S2]. }
      assert (F1 : FL (fst (apply_one c s epoch a1 (d, Some i1))) = upd_track i1 (absorb c epoch d) (FL a1)).
      { rewrite apply_one_fst_some. unfold FL. cbn [live set_live set_submitted]. apply filter_upd_track. exact U1. }
      assert (F2 : FL (fst (apply_one c s epoch a2 (d, Some i2))) = upd_track i2 (absorb c epoch d) (FL a2)).
      { rewrite apply_one_fst_some. unfold FL. cbn [live set_live set_submitted]. apply filter_upd_track. exact U2. }
      rewrite F1, F2. split; [|split].
      + eapply Forall2_upd_track; try eassumption; try (apply NoDup_FL; assumption). intros x1 x2. apply ceq_absorb.
      + assert (R1 : snd (apply_one c s epoch a1 (d, Some i1)) = [rec_of (absorb c epoch d y1)]).
        { destruct (apply_one_spec c s epoch a1 d (Some i1) B1) as [t [Er [_ [t0 [Ht0 [Et0 Et]]]]]].
          { rewrite <- E1. apply in_map; exact L1. }
          assert (t0 = y1) by (apply (NoDup_id_eq (live a1)); try assumption; congruence). subst. exact Er. }
        assert (R2 : snd (apply_one c s epoch a2 (d, Some i2)) = [rec_of (absorb c epoch d y2)]).
        { destruct (apply_one_spec c s epoch a2 d (Some i2) B2) as [t [Er [_ [t0 [Ht0 [Et0 Et]]]]]].
          { rewrite <- E2. apply in_map; exact L2. }
          assert (t0 = y2) by (apply (NoDup_id_eq (live a2)); try assumption; congruence). subst. exact Er. }
        rewrite R1, R2. cbn [map]. rewrite !canon_rec_of. f_equal. f_equal.
        assert (Hc : ceq y1 y2).
        { clear -HF Hin. induction HF as [|x y r1 r2 Hxy HF IH]; cbn [combine In] in Hin; [contradiction|].
          destruct Hin as [Hin|Hin]; [inversion Hin; subst; exact Hxy|apply IH; exact Hin]. }
        apply ceq_absorb. exact Hc.
      + intros v1 v2 Hv. destruct v1 as [j1|], v2 as [j2|]; cbn [wrel] in *; try contradiction; [|exact I].
        destruct Hv as [z1 [z2 [Hz [Z1 Z2]]]]. unfold idpair. rewrite F1, F2. unfold upd_track.
        eexists. eexists. split; [apply In_combine_map; exact Hz|].
        split; [destruct (t_id z1 =? i1); [cbn [absorb t_id]|]; exact Z1|destruct (t_id z2 =? i2); [cbn [absorb t_id]|]; exact Z2].
    - (* both start a new track *)
      set (f1 := fresh_track c (next_id a1 + 1) s epoch d). set (f2 := fresh_track c (next_id a2 + 1) s epoch d).
      assert (F1 : FL (fst (apply_one c s epoch a1 (d, None))) = FL a1 ++ [f1]).
      { rewrite apply_one_fst_none. unfold FL. cbn [live set_live set_submitted set_next_id]. rewrite filter_app. cbn [filter].
        fold f1. unfold f1. rewrite qn_fresh. reflexivity. }
      assert (F2 : FL (fst (apply_one c s epoch a2 (d, None))) = FL a2 ++ [f2]).
      { rewrite apply_one_fst_none. unfold FL. cbn [live set_live set_submitted set_next_id]. rewrite filter_app. cbn [filter].
        fold f2. unfold f2. rewrite qn_fresh. reflexivity. }
      rewrite F1, F2. split; [|split].
      + apply Forall2_app_intro; [exact HF|]. constructor; [reflexivity|constructor].
      + destruct (apply_one_spec c s epoch a1 d None B1 I) as [t1 [Er1 [_ [Ei1 Et1]]]].
        destruct (apply_one_spec c s epoch a2 d None B2 I) as [t2 [Er2 [_ [Ei2 Et2]]]].
        rewrite Er1, Er2. cbn [map]. rewrite !canon_rec_of. f_equal. f_equal. rewrite Et1, Et2. reflexivity.
      + intros v1 v2 Hv. destruct v1 as [j1|], v2 as [j2|]; cbn [wrel] in *; try contradiction; [|exact I].
        destruct Hv as [z1 [z2 [Hz [Z1 Z2]]]]. unfold idpair. rewrite F1, F2. exists z1, z2. split; [|auto].
        apply In_combine_app_l; [eapply Forall2_length_eq; exact HF|exact Hz].
  Qed.

  Lemma apply_all_cong dets : forall ws1 ws2 a1 a2,
    NoDup (map t_id (live a1)) -> NoDup (map t_id (live a2)) ->
    (forall t, In t (live a1) -> t_id t <= next_id a1) -> (forall t, In t (live a2) -> t_id t <= next_id a2) ->
    Forall2 ceq (FL a1) (FL a2) -> Forall2 (wrel a1 a2) ws1 ws2 ->
    Forall2 ceq (FL (fst (apply_all c s epoch a1 (combine dets ws1)))) (FL (fst (apply_all c s epoch a2 (combine dets ws2))))
    /\ map canon_rec (snd (apply_all c s epoch a1 (combine dets ws1))) = map canon_rec (snd (apply_all c s epoch a2 (combine dets ws2))).
  Proof.
    induction dets as [|d dets IH]; intros ws1 ws2 a1 a2 N1 N2 B1 B2 HF HW.
    - split; [exact HF|reflexivity].
    - destruct HW as [|w1 w2 r1 r2 Hw HW]; [split; [exact HF|reflexivity]|].
      cbn [combine]. rewrite !apply_all_cons. cbn [fst snd].
      destruct (apply_one_cong a1 a2 d w1 w2 N1 N2 B1 B2 HF Hw) as [HF' [HR Hpres]].
      destruct (apply_one_nodup_bound c s epoch a1 (d, w1) N1 B1) as [N1' B1'].
      destruct (apply_one_nodup_bound c s epoch a2 (d, w2) N2 B2) as [N2' B2'].
      destruct (IH r1 r2 _ _ N1' N2' B1' B2' HF') as [A B].
      { eapply Forall2_impl; [|exact HW]. intros v1 v2. apply Hpres. }
      split; [exact A|]. rewrite !map_app, HR, B. reflexivity.
  Qed.
End Cong.

(* ------------------------------------------------------------------------------------------------ *)
Section Main.
  Variable G : N -> list N -> option Z.
  Variable D2R : N -> list N -> Q.
  Variable solve : solver.
  Variable c : cfg.

  Lemma filter_qv_FL s st e' :
    epoch_of e' s = epoch_of (epochs st) s ->
    filter (qv c s e') (live st) = FL c s (epoch_of (epochs st) s) st.
  Proof. intro H. unfold FL. apply filter_ext. intro t. rewrite qv_qn, H. reflexivity. Qed.

  Theorem predict_view_congruence_holds : predict_view_congruence G D2R solve c.
  Proof.
    intros st1 st2 s dets HI1 HI2 HV.
    pose proof (Inv_NoDup_live _ _ HI1) as N1. pose proof (Inv_NoDup_live _ _ HI2) as N2.
    destruct (assignment_problem_from_view G D2R c s st1 st2 dets HV) as [He [Hrel [Hcols Hpairs]]].
    assert (HE : epoch_of (epochs st1) s = epoch_of (epochs st2) s).
    { change (fst (view c s st1) = fst (view c s st2)). rewrite HV. reflexivity. }
    set (E := epoch_of (epochs st1) s) in *.
    assert (HF0 : Forall2 (ceq) (FL c s E st1) (FL c s E st2)).
    { apply map_eq_Forall2. unfold E at 1. rewrite <- (filter_qv_FL s st1 (epochs st1) eq_refl).
      rewrite HE. rewrite <- (filter_qv_FL s st2 (epochs st2) eq_refl).
      change (snd (view c s st1) = snd (view c s st2)). rewrite HV. reflexivity. }
    rewrite !predict_core_unfold. cbn [fst snd].
    assert (Hep1 : pc_epoch st1 s = E + 1) by reflexivity.
    assert (Hep2 : pc_epoch st2 s = E + 1) by (unfold pc_epoch; rewrite <- HE; reflexivity).
    rewrite Hep1, Hep2.
    set (rel1 := pc_rel c st1 s) in *. set (rel2 := pc_rel c st2 s) in *.
    (* the solver sees the same problem *)
    assert (Hws : exists r, winners G D2R solve c (E + 1) rel1 dets
                            = map (fun o : option nat => match o with Some j => option_map t_id (nth_error rel1 j) | None => None end) r
                         /\ winners G D2R solve c (E + 1) rel2 dets
                            = map (fun o : option nat => match o with Some j => option_map t_id (nth_error rel2 j) | None => None end) r).
    { unfold winners. eexists. split; [reflexivity|]. rewrite <- Hcols. rewrite Hep1, Hep2 in Hpairs. rewrite <- Hpairs. reflexivity. }
    destruct Hws as [r [W1 W2]]. rewrite W1, W2.
    (* the relevant tracks are the relevant ones among FL, corresponding position by position *)
    assert (R1 : rel1 = filter (relevant c s (E + 1)) (FL c s E st1)).
    { unfold rel1, pc_rel, FL. rewrite Hep1. symmetry. apply filter_sub. intros t _ H.
      destruct (relevant_alive c (epochs st1) s t H) as [H1 H2]. unfold qn. fold E. rewrite expired_ltb in H1. rewrite H2 in *. rewrite N.eqb_refl.
      cbn [andb]. fold E in H1. rewrite H1. reflexivity. }
    assert (R2 : rel2 = filter (relevant c s (E + 1)) (FL c s E st2)).
    { unfold rel2, pc_rel, FL. rewrite Hep2. symmetry. apply filter_sub. intros t _ H.
      assert (H' : relevant c s (epoch_of (epochs st2) s + 1) t = true) by (rewrite <- HE; exact H).
      destruct (relevant_alive c (epochs st2) s t H') as [H1 H2]. unfold qn. rewrite expired_ltb in H1. rewrite H2 in *. rewrite N.eqb_refl.
      cbn [andb]. rewrite <- HE in H1. fold E in H1. rewrite H1. reflexivity. }
    assert (Hlen : length rel1 = length rel2).
    { rewrite <- (map_length canon rel1), <- (map_length canon rel2), Hrel. reflexivity. }
    set (a1 := pc_st1 st1 s). set (a2 := pc_st1 st2 s).
    assert (HW : Forall2 (wrel c s E a1 a2)
                   (map (fun o : option nat => match o with Some j => option_map t_id (nth_error rel1 j) | None => None end) r)
                   (map (fun o : option nat => match o with Some j => option_map t_id (nth_error rel2 j) | None => None end) r)).
    { clear W1 W2. induction r as [|o r IHr]; cbn [map]; constructor; [|exact IHr].
      destruct o as [j|]; [|exact I].
      destruct (nth_error rel1 j) as [x1|] eqn:X1, (nth_error rel2 j) as [x2|] eqn:X2; cbn [option_map wrel].
      - exists x1, x2. split; [|auto]. change (FL c s E a1) with (FL c s E st1). change (FL c s E a2) with (FL c s E st2).
        rewrite R1 in X1. rewrite R2 in X2.
        eapply (Forall2_filter_nth ceq); [exact HF0| |exact X1|exact X2]. intros y1 y2. apply ceq_relevant.
      - apply nth_error_None in X2. assert (nth_error rel1 j <> None) by congruence. apply nth_error_Some in H. lia.
      - apply nth_error_None in X1. assert (nth_error rel2 j <> None) by congruence. apply nth_error_Some in H. lia.
      - exact I. }
    set (ws1 := map (fun o : option nat => match o with Some j => option_map t_id (nth_error rel1 j) | None => None end) r) in *.
    set (ws2 := map (fun o : option nat => match o with Some j => option_map t_id (nth_error rel2 j) | None => None end) r) in *.
    assert (B1 : forall t, In t (live a1) -> t_id t <= next_id a1) by (intros t Ht; apply (Inv_live_id_bound _ _ _ HI1 Ht)).
    assert (B2 : forall t, In t (live a2) -> t_id t <= next_id a2) by (intros t Ht; apply (Inv_live_id_bound _ _ _ HI2 Ht)).
    destruct (apply_all_cong c s E dets ws1 ws2 a1 a2 N1 N2 B1 B2 HF0 HW) as [A B].
    - split; [exact B|].
      (* the next views *)
      set (b1 := fst (apply_all c s (E + 1) a1 (combine dets ws1))) in *.
      set (b2 := fst (apply_all c s (E + 1) a2 (combine dets ws2))) in *.
      assert (Eb1 : epoch_of (epochs b1) s = E + 1).
      { destruct (apply_all_frame c s (E + 1) (combine dets ws1) a1) as [X _].
        cbn zeta in X. fold b1 in X. rewrite X. unfold a1. cbn [epochs pc_st1 set_epochs]. rewrite epoch_of_set_same. exact Hep1. }
      assert (Eb2 : epoch_of (epochs b2) s = E + 1).
      { destruct (apply_all_frame c s (E + 1) (combine dets ws2) a2) as [X _].
        cbn zeta in X. fold b2 in X. rewrite X. unfold a2. cbn [epochs pc_st1 set_epochs]. rewrite epoch_of_set_same. exact Hep2. }
      unfold view. rewrite Eb1, Eb2. f_equal.
      assert (V1 : filter (qv c s (epochs b1)) (live b1) = filter (qn c s (E + 1)) (FL c s E b1)).
      { unfold FL. rewrite (filter_sub (qn c s E) (qn c s (E + 1))).
        - apply filter_ext. intro t. rewrite qv_qn, Eb1. reflexivity.
        - intros t _ H. unfold qn in *. apply andb_prop in H. destruct H as [H1 H2]. rewrite H1. cbn [andb].
          apply negb_true_iff in H2. apply N.ltb_ge in H2. apply negb_true_iff, N.ltb_ge. lia. }
      assert (V2 : filter (qv c s (epochs b2)) (live b2) = filter (qn c s (E + 1)) (FL c s E b2)).
      { unfold FL. rewrite (filter_sub (qn c s E) (qn c s (E + 1))).
        - apply filter_ext. intro t. rewrite qv_qn, Eb2. reflexivity.
        - intros t _ H. unfold qn in *. apply andb_prop in H. destruct H as [H1 H2]. rewrite H1. cbn [andb].
          apply negb_true_iff in H2. apply N.ltb_ge in H2. apply negb_true_iff, N.ltb_ge. lia. }
      rewrite V1, V2. apply Forall2_map_eq. apply Forall2_filter; [exact A|]. intros x1 x2. apply ceq_qn.
  Qed.
End Main.
