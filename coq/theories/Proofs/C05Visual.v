(* C05 for VisualSORT voting: the Section hypothesis [winners_perm_invariant] of Section Predict / Props/C05.v is
   discharged with the voting development's theorem (Proofs/VotingProofs.v visual_winners_perm_invariant_lemma =
   Props/C17.v visual_winners_perm_invariant).

   Adapter: a distance result (from, to, metric value) is read as the entry VisualVoting works on; [weight_of] is
   the positional part ((attribute_metric * 1_000_000.0) as i64 when there is one), [feat_of] the feature distance. *)
From Coq Require Import List NArith ZArith QArith Bool Arith Permutation.
From Similari Require Import Model.DistProto Proofs.DistProtoProofs Model.Assign Model.Voting
                             Proofs.AssignProofs Proofs.AssignPerm Proofs.VotingProofs.
Import ListNotations.
Local Close Scope Q_scope.

Section C05Visual.
  Variable track : Type.
  Variable OBS : Type.
  Variable MV : Type.
  Variable tid : track -> N.
  Variable compatible : track -> track -> bool.
  Variable baked : track -> status.
  Variable observations : track -> N -> option (list OBS).
  Variable metric : N -> track -> OBS -> track -> OBS -> option MV.
  Variable postprocess : track -> list (res MV) -> list (res MV).
  Variable cls : N.
  Variable ob : bool.
  Variable TS : Type.
  Variable IN : Type.
  Variable OUT : Type.
  Variable store_of : TS -> list track.
  Variable cands_of : TS -> IN -> TS * list track.
  Variable commit : TS -> list track -> option (list (N * (N * vtype))) -> TS * OUT.

  Variable weight_of : MV -> option Z.      (* positional metric, scaled *)
  Variable feat_of : MV -> option Q.        (* feature distance *)
  Variable km : matrix -> list nat.         (* the Kuhn-Munkres oracle of the positional stage *)
  Variable thr : Z.
  Variable maxd : Q.
  Variable minv : nat.

  Definition to_vd (r : res MV) : vd := mkv (fst (fst r)) (snd (fst r)) (weight_of (snd r)) (feat_of (snd r)).

  (* VisualVoting::winners on the delivered stream, answer in canonical form *)
  Definition visual_winners_of (s : list (res MV)) : option (list (N * (N * vtype))) :=
    visual_winners km thr maxd minv (map to_vd s).

  (* no exact ties: distinct comparison keys in the appearance stage, tie-free Hungarian stage on the rest *)
  Definition visual_tie_free (s : list (res MV)) : Prop := vis_tie_free thr maxd minv (map to_vd s).

  Lemma visual_winners_of_perm_invariant :
    (0 < thr)%Z -> km_ok km ->
    forall s1 s2, Permutation s1 s2 -> visual_tie_free s1 -> visual_winners_of s1 = visual_winners_of s2.
  Proof.
    intros Hthr Hkm s1 s2 Hp Htf. unfold visual_winners_of.
    exact (visual_winners_perm_invariant_lemma km thr maxd minv Hthr Hkm (map to_vd s1) (map to_vd s2)
             (Permutation_map to_vd Hp) Htf).
  Qed.

  Notation WT := (option (list (N * (N * vtype)))).
  Notation PREDICT := (predict_rel track OBS MV tid compatible baked observations metric postprocess cls ob
                                   TS IN OUT WT store_of cands_of visual_winners_of commit).
  Notation HISTORY := (history_rel track OBS MV tid compatible baked observations metric postprocess cls ob
                                   TS IN OUT WT store_of cands_of visual_winners_of commit).
  Notation TFCALL := (tie_free_call track OBS MV tid compatible baked observations metric postprocess cls ob
                                    TS IN store_of cands_of visual_tie_free).
  Notation TFHIST := (tie_free_history track OBS MV tid compatible baked observations metric postprocess cls ob
                                       TS IN OUT WT store_of cands_of visual_winners_of commit visual_tie_free).

  Lemma predict_independent_visual_lemma n1 n2 ts inp t1 o1 t2 o2 :
    (0 < thr)%Z -> km_ok km -> 0 < n1 -> 0 < n2 -> TFCALL ts inp ->
    PREDICT n1 ts inp t1 o1 -> PREDICT n2 ts inp t2 o2 -> t1 = t2 /\ o1 = o2.
  Proof.
    intros Hthr Hkm.
    exact (predict_independent_lemma track OBS MV tid compatible baked observations metric postprocess cls ob
             TS IN OUT WT store_of cands_of visual_winners_of commit visual_tie_free
             (visual_winners_of_perm_invariant Hthr Hkm) n1 n2 ts inp t1 o1 t2 o2).
  Qed.

  Lemma history_independent_visual_lemma n1 n2 ins ts t1 os1 t2 os2 :
    (0 < thr)%Z -> km_ok km -> 0 < n1 -> 0 < n2 -> TFHIST n1 ts ins ->
    HISTORY n1 ts ins t1 os1 -> HISTORY n2 ts ins t2 os2 -> t1 = t2 /\ os1 = os2.
  Proof.
    intros Hthr Hkm.
    exact (history_independent_lemma track OBS MV tid compatible baked observations metric postprocess cls ob
             TS IN OUT WT store_of cands_of visual_winners_of commit visual_tie_free
             (visual_winners_of_perm_invariant Hthr Hkm) n1 n2 ins ts t1 os1 t2 os2).
  Qed.
End C05Visual.
