(* Lemmas about Model/Store.v (C09, C11 store part).

   Structure: (1) list / association-list helpers; (2) the sharded primitives (find / sset / sdel / sall / sclear /
   sstats) satisfy the laws of a finite map under the invariant [wf] (shard placement, unique keys, key = track id);
   so does the plain association list; (3) everything about the store operations is proved ONCE, generically, from
   those laws; (4) refinement between any two law-abiding instances; (5) instantiation. *)
From Coq Require Import List NArith Bool Arith Lia Permutation.
From Similari Require Import Model.Track Model.Store Proofs.TrackProofs.
Import ListNotations.

(* [dspec L at E as pat]: apply lemma L to (a copy of) the equation E, discharge its side conditions by assumption *)
Tactic Notation "dspec" constr(lemma) "at" hyp(E) "as" simple_intropattern(pat) :=
  let X := fresh "X" in pose proof E as X; eapply lemma in X; try eassumption; destruct X as pat.

(* ------------------------------------------------------------------------------------------------ *)
(* (1) helpers                                                                                        *)

Lemma NoDup_app_intro : forall {A} (l1 l2 : list A),
    NoDup l1 -> NoDup l2 -> (forall x, In x l1 -> ~ In x l2) -> NoDup (l1 ++ l2).
Proof.
  induction l1 as [|a r IH]; intros l2 H1 H2 Hd; cbn [app]; [assumption|].
  inversion H1 as [|x xs Hn H1']; subst. constructor.
  - rewrite in_app_iff. intros [H|H]; [exact (Hn H)|]. exact (Hd a (or_introl eq_refl) H).
  - apply IH; [assumption|assumption|]. intros x Hx. apply Hd. right; assumption.
Qed.

Lemma Permutation_filter_compat : forall {A} (f : A -> bool) (l l' : list A),
    Permutation l l' -> Permutation (filter f l) (filter f l').
Proof.
  intros A f l l' H. induction H; cbn [filter].
  - constructor.
  - destruct (f x); [constructor|]; assumption.
  - destruct (f x); destruct (f y); try reflexivity. constructor.
  - etransitivity; eassumption.
Qed.

Lemma NoDup_map_filter : forall {A B} (g : A -> B) (f : A -> bool) (l : list A),
    NoDup (map g l) -> NoDup (map g (filter f l)).
Proof.
  induction l as [|a r IH]; intros H; cbn [filter map]; [constructor|].
  cbn [map] in H. inversion H as [|x xs Hn H']; subst.
  destruct (f a); cbn [map]; [constructor|]; [|apply IH; assumption|apply IH; assumption].
  intros Hin. apply Hn. apply in_map_iff in Hin. destruct Hin as [y [Hy Hin]].
  apply filter_In in Hin. destruct Hin as [Hin _]. rewrite <- Hy. apply in_map. assumption.
Qed.

Lemma NoDup_pairs_of_keys : forall {A} (l : list (N * A)), NoDup (akeys l) -> NoDup l.
Proof. intros A l H. eapply NoDup_map_inv. exact H. Qed.

Lemma set_nth_length : forall {A} (l : list A) k x, length (set_nth k x l) = length l.
Proof.
  induction l as [|a r IH]; intros k x; cbn [set_nth]; [reflexivity|].
  destruct k; cbn [length]; [reflexivity|]. rewrite IH. reflexivity.
Qed.

Lemma nth_set_nth_same : forall {A} (l : list A) k x d, (k < length l)%nat -> nth k (set_nth k x l) d = x.
Proof.
  induction l as [|a r IH]; intros k x d H; cbn [length] in H; [lia|].
  destruct k; cbn [set_nth nth]; [reflexivity|]. apply IH. lia.
Qed.

Lemma nth_set_nth_other : forall {A} (l : list A) k k' x d, k' <> k -> nth k' (set_nth k x l) d = nth k' l d.
Proof.
  induction l as [|a r IH]; intros k k' x d H; cbn [set_nth]; [reflexivity|].
  destruct k; destruct k'; cbn [nth]; try reflexivity; try congruence.
  apply IH. congruence.
Qed.

(* ------------------------------------------------------------------------------------------------ *)
(* (2) the sharded primitives                                                                         *)

Section Sharded.
  Variables TA OA FT MS : Type.
  Notation track := (track TA OA FT MS).
  Notation sharded := (sharded TA OA FT MS).
  Notation find := (find TA OA FT MS).
  Notation sset := (sset TA OA FT MS).
  Notation sdel := (sdel TA OA FT MS).
  Notation sall := (sall TA OA FT MS).
  Notation sclear := (sclear TA OA FT MS).
  Notation sstats := (sstats TA OA FT MS).
  Notation shard_ix := (shard_ix TA OA FT MS).
  Notation get_shard := (get_shard TA OA FT MS).
  Notation empty_store := (empty_store TA OA FT MS).

  (* The representation invariant: at least one shard; a track stored under key [id] sits in shard
     [id mod n] and carries that id; keys are unique inside a shard. *)
  Definition wf (st : sharded) : Prop :=
    (0 < length st)%nat /\
    (forall k id t, In (id, t) (get_shard st k) -> shard_ix st id = k /\ tid t = id) /\
    (forall k, NoDup (akeys (get_shard st k))).

  Lemma shard_ix_lt : forall st id, (0 < length st)%nat -> (shard_ix st id < length st)%nat.
  Proof.
    intros st id H. unfold Store.shard_ix, nshards.
    assert (Hn : N.of_nat (length st) <> 0%N) by lia.
    pose proof (N.mod_lt id _ Hn) as Hlt. lia.
  Qed.

  Lemma shard_ix_len : forall (st st' : sharded) id, length st' = length st -> shard_ix st' id = shard_ix st id.
  Proof. intros st st' id H. unfold Store.shard_ix, nshards. rewrite H. reflexivity. Qed.

  Lemma shard_ix_eq_id : forall st id id', shard_ix st id' <> shard_ix st id -> (id' =? id)%N = false.
  Proof. intros st id id' H. apply N.eqb_neq. intros E. subst. apply H; reflexivity. Qed.

  Lemma find_sset : forall st id t id', (0 < length st)%nat ->
      find (sset st id t) id' = if (id' =? id)%N then Some t else find st id'.
  Proof.
    intros st id t id' Hn. unfold Store.find, Store.sset, Store.get_shard.
    rewrite (shard_ix_len st (set_nth _ _ st) id') by apply set_nth_length.
    destruct (Nat.eq_dec (shard_ix st id') (shard_ix st id)) as [E|E].
    - rewrite E. rewrite nth_set_nth_same by (apply shard_ix_lt; assumption).
      rewrite alookup_aset. reflexivity.
    - rewrite nth_set_nth_other by assumption. rewrite (shard_ix_eq_id st id id' E). reflexivity.
  Qed.

  Lemma find_sdel : forall st id id', (0 < length st)%nat ->
      find (sdel st id) id' = if (id' =? id)%N then None else find st id'.
  Proof.
    intros st id id' Hn. unfold Store.find, Store.sdel, Store.get_shard.
    rewrite (shard_ix_len st (set_nth _ _ st) id') by apply set_nth_length.
    destruct (Nat.eq_dec (shard_ix st id') (shard_ix st id)) as [E|E].
    - rewrite E. rewrite nth_set_nth_same by (apply shard_ix_lt; assumption).
      rewrite alookup_aremove. reflexivity.
    - rewrite nth_set_nth_other by assumption. rewrite (shard_ix_eq_id st id id' E). reflexivity.
  Qed.

  Lemma wf_sset : forall st id t, wf st -> tid t = id -> wf (sset st id t).
  Proof.
    intros st id t (Hn & Hp & Hd) Ht. unfold wf.
    assert (Hlen : length (sset st id t) = length st) by apply set_nth_length.
    split; [rewrite Hlen; assumption|]. split.
    - intros k id0 t0 Hin. rewrite (shard_ix_len st _ id0 Hlen).
      unfold Store.sset, Store.get_shard in Hin.
      destruct (Nat.eq_dec k (shard_ix st id)) as [E|E].
      + subst k. rewrite nth_set_nth_same in Hin by (apply shard_ix_lt; assumption).
        unfold aset in Hin. destruct Hin as [Hin|Hin].
        * inversion Hin; subst. split; reflexivity.
        * apply aremove_In in Hin. destruct Hin as [_ Hin]. apply (Hp _ _ _ Hin).
      + rewrite nth_set_nth_other in Hin by assumption. apply (Hp _ _ _ Hin).
    - intros k. unfold Store.sset, Store.get_shard.
      destruct (Nat.eq_dec k (shard_ix st id)) as [E|E].
      + subst k. rewrite nth_set_nth_same by (apply shard_ix_lt; assumption).
        apply NoDup_akeys_aset. apply Hd.
      + rewrite nth_set_nth_other by assumption. apply Hd.
  Qed.

  Lemma wf_sdel : forall st id, wf st -> wf (sdel st id).
  Proof.
    intros st id (Hn & Hp & Hd). unfold wf.
    assert (Hlen : length (sdel st id) = length st) by apply set_nth_length.
    split; [rewrite Hlen; assumption|]. split.
    - intros k id0 t0 Hin. rewrite (shard_ix_len st _ id0 Hlen).
      unfold Store.sdel, Store.get_shard in Hin.
      destruct (Nat.eq_dec k (shard_ix st id)) as [E|E].
      + subst k. rewrite nth_set_nth_same in Hin by (apply shard_ix_lt; assumption).
        apply aremove_In in Hin. destruct Hin as [_ Hin]. apply (Hp _ _ _ Hin).
      + rewrite nth_set_nth_other in Hin by assumption. apply (Hp _ _ _ Hin).
    - intros k. unfold Store.sdel, Store.get_shard.
      destruct (Nat.eq_dec k (shard_ix st id)) as [E|E].
      + subst k. rewrite nth_set_nth_same by (apply shard_ix_lt; assumption).
        apply NoDup_akeys_aremove. apply Hd.
      + rewrite nth_set_nth_other by assumption. apply Hd.
  Qed.

  Lemma nth_map_nil : forall (st : sharded) k, nth k (map (fun _ : list (N * track) => @nil (N * track)) st) [] = [].
  Proof. induction st as [|a r IH]; intros k; destruct k; cbn [map nth]; auto. Qed.

  Lemma wf_sclear : forall st, wf st -> wf (sclear st).
  Proof.
    intros st (Hn & _ & _). unfold wf, Store.sclear, Store.get_shard.
    split; [rewrite map_length; assumption|]. split.
    - intros k id t Hin. rewrite nth_map_nil in Hin. destruct Hin.
    - intros k. rewrite nth_map_nil. constructor.
  Qed.

  Lemma find_sclear : forall st id, find (sclear st) id = None.
  Proof. intros st id. unfold Store.find, Store.sclear, Store.get_shard. rewrite nth_map_nil. reflexivity. Qed.

  Lemma nth_repeat_nil : forall n k, nth k (repeat (@nil (N * track)) n) [] = [].
  Proof. induction n as [|n IH]; intros k; destruct k; cbn [repeat nth]; auto. Qed.

  Lemma wf_empty : forall n, (0 < n)%nat -> wf (empty_store n).
  Proof.
    intros n Hn. unfold wf, Store.empty_store, Store.get_shard. split; [rewrite repeat_length; assumption|]. split.
    - intros k id t Hin. rewrite nth_repeat_nil in Hin. destruct Hin.
    - intros k. rewrite nth_repeat_nil. constructor.
  Qed.

  Lemma find_empty : forall n id, find (empty_store n) id = None.
  Proof. intros n id. unfold Store.find, Store.empty_store, Store.get_shard. rewrite nth_repeat_nil. reflexivity. Qed.

  Lemma sall_In : forall st id t, wf st -> (In (id, t) (sall st) <-> find st id = Some t).
  Proof.
    intros st id t (Hn & Hp & Hd). unfold Store.sall, Store.find. split.
    - intros H. apply in_concat in H. destruct H as [s [Hs Hin]].
      destruct (In_nth _ _ [] Hs) as [k [Hk Hnth]]. subst s.
      destruct (Hp k id t Hin) as [Hix _]. rewrite Hix.
      apply In_alookup_nodup; [apply Hd|assumption].
    - intros H. apply alookup_In in H. apply in_concat.
      exists (get_shard st (shard_ix st id)). split; [|assumption].
      unfold Store.get_shard. apply nth_In. apply shard_ix_lt. assumption.
  Qed.

  Lemma concat_keys_nodup : forall (l : list (list (N * track))),
      (forall k, NoDup (akeys (nth k l []))) ->
      (forall k k' id, In id (akeys (nth k l [])) -> In id (akeys (nth k' l [])) -> k = k') ->
      NoDup (akeys (concat l)).
  Proof.
    induction l as [|s r IH]; intros Hd Hx; cbn [concat]; [constructor|].
    unfold akeys. rewrite map_app. apply NoDup_app_intro.
    - exact (Hd 0%nat).
    - apply IH.
      + intros k. exact (Hd (S k)).
      + intros k k' id H1 H2. specialize (Hx (S k) (S k') id H1 H2). lia.
    - intros id H1 H2. fold (akeys (concat r)) in H2.
      unfold akeys in H2. rewrite concat_map in H2. apply in_concat in H2.
      destruct H2 as [ks [Hks Hid]]. apply in_map_iff in Hks. destruct Hks as [s' [Hs' Hin']]. subst ks.
      destruct (In_nth _ _ [] Hin') as [k [Hk Hnth]]. subst s'.
      specialize (Hx 0%nat (S k) id H1 Hid). lia.
  Qed.

  Lemma sall_nodup : forall st, wf st -> NoDup (akeys (sall st)).
  Proof.
    intros st (Hn & Hp & Hd). unfold Store.sall. apply concat_keys_nodup.
    - exact Hd.
    - intros k k' id H1 H2. unfold akeys in H1, H2.
      apply in_map_iff in H1. destruct H1 as [[i1 t1] [E1 H1]].
      apply in_map_iff in H2. destruct H2 as [[i2 t2] [E2 H2]]. cbn [fst] in E1, E2. subst i1 i2.
      destruct (Hp k id t1 H1) as [A1 _]. destruct (Hp k' id t2 H2) as [A2 _]. congruence.
  Qed.

  Lemma find_tid : forall st id t, wf st -> find st id = Some t -> tid t = id.
  Proof.
    intros st id t (Hn & Hp & Hd) H. unfold Store.find in H. apply alookup_In in H.
    apply (Hp _ _ _ H).
  Qed.

  Lemma find_shard_placement : forall st k id t, wf st -> In (id, t) (get_shard st k) ->
      k = N.to_nat (id mod N.of_nat (length st)) /\ tid t = id /\ find st id = Some t.
  Proof.
    intros st k id t Hwf Hin. destruct Hwf as (Hn & Hp & Hd).
    destruct (Hp k id t Hin) as [Hix Ht]. split; [symmetry; exact Hix|]. split; [assumption|].
    unfold Store.find. rewrite Hix. apply In_alookup_nodup; [apply Hd|assumption].
  Qed.

  Lemma sstats_sum : forall st, fold_right N.add 0%N (sstats st) = N.of_nat (length (sall st)).
  Proof.
    induction st as [|s r IH]; cbn [Store.sstats Store.sall map concat fold_right]; [reflexivity|].
    fold (sstats r). fold (sall r). rewrite IH. rewrite app_length. lia.
  Qed.
End Sharded.

(* ------------------------------------------------------------------------------------------------ *)
(* (3) generic theory: the store operations over any map interface that satisfies the finite-map laws  *)

Section GenericStore.
  Variables TA UPD OA FT MS W LQ : Type.
  Notation track := (track TA OA FT MS).
  Notation observation := (observation OA FT).
  Notation obsdb := (obsdb OA FT).
  Notation sop := (sop TA UPD OA FT MS LQ).
  Notation sres := (sres TA OA FT MS).

  Variable cb_apply : W -> UPD -> TA -> W * bool * TA.
  Variable cb_merge : W -> TA -> TA -> W * bool * TA.
  Variable cb_optimize :
    W -> MS -> N -> list N -> TA -> list observation -> nat -> bool -> W * bool * MS * TA * list observation.
  Variable cb_baked : TA -> obsdb -> bstatus.
  Variable cb_lookup : LQ -> TA -> obsdb -> list N -> bool.
  Variable dflt_metric : MS.
  Variable dflt_attrs : TA.

  Notation add_observation := (add_observation cb_apply cb_optimize).
  Notation merge := (merge cb_merge cb_optimize).
  Notation build := (build cb_apply cb_optimize).
  Notation baked := (baked TA OA FT MS cb_baked).

  Section Laws.
    Variable M : Type.
    Variable mfind : M -> N -> option track.
    Variable mset : M -> N -> track -> M.
    Variable mdel : M -> N -> M.
    Variable mall : M -> list (N * track).
    Variable mclear : M -> M.
    Variable mstats : M -> list N.
    Variable inv : M -> Prop.

    Record laws : Prop := mkLaws {
      l_find_set : forall m id t id', inv m ->
          mfind (mset m id t) id' = if (id' =? id)%N then Some t else mfind m id';
      l_inv_set : forall m id t, inv m -> tid t = id -> inv (mset m id t);
      l_find_del : forall m id id', inv m ->
          mfind (mdel m id) id' = if (id' =? id)%N then None else mfind m id';
      l_inv_del : forall m id, inv m -> inv (mdel m id);
      l_find_clear : forall m id, inv m -> mfind (mclear m) id = None;
      l_inv_clear : forall m, inv m -> inv (mclear m);
      l_all_in : forall m id t, inv m -> (In (id, t) (mall m) <-> mfind m id = Some t);
      l_all_nodup : forall m, inv m -> NoDup (akeys (mall m));
      l_find_tid : forall m id t, inv m -> mfind m id = Some t -> tid t = id;
      l_stats : forall m, inv m -> fold_right N.add 0%N (mstats m) = N.of_nat (length (mall m))
    }.

    Hypothesis L : laws.

    Notation g_add_track := (g_add_track TA OA FT MS M mfind mset).
    Notation g_add := (g_add TA UPD OA FT MS W cb_apply cb_optimize dflt_metric dflt_attrs M mfind mset).
    Notation g_fetch := (g_fetch TA OA FT MS M mfind mdel).
    Notation g_merge_cmd := (g_merge_cmd TA OA FT MS W cb_merge cb_optimize M mfind mset).
    Notation g_merge_external_noblock := (g_merge_external_noblock TA OA FT MS W cb_merge cb_optimize M mfind mset).
    Notation g_merge_external := (g_merge_external TA OA FT MS W cb_merge cb_optimize M mfind mset).
    Notation g_merge_owned := (g_merge_owned TA OA FT MS W cb_merge cb_optimize M mfind mset mdel).
    Notation g_lookup := (g_lookup TA OA FT MS LQ cb_baked cb_lookup M mall).
    Notation g_find_usable := (g_find_usable TA OA FT MS cb_baked M mall).
    Notation gstep := (gstep TA UPD OA FT MS W LQ cb_apply cb_merge cb_optimize cb_baked cb_lookup
                             dflt_metric dflt_attrs M mfind mset mdel mall mclear mstats).
    Notation grun := (grun TA UPD OA FT MS W LQ cb_apply cb_merge cb_optimize cb_baked cb_lookup
                           dflt_metric dflt_attrs M mfind mset mdel mall mclear mstats).

    (* two states hold the same map *)
    Definition meq (m m' : M) : Prop := forall id, mfind m' id = mfind m id.

    (* --- add_track ------------------------------------------------------------------------------ *)

    Lemma g_add_track_dup : forall m t t0, mfind m (tid t) = Some t0 ->
        g_add_track m t = (Err (EDuplicate (tid t)), m).
    Proof. intros m t t0 H. unfold Store.g_add_track. rewrite H. reflexivity. Qed.

    Lemma g_add_track_fresh : forall m t, mfind m (tid t) = None ->
        g_add_track m t = (Ok (tid t), mset m (tid t) t).
    Proof. intros m t H. unfold Store.g_add_track. rewrite H. reflexivity. Qed.

    Lemma g_add_track_inv : forall m t, inv m -> inv (snd (g_add_track m t)).
    Proof.
      intros m t Hi. unfold Store.g_add_track. destruct (mfind m (tid t)); cbn [snd]; [assumption|].
      apply (l_inv_set L); auto.
    Qed.

    (* --- add ------------------------------------------------------------------------------------ *)

    (* stored id: C11 atomicity at the store level *)
    Lemma g_add_existing : forall w m id cls fa f u t w' r m' n,
        inv m -> mfind m id = Some t ->
        g_add w m id cls fa f u = (w', r, m', n) ->
        inv m' /\
        match r with
        | Err _ => meq m m' /\ n = 0%nat
        | Ok _ => n = 1%nat /\
                  exists t', add_observation w t cls fa f u = (w', Ok tt, t', n) /\
                             forall id', mfind m' id' = if (id' =? id)%N then Some t' else mfind m id'
        end.
    Proof.
      intros w m id cls fa f u t w' r m' n Hi Hf H. unfold Store.g_add in H. rewrite Hf in H.
      destruct (add_observation w t cls fa f u) as [[[w1 r1] t1] n1] eqn:EA.
      inversion H; subst. pose proof EA as HA. apply add_observation_atomic_lemma in HA.
      pose proof (l_find_tid L _ _ _ Hi Hf) as Ht.
      destruct r as [[]|e].
      - destruct HA as (Hn & Hid & _). split; [apply (l_inv_set L); congruence|].
        split; [assumption|]. exists t1. split; [reflexivity|].
        intros id'. apply (l_find_set L). assumption.
      - destruct HA as (Heq & Hn). subst t1. split; [apply (l_inv_set L); assumption|]. split; [|assumption].
        intros id'. rewrite (l_find_set L) by assumption.
        destruct (id' =? id)%N eqn:E; [|reflexivity]. apply N.eqb_eq in E. subst. symmetry; assumption.
    Qed.

    (* missing id: exactly what building the track externally and inserting it with add_track gives *)
    Lemma g_add_missing : forall w m id cls fa f u,
        mfind m id = None ->
        g_add w m id cls fa f u =
        let '(w1, r, n) := build w id dflt_metric dflt_attrs [(cls, fa, f, u)] in
        match r with
        | Ok t => (w1, Ok tt, snd (g_add_track m t), n)
        | Err e => (w1, Err e, m, n)
        end.
    Proof.
      intros w m id cls fa f u Hf. unfold Store.g_add. rewrite Hf.
      destruct (build w id dflt_metric dflt_attrs [(cls, fa, f, u)]) as [[w1 r] n] eqn:EB.
      destruct r as [t|e]; [|reflexivity].
      apply build_ok in EB. destruct EB as (Hid & _ & _).
      rewrite g_add_track_fresh by (rewrite Hid; assumption). cbn [snd]. rewrite Hid. reflexivity.
    Qed.

    Lemma g_add_inv : forall w m id cls fa f u w' r m' n,
        inv m -> g_add w m id cls fa f u = (w', r, m', n) -> inv m'.
    Proof.
      intros w m id cls fa f u w' r m' n Hi H.
      destruct (mfind m id) as [t|] eqn:Hf.
      - eapply g_add_existing in H; eauto. tauto.
      - rewrite g_add_missing in H by assumption.
        destruct (build w id dflt_metric dflt_attrs [(cls, fa, f, u)]) as [[w1 r1] n1].
        destruct r1; inversion H; subst; [apply g_add_track_inv|]; assumption.
    Qed.

    (* --- fetch_tracks --------------------------------------------------------------------------- *)

    Lemma g_fetch_spec : forall ids m ts m',
        inv m -> g_fetch m ids = (ts, m') ->
        inv m' /\
        (forall id, mfind m' id = if existsb (N.eqb id) ids then None else mfind m id) /\
        (forall t, In t ts <-> exists id, In id ids /\ mfind m id = Some t) /\
        NoDup (map tid ts).
    Proof.
      induction ids as [|id r IH]; intros m ts m' Hi H; cbn [Store.g_fetch] in H.
      - inversion H; subst. split; [assumption|]. split; [intros; reflexivity|]. split; [|constructor].
        intros t. split; [intros []|intros [id [[] _]]].
      - destruct (mfind m id) as [t0|] eqn:Hf.
        + destruct (g_fetch (mdel m id) r) as [ts1 m1] eqn:EF. inversion H; subst.
          pose proof (l_inv_del L _ id Hi) as Hi1.
          destruct (IH _ _ _ Hi1 EF) as (Hinv & Hfind & Hin & Hnd).
          split; [assumption|]. split; [|split].
          * intros id'. rewrite Hfind. cbn [existsb]. rewrite (l_find_del L) by assumption.
            destruct (id' =? id)%N; cbn [orb]; [|reflexivity].
            destruct (existsb (N.eqb id') r); reflexivity.
          * intros t. cbn [In]. rewrite Hin. split.
            -- intros [E|[id' [Hr Hf']]].
               ++ subst. exists id. split; [left; reflexivity|assumption].
               ++ rewrite (l_find_del L) in Hf' by assumption.
                  destruct (id' =? id)%N; [discriminate|]. exists id'. split; [right|]; assumption.
            -- intros [id' [[E|Hr] Hf']].
               ++ subst. left. congruence.
               ++ destruct (id' =? id)%N eqn:E.
                  ** apply N.eqb_eq in E. subst. left. congruence.
                  ** right. exists id'. split; [assumption|].
                     rewrite (l_find_del L) by assumption. rewrite E. assumption.
          * cbn [map]. constructor; [|assumption].
            intros Hc. apply in_map_iff in Hc. destruct Hc as [t1 [Ht1 Hin1]].
            apply Hin in Hin1. destruct Hin1 as [id' [_ Hf']].
            rewrite (l_find_del L) in Hf' by assumption.
            destruct (id' =? id)%N eqn:E; [discriminate|].
            pose proof (l_find_tid L _ _ _ Hi Hf') as T1. pose proof (l_find_tid L _ _ _ Hi Hf) as T0.
            apply N.eqb_neq in E. congruence.
        + destruct (IH _ _ _ Hi H) as (Hinv & Hfind & Hin & Hnd).
          split; [assumption|]. split; [|split]; [| |assumption].
          * intros id'. rewrite Hfind. cbn [existsb].
            destruct (id' =? id)%N eqn:E; cbn [orb]; [|reflexivity].
            apply N.eqb_eq in E. subst. rewrite Hf. destruct (existsb (N.eqb id) r); reflexivity.
          * intros t. rewrite Hin. split.
            -- intros [id' [Hr Hf']]. exists id'. split; [right|]; assumption.
            -- intros [id' [[E|Hr] Hf']]; [subst; congruence|]. exists id'. split; assumption.
    Qed.

    (* --- merge ---------------------------------------------------------------------------------- *)

    Definition eff_classes (src : track) (classes : list N) : list N :=
      match classes with [] => feature_classes src | _ :: _ => classes end.

    Lemma g_merge_cmd_spec : forall w m dst src classes mh w' r m' n,
        inv m -> g_merge_cmd w m dst src classes mh = (w', r, m', n) ->
        inv m' /\
        match mfind m dst with
        | None => r = Err (ENotFound dst) /\ m' = m /\ n = 0%nat /\ w' = w
        | Some d =>
            if (dst =? tid src)%N then r = Err (ESameTrack dst) /\ m' = m /\ n = 0%nat /\ w' = w
            else exists d', merge w d src (eff_classes src classes) mh = (w', r, d', n) /\
                            match r with
                            | Err _ => meq m m' /\ n = 0%nat
                            | Ok _ => n = 1%nat /\
                                      forall id, mfind m' id = if (id =? dst)%N then Some d' else mfind m id
                            end
        end.
    Proof.
      intros w m dst src classes mh w' r m' n Hi H. unfold Store.g_merge_cmd in H.
      destruct (mfind m dst) as [d|] eqn:Hf.
      - destruct (dst =? tid src)%N.
        + inversion H; subst. auto.
        + fold (eff_classes src classes) in H.
          destruct (merge w d src (eff_classes src classes) mh) as [[[w1 r1] d1] n1] eqn:EM.
          inversion H; subst.
          pose proof EM as HM. apply merge_spec_lemma in HM.
          pose proof (l_find_tid L _ _ _ Hi Hf) as Ht.
          destruct r as [[]|e].
          * destruct HM as (Hn & Hid & _). split; [apply (l_inv_set L); congruence|].
            exists d1. split; [reflexivity|]. split; [assumption|].
            intros id. apply (l_find_set L). assumption.
          * destruct HM as (Heq & Hn). subst d1. split; [apply (l_inv_set L); assumption|].
            exists d. split; [reflexivity|]. split; [|assumption].
            intros id. rewrite (l_find_set L) by assumption.
            destruct (id =? dst)%N eqn:E; [|reflexivity]. apply N.eqb_eq in E. subst. symmetry; assumption.
      - inversion H; subst. auto.
    Qed.

    Definition opt_classes (c : option (list N)) : list N := match c with Some c => c | None => [] end.

    Lemma g_merge_external_eq : forall w m dst src classes mh,
        g_merge_external w m dst src classes mh = g_merge_cmd w m dst src (opt_classes classes) mh.
    Proof.
      intros. unfold Store.g_merge_external, Store.g_merge_external_noblock, future_get.
      fold (opt_classes classes).
      destruct (g_merge_cmd w m dst src (opt_classes classes) mh) as [[[w1 r1] m1] n1]. reflexivity.
    Qed.

    Lemma g_merge_external_noblock_eq : forall w m dst src classes mh,
        g_merge_external_noblock w m dst src classes mh = g_merge_cmd w m dst src (opt_classes classes) mh.
    Proof. intros. reflexivity. Qed.

    (* failure of a merge leaves the map as it was and notifies nobody *)
    Lemma g_merge_cmd_err : forall w m dst src classes mh w' e m' n,
        inv m -> g_merge_cmd w m dst src classes mh = (w', Err e, m', n) -> meq m m' /\ n = 0%nat.
    Proof.
      intros w m dst src classes mh w' e m' n Hi H.
      dspec g_merge_cmd_spec at H as [_ HS].
      destruct (mfind m dst).
      - destruct (dst =? tid src)%N.
        + destruct HS as (_ & E & Hn & _). subst. split; [intros id; reflexivity|reflexivity].
        + destruct HS as [d' [_ HS]]. exact HS.
      - destruct HS as (_ & E & Hn & _). subst. split; [intros id; reflexivity|reflexivity].
    Qed.

    Lemma g_merge_owned_spec : forall w m dst src_id classes rm mh w' r m' n,
        inv m -> g_merge_owned w m dst src_id classes rm mh = (w', r, m', n) ->
        inv m' /\
        match mfind m src_id with
        | None => r = Err (ENotFound src_id) /\ meq m m' /\ n = 0%nat /\ w' = w
        | Some src =>
            exists r1 m1,
              g_merge_cmd w (mdel m src_id) dst src (opt_classes classes) mh = (w', r1, m1, n) /\
              match r1 with
              | Err e => r = Err e /\ meq m m' /\ n = 0%nat
              | Ok _ => r = (if rm then Ok (Some src) else Ok None) /\ n = 1%nat /\
                        forall id, mfind m' id =
                                   if (id =? src_id)%N then (if rm then None else Some src) else mfind m1 id
              end
        end.
    Proof.
      intros w m dst src_id classes rm mh w' r m' n Hi H. unfold Store.g_merge_owned in H.
      cbn [Store.g_fetch] in H.
      destruct (mfind m src_id) as [src|] eqn:Hs.
      - fold (g_merge_external w (mdel m src_id) dst src classes mh) in H.
        rewrite g_merge_external_eq in H.
        destruct (g_merge_cmd w (mdel m src_id) dst src (opt_classes classes) mh) as [[[w1 r1] m1] n1] eqn:EM.
        pose proof (l_inv_del L _ src_id Hi) as Hi1.
        pose proof (l_find_tid L _ _ _ Hi Hs) as Hts. subst src_id.
        dspec g_merge_cmd_spec at EM as [Hinv1 HS].
        assert (Hsrc1 : mfind m1 (tid src) = None \/ (dst = (tid src))).
        { destruct (N.eq_dec dst (tid src)) as [E|E]; [right; assumption|left].
          rewrite (l_find_del L) in HS by assumption.
          destruct ((dst =? (tid src))%N) eqn:E1; [apply N.eqb_eq in E1; contradiction|].
          destruct (mfind m dst) as [d|].
          - destruct HS as [d' [_ HS]].
            destruct r1.
            + destruct HS as (_ & HS). rewrite HS. rewrite (N.eqb_sym (tid src) dst), E1.
              rewrite (l_find_del L) by assumption. rewrite N.eqb_refl. reflexivity.
            + destruct HS as (HS & _). rewrite HS. rewrite (l_find_del L) by assumption.
              rewrite N.eqb_refl. reflexivity.
          - destruct HS as (_ & HS & _). subst m1. rewrite (l_find_del L) by assumption.
            rewrite N.eqb_refl. reflexivity. }
        destruct r1 as [[]|e].
        + (* merge succeeded: dst <> (tid src) necessarily *)
          assert (Hne : mfind m1 (tid src) = None).
          { destruct Hsrc1 as [A|A]; [assumption|]. subst dst. exfalso.
            rewrite (l_find_del L) in HS by assumption. rewrite N.eqb_refl in HS.
            destruct HS as (HS & _). discriminate. }
          assert (Hn1 : n1 = 1%nat).
          { rewrite (l_find_del L) in HS by assumption.
            destruct (dst =? (tid src))%N; [destruct HS as (HS & _); discriminate|].
            destruct (mfind m dst); [|destruct HS as (HS & _); discriminate].
            destruct HS as [d' [_ (Hn & _)]]. assumption. }
          destruct rm; cbn [negb] in H; inversion H; subst.
          * split; [assumption|]. exists (Ok tt), m'. split; [reflexivity|]. split; [reflexivity|].
            split; [reflexivity|]. intros id. destruct (id =? (tid src))%N eqn:E; [|reflexivity].
            apply N.eqb_eq in E. subst. assumption.
          * rewrite g_add_track_fresh by assumption. cbn [snd].
            split; [apply (l_inv_set L); [assumption|reflexivity]|].
            exists (Ok tt), m1. split; [reflexivity|]. split; [reflexivity|]. split; [reflexivity|].
            intros id. apply (l_find_set L). assumption.
        + (* merge failed: the source is put back *)
          dspec g_merge_cmd_err at EM as [Heq Hn1].
          assert (Hne : mfind m1 (tid src) = None).
          { rewrite Heq. rewrite (l_find_del L) by assumption. rewrite N.eqb_refl. reflexivity. }
          inversion H; subst.
          rewrite g_add_track_fresh by assumption. cbn [snd].
          split; [apply (l_inv_set L); [assumption|reflexivity]|].
          exists (Err e), m1. split; [reflexivity|]. split; [reflexivity|]. split; [|reflexivity].
          intros id. rewrite (l_find_set L) by assumption.
          destruct (id =? (tid src))%N eqn:E.
          * apply N.eqb_eq in E. subst. symmetry; assumption.
          * rewrite Heq. rewrite (l_find_del L) by assumption. rewrite E. reflexivity.
      - inversion H; subst. split; [assumption|]. split; [reflexivity|]. split; [intros id; reflexivity|].
        split; reflexivity.
    Qed.

    (* --- lookup / find_usable / stats ------------------------------------------------------------ *)

    Lemma g_lookup_spec : forall m q, inv m ->
        (forall id s, In (id, s) (g_lookup m q) <->
                      exists t, mfind m id = Some t /\ track_lookup cb_lookup q t = true /\ s = baked t) /\
        NoDup (map fst (g_lookup m q)).
    Proof.
      intros m q Hi. unfold Store.g_lookup. split.
      - intros id s. rewrite in_map_iff. split.
        + intros [[k t] [E Hin]]. cbn [snd] in E. inversion E; subst.
          apply filter_In in Hin. cbn [snd] in Hin. destruct Hin as [Hin Hq].
          apply (l_all_in L) in Hin; [|assumption].
          pose proof (l_find_tid L _ _ _ Hi Hin) as Ht. exists t. rewrite Ht. auto.
        + intros [t [Hf [Hq Hs]]]. exists (id, t). cbn [snd].
          pose proof (l_find_tid L _ _ _ Hi Hf) as Ht. subst s. rewrite Ht. split; [reflexivity|].
          apply filter_In. cbn [snd]. split; [|assumption]. apply (l_all_in L); assumption.
      - rewrite map_map.
        erewrite map_ext_in with (g := fst).
        + apply NoDup_map_filter. exact (l_all_nodup L _ Hi).
        + intros [k t] Hin. cbn [fst snd]. apply filter_In in Hin. destruct Hin as [Hin _].
          apply (l_all_in L) in Hin; [|assumption]. exact (l_find_tid L _ _ _ Hi Hin).
    Qed.

    Lemma g_find_usable_spec : forall m, inv m ->
        (forall id s, In (id, s) (g_find_usable m) <->
                      exists t, mfind m id = Some t /\ s = baked t /\ s <> BPending) /\
        NoDup (map fst (g_find_usable m)).
    Proof.
      intros m Hi. unfold Store.g_find_usable. split.
      - intros id s. rewrite in_flat_map. split.
        + intros [[k t] [Hin Hs]]. cbn [fst snd] in Hs.
          apply (l_all_in L) in Hin; [|assumption].
          destruct (baked t) eqn:EB; cbn [In] in Hs; [ | destruct Hs | | ];
            (destruct Hs as [Hs|[]]; inversion Hs; subst; exists t; rewrite EB;
             split; [assumption|]; split; [reflexivity|discriminate]).
        + intros [t [Hf [Hs Hne]]]. exists (id, t). split; [apply (l_all_in L); assumption|].
          cbn [fst snd]. rewrite <- Hs. destruct s; try (left; reflexivity). congruence.
      - pose proof (l_all_nodup L _ Hi) as Hnd. unfold akeys in Hnd.
        induction (mall m) as [|[k t] r IH]; cbn [flat_map]; [constructor|].
        cbn [map] in Hnd. inversion Hnd as [|x xs Hn Hnd']; subst.
        rewrite map_app. apply NoDup_app_intro.
        + cbn [fst snd]. destruct (baked t); cbn [map]; repeat constructor; intros [].
        + apply IH; assumption.
        + intros x Hx Hx'. cbn [fst snd] in Hx.
          assert (x = k) by (destruct (baked t); cbn [map In fst] in Hx; intuition congruence). subst x.
          apply Hn. apply in_map_iff in Hx'. destruct Hx' as [[k' s'] [E Hin]]. cbn [fst] in E. subst k'.
          apply in_flat_map in Hin. destruct Hin as [[k2 t2] [Hin2 Hs2]]. cbn [fst snd] in Hs2.
          assert (k2 = k) by (destruct (baked t2); cbn [In] in Hs2; intuition congruence).
          subst. change (In (fst (k, t2)) (map fst r)). apply in_map. assumption.
    Qed.

    (* --- invariant preservation: for every operation, hence every operation sequence -------------- *)

    Lemma gstep_inv : forall w m o w' r m' n, inv m -> gstep w m o = (w', r, m', n) -> inv m'.
    Proof.
      intros w m o w' r m' n Hi H. destruct o; cbn [Store.gstep] in H.
      - pose proof (g_add_track_inv m t Hi) as Hx. destruct (g_add_track m t). inversion H; subst. exact Hx.
      - destruct (g_add w m id cls fa f u) as [[[w1 r1] m1] n1] eqn:E. inversion H; subst.
        eapply g_add_inv; eassumption.
      - destruct (g_fetch m ids) as [ts m1] eqn:E. inversion H; subst.
        dspec g_fetch_spec at E as (Hx & _). exact Hx.
      - destruct (g_merge_owned w m dst src cls rm mh) as [[[w1 r1] m1] n1] eqn:E. inversion H; subst.
        dspec g_merge_owned_spec at E as (Hx & _). exact Hx.
      - rewrite g_merge_external_eq in H.
        destruct (g_merge_cmd w m dst t (opt_classes cls) mh) as [[[w1 r1] m1] n1] eqn:E. inversion H; subst.
        dspec g_merge_cmd_spec at E as (Hx & _). exact Hx.
      - rewrite g_merge_external_noblock_eq in H. unfold future_get in H.
        destruct (g_merge_cmd w m dst t (opt_classes cls) mh) as [[[w1 r1] m1] n1] eqn:E. inversion H; subst.
        dspec g_merge_cmd_spec at E as (Hx & _). exact Hx.
      - inversion H; subst; assumption.
      - inversion H; subst; assumption.
      - inversion H; subst. apply (l_inv_clear L); assumption.
      - inversion H; subst; assumption.
      - destruct (build w id dflt_metric dflt_attrs []) as [[w1 r1] n1]. inversion H; subst; assumption.
    Qed.

    Lemma grun_inv : forall ops w m w' out m', inv m -> grun w m ops = (w', out, m') -> inv m'.
    Proof.
      induction ops as [|o r IH]; intros w m w' out m' Hi H; cbn [Store.grun] in H.
      - inversion H; subst; assumption.
      - destruct (gstep w m o) as [[[w1 res] m1] n1] eqn:ES.
        destruct (grun w1 m1 r) as [[w2 out2] m2] eqn:ER. inversion H; subst.
        eapply IH; [|eassumption]. eapply gstep_inv; eassumption.
    Qed.

    (* --- "an added track is found until fetched or cleared" ---------------------------------------- *)

    Lemma gstep_presence : forall w m o w' r m' n id,
        inv m -> gstep w m o = (w', r, m', n) -> mfind m id <> None ->
        mfind m' id <> None \/
        (exists ids, o = Fetch ids /\ In id ids) \/
        o = Clear \/
        (exists dst cls mh src, o = MergeOwned dst id cls true mh /\ r = ROwned (Ok (Some src))).
    Proof.
      intros w m o w' r m' n id Hi H Hp. destruct o; cbn [Store.gstep] in H.
      - left. unfold Store.g_add_track in H. destruct (mfind m (tid t)) eqn:E; inversion H; subst; [assumption|].
        rewrite (l_find_set L) by assumption. destruct (id =? tid t)%N; [discriminate|assumption].
      - left. destruct (g_add w m id0 cls fa f u) as [[[w1 r1] m1] n1] eqn:E. inversion H; subst.
        destruct (mfind m id0) as [t|] eqn:Hf.
        + dspec g_add_existing at E as [_ HS].
          destruct r1.
          * destruct HS as (_ & t' & _ & HS). rewrite HS. destruct (id =? id0)%N; [discriminate|assumption].
          * destruct HS as (HS & _). rewrite HS. assumption.
        + rewrite g_add_missing in E by assumption.
          destruct (build w id0 dflt_metric dflt_attrs [(cls, fa, f, u)]) as [[w2 r2] n2] eqn:EB.
          destruct r2 as [t|e]; inversion E; subst; [|assumption].
          apply build_ok in EB. destruct EB as (Hid & _).
          rewrite g_add_track_fresh by (rewrite Hid; assumption). cbn [snd].
          rewrite (l_find_set L) by assumption. destruct (id =? tid t)%N; [discriminate|assumption].
      - destruct (g_fetch m ids) as [ts m1] eqn:E. inversion H; subst.
        dspec g_fetch_spec at E as (_ & Hf & _).
        destruct (existsb (N.eqb id) ids) eqn:EX.
        + right; left. exists ids. split; [reflexivity|].
          apply existsb_exists in EX. destruct EX as [x [Hx Ex]]. apply N.eqb_eq in Ex. subst. assumption.
        + left. rewrite Hf, EX. assumption.
      - destruct (g_merge_owned w m dst src cls rm mh) as [[[w1 r1] m1] n1] eqn:E. inversion H; subst.
        dspec g_merge_owned_spec at E as [_ HS].
        destruct (mfind m src) as [s|] eqn:Hs.
        + destruct HS as [r2 [m2 [EM HS]]]. destruct r2 as [[]|e].
          * destruct HS as (Hr & _ & HF).
            destruct (id =? src)%N eqn:Eid.
            -- apply N.eqb_eq in Eid. subst id. destruct rm.
               ++ right; right; right. exists dst, cls, mh, s. subst r1. split; reflexivity.
               ++ left. rewrite HF, N.eqb_refl. discriminate.
            -- left. rewrite HF, Eid.
               pose proof (l_inv_del L _ src Hi) as Hi1.
               dspec g_merge_cmd_spec at EM as [_ HS2].
               rewrite (l_find_del L) in HS2 by assumption.
               destruct (dst =? src)%N; [destruct HS2 as (HS2 & _); discriminate|].
               destruct (mfind m dst); [|destruct HS2 as (HS2 & _); discriminate].
               destruct (dst =? tid s)%N; [destruct HS2 as (HS2 & _); discriminate|].
               destruct HS2 as [d' [_ (_ & HS2)]]. rewrite HS2.
               destruct (id =? dst)%N; [discriminate|].
               rewrite (l_find_del L) by assumption. rewrite Eid. assumption.
          * left. destruct HS as (_ & HS & _). rewrite HS. assumption.
        + left. destruct HS as (_ & HS & _). rewrite HS. assumption.
      - left. rewrite g_merge_external_eq in H.
        destruct (g_merge_cmd w m dst t (opt_classes cls) mh) as [[[w1 r1] m1] n1] eqn:E. inversion H; subst.
        dspec g_merge_cmd_spec at E as [_ HS].
        destruct (mfind m dst); [|destruct HS as (_ & HS & _); subst; assumption].
        destruct (dst =? tid t)%N; [destruct HS as (_ & HS & _); subst; assumption|].
        destruct HS as [d' [_ HS]]. destruct r1.
        + destruct HS as (_ & HS). rewrite HS. destruct (id =? dst)%N; [discriminate|assumption].
        + destruct HS as (HS & _). rewrite HS. assumption.
      - left. rewrite g_merge_external_noblock_eq in H. unfold future_get in H.
        destruct (g_merge_cmd w m dst t (opt_classes cls) mh) as [[[w1 r1] m1] n1] eqn:E. inversion H; subst.
        dspec g_merge_cmd_spec at E as [_ HS].
        destruct (mfind m dst); [|destruct HS as (_ & HS & _); subst; assumption].
        destruct (dst =? tid t)%N; [destruct HS as (_ & HS & _); subst; assumption|].
        destruct HS as [d' [_ HS]]. destruct r1.
        + destruct HS as (_ & HS). rewrite HS. destruct (id =? dst)%N; [discriminate|assumption].
        + destruct HS as (HS & _). rewrite HS. assumption.
      - left. inversion H; subst; assumption.
      - left. inversion H; subst; assumption.
      - right; right; left. reflexivity.
      - left. inversion H; subst; assumption.
      - left. destruct (build w id0 dflt_metric dflt_attrs []) as [[w1 r1] n1]. inversion H; subst; assumption.
    Qed.

    (* --- merging changes only the destination; the source goes only when asked and successful ------ *)

    Lemma g_merge_cmd_frame : forall w m dst src classes mh w' r m' n id,
        inv m -> g_merge_cmd w m dst src classes mh = (w', r, m', n) -> id <> dst -> mfind m' id = mfind m id.
    Proof.
      intros w m dst src classes mh w' r m' n id Hi H Hne.
      dspec g_merge_cmd_spec at H as [_ HS].
      destruct (mfind m dst); [|destruct HS as (_ & HS & _); subst; reflexivity].
      destruct (dst =? tid src)%N; [destruct HS as (_ & HS & _); subst; reflexivity|].
      destruct HS as [d' [_ HS]]. destruct r.
      - destruct HS as (_ & HS). rewrite HS. apply N.eqb_neq in Hne. rewrite Hne. reflexivity.
      - destruct HS as (HS & _). apply HS.
    Qed.

    Lemma g_merge_owned_frame : forall w m dst src_id classes rm mh w' r m' n,
        inv m -> g_merge_owned w m dst src_id classes rm mh = (w', r, m', n) ->
        (forall id, id <> dst -> id <> src_id -> mfind m' id = mfind m id) /\
        (mfind m' src_id = if rm && is_ok r then None else mfind m src_id) /\
        (is_ok r = false -> meq m m' /\ n = 0%nat) /\
        (is_ok r = true -> n = 1%nat /\ dst <> src_id /\ mfind m src_id <> None /\ mfind m dst <> None /\ mfind m' dst <> None).
    Proof.
      intros w m dst src_id classes rm mh w' r m' n Hi H.
      dspec g_merge_owned_spec at H as [_ HS].
      destruct (mfind m src_id) as [src|] eqn:Hs.
      - destruct HS as [r1 [m1 [EM HS]]].
        pose proof (l_inv_del L _ src_id Hi) as Hi1.
        destruct r1 as [[]|e].
        + destruct HS as (Hr & Hn & HF).
          assert (Hok : is_ok r = true) by (subst r; destruct rm; reflexivity).
          dspec g_merge_cmd_spec at EM as [_ HS2].
          rewrite (l_find_del L) in HS2 by assumption.
          destruct (dst =? src_id)%N eqn:Eds; [destruct HS2 as (HS2 & _); discriminate|].
          destruct (mfind m dst) as [d|] eqn:Hd; [|destruct HS2 as (HS2 & _); discriminate].
          destruct (dst =? tid src)%N; [destruct HS2 as (HS2 & _); discriminate|].
          destruct HS2 as [d' [_ (_ & HS2)]].
          split; [|split; [|split]].
          * intros id H1 H2. rewrite HF. apply N.eqb_neq in H2. rewrite H2. rewrite HS2.
            apply N.eqb_neq in H1. rewrite H1. rewrite (l_find_del L) by assumption. rewrite H2. reflexivity.
          * rewrite HF, N.eqb_refl, Hok, andb_true_r. destruct rm; reflexivity.
          * rewrite Hok. discriminate.
          * intros _. split; [assumption|]. split; [apply N.eqb_neq; assumption|]. split; [discriminate|].
            split; [discriminate|]. rewrite HF, Eds, HS2, N.eqb_refl. discriminate.
        + destruct HS as (Hr & Heq & Hn). subst r. cbn [is_ok]. rewrite andb_false_r.
          split; [intros; apply Heq|]. split; [rewrite Heq; assumption|]. split; [auto|discriminate].
      - destruct HS as (Hr & Heq & Hn & _). subst r. cbn [is_ok]. rewrite andb_false_r.
        split; [intros; apply Heq|]. split; [rewrite Heq; assumption|]. split; [auto|discriminate].
    Qed.
  End Laws.
End GenericStore.

(* ------------------------------------------------------------------------------------------------ *)
(* (4) refinement: two law-abiding instances that hold the same map answer every operation alike       *)

Section Refinement.
  Variables TA UPD OA FT MS W LQ : Type.
  Notation track := (track TA OA FT MS).
  Notation observation := (observation OA FT).
  Notation obsdb := (obsdb OA FT).
  Notation sop := (sop TA UPD OA FT MS LQ).
  Notation sres := (sres TA OA FT MS).

  Variable cb_apply : W -> UPD -> TA -> W * bool * TA.
  Variable cb_merge : W -> TA -> TA -> W * bool * TA.
  Variable cb_optimize :
    W -> MS -> N -> list N -> TA -> list observation -> nat -> bool -> W * bool * MS * TA * list observation.
  Variable cb_baked : TA -> obsdb -> bstatus.
  Variable cb_lookup : LQ -> TA -> obsdb -> list N -> bool.
  Variable dflt_metric : MS.
  Variable dflt_attrs : TA.

  Variables M1 M2 : Type.
  Variable find1 : M1 -> N -> option track.
  Variable set1 : M1 -> N -> track -> M1.
  Variable del1 : M1 -> N -> M1.
  Variable all1 : M1 -> list (N * track).
  Variable clear1 : M1 -> M1.
  Variable stats1 : M1 -> list N.
  Variable inv1 : M1 -> Prop.
  Variable find2 : M2 -> N -> option track.
  Variable set2 : M2 -> N -> track -> M2.
  Variable del2 : M2 -> N -> M2.
  Variable all2 : M2 -> list (N * track).
  Variable clear2 : M2 -> M2.
  Variable stats2 : M2 -> list N.
  Variable inv2 : M2 -> Prop.

  Hypothesis L1 : laws TA OA FT MS M1 find1 set1 del1 all1 clear1 stats1 inv1.
  Hypothesis L2 : laws TA OA FT MS M2 find2 set2 del2 all2 clear2 stats2 inv2.

  Definition R (m1 : M1) (m2 : M2) : Prop := forall id, find1 m1 id = find2 m2 id.

  Definition res_equiv (r1 r2 : sres) : Prop :=
    match r1, r2 with
    | RStatus l1, RStatus l2 => Permutation l1 l2      (* answers of the shards arrive in any order *)
    | RStats l1, RStats l2 => fold_right N.add 0%N l1 = fold_right N.add 0%N l2
    | _, _ => r1 = r2
    end.

  Notation gstep1 := (gstep TA UPD OA FT MS W LQ cb_apply cb_merge cb_optimize cb_baked cb_lookup
                            dflt_metric dflt_attrs M1 find1 set1 del1 all1 clear1 stats1).
  Notation gstep2 := (gstep TA UPD OA FT MS W LQ cb_apply cb_merge cb_optimize cb_baked cb_lookup
                            dflt_metric dflt_attrs M2 find2 set2 del2 all2 clear2 stats2).
  Notation grun1 := (grun TA UPD OA FT MS W LQ cb_apply cb_merge cb_optimize cb_baked cb_lookup
                          dflt_metric dflt_attrs M1 find1 set1 del1 all1 clear1 stats1).
  Notation grun2 := (grun TA UPD OA FT MS W LQ cb_apply cb_merge cb_optimize cb_baked cb_lookup
                          dflt_metric dflt_attrs M2 find2 set2 del2 all2 clear2 stats2).

  Lemma R_set : forall m1 m2 id t, inv1 m1 -> inv2 m2 -> R m1 m2 -> R (set1 m1 id t) (set2 m2 id t).
  Proof.
    intros m1 m2 id t H1 H2 HR id'. rewrite (l_find_set _ _ _ _ _ _ _ _ _ _ _ _ L1) by assumption.
    rewrite (l_find_set _ _ _ _ _ _ _ _ _ _ _ _ L2) by assumption. rewrite HR. reflexivity.
  Qed.

  Lemma R_del : forall m1 m2 id, inv1 m1 -> inv2 m2 -> R m1 m2 -> R (del1 m1 id) (del2 m2 id).
  Proof.
    intros m1 m2 id H1 H2 HR id'. rewrite (l_find_del _ _ _ _ _ _ _ _ _ _ _ _ L1) by assumption.
    rewrite (l_find_del _ _ _ _ _ _ _ _ _ _ _ _ L2) by assumption. rewrite HR. reflexivity.
  Qed.

  Lemma R_all : forall m1 m2, inv1 m1 -> inv2 m2 -> R m1 m2 -> Permutation (all1 m1) (all2 m2).
  Proof.
    intros m1 m2 H1 H2 HR. apply NoDup_Permutation.
    - apply NoDup_pairs_of_keys. apply (l_all_nodup _ _ _ _ _ _ _ _ _ _ _ _ L1). assumption.
    - apply NoDup_pairs_of_keys. apply (l_all_nodup _ _ _ _ _ _ _ _ _ _ _ _ L2). assumption.
    - intros [id t]. rewrite (l_all_in _ _ _ _ _ _ _ _ _ _ _ _ L1) by assumption.
      rewrite (l_all_in _ _ _ _ _ _ _ _ _ _ _ _ L2) by assumption. rewrite HR. reflexivity.
  Qed.

  Lemma R_add_track : forall m1 m2 t, inv1 m1 -> inv2 m2 -> R m1 m2 ->
      fst (g_add_track TA OA FT MS M1 find1 set1 m1 t) = fst (g_add_track TA OA FT MS M2 find2 set2 m2 t) /\
      R (snd (g_add_track TA OA FT MS M1 find1 set1 m1 t)) (snd (g_add_track TA OA FT MS M2 find2 set2 m2 t)).
  Proof.
    intros m1 m2 t H1 H2 HR. unfold g_add_track. rewrite (HR (tid t)).
    destruct (find2 m2 (tid t)); cbn [fst snd]; split; auto. apply R_set; assumption.
  Qed.

  Lemma R_fetch : forall ids m1 m2 ts1 m1' ts2 m2', inv1 m1 -> inv2 m2 -> R m1 m2 ->
      g_fetch TA OA FT MS M1 find1 del1 m1 ids = (ts1, m1') ->
      g_fetch TA OA FT MS M2 find2 del2 m2 ids = (ts2, m2') ->
      ts1 = ts2 /\ R m1' m2'.
  Proof.
    induction ids as [|id r IH]; intros m1 m2 ts1 m1' ts2 m2' H1 H2 HR E1 E2; cbn [g_fetch] in E1, E2.
    - inversion E1; inversion E2; subst. auto.
    - rewrite (HR id) in E1. destruct (find2 m2 id) as [t|].
      + destruct (g_fetch TA OA FT MS M1 find1 del1 (del1 m1 id) r) as [a1 b1] eqn:F1.
        destruct (g_fetch TA OA FT MS M2 find2 del2 (del2 m2 id) r) as [a2 b2] eqn:F2.
        inversion E1; inversion E2; subst.
        destruct (IH _ _ _ _ _ _ (l_inv_del _ _ _ _ _ _ _ _ _ _ _ _ L1 _ id H1)
                     (l_inv_del _ _ _ _ _ _ _ _ _ _ _ _ L2 _ id H2) (R_del _ _ id H1 H2 HR) F1 F2) as [A B].
        subst. auto.
      + eapply IH; eassumption.
  Qed.

  Lemma R_merge_cmd : forall w m1 m2 dst src cl mh w1 r1 m1' n1 w2 r2 m2' n2,
      inv1 m1 -> inv2 m2 -> R m1 m2 ->
      g_merge_cmd TA OA FT MS W cb_merge cb_optimize M1 find1 set1 w m1 dst src cl mh = (w1, r1, m1', n1) ->
      g_merge_cmd TA OA FT MS W cb_merge cb_optimize M2 find2 set2 w m2 dst src cl mh = (w2, r2, m2', n2) ->
      w1 = w2 /\ r1 = r2 /\ n1 = n2 /\ R m1' m2'.
  Proof.
    intros w m1 m2 dst src cl mh w1 r1 m1' n1 w2 r2 m2' n2 H1 H2 HR E1 E2.
    unfold g_merge_cmd in E1, E2. rewrite (HR dst) in E1.
    destruct (find2 m2 dst) as [d|].
    - destruct (dst =? tid src)%N.
      + inversion E1; inversion E2; subst. auto.
      + destruct (merge cb_merge cb_optimize w d src _ mh) as [[[a b] c] e].
        inversion E1; inversion E2; subst. repeat split; auto. apply R_set; assumption.
    - inversion E1; inversion E2; subst. auto.
  Qed.

  Lemma R_add : forall w m1 m2 id cls fa f u w1 r1 m1' n1 w2 r2 m2' n2,
      inv1 m1 -> inv2 m2 -> R m1 m2 ->
      g_add TA UPD OA FT MS W cb_apply cb_optimize dflt_metric dflt_attrs M1 find1 set1 w m1 id cls fa f u = (w1, r1, m1', n1) ->
      g_add TA UPD OA FT MS W cb_apply cb_optimize dflt_metric dflt_attrs M2 find2 set2 w m2 id cls fa f u = (w2, r2, m2', n2) ->
      w1 = w2 /\ r1 = r2 /\ n1 = n2 /\ R m1' m2'.
  Proof.
    intros w m1 m2 id cls fa f u w1 r1 m1' n1 w2 r2 m2' n2 H1 H2 HR E1 E2.
    unfold g_add in E1, E2. rewrite (HR id) in E1.
    destruct (find2 m2 id) as [t|].
    - destruct (add_observation cb_apply cb_optimize w t cls fa f u) as [[[a b] c] e].
      inversion E1; inversion E2; subst. repeat split; auto. apply R_set; assumption.
    - destruct (build cb_apply cb_optimize w id dflt_metric dflt_attrs [(cls, fa, f, u)]) as [[a b] c].
      destruct b; inversion E1; inversion E2; subst; repeat split; auto. apply R_set; assumption.
  Qed.

  Lemma R_merge_owned : forall w m1 m2 dst src cls rm mh w1 r1 m1' n1 w2 r2 m2' n2,
      inv1 m1 -> inv2 m2 -> R m1 m2 ->
      g_merge_owned TA OA FT MS W cb_merge cb_optimize M1 find1 set1 del1 w m1 dst src cls rm mh = (w1, r1, m1', n1) ->
      g_merge_owned TA OA FT MS W cb_merge cb_optimize M2 find2 set2 del2 w m2 dst src cls rm mh = (w2, r2, m2', n2) ->
      w1 = w2 /\ r1 = r2 /\ n1 = n2 /\ R m1' m2'.
  Proof.
    intros w m1 m2 dst src cls rm mh w1 r1 m1' n1 w2 r2 m2' n2 H1 H2 HR E1 E2.
    unfold g_merge_owned in E1, E2. cbn [g_fetch] in E1, E2. rewrite (HR src) in E1.
    destruct (find2 m2 src) as [s|].
    - unfold g_merge_external, g_merge_external_noblock, future_get in E1, E2.
      destruct (g_merge_cmd TA OA FT MS W cb_merge cb_optimize M1 find1 set1 w (del1 m1 src) dst s
                            match cls with Some c => c | None => [] end mh) as [[[a1 b1] c1] d1] eqn:F1.
      destruct (g_merge_cmd TA OA FT MS W cb_merge cb_optimize M2 find2 set2 w (del2 m2 src) dst s
                            match cls with Some c => c | None => [] end mh) as [[[a2 b2] c2] d2] eqn:F2.
      pose proof (l_inv_del _ _ _ _ _ _ _ _ _ _ _ _ L1 _ src H1) as I1.
      pose proof (l_inv_del _ _ _ _ _ _ _ _ _ _ _ _ L2 _ src H2) as I2.
      destruct (R_merge_cmd _ _ _ _ _ _ _ _ _ _ _ _ _ _ _ I1 I2 (R_del _ _ src H1 H2 HR) F1 F2) as (A & B & C & D).
      subst a2 b2 d2.
      assert (J1 : inv1 c1).
      { pose proof F1 as X. eapply g_merge_cmd_spec in X; [|exact L1|exact I1]. tauto. }
      assert (J2 : inv2 c2).
      { pose proof F2 as X. eapply g_merge_cmd_spec in X; [|exact L2|exact I2]. tauto. }
      destruct (R_add_track c1 c2 s J1 J2 D) as [_ RA].
      destruct b1 as [[]|e].
      + destruct rm; cbn [negb] in E1, E2; inversion E1; inversion E2; subst; repeat split; auto.
      + inversion E1; inversion E2; subst; repeat split; auto.
    - inversion E1; inversion E2; subst. auto.
  Qed.

  Theorem gstep_refines : forall w m1 m2 o w1 r1 m1' n1 w2 r2 m2' n2,
      inv1 m1 -> inv2 m2 -> R m1 m2 ->
      gstep1 w m1 o = (w1, r1, m1', n1) -> gstep2 w m2 o = (w2, r2, m2', n2) ->
      w1 = w2 /\ res_equiv r1 r2 /\ n1 = n2 /\ R m1' m2' /\ inv1 m1' /\ inv2 m2'.
  Proof.
    intros w m1 m2 o w1 r1 m1' n1 w2 r2 m2' n2 H1 H2 HR E1 E2.
    assert (J1 : inv1 m1') by (eapply gstep_inv; [exact L1|exact H1|exact E1]).
    assert (J2 : inv2 m2') by (eapply gstep_inv; [exact L2|exact H2|exact E2]).
    cut (w1 = w2 /\ res_equiv r1 r2 /\ n1 = n2 /\ R m1' m2'); [tauto|].
    destruct o; cbn [gstep] in E1, E2.
    - destruct (R_add_track m1 m2 t H1 H2 HR) as [A B].
      destruct (g_add_track TA OA FT MS M1 find1 set1 m1 t) as [a1 b1].
      destruct (g_add_track TA OA FT MS M2 find2 set2 m2 t) as [a2 b2].
      cbn [fst snd] in A, B. inversion E1; inversion E2; subst. cbn [res_equiv]. auto.
    - destruct (g_add TA UPD OA FT MS W cb_apply cb_optimize dflt_metric dflt_attrs M1 find1 set1 w m1 id cls fa f u)
        as [[[a1 b1] c1] d1] eqn:F1.
      destruct (g_add TA UPD OA FT MS W cb_apply cb_optimize dflt_metric dflt_attrs M2 find2 set2 w m2 id cls fa f u)
        as [[[a2 b2] c2] d2] eqn:F2.
      destruct (R_add _ _ _ _ _ _ _ _ _ _ _ _ _ _ _ _ H1 H2 HR F1 F2) as (A & B & C & D).
      inversion E1; inversion E2; subst. cbn [res_equiv]. auto.
    - destruct (g_fetch TA OA FT MS M1 find1 del1 m1 ids) as [a1 b1] eqn:F1.
      destruct (g_fetch TA OA FT MS M2 find2 del2 m2 ids) as [a2 b2] eqn:F2.
      destruct (R_fetch _ _ _ _ _ _ _ H1 H2 HR F1 F2) as (A & B).
      inversion E1; inversion E2; subst. cbn [res_equiv]. auto.
    - destruct (g_merge_owned TA OA FT MS W cb_merge cb_optimize M1 find1 set1 del1 w m1 dst src cls rm mh)
        as [[[a1 b1] c1] d1] eqn:F1.
      destruct (g_merge_owned TA OA FT MS W cb_merge cb_optimize M2 find2 set2 del2 w m2 dst src cls rm mh)
        as [[[a2 b2] c2] d2] eqn:F2.
      destruct (R_merge_owned _ _ _ _ _ _ _ _ _ _ _ _ _ _ _ _ H1 H2 HR F1 F2) as (A & B & C & D).
      inversion E1; inversion E2; subst. cbn [res_equiv]. auto.
    - unfold g_merge_external, g_merge_external_noblock, future_get in E1, E2.
      destruct (g_merge_cmd TA OA FT MS W cb_merge cb_optimize M1 find1 set1 w m1 dst t
                            match cls with Some c => c | None => [] end mh) as [[[a1 b1] c1] d1] eqn:F1.
      destruct (g_merge_cmd TA OA FT MS W cb_merge cb_optimize M2 find2 set2 w m2 dst t
                            match cls with Some c => c | None => [] end mh) as [[[a2 b2] c2] d2] eqn:F2.
      destruct (R_merge_cmd _ _ _ _ _ _ _ _ _ _ _ _ _ _ _ H1 H2 HR F1 F2) as (A & B & C & D).
      inversion E1; inversion E2; subst. cbn [res_equiv]. auto.
    - unfold g_merge_external_noblock, future_get in E1, E2.
      destruct (g_merge_cmd TA OA FT MS W cb_merge cb_optimize M1 find1 set1 w m1 dst t
                            match cls with Some c => c | None => [] end mh) as [[[a1 b1] c1] d1] eqn:F1.
      destruct (g_merge_cmd TA OA FT MS W cb_merge cb_optimize M2 find2 set2 w m2 dst t
                            match cls with Some c => c | None => [] end mh) as [[[a2 b2] c2] d2] eqn:F2.
      destruct (R_merge_cmd _ _ _ _ _ _ _ _ _ _ _ _ _ _ _ H1 H2 HR F1 F2) as (A & B & C & D).
      inversion E1; inversion E2; subst. cbn [res_equiv]. auto.
    - inversion E1; inversion E2; subst. cbn [res_equiv]. repeat split; auto.
      unfold g_lookup. apply Permutation_map. apply Permutation_filter_compat. apply R_all; assumption.
    - inversion E1; inversion E2; subst. cbn [res_equiv]. repeat split; auto.
      unfold g_find_usable. apply Permutation_flat_map. apply R_all; assumption.
    - inversion E1; inversion E2; subst. cbn [res_equiv]. repeat split; auto.
      intros id. rewrite (l_find_clear _ _ _ _ _ _ _ _ _ _ _ _ L1) by assumption.
      rewrite (l_find_clear _ _ _ _ _ _ _ _ _ _ _ _ L2) by assumption. reflexivity.
    - inversion E1; inversion E2; subst. cbn [res_equiv]. repeat split; auto.
      rewrite (l_stats _ _ _ _ _ _ _ _ _ _ _ _ L1) by assumption.
      rewrite (l_stats _ _ _ _ _ _ _ _ _ _ _ _ L2) by assumption.
      f_equal. apply Permutation_length. apply R_all; assumption.
    - destruct (build cb_apply cb_optimize w id dflt_metric dflt_attrs []) as [[a b] c].
      inversion E1; inversion E2; subst. cbn [res_equiv]. auto.
  Qed.

  (* every operation sequence *)
  Theorem grun_refines : forall ops w m1 m2 w1 out1 m1' w2 out2 m2',
      inv1 m1 -> inv2 m2 -> R m1 m2 ->
      grun1 w m1 ops = (w1, out1, m1') -> grun2 w m2 ops = (w2, out2, m2') ->
      w1 = w2 /\ Forall2 (fun a b => res_equiv (fst a) (fst b) /\ snd a = snd b) out1 out2 /\
      R m1' m2' /\ inv1 m1' /\ inv2 m2'.
  Proof.
    induction ops as [|o r IH]; intros w m1 m2 w1 out1 m1' w2 out2 m2' H1 H2 HR E1 E2; cbn [grun] in E1, E2.
    - inversion E1; inversion E2; subst. repeat split; auto.
    - destruct (gstep1 w m1 o) as [[[a1 b1] c1] d1] eqn:S1.
      destruct (gstep2 w m2 o) as [[[a2 b2] c2] d2] eqn:S2.
      destruct (gstep_refines _ _ _ _ _ _ _ _ _ _ _ _ H1 H2 HR S1 S2) as (A & B & C & D & I1 & I2). subst a2 d2.
      destruct (grun1 a1 c1 r) as [[x1 y1] z1] eqn:G1.
      destruct (grun2 a1 c2 r) as [[x2 y2] z2] eqn:G2.
      inversion E1; inversion E2; subst.
      destruct (IH _ _ _ _ _ _ _ _ _ I1 I2 D G1 G2) as (A' & B' & C' & D' & E').
      repeat split; auto.
  Qed.
End Refinement.

(* ------------------------------------------------------------------------------------------------ *)
(* (5) instances: the sharded store (invariant wf, n shards) and the association-list specification    *)

Section Instances.
  Variables TA UPD OA FT MS W LQ : Type.
  Notation track := (track TA OA FT MS).
  Notation observation := (observation OA FT).
  Notation obsdb := (obsdb OA FT).
  Notation sharded := (sharded TA OA FT MS).
  Notation fmap := (fmap TA OA FT MS).
  Notation find := (find TA OA FT MS).
  Notation sset := (sset TA OA FT MS).
  Notation sdel := (sdel TA OA FT MS).
  Notation sall := (sall TA OA FT MS).
  Notation sclear := (sclear TA OA FT MS).
  Notation sstats := (sstats TA OA FT MS).
  Notation get_shard := (get_shard TA OA FT MS).
  Notation empty_store := (empty_store TA OA FT MS).
  Notation abs := (abs TA OA FT MS).
  Notation wf := (wf TA OA FT MS).

  (* wf with the number of shards pinned: the shard count never changes *)
  Definition wfn (n : nat) (st : sharded) : Prop := wf st /\ length st = n.

  Lemma sharded_laws : forall n, laws TA OA FT MS sharded find sset sdel sall sclear sstats (wfn n).
  Proof.
    intros n. constructor.
    - intros m id t id' [Hw _]. apply find_sset. apply Hw.
    - intros m id t [Hw Hl] Ht. split; [apply wf_sset; assumption|].
      unfold Store.sset. rewrite set_nth_length. assumption.
    - intros m id id' [Hw _]. apply find_sdel. apply Hw.
    - intros m id [Hw Hl]. split; [apply wf_sdel; assumption|].
      unfold Store.sdel. rewrite set_nth_length. assumption.
    - intros m id _. apply find_sclear.
    - intros m [Hw Hl]. split; [apply wf_sclear; assumption|].
      unfold Store.sclear. rewrite map_length. assumption.
    - intros m id t [Hw _]. apply sall_In. assumption.
    - intros m [Hw _]. apply sall_nodup. assumption.
    - intros m id t [Hw _]. apply find_tid. assumption.
    - intros m _. apply sstats_sum.
  Qed.

  Definition minv (m : fmap) : Prop := NoDup (akeys m) /\ forall id t, In (id, t) m -> tid t = id.

  Lemma fmap_laws :
    laws TA OA FT MS fmap (fun m id => alookup id m) (fun m id t => aset id t m) (fun m id => aremove id m)
         (fun m => m) (fun _ => []) (fun m => [N.of_nat (length m)]) minv.
  Proof.
    constructor.
    - intros m id t id' _. apply alookup_aset.
    - intros m id t [Hd Ht] E. split; [apply NoDup_akeys_aset; assumption|].
      intros id0 t0 [Hin|Hin]; [inversion Hin; subst; reflexivity|].
      apply aremove_In in Hin. apply (Ht _ _ (proj2 Hin)).
    - intros m id id' _. apply alookup_aremove.
    - intros m id [Hd Ht]. split; [apply NoDup_akeys_aremove; assumption|].
      intros id0 t0 Hin. apply aremove_In in Hin. apply (Ht _ _ (proj2 Hin)).
    - intros; reflexivity.
    - intros m _. split; [constructor|intros id t []].
    - intros m id t [Hd _]. split; [apply In_alookup_nodup; assumption|apply alookup_In].
    - intros m [Hd _]. assumption.
    - intros m id t [_ Ht] H. apply Ht. apply alookup_In. assumption.
    - intros m _. cbn [fold_right]. lia.
  Qed.

  (* abs st (the union of the shards) is the map the sharded store stands for *)
  Lemma abs_minv : forall st, wf st -> minv (abs st).
  Proof.
    intros st Hw. split; [apply sall_nodup; assumption|].
    intros id t Hin. apply sall_In in Hin; [|assumption]. eapply find_tid; eassumption.
  Qed.

  Lemma abs_find : forall st id, wf st -> find st id = alookup id (abs st).
  Proof.
    intros st id Hw. destruct (find st id) as [t|] eqn:E.
    - symmetry. apply In_alookup_nodup; [apply sall_nodup; assumption|]. apply sall_In; assumption.
    - destruct (alookup id (abs st)) as [t|] eqn:E2; [|reflexivity].
      apply alookup_In in E2. apply sall_In in E2; [|assumption]. congruence.
  Qed.

  Lemma wfn_empty : forall n, (0 < n)%nat -> wfn n (empty_store n).
  Proof. intros n H. split; [apply wf_empty; assumption|]. unfold Store.empty_store. apply repeat_length. Qed.
End Instances.

(* ------------------------------------------------------------------------------------------------ *)
(* (6) the statements of C09 / C11 (store part) about the model of the code, [sstep] / [srun]          *)

Section Statements.
  Variables TA UPD OA FT MS W LQ : Type.
  Notation track := (track TA OA FT MS).
  Notation observation := (observation OA FT).
  Notation obsdb := (obsdb OA FT).
  Notation sharded := (sharded TA OA FT MS).
  Notation sop := (sop TA UPD OA FT MS LQ).
  Notation sres := (sres TA OA FT MS).

  Variable cb_apply : W -> UPD -> TA -> W * bool * TA.
  Variable cb_merge : W -> TA -> TA -> W * bool * TA.
  Variable cb_optimize :
    W -> MS -> N -> list N -> TA -> list observation -> nat -> bool -> W * bool * MS * TA * list observation.
  Variable cb_baked : TA -> obsdb -> bstatus.
  Variable cb_lookup : LQ -> TA -> obsdb -> list N -> bool.
  Variable dflt_metric : MS.
  Variable dflt_attrs : TA.

  Notation find := (find TA OA FT MS).
  Notation get_shard := (get_shard TA OA FT MS).
  Notation empty_store := (empty_store TA OA FT MS).
  Notation abs := (abs TA OA FT MS).
  Notation wfn := (wfn TA OA FT MS).
  Notation baked := (baked TA OA FT MS cb_baked).
  Notation sstep := (sstep TA UPD OA FT MS W LQ cb_apply cb_merge cb_optimize cb_baked cb_lookup dflt_metric dflt_attrs).
  Notation srun := (srun TA UPD OA FT MS W LQ cb_apply cb_merge cb_optimize cb_baked cb_lookup dflt_metric dflt_attrs).
  Notation mstep := (mstep TA UPD OA FT MS W LQ cb_apply cb_merge cb_optimize cb_baked cb_lookup dflt_metric dflt_attrs).
  Notation mrun := (mrun TA UPD OA FT MS W LQ cb_apply cb_merge cb_optimize cb_baked cb_lookup dflt_metric dflt_attrs).
  Notation merge := (merge cb_merge cb_optimize).
  Notation add_observation := (add_observation cb_apply cb_optimize).
  Notation build := (build cb_apply cb_optimize).
  Notation res_equiv := (res_equiv TA OA FT MS).
  Notation SL := (sharded_laws TA OA FT MS).
  Notation ML := (fmap_laws TA OA FT MS).

  Lemma sstep_wfn : forall n w st o w' r st' k, wfn n st -> sstep w st o = (w', r, st', k) -> wfn n st'.
  Proof. intros n w st o w' r st' k Hw H. eapply gstep_inv; [exact (SL n)|exact Hw|exact H]. Qed.

  Lemma srun_wfn : forall n ops w st w' out st', wfn n st -> srun w st ops = (w', out, st') -> wfn n st'.
  Proof. intros n ops w st w' out st' Hw H. eapply grun_inv; [exact (SL n)|exact Hw|exact H]. Qed.

  (* C09: the sharded store refines the finite map, for every operation sequence and every shard count *)
  Lemma store_refines_map_lemma : forall ops n w st w1 out1 st' w2 out2 m',
      wfn n st -> srun w st ops = (w1, out1, st') -> mrun w (abs st) ops = (w2, out2, m') ->
      w1 = w2 /\
      Forall2 (fun a b => res_equiv (fst a) (fst b) /\ snd a = snd b) out1 out2 /\
      (forall id, find st' id = alookup id m') /\ wfn n st'.
  Proof.
    intros ops n w st w1 out1 st' w2 out2 m' Hw E1 E2.
    assert (HR : forall id, find st id = alookup id (abs st)) by (intros; apply abs_find; apply Hw).
    destruct (grun_refines _ _ _ _ _ _ _ _ _ _ _ _ _ _ _ _ _ _ _ _ _ _ _ _ _ _ _ _ _ _ (SL n) ML
                            ops w st (abs st) w1 out1 st' w2 out2 m' Hw (abs_minv _ _ _ _ _ (proj1 Hw)) HR E1 E2)
      as (A & B & C & D & _).
    auto.
  Qed.

  Lemma store_refines_map_from_empty_lemma : forall ops n w w1 out1 st' w2 out2 m',
      (0 < n)%nat -> srun w (empty_store n) ops = (w1, out1, st') -> mrun w [] ops = (w2, out2, m') ->
      w1 = w2 /\
      Forall2 (fun a b => res_equiv (fst a) (fst b) /\ snd a = snd b) out1 out2 /\
      (forall id, find st' id = alookup id m') /\ wfn n st'.
  Proof.
    intros ops n w w1 out1 st' w2 out2 m' Hn E1 E2.
    assert (HR : forall id, find (empty_store n) id = alookup id (@nil (N * track))) by (intros; apply find_empty).
    assert (HM : minv TA OA FT MS []) by (split; [constructor|intros id t []]).
    destruct (grun_refines _ _ _ _ _ _ _ _ _ _ _ _ _ _ _ _ _ _ _ _ _ _ _ _ _ _ _ _ _ _ (SL n) ML
                            ops w (empty_store n) [] w1 out1 st' w2 out2 m' (wfn_empty _ _ _ _ n Hn) HM HR E1 E2)
      as (A & B & C & D & _).
    auto.
  Qed.

  (* C09: shard placement, in every state reachable from the empty store with n >= 1 shards *)
  Lemma shard_placement_lemma : forall ops n w w' out st',
      (0 < n)%nat -> srun w (empty_store n) ops = (w', out, st') ->
      length st' = n /\
      (forall k id t, In (id, t) (get_shard st' k) ->
                      k = N.to_nat (id mod N.of_nat n) /\ tid t = id /\ find st' id = Some t) /\
      (forall k, NoDup (akeys (get_shard st' k))).
  Proof.
    intros ops n w w' out st' Hn H.
    destruct (srun_wfn n ops w _ _ _ _ (wfn_empty _ _ _ _ n Hn) H) as [Hw Hl].
    split; [assumption|]. split.
    - intros k id t Hin. rewrite <- Hl. apply find_shard_placement; assumption.
    - apply Hw.
  Qed.

  Lemma add_track_dup_rejected_lemma : forall n w st t t0,
      wfn n st -> find st (tid t) = Some t0 ->
      sstep w st (AddTrack t) = (w, RId (Err (EDuplicate (tid t))), st, 0%nat).
  Proof.
    intros n w st t t0 Hw Hf. unfold Store.sstep. cbn [gstep].
    rewrite (g_add_track_dup _ _ _ _ _ _ _ _ _ _ Hf). reflexivity.
  Qed.

  Lemma add_track_found_lemma : forall n w st t,
      wfn n st -> find st (tid t) = None ->
      exists st', sstep w st (AddTrack t) = (w, RId (Ok (tid t)), st', 0%nat) /\
                  (forall id, find st' id = if (id =? tid t)%N then Some t else find st id) /\
                  In (tid t, t) (get_shard st' (N.to_nat (tid t mod N.of_nat n))).
  Proof.
    intros n w st t Hw Hf. exists (sset TA OA FT MS st (tid t) t). unfold Store.sstep. cbn [gstep].
    rewrite (g_add_track_fresh _ _ _ _ _ _ _ _ _ Hf). split; [reflexivity|]. split.
    - intros id. apply find_sset. apply Hw.
    - assert (Hw' : wfn n (sset TA OA FT MS st (tid t) t)) by (apply (l_inv_set _ _ _ _ _ _ _ _ _ _ _ _ (SL n)); auto).
      assert (Hf' : find (sset TA OA FT MS st (tid t) t) (tid t) = Some t)
        by (rewrite find_sset by apply Hw; rewrite N.eqb_refl; reflexivity).
      unfold Store.find in Hf'. apply alookup_In in Hf'. unfold Store.shard_ix, nshards in Hf'.
      rewrite (proj2 Hw') in Hf'. exact Hf'.
  Qed.

  Lemma presence_lemma : forall n w st o w' r st' k id,
      wfn n st -> sstep w st o = (w', r, st', k) -> find st id <> None ->
      find st' id <> None \/
      (exists ids, o = Fetch ids /\ In id ids) \/
      o = Clear \/
      (exists dst cls mh src, o = MergeOwned dst id cls true mh /\ r = ROwned (Ok (Some src))).
  Proof. intros n w st o w' r st' k id Hw H Hp. eapply gstep_presence; [exact (SL n)|exact Hw|exact H|exact Hp]. Qed.

  Lemma fetch_exact_lemma : forall n w st ids w' r st' k,
      wfn n st -> sstep w st (Fetch ids) = (w', r, st', k) ->
      exists ts, r = RTracks ts /\ w' = w /\ k = 0%nat /\
                 (forall t, In t ts <-> exists id, In id ids /\ find st id = Some t) /\
                 NoDup (map tid ts) /\
                 (forall id, find st' id = if existsb (N.eqb id) ids then None else find st id).
  Proof.
    intros n w st ids w' r st' k Hw H. unfold Store.sstep in H. cbn [gstep] in H.
    destruct (g_fetch TA OA FT MS _ find (sdel TA OA FT MS) st ids) as [ts m1] eqn:E. inversion H; subst.
    exists ts. eapply g_fetch_spec in E; [|exact (SL n)|exact Hw]. destruct E as (_ & A & B & C).
    repeat split; auto; apply B.
  Qed.

  Lemma lookup_exact_lemma : forall n w st q w' r st' k,
      wfn n st -> sstep w st (Lookup q) = (w', r, st', k) ->
      exists l, r = RStatus l /\ st' = st /\ w' = w /\ k = 0%nat /\
                (forall id s, In (id, s) l <->
                              exists t, find st id = Some t /\ track_lookup cb_lookup q t = true /\ s = baked t) /\
                NoDup (map fst l).
  Proof.
    intros n w st q w' r st' k Hw H. unfold Store.sstep in H. cbn [gstep] in H. inversion H; subst.
    eexists. split; [reflexivity|]. repeat split; try reflexivity;
      apply (g_lookup_spec _ _ _ _ _ cb_baked cb_lookup _ _ _ _ _ _ _ _ (SL n) st' q Hw).
  Qed.

  Lemma find_usable_exact_lemma : forall n w st w' r st' k,
      wfn n st -> sstep w st FindUsable = (w', r, st', k) ->
      exists l, r = RStatus l /\ st' = st /\ w' = w /\ k = 0%nat /\
                (forall id s, In (id, s) l <-> exists t, find st id = Some t /\ s = baked t /\ s <> BPending) /\
                NoDup (map fst l).
  Proof.
    intros n w st w' r st' k Hw H. unfold Store.sstep in H. cbn [gstep] in H. inversion H; subst.
    eexists. split; [reflexivity|]. repeat split; try reflexivity;
      apply (g_find_usable_spec _ _ _ _ cb_baked _ _ _ _ _ _ _ _ (SL n) st' Hw).
  Qed.

  Lemma stats_sum_lemma : forall n w st w' r st' k,
      wfn n st -> sstep w st Stats = (w', r, st', k) ->
      exists l, r = RStats l /\ st' = st /\ length l = n /\
                fold_right N.add 0%N l = N.of_nat (length (abs st)) /\
                (forall id, In id (akeys (abs st)) <-> find st id <> None) /\ NoDup (akeys (abs st)).
  Proof.
    intros n w st w' r st' k Hw H. unfold Store.sstep in H. cbn [gstep] in H. inversion H; subst.
    eexists. split; [reflexivity|]. split; [reflexivity|].
    split; [unfold Store.sstats; rewrite map_length; apply Hw|].
    split; [apply sstats_sum|]. split; [|apply sall_nodup; apply Hw].
    intros id. unfold akeys. rewrite in_map_iff. split.
    - intros [[i t] [E Hin]]. cbn [fst] in E. subst i. apply sall_In in Hin; [|apply Hw]. congruence.
    - intros Hne. destruct (find st' id) as [t|] eqn:E; [|congruence].
      exists (id, t). split; [reflexivity|]. apply sall_In; [apply Hw|assumption].
  Qed.

  Lemma add_creates_like_builder_lemma : forall n w st id cls fa f u,
      wfn n st -> find st id = None ->
      sstep w st (Add id cls fa f u) =
      let '(w1, r, k) := build w id dflt_metric dflt_attrs [(cls, fa, f, u)] in
      match r with
      | Ok t => let '(_, _, st1, _) := sstep w1 st (AddTrack t) in (w1, RUnit (Ok tt), st1, k)
      | Err e => (w1, RUnit (Err e), st, k)
      end.
  Proof.
    intros n w st id cls fa f u Hw Hf. unfold Store.sstep. cbn [gstep].
    rewrite g_add_missing by exact Hf.
    destruct (build w id dflt_metric dflt_attrs [(cls, fa, f, u)]) as [[w1 r] k].
    destruct r as [t|e]; [|reflexivity].
    destruct (g_add_track TA OA FT MS _ find (sset TA OA FT MS) st t) as [a b]. reflexivity.
  Qed.

  (* the result of merge_external[_noblock + get] IS the outcome of the worker's merge: every failure is an Err *)
  Lemma merge_external_spec_lemma : forall n w st dst src cls mh (noblock : bool) w' r st' k,
      wfn n st ->
      sstep w st (if noblock then MergeExtNoblock dst src cls mh else MergeExt dst src cls mh : sop) = (w', r, st', k) ->
      exists ru, r = RUnit ru /\
      match find st dst with
      | None => ru = Err (ENotFound dst) /\ st' = st /\ k = 0%nat /\ w' = w
      | Some d =>
          if (dst =? tid src)%N then ru = Err (ESameTrack dst) /\ st' = st /\ k = 0%nat /\ w' = w
          else exists d', merge w d src (eff_classes TA OA FT MS src (opt_classes cls)) mh = (w', ru, d', k) /\
                          match ru with
                          | Err _ => (forall id, find st' id = find st id) /\ k = 0%nat
                          | Ok _ => k = 1%nat /\
                                    forall id, find st' id = if (id =? dst)%N then Some d' else find st id
                          end
      end.
  Proof.
    intros n w st dst src cls mh noblock w' r st' k Hw H. unfold Store.sstep in H.
    assert (X : exists ru, r = RUnit ru /\
                g_merge_cmd TA OA FT MS W cb_merge cb_optimize _ find (sset TA OA FT MS) w st dst src (opt_classes cls) mh
                = (w', ru, st', k)).
    { destruct noblock; cbn [gstep] in H.
      - rewrite g_merge_external_noblock_eq in H. unfold future_get in H.
        destruct (g_merge_cmd _ _ _ _ _ _ _ _ _ _ _ _ _ _ _ _) as [[[a b] c] d]. inversion H; subst. eauto.
      - rewrite g_merge_external_eq in H.
        destruct (g_merge_cmd _ _ _ _ _ _ _ _ _ _ _ _ _ _ _ _) as [[[a b] c] d]. inversion H; subst. eauto. }
    destruct X as [ru [Hr E]]. exists ru. split; [assumption|].
    eapply g_merge_cmd_spec in E; [|exact (SL n)|exact Hw]. destruct E as [_ E]. exact E.
  Qed.

  Lemma merge_owned_spec_lemma : forall n w st dst src_id cls rm mh w' r st' k,
      wfn n st -> sstep w st (MergeOwned dst src_id cls rm mh) = (w', r, st', k) ->
      exists ro, r = ROwned ro /\
      (forall id, id <> dst -> id <> src_id -> find st' id = find st id) /\
      (find st' src_id = if rm && is_ok ro then None else find st src_id) /\
      (is_ok ro = false -> (forall id, find st' id = find st id) /\ k = 0%nat) /\
      (is_ok ro = true -> k = 1%nat /\ dst <> src_id /\ find st src_id <> None /\ find st dst <> None /\
                          find st' dst <> None) /\
      (find st src_id = None -> ro = Err (ENotFound src_id)) /\
      (find st src_id <> None -> (find st dst = None \/ dst = src_id) -> ro = Err (ENotFound dst)).
  Proof.
    intros n w st dst src_id cls rm mh w' r st' k Hw H. unfold Store.sstep in H. cbn [gstep] in H.
    destruct (g_merge_owned _ _ _ _ _ _ _ _ _ _ _ _ _ _ _ _ _ _) as [[[a b] c] d] eqn:E. inversion H; subst.
    exists b. split; [reflexivity|].
    pose proof E as F. eapply g_merge_owned_frame in F; [|exact (SL n)|exact Hw].
    destruct F as (F1 & F2 & F3 & F4).
    split; [exact F1|]. split; [exact F2|]. split; [exact F3|]. split; [exact F4|]. split.
    - intros Hs. eapply g_merge_owned_spec in E; [|exact (SL n)|exact Hw]. destruct E as [_ E].
      rewrite Hs in E. apply E.
    - intros Hs Hd. pose proof E as G. eapply g_merge_owned_spec in G; [|exact (SL n)|exact Hw].
      destruct G as [_ G]. destruct (find st src_id) as [s|] eqn:Es; [|congruence].
      destruct G as [r1 [m1 [EM G]]].
      assert (Hw1 : wfn n (sdel TA OA FT MS st src_id)) by (apply (l_inv_del _ _ _ _ _ _ _ _ _ _ _ _ (SL n)); assumption).
      eapply g_merge_cmd_spec in EM; [|exact (SL n)|exact Hw1]. destruct EM as [_ EM].
      rewrite find_sdel in EM by apply Hw.
      assert (Hnone : (if (dst =? src_id)%N then None else find st dst) = None).
      { destruct Hd as [Hd|Hd]; [rewrite Hd; destruct (dst =? src_id)%N; reflexivity|].
        subst. rewrite N.eqb_refl. reflexivity. }
      rewrite Hnone in EM. destruct EM as (EM & _). subst r1. apply G.
  Qed.

  (* C11, store level *)
  Lemma merge_owned_failure_keeps_both_lemma : forall n w st dst src_id cls rm mh w' e st' k,
      wfn n st -> sstep w st (MergeOwned dst src_id cls rm mh) = (w', ROwned (Err e), st', k) ->
      (forall id, find st' id = find st id) /\ k = 0%nat.
  Proof.
    intros n w st dst src_id cls rm mh w' e st' k Hw H.
    eapply merge_owned_spec_lemma in H; [|exact Hw]. destruct H as [ro [Hr (_ & _ & F3 & _)]].
    inversion Hr; subst. apply F3. reflexivity.
  Qed.

  Lemma store_add_atomic_lemma : forall n w st id cls fa f u w' ru st' k,
      wfn n st -> sstep w st (Add id cls fa f u) = (w', RUnit ru, st', k) ->
      match find st id with
      | Some t =>
          match ru with
          | Err _ => (forall id', find st' id' = find st id') /\ k = 0%nat
          | Ok _ => k = 1%nat /\ exists t', add_observation w t cls fa f u = (w', Ok tt, t', k) /\
                                            forall id', find st' id' = if (id' =? id)%N then Some t' else find st id'
          end
      | None =>
          match ru with
          | Err _ => st' = st /\ k = 1%nat     (* the one notification of Track::new of the discarded track *)
          | Ok _ => k = 2%nat /\ exists t', build w id dflt_metric dflt_attrs [(cls, fa, f, u)] = (w', Ok t', k) /\
                                            forall id', find st' id' = if (id' =? id)%N then Some t' else find st id'
          end
      end.
  Proof.
    intros n w st id cls fa f u w' ru st' k Hw H. unfold Store.sstep in H. cbn [gstep] in H.
    destruct (g_add _ _ _ _ _ _ _ _ _ _ _ _ _ _ _ _ _ _ _ _) as [[[a b] c] d] eqn:E. inversion H; subst.
    destruct (find st id) as [t|] eqn:Hf.
    - eapply g_add_existing in E; [|exact (SL n)|exact Hw|exact Hf]. destruct E as [_ E]. exact E.
    - rewrite g_add_missing in E by exact Hf.
      destruct (build w id dflt_metric dflt_attrs [(cls, fa, f, u)]) as [[w1 r1] k1] eqn:EB.
      destruct r1 as [t|e]; inversion E; subst.
      + pose proof EB as EB'. apply build_ok in EB'. destruct EB' as (Hid & _ & Hk). cbn [length] in Hk.
        split; [assumption|]. exists t. split; [reflexivity|].
        rewrite (g_add_track_fresh _ _ _ _ _ _ _ _ _) by (rewrite Hid; assumption). cbn [snd].
        intros id'. rewrite Hid. apply find_sset. apply Hw.
      + split; [reflexivity|].
        unfold Track.build, new_track in EB. cbn [Track.build_obs] in EB.
        destruct (add_observation w _ cls fa f u) as [[[w2 r2] t2] n2] eqn:EA.
        destruct r2 as [[]|e2].
        * inversion EB.
        * inversion EB; subst. apply add_observation_atomic_lemma in EA. cbn in EA. destruct EA as [_ EA]. lia.
  Qed.
End Statements.
