(* Lemmas about the L0 tracker model: list facts, the reachability invariant. *)
From Coq Require Import List NArith ZArith QArith Bool Lia Permutation.
From Similari Require Import Base.Num Model.Constraints Model.Tracker Proofs.TrackerScalarProofs.
Import ListNotations.
Open Scope N_scope.

(* ------------------------------------------------------------------------------------------------ *)
(* EpochDb *)

Lemma epoch_of_set e s v s' : epoch_of (set_epoch e s v) s' = if s =? s' then v else epoch_of e s'.
Proof.
  induction e as [|[k x] r IH]; cbn [set_epoch epoch_of].
  - destruct (s =? s'); reflexivity.
  - destruct (k =? s) eqn:E.
    + apply N.eqb_eq in E; subst k. cbn [epoch_of]. destruct (s =? s'); reflexivity.
    + cbn [epoch_of]. destruct (k =? s') eqn:E2.
      * apply N.eqb_eq in E2; subst k. rewrite N.eqb_sym, E. reflexivity.
      * exact IH.
Qed.

Lemma epoch_of_set_same e s v : epoch_of (set_epoch e s v) s = v.
Proof. rewrite epoch_of_set, N.eqb_refl. reflexivity. Qed.

Lemma epoch_of_set_other e s v s' : s <> s' -> epoch_of (set_epoch e s v) s' = epoch_of e s'.
Proof. intro H. rewrite epoch_of_set. apply N.eqb_neq in H. rewrite H. reflexivity. Qed.

(* pointwise order on epoch maps *)
Definition epochs_le (e1 e2 : list (N * N)) : Prop := forall s, epoch_of e1 s <= epoch_of e2 s.

Lemma epochs_le_refl e : epochs_le e e.
Proof. intro s; lia. Qed.

Lemma epochs_le_set e s v : epoch_of e s <= v -> epochs_le e (set_epoch e s v).
Proof.
  intros H s'. rewrite epoch_of_set. destruct (s =? s') eqn:E.
  - apply N.eqb_eq in E; subst; exact H.
  - lia.
Qed.

(* the translated comparison of EpochDb::baked, through its spec lemma *)
Lemma expired_ltb c e t : expired c e t = (t_last t + max_idle c <? epoch_of e (t_scene t)).
Proof.
  unfold expired. destruct (t_last t + max_idle c <? epoch_of e (t_scene t)) eqn:E.
  - apply baked_wasted_cmp_spec. apply N.ltb_lt. exact E.
  - destruct (SimilariGen.ScalarGate.baked_wasted_cmp Qops (t_last t) (max_idle c) (Some (epoch_of e (t_scene t)))) eqn:E2; [|reflexivity].
    apply baked_wasted_cmp_spec in E2. apply N.ltb_lt in E2. congruence.
Qed.

Lemma expired_mono c e1 e2 t : epochs_le e1 e2 -> expired c e1 t = true -> expired c e2 t = true.
Proof.
  rewrite !expired_ltb. intros H H1. apply N.ltb_lt in H1. apply N.ltb_lt. specialize (H (t_scene t)). lia.
Qed.

(* ------------------------------------------------------------------------------------------------ *)
(* generic list facts *)

Lemma filter_partition_perm {A} (p : A -> bool) (l : list A) :
  Permutation (filter p l ++ filter (fun x => negb (p x)) l) l.
Proof.
  induction l as [|x r IH]; cbn [filter]; [constructor|].
  destruct (p x); cbn [negb app].
  - constructor; exact IH.
  - eapply Permutation_trans; [apply Permutation_sym, Permutation_middle|]. constructor; exact IH.
Qed.

Lemma filter_partition_perm' {A} (p : A -> bool) (l : list A) :
  Permutation (filter (fun x => negb (p x)) l ++ filter p l) l.
Proof. eapply Permutation_trans; [apply Permutation_app_comm|apply filter_partition_perm]. Qed.

Lemma concat_map_perm {A B} (f : A -> list B) l1 l2 :
  Permutation l1 l2 -> Permutation (concat (map f l1)) (concat (map f l2)).
Proof.
  induction 1; cbn [map concat].
  - constructor.
  - apply Permutation_app_head; assumption.
  - rewrite !app_assoc. apply Permutation_app_tail, Permutation_app_comm.
  - eapply Permutation_trans; eassumption.
Qed.

Lemma filter_filter_comm {A} (p q : A -> bool) l : filter p (filter q l) = filter q (filter p l).
Proof.
  induction l as [|x r IH]; cbn [filter]; [reflexivity|].
  destruct (q x) eqn:Q, (p x) eqn:P; cbn [filter]; rewrite ?Q, ?P, IH; reflexivity.
Qed.

Lemma filter_filter_and {A} (p q : A -> bool) l : filter p (filter q l) = filter (fun x => q x && p x) l.
Proof.
  induction l as [|x r IH]; cbn [filter]; [reflexivity|].
  destruct (q x) eqn:Q; cbn [filter andb]; [destruct (p x)|]; rewrite IH; reflexivity.
Qed.

Lemma filter_ext_in' {A} (p q : A -> bool) l : (forall x, In x l -> p x = q x) -> filter p l = filter q l.
Proof. apply filter_ext_in. Qed.

Lemma filter_all_true {A} (p : A -> bool) l : (forall x, In x l -> p x = true) -> filter p l = l.
Proof.
  induction l as [|x r IH]; cbn [filter]; intro H; [reflexivity|].
  rewrite (H x (or_introl eq_refl)), IH; [reflexivity|]. intros y Hy; apply H; right; exact Hy.
Qed.

Lemma filter_all_false {A} (p : A -> bool) l : (forall x, In x l -> p x = false) -> filter p l = [].
Proof.
  induction l as [|x r IH]; cbn [filter]; intro H; [reflexivity|].
  rewrite (H x (or_introl eq_refl)), IH; [reflexivity|]. intros y Hy; apply H; right; exact Hy.
Qed.

Lemma NoDup_app_l {A} (l1 l2 : list A) : NoDup (l1 ++ l2) -> NoDup l1.
Proof.
  induction l1 as [|x r IH]; cbn [app]; intro H; [constructor|].
  inversion H; subst. constructor; [|apply IH; assumption].
  intro Hin; apply H2. apply in_or_app; left; exact Hin.
Qed.

Lemma NoDup_app_r {A} (l1 l2 : list A) : NoDup (l1 ++ l2) -> NoDup l2.
Proof.
  induction l1 as [|x r IH]; cbn [app]; intro H; [exact H|]. inversion H; subst. apply IH; assumption.
Qed.

Lemma NoDup_app_disj {A} (l1 l2 : list A) x : NoDup (l1 ++ l2) -> In x l1 -> In x l2 -> False.
Proof.
  induction l1 as [|y r IH]; cbn [app In]; intros H H1 H2; [contradiction|].
  inversion H; subst. destruct H1 as [H1|H1].
  - subst. apply H4. apply in_or_app; right; exact H2.
  - apply IH; assumption.
Qed.

Lemma perm_insert_mid {X} (S A T B : list X) u :
  Permutation S (A ++ T ++ B) -> Permutation (S ++ [u]) (A ++ (T ++ [u]) ++ B).
Proof.
  intro H. eapply Permutation_trans; [apply Permutation_app_comm|]. cbn [app].
  rewrite <- (app_assoc T), (app_assoc A). cbn [app].
  eapply Permutation_trans; [|apply Permutation_middle]. constructor. rewrite <- app_assoc. exact H.
Qed.

Lemma perm_append_mid {X} (A B C : list X) u :
  Permutation (A ++ B) C -> Permutation ((A ++ [u]) ++ B) (C ++ [u]).
Proof.
  intro H. rewrite <- app_assoc. cbn [app].
  eapply Permutation_trans; [apply Permutation_sym, Permutation_middle|].
  eapply Permutation_trans; [|apply Permutation_app_comm]. cbn [app]. constructor. exact H.
Qed.

(* ------------------------------------------------------------------------------------------------ *)
(* the id-sorted wasted store *)

Lemma ins_perm t l : Permutation (ins t l) (t :: l).
Proof.
  induction l as [|x r IH]; cbn [ins]; [reflexivity|].
  destruct (t_id t <=? t_id x); [reflexivity|].
  eapply Permutation_trans; [constructor; exact IH|apply perm_swap].
Qed.

Lemma ins_all_perm ts l : Permutation (ins_all ts l) (ts ++ l).
Proof.
  unfold ins_all. revert l. induction ts as [|t r IH]; intro l; cbn [fold_left app]; [reflexivity|].
  eapply Permutation_trans; [apply IH|].
  eapply Permutation_trans; [apply Permutation_app_head, ins_perm|].
  apply Permutation_sym, Permutation_middle.
Qed.

Lemma In_ins x t l : In x (ins t l) <-> x = t \/ In x l.
Proof.
  split; intro H.
  - apply (Permutation_in _ (ins_perm t l)) in H. destruct H; [left; symmetry|right]; assumption.
  - apply (Permutation_in _ (Permutation_sym (ins_perm t l))). destruct H; [left; symmetry|right]; assumption.
Qed.

Lemma In_ins_all x ts l : In x (ins_all ts l) <-> In x ts \/ In x l.
Proof.
  split; intro H.
  - apply (Permutation_in _ (ins_all_perm ts l)) in H. apply in_app_or; exact H.
  - apply (Permutation_in _ (Permutation_sym (ins_all_perm ts l))). apply in_or_app; exact H.
Qed.

(* insertion of distinct ids commutes: the sorted store is a canonical form of the set *)
Lemma ins_comm a b l : t_id a <> t_id b -> ins a (ins b l) = ins b (ins a l).
Proof.
  intro Hab. induction l as [|x r IH]; cbn [ins].
  - destruct (t_id a <=? t_id b) eqn:E1, (t_id b <=? t_id a) eqn:E2; try reflexivity.
    + apply N.leb_le in E1, E2. lia.
    + apply N.leb_gt in E1, E2. lia.
  - destruct (t_id b <=? t_id x) eqn:Eb, (t_id a <=? t_id x) eqn:Ea; cbn [ins].
    + destruct (t_id a <=? t_id b) eqn:E1, (t_id b <=? t_id a) eqn:E2; rewrite ?Ea, ?Eb; try reflexivity.
      * apply N.leb_le in E1, E2. lia.
      * apply N.leb_gt in E1, E2. lia.
    + destruct (t_id a <=? t_id b) eqn:E1; rewrite ?Ea, ?Eb.
      * apply N.leb_le in E1, Eb. apply N.leb_gt in Ea. lia.
      * reflexivity.
    + destruct (t_id b <=? t_id a) eqn:E2; rewrite ?Ea, ?Eb.
      * apply N.leb_le in E2, Ea. apply N.leb_gt in Eb. lia.
      * reflexivity.
    + rewrite Ea, Eb, IH. reflexivity.
Qed.

Lemma ins_ins_all a ts l :
  (forall t, In t ts -> t_id a <> t_id t) -> ins a (ins_all ts l) = ins_all ts (ins a l).
Proof.
  unfold ins_all. revert l. induction ts as [|t r IH]; intros l H; cbn [fold_left]; [reflexivity|].
  rewrite IH by (intros; apply H; right; assumption).
  rewrite ins_comm; [reflexivity|]. apply H; left; reflexivity.
Qed.

Lemma ins_all_app ts1 ts2 l : ins_all (ts1 ++ ts2) l = ins_all ts2 (ins_all ts1 l).
Proof. unfold ins_all. apply fold_left_app. Qed.

(* ------------------------------------------------------------------------------------------------ *)
(* issued ids *)

Definition issued (n : N) : list N := map N.of_nat (seq 1 (N.to_nat n)).

Lemma issued_succ n : issued (n + 1) = issued n ++ [n + 1].
Proof.
  unfold issued. replace (N.to_nat (n + 1)) with (S (N.to_nat n)) by lia.
  rewrite seq_S, map_app. cbn [map]. f_equal. f_equal. lia.
Qed.

Lemma In_issued x n : In x (issued n) <-> 1 <= x <= n.
Proof.
  unfold issued. rewrite in_map_iff. split.
  - intros [k [Hk Hin]]. apply in_seq in Hin. lia.
  - intro H. exists (N.to_nat x). split; [lia|]. apply in_seq. lia.
Qed.

Lemma issued_length n : length (issued n) = N.to_nat n.
Proof. unfold issued. rewrite map_length, seq_length. reflexivity. Qed.

Lemma issued_NoDup n : NoDup (issued n).
Proof.
  unfold issued. apply FinFun.Injective_map_NoDup; [|apply seq_NoDup].
  intros a b H. lia.
Qed.

(* ------------------------------------------------------------------------------------------------ *)
(* the invariant of reachable states *)

Definition all_tracks (st : tstate) : list trk := live st ++ wasted st ++ g_delivered st ++ g_cleared st.

Definition trk_ok (t : trk) : Prop := t_len t = N.of_nat (length (g_dets t)) /\ g_dets t <> [].

Record Inv (c : cfg) (st : tstate) : Prop := {
  inv_ids : Permutation (map t_id (all_tracks st)) (issued (next_id st));
  inv_dets : Permutation (g_submitted st) (concat (map g_dets (all_tracks st)));
  inv_ok : Forall trk_ok (all_tracks st);
  inv_wasted : Forall (fun t => expired c (epochs st) t = true) (wasted st);
  inv_sub : NoDup (g_submitted st)
}.

Lemma Inv_init c : Inv c init.
Proof.
  constructor; cbn; try constructor.
Qed.

Lemma Inv_transfer c st st' :
  Inv c st ->
  Permutation (all_tracks st') (all_tracks st) ->
  next_id st' = next_id st -> g_submitted st' = g_submitted st ->
  Forall (fun t => expired c (epochs st') t = true) (wasted st') ->
  Inv c st'.
Proof.
  intros [H1 H2 H3 H4 H5] HP Hn Hs Hw. constructor.
  - rewrite Hn. eapply Permutation_trans; [apply Permutation_map; exact HP|exact H1].
  - rewrite Hs. eapply Permutation_trans; [exact H2|]. apply concat_map_perm, Permutation_sym, HP.
  - eapply Permutation_Forall; [apply Permutation_sym; exact HP|exact H3].
  - exact Hw.
  - rewrite Hs; exact H5.
Qed.

Lemma Inv_NoDup_ids c st : Inv c st -> NoDup (map t_id (all_tracks st)).
Proof.
  intros [H1 _ _ _ _]. eapply Permutation_NoDup; [apply Permutation_sym; exact H1|apply issued_NoDup].
Qed.

Lemma Inv_NoDup_live c st : Inv c st -> NoDup (map t_id (live st)).
Proof.
  intro H. apply Inv_NoDup_ids in H. unfold all_tracks in H. rewrite map_app in H.
  apply NoDup_app_l in H. exact H.
Qed.

Lemma Inv_id_bound c st t : Inv c st -> In t (all_tracks st) -> 1 <= t_id t <= next_id st.
Proof.
  intros [H1 _ _ _ _] Hin. apply In_issued. eapply Permutation_in; [exact H1|]. apply in_map; exact Hin.
Qed.

Lemma Inv_live_id_bound c st t : Inv c st -> In t (live st) -> 1 <= t_id t <= next_id st.
Proof. intros H Hin. eapply Inv_id_bound; [exact H|]. unfold all_tracks. apply in_or_app; left; exact Hin. Qed.

(* --- auto_waste ---------------------------------------------------------------------------------- *)

Lemma auto_waste_all_perm c st : Permutation (all_tracks (auto_waste c st)) (all_tracks st).
Proof.
  unfold auto_waste, all_tracks. cbn [live wasted g_delivered g_cleared set_wasted set_live].
  set (ex := filter (expired c (epochs st)) (live st)).
  set (al := filter (fun t => negb (expired c (epochs st) t)) (live st)).
  rewrite !app_assoc. apply Permutation_app_tail. apply Permutation_app_tail.
  eapply Permutation_trans; [apply Permutation_app_head, ins_all_perm|].
  rewrite app_assoc. apply Permutation_app_tail. apply filter_partition_perm'.
Qed.

Lemma Inv_auto_waste c st : Inv c st -> Inv c (auto_waste c st).
Proof.
  intro H. eapply Inv_transfer; [exact H|apply auto_waste_all_perm|reflexivity|reflexivity|].
  unfold auto_waste. cbn [wasted epochs set_wasted set_live].
  apply Forall_forall. intros t Ht. apply In_ins_all in Ht. destruct Ht as [Ht|Ht].
  - apply filter_In in Ht. apply Ht.
  - destruct H as [_ _ _ H4 _]. rewrite Forall_forall in H4. apply H4; exact Ht.
Qed.

Lemma Inv_set_aw c st a b : Inv c st -> Inv c (set_aw st a b).
Proof. intros [H1 H2 H3 H4 H5]. constructor; assumption. Qed.

(* the translated prologues, through their spec lemma *)
Lemma prologue_with_step c st :
  prologue_with auto_waste_step c st =
  if aw_cnt st =? 0 then set_aw (auto_waste c st) (aw_per st) (aw_per st) else set_aw st (aw_cnt st - 1) (aw_per st).
Proof.
  unfold prologue_with, auto_waste_step. destruct (aw_cnt st =? 0); [reflexivity|]. rewrite N.sub_1_r. reflexivity.
Qed.

Lemma prologue_eq c st :
  prologue c st =
  if aw_cnt st =? 0 then set_aw (auto_waste c st) (aw_per st) (aw_per st) else set_aw st (aw_cnt st - 1) (aw_per st).
Proof.
  rewrite <- prologue_with_step. unfold prologue, prologue_with.
  rewrite (proj1 (auto_waste_prologue_spec (aw_cnt st) (aw_per st))). reflexivity.
Qed.

Lemma prologue_batch_eq c st : prologue_batch c st = prologue c st.
Proof.
  unfold prologue, prologue_batch, prologue_with.
  destruct (auto_waste_prologue_spec (aw_cnt st) (aw_per st)) as [H1 [H2 _]]. rewrite H1, H2. reflexivity.
Qed.

Lemma Inv_prologue c st : Inv c st -> Inv c (prologue c st).
Proof.
  intro H. rewrite prologue_eq. destruct (aw_cnt st =? 0).
  - apply Inv_set_aw, Inv_auto_waste, H.
  - apply Inv_set_aw, H.
Qed.

Lemma Inv_set_epochs c st e : Inv c st -> epochs_le (epochs st) e -> Inv c (set_epochs st e).
Proof.
  intros [H1 H2 H3 H4 H5] Hle. constructor; try assumption.
  cbn [wasted epochs set_epochs]. eapply Forall_impl; [|exact H4].
  intros t Ht. eapply expired_mono; eassumption.
Qed.

(* --- the per-candidate step ---------------------------------------------------------------------- *)

Lemma map_id_upd_track id f l : (forall t, t_id (f t) = t_id t) -> map t_id (upd_track id f l) = map t_id l.
Proof.
  intro Hf. unfold upd_track. rewrite map_map. apply map_ext. intro t. destruct (t_id t =? id); [apply Hf|reflexivity].
Qed.

Lemma upd_track_notin id f l : ~ In id (map t_id l) -> upd_track id f l = l.
Proof.
  unfold upd_track. induction l as [|x r IH]; cbn [map In]; intro H; [reflexivity|].
  destruct (t_id x =? id) eqn:E.
  - apply N.eqb_eq in E. exfalso; apply H; left; exact E.
  - f_equal. apply IH. intro; apply H; right; assumption.
Qed.

(* with distinct ids exactly one track is rewritten *)
Lemma upd_track_split id f l :
  NoDup (map t_id l) -> In id (map t_id l) ->
  exists l1 t l2, l = l1 ++ t :: l2 /\ t_id t = id /\ upd_track id f l = l1 ++ f t :: l2
                  /\ ~ In id (map t_id l1) /\ ~ In id (map t_id l2).
Proof.
  induction l as [|x r IH]; cbn [map In]; intros Hnd Hin; [contradiction|].
  inversion Hnd as [|? ? Hx Hr]; subst.
  destruct (N.eq_dec (t_id x) id) as [E|E].
  - exists [], x, r. cbn [app]. repeat split; try assumption.
    + unfold upd_track. cbn [map]. rewrite (proj2 (N.eqb_eq _ _) E). f_equal.
      fold (upd_track id f r). apply upd_track_notin. rewrite <- E. exact Hx.
    + intros [].
    + rewrite <- E; exact Hx.
  - destruct Hin as [Hin|Hin]; [contradiction|].
    destruct (IH Hr Hin) as [l1 [t [l2 [E1 [E2 [E3 [E4 E5]]]]]]].
    exists (x :: l1), t, l2. repeat split.
    + rewrite E1; reflexivity.
    + exact E2.
    + unfold upd_track in *. cbn [map app]. rewrite (proj2 (N.eqb_neq _ _) E). rewrite E3. reflexivity.
    + cbn [map In]. intros [H|H]; [contradiction|apply E4; exact H].
    + exact E5.
Qed.

Lemma absorb_id c e d t : t_id (absorb c e d t) = t_id t.
Proof. reflexivity. Qed.

Lemma trk_ok_absorb c e d t : trk_ok t -> trk_ok (absorb c e d t).
Proof.
  intros [H1 H2]. split; cbn [absorb t_len g_dets].
  - rewrite app_length, H1. cbn [length]. lia.
  - intro H. apply app_eq_nil in H. destruct H as [_ H]; discriminate.
Qed.

Lemma trk_ok_fresh c id s e d : trk_ok (fresh_track c id s e d).
Proof. split; cbn; [reflexivity|discriminate]. Qed.

(* State after one candidate, as a function *)
Definition after_one (c : cfg) (scene epoch : N) (st : tstate) (dw : detection * option N) : tstate :=
  fst (apply_one c scene epoch st dw).

Lemma apply_one_fst_some c scene epoch st d dest :
  fst (apply_one c scene epoch st (d, Some dest)) =
  set_live (set_submitted st (g_submitted st ++ [d_uid d]))
           (upd_track dest (absorb c epoch d) (live st)).
Proof.
  unfold apply_one. cbn [fst snd set_submitted live].
  match goal with |- context [find_track ?a ?b] => destruct (find_track a b) end; reflexivity.
Qed.

Lemma apply_one_fst_none c scene epoch st d :
  fst (apply_one c scene epoch st (d, None)) =
  set_next_id (set_live (set_submitted st (g_submitted st ++ [d_uid d]))
                        (live st ++ [fresh_track c (next_id st + 1) scene epoch d])) (next_id st + 1).
Proof.
  unfold apply_one. cbn [fst snd set_submitted live next_id].
  match goal with |- context [find_track ?a ?b] => destruct (find_track a b) end; reflexivity.
Qed.

Lemma Inv_apply_one c scene epoch st d w :
  Inv c st ->
  ~ In (d_uid d) (g_submitted st) ->
  match w with Some dest => In dest (map t_id (live st)) | None => True end ->
  Inv c (fst (apply_one c scene epoch st (d, w))).
Proof.
  intros HI Hfresh Hw. pose proof (Inv_NoDup_live _ _ HI) as Hnd.
  destruct HI as [H1 H2 H3 H4 H5]. destruct w as [dest|].
  - rewrite apply_one_fst_some.
    destruct (upd_track_split dest (absorb c epoch d) (live st) Hnd Hw) as [l1 [t [l2 [E1 [E2 [E3 _]]]]]].
    constructor; unfold all_tracks in *;
      cbn [live wasted g_delivered g_cleared g_submitted next_id epochs set_live set_submitted].
    + rewrite map_app, map_id_upd_track by reflexivity. rewrite <- map_app. exact H1.
    + rewrite E3. rewrite E1 in H2. rewrite <- !app_assoc in *. cbn [app] in *.
      rewrite !map_app, !concat_app in *. cbn [map concat] in *. cbn [absorb g_dets].
      apply perm_insert_mid. exact H2.
    + rewrite E3. rewrite E1 in H3. rewrite <- !app_assoc in *. cbn [app] in *.
      apply Forall_app in H3. destruct H3 as [Ha Hb]. inversion Hb; subst.
      apply Forall_app; split; [exact Ha|]. constructor; [apply trk_ok_absorb; assumption|assumption].
    + exact H4.
    + apply (Permutation_NoDup (Permutation_cons_append _ _)). constructor; assumption.
  - rewrite apply_one_fst_none.
    constructor; unfold all_tracks in *;
      cbn [live wasted g_delivered g_cleared g_submitted next_id epochs set_live set_submitted set_next_id].
    + rewrite issued_succ. rewrite (map_app t_id (live st ++ _)). rewrite (map_app t_id (live st)).
      cbn [map fresh_track t_id]. apply perm_append_mid. rewrite <- map_app. exact H1.
    + rewrite (map_app g_dets (live st ++ _)), (map_app g_dets (live st)), !concat_app.
      cbn [map concat fresh_track g_dets app]. apply Permutation_sym, perm_append_mid, Permutation_sym.
      rewrite <- concat_app, <- map_app. exact H2.
    + rewrite <- app_assoc. apply Forall_app in H3. destruct H3 as [Ha Hb].
      apply Forall_app; split; [exact Ha|]. cbn [app]. constructor; [apply trk_ok_fresh|exact Hb].
    + exact H4.
    + apply (Permutation_NoDup (Permutation_cons_append _ _)). constructor; assumption.
Qed.
