(* C07 - entry-wise description of every matrix expression of the code-shaped filter (any dimension n,
   any state, NO structural assumption): what predict, project and the operands of update compute. *)
From Coq Require Import List Arith Bool ZArith QArith Qreals Reals Lra Lia.
From Similari Require Import Base.Num Model.Kalman Proofs.KalmanBase.
Import ListNotations.
Local Open Scope R_scope.

Notation Rvec := (vec Rops).
Notation Rmat := (mat Rops).
Notation vgetR := (@vget Rops).
Notation mgetR := (@mget Rops).

Ltac nat_cases :=
  repeat match goal with
         | |- context [Nat.eqb ?a ?b] => destruct (Nat.eqb_spec a b); try lia
         | |- context [Nat.ltb ?a ?b] => destruct (Nat.ltb_spec a b); try lia
         end; cbn [andb].

Section Entries.
  Variable n : nat.
  Local Notation N := (2 * n)%nat.

  Definition Mfun (i j : nat) : R :=
    if Nat.eqb i j then 1 else if Nat.ltb i n && Nat.eqb j (n + i) then 1 else 0.

  Lemma motion_get : forall i j, (i < N)%nat -> (j < N)%nat -> mgetR (motion_matrix Rops n) i j = Mfun i j.
  Proof. intros. unfold motion_matrix. rewrite mget_mtab by assumption. reflexivity. Qed.

  Lemma update_get : forall i j, (i < n)%nat -> (j < N)%nat ->
      mgetR (update_matrix Rops n) i j = if Nat.eqb i j then 1 else 0.
  Proof. intros. unfold update_matrix. rewrite mget_mtab by assumption. reflexivity. Qed.

  Lemma sum_motion_row : forall (g : nat -> R) i, (i < N)%nat ->
      Rsum N (fun l => mgetR (motion_matrix Rops n) i l * g l) = g i + (if Nat.ltb i n then g (n + i)%nat else 0).
  Proof.
    intros g i Hi.
    rewrite (Rsum_ext N _ (fun l => Mfun i l * g l)) by (intros; rewrite motion_get by assumption; reflexivity).
    destruct (Nat.ltb_spec i n) as [Hlt|Hge].
    - rewrite (Rsum_two N _ i (n + i)%nat); try lia.
      + unfold Mfun. nat_cases; simplR; lra.
      + intros l Hl H1 H2. unfold Mfun. nat_cases; simplR; lra.
    - rewrite (Rsum_single N _ i); try lia.
      + unfold Mfun. nat_cases; simplR; lra.
      + intros l Hl H1. unfold Mfun. nat_cases; simplR; lra.
  Qed.

  Lemma sum_motion_col : forall (g : nat -> R) j, (j < N)%nat ->
      Rsum N (fun l => g l * mgetR (motion_matrix Rops n) j l) = g j + (if Nat.ltb j n then g (n + j)%nat else 0).
  Proof.
    intros g j Hj. rewrite <- sum_motion_row by assumption.
    apply Rsum_ext. intros. simplR. lra.
  Qed.

  Lemma sum_update_row : forall (g : nat -> R) i, (i < n)%nat ->
      Rsum N (fun l => mgetR (update_matrix Rops n) i l * g l) = g i.
  Proof.
    intros g i Hi.
    rewrite (Rsum_single N _ i); try lia.
    - rewrite update_get by lia. rewrite Nat.eqb_refl. simplR. lra.
    - intros l Hl Hne. rewrite update_get by lia. nat_cases. simplR. lra.
  Qed.

  Lemma sum_update_col : forall (g : nat -> R) j, (j < n)%nat ->
      Rsum N (fun l => g l * mgetR (update_matrix Rops n) j l) = g j.
  Proof.
    intros g j Hj. rewrite <- sum_update_row by assumption. apply Rsum_ext. intros. simplR. lra.
  Qed.

  (* mdiag / vsq *)
  Lemma mdiag_get : forall k d i j, (i < k)%nat -> (j < k)%nat ->
      mgetR (mdiag Rops k d) i j = if Nat.eqb i j then vgetR d i else 0.
  Proof. intros. unfold mdiag. rewrite mget_mtab by assumption. reflexivity. Qed.

  Lemma vsq_get : forall k v i, (i < k)%nat -> vgetR (vsq Rops k v) i = vgetR v i * vgetR v i.
  Proof. intros. unfold vsq. rewrite vget_vtab by assumption. reflexivity. Qed.
End Entries.

Section Filter.
  Variable F : kfilter Rops.
  Local Notation n := (kdim Rops F).
  Local Notation N := (2 * kdim Rops F)%nat.

  (* ---- predict ---- *)
  Lemma predict_mean_entry : forall st i, (i < N)%nat ->
      vgetR (mean (g_predict Rops F st)) i
      = vgetR (mean st) i + (if Nat.ltb i n then vgetR (mean st) (n + i)%nat else 0).
  Proof.
    intros st i Hi. unfold g_predict. cbn [mean]. unfold mvmul. rewrite vget_vtab by assumption.
    apply sum_motion_row. assumption.
  Qed.

  Definition mstd (st : kstate Rops) (i : nat) : R := vgetR (motion_std Rops F (mean st)) i.

  Lemma predict_cov_entry : forall st i j, (i < N)%nat -> (j < N)%nat ->
      mgetR (cov (g_predict Rops F st)) i j
      = ((mgetR (cov st) i j + (if Nat.ltb i n then mgetR (cov st) (n + i)%nat j else 0))
         + (if Nat.ltb j n
            then mgetR (cov st) i (n + j)%nat + (if Nat.ltb i n then mgetR (cov st) (n + i)%nat (n + j)%nat else 0)
            else 0))
        + (if Nat.eqb i j then mstd st i * mstd st i else 0).
  Proof.
    intros st i j Hi Hj. unfold g_predict. cbn [cov]. unfold madd. rewrite mget_mtab by assumption.
    rewrite mdiag_get by assumption. simplR. f_equal.
    - unfold mmul at 1. rewrite mget_mtab by assumption.
      rewrite (Rsum_ext N _ (fun l => mgetR (mmul Rops N N N (motion_matrix Rops n) (cov st)) i l
                                      * mgetR (motion_matrix Rops n) j l)).
      2:{ intros l Hl. unfold mtrans. rewrite mget_mtab by assumption. reflexivity. }
      rewrite sum_motion_col by assumption.
      assert (E : forall c, (c < N)%nat ->
                  mgetR (mmul Rops N N N (motion_matrix Rops n) (cov st)) i c
                  = mgetR (cov st) i c + (if Nat.ltb i n then mgetR (cov st) (n + i)%nat c else 0)).
      { intros c Hc. unfold mmul. rewrite mget_mtab by assumption.
        apply (sum_motion_row n (fun l => mgetR (cov st) l c)). assumption. }
      rewrite E by assumption.
      destruct (Nat.ltb_spec j n) as [Hjn|Hjn].
      + rewrite E by lia. reflexivity.
      + lra.
    - destruct (Nat.eqb i j); [|reflexivity]. rewrite vsq_get by assumption. reflexivity.
  Qed.

  (* ---- project ---- *)
  Definition pstd (m : Rvec) (i : nat) : R := vgetR (proj_std Rops F m) i.

  Lemma project_mean_entry : forall m P i, (i < n)%nat ->
      vgetR (fst (g_project Rops F m P)) i = vgetR m i.
  Proof.
    intros m P i Hi. unfold g_project. cbn [fst]. unfold mvmul. rewrite vget_vtab by assumption.
    apply sum_update_row. assumption.
  Qed.

  Lemma project_cov_entry : forall m P i j, (i < n)%nat -> (j < n)%nat ->
      mgetR (snd (g_project Rops F m P)) i j
      = mgetR P i j + (if Nat.eqb i j then pstd m i * pstd m i else 0).
  Proof.
    intros m P i j Hi Hj. unfold g_project. cbn [snd]. unfold madd. rewrite mget_mtab by assumption.
    rewrite mdiag_get by assumption. simplR. f_equal.
    - unfold mmul at 1. rewrite mget_mtab by assumption.
      rewrite (Rsum_ext N _ (fun l => mgetR (mmul Rops n N N (update_matrix Rops n) P) i l
                                      * mgetR (update_matrix Rops n) j l)).
      2:{ intros l Hl. unfold mtrans. rewrite mget_mtab by assumption. reflexivity. }
      rewrite sum_update_col by assumption.
      unfold mmul. rewrite mget_mtab by lia.
      apply (sum_update_row n (fun l => mgetR P l j)). assumption.
    - destruct (Nat.eqb i j); [|reflexivity]. rewrite vsq_get by assumption. reflexivity.
  Qed.

  (* P H^T : the first n columns of P *)
  Lemma pht_entry : forall P i j, (i < N)%nat -> (j < n)%nat ->
      mgetR (mmul Rops N N n P (mtrans Rops n N (update_matrix Rops n))) i j = mgetR P i j.
  Proof.
    intros P i j Hi Hj. unfold mmul. rewrite mget_mtab by assumption.
    rewrite (Rsum_ext N _ (fun l => mgetR P i l * mgetR (update_matrix Rops n) j l)).
    2:{ intros l Hl. unfold mtrans. rewrite mget_mtab by assumption. reflexivity. }
    apply (sum_update_col n (fun l => mgetR P i l)). assumption.
  Qed.
End Filter.
