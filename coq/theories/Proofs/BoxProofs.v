(* Lemmas about the TRANSLATED box functions of /repo/src/utils/bbox.rs (gen/ScalarBox.v), over exact rationals.
   Everything here is proved against the text the translator produced from the current sources: dropping an
   `.abs()`, flipping a comparison or changing a constant/index in the Rust code changes the Gallina and breaks a Qed.
   Used by Props/C19.v. The lemmas about too_far / dist_in_2r / BoundingBox::intersection live in Proofs/BoxExtraProofs.v. *)
From Coq Require Import ZArith NArith QArith Qabs Qround Bool List Lra Lia Psatz.
From Similari Require Import Base.Num.
From SimilariGen Require Import Consts Scalar ScalarBox.
Import ListNotations.
Open Scope Q_scope.

(* ---- small toolkit for the Qops instance (booleans -> Prop, Qred/abs/max/min elimination) ------------------- *)
Module QTk.
Lemma Qltb_iff a b : Qltb a b = true <-> a < b.
Proof. unfold Qltb. rewrite negb_true_iff. split.
  - intro H. apply Qnot_le_lt. intro L. apply Qle_bool_iff in L. congruence.
  - intro H. destruct (Qle_bool b a) eqn:E; [|reflexivity]. apply Qle_bool_iff in E. exfalso. apply (Qlt_not_le _ _ H E). Qed.
Lemma Qltb_false_iff a b : Qltb a b = false <-> b <= a.
Proof. unfold Qltb. rewrite negb_false_iff. apply Qle_bool_iff. Qed.
Lemma Qleb_false_iff a b : Qle_bool a b = false <-> b < a.
Proof. rewrite <- Qltb_iff. unfold Qltb. rewrite negb_true_iff. tauto. Qed.
Lemma Qabsb_spec x : (0 <= x /\ Qabsb x == x) \/ (x < 0 /\ Qabsb x == - x).
Proof. unfold Qabsb. destruct (Qle_bool 0 x) eqn:E.
  - left. split; [apply Qle_bool_iff; exact E | reflexivity].
  - right. split; [apply Qleb_false_iff; exact E | reflexivity]. Qed.
Lemma Qmaxb_spec a b : (a <= b /\ Qmaxb a b == b) \/ (b < a /\ Qmaxb a b == a).
Proof. unfold Qmaxb. destruct (Qle_bool a b) eqn:E.
  - left. split; [apply Qle_bool_iff; exact E | reflexivity].
  - right. split; [apply Qleb_false_iff; exact E | reflexivity]. Qed.
Lemma Qminb_spec a b : (a <= b /\ Qminb a b == a) \/ (b < a /\ Qminb a b == b).
Proof. unfold Qminb. destruct (Qle_bool a b) eqn:E.
  - left. split; [apply Qle_bool_iff; exact E | reflexivity].
  - right. split; [apply Qleb_false_iff; exact E | reflexivity]. Qed.
Lemma Qabsb_Qabs x : Qabsb x == Qabs x.
Proof. destruct (Qabsb_spec x) as [[H E]|[H E]]; rewrite E.
  - symmetry. apply Qabs_pos. exact H.
  - symmetry. apply Qabs_neg. apply Qlt_le_weak. exact H. Qed.
Lemma bool_eq_iff (a b : bool) : (a = true <-> b = true) -> a = b.
Proof. destruct a, b; intuition congruence. Qed.
End QTk.
Import QTk.

(* unfold the operations of the Qops instance *)
Ltac qops := cbn [T zero one add sub mul div opp abs max min leb ltb floor of_Q Qops] in *.
(* booleans to propositions *)
Ltac b2p := repeat first
  [ rewrite andb_true_iff | rewrite andb_false_iff | rewrite orb_true_iff | rewrite negb_true_iff | rewrite negb_false_iff
  | rewrite Qltb_iff | rewrite Qltb_false_iff | rewrite Qle_bool_iff | rewrite Qleb_false_iff ].
Ltac b2p_in H := repeat first
  [ rewrite andb_true_iff in H | rewrite andb_false_iff in H | rewrite orb_true_iff in H | rewrite negb_true_iff in H | rewrite negb_false_iff in H
  | rewrite Qltb_iff in H | rewrite Qltb_false_iff in H | rewrite Qle_bool_iff in H | rewrite Qleb_false_iff in H ].
(* replace every [Qred x] / [Qabsb x] / [Qmaxb a b] / [Qminb a b] by a fresh variable and its defining fact (for lra) *)
Ltac elim_red := repeat match goal with
  | |- context [Qred ?x] => let H := fresh "Hred" in pose proof (Qred_correct x) as H; generalize dependent (Qred x); intros
  | _ : context [Qred ?x] |- _ => let H := fresh "Hred" in pose proof (Qred_correct x) as H; generalize dependent (Qred x); intros
  end.
Ltac elim_abs := repeat match goal with
  | |- context [Qabsb ?x] => let H := fresh "Habs" in pose proof (Qabsb_spec x) as H; generalize dependent (Qabsb x); intros
  | _ : context [Qabsb ?x] |- _ => let H := fresh "Habs" in pose proof (Qabsb_spec x) as H; generalize dependent (Qabsb x); intros
  | |- context [Qabs ?x] => let H := fresh "Habs" in pose proof (Qabsb_spec x) as H; rewrite (Qabsb_Qabs x) in H; generalize dependent (Qabs x); intros
  | _ : context [Qabs ?x] |- _ => let H := fresh "Habs" in pose proof (Qabsb_spec x) as H; rewrite (Qabsb_Qabs x) in H; generalize dependent (Qabs x); intros
  end.
Ltac elim_minmax := repeat match goal with
  | |- context [Qmaxb ?a ?b] => let H := fresh "Hmax" in pose proof (Qmaxb_spec a b) as H; generalize dependent (Qmaxb a b); intros
  | _ : context [Qmaxb ?a ?b] |- _ => let H := fresh "Hmax" in pose proof (Qmaxb_spec a b) as H; generalize dependent (Qmaxb a b); intros
  | |- context [Qminb ?a ?b] => let H := fresh "Hmin" in pose proof (Qminb_spec a b) as H; generalize dependent (Qminb a b); intros
  | _ : context [Qminb ?a ?b] |- _ => let H := fresh "Hmin" in pose proof (Qminb_spec a b) as H; generalize dependent (Qminb a b); intros
  end.
Ltac qlin := elim_abs; elim_minmax; elim_red; lra.

Lemma EPS_pos : 0 < EPS.
Proof. reflexivity. Qed.

(* ---- field-wise closeness of boxes (the specification side of ==) ----------------------------------------- *)
Definition angle0 (u : Universal2DBox Qops) : Q := match Universal2DBox_angle Qops u with Some a => a | None => 0 end.

(* all five stored fields of a left-top-width-height box within e *)
Definition bbox_within (e : Q) (a b : BoundingBox Qops) : Prop :=
  Qabs (BoundingBox_left Qops a - BoundingBox_left Qops b) < e /\
  Qabs (BoundingBox_top Qops a - BoundingBox_top Qops b) < e /\
  Qabs (BoundingBox_width Qops a - BoundingBox_width Qops b) < e /\
  Qabs (BoundingBox_height Qops a - BoundingBox_height Qops b) < e /\
  Qabs (BoundingBox_confidence Qops a - BoundingBox_confidence Qops b) < e.
(* some field differs by more than e *)
Definition bbox_beyond (e : Q) (a b : BoundingBox Qops) : Prop :=
  e < Qabs (BoundingBox_left Qops a - BoundingBox_left Qops b) \/
  e < Qabs (BoundingBox_top Qops a - BoundingBox_top Qops b) \/
  e < Qabs (BoundingBox_width Qops a - BoundingBox_width Qops b) \/
  e < Qabs (BoundingBox_height Qops a - BoundingBox_height Qops b) \/
  e < Qabs (BoundingBox_confidence Qops a - BoundingBox_confidence Qops b).
(* the five geometric coordinates of a universal box (a missing angle counts as 0, as in the code) *)
Definition ubox_within (e : Q) (a b : Universal2DBox Qops) : Prop :=
  Qabs (Universal2DBox_xc Qops a - Universal2DBox_xc Qops b) < e /\
  Qabs (Universal2DBox_yc Qops a - Universal2DBox_yc Qops b) < e /\
  Qabs (angle0 a - angle0 b) < e /\
  Qabs (Universal2DBox_aspect Qops a - Universal2DBox_aspect Qops b) < e /\
  Qabs (Universal2DBox_height Qops a - Universal2DBox_height Qops b) < e.
Definition ubox_beyond (e : Q) (a b : Universal2DBox Qops) : Prop :=
  e < Qabs (Universal2DBox_xc Qops a - Universal2DBox_xc Qops b) \/
  e < Qabs (Universal2DBox_yc Qops a - Universal2DBox_yc Qops b) \/
  e < Qabs (angle0 a - angle0 b) \/
  e < Qabs (Universal2DBox_aspect Qops a - Universal2DBox_aspect Qops b) \/
  e < Qabs (Universal2DBox_height Qops a - Universal2DBox_height Qops b).

(* The four lemmas below are proved directly from the translated text (not through an exact characterisation), so
   that they hold for any comparison that satisfies the property (e.g. [<=] instead of [<] at the boundary). *)
Lemma bbox_eq_within_lemma a b : bbox_within EPS a b -> bbox_eq Qops a b = true.
Proof.
  unfold bbox_eq, bbox_within. qops. intro H. decompose [and] H; clear H. b2p. repeat split; qlin.
Qed.
Lemma ubox_eq_within_lemma a b : ubox_within EPS a b -> ubox_eq Qops a b = true.
Proof.
  unfold ubox_eq, ubox_within, angle0. qops. intro H. decompose [and] H; clear H. b2p.
  destruct (Universal2DBox_angle Qops a), (Universal2DBox_angle Qops b); repeat split; qlin.
Qed.

Lemma bbox_eq_refl_lemma b : bbox_eq Qops b b = true.
Proof. apply bbox_eq_within_lemma. pose proof EPS_pos. unfold bbox_within. repeat split; qlin. Qed.
Lemma ubox_eq_refl_lemma u : ubox_eq Qops u u = true.
Proof. apply ubox_eq_within_lemma. pose proof EPS_pos. unfold ubox_within. repeat split; qlin. Qed.

Lemma bbox_eq_sym_lemma a b : bbox_eq Qops a b = bbox_eq Qops b a.
Proof.
  apply bool_eq_iff. unfold bbox_eq. qops. b2p.
  split; intro H; decompose [and] H; clear H; repeat split; qlin.
Qed.
Lemma ubox_eq_sym_lemma a b : ubox_eq Qops a b = ubox_eq Qops b a.
Proof.
  apply bool_eq_iff. unfold ubox_eq. qops. b2p.
  destruct (Universal2DBox_angle Qops a), (Universal2DBox_angle Qops b);
  (split; intro H; decompose [and] H; clear H; repeat split; qlin).
Qed.

Lemma bbox_eq_beyond_lemma a b : bbox_beyond EPS a b -> bbox_eq Qops a b = false.
Proof.
  intro H. destruct (bbox_eq Qops a b) eqn:E; [|reflexivity]. exfalso.
  unfold bbox_eq in E. qops. b2p_in E. unfold bbox_beyond in H.
  decompose [and] E; clear E. decompose [or] H; clear H; qlin.
Qed.
Lemma ubox_eq_beyond_lemma a b : ubox_beyond EPS a b -> ubox_eq Qops a b = false.
Proof.
  intro H. destruct (ubox_eq Qops a b) eqn:E; [|reflexivity]. exfalso.
  unfold ubox_eq in E. qops. b2p_in E. unfold ubox_beyond, angle0 in H.
  destruct (Universal2DBox_angle Qops a), (Universal2DBox_angle Qops b);
  decompose [and] E; clear E; decompose [or] H; clear H; qlin.
Qed.

(* equality implies closeness (up to the boundary) *)
Lemma bbox_eq_true_close a b : bbox_eq Qops a b = true ->
  Qabs (BoundingBox_left Qops a - BoundingBox_left Qops b) <= EPS /\
  Qabs (BoundingBox_top Qops a - BoundingBox_top Qops b) <= EPS /\
  Qabs (BoundingBox_width Qops a - BoundingBox_width Qops b) <= EPS /\
  Qabs (BoundingBox_height Qops a - BoundingBox_height Qops b) <= EPS /\
  Qabs (BoundingBox_confidence Qops a - BoundingBox_confidence Qops b) <= EPS.
Proof.
  intro E. unfold bbox_eq in E. qops. b2p_in E. decompose [and] E; clear E. repeat split; qlin.
Qed.

(* ---- conversions ------------------------------------------------------------------------------------------ *)
Definition bbox_Qeq (a b : BoundingBox Qops) : Prop :=
  BoundingBox_left Qops a == BoundingBox_left Qops b /\ BoundingBox_top Qops a == BoundingBox_top Qops b /\
  BoundingBox_width Qops a == BoundingBox_width Qops b /\ BoundingBox_height Qops a == BoundingBox_height Qops b /\
  BoundingBox_confidence Qops a == BoundingBox_confidence Qops b.
Definition ubox_Qeq (a b : Universal2DBox Qops) : Prop :=
  Universal2DBox_xc Qops a == Universal2DBox_xc Qops b /\ Universal2DBox_yc Qops a == Universal2DBox_yc Qops b /\
  Universal2DBox_angle Qops a = Universal2DBox_angle Qops b /\
  Universal2DBox_aspect Qops a == Universal2DBox_aspect Qops b /\ Universal2DBox_height Qops a == Universal2DBox_height Qops b /\
  Universal2DBox_confidence Qops a == Universal2DBox_confidence Qops b.

(* the universal form of a ltwh box is what the property text says: centre, aspect = w/h, height, no angle *)
Lemma bbox_to_ubox_spec b :
  let u := bbox_to_ubox Qops b in
  Universal2DBox_xc Qops u == BoundingBox_left Qops b + BoundingBox_width Qops b / 2 /\
  Universal2DBox_yc Qops u == BoundingBox_top Qops b + BoundingBox_height Qops b / 2 /\
  Universal2DBox_angle Qops u = None /\
  Universal2DBox_aspect Qops u == BoundingBox_width Qops b / BoundingBox_height Qops b /\
  Universal2DBox_height Qops u == BoundingBox_height Qops b /\
  Universal2DBox_confidence Qops u == BoundingBox_confidence Qops b.
Proof.
  unfold bbox_to_ubox. qops. cbn [Universal2DBox_xc Universal2DBox_yc Universal2DBox_angle Universal2DBox_aspect Universal2DBox_height Universal2DBox_confidence].
  rewrite !Qred_correct. repeat split; reflexivity.
Qed.

Lemma ltwh_roundtrip_lemma b :
  ~ BoundingBox_height Qops b == 0 ->
  exists b', ubox_to_bbox Qops (bbox_to_ubox Qops b) = Some b' /\ bbox_Qeq b' b.
Proof.
  intro Hh. unfold ubox_to_bbox, bbox_to_ubox. qops.
  cbn [Universal2DBox_xc Universal2DBox_yc Universal2DBox_angle Universal2DBox_aspect Universal2DBox_height Universal2DBox_confidence].
  eexists. split; [reflexivity|]. unfold bbox_Qeq.
  cbn [BoundingBox_left BoundingBox_top BoundingBox_width BoundingBox_height BoundingBox_confidence].
  rewrite !Qred_correct. repeat split; try reflexivity; field; exact Hh.
Qed.

Lemma xyaah_roundtrip_lemma u :
  Universal2DBox_angle Qops u = None -> ~ Universal2DBox_height Qops u == 0 ->
  exists b, ubox_to_bbox Qops u = Some b /\ ubox_Qeq (bbox_to_ubox Qops b) u.
Proof.
  intros Ha Hh. unfold ubox_to_bbox. rewrite Ha. qops. eexists. split; [reflexivity|].
  unfold ubox_Qeq, bbox_to_ubox. qops.
  cbn [BoundingBox_left BoundingBox_top BoundingBox_width BoundingBox_height BoundingBox_confidence
       Universal2DBox_xc Universal2DBox_yc Universal2DBox_angle Universal2DBox_aspect Universal2DBox_height Universal2DBox_confidence].
  rewrite !Qred_correct. repeat split; try reflexivity; try (symmetry; exact Ha); field; exact Hh.
Qed.

(* a rotated box has no ltwh form: the conversion refuses it *)
Lemma rotated_not_convertible_lemma u a : Universal2DBox_angle Qops u = Some a -> ubox_to_bbox Qops u = None.
Proof. intro Ha. unfold ubox_to_bbox. rewrite Ha. reflexivity. Qed.

(* ---- area, radius, polygon ----------------------------------------------------------------------------------- *)
Lemma ubox_area_spec u : ubox_area Qops u == Universal2DBox_aspect Qops u * Universal2DBox_height Qops u * Universal2DBox_height Qops u.
Proof. unfold ubox_area. qops. rewrite !Qred_correct. ring. Qed.

Lemma ubox_radius_sq_spec u :
  ubox_radius_sq Qops u == (Universal2DBox_aspect Qops u * Universal2DBox_height Qops u / 2) ^ 2 + (Universal2DBox_height Qops u / 2) ^ 2.
Proof. unfold ubox_radius_sq. qops. rewrite !Qred_correct. field. Qed.

(* corner k of the axis-aligned rectangle of the box's size, centred at the origin *)
Definition half_w (u : Universal2DBox Qops) : Q := Universal2DBox_aspect Qops u * Universal2DBox_height Qops u / 2.
Definition half_h (u : Universal2DBox Qops) : Q := Universal2DBox_height Qops u / 2.
Definition corners (u : Universal2DBox Qops) : list (Q * Q) :=
  [(- half_w u, half_h u); (half_w u, half_h u); (half_w u, - half_h u); (- half_w u, - half_h u)].
(* p rotated by the angle with cosine c and sine s, then moved to the centre *)
Definition rot_about (xc yc c s : Q) (p : Q * Q) : Q * Q := (xc + (c * fst p - s * snd p), yc + (s * fst p + c * snd p)).
Definition coord_is (v : Coord Qops) (p : Q * Q) : Prop := Coord_x Qops v == fst p /\ Coord_y Qops v == snd p.

Lemma polygon_is_rotated_rectangle_lemma u c s :
  Forall2 coord_is (ubox_vertices Qops u c s)
          (map (rot_about (Universal2DBox_xc Qops u) (Universal2DBox_yc Qops u) c s) (corners u)).
Proof.
  unfold ubox_vertices, corners, rot_about, half_w, half_h, coord_is. qops. cbn [map fst snd].
  repeat (constructor; try split); cbn [Coord_x Coord_y fst snd]; rewrite ?Qred_correct; field.
Qed.

(* twice the signed area of the closed ring through the points (shoelace formula) *)
Fixpoint shoelace_open (first : Coord Qops) (l : list (Coord Qops)) : Q :=
  match l with
  | [] => 0
  | [a] => Coord_x Qops a * Coord_y Qops first - Coord_x Qops first * Coord_y Qops a
  | a :: ((b :: _) as t) => (Coord_x Qops a * Coord_y Qops b - Coord_x Qops b * Coord_y Qops a) + shoelace_open first t
  end.
Definition shoelace2 (l : list (Coord Qops)) : Q := match l with [] => 0 | a :: _ => shoelace_open a l end.
Definition polygon_area_of (l : list (Coord Qops)) : Q := Qabs (shoelace2 l) / 2.

Lemma polygon_shoelace_lemma u c s : c * c + s * s == 1 ->
  shoelace2 (ubox_vertices Qops u c s) == - (2) * ubox_area Qops u.
Proof.
  intro Hcs. rewrite ubox_area_spec. unfold ubox_vertices, shoelace2, shoelace_open. qops. cbn [Coord_x Coord_y].
  rewrite !Qred_correct.
  set (a := Universal2DBox_aspect Qops u). set (h := Universal2DBox_height Qops u).
  set (x := Universal2DBox_xc Qops u). set (y := Universal2DBox_yc Qops u).
  transitivity (- (2) * (a * h * h) * (c * c + s * s)); [field | rewrite Hcs; ring].
Qed.

Lemma polygon_area_lemma u c s : c * c + s * s == 1 -> 0 <= Universal2DBox_aspect Qops u ->
  polygon_area_of (ubox_vertices Qops u c s) == ubox_area Qops u.
Proof.
  intros Hcs Ha. unfold polygon_area_of. rewrite (polygon_shoelace_lemma u c s Hcs).
  assert (H0 : 0 <= ubox_area Qops u).
  { rewrite ubox_area_spec. rewrite <- Qmult_assoc. apply Qmult_le_0_compat; [exact Ha|]. nra. }
  rewrite Qabs_neg by lra. field.
Qed.

Definition centroid (l : list (Coord Qops)) : Q * Q :=
  (fold_right (fun v acc => Coord_x Qops v + acc) 0 l / inject_Z (Z.of_nat (length l)),
   fold_right (fun v acc => Coord_y Qops v + acc) 0 l / inject_Z (Z.of_nat (length l))).

Lemma polygon_centre_lemma u c s :
  fst (centroid (ubox_vertices Qops u c s)) == Universal2DBox_xc Qops u /\
  snd (centroid (ubox_vertices Qops u c s)) == Universal2DBox_yc Qops u.
Proof.
  unfold centroid, ubox_vertices. qops. cbn [fold_right length fst snd Coord_x Coord_y Z.of_nat Pos.of_succ_nat Pos.succ].
  rewrite !Qred_correct. split; field.
Qed.

Definition dist_sq (v : Coord Qops) (xc yc : Q) : Q := (Coord_x Qops v - xc) ^ 2 + (Coord_y Qops v - yc) ^ 2.

Lemma polygon_radius_lemma u c s : c * c + s * s == 1 ->
  Forall (fun v => dist_sq v (Universal2DBox_xc Qops u) (Universal2DBox_yc Qops u) == ubox_radius_sq Qops u) (ubox_vertices Qops u c s).
Proof.
  intro Hcs. 
  assert (G : forall v hw hh sx sy, (sx * sx == 1) -> (sy * sy == 1) ->
            Coord_x Qops v == Universal2DBox_xc Qops u + (c * (sx * hw) - s * (sy * hh)) ->
            Coord_y Qops v == Universal2DBox_yc Qops u + (s * (sx * hw) + c * (sy * hh)) ->
            dist_sq v (Universal2DBox_xc Qops u) (Universal2DBox_yc Qops u) == (hw ^ 2 + hh ^ 2)).
  { intros v hw hh sx sy Hx Hy Ex Ey. unfold dist_sq. rewrite Ex, Ey.
    transitivity ((sx * sx) * hw ^ 2 * (c * c + s * s) + (sy * sy) * hh ^ 2 * (c * c + s * s)); [ring|].
    rewrite Hx, Hy, Hcs. ring. }
  unfold ubox_vertices. qops.
  repeat constructor; rewrite ubox_radius_sq_spec.
  - apply (G _ _ _ (-(1)) 1); [reflexivity | reflexivity | |]; cbn [Coord_x Coord_y]; rewrite ?Qred_correct; field.
  - apply (G _ _ _ 1 1); [reflexivity | reflexivity | |]; cbn [Coord_x Coord_y]; rewrite ?Qred_correct; field.
  - apply (G _ _ _ 1 (-(1))); [reflexivity | reflexivity | |]; cbn [Coord_x Coord_y]; rewrite ?Qred_correct; field.
  - apply (G _ _ _ (-(1)) (-(1))); [reflexivity | reflexivity | |]; cbn [Coord_x Coord_y]; rewrite ?Qred_correct; field.
Qed.

(* ---- angle normalisation ------------------------------------------------------------------------------------------ *)
(* [pi] is a parameter: any positive number (the statements do not depend on its value; the real pi is irrational) *)
Lemma floor_bounds (x : Q) : inject_Z (Qfloor x) <= x /\ x < inject_Z (Qfloor x) + 1.
Proof.
  split; [apply Qfloor_le|]. pose proof (Qlt_floor x) as H. rewrite inject_Z_plus in H. exact H.
Qed.

Lemma normalize_angle_spec a pi : 0 < pi ->
  let r := normalize_angle Qops a pi in
  (0 <= r /\ r < 2 * pi) /\ exists k : Z, r == a - inject_Z k * (2 * pi).
Proof.
  intro Hpi. unfold normalize_angle. qops.
  set (p := Qred (2 * pi)).
  assert (Hp : p == 2 * pi) by apply Qred_correct.
  assert (Hp0 : 0 < p) by lra.
  set (q := Qred (a / p)).
  assert (Hq : q * p == a). { unfold q. rewrite Qred_correct. field. lra. }
  destruct (floor_bounds q) as [F1 F2].
  set (n := Qfloor q) in *.
  set (a' := Qred (a - Qred (inject_Z n * p))).
  assert (Ha' : a' == a - inject_Z n * p). { unfold a'. rewrite !Qred_correct. reflexivity. }
  assert (L : 0 <= a'). { rewrite Ha', <- Hq. nra. }
  assert (U : a' < p). { rewrite Ha', <- Hq. nra. }
  destruct (Qltb a' 0) eqn:E.
  - apply Qltb_iff in E. lra.
  - split; [lra|]. exists n. rewrite Ha', Hp. reflexivity.
Qed.
