(* Lemmas about the TRANSLATED Kalman cost functions (gen/ScalarCost.v: Universal2DBoxKalmanFilter::calculate_cost,
   Point2DKalmanFilter::calculate_cost), over exact rationals. Used by Props/C07.v and by Proofs/GateProofs.v.
   All proofs go by case analysis on whatever comparisons the translated text contains (no syntactic matching of the
   function body), so rewrites of the Rust code that keep the meaning keep the proofs. The chi-square thresholds are
   the table entries [box_gate] = CHI2INV95[4] and [point_gate] = CHI2INV95[1] of the translated constant table;
   only "0 < gate < CHI2_UPPER_BOUND" is used about their values (checked by computation). *)
From Coq Require Import ZArith NArith QArith Bool List Lqa.
From Similari Require Import Base.Num.
From SimilariGen Require Import Consts Scalar ScalarCost.
Import ListNotations.
Open Scope Q_scope.

Module QTk.
Lemma Qltb_iff a b : Qltb a b = true <-> a < b.
Proof. unfold Qltb. rewrite negb_true_iff. split.
  - intro H. apply Qnot_le_lt. intro L. apply Qle_bool_iff in L. congruence.
  - intro H. destruct (Qle_bool b a) eqn:E; [|reflexivity]. apply Qle_bool_iff in E. exfalso. apply (Qlt_not_le _ _ H E). Qed.
Lemma Qltb_false_iff a b : Qltb a b = false <-> b <= a.
Proof. unfold Qltb. rewrite negb_false_iff. apply Qle_bool_iff. Qed.
Lemma Qleb_false_iff a b : Qle_bool a b = false <-> b < a.
Proof. rewrite <- Qltb_iff. unfold Qltb. rewrite negb_true_iff. tauto. Qed.
End QTk.
Import QTk.

Ltac qops := cbn [T zero one add sub mul div opp abs max min leb ltb floor of_Q Qops negb] in *.
(* case analysis on every comparison under an [if]; the outcomes become hypotheses in Prop *)
Ltac cases_if := repeat match goal with
  | |- context [if ?c then _ else _] =>
      let E := fresh "E" in destruct c eqn:E;
      [ first [apply Qltb_iff in E | apply Qle_bool_iff in E | idtac] | first [apply Qltb_false_iff in E | apply Qleb_false_iff in E | idtac] ]
  end.

(* the gate thresholds, as the translated code reads them *)
Definition box_gate : Q := nth (N.to_nat 4%N) (CHI2INV95_T Qops) 0.
Definition point_gate : Q := nth (N.to_nat 1%N) (CHI2INV95_T Qops) 0.

(* the gates lie strictly between 0 and the upper bound (computed on the translated constants) *)
Lemma box_gate_range : 0 < box_gate /\ box_gate < CHI2_UPPER_BOUND.
Proof. split; reflexivity. Qed.
Lemma point_gate_range : 0 < point_gate /\ point_gate < CHI2_UPPER_BOUND.
Proof. split; reflexivity. Qed.

(* abstract the table entries and the bound (so that lra sees atoms), keeping [range] *)
Ltac abstract_consts range :=
  pose proof range as R; unfold box_gate, point_gate in *; change (T Qops) with Q in *;
  repeat match goal with
  | |- context [@nth Q ?i (CHI2INV95_T Qops) ?z] => progress (generalize dependent (@nth Q i (CHI2INV95_T Qops) z); intros)
  | H : context [@nth Q ?i (CHI2INV95_T Qops) ?z] |- _ => progress (generalize dependent (@nth Q i (CHI2INV95_T Qops) z); intros)
  end;
  generalize dependent CHI2_UPPER_BOUND; intros.

(* for all d (in particular all d >= 0): inverted cost = CHI2_UPPER_BOUND - direct cost *)
Lemma cost_gate_consistent_box : forall d : Q, 0 <= d ->
  box_calculate_cost Qops d true == CHI2_UPPER_BOUND - box_calculate_cost Qops d false.
Proof.
  intros d _. unfold box_calculate_cost. qops. abstract_consts box_gate_range.
  cases_if; rewrite ?Qred_correct; first [ring | lra].
Qed.

Lemma cost_gate_consistent_point : forall d : Q, 0 <= d ->
  point_calculate_cost Qops d true == CHI2_UPPER_BOUND - point_calculate_cost Qops d false.
Proof.
  intros d _. unfold point_calculate_cost. qops. abstract_consts point_gate_range.
  cases_if; rewrite ?Qred_correct; first [ring | lra].
Qed.

(* the direct cost: d inside the gate, the upper bound outside *)
Lemma box_cost_direct_in_gate (d : Q) : d <= box_gate -> box_calculate_cost Qops d false == d.
Proof.
  intro H. unfold box_calculate_cost. qops. abstract_consts box_gate_range.
  cases_if; rewrite ?Qred_correct; first [reflexivity | lra].
Qed.
Lemma box_cost_direct_out_of_gate (d : Q) : box_gate < d -> box_calculate_cost Qops d false == CHI2_UPPER_BOUND.
Proof.
  intro H. unfold box_calculate_cost. qops. abstract_consts box_gate_range.
  cases_if; rewrite ?Qred_correct; first [reflexivity | lra].
Qed.
Lemma point_cost_direct_in_gate (d : Q) : d <= point_gate -> point_calculate_cost Qops d false == d.
Proof.
  intro H. unfold point_calculate_cost. qops. abstract_consts point_gate_range.
  cases_if; rewrite ?Qred_correct; first [reflexivity | lra].
Qed.
Lemma point_cost_direct_out_of_gate (d : Q) : point_gate < d -> point_calculate_cost Qops d false == CHI2_UPPER_BOUND.
Proof.
  intro H. unfold point_calculate_cost. qops. abstract_consts point_gate_range.
  cases_if; rewrite ?Qred_correct; first [reflexivity | lra].
Qed.

(* inside the gate the inverted cost is CHI2_UPPER_BOUND - d > 0, outside it is 0 *)
Lemma box_cost_inverted_in_gate (d : Q) : d <= box_gate ->
  box_calculate_cost Qops d true == CHI2_UPPER_BOUND - d /\ 0 < box_calculate_cost Qops d true.
Proof.
  intro H. unfold box_calculate_cost. qops. abstract_consts box_gate_range.
  cases_if; rewrite ?Qred_correct; split; first [reflexivity | lra].
Qed.
Lemma box_cost_inverted_out_of_gate (d : Q) : box_gate < d -> box_calculate_cost Qops d true == 0.
Proof.
  intro H. unfold box_calculate_cost. qops. abstract_consts box_gate_range.
  cases_if; rewrite ?Qred_correct; first [reflexivity | lra].
Qed.
Lemma box_cost_inverted_pos_iff (d : Q) : 0 < box_calculate_cost Qops d true <-> d <= box_gate.
Proof.
  split.
  - intro H. destruct (Qlt_le_dec box_gate d) as [G|G]; [|exact G]. rewrite (box_cost_inverted_out_of_gate d G) in H. lra.
  - intro H. apply box_cost_inverted_in_gate. exact H.
Qed.
Lemma point_cost_inverted_in_gate (d : Q) : d <= point_gate ->
  point_calculate_cost Qops d true == CHI2_UPPER_BOUND - d /\ 0 < point_calculate_cost Qops d true.
Proof.
  intro H. unfold point_calculate_cost. qops. abstract_consts point_gate_range.
  cases_if; rewrite ?Qred_correct; split; first [reflexivity | lra].
Qed.
Lemma point_cost_inverted_out_of_gate (d : Q) : point_gate < d -> point_calculate_cost Qops d true == 0.
Proof.
  intro H. unfold point_calculate_cost. qops. abstract_consts point_gate_range.
  cases_if; rewrite ?Qred_correct; first [reflexivity | lra].
Qed.
Lemma point_cost_inverted_pos_iff (d : Q) : 0 < point_calculate_cost Qops d true <-> d <= point_gate.
Proof.
  split.
  - intro H. destruct (Qlt_le_dec point_gate d) as [G|G]; [|exact G]. rewrite (point_cost_inverted_out_of_gate d G) in H. lra.
  - intro H. apply point_cost_inverted_in_gate. exact H.
Qed.

(* both costs stay in [0, CHI2_UPPER_BOUND] for d >= 0 *)
Lemma box_cost_range (d : Q) inv : 0 <= d -> 0 <= box_calculate_cost Qops d inv /\ box_calculate_cost Qops d inv <= CHI2_UPPER_BOUND.
Proof.
  intro H. unfold box_calculate_cost. destruct inv; qops; abstract_consts box_gate_range;
  cases_if; rewrite ?Qred_correct; split; lra.
Qed.
Lemma point_cost_range (d : Q) inv : 0 <= d -> 0 <= point_calculate_cost Qops d inv /\ point_calculate_cost Qops d inv <= CHI2_UPPER_BOUND.
Proof.
  intro H. unfold point_calculate_cost. destruct inv; qops; abstract_consts point_gate_range;
  cases_if; rewrite ?Qred_correct; split; lra.
Qed.
