(* Model of the per-track appearance gallery and of the per-track histories (C13).

   Mirrors, step by step:
     src/trackers/visual_sort/metric.rs          VisualMetric::optimize, optimize_observations, feature_can_be_used
     src/trackers/visual_sort/track_attributes.rs VisualAttributes::update_history, SortTrack / WastedVisualSortTrack echo
     src/trackers/sort.rs                         SortAttributes::update_history
     src/track.rs                                 Track::add_observation / Track::merge (push the new observation at the
                                                  end of the class vector, then call optimize)

   Hand-written; tied to the code by the exact correspondence in tools/props/c13.py (harness bin `visual`).
   A stored observation is (quality, feature present?, uid); boxes and feature vectors are opaque tokens named by the
   uid of the detection they came from.  Qualities, areas and own-area shares are the exact rationals of the f32
   values.  NaN qualities are outside the model (the code panics on them in `partial_cmp().unwrap()`). *)
From Coq Require Import List NArith QArith Bool Arith.
From Similari Require Base.Num.
From SimilariGen Require Scalar ScalarBox ScalarVisual.
Import ListNotations.
Local Open Scope nat_scope.

(* ---- detections as the gallery sees them ------------------------------------------------------------------ *)
Record det := mkDet {
  d_uid  : N;          (* names the observed box, the predicted box and the feature vector of this detection *)
  d_q    : Q;          (* feature quality (feature_quality.unwrap_or(1.0)) *)
  d_feat : bool;       (* a feature vector was supplied *)
  d_area : Q;          (* area of the box the metric sees for this detection *)
  d_own  : option Q    (* exclusively-owned area share, when the tracker computes it *)
}.

Record gentry := mkG { g_q : Q; g_feat : bool; g_uid : N }.
Definition gallery := list gentry.

Record gopts := mkGopts {
  o_max_obs     : nat;   (* visual_max_observations *)
  o_hist        : nat;   (* history_length (0 = unbounded, as the code has it) *)
  o_min_area    : Q;     (* visual_minimal_area *)
  o_q_collect   : Q;     (* visual_minimal_quality_collect *)
  o_own_collect : Q      (* visual_minimal_own_area_percentage_collect *)
}.

(* feature_can_be_used is the TRANSLATED Rust predicate (gen/ScalarVisual.v, regenerated from
   src/trackers/visual_sort/metric.rs on every run) instantiated at exact rationals.  The translated text takes the box;
   the model knows the box through its area (an oracle fact), so it passes a box of aspect = area and height = 1, whose
   translated area is the given one (VisualAttrsProofs.box_of_area_area). *)
Definition box_of_area (a : Q) : Scalar.Universal2DBox Num.Qops :=
  Scalar.Build_Universal2DBox Num.Qops 0%Q 0%Q None a 1%Q 1%Q.

Definition feature_can_be_used (min_area : Q) (area q min_q : Q) (own : option Q) (min_own : Q) : bool :=
  ScalarVisual.visual_feature_can_be_used Num.Qops (Some (box_of_area area)) q min_q own min_own min_area.

Definition can_collect (o : gopts) (d : det) : bool :=
  feature_can_be_used (o_min_area o) (d_area d) (d_q d) (o_q_collect o) (d_own d) (o_own_collect o).

(* ---- histories: push_back x3, then pop_front x3 when history_length > 0 && observed_boxes.len() > history_length -- *)
Definition push_hist {A} (h : nat) (len_after_push : nat) (l : list A) (x : A) : list A :=
  let l' := l ++ [x] in
  if (0 <? h) && (h <? len_after_push) then tl l' else l'.

Record vattrs := mkAttrs {
  a_obs  : list N;            (* observed_boxes   (uids, oldest first) *)
  a_pred : list N;            (* predicted_boxes *)
  a_feat : list (N * bool);   (* observed_features: uid and whether the pushed Option<Feature> was Some *)
  a_len  : nat;               (* track_length *)
  a_collected : nat           (* visual_features_collected_count *)
}.

Definition attrs0 : vattrs := mkAttrs [] [] [] 0 0.

(* VisualAttributes::update_history: the pop condition looks at observed_boxes only; all three queues are popped. *)
Definition update_history (h : nat) (a : vattrs) (d : det) : vattrs :=
  let n := S (length (a_obs a)) in
  mkAttrs (push_hist h n (a_obs a) (d_uid d))
          (push_hist h n (a_pred a) (d_uid d))
          (push_hist h n (a_feat a) (d_uid d, d_feat d))
          (S (a_len a))
          (a_collected a).

(* SortAttributes::update_history (two queues). *)
Record sattrs := mkSAttrs { sa_obs : list N; sa_pred : list N; sa_len : nat }.
Definition sattrs0 : sattrs := mkSAttrs [] [] 0.
Definition sort_update_history (h : nat) (a : sattrs) (uid : N) : sattrs :=
  let n := S (length (sa_obs a)) in
  mkSAttrs (push_hist h n (sa_obs a) uid) (push_hist h n (sa_pred a) uid) (S (sa_len a)).

(* ---- optimize_observations -------------------------------------------------------------------------------- *)
(* Vec::sort_by(|e1,e2| e2.quality.partial_cmp(e1.quality)) is a stable sort, descending in quality: insertion from the
   right, an element goes before the first element whose quality is not greater (so equal ones keep their order). *)
Fixpoint insert_desc (e : gentry) (l : gallery) : gallery :=
  match l with
  | [] => [e]
  | x :: xs => if Qle_bool (g_q x) (g_q e) then e :: l else x :: insert_desc e xs
  end.
Definition sort_desc (l : gallery) : gallery := fold_right insert_desc [] l.

(* retain(feature.is_some()); drop old boxes (not modelled: boxes of stored entries are not observable through uids);
   sort; if len >= max { truncate(len - 1) } - the comparison and the new length are the TRANSLATED ones
   (ScalarVisual.visual_truncate_cmp / visual_truncate_len). *)
Definition optimize_observations (max_obs : nat) (g : gallery) : gallery :=
  let g1 := filter g_feat g in
  let g2 := sort_desc g1 in
  let len := N.of_nat (length g2) in
  if ScalarVisual.visual_truncate_cmp Num.Qops len (N.of_nat max_obs)
  then firstn (N.to_nat (ScalarVisual.visual_truncate_len Num.Qops len)) g2
  else g2.

(* observations.push(newest); observations.swap(0, len-1) *)
Definition push_swap (g : gallery) (e : gentry) : gallery :=
  match g with
  | [] => [e]
  | x :: xs => e :: xs ++ [x]
  end.

Definition count_feat (g : gallery) : nat := length (filter g_feat g).

(* VisualMetric::optimize.  [g] is the class vector after `pop()` of the newest observation, [d] the popped one.
   is_merge = true when the observation arrives through Track::merge (a detection that continues a track in the
   trackers), false through Track::add_observation / the track builder (the first detection of a track). *)
Definition optimize (o : gopts) (is_merge : bool) (a : vattrs) (g : gallery) (d : det) : vattrs * gallery :=
  let a1 := update_history (o_hist o) a d in
  let keep := negb (is_merge && negb (can_collect o d)) in
  let e := mkG (d_q d) (d_feat d && keep) (d_uid d) in
  let g1 := optimize_observations (o_max_obs o) g in
  let g2 := push_swap g1 e in
  (mkAttrs (a_obs a1) (a_pred a1) (a_feat a1) (a_len a1) (count_feat g2), g2).

(* ---- a track's life: a list of (is_merge, detection) --------------------------------------------------------- *)
Record vtrack := mkTrack { t_attrs : vattrs; t_gal : gallery }.
Definition track0 : vtrack := mkTrack attrs0 [].

Definition track_step (o : gopts) (t : vtrack) (md : bool * det) : vtrack :=
  let '(a, g) := optimize o (fst md) (t_attrs t) (t_gal t) (snd md) in mkTrack a g.

Definition track_run (o : gopts) (steps : list (bool * det)) : vtrack := fold_left (track_step o) steps track0.

(* What the trackers do: the first detection builds the track (is_merge = false), every later one is merged in. *)
Definition tracker_steps (ds : list det) : list (bool * det) :=
  match ds with
  | [] => []
  | d :: rest => (false, d) :: map (fun x => (true, x)) rest
  end.

(* SortTrack::from(track) / WastedVisualSortTrack::from(track): what the record echoes. *)
Record vrecord := mkRec { r_observed : option N; r_predicted : option N; r_length : nat }.
Definition record_of (a : vattrs) : vrecord := mkRec (last (map Some (a_obs a)) None) (last (map Some (a_pred a)) None) (a_len a).

Definition sort_run (h : nat) (uids : list N) : sattrs := fold_left (sort_update_history h) uids sattrs0.

(* ---- specification vocabulary ------------------------------------------------------------------------------- *)
(* the last k elements of a list, in order *)
Definition lastn {A} (k : nat) (l : list A) : list A := skipn (length l - k) l.
(* history_length 0 means "keep everything" in the code *)
Definition kept (h n : nat) : nat := if (0 <? h) then Nat.min n h else n.

(* ---- executable entry points for the correspondence (print N / Q / bool only) -------------------------------- *)
(* qualities are printed as numerator / denominator (Coq's number notations for Q print some of them in decimal or hex) *)
Definition dump_q (q : Q) : Z * Z := (Qnum q, Zpos (Qden q)).
Definition dump_gallery (g : gallery) : list ((Z * Z) * bool * N) := map (fun e => (dump_q (g_q e), g_feat e, g_uid e)) g.
Definition dump_track (t : vtrack) :=
  (dump_gallery (t_gal t), N.of_nat (a_collected (t_attrs t)), N.of_nat (a_len (t_attrs t)),
   a_obs (t_attrs t), a_pred (t_attrs t), a_feat (t_attrs t)).

(* all intermediate states of a life *)
Fixpoint trace_from (o : gopts) (t : vtrack) (steps : list (bool * det)) :=
  match steps with
  | [] => []
  | s :: rest => let t' := track_step o t s in dump_track t' :: trace_from o t' rest
  end.
Definition run_trace (o : gopts) (steps : list (bool * det)) := trace_from o track0 steps.

Fixpoint sort_trace_from (h : nat) (a : sattrs) (uids : list N) :=
  match uids with
  | [] => []
  | u :: rest => let a' := sort_update_history h a u in (sa_obs a', sa_pred a', N.of_nat (sa_len a')) :: sort_trace_from h a' rest
  end.
Definition sort_trace (h : nat) (uids : list N) := sort_trace_from h sattrs0 uids.
