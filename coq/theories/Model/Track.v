(* Model of the generic track: /repo/src/track.rs (Track::new, add_observation, merge, distances, lookup)
   and /repo/src/track/builder.rs (TrackBuilder::build).  Properties C11, C09 (and the base of C05/C10).

   Hand-written; tied to the code by the exhaustive fault enumeration / operation-sequence correspondence of
   tools/props/c11.py and tools/props/c09.py (harness binary `trackstore`).

   User callbacks (DESIGN.md 2.4) are Section variables.  A callback that takes `&mut` state returns the
   (possibly partially mutated) state TOGETHER with an ok flag, so "apply / merge / optimize mutated the
   attributes, the observation vector and the metric and then failed" is a value of the model.  In addition
   every mutating callback threads a world [W]: whatever the callbacks share behind the track's back
   (an Arc<Mutex<..>>, a global counter, a fail plan); the world is never rolled back.  Theorems are stated for
   ALL callbacks and ALL worlds, hence for every fault position.

   `HashMap<u64, _>` is modelled as an association list; the ORDER of the list stands for the (unspecified)
   iteration order of the hash map, so nothing below depends on it and the correspondence canonicalises by
   sorting on the key. *)
From Coq Require Import List NArith Bool Arith Lia.
Import ListNotations.

(* ------------------------------------------------------------------------------------------------ *)
(* Association lists keyed by N                                                                       *)

Section Assoc.
  Context {A : Type}.

  Fixpoint alookup (k : N) (l : list (N * A)) : option A :=
    match l with
    | [] => None
    | (k', v) :: r => if (k' =? k)%N then Some v else alookup k r
    end.

  (* HashMap::remove *)
  Definition aremove (k : N) (l : list (N * A)) : list (N * A) :=
    filter (fun p => negb (fst p =? k)%N) l.

  (* HashMap::insert (also: writing through get_mut) *)
  Definition aset (k : N) (v : A) (l : list (N * A)) : list (N * A) := (k, v) :: aremove k l.

  Definition ahas (k : N) (l : list (N * A)) : bool :=
    match alookup k l with Some _ => true | None => false end.

  Definition akeys (l : list (N * A)) : list N := map fst l.
End Assoc.

Definition is_none {A} (o : option A) : bool := match o with None => true | Some _ => false end.

(* ------------------------------------------------------------------------------------------------ *)
(* Errors and results                                                                                 *)

Inductive err :=
| EApply                 (* TrackAttributesUpdate::apply failed *)
| EAttrMerge             (* TrackAttributes::merge failed *)
| EOptimize              (* ObservationMetric::optimize failed *)
| EDuplicate (id : N)    (* Errors::DuplicateTrackId *)
| ENotFound (id : N)     (* Errors::TrackNotFound *)
| ESameTrack (id : N).   (* Errors::SameTrackCalculation *)

Inductive result (A : Type) := Ok (a : A) | Err (e : err).
Arguments Ok {A} a.
Arguments Err {A} e.

Definition is_ok {A} (r : result A) : bool := match r with Ok _ => true | Err _ => false end.

Inductive dist_result (D : Type) := DOk (l : list D) | DIncompatible | DClassMissing.
Arguments DOk {D} l.
Arguments DIncompatible {D}.
Arguments DClassMissing {D}.

(* ------------------------------------------------------------------------------------------------ *)

Section Track.
  Variables TA UPD OA FT MS W : Type.

  (* Observation<OA>(Option<OA>, Option<Feature>) *)
  Definition observation := (option OA * option FT)%type.
  Definition obsdb := list (N * list observation).

  Record track := mkTrack {
    attrs  : TA;           (* attributes *)
    tid    : N;            (* track_id *)
    obs    : obsdb;        (* observations: HashMap<u64, Vec<Observation>> *)
    mstate : MS;           (* metric *)
    hist   : list N        (* merge_history *)
  }.
  (* the notifier is not part of the state: every `self.notifier.send(..)` is counted in the returned nat *)

  Definition set_attrs (t : track) (a : TA) := mkTrack a (tid t) (obs t) (mstate t) (hist t).
  Definition set_obs (t : track) (o : obsdb) := mkTrack (attrs t) (tid t) o (mstate t) (hist t).
  Definition set_mstate (t : track) (m : MS) := mkTrack (attrs t) (tid t) (obs t) m (hist t).
  Definition set_hist (t : track) (h : list N) := mkTrack (attrs t) (tid t) (obs t) (mstate t) h.

  (* update.apply(&mut attrs) *)
  Variable cb_apply : W -> UPD -> TA -> W * bool * TA.
  (* self.attributes.merge(&other.attributes) *)
  Variable cb_merge : W -> TA -> TA -> W * bool * TA.
  (* self.metric.optimize(class, &merge_history, &mut attributes, &mut observations, prev_length, is_merge) *)
  Variable cb_optimize :
    W -> MS -> N -> list N -> TA -> list observation -> nat -> bool -> W * bool * MS * TA * list observation.

  (* Track::new: merge_history = [track_id]; one notification *)
  Definition new_track (id : N) (m : MS) (a : TA) : track * nat := (mkTrack a id [] m [id], 1%nat).

  Definition feature_classes (t : track) : list N := akeys (obs t).

  (* ---------------------------------------------------------------------------------------------- *)
  (* Track::add_observation, in the code's own snapshot / restore shape                               *)

  Definition add_observation (w : W) (self : track) (cls : N) (fa : option OA) (f : option FT)
             (upd : option UPD) : W * result unit * track * nat :=
    let last_attributes := attrs self in
    let last_observations := obs self in
    let last_metric := mstate self in
    let '(w1, upd_ok, self1) :=
      match upd with
      | Some u => let '(w', ok, a') := cb_apply w u (attrs self) in (w', ok, set_attrs self a')
      | None => (w, true, self)
      end in
    if negb upd_ok then
      (* self.attributes = last_attributes; res? *)
      (w1, Err EApply, set_attrs self1 last_attributes, 0%nat)
    else if is_none f && is_none fa then
      (* notifier.send; return Ok(()) *)
      (w1, Ok tt, self1, 1%nat)
    else
      (* push into (or create) the class vector *)
      let v := match alookup cls (obs self1) with
               | None => [(fa, f)]
               | Some v0 => v0 ++ [(fa, f)]
               end in
      let prev_length := (length v - 1)%nat in
      let '(w2, ok, ms', a', v') :=
        cb_optimize w1 (mstate self1) cls (hist self1) (attrs self1) v prev_length false in
      let self2 := set_mstate (set_attrs (set_obs self1 (aset cls v' (obs self1))) a') ms' in
      if negb ok then
        (* self.attributes = last_attributes; self.observations = last_observations; self.metric = last_metric *)
        (w2, Err EOptimize,
         set_mstate (set_obs (set_attrs self2 last_attributes) last_observations) last_metric, 0%nat)
      else
        (w2, Ok tt, self2, 1%nat).

  (* ---------------------------------------------------------------------------------------------- *)
  (* Track::merge                                                                                     *)

  (* the body of `for cls in classes { .. }` followed by the epilogue *)
  Fixpoint merge_loop (w : W) (self other : track) (classes : list N) (new_merge_history : list N)
           (last_attributes : TA) (last_observations : obsdb) (last_metric : MS) (merged_any_class : bool)
    : W * result unit * track * nat :=
    match classes with
    | [] =>
        (* if merged_any_class { self.merge_history = new_merge_history }; notifier.send; Ok(()) *)
        ((w, Ok tt, if merged_any_class then set_hist self new_merge_history else self), 1%nat)
    | cls :: rest =>
        let step :=   (* Some (observations after extend/insert, prev_length) *)
          match alookup cls (obs self), alookup cls (obs other) with
          | Some dest_observations, Some src_observations =>
              Some (aset cls (dest_observations ++ src_observations) (obs self), length dest_observations)
          | None, Some src_observations =>
              Some (aset cls src_observations (obs self), 0%nat)
          | Some dest_observations, None =>
              Some (obs self, length dest_observations)
          | None, None => None
          end in
        match step with
        | None => merge_loop w self other rest new_merge_history last_attributes last_observations
                             last_metric merged_any_class
        | Some (obs1, prev_length) =>
            let v := match alookup cls obs1 with Some v => v | None => [] end in   (* get_mut(cls).unwrap() *)
            let '(w1, ok, ms', a', v') :=
              cb_optimize w (mstate self) cls new_merge_history (attrs self) v prev_length true in
            let self1 := set_mstate (set_attrs (set_obs self (aset cls v' obs1)) a') ms' in
            if negb ok then
              (w1, Err EOptimize,
               set_mstate (set_obs (set_attrs self1 last_attributes) last_observations) last_metric, 0%nat)
            else
              merge_loop w1 self1 other rest new_merge_history last_attributes last_observations
                         last_metric true
        end
    end.

  Definition merge (w : W) (self other : track) (classes : list N) (merge_history : bool)
    : W * result unit * track * nat :=
    let last_attributes := attrs self in
    let '(w1, ok, a') := cb_merge w (attrs self) (attrs other) in
    let self1 := set_attrs self a' in
    if negb ok then
      (w1, Err EAttrMerge, set_attrs self1 last_attributes, 0%nat)
    else
      let last_observations := obs self1 in
      let last_metric := mstate self1 in
      let new_merge_history := if merge_history then hist self1 ++ hist other else hist self1 in
      merge_loop w1 self1 other classes new_merge_history last_attributes last_observations last_metric false.

  (* ---------------------------------------------------------------------------------------------- *)
  (* TrackBuilder::build: Track::new, then add_observation for every queued observation, `?` on error *)

  Definition obs_spec := (N * option OA * option FT * option UPD)%type.

  Fixpoint build_obs (w : W) (t : track) (l : list obs_spec) : W * result track * nat :=
    match l with
    | [] => (w, Ok t, 0%nat)
    | (cls, fa, f, upd) :: r =>
        let '(w1, res, t1, n1) := add_observation w t cls fa f upd in
        match res with
        | Err e => (w1, Err e, n1)
        | Ok _ => let '(w2, res2, n2) := build_obs w1 t1 r in (w2, res2, (n1 + n2)%nat)
        end
    end.

  Definition build (w : W) (id : N) (m : MS) (a : TA) (l : list obs_spec) : W * result track * nat :=
    let (t, n0) := new_track id m a in
    let '(w1, res, n) := build_obs w t l in
    (w1, res, (n0 + n)%nat).

  (* ---------------------------------------------------------------------------------------------- *)
  (* Track::distances and Track::lookup (read-only callbacks: pure)                                   *)

  Variable MOUT : Type.
  Variable cb_compatible : TA -> TA -> bool.
  (* metric(&self, MetricQuery{feature_class, candidate_attrs, candidate_observation, track_attrs, track_observation}) *)
  Variable cb_metric : MS -> N -> TA -> observation -> TA -> observation -> option MOUT.

  Definition distances (self other : track) (cls : N) : dist_result (N * N * MOUT) :=
    if negb (cb_compatible (attrs self) (attrs other)) then DIncompatible
    else match alookup cls (obs self), alookup cls (obs other) with
         | Some lobs, Some robs =>
             DOk (flat_map (fun l =>
                    flat_map (fun r =>
                      match cb_metric (mstate self) cls (attrs self) l (attrs other) r with
                      | Some m => [(tid self, tid other, m)]
                      | None => []
                      end) robs) lobs)
         | _, _ => DClassMissing
         end.

  Variable LQ : Type.
  Variable cb_lookup : LQ -> TA -> obsdb -> list N -> bool.
  Definition track_lookup (q : LQ) (t : track) : bool := cb_lookup q (attrs t) (obs t) (hist t).

  (* ---------------------------------------------------------------------------------------------- *)
  (* A little register machine over the track API itself (execution only: C11 fault enumeration on     *)
  (* Track::add_observation / Track::merge called directly, not through the store).                    *)

  Inductive top :=
  | TNew (r : N) (id : N)                                           (* TrackBuilder::new(id)..build() *)
  | TAdd (r : N) (cls : N) (fa : option OA) (f : option FT) (u : option UPD)
  | TMerge (rd rs : N) (classes : list N) (mh : bool).

  (* result, notifications, the register written (dest) after the op *)
  Definition tout := (option (result unit) * nat * option track)%type.

  Variable dflt_metric : MS.
  Variable dflt_attrs : TA.

  Definition tstep (w : W) (regs : list (N * track)) (o : top) : W * tout * list (N * track) :=
    match o with
    | TNew r id =>
        let (t, n) := new_track id dflt_metric dflt_attrs in
        (w, (Some (Ok tt), n, Some t), aset r t regs)
    | TAdd r cls fa f u =>
        match alookup r regs with
        | None => (w, (None, 0%nat, None), regs)
        | Some t => let '(w1, res, t1, n) := add_observation w t cls fa f u in
                    (w1, (Some res, n, Some t1), aset r t1 regs)
        end
    | TMerge rd rs classes mh =>
        match alookup rd regs, alookup rs regs with
        | Some d, Some s => let '(w1, res, d1, n) := merge w d s classes mh in
                            (w1, (Some res, n, Some d1), aset rd d1 regs)
        | _, _ => (w, (None, 0%nat, None), regs)
        end
    end.

  Fixpoint trun (w : W) (regs : list (N * track)) (ops : list top) : list tout :=
    match ops with
    | [] => []
    | o :: r => let '(w1, out, regs1) := tstep w regs o in out :: trun w1 regs1 r
    end.
End Track.

Arguments mkTrack {TA OA FT MS}.
Arguments attrs {TA OA FT MS}.
Arguments tid {TA OA FT MS}.
Arguments obs {TA OA FT MS}.
Arguments mstate {TA OA FT MS}.
Arguments hist {TA OA FT MS}.
Arguments set_attrs {TA OA FT MS}.
Arguments set_obs {TA OA FT MS}.
Arguments set_mstate {TA OA FT MS}.
Arguments set_hist {TA OA FT MS}.
Arguments new_track {TA OA FT MS}.
Arguments feature_classes {TA OA FT MS}.
Arguments add_observation {TA UPD OA FT MS W}.
Arguments merge_loop {TA OA FT MS W}.
Arguments merge {TA OA FT MS W}.
Arguments build_obs {TA UPD OA FT MS W}.
Arguments build {TA UPD OA FT MS W}.
Arguments distances {TA OA FT MS MOUT}.
Arguments track_lookup {TA OA FT MS LQ}.
Arguments TNew {UPD OA FT}.
Arguments TAdd {UPD OA FT}.
Arguments TMerge {UPD OA FT}.
Arguments tstep {TA UPD OA FT MS W}.
Arguments trun {TA UPD OA FT MS W}.
