(* Model of the packed feature representation and of the feature distances (C16).
   Anchors: src/track/utils.rs (FromVec, both directions), src/distance.rs (euclidean, cosine),
   src/track.rs (Feature = Vec<f32x8>, FEATURE_LANES_SIZE = 8).
   Hand-written; tied to the code by tools/props/c16.py: packing and unpacking are compared EXACTLY (bit patterns,
   the model instantiated at A := N), the distances against this model over exact rationals (Qops). *)
From Coq Require Import List Arith NArith ZArith QArith Bool Reals Qreals.
From Similari Require Import Base.Num.
From SimilariGen Require Import Consts.
Import ListNotations.
Close Scope Q_scope.
Close Scope R_scope.

(* ------------------------------------------------------------------------------------------------ *)
(* Packing.  Polymorphic in the carrier: only a zero is needed, no arithmetic happens.

   impl FromVec<&Vec<f32>, Feature> for Feature {
       fn from_vec(vec: &Vec<f32>) -> Feature {
           let mut feature = Feature::with_capacity(..);
           let mut acc: [f32; FEATURE_LANES_SIZE] = [0.0; FEATURE_LANES_SIZE];
           let mut part = 0;
           for (counter, i) in vec.iter().enumerate() {
               part = counter % FEATURE_LANES_SIZE;
               if part == 0 { acc = [0.0; FEATURE_LANES_SIZE]; }
               acc[part] = *i;
               if part == FEATURE_LANES_SIZE - 1 { feature.push(f32x8::new(acc)); part = FEATURE_LANES_SIZE; }
           }
           if part < FEATURE_LANES_SIZE { feature.push(f32x8::new(acc)); }
           feature
       } }
   impl FromVec<&Feature, Vec<f32>> for Vec<f32> {
       fn from_vec(vec: &Feature) -> Vec<f32> { for e in vec { res.extend_from_slice(e.as_array_ref()); } res } }  *)

(* FEATURE_LANES_SIZE of src/track.rs, translated on every run (gen/Consts.v).  The block type below is an 8-tuple:
   Props/C16.v proves `lanes_is_eight : FEATURE_LANES_SIZE = 8%N`, which stops compiling if the constant changes. *)
Definition LANES : nat := N.to_nat FEATURE_LANES_SIZE.

Section Pack.
  Variable A : Type.
  Variable z : A.                (* 0.0 *)

  Definition block8 : Type := (A * A * A * A * A * A * A * A)%type.     (* f32x8 *)

  Definition zero_block : block8 := (z, z, z, z, z, z, z, z).

  (* acc[part] = x   (part = counter % 8 is always in range; an out-of-range index would panic in Rust) *)
  Definition set_lane (p : nat) (x : A) (b : block8) : block8 :=
    let '(a0, a1, a2, a3, a4, a5, a6, a7) := b in
    match p with
    | 0 => (x, a1, a2, a3, a4, a5, a6, a7)
    | 1 => (a0, x, a2, a3, a4, a5, a6, a7)
    | 2 => (a0, a1, x, a3, a4, a5, a6, a7)
    | 3 => (a0, a1, a2, x, a4, a5, a6, a7)
    | 4 => (a0, a1, a2, a3, x, a5, a6, a7)
    | 5 => (a0, a1, a2, a3, a4, x, a6, a7)
    | 6 => (a0, a1, a2, a3, a4, a5, x, a7)
    | 7 => (a0, a1, a2, a3, a4, a5, a6, x)
    | _ => b
    end.

  (* as_array_ref: lane order *)
  Definition lanes (b : block8) : list A :=
    let '(a0, a1, a2, a3, a4, a5, a6, a7) := b in [a0; a1; a2; a3; a4; a5; a6; a7].

  Record pstate := { acc : block8; part : nat; feature : list block8 }.

  Definition pack_step (s : pstate) (counter : nat) (x : A) : pstate :=
    let part := counter mod LANES in
    let acc := if part =? 0 then zero_block else acc s in
    let acc := set_lane part x acc in
    if part =? LANES - 1
    then {| acc := acc; part := LANES; feature := feature s ++ [acc] |}
    else {| acc := acc; part := part; feature := feature s |}.

  Fixpoint pack_loop (v : list A) (counter : nat) (s : pstate) : pstate :=
    match v with
    | [] => s
    | x :: r => pack_loop r (S counter) (pack_step s counter x)
    end.

  Definition pack_finish (s : pstate) : list block8 :=
    if part s <? LANES then feature s ++ [acc s] else feature s.

  Definition pack (v : list A) : list block8 :=
    pack_finish (pack_loop v 0 {| acc := zero_block; part := 0; feature := [] |}).

  Definition unpack (f : list block8) : list A := flat_map lanes f.
End Pack.

Arguments acc {A}. Arguments part {A}. Arguments feature {A}.

(* ------------------------------------------------------------------------------------------------ *)
(* Distances on packed features, parametric in the arithmetic (Qops for theorems and exact runs).

   pub fn euclidean(f1: &Feature, f2: &Feature) -> f32 {
       let mut acc = 0.0;
       for i in 0..f1.len().min(f2.len()) {
           let mut block1 = f1[i]; let block2 = &f2[i];
           block1.sub_assign(block2); block1.mul_assign(block1); acc += block1.reduce_add(); }
       acc.sqrt() }
   pub fn cosine(f1: &Feature, f2: &Feature) -> f32 {
       let mut divided = 0.0; let len = f1.len().min(f2.len());
       for i in 0..len { let mut block1 = f1[i]; let block2 = &f2[i]; block1.mul_assign(block2); divided += block1.reduce_add(); }
       let f1_divisor = f1.iter().take(len).fold(0.0_f32, |acc, a| acc + a.mul(a).reduce_add());
       let f2_divisor = f2.iter().take(len).fold(0.0_f32, |acc, a| acc + a.mul(a).reduce_add());
       divided / (f1_divisor.sqrt() * f2_divisor.sqrt()) }                                                          *)

Section Dist.
  Variable O : NumOps.
  Local Notation T := (T O).
  Local Notation blk := (block8 T).

  Definition bmap2 (g : T -> T -> T) (b1 b2 : blk) : blk :=
    let '(a0, a1, a2, a3, a4, a5, a6, a7) := b1 in
    let '(c0, c1, c2, c3, c4, c5, c6, c7) := b2 in
    (g a0 c0, g a1 c1, g a2 c2, g a3 c3, g a4 c4, g a5 c5, g a6 c6, g a7 c7).

  Definition bsub : blk -> blk -> blk := bmap2 (sub O).
  Definition bmul : blk -> blk -> blk := bmap2 (mul O).

  (* horizontal sum of the eight lanes (the association order of `wide` is not specified; exact arithmetic
     does not see it) *)
  Definition reduce_add (b : blk) : T :=
    let '(a0, a1, a2, a3, a4, a5, a6, a7) := b in
    add O (add O (add O (add O (add O (add O (add O a0 a1) a2) a3) a4) a5) a6) a7.

  Definition common_len (f1 f2 : list blk) : nat := Nat.min (length f1) (length f2).

  (* the accumulator of `euclidean` before the final sqrt *)
  Definition sqdist (f1 f2 : list blk) : T :=
    let len := common_len f1 f2 in
    fold_left (fun acc p => let d := bsub (fst p) (snd p) in add O acc (reduce_add (bmul d d)))
              (combine (firstn len f1) (firstn len f2)) (zero O).

  (* `divided` of `cosine` *)
  Definition dot (f1 f2 : list blk) : T :=
    let len := common_len f1 f2 in
    fold_left (fun acc p => add O acc (reduce_add (bmul (fst p) (snd p))))
              (combine (firstn len f1) (firstn len f2)) (zero O).

  (* `f1_divisor` / `f2_divisor` of `cosine`: the squared norm of the first len blocks *)
  Definition norm2 (len : nat) (f : list blk) : T :=
    fold_left (fun acc a => add O acc (reduce_add (bmul a a))) (firstn len f) (zero O).
End Dist.

(* ------------------------------------------------------------------------------------------------ *)
(* Executable entry points for the correspondence check. *)

(* packing on bit patterns: +0.0 is the pattern 0 *)
Definition block_to_list {A : Type} (b : block8 A) : list A := lanes A b.

Definition run_pack (v : list N) : list (list N) * list N :=
  let f := pack N 0%N v in (map block_to_list f, unpack N f).

(* exact (sqdist, dot, norm2 of the first, norm2 of the second) of the packed forms of two rational vectors *)
Definition run_dist (u v : list Q) : Q * Q * Q * Q :=
  let f1 := pack Q 0%Q u in
  let f2 := pack Q 0%Q v in
  let len := common_len Qops f1 f2 in
  (sqdist Qops f1 f2, dot Qops f1 f2, norm2 Qops len f1, norm2 Qops len f2).

(* ------------------------------------------------------------------------------------------------ *)
(* The real-number reading, for the statements that need sqrt (not executable; theorems only). *)

Definition Rops : NumOps := {|
  T := R; zero := 0%R; one := 1%R;
  add := Rplus; sub := Rminus; mul := Rmult; div := Rdiv; opp := Ropp; abs := Rabs;
  max := Rmax; min := Rmin;
  leb := fun a b => if Rle_dec a b then true else false;
  ltb := fun a b => if Rlt_dec a b then true else false;
  floor := fun a => IZR (Int_part a);
  of_Q := Q2R
|}.

(* euclidean = sqrt of the accumulator *)
Definition euclid (f1 f2 : list (block8 R)) : R := sqrt (sqdist Rops f1 f2).

(* cosine = divided / (f1_divisor.sqrt() * f2_divisor.sqrt())   (the norms are multiplied, not the squared norms) *)
Definition cosine (f1 f2 : list (block8 R)) : R :=
  let len := common_len Rops f1 f2 in
  (dot Rops f1 f2 / (sqrt (norm2 Rops len f1) * sqrt (norm2 Rops len f2)))%R.
