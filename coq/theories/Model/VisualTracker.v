(* Model of the VisualSORT association step (C12).

   Mirrors, step by step:
     src/trackers/visual_sort/simple_api.rs   VisualSort::predict_with_scene (candidate tracks, distances, voting, per
                                              candidate "new track" / "add_observation(voting type) + merge_external", read back)
     src/trackers/visual_sort/metric.rs       VisualMetric::metric (positional part gated by the IoU threshold; visual part
                                              only if feature_can_be_used at the USE thresholds, both features present, the
                                              track's collected count >= visual_minimal_track_length; is_ok; distance_to_weight)
                                              postprocess_distances
     src/trackers/visual_sort/track_attributes.rs  compatible (scene, idle epochs), merge (epoch, voting type)
     src/trackers/visual_sort/voting.rs       VisualVoting::winners
     src/track/voting/best.rs                 BestFitVoting::winners
   The gallery / history update of a track is Model/VisualAttrs.v (C13).

   ORACLES (per call, arbitrary functions - every theorem is for all of them):
     c_fd  cand_uid obs_uid      raw feature distance (euclidean / cosine) as the exact rational of the f32 computed
     c_pos cand_uid track_id     raw positional metric (IoU*conf before the threshold, or the Mahalanobis cost / conf; None when
                                 too far / no intersection) together with its scaled integer weight (w * 1e6) as i64
     c_solver thr pairs          the assignment solver of SortVoting (Hungarian algorithm on the padded matrix), abstractly:
                                 a list of (candidate, track) matches.  `best_matching` below is the executable exhaustive
                                 maximum-weight default for small sizes; `matching_ok` checks an answer.
   Not modelled: spatio-temporal constraints (C20; the runs use none), auto-waste (C03; expired tracks simply never are
   compatible again), custom object ids, NaN. *)
From Coq Require Import List NArith ZArith QArith Bool Arith.
From Similari Require Import Model.VisualAttrs.
From Similari Require Base.Num.
From SimilariGen Require Scalar ScalarGate ScalarVisual.
Import ListNotations.
Local Open Scope nat_scope.

(* The gate predicates are the TRANSLATED ones (gen/ScalarVisual.v, regenerated from src/trackers/visual_sort/metric.rs
   on every run), instantiated at exact rationals; their spec lemmas are in Proofs/VisualGateProofs.v. *)
Definition vkind := ScalarVisual.VisualSortMetricType Num.Qops.
Definition Euclid (t : Q) : vkind := ScalarVisual.VisualSortMetricType_Euclidean Num.Qops t.
Definition Cosine (t : Q) : vkind := ScalarVisual.VisualSortMetricType_Cosine Num.Qops t.
(* VisualSortMetricType::is_ok / distance_to_weight *)
Definition is_ok (k : vkind) (d : Q) : bool := ScalarVisual.visual_is_ok Num.Qops k d.
Definition distance_to_weight (k : vkind) (d : Q) : Q := ScalarVisual.visual_distance_to_weight Num.Qops k d.

Definition pkind := ScalarGate.PositionalMetricType Num.Qops.
Definition IoU (thr : Q) : pkind := ScalarGate.PositionalMetricType_IoU Num.Qops thr.
Definition Maha : pkind := ScalarGate.PositionalMetricType_Mahalanobis Num.Qops.
(* a box of confidence 1: with minimal confidence 0 the translated positional_metric multiplies the IoU by 1 *)
Definition unit_box : Scalar.Universal2DBox Num.Qops := Scalar.Build_Universal2DBox Num.Qops 0%Q 0%Q None 1%Q 1%Q 1%Q.

Record topts := mkTopts {
  to_g : gopts;            (* max_obs, history, minimal area, COLLECT quality / own-area thresholds *)
  to_vis : vkind;
  to_pos : pkind;
  to_thr_z : Z;            (* SortVoting threshold: (t * 1e6) as i64, t = IoU threshold or MAHALANOBIS_NEW_TRACK_THRESHOLD *)
  to_min_votes : nat;      (* visual_min_votes *)
  to_min_len : nat;        (* visual_minimal_track_length *)
  to_q_use : Q;            (* visual_minimal_quality_use *)
  to_own_use : Q;          (* visual_minimal_own_area_percentage_use *)
  to_max_idle : N;         (* max_idle_epochs *)
  to_max_fd : Q            (* BestFitVoting max_distance (VisualSort passes f32::MAX) *)
}.

Record ttrack := mkT {
  tt_id : N; tt_scene : N; tt_epoch : N;
  tt_vt : option bool;     (* voting_type: Some true = Visual, Some false = Positional, None = never set *)
  tt_body : vtrack         (* attributes (histories, counts) and gallery *)
}.

Record tstate := mkS { s_tracks : list ttrack; s_next : N; s_epochs : list (N * N) }.
Definition state0 : tstate := mkS [] 0 [].

Record call := mkCall {
  c_scene : N;
  c_dets : list det;
  c_fd : N -> N -> Q;
  c_pos : N -> N -> option (Q * Z);
  c_solver : Z -> list (N * N * Z) -> list (N * N)
}.

(* what predict returns for one detection (SortTrack), ids / lengths / epochs / voting type / echoed uids *)
Record trecord := mkR { tr_id : N; tr_len : nat; tr_epoch : N; tr_visual : bool; tr_obs : option N; tr_pred : option N; tr_scene : N }.

Definition memN (x : N) (l : list N) : bool := existsb (N.eqb x) l.

Section Step.
Variable o : topts.

(* ---- epochs -------------------------------------------------------------------------------------------------- *)
Definition epoch_of (eps : list (N * N)) (scene : N) : N :=
  match find (fun p => fst p =? scene)%N eps with Some p => snd p | None => 0%N end.
Fixpoint set_epoch (eps : list (N * N)) (scene e : N) : list (N * N) :=
  match eps with
  | [] => [(scene, e)]
  | p :: r => if (fst p =? scene)%N then (scene, e) :: r else p :: set_epoch r scene e
  end.

(* VisualAttributes::compatible without constraints: same scene, |epoch difference| <= max_idle_epochs *)
Definition compatible (scene e : N) (t : ttrack) : bool :=
  (tt_scene t =? scene)%N && (N.max e (tt_epoch t) - N.min e (tt_epoch t) <=? to_max_idle o)%N.

(* ---- VisualMetric::metric ------------------------------------------------------------------------------------- *)
Definition can_use (d : det) : bool :=
  feature_can_be_used (o_min_area (to_g o)) (d_area d) (d_q d) (to_q_use o) (d_own d) (to_own_use o).

(* The oracle value is conf * IoU BEFORE the threshold (or the Mahalanobis cost / conf).  The IoU threshold filter is the
   one of the translated positional_metric: it is applied to (value, confidence 1). *)
Definition pos_gate (p : option (Q * Z)) : option (Q * Z) :=
  match to_pos o with
  | ScalarGate.PositionalMetricType_Mahalanobis _ => p
  | ScalarGate.PositionalMetricType_IoU _ _ =>
      match p with
      | Some (w, z) =>
          match ScalarVisual.visual_positional_metric Num.Qops (Some unit_box) (Some unit_box) 0%Q (to_pos o) false 0%Q (Some w) with
          | Some _ => Some (w, z)
          | None => None
          end
      | None => None
      end
  end.

Definition collected (t : ttrack) : nat := a_collected (t_attrs (tt_body t)).

Definition visual_metric (cl : call) (d : det) (t : ttrack) (x : gentry) : option Q :=
  if can_use d then
    if d_feat d && g_feat x then
      (* the translated visual_metric: collected >= minimal length, is_ok, distance_to_weight; the oracle supplies the
         distance of the configured kind, so it is passed for both kinds *)
      let dd := c_fd cl (d_uid d) (g_uid x) in
      ScalarVisual.visual_metric Num.Qops (N.of_nat (collected t)) (N.of_nat (to_min_len o)) (to_vis o) dd dd
    else None
  else None.

Record dist := mkDist { di_from : N; di_to : N; di_pos : option (Q * Z); di_fd : option Q }.

(* candidate (one observation) x the track's stored observations; only the newest stored observation (index 0) still
   has a box; postprocess_distances keeps the entries with at least one metric *)
Fixpoint dists_obs (cl : call) (d : det) (t : ttrack) (first : bool) (g : gallery) : list dist :=
  match g with
  | [] => []
  | x :: r =>
      let p := if first then pos_gate (c_pos cl (d_uid d) (tt_id t)) else None in
      let f := visual_metric cl d t x in
      let rest := dists_obs cl d t false r in
      match p, f with
      | None, None => rest
      | _, _ => mkDist (d_uid d) (tt_id t) p f :: rest
      end
  end.

Definition dists_pair (cl : call) (d : det) (t : ttrack) : list dist := dists_obs cl d t true (t_gal (tt_body t)).

Definition all_dists (cl : call) (e : N) (tracks : list ttrack) : list dist :=
  flat_map (fun d => flat_map (fun t => if compatible (c_scene cl) e t then dists_pair cl d t else []) tracks) (c_dets cl).

(* ---- BestFitVoting::winners ------------------------------------------------------------------------------------ *)
Definition max_dist (ds : list dist) : Q :=
  fold_left (fun m d => match di_fd d with Some e => if Qle_bool e m then m else e | None => m end) ds (-1)%Q.

Definition vote_of (d : dist) : option Q :=
  match di_fd d with Some e => if Qle_bool e (to_max_fd o) then Some e else None | None => None end.

Definition votes_for (ds : list dist) (c t : N) : list Q :=
  flat_map (fun d => if (di_from d =? c)%N && (di_to d =? t)%N then match vote_of d with Some e => [e] | None => [] end else []) ds.

Definition key_eqb (a b : N * N) : bool := (fst a =? fst b)%N && (snd a =? snd b)%N.
Fixpoint keys_from (seen : list (N * N)) (ds : list dist) : list (N * N) :=
  match ds with
  | [] => []
  | d :: r =>
      let k := (di_from d, di_to d) in
      match vote_of d with
      | Some _ => if existsb (key_eqb k) seen then keys_from seen r else k :: keys_from (k :: seen) r
      | None => keys_from seen r
      end
  end.

Record claim := mkClaim { cl_from : N; cl_to : N; cl_w : Q; cl_votes : nat }.

Definition Qsum (l : list Q) : Q := fold_left (fun a b => Qred (a + b)) l 0%Q.

Definition claims (ds : list dist) : list claim :=
  let md := max_dist ds in
  flat_map (fun k =>
              let vs := votes_for ds (fst k) (snd k) in
              if to_min_votes o <=? length vs
              then [mkClaim (fst k) (snd k) (Qsum (map (fun e => md - e)%Q vs)) (length vs)]
              else [])
           (keys_from [] ds).

(* candidates.sort_by(|e1, e2| e2.weight.partial_cmp(&e1.weight)): stable, descending.  The order among equal weights
   depends on a HashMap iteration order in the code; `claims_tied` detects when that can matter. *)
Fixpoint insert_claim (c : claim) (l : list claim) : list claim :=
  match l with
  | [] => [c]
  | x :: r => if Qle_bool (cl_w x) (cl_w c) then c :: l else x :: insert_claim c r
  end.
Definition sort_claims (l : list claim) : list claim := fold_right insert_claim [] l.

(* for c in candidates: if results.contains(winner) { c.winner_track = c.query_track } else { results.insert(winner) } *)
Fixpoint greedy (taken : list N) (cs : list claim) : list (claim * bool) :=
  match cs with
  | [] => []
  | c :: r => if memN (cl_to c) taken then (c, false) :: greedy taken r else (c, true) :: greedy (cl_to c :: taken) r
  end.

Definition bestfit (ds : list dist) : list (claim * bool) := greedy [] (sort_claims (claims ds)).

(* VisualVoting: per candidate the FIRST (heaviest) element of its group decides *)
Inductive vdecision := VWin (t : N) | VLost (t : N) | VNone.
Definition visual_decision (bf : list (claim * bool)) (c : N) : vdecision :=
  match find (fun p => (cl_from (fst p) =? c)%N) bf with
  | Some (cl, true) => VWin (cl_to cl)
  | Some (cl, false) => VLost (cl_to cl)
  | None => VNone
  end.

Definition claimants (bf : list (claim * bool)) : list N := map (fun p => cl_from (fst p)) bf.

(* excluded_tracks: the winner_track of every candidate's first element (a lost first element contributes the
   candidate's own id, which is no track) *)
Definition excluded (bf : list (claim * bool)) (cands : list N) : list N :=
  flat_map (fun c => match visual_decision bf c with VWin t => [t] | _ => [] end) cands.

(* remaining_distances: candidate without any claim, track not excluded, positional metric present *)
Definition remaining (ds : list dist) (bf : list (claim * bool)) (cands : list N) : list (N * N * Z) :=
  let cl := claimants bf in
  let ex := excluded bf cands in
  flat_map (fun d => match di_pos d with
                     | Some (_, z) => if memN (di_from d) cl || memN (di_to d) ex then [] else [(di_from d, di_to d, z)]
                     | None => []
                     end) ds.

Inductive decision := NewTrack | Attach (t : N) (visual : bool).

Definition decide (bf : list (claim * bool)) (sol : list (N * N)) (c : N) : decision :=
  match visual_decision bf c with
  | VWin t => Attach t true
  | VLost _ => NewTrack
  | VNone => match find (fun p => (fst p =? c)%N) sol with
             | Some p => Attach (snd p) false
             | None => NewTrack
             end
  end.

(* ---- applying the decisions, candidate by candidate, in input order -------------------------------------------- *)
Definition record_of_track (t : ttrack) : trecord :=
  let r := record_of (t_attrs (tt_body t)) in
  mkR (tt_id t) (r_length r) (tt_epoch t) (match tt_vt t with Some true => true | _ => false end)
      (r_observed r) (r_predicted r) (tt_scene t).

Definition new_track (id scene e : N) (d : det) : ttrack :=
  mkT id scene e None (track_step (to_g o) track0 (false, d)).

(* attributes.merge: epoch and voting type from the candidate; then the candidate's observation is merged (is_merge) *)
Definition merge_into (t : ttrack) (e : N) (visual : bool) (d : det) : ttrack :=
  mkT (tt_id t) (tt_scene t) e (Some visual) (track_step (to_g o) (tt_body t) (true, d)).

Fixpoint update_track (ts : list ttrack) (id : N) (f : ttrack -> ttrack) : option (list ttrack * ttrack) :=
  match ts with
  | [] => None
  | t :: r => if (tt_id t =? id)%N then Some (f t :: r, f t)
              else match update_track r id f with Some (r', t') => Some (t :: r', t') | None => None end
  end.

Definition apply_one (scene e : N) (st : list ttrack * N) (dd : det * decision) : (list ttrack * N) * trecord :=
  let '(ts, next) := st in
  let '(d, dec) := dd in
  let fresh := let id := (next + 1)%N in let t := new_track id scene e d in ((ts ++ [t], id), record_of_track t) in
  match dec with
  | NewTrack => fresh
  | Attach tid v =>
      match update_track ts tid (fun t => merge_into t e v d) with
      | Some (ts', t') => ((ts', next), record_of_track t')
      | None => fresh     (* not reachable: attach targets are stored tracks (the code would panic on the merge) *)
      end
  end.

Fixpoint apply_all (scene e : N) (st : list ttrack * N) (dds : list (det * decision)) : (list ttrack * N) * list trecord :=
  match dds with
  | [] => (st, [])
  | dd :: r => let '(st1, rec) := apply_one scene e st dd in
               let '(st2, recs) := apply_all scene e st1 r in (st2, rec :: recs)
  end.

(* everything the voting decides for one call, from the state before the call *)
Record plan := mkPlan {
  p_epoch : N; p_dists : list dist; p_bf : list (claim * bool); p_remaining : list (N * N * Z);
  p_sol : list (N * N); p_decisions : list (det * decision)
}.

Definition make_plan (st : tstate) (cl : call) : plan :=
  let e := (epoch_of (s_epochs st) (c_scene cl) + 1)%N in
  let ds := all_dists cl e (s_tracks st) in
  let bf := bestfit ds in
  let cands := map d_uid (c_dets cl) in
  let rem := remaining ds bf cands in
  let sol := c_solver cl (to_thr_z o) rem in
  mkPlan e ds bf rem sol (map (fun d => (d, decide bf sol (d_uid d))) (c_dets cl)).

Definition step_plan (st : tstate) (cl : call) (p : plan) : tstate * list trecord :=
  let '((ts, next), recs) := apply_all (c_scene cl) (p_epoch p) (s_tracks st, s_next st) (p_decisions p) in
  (mkS ts next (set_epoch (s_epochs st) (c_scene cl) (p_epoch p)), recs).

Definition step (st : tstate) (cl : call) : tstate * list trecord := step_plan st cl (make_plan st cl).

Fixpoint run (st : tstate) (cls : list call) : tstate :=
  match cls with
  | [] => st
  | cl :: r => run (fst (step st cl)) r
  end.

(* ---- diagnostics for the correspondence ---------------------------------------------------------------------- *)
Definition Qabs_diff (a b : Q) : Q := if Qle_bool a b then (b - a)%Q else (a - b)%Q.
(* two distinct claims that compete (same candidate or same track) with weights closer than the margin *)
Fixpoint claims_tied (margin : Q) (cs : list claim) : bool :=
  match cs with
  | [] => false
  | c :: r => existsb (fun x => ((cl_from x =? cl_from c)%N || (cl_to x =? cl_to c)%N) && Qle_bool (Qabs_diff (cl_w x) (cl_w c)) margin) r
              || claims_tied margin r
  end.

End Step.

(* ---- the positional solver: specification checker and exhaustive default ------------------------------------------ *)
(* rows = the candidates that occur in the pairs (first appearance order) *)
Fixpoint rows_of (seen : list N) (pairs : list (N * N * Z)) : list N :=
  match pairs with
  | [] => []
  | p :: r => let c := fst (fst p) in if memN c seen then rows_of seen r else c :: rows_of (c :: seen) r
  end.

(* the matrix cell: the LAST pair for (c, t) wins (later duplicates overwrite in SortVoting) *)
Definition weight_of (pairs : list (N * N * Z)) (c t : N) : option Z :=
  match find (fun p => (fst (fst p) =? c)%N && (snd (fst p) =? t)%N) (rev pairs) with
  | Some p => Some (snd p) | None => None end.

(* value of a matching: matched weights + threshold for every unmatched row *)
Definition matching_value (thr : Z) (pairs : list (N * N * Z)) (m : list (N * N)) : Z :=
  fold_left (fun acc c => match find (fun p => (fst p =? c)%N) m with
                          | Some p => match weight_of pairs c (snd p) with Some w => acc + w | None => acc end
                          | None => acc + thr end)%Z
            (rows_of [] pairs) 0%Z.

Fixpoint nodupN (l : list N) : bool :=
  match l with [] => true | x :: r => negb (memN x r) && nodupN r end.

Definition matching_valid (pairs : list (N * N * Z)) (m : list (N * N)) : bool :=
  forallb (fun p => match weight_of pairs (fst p) (snd p) with Some _ => true | None => false end) m
  && nodupN (map fst m) && nodupN (map snd m).

(* exhaustive search over the rows: leave the row unmatched, or match it to any still free track it has a pair with *)
Fixpoint best_from (thr : Z) (pairs : list (N * N * Z)) (rows : list N) (used : list N) : Z * list (N * N) :=
  match rows with
  | [] => (0%Z, [])
  | c :: r =>
      let skip := let '(v, m) := best_from thr pairs r used in ((v + thr)%Z, m) in
      fold_left (fun best p =>
                   if (fst (fst p) =? c)%N && negb (memN (snd (fst p)) used) then
                     match weight_of pairs c (snd (fst p)) with
                     | Some w => if (w <? thr)%Z then best   (* never better than leaving the row unmatched *)
                                 else let '(v, m) := best_from thr pairs r (snd (fst p) :: used) in
                                      if (fst best <? v + w)%Z then ((v + w)%Z, (c, snd (fst p)) :: m) else best
                     | None => best
                     end
                   else best)
                pairs skip
  end.

Definition best_matching (thr : Z) (pairs : list (N * N * Z)) : list (N * N) := snd (best_from thr pairs (rows_of [] pairs) []).
Definition best_value (thr : Z) (pairs : list (N * N * Z)) : Z := fst (best_from thr pairs (rows_of [] pairs) []).

(* an answer of the solver is acceptable when it is a valid matching of maximum value *)
Definition matching_ok (thr : Z) (pairs : list (N * N * Z)) (m : list (N * N)) : bool :=
  matching_valid pairs m && (matching_value thr pairs m =? best_value thr pairs)%Z.

(* ---- executable entry point for the correspondence ------------------------------------------------------------- *)
(* a call as data: oracle tables as association lists, the implementation's positional matches as the solver's answer *)
Record ecall := mkECall {
  ec_scene : N;
  ec_dets : list det;
  ec_fd : list (N * N * Q);            (* cand uid, obs uid, distance *)
  ec_pos : list (N * N * (Q * Z));     (* cand uid, track id, (metric, scaled weight) *)
  ec_hint : list (N * N)               (* positional matches the implementation made in this call *)
}.

Definition lookup2 {A} (tab : list (N * N * A)) (a b : N) : option A :=
  match find (fun p => (fst (fst p) =? a)%N && (snd (fst p) =? b)%N) tab with Some p => Some (snd p) | None => None end.

Definition call_of (ec : ecall) : call :=
  mkCall (ec_scene ec) (ec_dets ec)
         (fun a b => match lookup2 (ec_fd ec) a b with Some q => q | None => 0%Q end)
         (lookup2 (ec_pos ec))
         (fun _ _ => ec_hint ec).

Definition dump_rec (r : trecord) := (tr_id r, N.of_nat (tr_len r), tr_epoch r, tr_visual r, tr_obs r, tr_pred r).
Definition dump_ttrack (t : ttrack) :=
  (tt_id t, tt_scene t, tt_epoch t, tt_vt t, dump_track (tt_body t)).

(* per call: records, the tracks named by the records after the call, diagnostics
   (claims tied within the margin?, is the implementation's positional answer a maximum-weight matching of the model's
   remaining pairs?, number of claims, number of contested claims lost, number of remaining pairs) *)
Fixpoint run_ecalls (o : topts) (margin : Q) (st : tstate) (ecs : list ecall) :=
  match ecs with
  | [] => []
  | ec :: r =>
      let cl := call_of ec in
      let p := make_plan o st cl in
      let '(st', recs) := step_plan o st cl p in
      let touched := filter (fun t => memN (tt_id t) (map tr_id recs)) (s_tracks st') in
      (map dump_rec recs, map dump_ttrack touched,
       (claims_tied margin (map fst (p_bf p)),
        matching_ok (to_thr_z o) (p_remaining p) (ec_hint ec),
        N.of_nat (length (p_bf p)),
        N.of_nat (length (filter (fun x => negb (snd x)) (p_bf p))),
        N.of_nat (length (p_remaining p))))
      :: run_ecalls o margin st' r
  end.

Definition run_case (o : topts) (margin : Q) (ecs : list ecall) := run_ecalls o margin state0 ecs.
Definition final_tracks (o : topts) (ecs : list ecall) := map dump_ttrack (s_tracks (run o state0 (map call_of ecs))).
