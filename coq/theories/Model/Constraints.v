(* Model of src/trackers/spatio_temporal_constraints.rs (C20).
   Hand-written; tied to the code by the exact correspondence in tools/props/c20.py and, for the two
   comparisons, by the translated predicates in SimilariGen.Scalar (validate_gap_cmp / validate_dist_cmp). *)
From Coq Require Import List NArith QArith Bool.
From Similari Require Import Base.Num.
From SimilariGen Require Import Scalar.
Import ListNotations.

Definition entry := (N * Q)%type.
Definition table := list entry.

(* Vec::sort_by(|(e1,_),(e2,_)| e1.cmp(e2)) is a stable sort: insertion sort that places an element
   before the first element whose gap is not smaller. *)
Fixpoint insert (e : entry) (l : table) : table :=
  match l with
  | [] => [e]
  | x :: xs => if (fst e <=? fst x)%N then e :: l else x :: insert e xs
  end.

Definition sort (l : table) : table := fold_right insert [] l.

(* Vec::dedup_by(|a, b| a.0 == b.0): an element equal (in gap) to the last retained one is dropped. *)
Fixpoint dedup_from (k : N) (l : table) : table :=
  match l with
  | [] => []
  | x :: xs => if (fst x =? k)%N then dedup_from k xs else x :: dedup_from (fst x) xs
  end.

Definition dedup (l : table) : table :=
  match l with
  | [] => []
  | x :: xs => x :: dedup_from (fst x) xs
  end.

(* assert!(max_distance > 0.0) for every pushed pair: a violation panics (None). *)
Definition limits_positive (cs : table) : bool := forallb (fun e => add_constraints_pre Qops (snd e)) cs.

Definition add_constraints (t : table) (cs : table) : option table :=
  if limits_positive cs then Some (dedup (sort (t ++ cs))) else None.

(* assert!(dist >= 0.0); find(|(d,_)| *d >= epoch_delta); None => true, Some((_,m)) => dist <= m.
   The two comparisons are the translated ones. *)
Definition validate (t : table) (delta : N) (dist : Q) : option bool :=
  if validate_dist_pre Qops dist then
    Some match find (fun e => validate_gap_cmp Qops (fst e) delta) t with
         | None => true
         | Some e => validate_dist_cmp Qops dist (snd e)
         end
  else None.

(* Running a whole configuration history: a list of add_constraints calls from an empty table. *)
Fixpoint run_adds (t : table) (adds : list table) : option table :=
  match adds with
  | [] => Some t
  | cs :: rest => match add_constraints t cs with
                  | None => None
                  | Some t' => run_adds t' rest
                  end
  end.

(* Executable entry point for the correspondence check: a configuration history and a list of probes. *)
Definition run_case (adds : list table) (probes : list (N * Q)) : option (list (option bool)) :=
  match run_adds [] adds with
  | None => None
  | Some t => Some (map (fun p => validate t (fst p) (snd p)) probes)
  end.
