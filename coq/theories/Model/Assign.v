(* Model of src/trackers/sort/voting.rs (SortVoting::winners), C02 / C17.
   Integer weights: a stream entry carries Z = (attribute_metric.unwrap_or(0.0) * F32_U64_MULT) as i64, the
   threshold is (threshold * F32_U64_MULT) as i64, exactly the integers the Rust code feeds to kuhn_munkres.

   pad_matrix    the loop of lines 43-90: the candidates_num x (candidates_num + tracks_num) matrix.
                 `tracks_index` always has the shape  F ++ [0; n-|F|] ++ T  (F: `from` ids in order of first
                 appearance, written over the zero prefix; T: `to` ids, pushed at the end) and
                 `tracks_r_index` is its inverse on non-zero ids, so the model's state is (F, T, matrix) and the
                 shared lookup [r_index] searches F first, then T.  A panic of the Rust code
                 (assert!, index out of bounds, get_mut(..).unwrap() on a missing cell) is [None].
   kuhn_munkres  an ORACLE (section variable [km]); its specification is [optimal].
   decode        the `solution -> winners` loop of lines 105-118.
   best_partial  exhaustive recursion over partial one-to-one matchings, value = sum of matched weights
                 + thr for every unmatched detection; returns (best value, a best matching, number of best
                 matchings).
   check_dual    boolean dual-certificate checker (weak duality), see Proofs/AssignProofs.v.  *)
From Coq Require Import List NArith ZArith Bool Arith Lia.
Import ListNotations.

Definition pair3 := (N * N * Z)%type.             (* from, to, weight * 1e6 *)
Definition pairs := list pair3.
Definition p_from (p : pair3) : N := fst (fst p).
Definition p_to (p : pair3) : N := snd (fst p).
Definition p_w (p : pair3) : Z := snd p.

(* ---------------------------------------------------------------------------------------------- *)
(* matrices: list of rows *)
Definition matrix := list (list Z).
Definition mget (m : matrix) (i j : nat) : Z := nth j (nth i m []) 0%Z.

Fixpoint set_nth {A : Type} (i : nat) (x : A) (l : list A) : list A :=
  match l, i with
  | [], _ => []
  | _ :: r, O => x :: r
  | y :: r, S i' => y :: set_nth i' x r
  end.

Definition mset (m : matrix) (i j : nat) (v : Z) : matrix :=
  set_nth i (set_nth j v (nth i m [])) m.

Definition mzero (rows cols : nat) : matrix := repeat (repeat 0%Z cols) rows.
Definition ncols (m : matrix) : nat := length (hd [] m).

Fixpoint index_of (x : N) (l : list N) : option nat :=
  match l with
  | [] => None
  | y :: r => if (x =? y)%N then Some O else option_map S (index_of x r)
  end.

(* ---------------------------------------------------------------------------------------------- *)
(* pad_matrix *)
Record pstate := { ps_F : list N; ps_T : list N; ps_m : matrix }.

(* tracks_r_index.get(&x): position of x in tracks_index = F ++ zeros ++ T *)
Definition r_index (n : nat) (F T : list N) (x : N) : option nat :=
  match index_of x F with
  | Some i => Some i
  | None => option_map (fun j => n + j) (index_of x T)
  end.

Definition pad_step (n cols : nat) (st : pstate) (p : pair3) : option pstate :=
  let f := p_from p in
  let t := p_to p in
  if (f =? 0)%N || (t =? 0)%N then None                       (* assert!(from > 0 && to > 0) *)
  else
    match (match r_index n (ps_F st) (ps_T st) f with
           | Some r => Some (r, ps_F st)
           | None => if length (ps_F st) <? n                  (* tracks_index[index] = from *)
                     then Some (length (ps_F st), ps_F st ++ [f]) else None
           end) with
    | None => None
    | Some (row, F') =>
        let '(col, T') := match r_index n F' (ps_T st) t with
                          | Some c => (c, ps_T st)
                          | None => (n + length (ps_T st), ps_T st ++ [t])   (* tracks_index.push(to) *)
                          end in
        if (row <? n) && (col <? n + cols)                     (* cost_matrix.get_mut((row, col)).unwrap() *)
        then Some {| ps_F := F'; ps_T := T'; ps_m := mset (ps_m st) row col (p_w p) |}
        else None
    end.

Fixpoint pad_run (n cols : nat) (st : pstate) (s : pairs) : option pstate :=
  match s with
  | [] => Some st
  | p :: r => match pad_step n cols st p with
              | None => None
              | Some st' => pad_run n cols st' r
              end
  end.

(* for i in 0..candidate_num { cost_matrix[(i, i)] = threshold } *)
Definition set_diag (thr : Z) (n : nat) (m : matrix) : matrix :=
  fold_left (fun m i => mset m i i thr) (seq 0 n) m.

Definition tracks_index (n : nat) (F T : list N) : list N := F ++ repeat 0%N (n - length F) ++ T.

Definition pad_matrix (thr : Z) (n cols : nat) (s : pairs) : option (matrix * list N) :=
  match pad_run n cols {| ps_F := []; ps_T := []; ps_m := mzero n (n + cols) |} s with
  | None => None
  | Some st => Some (set_diag thr n (ps_m st), tracks_index n (ps_F st) (ps_T st))
  end.

(* ---------------------------------------------------------------------------------------------- *)
(* assignments: a.(i) = column of row i *)
Definition is_assignment (rows cols : nat) (a : list nat) : Prop :=
  length a = rows /\ NoDup a /\ forall j, In j a -> j < cols.

Definition zsum (f : nat -> Z) (l : list nat) : Z := fold_right (fun i acc => (f i + acc)%Z) 0%Z l.

Definition aweight (m : matrix) (a : list nat) : Z :=
  zsum (fun i => mget m i (nth i a O)) (seq 0 (length m)).

(* the specification of kuhn_munkres *)
Definition optimal (m : matrix) (a : list nat) : Prop :=
  forall a', is_assignment (length m) (ncols m) a' -> (aweight m a' <= aweight m a)%Z.

(* ---------------------------------------------------------------------------------------------- *)
(* decode: solution.into_iter().enumerate().flat_map(|(i, e)| { let (from, to) = (tracks_index[i], tracks_index[e]);
            if from > 0 && to > 0 { Some((from, vec![to])) } else { None } }) *)
Definition decode (idx : list N) (a : list nat) : option (list (N * N)) :=
  if forallb (fun e => e <? length idx) a && (length a <=? length idx)
  then Some (flat_map (fun i => let f := nth i idx 0%N in
                                let t := nth (nth i a O) idx 0%N in
                                if (0 <? f)%N && (0 <? t)%N then [(f, t)] else [])
                      (seq 0 (length a)))
  else None.                                                   (* tracks_index[..] out of bounds *)

Section Winners.
  Variable km : matrix -> list nat.
  Definition sort_winners (thr : Z) (n cols : nat) (s : pairs) : option (list (N * N)) :=
    if cols =? 0 then Some []                                  (* if self.track_num == 0 { return HashMap::default() } *)
    else match pad_matrix thr n cols s with
         | None => None
         | Some (m, idx) => decode idx (km m)
         end.
End Winners.

(* ---------------------------------------------------------------------------------------------- *)
(* the stream as a weighted bipartite graph *)
(* ids in order of first appearance *)
Definition add_id (acc : list N) (x : N) : list N := if existsb (N.eqb x) acc then acc else acc ++ [x].
Definition addl (xs : list N) (acc : list N) : list N := fold_left add_id xs acc.
Definition froms (s : pairs) : list N := addl (map p_from s) [].
Definition tos (s : pairs) : list N := addl (map p_to s) [].

(* later duplicates overwrite *)
Fixpoint lastw (s : pairs) (f t : N) : option Z :=
  match s with
  | [] => None
  | p :: r => match lastw r f t with
              | Some w => Some w
              | None => if (p_from p =? f)%N && (p_to p =? t)%N then Some (p_w p) else None
              end
  end.

(* partial matchings: every detection is continued by a track (Some t) or starts a new one (None) *)
Definition pmatch := list (N * option N).
Definition matched (M : pmatch) : list N :=
  flat_map (fun e => match snd e with Some t => [t] | None => [] end) M.
Definition pm_term (wf : N -> N -> option Z) (thr : Z) (e : N * option N) : Z :=
  match snd e with
  | None => thr
  | Some t => match wf (fst e) t with Some x => x | None => 0%Z end
  end.
Definition pm_value (wf : N -> N -> option Z) (thr : Z) (M : pmatch) : Z :=
  fold_right (fun e acc => (pm_term wf thr e + acc)%Z) 0%Z M.

Definition bres := (Z * pmatch * N)%type.
Definition better (b1 b2 : bres) : bres :=
  let '(v1, m1, c1) := b1 in
  let '(v2, m2, c2) := b2 in
  if (v1 <? v2)%Z then b2 else if (v1 =? v2)%Z then (v1, m1, (c1 + c2)%N) else b1.

Definition removeN (t : N) (l : list N) : list N := filter (fun y => negb (t =? y)%N) l.

Fixpoint bp (wf : N -> N -> option Z) (thr : Z) (ds ts : list N) : bres :=
  match ds with
  | [] => (0%Z, [], 1%N)
  | d :: ds' =>
      let '(v0, m0, c0) := bp wf thr ds' ts in
      fold_left better
        (flat_map (fun t => match wf d t with
                            | None => []
                            | Some x => let '(v, m, c) := bp wf thr ds' (removeN t ts) in
                                        [((v + x)%Z, (d, Some t) :: m, c)]
                            end) ts)
        ((v0 + thr)%Z, (d, None) :: m0, c0)
  end.

Definition best_partial (thr : Z) (s : pairs) : bres := bp (lastw s) thr (froms s) (tos s).

(* the winners list read as a partial matching and back *)
Definition winners_of_pm (M : pmatch) : list (N * N) :=
  map (fun e => (fst e, match snd e with Some t => t | None => fst e end)) M.

(* value of a winners list: thr for "itself", the stream weight otherwise *)
Definition w_value (s : pairs) (thr : Z) (W : list (N * N)) : Z :=
  fold_right (fun e acc => ((if (fst e =? snd e)%N then thr
                             else match lastw s (fst e) (snd e) with Some x => x | None => 0%Z end) + acc)%Z) 0%Z W.

(* ---------------------------------------------------------------------------------------------- *)
(* dual certificate: u (one per row), v (one per column) *)
Definition check_dual (m : matrix) (a : list nat) (u v : list Z) : bool :=
  let rows := length m in
  let cols := ncols m in
  (length a =? rows) && (length u =? rows) && (length v =? cols)
  && forallb (fun r => length r =? cols) m
  && forallb (fun j => j <? cols) a
  && forallb (fun i => forallb (fun k => negb (nth i a O =? nth k a O)) (seq (S i) (rows - S i))) (seq 0 rows)
  && forallb (fun i => forallb (fun j => (mget m i j <=? nth i u 0 + nth j v 0)%Z) (seq 0 cols)) (seq 0 rows)
  && forallb (fun i => (mget m i (nth i a O) =? nth i u 0 + nth (nth i a O) v 0)%Z) (seq 0 rows)
  && forallb (fun j => (0 <=? nth j v 0)%Z) (seq 0 cols)
  && forallb (fun j => existsb (Nat.eqb j) a || (nth j v 0 =? 0)%Z) (seq 0 cols).

(* ---------------------------------------------------------------------------------------------- *)
(* checking an implementation answer (correspondence): W = winners as (from, to) pairs *)

(* the assignment behind a winners list: row of `from` -> column of `to` (own column when to = from);
   rows without a winner entry sit on their own column *)
Definition encode (n : nat) (F T : list N) (W : list (N * N)) : list nat :=
  map (fun i => match nth_error F i with
                | None => i
                | Some f => match find (fun e => (fst e =? f)%N) W with
                            | None => i
                            | Some e => if (snd e =? f)%N then i
                                        else match index_of (snd e) T with Some j => n + j | None => i end
                            end
                end) (seq 0 n).

(* property-level reading of an answer: one entry per detection of the stream, the entry is the detection itself
   or a track it was paired with in the stream at weight >= thr, no track twice *)
Definition valid_winners (thr : Z) (s : pairs) (W : list (N * N)) : bool :=
  let F := froms s in
  forallb (fun f => (length (filter (fun e => (fst e =? f)%N) W) =? 1)) F
  && forallb (fun e => existsb (N.eqb (fst e)) F
                       && ((fst e =? snd e)%N
                           || match lastw s (fst e) (snd e) with Some x => (thr <=? x)%Z | None => false end)) W
  && forallb (fun e => (length (filter (fun e' => (snd e' =? snd e)%N) W) =? 1)) W.

Definition run_sort (thr : Z) (n cols : nat) (s : pairs) (W : list (N * N)) (u v : list Z) :=
  match pad_matrix thr n cols s with
  | None => None
  | Some (m, idx) =>
      let a := encode n (froms s) (tos s) W in
      let '(bv, bm, bc) := if (length (froms s) <=? 6) && (length (tos s) <=? 6)
                           then best_partial thr s else (0%Z, [], 0%N) in
      Some (valid_winners thr s W,                      (* the answer is a gated one-to-one partial matching *)
            w_value s thr W,                            (* its value *)
            (bv, winners_of_pm bm, bc),                 (* exhaustive optimum (sizes <= 6x6), a best matching, #best *)
            check_dual m a u v,                         (* certificate for the implementation's assignment *)
            decode idx a,                               (* decoding the reconstructed assignment gives W back *)
            aweight m a)
  end.
