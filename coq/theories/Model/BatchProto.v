(* BatchProto - interleaving model (L2) of the batch trackers' monitor / bounded-channel protocol.

   Mirrors /repo/src/trackers/sort/batch_api.rs and visual_sort/batch_api.rs (identical protocol):

     predict (main thread)            BMain
        wait monitor == 0; monitor := batch size          MWait b     (site batch_monitor_passed)
        per scene (HashMap order = any list order):       MDisp b ..  (site batch_scene_dispatched)
            next_epoch, candidates, synchronous distance query  = [prep] on that scene's state
            job -> voting thread (i mod V)
     voting_thread v                  BVote v   (next atomic step of the oldest job of thread v)
        dequeue job, compute winners                       Queued -> Work 0   (site vote_job_begin)
        per candidate: id := ++counter; ONE store write    Work i -> Work i+1 (site vote_store_write)
        channel.send(result)  - bounded(1): blocks if full Work n -> Sent     (site vote_send)
        monitor -= 1; notify                               Sent -> (removed)  (site vote_job_end)
        Exit: leave the loop                               (no job, exit requested)
     PredictionBatchResult::get       BConsume b   (one message from the bounded(1) channel of batch b)
     Drop                             BMain: per thread: send Exit (MDropSend v), join (MDropJoin v)

   The tracker itself is abstract (Section variables): a scene state [SC], [prep] (everything predict does
   for one scene before it hands the job over) and [write] (the single store write of candidate i). A job of
   scene s reads and writes only that scene's state and the shared id counter: this is the scene-locality of
   the trackers (tracks of different scenes are never compatible, C04), assumed here and checked against the
   implementation by the correspondence runs. Tracks are named canonically inside [SC]/[REC]; the ids drawn
   from the shared counter are carried separately.

   FIFO job queues of the V voting threads are encoded as ONE list of entries tagged with their thread:
   thread v works on the first entry tagged v, new jobs are appended at the end - the per-thread order is the
   FIFO order of that thread's channel.

   The job queues of the voting threads are UNBOUNDED in the model (crossbeam::channel::unbounded in the code):
   the dispatch step of predict is always enabled (theorem dispatch_never_blocks in Props/C06.v). A bound on
   these queues in the code is therefore a refinement failure that the model cannot exhibit - predict would
   block in `send` while the voting thread waits on the bounded(1) result channel, and a caller that retrieves
   results only after predict returns (allowed by the proviso) deadlocks. Only the correspondence can catch it:
   the harness submits batches of 33..80 scenes to one or two voting threads in both retrieval modes.

   Auto-waste (the prologue of predict) is not modelled: it only moves expired tracks, which no job can
   select (an expired track is incompatible with every candidate of the current epoch). *)
From Coq Require Import List NArith Bool Arith Lia Permutation.
Import ListNotations.

Inductive blabel := BMain | BVote (v : nat) | BConsume (b : nat).

Section Batch.
  Variable SC : Type.                     (* state of one scene: epoch + its tracks, canonically named *)
  Variable DET : Type.
  Variable JD : Type.                     (* candidates + distances handed to the voting thread *)
  Variable REC : Type.                    (* one output record (box, epoch, length, canonical track name) *)
  Variable sc0 : SC.
  Variable prep : SC -> list DET -> SC * JD.
  Variable write : SC -> JD -> nat -> SC * REC * bool.   (* true: a new track was added (uses the drawn id) *)

  Definition batch := list (N * list DET).               (* scene id, detections *)
  Definition rec_id := (REC * option N)%type.            (* record, id drawn for a newly created track *)
  Definition result := (N * list rec_id)%type.           (* SceneTracks *)

  Record job := mkJob { jb : nat; js : N; jn : nat; jd : JD }.
  Inductive prog := Queued | Work (i : nat) (acc : list rec_id) | Sent.
  Record entry := mkE { ev : nat; ej : job; ep : prog }.

  Inductive mpc :=
  | MWait (b : nat)
  | MDisp (b : nat) (rest : batch) (i : nat)
  | MDropSend (v : nat)
  | MDropJoin (v : nat)
  | MDone.

  Record bstate := mkB {
    pc : mpc;
    scs : N -> SC;
    counter : N;
    mons : nat -> nat;
    jobs : list entry;
    xsent : nat -> bool;
    xdone : nat -> bool;
    chans : nat -> list result;
    consumed : nat -> list result
  }.

  Definition upd {A} (f : nat -> A) (k : nat) (x : A) : nat -> A := fun j => if Nat.eqb j k then x else f j.
  Definition updN {A} (f : N -> A) (k : N) (x : A) : N -> A := fun j => if N.eqb j k then x else f j.

  Fixpoint first (v : nat) (l : list entry) : option entry :=
    match l with
    | [] => None
    | e :: t => if Nat.eqb (ev e) v then Some e else first v t
    end.

  Fixpoint upd_first (v : nat) (e' : entry) (l : list entry) : list entry :=
    match l with
    | [] => []
    | e :: t => if Nat.eqb (ev e) v then e' :: t else e :: upd_first v e' t
    end.

  Fixpoint remove_first (v : nat) (l : list entry) : list entry :=
    match l with
    | [] => []
    | e :: t => if Nat.eqb (ev e) v then t else e :: remove_first v t
    end.

  Section Fire.
    Variable V : nat.                  (* number of voting threads, > 0 *)
    Variable batches : list batch.     (* the submitted batches, in order *)
    Variable lazy : bool.              (* false: the property's proviso holds (results are retrieved by another
                                          thread / before the next submission); true: the caller only retrieves
                                          after it has submitted everything *)

    Definition init : bstate :=
      mkB (MWait 0) (fun _ => sc0) 0%N (fun _ => 0) [] (fun _ => false) (fun _ => false) (fun _ => []) (fun _ => []).

    Definition after_batch (b : nat) : mpc :=
      if Nat.ltb (S b) (length batches) then MWait (S b) else MDropSend 0.

    Definition main_step (st : bstate) : option bstate :=
      match pc st with
      | MWait b =>
          if Nat.leb (length batches) b then
            (* no (more) batches: shut down *)
            Some (mkB (MDropSend 0) (scs st) (counter st) (mons st) (jobs st) (xsent st) (xdone st) (chans st) (consumed st))
          else
            let free := match b with O => true | S b' => Nat.eqb (mons st b') 0 end in
            if free then
              let bt := nth b batches [] in
              Some (mkB (MDisp b bt 0) (scs st) (counter st) (upd (mons st) b (length bt)) (jobs st)
                        (xsent st) (xdone st) (chans st) (consumed st))
            else None
      | MDisp b [] _ =>
          Some (mkB (after_batch b) (scs st) (counter st) (mons st) (jobs st) (xsent st) (xdone st) (chans st) (consumed st))
      | MDisp b ((s, ds) :: rest) i =>
          let '(sc1, d) := prep (scs st s) ds in
          Some (mkB (MDisp b rest (S i)) (updN (scs st) s sc1) (counter st) (mons st)
                    (jobs st ++ [mkE (Nat.modulo i V) (mkJob b s (length ds) d) Queued])
                    (xsent st) (xdone st) (chans st) (consumed st))
      | MDropSend v =>
          if Nat.ltb v V then
            Some (mkB (MDropJoin v) (scs st) (counter st) (mons st) (jobs st) (upd (xsent st) v true) (xdone st)
                      (chans st) (consumed st))
          else
            Some (mkB MDone (scs st) (counter st) (mons st) (jobs st) (xsent st) (xdone st) (chans st) (consumed st))
      | MDropJoin v =>
          if xdone st v then
            Some (mkB (MDropSend (S v)) (scs st) (counter st) (mons st) (jobs st) (xsent st) (xdone st)
                      (chans st) (consumed st))
          else None
      | MDone => None
      end.

    Definition vote_step (st : bstate) (v : nat) : option bstate :=
      if negb (Nat.ltb v V) then None else
      match first v (jobs st) with
      | None =>
          if xsent st v && negb (xdone st v) then
            Some (mkB (pc st) (scs st) (counter st) (mons st) (jobs st) (xsent st) (upd (xdone st) v true)
                      (chans st) (consumed st))
          else None
      | Some e =>
          let j := ej e in
          match ep e with
          | Queued =>
              Some (mkB (pc st) (scs st) (counter st) (mons st) (upd_first v (mkE v j (Work 0 [])) (jobs st))
                        (xsent st) (xdone st) (chans st) (consumed st))
          | Work i acc =>
              if Nat.ltb i (jn j) then
                let '(sc1, r, created) := write (scs st (js j)) (jd j) i in
                let t := (counter st + 1)%N in
                Some (mkB (pc st) (updN (scs st) (js j) sc1) t (mons st)
                          (upd_first v (mkE v j (Work (S i) (acc ++ [(r, if created then Some t else None)]))) (jobs st))
                          (xsent st) (xdone st) (chans st) (consumed st))
              else
                match chans st (jb j) with
                | [] =>
                    Some (mkB (pc st) (scs st) (counter st) (mons st) (upd_first v (mkE v j Sent) (jobs st))
                              (xsent st) (xdone st) (upd (chans st) (jb j) [(js j, acc)]) (consumed st))
                | _ :: _ => None           (* bounded(1) channel is full: the send blocks *)
                end
          | Sent =>
              Some (mkB (pc st) (scs st) (counter st) (upd (mons st) (jb j) (pred (mons st (jb j))))
                        (remove_first v (jobs st)) (xsent st) (xdone st) (chans st) (consumed st))
          end
      end.

    Definition submitted_all (st : bstate) : bool :=
      match pc st with MWait _ | MDisp _ _ _ => false | _ => true end.

    Definition consume_step (st : bstate) (b : nat) : option bstate :=
      if lazy && negb (submitted_all st) then None else
      match chans st b with
      | r :: rest =>
          Some (mkB (pc st) (scs st) (counter st) (mons st) (jobs st) (xsent st) (xdone st)
                    (upd (chans st) b rest) (upd (consumed st) b (consumed st b ++ [r])))
      | [] => None
      end.

    Definition bfire (st : bstate) (l : blabel) : option bstate :=
      match l with
      | BMain => main_step st
      | BVote v => vote_step st v
      | BConsume b => consume_step st b
      end.

    Fixpoint brun (st : bstate) (sigma : list blabel) : option bstate :=
      match sigma with
      | [] => Some st
      | l :: rest => match bfire st l with Some st' => brun st' rest | None => None end
      end.

    (* shut down and every result retrieved *)
    Definition bfinal (st : bstate) : bool :=
      match pc st with
      | MDone => forallb (fun b => Nat.eqb (length (consumed st b)) (length (nth b batches []))) (seq 0 (length batches))
      | _ => false
      end.

    Definition all_labels : list blabel :=
      BMain :: map BVote (seq 0 V) ++ map BConsume (seq 0 (length batches)).

    Definition benabled (st : bstate) : list blabel :=
      filter (fun l => match bfire st l with Some _ => true | None => false end) all_labels.
  End Fire.

  (* ---- the serial reference: one scene after the other, each job run to completion -------------------- *)
  Fixpoint writes (sc : SC) (d : JD) (i n : nat) : SC * list REC :=
    match n with
    | O => (sc, [])
    | S n' => let '(sc1, r, _) := write sc d i in
              let '(sc2, rs) := writes sc1 d (S i) n' in (sc2, r :: rs)
    end.

  (* what the simple tracker does on one call for one scene *)
  Definition simple_call (sc : SC) (ds : list DET) : SC * list REC :=
    let '(sc1, d) := prep sc ds in writes sc1 d 0 (length ds).

  Fixpoint simple_run (sc : SC) (calls : list (list DET)) : list (list REC) :=
    match calls with
    | [] => []
    | ds :: rest => let '(sc1, rs) := simple_call sc ds in rs :: simple_run sc1 rest
    end.

  Fixpoint ref_batch (sc : N -> SC) (bt : batch) : (N -> SC) * list (N * list REC) :=
    match bt with
    | [] => (sc, [])
    | (s, ds) :: rest =>
        let '(sc1, rs) := simple_call (sc s) ds in
        let '(sc2, out) := ref_batch (updN sc s sc1) rest in (sc2, (s, rs) :: out)
    end.

  Fixpoint ref_all (sc : N -> SC) (bs : list batch) : list (list (N * list REC)) :=
    match bs with
    | [] => []
    | bt :: rest => let '(sc1, out) := ref_batch sc bt in out :: ref_all sc1 rest
    end.

  (* scene states before batch b in the serial reference *)
  Fixpoint sc_before (sc : N -> SC) (bs : list batch) (b : nat) : N -> SC :=
    match b, bs with
    | S b', bt :: rest => sc_before (fst (ref_batch sc bt)) rest b'
    | _, _ => sc
    end.

  (* the sequence of detection lists one scene receives *)
  Definition proj (s : N) (bs : list batch) : list (list DET) :=
    flat_map (fun bt => flat_map (fun sd => if N.eqb (fst sd) s then [snd sd] else []) bt) bs.
End Batch.

Arguments mkB {SC DET JD REC}.
Arguments pc {SC DET JD REC}.
Arguments scs {SC DET JD REC}.
Arguments counter {SC DET JD REC}.
Arguments mons {SC DET JD REC}.
Arguments jobs {SC DET JD REC}.
Arguments xsent {SC DET JD REC}.
Arguments xdone {SC DET JD REC}.
Arguments chans {SC DET JD REC}.
Arguments consumed {SC DET JD REC}.
Arguments mkJob {JD}.
Arguments jb {JD}.
Arguments js {JD}.
Arguments jn {JD}.
Arguments jd {JD}.
Arguments mkE {JD REC}.
Arguments ev {JD REC}.
Arguments ej {JD REC}.
Arguments ep {JD REC}.
Arguments Queued {REC}.
Arguments Work {REC}.
Arguments Sent {REC}.
Arguments MWait {DET}.
Arguments MDisp {DET}.
Arguments MDropSend {DET}.
Arguments MDropJoin {DET}.
Arguments MDone {DET}.
Arguments first {JD REC}.
Arguments upd_first {JD REC}.
Arguments remove_first {JD REC}.
Arguments submitted_all {SC DET JD REC}.

(* =====================================================================================================
   A concrete instance used to validate recorded event traces of the real batch trackers against the
   protocol (the tracker part is trivial: only the protocol state matters for enabledness).
   ===================================================================================================== *)
Module BatchInst.
  Definition st := bstate unit unit unit unit.
  Definition prep0 (_ : unit) (_ : list unit) : unit * unit := (tt, tt).
  Definition write0 (_ : unit) (_ : unit) (_ : nat) : unit * unit * bool := (tt, tt, true).
  Definition fire := bfire unit unit unit unit prep0 write0.
  Definition init0 : st := init unit unit unit unit tt.

  (* a batch is given by its scenes in dispatch order with their detection counts *)
  Definition mk_batches (bs : list (list (N * nat))) : list (batch unit) :=
    map (map (fun sn => (fst sn, repeat tt (snd sn)))) bs.

  (* number of labels that could be fired, and whether the state reached is final *)
  Fixpoint run_count (V : nat) (bs : list (batch unit)) (lazy : bool) (s : st) (sigma : list blabel) (n : nat) : nat * bool :=
    match sigma with
    | [] => (n, bfinal unit unit unit unit bs s)
    | l :: rest => match fire V bs lazy s l with
                   | Some s' => run_count V bs lazy s' rest (S n)
                   | None => (n, false)
                   end
    end.

  Definition run_trace (V : nat) (bs : list (list (N * nat))) (sigma : list blabel) : nat * bool :=
    run_count V (mk_batches bs) false init0 sigma 0.

  Definition enabled_after (V : nat) (bs : list (list (N * nat))) (lazy : bool) (sigma : list blabel) : option (list blabel) :=
    match brun unit unit unit unit prep0 write0 V (mk_batches bs) lazy init0 sigma with
    | Some s => Some (benabled unit unit unit unit prep0 write0 V (mk_batches bs) lazy s)
    | None => None
    end.
End BatchInst.
